/-
  TephraProofs.RunMatchers — realise, once, the congruence equations of every
  `match` of the model (`TephraModel.*`).

  `grind` / `split` generate `<matcher>.congr_eq_<i>` (and their
  `_sparseCasesOn_<j>` helpers) on demand, in whichever module first needs them;
  two independent proof modules that both split on the matches of `run` then
  cannot be imported together ("environment already contains
  'Tephra.run.match_6.congr_eq_1._sparseCasesOn_2'").  Every proof module about
  `run` imports this one, so the constants exist exactly once.  No definitions,
  no theorems of ours, no axioms: only compiler-generated match equations.
-/
import TephraModel.Run
import Lean.Elab.Command

open Lean Meta Elab Command in
run_cmd liftTermElabM do
  let env ← getEnv
  for (n, _) in env.constants.map₁.toList do
    if (`Tephra).isPrefixOf n then
      if (← getMatcherInfo? n).isSome then
        if let some idx := env.getModuleIdxFor? n then
          if (`TephraModel).isPrefixOf env.header.moduleNames[idx.toNat]! then
            let _ ← Match.genMatchCongrEqns n
