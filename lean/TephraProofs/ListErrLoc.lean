/-
  TephraProofs.ListErrLoc — C11, the location clause: the error a delimited list
  reports for a bad segment lies between the delimiters of that segment.

  Parts
  A. `ErrWithin`; the window `Win` / `WinL` (a lexer in front of a boundary token `b`, only
     non-boundary tokens before it, stored positions at or after `lb`); `WinOps`: what the
     induction needs of a lexer invariant; two instances: the window (`winOps_win`) and "every
     stored position lies in `[lb, len]`" (`winOps_end`, for a segment that runs to the end of the
     text); the window theorem for the syntactic item fragment `locG` (`win_run`): every error the
     item returns has all its byte offsets in `[lb, b.stop.byte]`.
  B. `up_to(item, sep_or_abort)` (`upTo_win`, `item_err_located`); one value round:
     `firstTry_located`, `round_located`.
  C. the loop: `walkL` (`ListRefine.walk` with the byte range of every entry), `loop_located`, the
     segment bounds of the driver's oracle (`walkL_bounds`: `Fam.Oracles.segmentBounds`),
     `list_located`.
  D. the counterexample: with the SEMANTIC locality hypothesis `ItemHyp` alone the clause is false
     (`Outside.*`).
-/
import TephraProofs.RunMatchers
import TephraProofs.RunSpans
import TephraProofs.LeafUnexpected
import TephraProofs.ListRefine
import TephraProofs.ListLocal
import TephraProofs.ListWitness
import TephraModel.Fam.Oracles

set_option linter.unusedVariables false
set_option linter.unusedSimpArgs false
set_option linter.unusedSectionVars false

namespace Tephra.ListErrLoc
open Tephra Tephra.Spec Tephra.LexIter Tephra.PegRefine Tephra.BracketRefine Tephra.RecoverProof
open Tephra.ListRefine Tephra.ListLocal
open Tephra.Term (listFinish listItem listDv listLoop_succ)
open Tephra.RecoverFrame (specOf)

/-! ### A. the window -/

/-- both ends of the span lie in `[lo, hi]` (bytes) -/
def SpanIn (lo hi : Nat) (x : Span) : Prop := (lo ≤ x.s.byte ∧ x.s.byte ≤ hi) ∧ (lo ≤ x.e.byte ∧ x.e.byte ≤ hi)
/-- the position lies in `[lo, hi]` (bytes) -/
def PosIn (lo hi : Nat) (p : Pos) : Prop := lo ≤ p.byte ∧ p.byte ≤ hi

/-- **every byte offset mentioned by the error** — both ends of every span field, every
position field — **lies in `[lo, hi]`** -/
def ErrWithin (lo hi : Nat) (e : PErr) : Prop := ErrQ (SpanIn lo hi) (PosIn lo hi) e.body

/-- upper half -/
def SpanUp (hi : Nat) (x : Span) : Prop := x.s.byte ≤ hi ∧ x.e.byte ≤ hi
def ErrUp (hi : Nat) (e : ErrBody) : Prop := ErrQ (SpanUp hi) (fun p => p.byte ≤ hi) e
/-- lower half, in the form `run_spans` delivers it -/
def ErrLo (lo : Nat) (e : ErrBody) : Prop := ErrP (fun p => lo ≤ p.byte) e

theorem errWithin_of {lo hi : Nat} {e : PErr} (h1 : ErrLo lo e.body) (h2 : ErrUp hi e.body) : ErrWithin lo hi e := by
  unfold ErrWithin
  unfold ErrLo ErrP at h1
  unfold ErrUp at h2
  cases hb : e.body <;> rw [hb] at h1 h2 <;> simp only [ErrQ, SpanP, SpanUp, SpanIn, PosIn] at h1 h2 ⊢ <;> omega

theorem ErrWithin.mono {lo lo' hi hi' : Nat} {e : PErr} (h : ErrWithin lo hi e) (h1 : lo' ≤ lo) (h2 : hi ≤ hi') :
    ErrWithin lo' hi' e := by
  unfold ErrWithin at h ⊢
  cases hb : e.body <;> rw [hb] at h <;> simp only [ErrQ, SpanIn, PosIn] at h ⊢ <;> omega

theorem errWithin_apply {lo hi : Nat} {e : PErr} (ctx : Ctx) : ErrWithin lo hi (ctx.apply e) ↔ ErrWithin lo hi e := Iff.rfl

section Window
variable {R : RunEnv} {m : Metrics} {len : Nat}

/-- the token lies below `hi` -/
def Lim (hi : Nat) (x : RawTok Tok) : Prop := x.start.byte ≤ hi ∧ x.stop.byte ≤ hi

/-- **The window.**  The lexer's remaining filtered stream is `u ++ b :: rest` where `b` is a
token of a boundary kind (`bs`), no token of `u` is, and all of `u`, `b` end at or before
byte `hi`. -/
def Win (R : RunEnv) (m : Metrics) (len : Nat) (bs : List Nat) (hi : Nat) (lx : Lx) : Prop :=
  ∃ s u b rest, Abs R.E m len lx s ∧ s.view = u ++ b :: rest ∧
    (∀ x ∈ u, bs.contains x.tok.kind = false ∧ Lim hi x) ∧ bs.contains b.tok.kind = true ∧ Lim hi b

variable (ok : ScanOK R.E m len) (hp : PassOK R.E) {bs : List Nat} {hi : Nat}
include ok hp

/-- the next token of a lexer in the window -/
theorem win_head {lx : Lx} (h : Win R m len bs hi lx) :
    ∃ s x0 s', Abs R.E m len lx s ∧ s.pop = some (x0, s') ∧ Lim hi x0 ∧ lx.cursor.byte ≤ x0.start.byte ∧
      (∀ lx0, Abs R.E m len lx0 s → Win R m len bs hi lx0) ∧
      (bs.contains x0.tok.kind = false → ∀ lx', Abs R.E m len lx' s' → Win R m len bs hi lx') := by
  obtain ⟨s, u, b, rest, a, hv, hu, hb, hlb⟩ := h
  have hcur : ∀ x0 s', s.pop = some (x0, s') → lx.cursor.byte ≤ x0.start.byte := by
    intro x0 s' hpop
    obtain ⟨post, h1, _⟩ := pop_some_iff.mp hpop
    rw [a.rest] at h1
    obtain ⟨_, _, _, _, _, _, _, h6, _, _⟩ := (next_spec ok a.inv).2 x0 post h1
    exact h6
  have hsame : ∀ lx0, Abs R.E m len lx0 s → Win R m len bs hi lx0 :=
    fun lx0 a0 => ⟨s, u, b, rest, a0, hv, hu, hb, hlb⟩
  cases u with
  | nil =>
    obtain ⟨s', h1, h2, _⟩ := pop_view_cons (by simpa using hv)
    refine ⟨s, b, s', a, h1, hlb, hcur _ _ h1, hsame, ?_⟩
    intro hc; rw [hb] at hc; cases hc
  | cons x0 u' =>
    obtain ⟨s', h1, h2, _⟩ := pop_view_cons (by simpa using hv)
    refine ⟨s, x0, s', a, h1, (hu x0 (by simp)).2, hcur _ _ h1, hsame, ?_⟩
    intro _ lx' a'
    exact ⟨s', u', b, rest, a', h2, fun x hx => hu x (by simp [hx]), hb, hlb⟩

theorem next_win {lx : Lx} (h : Win R m len bs hi lx) :
    ∃ t lx', lx.next R.E = (some t, lx') ∧ SpanUp hi lx'.tokenSpan ∧
      (bs.contains t.kind = false → Win R m len bs hi lx') := by
  obtain ⟨s, x0, s', a, hpop, hl, _, _, hw⟩ := win_head ok hp h
  rcases next_cases ok hp a with ⟨lx1, _, h0⟩ | ⟨r, s1, lx1, e1, hpop1, a1, hts⟩
  · rw [hpop] at h0; cases h0
  · rw [hpop] at hpop1
    cases hpop1
    exact ⟨_, lx1, e1, by rw [hts]; exact hl, fun hc => hw hc lx1 a1⟩

theorem peek_win {lx : Lx} (h : Win R m len bs hi lx) :
    ∃ t lx', lx.peek R.E = (some t, lx') ∧ Win R m len bs hi lx' ∧
      (∃ sp, lx'.peekTokenSpan = some sp ∧ SpanUp hi sp) ∧
      (bs.contains t.kind = false → Win R m len bs hi (lx'.next R.E).2) := by
  obtain ⟨s, x0, s', a, hpop, hl, _, hsame, hw⟩ := win_head ok hp h
  rcases peek_cases ok hp a with ⟨lxp, _, _, h0⟩ | ⟨lxp, r, s1, lx1, e1, ap, hpop1, hn, a1⟩
  · rw [hpop] at h0; cases h0
  · rw [hpop] at hpop1
    cases hpop1
    obtain ⟨r', s'', hp', _, hsp, _⟩ := LeafErr.peek_some_info ok hp a e1
    rw [hpop] at hp'
    cases hp'
    exact ⟨_, lxp, e1, hsame lxp ap, ⟨_, hsp, hl⟩, fun hc => by rw [hn]; exact hw hc lx1 a1⟩

theorem parseSpan_win {lx : Lx} (h : Win R m len bs hi lx) : SpanUp hi lx.parseSpan := by
  obtain ⟨s, x0, s', a, hpop, hl, hc, _, _⟩ := win_head ok hp h
  rw [LeafErr.parseSpan_eq a.inv]
  have := a.inv.ps_le
  exact ⟨by show lx.parseStart.byte ≤ hi; have := hl.1; omega, by show lx.cursor.byte ≤ hi; have := hl.1; omega⟩

/-! the lower bound rides along: every position stored in the lexer is at or after byte `lo` -/

omit hp in
theorem closed_lo (lo : Nat) : Closed R.E (fun p => lo ≤ p.byte) m := by
  intro s p tok adv s' h1 h2
  have := (ok.progress _ _ _ _ _ h2).1
  show lo ≤ adv.byte
  have : lo ≤ p.byte := h1
  omega

/-- the window with the lower bound -/
def WinL (R : RunEnv) (m : Metrics) (len : Nat) (bs : List Nat) (lo hi : Nat) (lx : Lx) : Prop :=
  Win R m len bs hi lx ∧ PosOK (fun p => lo ≤ p.byte) lx

omit ok hp in
theorem spanIn_of {lo hi : Nat} {x : Span} (h1 : SpanP (fun p => lo ≤ p.byte) x) (h2 : SpanUp hi x) : SpanIn lo hi x :=
  ⟨⟨h1.1, h2.1⟩, ⟨h1.2, h2.2⟩⟩

variable {lb : Nat}

omit ok hp in
theorem WinL.li {lx : Lx} (h : WinL R m len bs lb hi lx) : RunSpans.LI (fun p => lb ≤ p.byte) m lx := by
  obtain ⟨⟨s, _, _, _, a, _⟩, h2⟩ := h
  exact ⟨h2, a.inv.hmet⟩

theorem next_winL {lx : Lx} (h : WinL R m len bs lb hi lx) :
    ∃ t lx', lx.next R.E = (some t, lx') ∧ SpanIn lb hi lx'.tokenSpan ∧
      (bs.contains t.kind = false → WinL R m len bs lb hi lx') := by
  obtain ⟨t, lx', e, hts, hw⟩ := next_win ok hp h.1
  have hli := RunSpans.LI_next' (closed_lo ok lb) h.li e
  exact ⟨t, lx', e, spanIn_of (RunSpans.tokenSpan_Q (RunSpans.QEncl_SpanP _) hli) hts, fun hc => ⟨hw hc, hli.1⟩⟩

theorem peek_winL {lx : Lx} (h : WinL R m len bs lb hi lx) :
    ∃ t lx', lx.peek R.E = (some t, lx') ∧ WinL R m len bs lb hi lx' ∧
      (∃ sp, lx'.peekTokenSpan = some sp ∧ SpanIn lb hi sp) ∧
      (bs.contains t.kind = false → WinL R m len bs lb hi (lx'.next R.E).2) := by
  obtain ⟨t, lx', e, hw', ⟨sp, hsp, hts⟩, hw⟩ := peek_win ok hp h.1
  have hli := RunSpans.LI_peek' (closed_lo ok lb) h.li e
  refine ⟨t, lx', e, ⟨hw', hli.1⟩, ⟨sp, hsp, spanIn_of (RunSpans.peekTokenSpan_Q (RunSpans.QEncl_SpanP _) hli hsp) hts⟩,
    fun hc => ⟨hw hc, (RunSpans.LI_next (closed_lo ok lb) hli).1⟩⟩

theorem parseSpan_winL {lx : Lx} (h : WinL R m len bs lb hi lx) : SpanIn lb hi lx.parseSpan :=
  spanIn_of (RunSpans.parseSpan_Q (RunSpans.QEncl_SpanP _) h.li) (parseSpan_win ok hp h.1)

omit ok hp in
theorem enclosing_up {a b : Pos} (h : SpanUp hi (Span.enclosing a b)) : a.byte ≤ hi ∧ b.byte ≤ hi := by
  unfold Span.enclosing at h
  split at h
  · exact ⟨h.2, h.1⟩
  · exact h

theorem next_win_cursor {lx : Lx} (h : Win R m len bs hi lx) :
    ∃ t lx', lx.next R.E = (some t, lx') ∧ lx'.cursor.byte ≤ hi ∧
      (bs.contains t.kind = false → Win R m len bs hi lx') := by
  obtain ⟨t, lx', e, hts, hw⟩ := next_win ok hp h
  exact ⟨t, lx', e, (enclosing_up hts).2, hw⟩

/-- `advance_to(boundary)` from a lexer in the window stops at or before `hi` -/
theorem advanceTo_win (lx : Lx) (h : Win R m len bs hi lx) :
    (lx.advanceTo R.E (fun t => bs.contains t.kind)).2.cursor.byte ≤ hi := by
  fun_induction Lexer.advanceTo R.E (fun t => bs.contains t.kind) lx with
  | case1 lx lx' h0 =>
    obtain ⟨t, lx1, e, _⟩ := next_win_cursor ok hp h
    rw [h0] at e; cases e
  | case2 lx t lx' h0 hpred =>
    obtain ⟨t1, lx1, e, hc, _⟩ := next_win_cursor ok hp h
    rw [h0] at e; cases e
    exact hc
  | case3 lx t lx' h0 hpred hg ih =>
    obtain ⟨t1, lx1, e, hc, hw⟩ := next_win_cursor ok hp h
    rw [h0] at e; cases e
    exact ih (hw (by simpa using hpred))
  | case4 lx t lx' h0 hpred hg =>
    obtain ⟨t1, lx1, e, hc, _⟩ := next_win_cursor ok hp h
    rw [h0] at e; cases e
    exact hc

/-- What the window induction needs of an invariant `I` on lexers (boundary kinds `bs`, byte
range `[lb, hi]`): the spans a primitive reads off the lexer after `next` / `peek` lie in the
range, `I` survives `peek` and the consumption of a non-boundary token, and `advance_to(boundary)`
stops inside the range. -/
structure WinOps (R : RunEnv) (bs : List Nat) (lb hi : Nat) (I : Lx → Prop) : Prop where
  nextS : ∀ lx t lx', I lx → lx.next R.E = (some t, lx') →
    SpanIn lb hi lx'.tokenSpan ∧ (bs.contains t.kind = false → I lx')
  nextN : ∀ lx lx', I lx → lx.next R.E = (none, lx') → SpanIn lb hi lx'.tokenSpan
  peekS : ∀ lx t lx', I lx → lx.peek R.E = (some t, lx') →
    I lx' ∧ SpanIn lb hi (lx'.peekTokenSpan.getD lx'.tokenSpan) ∧ (bs.contains t.kind = false → I (lx'.next R.E).2)
  peekN : ∀ lx lx', I lx → lx.peek R.E = (none, lx') → I lx' ∧ SpanIn lb hi lx'.tokenSpan
  ps : ∀ lx, I lx → SpanIn lb hi lx.parseSpan
  adv : ∀ lx, I lx → PosIn lb hi (lx.advanceTo R.E (fun t => bs.contains t.kind)).2.cursor

/-- the window is such an invariant -/
theorem winOps_win : WinOps R (bs) lb hi (WinL R m len bs lb hi) := by
  refine ⟨?_, ?_, ?_, ?_, ?_, ?_⟩
  · intro lx t lx' h e
    obtain ⟨t1, lx1, e1, h1, h2⟩ := next_winL ok hp h
    rw [e] at e1; cases e1
    exact ⟨h1, h2⟩
  · intro lx lx' h e
    obtain ⟨t1, lx1, e1, _⟩ := next_winL ok hp h
    rw [e] at e1; cases e1
  · intro lx t lx' h e
    obtain ⟨t1, lx1, e1, h1, ⟨sp, hsp, h2⟩, h3⟩ := peek_winL ok hp h
    rw [e] at e1; cases e1
    exact ⟨h1, by rw [hsp]; exact h2, h3⟩
  · intro lx lx' h e
    obtain ⟨t1, lx1, e1, _⟩ := peek_winL ok hp h
    rw [e] at e1; cases e1
  · intro lx h; exact parseSpan_winL ok hp h
  · intro lx h
    exact ⟨(RunSpans.LI_advanceTo (closed_lo ok lb) _ h.li).1.2.2.1, advanceTo_win ok hp lx h.1⟩

omit hp in
/-- so is "every stored position lies in `[lb, len]`" (no boundary token needed): the range of a
segment that runs to the end of the text -/
theorem winOps_end : WinOps R bs lb len (RunSpans.LI (fun p => lb ≤ p.byte ∧ p.byte ≤ len) m) := by
  have hc : Closed R.E (fun p => lb ≤ p.byte ∧ p.byte ≤ len) m := by
    intro s p tok adv s' h1 h2
    have := ok.progress _ _ _ _ _ h2
    have : lb ≤ p.byte := h1.1
    exact ⟨by omega, by omega⟩
  have hQ := RunSpans.QEncl_SpanP (fun p : Pos => lb ≤ p.byte ∧ p.byte ≤ len)
  have cv : ∀ x : Span, SpanP (fun p => lb ≤ p.byte ∧ p.byte ≤ len) x → SpanIn lb len x := fun x h => h
  refine ⟨?_, ?_, ?_, ?_, ?_, ?_⟩
  · intro lx t lx' h e
    have h1 := RunSpans.LI_next' hc h e
    exact ⟨cv _ (RunSpans.tokenSpan_Q hQ h1), fun _ => h1⟩
  · intro lx lx' h e
    exact cv _ (RunSpans.tokenSpan_Q hQ (RunSpans.LI_next' hc h e))
  · intro lx t lx' h e
    have h1 := RunSpans.LI_peek' hc h e
    exact ⟨h1, cv _ (RunSpans.peekTokenSpan_getD_Q hQ h1), fun _ => RunSpans.LI_next hc h1⟩
  · intro lx lx' h e
    have h1 := RunSpans.LI_peek' hc h e
    exact ⟨h1, cv _ (RunSpans.tokenSpan_Q hQ h1)⟩
  · intro lx h; exact cv _ (RunSpans.parseSpan_Q hQ h)
  · intro lx h; exact (RunSpans.LI_advanceTo hc _ h).1.2.2.1

end Window

/-! the window induction, for any such invariant -/

section Generic
variable {R : RunEnv} {bs : List Nat} {lb hi : Nat} {I : Lx → Prop} (ops : WinOps R bs lb hi I)

/-- the result of a parser run in the window: a returned lexer is still in the window, a
returned error lies in `[lo, hi]` -/
def ROK (I : Lx → Prop) (lb hi : Nat) : RRes → Prop
  | .ok _ lx' => I lx'
  | .err e => ErrWithin lb hi e
  | .panic => True
  | .fuel => True

include ops in
theorem seqLoop_win (es : Span) (hes : SpanIn lb hi es) : ∀ (ks : List Nat) (lx : Lx) (acc : List Tok),
    ks.all (fun k => !bs.contains k) = true → I lx →
    ROK I lb hi (seqLoop R es ks lx acc) := by
  intro ks
  induction ks with
  | nil => intro lx acc _ h; simpa [seqLoop, ROK] using h
  | cons k ks ih =>
    intro lx acc hks h
    simp only [List.all_cons, Bool.and_eq_true] at hks
    have hk : bs.contains k = false := by simpa using hks.1
    simp only [seqLoop]
    split
    · next t lx' e =>
      obtain ⟨hts, hw⟩ := ops.nextS _ _ _ h e
      split
      · next htk =>
        have : t.kind = k := by simpa using htk
        exact ih lx' _ hks.2 (hw (by rw [this]; exact hk))
      · exact ⟨hes, hts⟩
    · next lx' e => exact ⟨hes, ops.nextN _ _ h e⟩

theorem countOf_ROK (v : Nat) (r : RRes × World) (h : ROK I lb hi r.1) : ROK I lb hi (countOf v r).1 := by
  unfold countOf
  split
  · exact h
  · split
    · exact h
    · exact h

/-- the window theorem at one fuel, for `run` and the loops of `repeat` / `intersperse` -/
structure WAt (R : RunEnv) (bs : List Nat) (lb hi : Nat) (I : Lx → Prop) (n : Nat) : Prop where
  run : ∀ g lx ctx W, locG bs g = true → I lx → ROK I lb hi (run R n g lx ctx W).1
  sepItem : ∀ a sep lx ctx W, locG bs a = true → locG bs sep = true → I lx →
    ROK I lb hi (sepItem R n a sep lx ctx W).1
  interLoopStart : ∀ lo h a sep lx ctx W, locG bs a = true → locG bs sep = true → I lx →
    ROK I lb hi (interLoopStart R n lo h a sep lx ctx W).1
  interLoop : ∀ lo h a sep vals lx ctx W, locG bs a = true → locG bs sep = true → I lx →
    ROK I lb hi (interLoop R n lo h a sep vals lx ctx W).1

theorem wAt_zero : WAt R bs lb hi I 0 := by
  constructor <;> intros <;> simp [run, sepItem, interLoopStart, interLoop, ROK]

theorem ROK_ok {x : RRes × World} {v : Val} {lx' : Lx} {W : World} (h : ROK I lb hi x.1)
    (he : x = (.ok v lx', W)) : I lx' := by subst he; exact h

include ops in
theorem run_step (n : Nat) (ih : WAt R bs lb hi I n) (g : G) (lx : Lx) (ctx : Ctx) (W : World)
    (hg : locG bs g = true) (hl : I lx) : ROK I lb hi (run R (n + 1) g lx ctx W).1 := by
  obtain ⟨ihr, ihsep, ihis, ihil⟩ := ih
  have hps := ops.ps _ hl
  cases g <;> simp only [locG, Bool.and_eq_true, Bool.not_eq_true', Bool.false_eq_true] at hg <;> simp only [run]
  case empty => exact hl
  case one k =>
    split
    · next t lx' e =>
      obtain ⟨hts, hw⟩ := ops.nextS _ _ _ hl e
      split
      · next htk =>
        have : t.kind = k := by simpa using htk
        exact hw (by rw [this]; exact hg)
      · exact ⟨hps, hts⟩
    · next lx' e => exact ⟨hps, ops.nextN _ _ hl e⟩
  case any ks =>
    rw [if_neg (by simp [hg.1])]
    split
    · next t lx' e =>
      obtain ⟨hw', hts, hw⟩ := ops.peekS _ _ _ hl e
      split
      · next k hf =>
        have hm : ks.contains t.kind = true := by rw [contains_find, hf]; rfl
        exact hw (contains_of_all hg.2 hm)
      · exact ⟨hps, hts⟩
    · next lx' e => exact ⟨hps, (ops.peekN _ _ hl e).2⟩
  case anyIndex ks =>
    rw [if_neg (by simp [hg.1])]
    split
    · next t lx' e =>
      obtain ⟨hw', hts, hw⟩ := ops.peekS _ _ _ hl e
      split
      · next i hf =>
        have hm : ks.contains t.kind = true := by
          unfold position at hf
          rw [List.findIdx?_eq_some_iff_getElem] at hf
          obtain ⟨hi', hx, _⟩ := hf
          have : ks[i] = t.kind := by simpa using hx
          rw [← this]; simp
        exact hw (contains_of_all hg.2 hm)
      · exact ⟨hps, hts⟩
    · next lx' e => exact ⟨hps, (ops.peekN _ _ hl e).2⟩
  case seq ks => exact seqLoop_win ops _ hps ks lx [] hg hl
  case pred p =>
    split
    · next lx' e => exact ⟨hps, ops.nextN _ _ hl e⟩
    · next t lx' e =>
      obtain ⟨hts, hw⟩ := ops.nextS _ _ _ hl e
      split
      · next hpt =>
        apply hw
        cases hc : bs.contains t.kind with
        | false => rfl
        | true =>
          have := List.all_eq_true.mp hg t.kind (by simpa using hc)
          rw [PE.eval_kind] at hpt
          simp [hpt] at this
      · exact ⟨hps, hts⟩
  case both a b =>
    split
    · next v1 lx1 W1 h1 =>
      have g1 := ROK_ok (ihr a lx ctx W hg.1 hl) h1
      split
      · next v2 lx2 W2 h2 => exact ROK_ok (ihr b lx1 ctx W1 hg.2 g1) h2
      · exact ihr _ _ _ _ hg.2 g1
    · exact ihr _ _ _ _ hg.1 hl
  case left a b =>
    have hb : locG bs (.both a b) = true := by simp [locG, hg.1, hg.2]
    split
    · next v1 v2 lx2 W2 h => exact ROK_ok (ihr _ lx ctx W hb hl) h
    · exact ihr _ _ _ _ hb hl
  case right a b =>
    have hb : locG bs (.both a b) = true := by simp [locG, hg.1, hg.2]
    split
    · next v1 v2 lx2 W2 h => exact ROK_ok (ihr _ lx ctx W hb hl) h
    · exact ihr _ _ _ _ hb hl
  case center a b c =>
    split
    · next v1 lx1 W1 h1 =>
      have g1 := ROK_ok (ihr a lx ctx W hg.1.1 hl) h1
      split
      · next v2 lx2 W2 h2 =>
        have g2 := ROK_ok (ihr b lx1 ctx W1 hg.1.2 g1) h2
        split
        · next v3 lx3 W3 h3 => exact ROK_ok (ihr c lx2 ctx W2 hg.2 g2) h3
        · exact ihr _ _ _ _ hg.2 g2
      · exact ihr _ _ _ _ hg.1.2 g1
    · exact ihr _ _ _ _ hg.1.1 hl
  case map a =>
    split
    · next v lx1 W1 h => exact ROK_ok (ihr a lx ctx W hg hl) h
    · exact ihr _ _ _ _ hg hl
  case someOf a =>
    split
    · next v lx1 W1 h => exact ROK_ok (ihr a lx ctx W hg hl) h
    · exact ihr _ _ _ _ hg hl
  case discard a =>
    split
    · next v lx1 W1 h => exact ROK_ok (ihr a lx ctx W hg hl) h
    · exact ihr _ _ _ _ hg hl
  case either a b =>
    split
    · next e W1 h => exact ihr _ _ _ _ hg.2 hl
    · exact ihr _ _ _ _ hg.1 hl
  case maybe a =>
    split
    · next v lx1 W1 h => exact ROK_ok (ihr a lx _ W hg hl) h
    · exact hl
    · exact ihr _ _ _ _ hg hl
  case requireIf flag a =>
    split
    · split
      · next v lx1 W1 h => exact ROK_ok (ihr a lx ctx W hg hl) h
      · exact ihr _ _ _ _ hg hl
    · exact ihr (.maybe a) _ _ _ (by simpa [locG] using hg) hl
  case cond flag a =>
    split
    · split
      · next v lx1 W1 h => exact ROK_ok (ihr a lx ctx W hg hl) h
      · exact ihr _ _ _ _ hg hl
    · exact hl
  case implies a b =>
    have hm : locG bs (.maybe a) = true := by simpa [locG] using hg.1
    split
    · next lx1 W1 h => exact ROK_ok (ihr _ lx ctx W hm hl) h
    · next l lx1 W1 h =>
      have g1 := ROK_ok (ihr _ lx ctx W hm hl) h
      split
      · next r lx2 W2 h2 => exact ROK_ok (ihr b lx1 ctx W1 hg.2 g1) h2
      · exact ihr _ _ _ _ hg.2 g1
    · exact ihr _ _ _ _ hm hl
  case antecedent a b =>
    have hb : locG bs (.implies a b) = true := by simp [locG, hg.1, hg.2]
    split
    · next l r lx2 W2 h => exact ROK_ok (ihr _ lx ctx W hb hl) h
    · exact ihr _ _ _ _ hb hl
  case consequent a b =>
    have hb : locG bs (.implies a b) = true := by simp [locG, hg.1, hg.2]
    split
    · next l r lx2 W2 h => exact ROK_ok (ihr _ lx ctx W hb hl) h
    · exact ihr _ _ _ _ hb hl
  case condImplies a k b =>
    have hm : locG bs (.maybe a) = true := by simpa [locG] using hg.1
    split
    · next lx1 W1 h => exact ROK_ok (ihr _ lx ctx W hm hl) h
    · next l lx1 W1 h =>
      have g1 := ROK_ok (ihr _ lx ctx W hm hl) h
      split <;> split
      all_goals first
        | exact g1
        | (split
           · next r lx2 W2 h2 => exact ROK_ok (ihr b lx1 ctx W1 hg.2 g1) h2
           · exact ihr _ _ _ _ hg.2 g1)
    · exact ihr _ _ _ _ hm hl
  case repeat_ v lo h a => exact countOf_ROK _ _ (ihis lo h a .empty lx ctx W hg.2 rfl hl)
  case intersperse v lo h a sp => exact countOf_ROK _ _ (ihis _ _ _ _ _ _ _ hg.1.2 hg.2 hl)
  case intersperseDefault lo h a k =>
    exact ihis _ _ _ _ _ _ _ hg.1.2 (by simpa [locG] using hg.2) hl

include ops in
theorem wAt_succ (n : Nat) (ih : WAt R bs lb hi I n) : WAt R bs lb hi I (n + 1) := by
  have hrun := run_step ops n ih
  obtain ⟨ihr, ihsep, ihis, ihil⟩ := ih
  refine ⟨hrun, ?_, ?_, ?_⟩
  · intro a sep lx ctx W ha hs hl
    simp only [sepItem]
    split
    · next v lx1 W1 h => exact ihr _ _ _ _ ha (ROK_ok (ihr sep lx ctx W hs hl) h)
    · exact ihr _ _ _ _ hs hl
  · intro lo h a sep lx ctx W ha hs hl
    simp only [interLoopStart]
    split
    · trivial
    split
    · exact hl
    split
    · next v lx1 W1 h1 => exact ihil _ _ _ _ _ _ _ _ ha hs (ROK_ok (ihr a lx ctx W ha hl) h1)
    · next e W1 h1 =>
      split
      · exact hl
      · have := ihr a lx ctx W ha hl
        rw [h1] at this
        exact this
    · exact ihr _ _ _ _ ha hl
  · intro lo h a sep vals lx ctx W ha hs hl
    simp only [interLoop]
    split
    · split
      · next v lx1 W1 h1 => exact ihil _ _ _ _ _ _ _ _ ha hs (ROK_ok (ihsep a sep lx ctx W ha hs hl) h1)
      · exact ihsep _ _ _ _ _ ha hs hl
    · split
      · split
        · next v lx1 W1 h1 =>
          have g := ROK_ok (ihsep a sep lx ctx W ha hs hl) h1
          split
          · exact g
          · exact ihil _ _ _ _ _ _ _ _ ha hs g
        · exact hl
        · exact ihsep _ _ _ _ _ ha hs hl
      · exact hl

include ops in
theorem wAt : ∀ n, WAt R bs lb hi I n
  | 0 => wAt_zero
  | n + 1 => wAt_succ ops n (wAt n)

include ops in
/-- **The window theorem.**  An item of the syntactic fragment `locG bs`, run on a lexer satisfying
such an invariant — e.g. in front of a boundary token `b` with only non-boundary tokens before it
(`winOps_win`: the item never gets past `b`) — returns a lexer satisfying it, or an error all of
whose byte offsets lie in `[lb, hi]`. -/
theorem win_run (n : Nat) (g : G) (lx : Lx) (ctx : Ctx) (W : World) (hg : locG bs g = true)
    (hl : I lx) : ROK I lb hi (run R n g lx ctx W).1 :=
  (wAt ops n).run g lx ctx W hg hl

include ops in
/-- **`up_to(item, boundary)`**: whatever error it returns — the item's own, or the `boundary`
error of `up_to` — lies in `[lb, hi]`. -/
theorem upTo_win (n : Nat) (a : G) (lx : Lx) (ctx : Ctx) (W : World) (ha : locG bs a = true)
    (hl : I lx) (e : PErr) (he : (run R n (.upTo a bs) lx ctx W).1 = .err e) :
    ErrWithin lb hi e := by
  cases n with
  | zero => simp [run] at he
  | succ n =>
    simp only [run] at he
    have hr := win_run ops n a lx ctx W ha hl
    split at he
    · next v lx1 W1 h1 =>
      have hl1 : I lx1 := ROK_ok hr h1
      split at he
      · cases he
      · next t lx2 e2 =>
        obtain ⟨hl2, _, _⟩ := ops.peekS _ _ _ hl1 e2
        split at he
        · cases he
        · simp only [RRes.err.injEq] at he
          subst he
          exact ⟨ops.ps _ hl2, ops.adv _ hl2⟩
    · next r hne =>
      rcases hx : run R n a lx ctx W with ⟨x, W'⟩
      rw [hx] at he hr
      simp only at he
      subst he
      exact hr

end Generic

/-! the walk of the loop with the byte bounds of every segment -/

/-- `ListRefine.walk` with, for each entry, the byte range of its segment: from `left` (the start of
the separator before it, or of the list) to the end of the separator / abort token after it (or the
end of the text, `len`) -/
def walkL (judge : List (RawTok Tok) → Option Val) (sep : Nat) (abort : List Nat) (len : Nat) :
    Nat → Option Nat → List (RawTok Tok) → List (Option Val × Nat × Nat)
  | _, _, [] => []
  | left, hi, r :: V =>
    if abort.contains r.tok.kind then [] else
    match h : tailOf sep abort (r :: V) with
    | [] => [(judge (segOf sep abort (r :: V)), left, len)]
    | t :: tl =>
      if hi == some 1 || abort.contains t.tok.kind then
        [(judge (segOf sep abort (r :: V)), left, t.stop.byte)]
      else
        (judge (segOf sep abort (r :: V)), left, t.stop.byte) ::
          walkL judge sep abort len t.start.byte (hi.map (· - 1)) tl
termination_by _ _ V => V.length
decreasing_by
  have := tail_length_lt h
  simpa using this

section WalkL
variable (judge : List (RawTok Tok) → Option Val) (sep : Nat) (abort : List Nat) (len : Nat)

theorem walkL_nil (left : Nat) (hi : Option Nat) : walkL judge sep abort len left hi [] = [] := by
  rw [walkL]

theorem walkL_abort (left : Nat) (hi : Option Nat) {r : RawTok Tok} {V} (h : abort.contains r.tok.kind = true) :
    walkL judge sep abort len left hi (r :: V) = [] := by
  rw [walkL]; rw [if_pos h]

theorem walkL_end (left : Nat) (hi : Option Nat) {r : RawTok Tok} {V} (h : abort.contains r.tok.kind = false)
    (htl : tailOf sep abort (r :: V) = []) :
    walkL judge sep abort len left hi (r :: V) = [(judge (segOf sep abort (r :: V)), left, len)] := by
  rw [walkL]
  simp only [h, Bool.false_eq_true, if_false]
  split
  · rfl
  · next t tl h' => rw [htl] at h'; cases h'

theorem walkL_stop (left : Nat) (hi : Option Nat) {r : RawTok Tok} {V t tl} (h : abort.contains r.tok.kind = false)
    (htl : tailOf sep abort (r :: V) = t :: tl) (hs : (hi == some 1 || abort.contains t.tok.kind) = true) :
    walkL judge sep abort len left hi (r :: V) = [(judge (segOf sep abort (r :: V)), left, t.stop.byte)] := by
  rw [walkL]
  simp only [h, Bool.false_eq_true, if_false]
  split
  · next h' => rw [htl] at h'; cases h'
  · next t' tl' h' =>
    rw [htl] at h'; cases h'
    rw [if_pos hs]

theorem walkL_step (left : Nat) (hi : Option Nat) {r : RawTok Tok} {V t tl} (h : abort.contains r.tok.kind = false)
    (htl : tailOf sep abort (r :: V) = t :: tl) (hs : (hi == some 1 || abort.contains t.tok.kind) = false) :
    walkL judge sep abort len left hi (r :: V) =
      (judge (segOf sep abort (r :: V)), left, t.stop.byte) ::
        walkL judge sep abort len t.start.byte (hi.map (· - 1)) tl := by
  rw [walkL]
  simp only [h, Bool.false_eq_true, if_false]
  split
  · next h' => rw [htl] at h'; cases h'
  · next t' tl' h' =>
    rw [htl] at h'; cases h'
    rw [if_neg (by rw [hs]; simp)]

/-- the entries of `walkL` are those of `walk` -/
theorem walkL_ents : ∀ (n : Nat) (V : List (RawTok Tok)) (left : Nat) (hi : Option Nat), V.length ≤ n →
    (walkL judge sep abort len left hi V).map (·.1) = (walk judge sep abort hi V).ents := by
  intro n
  induction n with
  | zero =>
    intro V left hi hV
    have : V = [] := List.eq_nil_of_length_eq_zero (by omega)
    subst this
    rw [walkL_nil, walk_nil]; rfl
  | succ n ih =>
    intro V left hi hV
    cases V with
    | nil => rw [walkL_nil, walk_nil]; rfl
    | cons r V0 =>
      by_cases hab : abort.contains r.tok.kind = true
      · rw [walkL_abort _ _ _ _ _ _ hab, walk_abort _ _ _ _ hab]; rfl
      · have hab' : abort.contains r.tok.kind = false := by simpa using hab
        cases htl : tailOf sep abort (r :: V0) with
        | nil => rw [walkL_end _ _ _ _ _ _ hab' htl, walk_end _ _ _ _ hab' htl]; rfl
        | cons t tl =>
          cases hs : (hi == some 1 || abort.contains t.tok.kind) with
          | true => rw [walkL_stop _ _ _ _ _ _ hab' htl hs, walk_stop _ _ _ _ hab' htl hs]; rfl
          | false =>
            rw [walkL_step _ _ _ _ _ _ hab' htl hs, walk_step _ _ _ _ hab' htl hs]
            have hlen : tl.length ≤ n := by
              have := tail_length_lt htl
              simp only [List.length_cons] at this hV
              omega
            simp only [List.map_cons]
            rw [ih tl _ _ hlen]

/-- `go` of the oracle's `segmentBounds` skips the tokens of a segment -/
theorem go_seg (left : Nat) : ∀ (V : List (RawTok Tok)),
    Fam.Oracles.segmentBounds.go sep abort len left V =
      Fam.Oracles.segmentBounds.go sep abort len left (tailOf sep abort V) := by
  intro V
  induction V with
  | nil => rfl
  | cons r V ih =>
    cases hb : bnd sep abort r.tok.kind with
    | true =>
      have : tailOf sep abort (r :: V) = r :: V := by simp [tailOf, hb]
      rw [this]
    | false =>
      have : tailOf sep abort (r :: V) = tailOf sep abort V := by simp [tailOf, hb]
      rw [this, ← ih]
      obtain ⟨h1, h2⟩ := bnd_false hb
      simp only [Fam.Oracles.segmentBounds.go, h2, Bool.false_eq_true, if_false, h1]

/-- the bounds of `walkL` are an initial part of the oracle's `segmentBounds` -/
theorem walkL_bounds : ∀ (n : Nat) (V : List (RawTok Tok)) (left : Nat) (hi : Option Nat), V.length ≤ n →
    (walkL judge sep abort len left hi V).map (·.2) <+: Fam.Oracles.segmentBounds.go sep abort len left V := by
  intro n
  induction n with
  | zero =>
    intro V left hi hV
    have : V = [] := List.eq_nil_of_length_eq_zero (by omega)
    subst this
    rw [walkL_nil]; exact List.nil_prefix
  | succ n ih =>
    intro V left hi hV
    cases V with
    | nil => rw [walkL_nil]; exact List.nil_prefix
    | cons r V0 =>
      by_cases hab : abort.contains r.tok.kind = true
      · rw [walkL_abort _ _ _ _ _ _ hab]; exact List.nil_prefix
      · have hab' : abort.contains r.tok.kind = false := by simpa using hab
        rw [go_seg]
        cases htl : tailOf sep abort (r :: V0) with
        | nil =>
          rw [walkL_end _ _ _ _ _ _ hab' htl]
          simp [Fam.Oracles.segmentBounds.go]
        | cons t tl =>
          have hbt := tail_head htl
          cases hs : (hi == some 1 || abort.contains t.tok.kind) with
          | true =>
            rw [walkL_stop _ _ _ _ _ _ hab' htl hs]
            simp only [Fam.Oracles.segmentBounds.go, List.map_cons, List.map_nil]
            split
            · exact List.prefix_refl _
            · split
              · exact List.prefix_cons_inj _ |>.mpr List.nil_prefix
              · next h1 h2 =>
                exfalso
                unfold bnd at hbt
                have e1 : abort.contains t.tok.kind = false := by simpa using h1
                have e2 : (t.tok.kind == sep) = false := by simpa using h2
                rw [e1, e2] at hbt
                cases hbt
          | false =>
            rw [walkL_step _ _ _ _ _ _ hab' htl hs]
            have habt : abort.contains t.tok.kind = false := by
              cases hc : abort.contains t.tok.kind with
              | false => rfl
              | true => rw [hc] at hs; simp at hs
            have htsep : (t.tok.kind == sep) = true := by
              unfold bnd at hbt
              rw [habt, Bool.or_false] at hbt
              exact hbt
            have hlen : tl.length ≤ n := by
              have := tail_length_lt htl
              simp only [List.length_cons] at this hV
              omega
            simp only [Fam.Oracles.segmentBounds.go, habt, Bool.false_eq_true, if_false, htsep, if_true, List.map_cons]
            exact (List.prefix_cons_inj _).mpr (ih tl _ _ hlen)

end WalkL

/-- the errors `errs` are, in order, the errors of the bad entries of `L`, each within the byte
range of its entry -/
def LocT : List (Option Val × Nat × Nat) → List PErr → Prop
  | [], errs => errs = []
  | (some _, _) :: L, errs => LocT L errs
  | (none, lo, hi) :: L, e :: errs => ErrWithin lo hi e ∧ LocT L errs
  | (none, _) :: _, [] => False

theorem LocT_length : ∀ (L : List (Option Val × Nat × Nat)) (errs : List PErr), LocT L errs →
    errs.length = nbad (L.map (·.1)) := by
  intro L
  induction L with
  | nil => intro errs h; simp only [LocT] at h; subst h; rfl
  | cons x L ih =>
    intro errs h
    obtain ⟨ev, lo, hi⟩ := x
    rw [List.map_cons, nbad_cons]
    cases ev with
    | some y =>
      simp only [LocT] at h
      rw [ih errs h]; simp [nbad]
    | none =>
      cases errs with
      | nil => simp [LocT] at h
      | cons e errs =>
        simp only [LocT] at h
        rw [List.length_cons, ih errs h.2]; simp [nbad]; omega

/-- `LocT` in the form of the driver's oracle: the `k`-th error lies within the `k`-th of the
bounds of the bad entries -/
theorem LocT_get : ∀ (L : List (Option Val × Nat × Nat)) (errs : List PErr), LocT L errs →
    ∀ (k : Nat) (b : Nat × Nat), ((L.filter (·.1.isNone)).map (·.2))[k]? = some b →
      ∃ e, errs[k]? = some e ∧ ErrWithin b.1 b.2 e := by
  intro L
  induction L with
  | nil => intro errs _ k b hb; simp at hb
  | cons x L ih =>
    intro errs h k b hb
    obtain ⟨ev, lo, hi⟩ := x
    cases ev with
    | some y =>
      simp only [LocT] at h
      exact ih errs h k b (by simpa using hb)
    | none =>
      cases errs with
      | nil => simp [LocT] at h
      | cons e errs =>
        simp only [LocT] at h
        cases k with
        | zero =>
          simp at hb
          subst hb
          exact ⟨e, rfl, h.1⟩
        | succ k =>
          have := ih errs h.2 k b (by simpa using hb)
          simpa using this

theorem badBounds_eq (L : List (Option Val × Nat × Nat)) (extra : List (Nat × Nat)) :
    ((((L.map (·.1)).zip (L.map (·.2) ++ extra)).filter (·.1.isNone)).map (·.2)) =
      (L.filter (·.1.isNone)).map (·.2) := by
  induction L with
  | nil => simp
  | cons x L ih =>
    obtain ⟨ev, b⟩ := x
    simp only [List.map_cons, List.cons_append, List.zip_cons_cons, List.filter_cons]
    cases ev with
    | none => simp only [Option.isNone_none, if_true, List.map_cons, ih]
    | some y => simpa using ih

/-- the byte bounds of the bad segments, as the driver's oracle computes them (`listOracleCore`):
the entries of `listSpec` zipped with `segmentBounds`, the good ones dropped -/
def badBounds (entries : List (Option Val)) (sep : Nat) (abort : List Nat) (startByte len : Nat)
    (view : List (RawTok Tok)) : List (Nat × Nat) :=
  ((entries.zip (Fam.Oracles.segmentBounds sep abort startByte len view)).filter (·.1.isNone)).map (·.2)

section Window2
variable {R : RunEnv} {m : Metrics} {len : Nat}
variable (ok : ScanOK R.E m len) (hp : PassOK R.E) {bs : List Nat} {hi : Nat} {lb : Nat}
include ok hp

/-! the raw stream is ordered -/

omit hp in
theorem rawFrom_sorted : ∀ fuel s p,
    (rawFrom R.E.scan m fuel s p).Pairwise (fun x y => x.stop.byte ≤ y.start.byte) ∧
    ∀ x ∈ rawFrom R.E.scan m fuel s p, p.byte ≤ x.start.byte ∧ x.start.byte < x.stop.byte ∧ x.stop.byte ≤ len := by
  intro fuel
  induction fuel with
  | zero => intro s p; simp [rawFrom]
  | succ n ih =>
    intro s p
    simp only [rawFrom]
    split
    · simp
    · next tok adv s' heq =>
      have hpr := ok.progress _ _ _ _ _ heq
      obtain ⟨i1, i2⟩ := ih s' adv
      refine ⟨List.pairwise_cons.mpr ⟨fun y hy => (i2 y hy).1, i1⟩, ?_⟩
      intro x hx
      rcases List.mem_cons.mp hx with rfl | hx
      · exact ⟨Nat.le_refl _, hpr.1, hpr.2⟩
      · have := i2 x hx
        omega

/-- the filtered view of a state related to a lexer is ordered, its tokens are non-empty and end
inside the text -/
theorem view_sorted {lx : Lx} {s : PState} (a : Abs R.E m len lx s) :
    s.view.Pairwise (fun x y => x.stop.byte ≤ y.start.byte) ∧
    ∀ x ∈ s.view, x.start.byte < x.stop.byte ∧ x.stop.byte ≤ len := by
  rw [a.view hp]
  obtain ⟨h1, h2⟩ := rawFrom_sorted ok (len + 1) lx.scanner lx.cursor
  refine ⟨List.Pairwise.filter _ h1, ?_⟩
  intro x hx
  have := h2 x (List.mem_filter.mp hx).1
  omega

/-- a lexer at index `j` of `K` whose segment is followed by a boundary token `b` is in the
window of `b` -/
theorem win_of_atIdx {f : Option Nat} {K : List (RawTok Tok)} {j : Nat} {lx : Lx} {sep : Nat} {abort : List Nat}
    (hat : AtIdx R.E m len f K j lx) {b : RawTok Tok} {rest : List (RawTok Tok)}
    (htl : tailOf sep abort (K.drop j) = b :: rest) :
    Win R m len (sep :: abort) b.stop.byte lx := by
  obtain ⟨s, a, _, hv⟩ := abs_of_atIdx hp hat
  obtain ⟨hs1, hs2⟩ := view_sorted ok hp a
  have hst := seg_tail sep abort (K.drop j)
  rw [htl] at hst
  rw [hv, ← hst] at hs1 hs2
  have hb := hs2 b (by simp)
  refine ⟨s, segOf sep abort (K.drop j), b, rest, a, by rw [hv, hst], ?_, ?_, ?_⟩
  · intro x hx
    refine ⟨by rw [contains_bnd]; exact seg_mem hx, ?_⟩
    have h1 := (List.pairwise_append.mp hs1).2.2 x hx b (by simp)
    have h2 := hs2 x (by simp [hx])
    exact ⟨by omega, by omega⟩
  · rw [contains_bnd]; exact tail_head htl
  · exact ⟨by omega, Nat.le_refl _⟩

/-- every position stored in the lexer lies in `[lb, len]` (bytes) -/
def PosB (lb len : Nat) (lx : Lx) : Prop := PosOK (fun p => lb ≤ p.byte ∧ p.byte ≤ len) lx

omit ok hp in
theorem PosB.lo {lb len : Nat} {lx : Lx} (h : PosB lb len lx) : PosOK (fun p => lb ≤ p.byte) lx :=
  ⟨h.1.1, h.2.1.1, h.2.2.1.1, fun b hb => ⟨(h.2.2.2 b hb).1.1, (h.2.2.2 b hb).2.1⟩⟩

omit ok hp in
theorem PosB.mono {lb lb' len : Nat} {lx : Lx} (h : PosB lb len lx) (hle : lb' ≤ lb) : PosB lb' len lx :=
  ⟨⟨Nat.le_trans hle h.1.1, h.1.2⟩, ⟨Nat.le_trans hle h.2.1.1, h.2.1.2⟩, ⟨Nat.le_trans hle h.2.2.1.1, h.2.2.1.2⟩,
    fun b hb => ⟨⟨Nat.le_trans hle (h.2.2.2 b hb).1.1, (h.2.2.2 b hb).1.2⟩,
      ⟨Nat.le_trans hle (h.2.2.2 b hb).2.1, (h.2.2.2 b hb).2.2⟩⟩⟩

omit ok hp in
theorem locG_itemOf {bs : List Nat} {a : G} (v : Nat) (h : locG bs a = true) : locG bs (itemOf v a) = true := by
  unfold itemOf; split
  · simpa [locG] using h
  · exact h

/-- the error of `up_to(item, sep_or_abort)` on a lexer at index `j` of `K`: it lies between the
lower bound of the lexer's stored positions and the end of the boundary token after the segment
(the end of the text when there is none) -/
theorem item_err_located {f : Option Nat} {a : G} {sep : Nat} {abort : List Nat} {K : List (RawTok Tok)} {j : Nat}
    {lx : Lx} (hloc : locG (sep :: abort) a = true) (hat : AtIdx R.E m len f K j lx) (hpos : PosB lb len lx)
    (v n : Nat) (ctx : Ctx) (W : World) (e : PErr)
    (he : (run R n (listItem v a sep abort) lx ctx W).1 = .err e) :
    (∀ b rest, tailOf sep abort (K.drop j) = b :: rest → ErrWithin lb b.stop.byte e) ∧
    (tailOf sep abort (K.drop j) = [] → ErrWithin lb len e) := by
  rw [listItem_eq] at he
  constructor
  · intro b rest htl
    exact upTo_win (winOps_win ok hp) n _ lx ctx W (locG_itemOf v hloc) ⟨win_of_atIdx ok hp hat htl, hpos.lo⟩ e he
  · intro _
    exact upTo_win (winOps_end ok) n _ lx ctx W (locG_itemOf v hloc) ⟨hpos, hat.inv.hmet⟩ e he

section Round
variable {f : Option Nat} {a : G} {sep : Nat} {abort : List Nat}
  (H : ItemHyp R.text f a sep abort) (hloc : locG (sep :: abort) a = true)
  {K : List (RawTok Tok)} (hF : SpecFuelOK R.text f a K)
include H hloc hF

/-- `recover_default(up_to(item, …), pat)` with a sink, with the location of the logged error -/
theorem firstTry_located {j : Nat} {lx : Lx} (hat : AtIdx R.E m len f K j lx) (hpos : PosB lb len lx)
    (v n id : Nat) (ctx : Ctx) (W : World)
    (hW : specOf W id = none ∨ specOf W id = some (patOf sep abort)) (hsink : ctx.sink = true) :
    (∃ x lx', firstTry R n v id a sep abort lx ctx W = (.ok (wrapV v x) lx', W.register id (patOf sep abort)) ∧
        evalSegment R.text f a (segOf sep abort (K.drop j)) = some x ∧
        AtIdx R.E m len f K (j + (segOf sep abort (K.drop j)).length) lx') ∨
    (evalSegment R.text f a (segOf sep abort (K.drop j)) = none ∧
      ∃ b rest e lx', tailOf sep abort (K.drop j) = b :: rest ∧ firstTry R n v id a sep abort lx ctx W =
          (.ok (listDv v) lx', logged (W.register id (patOf sep abort)) ctx e) ∧ ErrWithin lb b.stop.byte e ∧
        AtIdx R.E m len f K (j + (segOf sep abort (K.drop j)).length) lx') ∨
    (evalSegment R.text f a (segOf sep abort (K.drop j)) = none ∧ tailOf sep abort (K.drop j) = [] ∧
      ∃ e, firstTry R n v id a sep abort lx ctx W =
          (.err ⟨[], .recover⟩, logged (W.register id (patOf sep abort)) ctx e) ∧ ErrWithin lb len e) ∨
    (firstTry R n v id a sep abort lx ctx W).1 = .fuel := by
  unfold firstTry
  cases n with
  | zero => right; right; right; simp [recoverDefault]
  | succ n =>
    rcases upTo_step ok hp H hF hat v n ctx (W.register id (patOf sep abort)) with
      ⟨x, lx2, h1, h2, h3⟩ | ⟨e, h1, h2⟩ | h1
    · exact Or.inl ⟨x, lx2, recoverDefault_ok h1, h2, h3⟩
    · have hloc' := item_err_located ok hp hloc hat hpos v n ctx (W.register id (patOf sep abort)) e (by rw [h1])
      have := recoverDefault_fail_sink' R ok hat n (listDv v) id (patOf sep abort) (listItem v a sep abort) ctx W _ e
        hW h1 (Or.inl rfl) hsink
      rw [recPoint_pat] at this
      cases htl : tailOf sep abort (K.drop j) with
      | nil =>
        rw [if_pos htl] at this
        obtain ⟨W', h3, h4⟩ := this
        rcases h4 with rfl | ⟨h4, _⟩
        · exact Or.inr (Or.inr (Or.inl ⟨h2, rfl, e, h3, hloc'.2 htl⟩))
        · simp [isAfter] at h4
      | cons b rest =>
        rw [if_neg (by rw [htl]; simp)] at this
        obtain ⟨lx', h3, h4⟩ := this
        exact Or.inr (Or.inl ⟨h2, b, rest, e, lx', rfl, h3, hloc'.1 b rest htl, h4.at_⟩)
    · exact Or.inr (Or.inr (Or.inr (recoverDefault_fuel h1)))

/-- **One value round, with the location of the reported error** (sink installed; lexer at index
`j` of `K`, not recovering, all its stored positions in `[lb, len]`).  As `value_step_sink`, and in
addition: the error logged for a bad segment lies in `[lb, b.stop.byte]` where `b` is the separator
/ abort token that ends the segment, resp. in `[lb, len]` when the segment runs to the end (F21). -/
theorem round_located {j : Nat} {lx : Lx} (hat : AtIdx R.E m len f K j lx) (hrec : lx.recover = none)
    (hpos : PosB lb len lx) (v n id : Nat) (ctx : Ctx) (W : World)
    (hW : specOf W id = none ∨ specOf W id = some (patOf sep abort)) (hsink : ctx.sink = true) :
    (∃ x lx', valueRound R n v id a sep abort lx ctx W = (.ok (wrapV v x) lx', W.register id (patOf sep abort)) ∧
        evalSegment R.text f a (segOf sep abort (K.drop j)) = some x ∧
        AtIdx R.E m len f K (j + (segOf sep abort (K.drop j)).length) lx' ∧ lx'.recover = none) ∨
    (evalSegment R.text f a (segOf sep abort (K.drop j)) = none ∧
      ∃ b rest e lx', tailOf sep abort (K.drop j) = b :: rest ∧ valueRound R n v id a sep abort lx ctx W =
          (.ok (listDv v) lx', logged (W.register id (patOf sep abort)) ctx e) ∧ ErrWithin lb b.stop.byte e ∧
        AtIdx R.E m len f K (j + (segOf sep abort (K.drop j)).length) lx' ∧ lx'.recover = none) ∨
    (evalSegment R.text f a (segOf sep abort (K.drop j)) = none ∧ tailOf sep abort (K.drop j) = [] ∧
      ∃ e, valueRound R n v id a sep abort lx ctx W =
          (.err ⟨[], .recover⟩, logged (W.register id (patOf sep abort)) ctx e) ∧ ErrWithin lb len e) ∨
    (valueRound R n v id a sep abort lx ctx W).1 = .fuel := by
  unfold valueRound
  cases n with
  | zero => right; right; right; simp [stabValue]
  | succ n =>
    rcases firstTry_located ok hp H hloc hF hat hpos v (n + 1) id ctx W hW hsink with
      ⟨x, lx', h1, h2, h3⟩ | ⟨h2, b, rest, e, lx', htl, h1, hin, h3⟩ | ⟨h2, htl, e, h1, hin⟩ | h1
    · rw [h1, stabValue_ok]
      exact Or.inl ⟨x, _, rfl, h2, setRecover_at none h3, rfl⟩
    · rw [h1, stabValue_ok]
      exact Or.inr (Or.inl ⟨h2, b, rest, e, _, htl, rfl, hin, setRecover_at none h3, rfl⟩)
    · rw [h1, stabValue_err _ _ _ _ _ _ _ _ _ hrec]
      exact Or.inr (Or.inr (Or.inl ⟨h2, htl, e, rfl, hin⟩))
    · rw [h1]
      exact Or.inr (Or.inr (Or.inr (stabValue_fuel _ _ _ _ _ _ _ _)))

end Round

/-! ### C. the loop -/

omit hp in
theorem closed_b (lb : Nat) : Closed R.E (fun p => lb ≤ p.byte ∧ p.byte ≤ len) m := by
  intro s p tok adv s' h1 h2
  have := ok.progress _ _ _ _ _ h2
  have : lb ≤ p.byte := h1.1
  exact ⟨by omega, by omega⟩

omit hp in
theorem peek_posB {f : Option Nat} {lx lx' : Lx} {o : Option Tok} (inv : Inv R.E m len f lx) (h : PosB lb len lx)
    (e : lx.peek R.E = (o, lx')) : PosB lb len lx' :=
  (RunSpans.LI_peek' (closed_b ok lb) ⟨h, inv.hmet⟩ e).1

omit hp in
/-- a sublexer starts at the cursor: all its stored positions are at or after it -/
theorem sub_posB {f : Option Nat} {lx : Lx} (inv : Inv R.E m len f lx) (hc : lx.cursor.byte ≤ len) :
    PosB lx.cursor.byte len (lx.intoSublexer R.E) := by
  unfold Lexer.intoSublexer Lexer.startSublex
  apply LexInv.bufferNext_pos
  · show Closed R.E _ lx.metrics
    rw [inv.hmet]; exact closed_b ok _
  · refine ⟨⟨Nat.le_refl _, hc⟩, ⟨Nat.le_refl _, hc⟩, ⟨Nat.le_refl _, hc⟩, ?_⟩
    intro b hb
    obtain ⟨_, g2, g3, g4⟩ := inv.buf b hb
    exact ⟨⟨g2, by omega⟩, ⟨by omega, g4⟩⟩

omit hp in
/-- consuming the token at index `j` leaves the cursor at its end -/
theorem next_cursor_at {f : Option Nat} {K : List (RawTok Tok)} {j : Nat} {lx : Lx} {r : RawTok Tok}
    {V : List (RawTok Tok)} (hat : AtIdx R.E m len f K j lx) (hd : K.drop j = r :: V) :
    (lx.next R.E).2.cursor = r.stop ∧ r.start.byte < r.stop.byte ∧ r.stop.byte ≤ len := by
  cases hD : D R.E m len lx with
  | nil =>
    have := kept_of_D_nil hD
    rw [hat.kept, hd] at this; cases this
  | cons r' post =>
    have hk := kept_of_D_cons hD
    rw [hat.kept, hd] at hk
    injection hk with e1 _
    subst e1
    obtain ⟨lx', h1, _, _, h3, _, _, _, h7, h8⟩ := (next_spec ok hat.inv).2 r post hD
    rw [h1]
    exact ⟨h3, h7, h8⟩

omit ok hp in
theorem listFinish_log (ctx : Ctx) (lo : Nat) (hi : Option Nat) (lxf : Lx) (vals : List Val) (W : World) :
    ∃ tl, (listFinish ctx lo hi lxf vals W).2.log = W.log ++ tl ∧ tl.length ≤ 1 := by
  unfold listFinish
  split
  · exact ⟨[], by simp, by simp⟩
  · split
    · cases hs : ctx.sink with
      | true => exact ⟨[ctx.apply (mkErr (.count lxf.parseSpan vals.length lo hi))], by simp [sendError, hs], by simp⟩
      | false => exact ⟨[], by simp [sendError, hs], by simp⟩
    · exact ⟨[], by simp, by simp⟩

/-- what the loop has reported when it returns: the log has grown by the errors of the bad entries
of `L` (each within the bounds of its entry), then at most one more error (the count error) -/
def LocRes (L : List (Option Val × Nat × Nat)) (log : List PErr) (res : RRes × World) : Prop :=
  res.1 = .fuel ∨ ∃ errs tl, res.2.log = log ++ errs ++ tl ∧ tl.length ≤ 1 ∧ LocT L errs

omit ok hp in
theorem LocRes.finish (ctx : Ctx) (lo : Nat) (hi : Option Nat) (lxf : Lx) (vals : List Val) (W : World)
    {L : List (Option Val × Nat × Nat)} {log errs : List PErr} (hlog : W.log = log ++ errs) (hL : LocT L errs) :
    LocRes L log (listFinish ctx lo hi lxf vals W) := by
  obtain ⟨tl, h1, h2⟩ := listFinish_log ctx lo hi lxf vals W
  exact Or.inr ⟨errs, tl, by rw [h1, hlog], h2, hL⟩

section Loop
variable {f : Option Nat} {a : G} {sep : Nat} {abort : List Nat}
  (H : ItemHyp R.text f a sep abort) (hloc : locG (sep :: abort) a = true)
  {K : List (RawTok Tok)} (hF : SpecFuelOK R.text f a K)
include H hloc hF

/-- one value round in the form the loop uses it -/
theorem round_out_loc {j : Nat} {lx : Lx} (hat : AtIdx R.E m len f K j lx) (hrec : lx.recover = none)
    (hpos : PosB lb len lx) (v n id : Nat) (ctx : Ctx) (W : World)
    (hW : specOf W id = none ∨ specOf W id = some (patOf sep abort)) (hsink : ctx.sink = true) :
    (∃ x lx1 W1 pre, valueRound R n v id a sep abort lx ctx W = (.ok x lx1, W1) ∧ W1.log = W.log ++ pre ∧
        (∀ ub, (∀ b rest, tailOf sep abort (K.drop j) = b :: rest → ub = b.stop.byte) → ∀ L errs, LocT L errs →
          LocT ((evalSegment R.text f a (segOf sep abort (K.drop j)), lb, ub) :: L) (pre ++ errs)) ∧
        (evalSegment R.text f a (segOf sep abort (K.drop j)) = none → tailOf sep abort (K.drop j) ≠ []) ∧
        AtIdx R.E m len f K (j + (segOf sep abort (K.drop j)).length) lx1 ∧ lx1.recover = none ∧
        specOf W1 id = some (patOf sep abort)) ∨
    (evalSegment R.text f a (segOf sep abort (K.drop j)) = none ∧ tailOf sep abort (K.drop j) = [] ∧
      ∃ W1 e, valueRound R n v id a sep abort lx ctx W = (.err ⟨[], .recover⟩, W1) ∧ W1.log = W.log ++ [e] ∧
        ErrWithin lb len e) ∨
    (valueRound R n v id a sep abort lx ctx W).1 = .fuel := by
  have hspec := specOf_register hW
  rcases round_located ok hp H hloc hF hat hrec hpos v n id ctx W hW hsink with
    ⟨x, lx', h1, h2, h3, h4⟩ | ⟨h2, b, rest, e, lx', htl, h1, hin, h3, h4⟩ | ⟨h2, htl, e, h1, hin⟩ | h1
  · refine Or.inl ⟨_, lx', _, [], h1, by simp [WorldFrame.register_log], ?_, by rw [h2]; simp, h3, h4, hspec⟩
    intro ub _ L errs hL
    rw [h2]
    simpa [LocT] using hL
  · refine Or.inl ⟨_, lx', _, [ctx.apply e], h1, by simp [WorldFrame.register_log], ?_,
      fun _ => by rw [htl]; simp, h3, h4, by simpa using hspec⟩
    intro ub hub L errs hL
    rw [h2, hub b rest htl]
    exact ⟨hin, hL⟩
  · exact Or.inr (Or.inl ⟨h2, htl, _, ctx.apply e, h1, by simp [WorldFrame.register_log], hin⟩)
  · exact Or.inr (Or.inr h1)

/-- **The loop, with the location of every reported error** (sink installed).  From a lexer at
index `j` of `K`, not recovering, whose stored positions lie in `[left, len]`: when the loop returns,
the sink log has grown by one error per bad entry of `walkL … left … (K.drop j)`, in order, each
within the byte range of its entry, followed by at most one more error (the count error). -/
theorem loop_located (v id lo : Nat) (hi : Option Nat) (ctx : Ctx) (hsink : ctx.sink = true) :
    ∀ (n j : Nat) (lexer : Lx) (vals : List Val) (W : World) (left : Nat), AtIdx R.E m len f K j lexer →
      lexer.recover = none → PosB left len lexer → (∀ h, hi = some h → vals.length < h) →
      (specOf W id = none ∨ specOf W id = some (patOf sep abort)) →
      LocRes (walkL (evalSegment R.text f a) sep abort len left (hi.map (· - vals.length)) (K.drop j)) W.log
        (listLoop R n v id lo hi a sep abort lexer ctx W vals) := by
  intro n
  induction n with
  | zero => intro j lexer vals W left _ _ _ _ _; left; simp [listLoop]
  | succ n ih =>
    intro j lexer vals W left hat hrec hpos hlen hW
    rw [listLoop_succ']
    rcases peek_at ok hp hat with ⟨lxp, hpk, hatp, hdrop, hrp⟩ | ⟨lxp, r, hpk, hatp, hdrop, hnx, hatn, hemp, hrp⟩
    · rw [hpk, hdrop, walkL_nil]
      exact LocRes.finish _ _ _ _ _ _ (errs := []) (by simp) rfl
    · have hposp : PosB left len lxp := peek_posB ok hat.inv hpos hpk
      rw [hpk]
      simp only
      by_cases hab : abort.contains r.tok.kind = true
      · rw [if_pos hab, hdrop, walkL_abort _ _ _ _ _ _ hab]
        by_cases hv : vals.isEmpty = true
        · rw [if_pos hv]
          exact LocRes.finish _ _ _ _ _ _ (errs := []) (by simp) rfl
        · rw [if_neg hv]
          rcases trailing_step ok hp H hF hatp hdrop hab v n ctx W with h1 | h1
          · left
            rcases hr : run R n (.stabilize (.maybe (listItem v a sep abort))) lxp ctx W with ⟨x, W'⟩
            rw [hr] at h1
            simp only at h1
            subst h1
            rfl
          · rw [h1]
            exact LocRes.finish _ _ _ _ _ _ (errs := []) (by simp) rfl
      · have hab' : abort.contains r.tok.kind = false := by simpa using hab
        rw [if_neg hab]
        rcases round_out_loc ok hp H hloc hF hatp (hrp.trans hrec) hposp v n id ctx W hW hsink with
          ⟨x, lx1, W1, pre, h1, hlog, hstep, hnone, hat1, hrec1, hspec1⟩ |
          ⟨hj, htl, W1, e, h1, hlog, hin⟩ | h1
        · rw [h1]
          simp only
          rw [hdrop] at hstep hnone hat1 ⊢
          have htlK := drop_seg sep abort K j
          rw [hdrop] at htlK
          generalize hV : K.drop (j + 1) = V' at *
          generalize hseg : segOf sep abort (r :: V') = seg at *
          generalize hjd : evalSegment R.text f a seg = ev at *
          have hone := budget_one hlen
          -- the single-entry outcome
          have single : ∀ (lxf : Lx) (ub : Nat), (∀ b rest, tailOf sep abort (r :: V') = b :: rest → ub = b.stop.byte) →
              LocRes [(ev, left, ub)] W.log (listFinish ctx lo hi lxf (x :: vals) W1) := by
            intro lxf ub hub
            refine LocRes.finish _ _ _ _ _ _ (errs := pre) hlog ?_
            have := hstep ub hub [] [] rfl
            simpa using this
          have hne : ev = none → tailOf sep abort (r :: V') ≠ [] := hnone
          by_cases hr : hiReached hi (x :: vals).length = true
          · rw [if_pos hr]
            cases htl : tailOf sep abort (r :: V') with
            | nil =>
              rw [walkL_end _ _ _ _ _ _ hab' htl, hseg, hjd]
              exact single lx1 len (by intro b rest hb; rw [htl] at hb; cases hb)
            | cons t tl =>
              rw [walkL_stop _ _ _ _ _ _ hab' htl (by
                rw [hone]
                have : hiReached hi (vals.length + 1) = true := by simpa using hr
                rw [this]; rfl), hseg, hjd]
              exact single lx1 t.stop.byte (by intro b rest hb; rw [htl] at hb; cases hb; rfl)
          · rw [if_neg hr]
            rcases peek_at ok hp hat1 with ⟨lxp2, hpk2, hatp2, hdrop2, hrp2⟩ |
              ⟨lxp2, r2, hpk2, hatp2, hdrop2, hnx2, hatn2, hemp2, hrp2⟩
            · rw [hpk2]
              simp only
              have htl : tailOf sep abort (r :: V') = [] := by rw [← htlK, hdrop2]
              rw [walkL_end _ _ _ _ _ _ hab' htl, hseg, hjd]
              exact single lxp2 len (by intro b rest hb; rw [htl] at hb; cases hb)
            · rw [hpk2]
              simp only
              have htl : tailOf sep abort (r :: V') = r2 :: K.drop (j + seg.length + 1) := by rw [← htlK, hdrop2]
              by_cases hab2 : abort.contains r2.tok.kind = true
              · rw [if_pos hab2]
                rw [walkL_stop _ _ _ _ _ _ hab' htl (by rw [hab2]; simp), hseg, hjd]
                exact single lxp2 r2.stop.byte (by intro b rest hb; rw [htl] at hb; cases hb; rfl)
              · have hab2' : abort.contains r2.tok.kind = false := by simpa using hab2
                rw [if_neg hab2, hemp2]
                simp only [Bool.false_eq_true, if_false]
                have hk2 : r2.tok.kind = sep := by
                  have := tail_head htl
                  simp only [bnd, hab2', Bool.or_false] at this
                  simpa using this
                have hs' : (Option.map (· - vals.length) hi == some 1 || abort.contains r2.tok.kind) = false := by
                  rw [hone, hab2']
                  simpa using hr
                rw [walkL_step _ _ _ _ _ _ hab' htl hs', hseg, hjd, budget_next]
                rcases sep_step hnx2 hk2 n id (patOf sep abort) ctx W1 with g | g
                · left
                  rcases hrd : recoverDefault R n .dflt id (patOf sep abort) (.discard (.one sep)) lxp2 ctx W1 with
                    ⟨y, W'⟩
                  rw [hrd] at g
                  simp only at g
                  subst g
                  rfl
                · rw [g]
                  simp only
                  obtain ⟨hcur, hlt, hle⟩ := next_cursor_at ok hatp2 hdrop2
                  have hsub : PosB r2.start.byte len ((lxp2.next R.E).2.intoSublexer R.E) := by
                    have := sub_posB ok hatn2.inv (by rw [hcur]; exact hle)
                    rw [hcur] at this
                    exact this.mono (Nat.le_of_lt hlt)
                  have hih := ih (j + seg.length + 1) ((lxp2.next R.E).2.intoSublexer R.E) (x :: vals)
                    (W1.register id (patOf sep abort)) r2.start.byte (intoSublexer_at ok hatn2)
                    (by rw [intoSublexer_recover, next_recover, hrp2, hrec1]) hsub
                    (by
                      intro h hh
                      subst hh
                      simp only [hiReached, List.length_cons] at hr ⊢
                      simp at hr
                      omega)
                    (Or.inr (specOf_register (Or.inr hspec1)))
                  rcases hih with hf | ⟨errs, tl, g1, g2, g3⟩
                  · exact Or.inl hf
                  · refine Or.inr ⟨pre ++ errs, tl, ?_, g2, ?_⟩
                    · rw [g1, WorldFrame.register_log, hlog]; simp
                    · exact hstep r2.stop.byte (by intro b rest hb; rw [htl] at hb; cases hb; rfl) _ _ g3
        · -- F21
          rw [h1]
          simp only
          rw [hdrop] at hj htl
          rw [hdrop, walkL_end _ _ _ _ _ _ hab' htl, hj]
          exact Or.inr ⟨[e], [], by simp [hlog], by simp, hin, rfl⟩
        · left
          rcases hr : valueRound R n v id a sep abort lxp ctx W with ⟨y, W'⟩
          rw [hr] at h1
          simp only at h1
          subst h1
          rfl

end Loop

section Top
variable {f : Option Nat} {a : G} {sep : Nat} {abort : List Nat}
  (H : ItemHyp R.text f a sep abort) (hloc : locG (sep :: abort) a = true)
  {K : List (RawTok Tok)} (hF : SpecFuelOK R.text f a K)
include H hloc hF

/-- **C11, the location clause, for the combinator** (sink installed; F21 cases included).
Top-level `list*` on a lexer at index `j` of `K`, not recovering, every stored position of which lies
in `[lb, len]`; item in the syntactic fragment `locG (sep :: abort)`.  When the model does not run out
of fuel, the sink log has grown by `errs` followed by at most one more error (the count error), where
`errs` has one error per bad entry of `listSpec`, and the `k`-th of them lies within the `k`-th of
the bounds the driver's oracle computes (`badBounds`: from the start of the separator before the
segment — `lb` for the first — to the end of the separator / abort token after it — `len` at the end
of the text). -/
theorem list_located (n v id lo : Nat) (hi : Option Nat) {j : Nat} {lx : Lx} (ctx : Ctx) (W : World)
    (hhi : effHi v hi ≠ some 0) (hlo : hiBelow (effHi v hi) (effLo v lo) = false)
    (hat : AtIdx R.E m len f K j lx) (hrec : lx.recover = none) (hpos : PosB lb len lx)
    (hW : specOf W id = none ∨ specOf W id = some (patOf sep abort)) (hsink : ctx.sink = true)
    (hne : (run R (n + 1) (.list v id lo hi a sep abort) lx ctx W).1 ≠ .fuel) :
    ∃ errs tl, (run R (n + 1) (.list v id lo hi a sep abort) lx ctx W).2.log = W.log ++ errs ++ tl ∧
      tl.length ≤ 1 ∧ errs.length = (listSpec R.text f (effHi v hi) a sep abort (K.drop j)).nbad ∧
      ∀ (k : Nat) (b : Nat × Nat),
        (badBounds (listSpec R.text f (effHi v hi) a sep abort (K.drop j)).entries sep abort lb len (K.drop j))[k]? =
          some b → ∃ e, errs[k]? = some e ∧ ErrWithin b.1 b.2 e := by
  rw [run_list_eq n v id lo hi a sep abort lx ctx W hhi hlo] at hne ⊢
  have hl := loop_located ok hp H hloc hF v id (effLo v lo) (effHi v hi) ctx hsink n j lx [] W lb hat hrec hpos
    (by
      intro h hh
      cases h with
      | zero => exact absurd hh hhi
      | succ _ => simp)
    hW
  have e0 : (effHi v hi).map (· - ([] : List Val).length) = effHi v hi := by
    cases effHi v hi <;> simp
  rw [e0] at hl
  rcases hl with hfu | ⟨errs, tl, h1, h2, h3⟩
  · exact absurd hfu hne
  · obtain ⟨w1, _, _⟩ := walk_listSpec R.text f a sep abort (effHi v hi) hhi (K.drop j)
    have hents := walkL_ents (evalSegment R.text f a) sep abort len (K.drop j).length (K.drop j) lb (effHi v hi)
      (Nat.le_refl _)
    rw [w1] at hents
    obtain ⟨extra, hextra⟩ := walkL_bounds (evalSegment R.text f a) sep abort len (K.drop j).length (K.drop j) lb
      (effHi v hi) (Nat.le_refl _)
    refine ⟨errs, tl, h1, h2, ?_, ?_⟩
    · rw [LocT_length _ _ h3, hents]; rfl
    · intro k b hb
      apply LocT_get _ _ h3 k b
      rw [← hb]
      unfold badBounds Fam.Oracles.segmentBounds
      rw [← hents, ← hextra, badBounds_eq]

end Top

end Window2

/-! ### D. the semantic locality hypothesis is not enough -/

/- Item `both(one(','), F)` with `F` an always-failing `pred`: it never succeeds, so it satisfies
`ItemHyp` (fragment; non-nullable and `local_ok` vacuously; `local_fail` because `one(',')` fails
on every isolated segment) — but it CONSUMES the separator before failing, and its error points
behind it.  Text `,b;`: the first segment is empty (bad), bounded by bytes `0..1`; the error
reported for it is `F`'s, on `b` (bytes `1..2`). -/
namespace Outside
open Tephra.ListWitness Tephra.BracketRefine.Witness

def R : RunEnv := ⟨tabM [4, 1, 5], [⟨44, 1, 1⟩, ⟨98, 1, 1⟩, ⟨59, 1, 1⟩]⟩
def lx : Lx := Lexer.new 0 m0 3
def a : G := .both (.one 4) Lookahead.F
def K : List (RawTok Tok) :=
  [⟨⟨4, 0⟩, ⟨0, 0, 0⟩, ⟨1, 0, 1⟩⟩, ⟨⟨1, 0⟩, ⟨1, 0, 1⟩, ⟨2, 0, 2⟩⟩, ⟨⟨5, 0⟩, ⟨2, 0, 2⟩, ⟨3, 0, 3⟩⟩]
/-- the error the round reports for the first (empty) segment -/
def e1 : PErr := ⟨[], .unexp ⟨⟨0, 0, 0⟩, ⟨1, 0, 1⟩⟩ ⟨⟨1, 0, 1⟩, ⟨2, 0, 2⟩⟩ .other (.token ⟨1, 0⟩)⟩

theorem F_not_ok (text : Text) (k : Nat) (s : PState) (v : Val) (s' : PState) :
    peg text k Lookahead.F s ≠ .ok v s' := by
  intro h
  cases k with
  | zero => simp [peg] at h
  | succ k =>
    simp only [peg, Lookahead.F, PE.eval] at h
    split at h
    · simp at h
    · cases h

theorem a_not_ok (text : Text) (k : Nat) (s : PState) (v : Val) (s' : PState) : peg text k a s ≠ .ok v s' := by
  intro h
  cases k with
  | zero => simp [peg] at h
  | succ k =>
    simp only [peg, a] at h
    obtain ⟨v1, s1, _, h⟩ := bindOk_ok h
    obtain ⟨v2, s2, e2, _⟩ := bindOk_ok h
    exact F_not_ok text k s1 v2 s2 e2

theorem item (text : Text) (f : Option Nat) : ItemHyp text f a 4 [5] := by
  refine ⟨rfl, ?_, ?_, ?_⟩
  · intro k s v s' _ h; exact absurd h (a_not_ok text k s v s')
  · intro k s v s' _ h; exact absurd h (a_not_ok text k s v s')
  · intro k s hf h
    cases k with
    | zero => simp [peg] at h
    | succ k =>
      cases k with
      | zero => simp [peg, a, bindOk] at h
      | succ k =>
        obtain ⟨hl, _⟩ := loc_iso f 4 [5] s hf
        have h1 : peg text (k + 1) (.one 4) (iso f (segOf 4 [5] s.view)) = .fail := by
          simp only [peg]
          split
          · next r t' hp' =>
            have hm := hl.inner r (by rw [ListLocal.view_of_pop_some hp']; simp)
            split
            · next hk =>
              have : r.tok.kind = 4 := by simpa using hk
              rw [this] at hm
              simp at hm
            · rfl
          · rfl
        show peg text (k + 1 + 1) (.both (.one 4) Lookahead.F) _ = .fail
        simp only [peg] at h1 ⊢
        rw [h1]
        rfl

theorem fuelOK (K' : List (RawTok Tok)) : SpecFuelOK R.text none a K' := by
  intro seg _ k r hr hne
  subst hr
  have h4 := (item R.text none)
  -- the item fails on every state as soon as it has fuel 2
  have hfail : ∀ k s, peg R.text (k + 2) a s = .fail := by
    intro k s
    simp only [peg, a, Lookahead.F, PE.eval]
    cases s.pop with
    | none => rfl
    | some x =>
      obtain ⟨r, s1⟩ := x
      simp only
      split
      · simp only [bindOk]
        cases s1.pop with
        | none => rfl
        | some y => simp
      · rfl
  match k with
  | 0 => simp [peg] at hne
  | 1 => simp [peg, a, bindOk] at hne
  | k + 2 => rw [hfail k, hfail 3998]

theorem kept_eq : kept R.E m0 3 lx = K := by
  simp [kept, rawAt, rawFrom, R, tabM, scanTab, lx, Lexer.new, K, Pos.zero, keepOf]

set_option maxRecDepth 16000 in
/-- the value round on `,b;`: exactly one error logged, and it is `e1` -/
theorem round_log : (valueRound R 8 3 1 a 4 [5] lx sinkCtx World.init).2.log = [e1] := by
  simp [valueRound, firstTry, e1, Ctx.apply, listDv, Term.listItem, Lookahead.F, PE.eval, run, a, R, tabM, scanTab, m0,
    lx, sinkCtx, stabValue, recoverDefault, advanceToRecover, recoverLoop, askRecover, World.register, World.init,
    sendError, mkErr, Lexer.new, Lexer.bufferNext, Lexer.bufferLoop, Lexer.peek, Lexer.setRecoverState,
    Lexer.advanceTo, Lexer.next, Lexer.nextLoop, Lexer.filtered, Pos.zero, Lexer.parseSpan, Lexer.tokenSpan,
    Span.enclosing]

/-- the bounds of the first segment are bytes `0..1`; the error mentions byte `2` -/
theorem e1_outside : tailOf 4 [5] (K.drop 0) = K ∧ (K.head?.map (·.stop.byte)) = some 1 ∧ ¬ ErrWithin 0 1 e1 := by
  refine ⟨rfl, rfl, ?_⟩
  intro h
  have := h.2.2.2
  simp [e1] at this

theorem posB : PosB 0 3 lx :=
  ⟨⟨Nat.zero_le _, Nat.zero_le _⟩, ⟨Nat.zero_le _, Nat.zero_le _⟩, ⟨Nat.zero_le _, Nat.zero_le _⟩, fun _ h => nomatch h⟩

end Outside

end Tephra.ListErrLoc
