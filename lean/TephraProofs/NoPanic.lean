/-
  TephraProofs.NoPanic — C01, interpreter part: `run` never reaches one of its
  panic sites on grammars within the documented preconditions, for the
  fragment of `G` without `text`, `bracket`, `list` (whose panic sites need
  lexer-position / recover-state invariants).

  Panic sites of `run` covered here: the empty token list of `any` / `any_index`
  (precondition: non-empty), `hi < lo` in the `repeat*` / `intersperse*` family
  (precondition: `lo ≤ hi`).  Everything else in the fragment has no panic site of
  its own and only propagates.
-/
import TephraProofs.RunMatchers

set_option linter.unusedVariables false

namespace Tephra.NoPanic
open Tephra

/-- The fragment and its preconditions. -/
def Frag : G → Prop
  | .empty  => True
  | .one _ => True
  | .any ks => ks.isEmpty = false
  | .anyIndex ks => ks.isEmpty = false
  | .seq _ => True
  | .seqCount _ => True
  | .pred _ => True
  | .endOfText  => True
  | .left a b => Frag a ∧ Frag b
  | .right a b => Frag a ∧ Frag b
  | .both a b => Frag a ∧ Frag b
  | .center a b c => Frag a ∧ Frag b ∧ Frag c
  | .map a => Frag a
  | .discard a => Frag a
  | .either a b => Frag a ∧ Frag b
  | .maybe a => Frag a
  | .requireIf _ a => Frag a
  | .cond _ a => Frag a
  | .implies a b => Frag a ∧ Frag b
  | .antecedent a b => Frag a ∧ Frag b
  | .consequent a b => Frag a ∧ Frag b
  | .condImplies a _ b => Frag a ∧ Frag b
  | .filterWith _ a => Frag a
  | .unfiltered a => Frag a
  | .sub a => Frag a
  | .spanned a => Frag a
  | .text _ => False
  | .repeat_ _ lo hi a => hiBelow hi lo = false ∧ Frag a
  | .repeatUntil _ lo hi stop a => hiBelow hi lo = false ∧ Frag stop ∧ Frag a
  | .intersperse _ lo hi a sep => hiBelow hi lo = false ∧ Frag a ∧ Frag sep
  | .intersperseUntil _ lo hi stop a sep => hiBelow hi lo = false ∧ Frag stop ∧ Frag a ∧ Frag sep
  | .intersperseDefault lo hi a _ => hiBelow hi lo = false ∧ Frag a
  | .raw a => Frag a
  | .unrecoverable a => Frag a
  | .recover _ _ a _ => Frag a
  | .stabilize a => Frag a
  | .bracket _ _ _ _ _ => False
  | .list _ _ _ _ _ _ _ => False
  | .upTo a _ => Frag a
  | .probe _ => True
  | .ctxPushed _ a => Frag a
  | .ctxPush _ a => Frag a
  | .ctxLocked _ a => Frag a
  | .someOf a => Frag a

variable {R : RunEnv}

/-- no panic at fuel `n`, for every function of the mutual block used by the fragment. -/
structure NpAt (R : RunEnv) (n : Nat) : Prop where
  run : ∀ g lx ctx W, Frag g → (run R n g lx ctx W).1 ≠ .panic
  recoverDefault : ∀ dv id r body lx ctx W, Frag body → (recoverDefault R n dv id r body lx ctx W).1 ≠ .panic
  stabLoop : ∀ a lx ctx res W, Frag a → res ≠ .panic → (stabLoop R n a lx ctx res W).1 ≠ .panic
  untilStart : ∀ lo hi stop a sep lx ctx W, hiBelow hi lo = false → Frag stop → Frag a → Frag sep →
    (untilStart R n lo hi stop a sep lx ctx W).1 ≠ .panic
  untilLoop : ∀ lo hi stop a sep vals lx ctx W, Frag stop → Frag a → Frag sep →
    (untilLoop R n lo hi stop a sep vals lx ctx W).1 ≠ .panic
  sepItem : ∀ a sep lx ctx W, Frag a → Frag sep → (sepItem R n a sep lx ctx W).1 ≠ .panic
  interLoopStart : ∀ lo hi a sep lx ctx W, hiBelow hi lo = false → Frag a → Frag sep →
    (interLoopStart R n lo hi a sep lx ctx W).1 ≠ .panic
  interLoop : ∀ lo hi a sep vals lx ctx W, Frag a → Frag sep → (interLoop R n lo hi a sep vals lx ctx W).1 ≠ .panic

macro "np_tac" : tactic => `(tactic|
  (first | done | ((repeat' split) <;> first | (simp; done) | (simp_all; done) | grind [Frag])))

theorem countOf_ne_panic {v : Nat} {r : RRes × World} (h : r.1 ≠ .panic) : (countOf v r).1 ≠ .panic := by
  unfold countOf
  split
  · exact h
  · split
    · simp
    · exact h

theorem seqLoop_ne_panic (es : Span) : ∀ ks (lx : Lx) acc, seqLoop R es ks lx acc ≠ .panic := by
  intro ks
  induction ks with
  | nil => intro lx acc; simp [seqLoop]
  | cons k ks ih =>
    intro lx acc
    simp only [seqLoop]
    repeat' split
    all_goals first | exact ih _ _ | simp

theorem seqCountLoop_ne_panic (es : Span) : ∀ ks (lx : Lx) c, seqCountLoop R es ks lx c ≠ .panic := by
  intro ks
  induction ks with
  | nil => intro lx c; simp [seqCountLoop]
  | cons k ks ih =>
    intro lx c
    simp only [seqCountLoop]
    repeat' split
    all_goals first | exact ih _ _ | simp

theorem run_np_empty {n} (ih : NpAt R n)  :
    ∀ lx ctx W, Frag (.empty ) → (run R (n+1) (.empty ) lx ctx W).1 ≠ .panic := by
  obtain ⟨h1, h2, h3, h4, h5, h6, h7, h8⟩ := ih
  intro lx ctx W hf
  simp only [run, Frag] at hf ⊢
  np_tac

theorem run_np_one {n} (ih : NpAt R n) {k} :
    ∀ lx ctx W, Frag (.one k) → (run R (n+1) (.one k) lx ctx W).1 ≠ .panic := by
  obtain ⟨h1, h2, h3, h4, h5, h6, h7, h8⟩ := ih
  intro lx ctx W hf
  simp only [run, Frag] at hf ⊢
  np_tac

theorem run_np_any {n} (ih : NpAt R n) {ks} :
    ∀ lx ctx W, Frag (.any ks) → (run R (n+1) (.any ks) lx ctx W).1 ≠ .panic := by
  obtain ⟨h1, h2, h3, h4, h5, h6, h7, h8⟩ := ih
  intro lx ctx W hf
  simp only [run, Frag] at hf ⊢
  np_tac

theorem run_np_anyIndex {n} (ih : NpAt R n) {ks} :
    ∀ lx ctx W, Frag (.anyIndex ks) → (run R (n+1) (.anyIndex ks) lx ctx W).1 ≠ .panic := by
  obtain ⟨h1, h2, h3, h4, h5, h6, h7, h8⟩ := ih
  intro lx ctx W hf
  simp only [run, Frag] at hf ⊢
  np_tac

theorem run_np_seq {n} (ih : NpAt R n) {ks} :
    ∀ lx ctx W, Frag (.seq ks) → (run R (n+1) (.seq ks) lx ctx W).1 ≠ .panic := by
  obtain ⟨h1, h2, h3, h4, h5, h6, h7, h8⟩ := ih
  intro lx ctx W hf
  simp only [run]
  exact seqLoop_ne_panic _ _ _ _

theorem run_np_seqCount {n} (ih : NpAt R n) {ks} :
    ∀ lx ctx W, Frag (.seqCount ks) → (run R (n+1) (.seqCount ks) lx ctx W).1 ≠ .panic := by
  obtain ⟨h1, h2, h3, h4, h5, h6, h7, h8⟩ := ih
  intro lx ctx W hf
  simp only [run]
  exact seqCountLoop_ne_panic _ _ _ _

theorem run_np_pred {n} (ih : NpAt R n) {p} :
    ∀ lx ctx W, Frag (.pred p) → (run R (n+1) (.pred p) lx ctx W).1 ≠ .panic := by
  obtain ⟨h1, h2, h3, h4, h5, h6, h7, h8⟩ := ih
  intro lx ctx W hf
  simp only [run, Frag] at hf ⊢
  np_tac

theorem run_np_endOfText {n} (ih : NpAt R n)  :
    ∀ lx ctx W, Frag (.endOfText ) → (run R (n+1) (.endOfText ) lx ctx W).1 ≠ .panic := by
  obtain ⟨h1, h2, h3, h4, h5, h6, h7, h8⟩ := ih
  intro lx ctx W hf
  simp only [run, Frag] at hf ⊢
  np_tac

theorem run_np_left {n} (ih : NpAt R n) {a b} :
    ∀ lx ctx W, Frag (.left a b) → (run R (n+1) (.left a b) lx ctx W).1 ≠ .panic := by
  obtain ⟨h1, h2, h3, h4, h5, h6, h7, h8⟩ := ih
  intro lx ctx W hf
  simp only [run, Frag] at hf ⊢
  np_tac

theorem run_np_right {n} (ih : NpAt R n) {a b} :
    ∀ lx ctx W, Frag (.right a b) → (run R (n+1) (.right a b) lx ctx W).1 ≠ .panic := by
  obtain ⟨h1, h2, h3, h4, h5, h6, h7, h8⟩ := ih
  intro lx ctx W hf
  simp only [run, Frag] at hf ⊢
  np_tac

theorem run_np_both {n} (ih : NpAt R n) {a b} :
    ∀ lx ctx W, Frag (.both a b) → (run R (n+1) (.both a b) lx ctx W).1 ≠ .panic := by
  obtain ⟨h1, h2, h3, h4, h5, h6, h7, h8⟩ := ih
  intro lx ctx W hf
  simp only [run, Frag] at hf ⊢
  np_tac

theorem run_np_center {n} (ih : NpAt R n) {a b c} :
    ∀ lx ctx W, Frag (.center a b c) → (run R (n+1) (.center a b c) lx ctx W).1 ≠ .panic := by
  obtain ⟨h1, h2, h3, h4, h5, h6, h7, h8⟩ := ih
  intro lx ctx W hf
  simp only [run, Frag] at hf ⊢
  np_tac

theorem run_np_map {n} (ih : NpAt R n) {a} :
    ∀ lx ctx W, Frag (.map a) → (run R (n+1) (.map a) lx ctx W).1 ≠ .panic := by
  obtain ⟨h1, h2, h3, h4, h5, h6, h7, h8⟩ := ih
  intro lx ctx W hf
  simp only [run, Frag] at hf ⊢
  np_tac

theorem run_np_discard {n} (ih : NpAt R n) {a} :
    ∀ lx ctx W, Frag (.discard a) → (run R (n+1) (.discard a) lx ctx W).1 ≠ .panic := by
  obtain ⟨h1, h2, h3, h4, h5, h6, h7, h8⟩ := ih
  intro lx ctx W hf
  simp only [run, Frag] at hf ⊢
  np_tac

theorem run_np_either {n} (ih : NpAt R n) {a b} :
    ∀ lx ctx W, Frag (.either a b) → (run R (n+1) (.either a b) lx ctx W).1 ≠ .panic := by
  obtain ⟨h1, h2, h3, h4, h5, h6, h7, h8⟩ := ih
  intro lx ctx W hf
  simp only [run, Frag] at hf ⊢
  np_tac

theorem run_np_maybe {n} (ih : NpAt R n) {a} :
    ∀ lx ctx W, Frag (.maybe a) → (run R (n+1) (.maybe a) lx ctx W).1 ≠ .panic := by
  obtain ⟨h1, h2, h3, h4, h5, h6, h7, h8⟩ := ih
  intro lx ctx W hf
  simp only [run, Frag] at hf ⊢
  np_tac

theorem run_np_requireIf {n} (ih : NpAt R n) {flag a} :
    ∀ lx ctx W, Frag (.requireIf flag a) → (run R (n+1) (.requireIf flag a) lx ctx W).1 ≠ .panic := by
  obtain ⟨h1, h2, h3, h4, h5, h6, h7, h8⟩ := ih
  intro lx ctx W hf
  simp only [run, Frag] at hf ⊢
  np_tac

theorem run_np_cond {n} (ih : NpAt R n) {flag a} :
    ∀ lx ctx W, Frag (.cond flag a) → (run R (n+1) (.cond flag a) lx ctx W).1 ≠ .panic := by
  obtain ⟨h1, h2, h3, h4, h5, h6, h7, h8⟩ := ih
  intro lx ctx W hf
  simp only [run, Frag] at hf ⊢
  np_tac

theorem run_np_implies {n} (ih : NpAt R n) {a b} :
    ∀ lx ctx W, Frag (.implies a b) → (run R (n+1) (.implies a b) lx ctx W).1 ≠ .panic := by
  obtain ⟨h1, h2, h3, h4, h5, h6, h7, h8⟩ := ih
  intro lx ctx W hf
  simp only [run, Frag] at hf ⊢
  np_tac

theorem run_np_antecedent {n} (ih : NpAt R n) {a b} :
    ∀ lx ctx W, Frag (.antecedent a b) → (run R (n+1) (.antecedent a b) lx ctx W).1 ≠ .panic := by
  obtain ⟨h1, h2, h3, h4, h5, h6, h7, h8⟩ := ih
  intro lx ctx W hf
  simp only [run, Frag] at hf ⊢
  np_tac

theorem run_np_consequent {n} (ih : NpAt R n) {a b} :
    ∀ lx ctx W, Frag (.consequent a b) → (run R (n+1) (.consequent a b) lx ctx W).1 ≠ .panic := by
  obtain ⟨h1, h2, h3, h4, h5, h6, h7, h8⟩ := ih
  intro lx ctx W hf
  simp only [run, Frag] at hf ⊢
  np_tac

theorem run_np_condImplies {n} (ih : NpAt R n) {a k b} :
    ∀ lx ctx W, Frag (.condImplies a k b) → (run R (n+1) (.condImplies a k b) lx ctx W).1 ≠ .panic := by
  obtain ⟨h1, h2, h3, h4, h5, h6, h7, h8⟩ := ih
  intro lx ctx W hf
  simp only [run, Frag] at hf ⊢
  np_tac

theorem run_np_filterWith {n} (ih : NpAt R n) {mask a} :
    ∀ lx ctx W, Frag (.filterWith mask a) → (run R (n+1) (.filterWith mask a) lx ctx W).1 ≠ .panic := by
  obtain ⟨h1, h2, h3, h4, h5, h6, h7, h8⟩ := ih
  intro lx ctx W hf
  simp only [run, Frag] at hf ⊢
  np_tac

theorem run_np_unfiltered {n} (ih : NpAt R n) {a} :
    ∀ lx ctx W, Frag (.unfiltered a) → (run R (n+1) (.unfiltered a) lx ctx W).1 ≠ .panic := by
  obtain ⟨h1, h2, h3, h4, h5, h6, h7, h8⟩ := ih
  intro lx ctx W hf
  simp only [run, Frag] at hf ⊢
  np_tac

theorem run_np_sub {n} (ih : NpAt R n) {a} :
    ∀ lx ctx W, Frag (.sub a) → (run R (n+1) (.sub a) lx ctx W).1 ≠ .panic := by
  obtain ⟨h1, h2, h3, h4, h5, h6, h7, h8⟩ := ih
  intro lx ctx W hf
  simp only [run, Frag] at hf ⊢
  np_tac

theorem run_np_spanned {n} (ih : NpAt R n) {a} :
    ∀ lx ctx W, Frag (.spanned a) → (run R (n+1) (.spanned a) lx ctx W).1 ≠ .panic := by
  obtain ⟨h1, h2, h3, h4, h5, h6, h7, h8⟩ := ih
  intro lx ctx W hf
  simp only [run, Frag] at hf ⊢
  np_tac

theorem run_np_text {n} (ih : NpAt R n) {a} :
    ∀ lx ctx W, Frag (.text a) → (run R (n+1) (.text a) lx ctx W).1 ≠ .panic := by
  obtain ⟨h1, h2, h3, h4, h5, h6, h7, h8⟩ := ih
  intro lx ctx W hf
  simp only [Frag] at hf

theorem run_np_repeat_ {n} (ih : NpAt R n) {v lo hi a} :
    ∀ lx ctx W, Frag (.repeat_ v lo hi a) → (run R (n+1) (.repeat_ v lo hi a) lx ctx W).1 ≠ .panic := by
  obtain ⟨h1, h2, h3, h4, h5, h6, h7, h8⟩ := ih
  intro lx ctx W hf
  simp only [run, Frag] at hf ⊢
  exact countOf_ne_panic (h7 _ _ _ _ _ _ _ hf.1 hf.2 trivial)

theorem run_np_repeatUntil {n} (ih : NpAt R n) {v lo hi stop a} :
    ∀ lx ctx W, Frag (.repeatUntil v lo hi stop a) → (run R (n+1) (.repeatUntil v lo hi stop a) lx ctx W).1 ≠ .panic := by
  obtain ⟨h1, h2, h3, h4, h5, h6, h7, h8⟩ := ih
  intro lx ctx W hf
  simp only [run, Frag] at hf ⊢
  exact countOf_ne_panic (h4 _ _ _ _ _ _ _ _ hf.1 hf.2.1 hf.2.2 trivial)

theorem run_np_intersperse {n} (ih : NpAt R n) {v lo hi a sep} :
    ∀ lx ctx W, Frag (.intersperse v lo hi a sep) → (run R (n+1) (.intersperse v lo hi a sep) lx ctx W).1 ≠ .panic := by
  obtain ⟨h1, h2, h3, h4, h5, h6, h7, h8⟩ := ih
  intro lx ctx W hf
  simp only [run, Frag] at hf ⊢
  exact countOf_ne_panic (h7 _ _ _ _ _ _ _ hf.1 hf.2.1 hf.2.2)

theorem run_np_intersperseUntil {n} (ih : NpAt R n) {v lo hi stop a sep} :
    ∀ lx ctx W, Frag (.intersperseUntil v lo hi stop a sep) → (run R (n+1) (.intersperseUntil v lo hi stop a sep) lx ctx W).1 ≠ .panic := by
  obtain ⟨h1, h2, h3, h4, h5, h6, h7, h8⟩ := ih
  intro lx ctx W hf
  simp only [run, Frag] at hf ⊢
  exact countOf_ne_panic (h4 _ _ _ _ _ _ _ _ hf.1 hf.2.1 hf.2.2.1 hf.2.2.2)

theorem run_np_intersperseDefault {n} (ih : NpAt R n) {lo hi a sepk} :
    ∀ lx ctx W, Frag (.intersperseDefault lo hi a sepk) → (run R (n+1) (.intersperseDefault lo hi a sepk) lx ctx W).1 ≠ .panic := by
  obtain ⟨h1, h2, h3, h4, h5, h6, h7, h8⟩ := ih
  intro lx ctx W hf
  simp only [run, Frag] at hf ⊢
  exact h7 _ _ _ _ _ _ _ hf.1 hf.2 (by simp [Frag])

theorem run_np_raw {n} (ih : NpAt R n) {a} :
    ∀ lx ctx W, Frag (.raw a) → (run R (n+1) (.raw a) lx ctx W).1 ≠ .panic := by
  obtain ⟨h1, h2, h3, h4, h5, h6, h7, h8⟩ := ih
  intro lx ctx W hf
  simp only [run, Frag] at hf ⊢
  np_tac

theorem run_np_unrecoverable {n} (ih : NpAt R n) {a} :
    ∀ lx ctx W, Frag (.unrecoverable a) → (run R (n+1) (.unrecoverable a) lx ctx W).1 ≠ .panic := by
  obtain ⟨h1, h2, h3, h4, h5, h6, h7, h8⟩ := ih
  intro lx ctx W hf
  simp only [run, Frag] at hf ⊢
  np_tac

theorem run_np_recover {n} (ih : NpAt R n) {v id a r} :
    ∀ lx ctx W, Frag (.recover v id a r) → (run R (n+1) (.recover v id a r) lx ctx W).1 ≠ .panic := by
  obtain ⟨h1, h2, h3, h4, h5, h6, h7, h8⟩ := ih
  intro lx ctx W hf
  simp only [run, Frag] at hf ⊢
  split
  · exact h2 _ _ _ _ _ _ _ (by simpa [Frag] using hf)
  · exact h2 _ _ _ _ _ _ _ hf

theorem run_np_stabilize {n} (ih : NpAt R n) {a} :
    ∀ lx ctx W, Frag (.stabilize a) → (run R (n+1) (.stabilize a) lx ctx W).1 ≠ .panic := by
  obtain ⟨h1, h2, h3, h4, h5, h6, h7, h8⟩ := ih
  intro lx ctx W hf
  simp only [run, Frag] at hf ⊢
  exact h3 _ _ _ _ _ hf (h1 _ _ _ _ hf)

theorem run_np_bracket {n} (ih : NpAt R n) {v opens a closes abort} :
    ∀ lx ctx W, Frag (.bracket v opens a closes abort) → (run R (n+1) (.bracket v opens a closes abort) lx ctx W).1 ≠ .panic := by
  obtain ⟨h1, h2, h3, h4, h5, h6, h7, h8⟩ := ih
  intro lx ctx W hf
  simp only [Frag] at hf

theorem run_np_list {n} (ih : NpAt R n) {v id lo hi a sep abort} :
    ∀ lx ctx W, Frag (.list v id lo hi a sep abort) → (run R (n+1) (.list v id lo hi a sep abort) lx ctx W).1 ≠ .panic := by
  obtain ⟨h1, h2, h3, h4, h5, h6, h7, h8⟩ := ih
  intro lx ctx W hf
  simp only [Frag] at hf

theorem run_np_upTo {n} (ih : NpAt R n) {a abort} :
    ∀ lx ctx W, Frag (.upTo a abort) → (run R (n+1) (.upTo a abort) lx ctx W).1 ≠ .panic := by
  obtain ⟨h1, h2, h3, h4, h5, h6, h7, h8⟩ := ih
  intro lx ctx W hf
  simp only [run, Frag] at hf ⊢
  np_tac

theorem run_np_probe {n} (ih : NpAt R n) {tag} :
    ∀ lx ctx W, Frag (.probe tag) → (run R (n+1) (.probe tag) lx ctx W).1 ≠ .panic := by
  obtain ⟨h1, h2, h3, h4, h5, h6, h7, h8⟩ := ih
  intro lx ctx W hf
  simp only [run, Frag] at hf ⊢
  np_tac

theorem run_np_ctxPushed {n} (ih : NpAt R n) {tag a} :
    ∀ lx ctx W, Frag (.ctxPushed tag a) → (run R (n+1) (.ctxPushed tag a) lx ctx W).1 ≠ .panic := by
  obtain ⟨h1, h2, h3, h4, h5, h6, h7, h8⟩ := ih
  intro lx ctx W hf
  simp only [run, Frag] at hf ⊢
  np_tac

theorem run_np_ctxPush {n} (ih : NpAt R n) {tag a} :
    ∀ lx ctx W, Frag (.ctxPush tag a) → (run R (n+1) (.ctxPush tag a) lx ctx W).1 ≠ .panic := by
  obtain ⟨h1, h2, h3, h4, h5, h6, h7, h8⟩ := ih
  intro lx ctx W hf
  simp only [run, Frag] at hf ⊢
  np_tac

theorem run_np_ctxLocked {n} (ih : NpAt R n) {flag a} :
    ∀ lx ctx W, Frag (.ctxLocked flag a) → (run R (n+1) (.ctxLocked flag a) lx ctx W).1 ≠ .panic := by
  obtain ⟨h1, h2, h3, h4, h5, h6, h7, h8⟩ := ih
  intro lx ctx W hf
  simp only [run, Frag] at hf ⊢
  np_tac

theorem run_np_someOf {n} (ih : NpAt R n) {a} :
    ∀ lx ctx W, Frag (.someOf a) → (run R (n+1) (.someOf a) lx ctx W).1 ≠ .panic := by
  obtain ⟨h1, h2, h3, h4, h5, h6, h7, h8⟩ := ih
  intro lx ctx W hf
  simp only [run, Frag] at hf ⊢
  np_tac

theorem run_np {n} (ih : NpAt R n) : ∀ g lx ctx W, Frag g → (run R (n+1) g lx ctx W).1 ≠ .panic := by
  intro g
  cases g
  · exact run_np_empty ih
  · exact run_np_one ih
  · exact run_np_any ih
  · exact run_np_anyIndex ih
  · exact run_np_seq ih
  · exact run_np_seqCount ih
  · exact run_np_pred ih
  · exact run_np_endOfText ih
  · exact run_np_left ih
  · exact run_np_right ih
  · exact run_np_both ih
  · exact run_np_center ih
  · exact run_np_map ih
  · exact run_np_discard ih
  · exact run_np_either ih
  · exact run_np_maybe ih
  · exact run_np_requireIf ih
  · exact run_np_cond ih
  · exact run_np_implies ih
  · exact run_np_antecedent ih
  · exact run_np_consequent ih
  · exact run_np_condImplies ih
  · exact run_np_filterWith ih
  · exact run_np_unfiltered ih
  · exact run_np_sub ih
  · exact run_np_spanned ih
  · exact run_np_text ih
  · exact run_np_repeat_ ih
  · exact run_np_repeatUntil ih
  · exact run_np_intersperse ih
  · exact run_np_intersperseUntil ih
  · exact run_np_intersperseDefault ih
  · exact run_np_raw ih
  · exact run_np_unrecoverable ih
  · exact run_np_recover ih
  · exact run_np_stabilize ih
  · exact run_np_bracket ih
  · exact run_np_list ih
  · exact run_np_upTo ih
  · exact run_np_probe ih
  · exact run_np_ctxPushed ih
  · exact run_np_ctxPush ih
  · exact run_np_ctxLocked ih
  · exact run_np_someOf ih

theorem recoverDefault_np {n} (ih : NpAt R n) : ∀ dv id r body lx ctx W, Frag body →
    (recoverDefault R (n+1) dv id r body lx ctx W).1 ≠ .panic := by
  obtain ⟨h1, h2, h3, h4, h5, h6, h7, h8⟩ := ih
  intro dv id r body lx ctx W hf
  simp only [recoverDefault]
  np_tac

theorem stabLoop_np {n} (ih : NpAt R n) : ∀ a lx ctx res W, Frag a → res ≠ .panic →
    (stabLoop R (n+1) a lx ctx res W).1 ≠ .panic := by
  obtain ⟨h1, h2, h3, h4, h5, h6, h7, h8⟩ := ih
  intro a lx ctx res W hf hres
  cases res with
  | ok v l => simp [stabLoop]
  | fuel => simp [stabLoop]
  | panic => exact absurd rfl hres
  | err e =>
    simp only [stabLoop]
    split
    · split
      · simp
      · exact h3 _ _ _ _ _ hf (h1 (.unrecoverable a) _ _ _ (by simpa [Frag] using hf))
    · simp

theorem sepItem_np {n} (ih : NpAt R n) : ∀ a sep lx ctx W, Frag a → Frag sep →
    (sepItem R (n+1) a sep lx ctx W).1 ≠ .panic := by
  obtain ⟨h1, h2, h3, h4, h5, h6, h7, h8⟩ := ih
  intro a sep lx ctx W hfa hfs
  simp only [sepItem]
  np_tac

theorem interLoopStart_np {n} (ih : NpAt R n) : ∀ lo hi a sep lx ctx W, hiBelow hi lo = false → Frag a → Frag sep →
    (interLoopStart R (n+1) lo hi a sep lx ctx W).1 ≠ .panic := by
  obtain ⟨h1, h2, h3, h4, h5, h6, h7, h8⟩ := ih
  intro lo hi a sep lx ctx W hb hfa hfs
  simp only [interLoopStart, hb]
  np_tac

theorem interLoop_np {n} (ih : NpAt R n) : ∀ lo hi a sep vals lx ctx W, Frag a → Frag sep →
    (interLoop R (n+1) lo hi a sep vals lx ctx W).1 ≠ .panic := by
  obtain ⟨h1, h2, h3, h4, h5, h6, h7, h8⟩ := ih
  intro lo hi a sep vals lx ctx W hfa hfs
  simp only [interLoop]
  np_tac

theorem untilStart_np {n} (ih : NpAt R n) : ∀ lo hi stop a sep lx ctx W, hiBelow hi lo = false → Frag stop →
    Frag a → Frag sep → (untilStart R (n+1) lo hi stop a sep lx ctx W).1 ≠ .panic := by
  obtain ⟨h1, h2, h3, h4, h5, h6, h7, h8⟩ := ih
  intro lo hi stop a sep lx ctx W hb hft hfa hfs
  simp only [untilStart, hb]
  np_tac

theorem untilLoop_np {n} (ih : NpAt R n) : ∀ lo hi stop a sep vals lx ctx W, Frag stop → Frag a → Frag sep →
    (untilLoop R (n+1) lo hi stop a sep vals lx ctx W).1 ≠ .panic := by
  obtain ⟨h1, h2, h3, h4, h5, h6, h7, h8⟩ := ih
  intro lo hi stop a sep vals lx ctx W hft hfa hfs
  simp only [untilLoop]
  np_tac

theorem np_step {n} (ih : NpAt R n) : NpAt R (n+1) :=
  ⟨run_np ih, recoverDefault_np ih, stabLoop_np ih, untilStart_np ih, untilLoop_np ih, sepItem_np ih,
   interLoopStart_np ih, interLoop_np ih⟩

theorem np_zero : NpAt R 0 := by
  constructor <;> intros <;> simp [run, recoverDefault, stabLoop, untilStart, untilLoop, sepItem, interLoopStart,
    interLoop]

theorem np_all : ∀ n, NpAt R n := by
  intro n
  induction n with
  | zero => exact np_zero
  | succ n ih => exact np_step ih

/-- `run` does not panic on the fragment, within preconditions. -/
theorem run_no_panic (R : RunEnv) (n : Nat) (g : G) (lx : Lx) (ctx : Ctx) (W : World) (hf : Frag g) :
    (run R n g lx ctx W).1 ≠ .panic :=
  (np_all n).run g lx ctx W hf

end Tephra.NoPanic
