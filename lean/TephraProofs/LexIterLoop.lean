/-
  C04: `Lexer.iterWithSpans` (the model of `Lexer::iter_with_spans().collect()`) is literally the
  loop "call `next`; on `Some(t)` record `(t, token_span(), parse_span())` and repeat; on `None`
  stop".  The model definition carries a progress guard (needed for its termination proof); under
  the scanner contract the guard never fires, so the guard-free loop with fuel agrees with it.
-/
import TephraProofs.LexIter

namespace Tephra
namespace LexIter
variable {σ τ : Type} {E : LexEnv σ τ} {m : Metrics} {len : Nat}

/-- The plain loop: repeatedly call `Lexer.next`; after each `some t` record
`(t, tokenSpan, parseSpan)` of the lexer as `next` left it; stop at the first `none`, returning the
recorded list and the lexer after that last call.  `none` = the fuel ran out before `next`
answered `none`. -/
def nextLoopList (E : LexEnv σ τ) : Nat → Lexer σ τ → Option (List (τ × Span × Span) × Lexer σ τ)
  | 0, _ => none
  | n + 1, lx =>
    match lx.next E with
    | (none, lx') => some ([], lx')
    | (some t, lx') =>
      match nextLoopList E n lx' with
      | none => none
      | some r => some ((t, lx'.tokenSpan, lx'.parseSpan) :: r.1, r.2)

theorem iter_is_next_loop_aux (ok : ScanOK E m len) {f} (lx : Lexer σ τ) (inv : Inv E m len f lx)
    (fuel : Nat) (h1 : 1 ≤ fuel) (hf : len < lx.cursor.byte + fuel) :
    nextLoopList E fuel lx = some (lx.iterWithSpans E) := by
  fun_induction Lexer.iterWithSpans E lx generalizing fuel with
  | case1 lx lx' h0 =>
    obtain ⟨k, rfl⟩ : ∃ k, fuel = k + 1 := ⟨fuel - 1, by omega⟩
    simp [nextLoopList, h0]
  | case2 lx t lx' h0 hg rr ih =>
    obtain ⟨k, rfl⟩ : ∃ k, fuel = k + 1 := ⟨fuel - 1, by omega⟩
    obtain ⟨n1, n2⟩ := next_spec ok inv
    cases hD : D E m len lx with
    | nil => have := n1 hD; rw [h0] at this; cases this
    | cons r post =>
      obtain ⟨lx'', e, i', _⟩ := n2 r post hD
      rw [h0] at e; cases e
      have hl := inv.hlen
      have := ih i' k (by omega) (by omega)
      simp [nextLoopList, h0, this, rr]
  | case3 lx t lx' h0 hg =>
    obtain ⟨n1, n2⟩ := next_spec ok inv
    cases hD : D E m len lx with
    | nil => have := n1 hD; rw [h0] at this; cases this
    | cons r post =>
      obtain ⟨lx'', e, i', h2, h3, h4, h5, h6, h7, h8⟩ := n2 r post hD
      rw [h0] at e; cases e
      exfalso; apply hg
      rw [h3, i'.hlen, inv.hlen]
      exact ⟨by omega, rfl, h8⟩

/-- Any lexer sitting at a point of the raw stream: with enough fuel the plain loop ends by a
`none` answer of `next` and yields exactly what `iterWithSpans` yields (list and final lexer). -/
theorem iter_is_next_loop (ok : ScanOK E m len) {f} (lx : Lexer σ τ) (inv : Inv E m len f lx)
    (fuel : Nat) (hf : len + 1 ≤ fuel) :
    nextLoopList E fuel lx = some (lx.iterWithSpans E) :=
  iter_is_next_loop_aux ok lx inv fuel (by omega) (by omega)

theorem inv_new (s0 : σ) : Inv E m len none (Lexer.new s0 m len : Lexer σ τ) := inv_fresh s0 none

theorem inv_setFilter (ok : ScanOK E m len) (s0 : σ) (f : Option Nat) :
    Inv E m len f ((Lexer.new s0 m len).setFilter E f).2 :=
  (bufferNext_spec ok (inv_fresh (E := E) (m := m) (len := len) s0 f)).1

theorem inv_withFilter (ok : ScanOK E m len) (s0 : σ) (f : Option Nat) :
    Inv E m len f ((Lexer.new s0 m len).withFilter E f) :=
  (bufferNext_spec ok (inv_setFilter ok s0 f)).1

end LexIter
end Tephra
