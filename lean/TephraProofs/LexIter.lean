/-
  TephraProofs.LexIter — the lexer model against the raw-stream specification
  (C04): `Lexer.iterWithSpans` delivers exactly `Spec.delivered keep raw`.

  Route: `rawAt s p` is the raw stream from scanner state `s` at position `p`
  (fuel-free under the scanner contract `ScanOK`); `D lx` is that stream at the
  lexer's scanner/cursor with the leading rejected tokens dropped.  `Inv` links a
  lexer to a point of the raw stream; `next` returns the head of `D lx` and
  re-establishes `Inv` for the tail; `bufferNext` keeps `Inv` and `D`.
-/
import TephraModel.Spec.Raw

namespace Tephra
open Tephra.Spec

/-- Scanner contract: a produced token is non-empty and ends inside the text; at
or past the end of the text the scanner produces nothing. -/
structure ScanOK {σ τ} (E : LexEnv σ τ) (m : Metrics) (len : Nat) : Prop where
  progress : ∀ s p tok adv s', E.scan s m p = (some (tok, adv), s') → p.byte < adv.byte ∧ adv.byte ≤ len
  atEnd : ∀ s p, len ≤ p.byte → (E.scan s m p).1 = none

namespace LexIter
variable {σ τ : Type} {E : LexEnv σ τ} {m : Metrics} {len : Nat}

/-! ### the raw stream, fuel-free -/

theorem rawFrom_fuel (ok : ScanOK E m len) :
    ∀ fuel fuel' s p, len + 1 ≤ fuel + p.byte → len + 1 ≤ fuel' + p.byte →
      rawFrom E.scan m fuel s p = rawFrom E.scan m fuel' s p := by
  intro fuel
  induction fuel with
  | zero =>
    intro fuel' s p h h'
    cases fuel' with
    | zero => rfl
    | succ n =>
      have := ok.atEnd s p (by omega)
      simp only [rawFrom]
      split
      · rfl
      · next heq => rw [heq] at this; cases this
  | succ n ih =>
    intro fuel' s p h h'
    cases fuel' with
    | zero =>
      have := ok.atEnd s p (by omega)
      simp only [rawFrom]
      split
      · rfl
      · next heq => rw [heq] at this; cases this
    | succ n' =>
      simp only [rawFrom]
      split
      · rfl
      · next tok adv s' heq =>
        have := ok.progress _ _ _ _ _ heq
        congr 1
        apply ih <;> omega

/-- The raw stream from scanner state `s` at `p`. -/
def rawAt (E : LexEnv σ τ) (m : Metrics) (len : Nat) (s : σ) (p : Pos) : List (RawTok τ) :=
  rawFrom E.scan m (len + 1) s p

theorem rawAt_none {s p s'} (h : E.scan s m p = (none, s')) : rawAt E m len s p = [] := by
  simp [rawAt, rawFrom, h]

theorem rawAt_some (ok : ScanOK E m len) {s p tok adv s'}
    (h : E.scan s m p = (some (tok, adv), s')) :
    rawAt E m len s p = ⟨tok, p, adv⟩ :: rawAt E m len s' adv := by
  have hp := ok.progress _ _ _ _ _ h
  have e : rawFrom E.scan m (len + 1) s p = ⟨tok, p, adv⟩ :: rawFrom E.scan m len s' adv := by
    simp only [rawFrom, h]
  rw [rawAt, e, rawAt]
  congr 1
  apply rawFrom_fuel ok <;> omega

theorem rawAt_atEnd (ok : ScanOK E m len) {s p} (h : len ≤ p.byte) : rawAt E m len s p = [] := by
  have := ok.atEnd s p h
  generalize hx : E.scan s m p = x at this
  obtain ⟨a, s'⟩ := x
  simp only at this
  subst this
  exact rawAt_none hx

theorem tiles_rawFrom (ok : ScanOK E m len) :
    ∀ fuel s p, tiles p (rawFrom E.scan m fuel s p) = true := by
  intro fuel
  induction fuel with
  | zero => intro s p; rfl
  | succ n ih =>
    intro s p
    simp only [rawFrom]
    split
    · rfl
    · next tok adv s' heq =>
      have := ok.progress _ _ _ _ _ heq
      simp [tiles, ih, this.1]

/-! ### list helpers -/

theorem dropWhile_cons_inv {α} {p : α → Bool} : ∀ {l : List α} {r post},
    l.dropWhile p = r :: post → p r = false := by
  intro l
  induction l with
  | nil => intro r post h; simp at h
  | cons a t ih =>
    intro r post h
    rw [List.dropWhile_cons] at h
    split at h
    · exact ih h
    · next hn =>
      cases h
      simpa using hn

theorem dropWhile_idem {α} (p : α → Bool) (l : List α) :
    (l.dropWhile p).dropWhile p = l.dropWhile p := by
  induction l with
  | nil => rfl
  | cons a t ih =>
    rw [List.dropWhile_cons]
    split
    · exact ih
    · next hn => rw [List.dropWhile_cons, if_neg hn]

theorem filter_dropWhile {α} (k : α → Bool) (l : List α) :
    (l.dropWhile (fun r => !k r)).filter k = l.filter k := by
  induction l with
  | nil => rfl
  | cons a t ih =>
    rw [List.dropWhile_cons]
    cases h : k a <;> simp [h, ih]

/-! ### filters -/

/-- The keep-predicate of a filter id (`none`: no filter, everything is kept). -/
def keepOf (E : LexEnv σ τ) (f : Option Nat) (t : τ) : Bool :=
  match f with
  | none => true
  | some k => E.passes k t

theorem filtered_eq (lx : Lexer σ τ) (tok : τ) :
    lx.filtered E tok = !keepOf E lx.filter tok := by
  unfold Lexer.filtered keepOf
  cases lx.filter <;> simp

/-- `delivered` with the parse-span start given. -/
def deliv (keep : τ → Bool) (PS : Pos) (l : List (RawTok τ)) : List (τ × Span × Span) :=
  (l.filter (fun r => keep r.tok)).map fun r => (r.tok, ⟨r.start, r.stop⟩, ⟨PS, r.stop⟩)

/-- The raw stream at the lexer's scanner/cursor without its leading rejected tokens. -/
def D (E : LexEnv σ τ) (m : Metrics) (len : Nat) (lx : Lexer σ τ) : List (RawTok τ) :=
  (rawAt E m len lx.scanner lx.cursor).dropWhile (fun r => !keepOf E lx.filter r.tok)

/-! ### `next_nonfiltered`, unbuffered loop -/

theorem nextLoop_spec (ok : ScanOK E m len) (behind : Bool) (lx : Lexer σ τ)
    (hm : lx.metrics = m) (hl : lx.len = len)
    (hb : behind = true → lx.tokenStart = lx.cursor) :
    (D E m len lx = [] → (Lexer.nextLoop E behind lx).1 = none) ∧
    (∀ r post, D E m len lx = r :: post → ∃ s',
      Lexer.nextLoop E behind lx =
        (some r.tok, { lx with scanner := s', parseStart := if behind then r.start else lx.parseStart,
                               tokenStart := r.start, cursor := r.stop }) ∧
      rawAt E m len s' r.stop = post ∧ lx.cursor.byte ≤ r.start.byte ∧
      r.start.byte < r.stop.byte ∧ r.stop.byte ≤ len) := by
  fun_induction Lexer.nextLoop E behind lx with
  | case1 lx s' heq =>
    subst hm
    simp [D, rawAt_none heq]
  | case2 lx tok adv s' heq hf lx' hg ih =>
    subst hm
    have hD : D E lx.metrics len lx' = D E lx.metrics len lx := by
      have hk : keepOf E lx.filter tok = false := by
        rw [filtered_eq] at hf; simpa using hf
      cases behind <;> simp [lx', D, rawAt_some ok heq, hk]
    have := ih (by cases behind <;> simp [lx']) (by cases behind <;> simp [lx', hl])
      (by cases behind <;> simp [lx'])
    rw [hD] at this
    refine ⟨this.1, ?_⟩
    intro r post h
    obtain ⟨s'', h1, h2, h3, h4, h5⟩ := this.2 r post h
    refine ⟨s'', ?_, h2, ?_, h4, h5⟩
    · rw [h1]; cases behind <;> simp [lx']
    · have : lx'.cursor = adv := by cases behind <;> simp [lx']
      rw [this] at h3; omega
  | case3 lx tok adv s' heq hf lx' hg =>
    subst hm
    have := ok.progress _ _ _ _ _ heq
    omega
  | case4 lx tok adv s' heq hf ps =>
    subst hm
    have hk : keepOf E lx.filter tok = true := by
      rw [filtered_eq] at hf; simpa using hf
    have hD : D E lx.metrics len lx = ⟨tok, lx.cursor, adv⟩ :: rawAt E lx.metrics len s' adv := by
      simp [D, rawAt_some ok heq, hk]
    have hp := ok.progress _ _ _ _ _ heq
    rw [hD]
    refine ⟨by simp, ?_⟩
    intro r post h
    cases h
    refine ⟨s', ?_, rfl, Nat.le_refl _, hp.1, hp.2⟩
    cases behind
    · simp [ps]
    · simp [ps, hb rfl]

/-! ### `buffer_next` -/

theorem bufferLoop_behind (ok : ScanOK E m len) (lx : Lexer σ τ) (ps : σ) (pc : Pos)
    (hm : lx.metrics = m) (hl : lx.len = len) (hps : ps = lx.scanner) (hpc : pc = lx.cursor)
    (hP : lx.parseStart = lx.cursor) (hT : lx.tokenStart = lx.cursor) (hbuf : lx.buffer = none) :
    ∃ s c ob, Lexer.bufferLoop E true lx ps pc =
        { lx with scanner := s, cursor := c, parseStart := c, tokenStart := c, buffer := ob } ∧
      rawAt E m len s c = D E m len lx ∧
      ∀ b, ob = some b →
        D E m len lx = ⟨b.token, b.peekStart, b.peekCursor⟩ :: rawAt E m len b.peekScanner b.peekCursor ∧
        c = b.peekStart ∧ b.peekStart.byte < b.peekCursor.byte ∧ b.peekCursor.byte ≤ len := by
  fun_induction Lexer.bufferLoop E true lx ps pc with
  | case1 lx ps pc s' heq =>
    subst hm hps hpc
    refine ⟨lx.scanner, lx.cursor, none, ?_, ?_, ?_⟩
    · cases lx; simp_all
    · simp [D, rawAt_none heq]
    · simp
  | case2 lx ps pc tok adv ps' heq hf lx' hg ih =>
    subst hm hps hpc
    have hk : keepOf E lx.filter tok = false := by
      rw [filtered_eq] at hf; simpa using hf
    have hD : D E lx.metrics len lx' = D E lx.metrics len lx := by
      simp [lx', D, rawAt_some ok heq, hk]
    obtain ⟨s, c, ob, h1, h2, h3⟩ := ih (by simp [lx']) (by simp [lx', hl]) (by simp [lx'])
      (by simp [lx']) (by simp [lx']) (by simp [lx']) (by simp [lx', hbuf])
    rw [hD] at h2 h3
    refine ⟨s, c, ob, ?_, h2, h3⟩
    rw [h1]; simp [lx']
  | case3 lx ps pc tok adv ps' heq hf lx' hg =>
    subst hm hps hpc
    have := ok.progress _ _ _ _ _ heq
    omega
  | case4 lx ps pc tok adv ps' heq hf =>
    subst hm hps hpc
    have hk : keepOf E lx.filter tok = true := by
      rw [filtered_eq] at hf; simpa using hf
    have hD : D E lx.metrics len lx = ⟨tok, lx.cursor, adv⟩ :: rawAt E lx.metrics len ps' adv := by
      simp [D, rawAt_some ok heq, hk]
    have hp := ok.progress _ _ _ _ _ heq
    refine ⟨lx.scanner, lx.cursor, some ⟨ps', lx.cursor, adv, tok⟩, ?_, ?_, ?_⟩
    · cases lx; simp_all
    · rw [hD, rawAt_some ok heq]
    · intro b hb
      cases hb
      exact ⟨hD, rfl, hp.1, hp.2⟩

theorem bufferLoop_ahead (ok : ScanOK E m len) (lx : Lexer σ τ) (ps : σ) (pc : Pos)
    (hm : lx.metrics = m) (hl : lx.len = len) :
    Lexer.bufferLoop E false lx ps pc = lx ∨
    ∃ b, Lexer.bufferLoop E false lx ps pc = { lx with buffer := some b } ∧
      (rawAt E m len ps pc).dropWhile (fun r => !keepOf E lx.filter r.tok) =
        ⟨b.token, b.peekStart, b.peekCursor⟩ :: rawAt E m len b.peekScanner b.peekCursor ∧
      pc.byte ≤ b.peekStart.byte ∧ b.peekStart.byte < b.peekCursor.byte ∧ b.peekCursor.byte ≤ len := by
  fun_induction Lexer.bufferLoop E false lx ps pc with
  | case1 lx ps pc s' heq => exact Or.inl rfl
  | case2 lx ps pc tok adv ps' heq hf lx' hg ih =>
    subst hm
    have hk : keepOf E lx.filter tok = false := by
      rw [filtered_eq] at hf; simpa using hf
    have hlx : lx' = lx := by simp [lx']
    rw [hlx] at ih ⊢
    rcases ih rfl hl with h | ⟨b, h1, h2, h3, h4, h5⟩
    · exact Or.inl h
    · refine Or.inr ⟨b, h1, ?_, ?_, h4, h5⟩
      · simp [rawAt_some ok heq, hk, h2]
      · omega
  | case3 lx ps pc tok adv ps' heq hf lx' hg =>
    subst hm
    have := ok.progress _ _ _ _ _ heq
    omega
  | case4 lx ps pc tok adv ps' heq hf =>
    subst hm
    have hk : keepOf E lx.filter tok = true := by
      rw [filtered_eq] at hf; simpa using hf
    have hp := ok.progress _ _ _ _ _ heq
    refine Or.inr ⟨⟨ps', pc, adv, tok⟩, rfl, ?_, Nat.le_refl _, hp.1, hp.2⟩
    simp [rawAt_some ok heq, hk]

/-! ### the invariant -/

/-- A lexer sits at a point of the raw stream of `(E, m, len)`, with filter `f`. -/
structure Inv (E : LexEnv σ τ) (m : Metrics) (len : Nat) (f : Option Nat) (lx : Lexer σ τ) : Prop where
  hmet : lx.metrics = m
  hlen : lx.len = len
  hfil : lx.filter = f
  ps_le : lx.parseStart.byte ≤ lx.cursor.byte
  ts : lx.parseStart = lx.cursor → lx.tokenStart = lx.cursor
  buf : ∀ b, lx.buffer = some b →
    D E m len lx = ⟨b.token, b.peekStart, b.peekCursor⟩ :: rawAt E m len b.peekScanner b.peekCursor ∧
    lx.cursor.byte ≤ b.peekStart.byte ∧ b.peekStart.byte < b.peekCursor.byte ∧ b.peekCursor.byte ≤ len

/-- `PS` is the start of the parse span once the next token has been delivered. -/
def PSok (E : LexEnv σ τ) (m : Metrics) (len : Nat) (lx : Lexer σ τ) (PS : Pos) : Prop :=
  (lx.parseStart ≠ lx.cursor → PS = lx.parseStart) ∧
  (lx.parseStart = lx.cursor → ∀ r post, D E m len lx = r :: post → PS = r.start)

theorem bufferNext_spec (ok : ScanOK E m len) {f} {lx : Lexer σ τ} (inv : Inv E m len f lx) :
    Inv E m len f (lx.bufferNext E) ∧ D E m len (lx.bufferNext E) = D E m len lx ∧
    ∀ PS, PSok E m len lx PS → PSok E m len (lx.bufferNext E) PS := by
  unfold Lexer.bufferNext
  split
  · exact ⟨inv, rfl, fun _ h => h⟩
  · next hb =>
    have hbuf : lx.buffer = none := by simpa using hb
    cases hbeh : (lx.parseStart == lx.cursor)
    · have hne : lx.parseStart ≠ lx.cursor := by simpa using hbeh
      rcases bufferLoop_ahead ok lx lx.scanner lx.cursor inv.hmet inv.hlen with h | ⟨b, h1, h2, h3, h4, h5⟩
      · rw [h]; exact ⟨inv, rfl, fun _ h => h⟩
      · rw [h1]
        refine ⟨⟨inv.hmet, inv.hlen, inv.hfil, inv.ps_le, inv.ts, ?_⟩, rfl, fun _ h => h⟩
        intro b' hb'
        cases hb'
        exact ⟨h2, h3, h4, h5⟩
    · have he : lx.parseStart = lx.cursor := by simpa using hbeh
      obtain ⟨s, c, ob, h1, h2, h3⟩ := bufferLoop_behind ok lx lx.scanner lx.cursor inv.hmet inv.hlen
        rfl rfl he (inv.ts he) hbuf
      rw [h1]
      have hD : D E m len ({ lx with scanner := s, cursor := c, parseStart := c, tokenStart := c, buffer := ob } : Lexer σ τ) = D E m len lx := by
        show (rawAt E m len s c).dropWhile _ = _
        rw [h2]; exact dropWhile_idem _ _
      refine ⟨⟨inv.hmet, inv.hlen, inv.hfil, Nat.le_refl _, fun _ => rfl, ?_⟩, hD, ?_⟩
      · intro b hb
        rw [hD]
        obtain ⟨g1, g2, g3, g4⟩ := h3 b hb
        exact ⟨g1, by simp [g2], g3, g4⟩
      · intro PS hps
        refine ⟨fun h => absurd rfl h, fun _ r post hr => ?_⟩
        rw [hD] at hr
        exact hps.2 he r post hr

/-! ### `next` -/

theorem next_spec (ok : ScanOK E m len) {f} {lx : Lexer σ τ} (inv : Inv E m len f lx) :
    (D E m len lx = [] → (lx.next E).1 = none) ∧
    (∀ r post, D E m len lx = r :: post → ∃ lx', lx.next E = (some r.tok, lx') ∧
      Inv E m len f lx' ∧ rawAt E m len lx'.scanner lx'.cursor = post ∧
      lx'.cursor = r.stop ∧ lx'.tokenStart = r.start ∧
      lx'.parseStart = (if lx.parseStart = lx.cursor then r.start else lx.parseStart) ∧
      lx.cursor.byte ≤ r.start.byte ∧ r.start.byte < r.stop.byte ∧ r.stop.byte ≤ len) := by
  unfold Lexer.next
  split
  · next hend =>
    rw [inv.hlen] at hend
    have : D E m len lx = [] := by simp [D, rawAt_atEnd ok hend]
    rw [this]
    exact ⟨fun _ => rfl, fun _ _ h => nomatch h⟩
  · next hend =>
    split
    · next buf hb =>
      obtain ⟨g1, g2, g3, g4⟩ := inv.buf buf hb
      rw [g1]
      refine ⟨(fun h => nomatch h), ?_⟩
      intro r post h
      cases h
      refine ⟨_, rfl, ⟨inv.hmet, inv.hlen, inv.hfil, ?_, ?_, ?_⟩, rfl, rfl, rfl, rfl, g2, g3, g4⟩
      · have := inv.ps_le
        show (if lx.parseStart = lx.cursor then buf.peekStart else lx.parseStart).byte ≤ buf.peekCursor.byte
        split <;> omega
      · intro h
        have := inv.ps_le
        have h' : (if lx.parseStart = lx.cursor then buf.peekStart else lx.parseStart) = buf.peekCursor := h
        have : (if lx.parseStart = lx.cursor then buf.peekStart else lx.parseStart).byte = buf.peekCursor.byte := by
          rw [h']
        split at this <;> omega
      · intro b hb'; cases hb'
    · next hb =>
      have hts : (lx.parseStart == lx.cursor) = true → lx.tokenStart = lx.cursor := by
        intro h; exact inv.ts (by simpa using h)
      obtain ⟨n1, n2⟩ := nextLoop_spec ok (lx.parseStart == lx.cursor) lx inv.hmet inv.hlen hts
      refine ⟨n1, ?_⟩
      intro r post h
      obtain ⟨s', h1, h2, h3, h4, h5⟩ := n2 r post h
      have := inv.ps_le
      refine ⟨_, h1, ⟨inv.hmet, inv.hlen, inv.hfil, ?_, ?_, ?_⟩, h2, rfl, rfl, ?_, h3, h4, h5⟩
      · show (if (lx.parseStart == lx.cursor) = true then r.start else lx.parseStart).byte ≤ r.stop.byte
        split <;> omega
      · intro h
        have h' : (if (lx.parseStart == lx.cursor) = true then r.start else lx.parseStart) = r.stop := h
        have : (if (lx.parseStart == lx.cursor) = true then r.start else lx.parseStart).byte = r.stop.byte := by
          rw [h']
        split at this <;> omega
      · intro b hb'
        have : lx.buffer = some b := hb'
        rw [hb] at this; cases this
      · show (if (lx.parseStart == lx.cursor) = true then r.start else lx.parseStart) = _
        simp

/-! ### `iter_with_spans` -/

theorem enclosing_le {a b : Pos} (h : a.byte ≤ b.byte) : Span.enclosing a b = ⟨a, b⟩ := by
  unfold Span.enclosing
  rw [if_neg (by omega)]

theorem iter_spec (ok : ScanOK E m len) {f} (lx : Lexer σ τ) (inv : Inv E m len f lx)
    (PS : Pos) (hps : PSok E m len lx PS) :
    (lx.iterWithSpans E).1 = deliv (keepOf E f) PS (D E m len lx) := by
  fun_induction Lexer.iterWithSpans E lx with
  | case1 lx lx' h0 =>
    obtain ⟨n1, n2⟩ := next_spec ok inv
    cases hD : D E m len lx with
    | nil => simp [deliv]
    | cons r post =>
      obtain ⟨lx'', h1, _⟩ := n2 r post hD
      rw [h0] at h1; cases h1
  | case2 lx t lx' h0 hg rr ih =>
    obtain ⟨n1, n2⟩ := next_spec ok inv
    cases hD : D E m len lx with
    | nil => have := n1 hD; rw [h0] at this; cases this
    | cons r post =>
      obtain ⟨lx'', h1, i', h2, h3, h4, h5, h6, h7, h8⟩ := n2 r post hD
      rw [h0] at h1; cases h1
      have hk : keepOf E f r.tok = true := by
        have := dropWhile_cons_inv hD
        rw [inv.hfil] at this; simpa using this
      have hPS : lx'.parseStart = PS := by
        rw [h5]
        split
        · next he => exact (hps.2 he r post hD).symm
        · next hne => exact (hps.1 hne).symm
      have hle : lx'.parseStart.byte ≤ r.start.byte := by
        have := inv.ps_le
        rw [h5]; split <;> omega
      have hps' : PSok E m len lx' PS := by
        refine ⟨fun _ => hPS.symm, fun h => ?_⟩
        have : lx'.parseStart.byte = lx'.cursor.byte := by rw [h]
        rw [h3] at this; omega
      have hih := ih i' hps'
      have hD' : deliv (keepOf E f) PS (D E m len lx') = deliv (keepOf E f) PS post := by
        unfold deliv D
        rw [h2, i'.hfil, filter_dropWhile (fun r : RawTok τ => keepOf E f r.tok)]
      have hts : lx'.tokenSpan = ⟨r.start, r.stop⟩ := by
        unfold Lexer.tokenSpan; rw [h3, h4]; exact enclosing_le (by omega)
      have hpsp : lx'.parseSpan = ⟨PS, r.stop⟩ := by
        unfold Lexer.parseSpan; rw [h3, ← hPS]; exact enclosing_le (by omega)
      show (r.tok, lx'.tokenSpan, lx'.parseSpan) :: (lx'.iterWithSpans E).1 = _
      rw [hih, hD', hts, hpsp]
      simp [deliv, hk]
  | case3 lx t lx' h0 hg =>
    obtain ⟨n1, n2⟩ := next_spec ok inv
    cases hD : D E m len lx with
    | nil => have := n1 hD; rw [h0] at this; cases this
    | cons r post =>
      obtain ⟨lx'', h1, i', h2, h3, h4, h5, h6, h7, h8⟩ := n2 r post hD
      rw [h0] at h1; cases h1
      exfalso; apply hg
      rw [h3, i'.hlen, inv.hlen]
      exact ⟨by omega, rfl, h8⟩

/-! ### from the invariant to `Spec.delivered` -/

theorem delivered_eq (keep : τ → Bool) (L : List (RawTok τ)) (PS : Pos)
    (h : ∀ r post, L.dropWhile (fun r => !keep r.tok) = r :: post → PS = r.start) :
    delivered keep L = deliv keep PS (L.dropWhile (fun r => !keep r.tok)) := by
  have hf := filter_dropWhile (fun r : RawTok τ => keep r.tok) L
  unfold delivered deliv
  rw [← hf]
  cases hD : L.dropWhile (fun r => !keep r.tok) with
  | nil => simp
  | cons r post =>
    have hk : keep r.tok = true := by simpa using dropWhile_cons_inv hD
    have := h r post hD
    subst this
    simp [hk]

/-- A lexer that satisfies the invariant and whose parse span is still to begin
delivers exactly the kept part of the raw stream `L` it sits on. -/
theorem iter_delivered (ok : ScanOK E m len) {f} (lx : Lexer σ τ) (inv : Inv E m len f lx)
    (L : List (RawTok τ)) (hD : D E m len lx = L.dropWhile (fun r => !keepOf E f r.tok))
    (hps : ∀ PS, (∀ r post, L.dropWhile (fun r => !keepOf E f r.tok) = r :: post → PS = r.start) →
      PSok E m len lx PS) :
    (lx.iterWithSpans E).1 = delivered (keepOf E f) L := by
  cases hL : L.dropWhile (fun r => !keepOf E f r.tok) with
  | nil =>
    have h : ∀ r post, L.dropWhile (fun r => !keepOf E f r.tok) = r :: post → Pos.zero = r.start := by
      intro r post e; rw [hL] at e; cases e
    rw [iter_spec ok lx inv Pos.zero (hps _ h), delivered_eq _ _ _ h, hD]
  | cons r0 post0 =>
    have h : ∀ r post, L.dropWhile (fun r => !keepOf E f r.tok) = r :: post → r0.start = r.start := by
      intro r post e; rw [hL] at e; cases e; rfl
    rw [iter_spec ok lx inv r0.start (hps _ h), delivered_eq _ _ _ h, hD]

/-- the fresh lexer with a filter installed, before any buffering. -/
def fresh (s0 : σ) (m : Metrics) (len : Nat) (f : Option Nat) : Lexer σ τ :=
  { (Lexer.new s0 m len : Lexer σ τ) with filter := f, buffer := none }

theorem inv_fresh (s0 : σ) (f : Option Nat) : Inv E m len f (fresh s0 m len f) :=
  ⟨rfl, rfl, rfl, Nat.le_refl _, fun _ => rfl, fun _ h => nomatch h⟩

theorem PSok_fresh (s0 : σ) (f : Option Nat) (PS : Pos)
    (h : ∀ r post, (rawAt E m len s0 Pos.zero).dropWhile (fun r => !keepOf E f r.tok) = r :: post →
      PS = r.start) : PSok E m len (fresh s0 m len f) PS :=
  ⟨fun hne => absurd rfl hne, fun _ r post hr => h r post hr⟩

theorem fresh_none (s0 : σ) : (fresh s0 m len none : Lexer σ τ) = Lexer.new s0 m len := rfl

theorem D_fresh (s0 : σ) (f : Option Nat) :
    D E m len (fresh s0 m len f) =
      (rawAt E m len s0 Pos.zero).dropWhile (fun r => !keepOf E f r.tok) := rfl

theorem iter_new (ok : ScanOK E m len) (s0 : σ) :
    ((Lexer.new s0 m len).iterWithSpans E).1 = delivered (keepOf E none) (rawAt E m len s0 Pos.zero) :=
  iter_delivered ok _ (inv_fresh s0 none) _ (D_fresh s0 none) (PSok_fresh s0 none)

theorem iter_setFilter (ok : ScanOK E m len) (s0 : σ) (f : Option Nat) :
    ((((Lexer.new s0 m len).setFilter E f).2).iterWithSpans E).1 =
      delivered (keepOf E f) (rawAt E m len s0 Pos.zero) := by
  obtain ⟨i1, d1, p1⟩ := bufferNext_spec ok (inv_fresh (E := E) (m := m) (len := len) s0 f)
  exact iter_delivered ok _ i1 _ (d1.trans (D_fresh s0 f)) (fun PS h => p1 PS (PSok_fresh s0 f PS h))

theorem iter_withFilter (ok : ScanOK E m len) (s0 : σ) (f : Option Nat) :
    (((Lexer.new s0 m len).withFilter E f).iterWithSpans E).1 =
      delivered (keepOf E f) (rawAt E m len s0 Pos.zero) := by
  obtain ⟨i1, d1, p1⟩ := bufferNext_spec ok (inv_fresh (E := E) (m := m) (len := len) s0 f)
  obtain ⟨i2, d2, p2⟩ := bufferNext_spec ok i1
  exact iter_delivered ok _ i2 _ ((d2.trans d1).trans (D_fresh s0 f)) (fun PS h => p2 PS (p1 PS (PSok_fresh s0 f PS h)))

end LexIter
end Tephra
