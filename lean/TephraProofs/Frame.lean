/-
  TephraProofs.Frame — C09: the lexer methods and every combinator of `run`
  leave `filter`, `metrics` and `len` of the lexer as they found them
  (`setFilter f` installs `f`).  Induction on the fuel, simultaneously for all
  members of the mutual block (`FrameAt`); `matchLoop`, `recoverLoop`,
  `advanceToRecover`, `seqLoop`, `seqCountLoop` separately.  The world half
  (logs only grow; nothing logged without a sink) is in `WorldFrame.lean`.
-/
import TephraModel.Run
import TephraProofs.RunMatchers
import TephraProofs.LexInv

set_option linter.unusedVariables false

namespace Tephra
namespace LexInv
variable {σ τ : Type} {E : LexEnv σ τ}

/-! ### the filter is changed by `setFilter` / `withFilter` only -/

@[simp] theorem bufferLoop_filter (behind : Bool) (lx : Lexer σ τ) (ps : σ) (pc : Pos) :
    (Lexer.bufferLoop E behind lx ps pc).filter = lx.filter := by
  fun_induction Lexer.bufferLoop E behind lx ps pc with
  | case1 => rfl
  | case2 lx ps pc tok adv ps' heq hf lx' hg ih => rw [ih]; cases behind <;> simp [lx']
  | case3 lx ps pc tok adv ps' heq hf lx' hg => cases behind <;> simp [lx']
  | case4 => rfl

@[simp] theorem bufferNext_filter (lx : Lexer σ τ) : (lx.bufferNext E).filter = lx.filter := by
  unfold Lexer.bufferNext; split <;> simp

@[simp] theorem peek_filter (lx : Lexer σ τ) : (lx.peek E).2.filter = lx.filter := by
  unfold Lexer.peek; split <;> simp

@[simp] theorem nextLoop_filter (behind : Bool) (lx : Lexer σ τ) :
    (Lexer.nextLoop E behind lx).2.filter = lx.filter := by
  fun_induction Lexer.nextLoop E behind lx with
  | case1 => rfl
  | case2 lx tok adv s' heq hf lx' hg ih => rw [ih]; cases behind <;> simp [lx']
  | case3 lx tok adv s' heq hf lx' hg => cases behind <;> simp [lx']
  | case4 => rfl

@[simp] theorem next_filter (lx : Lexer σ τ) : (lx.next E).2.filter = lx.filter := by
  unfold Lexer.next
  split
  · rfl
  · split <;> simp

@[simp] theorem nextIf_filter (pred : τ → Bool) (lx : Lexer σ τ) :
    (lx.nextIf E pred).2.filter = lx.filter := by
  unfold Lexer.nextIf
  split
  · next t lx' h =>
    have : lx'.filter = lx.filter := by rw [← peek_filter (E := E) lx, h]
    split
    · rw [next_filter, this]
    · exact this
  · next lx' h => rw [← peek_filter (E := E) lx, h]

@[simp] theorem setFilter_filter (f : Option Nat) (lx : Lexer σ τ) :
    (lx.setFilter E f).2.filter = f := by
  simp [Lexer.setFilter]

@[simp] theorem withFilter_filter (f : Option Nat) (lx : Lexer σ τ) :
    (lx.withFilter E f).filter = f := by
  simp [Lexer.withFilter]

@[simp] theorem startSublex_filter (lx : Lexer σ τ) : (lx.startSublex E).filter = lx.filter := by
  simp [Lexer.startSublex]

@[simp] theorem intoSublexer_filter (lx : Lexer σ τ) : (lx.intoSublexer E).filter = lx.filter := by
  simp [Lexer.intoSublexer]

@[simp] theorem setRecoverState_filter (r : Option Nat) (lx : Lexer σ τ) :
    (lx.setRecoverState r).filter = lx.filter := rfl

@[simp] theorem advanceUpTo_filter (pred : τ → Bool) (lx : Lexer σ τ) :
    (lx.advanceUpTo E pred).2.filter = lx.filter := by
  fun_induction Lexer.advanceUpTo E pred lx with
  | case1 lx lx' h => rw [← peek_filter (E := E) lx, h]
  | case2 lx t lx' h hp => rw [← peek_filter (E := E) lx, h]
  | case3 lx t lx' h hp o lx'' hn hg ih =>
    rw [ih]
    have : lx''.filter = lx'.filter := by rw [← next_filter (E := E) lx', hn]
    rw [this, ← peek_filter (E := E) lx, h]
  | case4 lx t lx' h hp o lx'' hn hg =>
    have : lx''.filter = lx'.filter := by rw [← next_filter (E := E) lx', hn]
    show lx''.filter = _
    rw [this, ← peek_filter (E := E) lx, h]

@[simp] theorem advanceTo_filter (pred : τ → Bool) (lx : Lexer σ τ) :
    (lx.advanceTo E pred).2.filter = lx.filter := by
  fun_induction Lexer.advanceTo E pred lx with
  | case1 lx lx' h => rw [← next_filter (E := E) lx, h]
  | case2 lx t lx' h hp => rw [← next_filter (E := E) lx, h]
  | case3 lx t lx' h hp hg ih => rw [ih, ← next_filter (E := E) lx, h]
  | case4 lx t lx' h hp hg => show lx'.filter = _; rw [← next_filter (E := E) lx, h]

/-! ### the length is never changed -/

@[simp] theorem bufferLoop_len (behind : Bool) (lx : Lexer σ τ) (ps : σ) (pc : Pos) :
    (Lexer.bufferLoop E behind lx ps pc).len = lx.len := by
  fun_induction Lexer.bufferLoop E behind lx ps pc with
  | case1 => rfl
  | case2 lx ps pc tok adv ps' heq hf lx' hg ih => rw [ih]; cases behind <;> simp [lx']
  | case3 lx ps pc tok adv ps' heq hf lx' hg => cases behind <;> simp [lx']
  | case4 => rfl

@[simp] theorem bufferNext_len (lx : Lexer σ τ) : (lx.bufferNext E).len = lx.len := by
  unfold Lexer.bufferNext; split <;> simp

@[simp] theorem peek_len (lx : Lexer σ τ) : (lx.peek E).2.len = lx.len := by
  unfold Lexer.peek; split <;> simp

@[simp] theorem nextLoop_len (behind : Bool) (lx : Lexer σ τ) :
    (Lexer.nextLoop E behind lx).2.len = lx.len := by
  fun_induction Lexer.nextLoop E behind lx with
  | case1 => rfl
  | case2 lx tok adv s' heq hf lx' hg ih => rw [ih]; cases behind <;> simp [lx']
  | case3 lx tok adv s' heq hf lx' hg => cases behind <;> simp [lx']
  | case4 => rfl

@[simp] theorem next_len (lx : Lexer σ τ) : (lx.next E).2.len = lx.len := by
  unfold Lexer.next
  split
  · rfl
  · split <;> simp

@[simp] theorem nextIf_len (pred : τ → Bool) (lx : Lexer σ τ) :
    (lx.nextIf E pred).2.len = lx.len := by
  unfold Lexer.nextIf
  split
  · next t lx' h =>
    have : lx'.len = lx.len := by rw [← peek_len (E := E) lx, h]
    split
    · rw [next_len, this]
    · exact this
  · next lx' h => rw [← peek_len (E := E) lx, h]

@[simp] theorem setFilter_len (f : Option Nat) (lx : Lexer σ τ) :
    (lx.setFilter E f).2.len = lx.len := by
  simp [Lexer.setFilter]

@[simp] theorem withFilter_len (f : Option Nat) (lx : Lexer σ τ) :
    (lx.withFilter E f).len = lx.len := by
  simp [Lexer.withFilter]

@[simp] theorem startSublex_len (lx : Lexer σ τ) : (lx.startSublex E).len = lx.len := by
  simp [Lexer.startSublex]

@[simp] theorem intoSublexer_len (lx : Lexer σ τ) : (lx.intoSublexer E).len = lx.len := by
  simp [Lexer.intoSublexer]

@[simp] theorem setRecoverState_len (r : Option Nat) (lx : Lexer σ τ) :
    (lx.setRecoverState r).len = lx.len := rfl

@[simp] theorem advanceUpTo_len (pred : τ → Bool) (lx : Lexer σ τ) :
    (lx.advanceUpTo E pred).2.len = lx.len := by
  fun_induction Lexer.advanceUpTo E pred lx with
  | case1 lx lx' h => rw [← peek_len (E := E) lx, h]
  | case2 lx t lx' h hp => rw [← peek_len (E := E) lx, h]
  | case3 lx t lx' h hp o lx'' hn hg ih =>
    rw [ih]
    have : lx''.len = lx'.len := by rw [← next_len (E := E) lx', hn]
    rw [this, ← peek_len (E := E) lx, h]
  | case4 lx t lx' h hp o lx'' hn hg =>
    have : lx''.len = lx'.len := by rw [← next_len (E := E) lx', hn]
    show lx''.len = _
    rw [this, ← peek_len (E := E) lx, h]

@[simp] theorem advanceTo_len (pred : τ → Bool) (lx : Lexer σ τ) :
    (lx.advanceTo E pred).2.len = lx.len := by
  fun_induction Lexer.advanceTo E pred lx with
  | case1 lx lx' h => rw [← next_len (E := E) lx, h]
  | case2 lx t lx' h hp => rw [← next_len (E := E) lx, h]
  | case3 lx t lx' h hp hg ih => rw [ih, ← next_len (E := E) lx, h]
  | case4 lx t lx' h hp hg => show lx'.len = _; rw [← next_len (E := E) lx, h]

@[simp] theorem setFilter_fst (f : Option Nat) (lx : Lexer σ τ) : (lx.setFilter E f).1 = lx.filter := rfl

end LexInv

namespace Frame
open LexInv

/-- The part of the lexer configuration a parser must hand back as it found it. -/
def Fr (a b : Lx) : Prop := b.filter = a.filter ∧ b.metrics = a.metrics ∧ b.len = a.len

theorem Fr.refl (a : Lx) : Fr a a := ⟨rfl, rfl, rfl⟩
theorem Fr.trans {a b c : Lx} (h1 : Fr a b) (h2 : Fr b c) : Fr a c :=
  ⟨h2.1.trans h1.1, h2.2.1.trans h1.2.1, h2.2.2.trans h1.2.2⟩

/-- a successful result carries a lexer in the frame of `lx` -/
def OkFr (lx : Lx) (r : RRes) : Prop := ∀ v lx', r = .ok v lx' → Fr lx lx'

@[simp] theorem OkFr_ok (lx : Lx) (v : Val) (lx' : Lx) : OkFr lx (.ok v lx') ↔ Fr lx lx' := by
  simp [OkFr]
@[simp] theorem OkFr_err (lx : Lx) (e : PErr) : OkFr lx (.err e) := by simp [OkFr]
@[simp] theorem OkFr_panic (lx : Lx) : OkFr lx .panic := by simp [OkFr]
@[simp] theorem OkFr_fuel (lx : Lx) : OkFr lx .fuel := by simp [OkFr]

theorem Fr_peek (R : RunEnv) (lx : Lx) : Fr lx (lx.peek R.E).2 := by simp [Fr]
theorem Fr_next (R : RunEnv) (lx : Lx) : Fr lx (lx.next R.E).2 := by simp [Fr]

theorem Fr_peek' {R : RunEnv} {lx lx' : Lx} {o : Option Tok} (h : lx.peek R.E = (o, lx')) : Fr lx lx' := by
  have := Fr_peek R lx; rwa [h] at this
theorem Fr_next' {R : RunEnv} {lx lx' : Lx} {o : Option Tok} (h : lx.next R.E = (o, lx')) : Fr lx lx' := by
  have := Fr_next R lx; rwa [h] at this

theorem recoverLoop_frame (R : RunEnv) (id : Nat) (n : Nat) (lx : Lx) (W : World) (lx' : Lx)
    (h : (recoverLoop R id n lx W).1 = some lx') : Fr lx lx' := by
  induction n generalizing lx W with
  | zero => simp [recoverLoop] at h
  | succ n ih =>
    simp only [recoverLoop] at h
    split at h
    · simp at h
    · next t lx1 hp =>
      have f1 := Fr_peek' hp
      split at h
      · simp at h; subst h; exact f1
      · exact (f1.trans (Fr_next R lx1)).trans (ih _ _ h)

theorem advanceToRecover_frame (R : RunEnv) (lx : Lx) (W : World) (lx' : Lx)
    (h : (advanceToRecover R lx W).1 = some lx') : Fr lx lx' := by
  unfold advanceToRecover at h
  split at h
  · simp at h; subst h; exact Fr.refl _
  · exact recoverLoop_frame _ _ _ _ _ _ h

theorem matchLoop_frame (R : RunEnv) (opens closes abort : List Nat) (sp : Span) (b : Lx) (n : Nat)
    (lexer : Lx) (openLexer : Option Lx) (opened : List (Nat × Nat)) (o c : Lx) (idx : Nat)
    (hl : Fr b lexer) (ho : ∀ ol, openLexer = some ol → Fr b ol)
    (h : matchLoop R opens closes abort sp n lexer openLexer opened = .found o c idx) :
    Fr b o ∧ Fr b c := by
  induction n generalizing lexer openLexer opened with
  | zero => simp [matchLoop] at h
  | succ n ih =>
    simp only [matchLoop] at h
    split at h
    · split at h
      · simp at h
      · split at h <;> simp at h
    · next tok lexer1 hp =>
      have f1 : Fr b lexer1 := hl.trans (Fr_peek' hp)
      have f2 : Fr b (lexer1.next R.E).2 := f1.trans (Fr_next R lexer1)
      grind

theorem OkFr.trans {a b : Lx} {r : RRes} (h1 : Fr a b) (h2 : OkFr b r) : OkFr a r :=
  fun v l h => h1.trans (h2 v l h)

/-! ### the fuel-independent members of the mutual block -/

theorem seqLoop_frame (R : RunEnv) (es : Span) (ks : List Nat) (lx : Lx) (acc : List Tok) :
    OkFr lx (seqLoop R es ks lx acc) := by
  induction ks generalizing lx acc with
  | nil => simp [seqLoop, Fr.refl]
  | cons k ks ih =>
    simp only [seqLoop]
    split
    · next t lx1 hn =>
      split
      · exact OkFr.trans (Fr_next' hn) (ih _ _)
      · simp
    · simp

theorem seqCountLoop_frame (R : RunEnv) (es : Span) (ks : List Nat) (lx : Lx) (c : Nat) :
    OkFr lx (seqCountLoop R es ks lx c) := by
  induction ks generalizing lx c with
  | nil => simp [seqCountLoop, Fr.refl]
  | cons k ks ih =>
    simp only [seqCountLoop]
    split
    · simp [Fr.refl]
    · split
      · next t lx1 hp =>
        split
        · exact OkFr.trans ((Fr_peek' hp).trans (Fr_next R lx1)) (ih _ _)
        · simpa using Fr_peek' hp
      · next lx1 hp =>
        split
        · simpa using Fr_peek' hp
        · simp

theorem countOf_frame (lx : Lx) (v : Nat) (r : RRes × World) (h : OkFr lx r.1) : OkFr lx (countOf v r).1 := by
  unfold countOf
  split
  · exact h
  · split
    · simpa using h
    · exact h

/-! ### the interpreter -/

structure FrameAt (R : RunEnv) (n : Nat) : Prop where
  run : ∀ g lx ctx W, OkFr lx (run R n g lx ctx W).1
  sepItem : ∀ a sep lx ctx W, OkFr lx (sepItem R n a sep lx ctx W).1
  interLoopStart : ∀ lo hi a sep lx ctx W, OkFr lx (interLoopStart R n lo hi a sep lx ctx W).1
  interLoop : ∀ lo hi a sep vals lx ctx W, OkFr lx (interLoop R n lo hi a sep vals lx ctx W).1
  untilStart : ∀ lo hi stop a sep lx ctx W, OkFr lx (untilStart R n lo hi stop a sep lx ctx W).1
  untilLoop : ∀ lo hi stop a sep vals lx ctx W, OkFr lx (untilLoop R n lo hi stop a sep vals lx ctx W).1
  recoverDefault : ∀ dv id r body lx ctx W, OkFr lx (recoverDefault R n dv id r body lx ctx W).1
  stabLoop : ∀ a lx ctx res W, OkFr lx res → OkFr lx (stabLoop R n a lx ctx res W).1
  listLoop : ∀ v id lo hi a sep abort lx ctx W vals, OkFr lx (listLoop R n v id lo hi a sep abort lx ctx W vals).1
  stabValue : ∀ dv id pat body lx ctx res W, OkFr lx res → OkFr lx (stabValue R n dv id pat body lx ctx res W).1

attribute [local grind =] bufferNext_filter bufferNext_metrics bufferNext_len peek_filter peek_metrics peek_len
  next_filter next_metrics next_len setFilter_filter setFilter_metrics setFilter_len setFilter_fst
  intoSublexer_filter intoSublexer_metrics intoSublexer_len advanceTo_filter advanceTo_metrics advanceTo_len
  setRecoverState_filter setRecoverState_metrics setRecoverState_len

theorem run_step (R : RunEnv) (n : Nat) (ih : FrameAt R n) (g : G) (lx : Lx) (ctx : Ctx) (W : World) :
    OkFr lx (run R (n + 1) g lx ctx W).1 := by
  obtain ⟨ihr, ihsep, ihis, ihil, ihus, ihul, ihrd, ihsl, ihll, ihsv⟩ := ih
  cases g <;> simp only [run]
  all_goals try (grind [OkFr, Fr])
  case seq ks => exact seqLoop_frame _ _ _ _ _
  case seqCount ks => exact seqCountLoop_frame _ _ _ _ _
  case repeat_ v lo hi a => exact countOf_frame _ _ _ (ihis _ _ _ _ _ _ _)
  case intersperse v lo hi a sep => exact countOf_frame _ _ _ (ihis _ _ _ _ _ _ _)
  case repeatUntil v lo hi stop a => exact countOf_frame _ _ _ (ihus _ _ _ _ _ _ _ _)
  case intersperseUntil v lo hi stop a sep => exact countOf_frame _ _ _ (ihus _ _ _ _ _ _ _ _)
  case bracket v opens a closes abort =>
    split
    · simp
    · split
      · simp
      · simp
      · simp
      · next o c idx hm =>
        have := matchLoop_frame R opens closes abort _ lx _ lx none [] o c idx (Fr.refl _) (by simp) hm
        have f2 : Fr lx (c.next R.E).2 := this.2.trans (Fr_next R c)
        split
        · simpa using f2
        · split
          · simp
          · simpa using f2
        · next r h1 h2 =>
          intro v l heq
          exact (h1 v l _ (Prod.ext heq rfl)).elim


theorem frameAt_zero (R : RunEnv) : FrameAt R 0 := by
  constructor <;> intros <;>
    simp [run, sepItem, interLoopStart, interLoop, untilStart, untilLoop, recoverDefault, stabLoop, listLoop, stabValue]

theorem advanceToRecover_frame' (R : RunEnv) (lx : Lx) (W : World) (lx' : Lx) (W' : World)
    (h : advanceToRecover R lx W = (some lx', W')) : Fr lx lx' :=
  advanceToRecover_frame R lx W lx' (by rw [h])

theorem frameAt_succ (R : RunEnv) (n : Nat) (ih : FrameAt R n) : FrameAt R (n + 1) := by
  have hrun := run_step R n ih
  obtain ⟨ihr, ihsep, ihis, ihil, ihus, ihul, ihrd, ihsl, ihll, ihsv⟩ := ih
  refine ⟨hrun, ?_, ?_, ?_, ?_, ?_, ?_, ?_, ?_, ?_⟩
  · intro a sep lx ctx W; simp only [sepItem]; grind [OkFr, Fr]
  · intro lo hi a sep lx ctx W; simp only [interLoopStart]; grind [OkFr, Fr]
  · intro lo hi a sep vals lx ctx W; simp only [interLoop]; grind [OkFr, Fr]
  · intro lo hi stop a sep lx ctx W; simp only [untilStart]; grind [OkFr, Fr]
  · intro lo hi stop a sep vals lx ctx W; simp only [untilLoop]; grind [OkFr, Fr]
  · intro dv id r body lx ctx W; simp only [recoverDefault]
    split
    · split
      · simp
      · split
        · next lx' W3 h => simpa [Fr] using advanceToRecover_frame' _ _ _ _ _ h
        · simp
    · exact ihr _ _ _ _
  · intro a lx ctx res W hres
    cases res <;> simp only [stabLoop]
    · simpa [Fr] using hres
    · split
      · next lx1 W1 h =>
        have f1 := advanceToRecover_frame' _ _ _ _ _ h
        split
        · simp
        · exact OkFr.trans f1 (ihsl _ _ _ _ _ (ihr _ _ _ _))
      · simp
    · simp
    · simp
  · intro v id lo hi a sep abort lx ctx W vals
    simp only [listLoop]
    split
    · next lexer hp =>
      have f0 := Fr_peek' hp
      grind [OkFr, Fr]
    · next tok lexer hp =>
      have f0 := Fr_peek' hp
      split
      · split
        · grind [OkFr, Fr]
        · have h1 := ihr (.stabilize (.maybe (.upTo (if v < 2 then G.someOf a else a) (sep :: abort)))) lexer ctx W
          split
          · grind [OkFr, Fr]
          · grind [OkFr, Fr]
          · grind [OkFr, Fr]
      · have h1 := ihrd (if v < 2 then Val.none else Val.dflt) id (Rec.sepOrAbort sep abort)
          ((if v < 2 then a.someOf else a).upTo (sep :: abort)) lexer ctx W
        have h2 := ihsv (if v < 2 then Val.none else Val.dflt) id (Rec.sepOrAbort sep abort)
          ((if v < 2 then a.someOf else a).upTo (sep :: abort)) lexer ctx _ (recoverDefault R n (if v < 2 then Val.none else Val.dflt) id
          (Rec.sepOrAbort sep abort) ((if v < 2 then a.someOf else a).upTo (sep :: abort)) lexer ctx W).snd h1
        split
        · next x lexer1 W1 hs =>
          rw [hs] at h2
          have f1 : Fr lx lexer1 := f0.trans (by simpa using h2)
          split
          · grind [OkFr, Fr]
          · split
            · next lexer2 hp2 =>
              have f2 := f1.trans (Fr_peek' hp2)
              grind [OkFr, Fr]
            · next t2 lexer2 hp2 =>
              have f2 := f1.trans (Fr_peek' hp2)
              split
              · grind [OkFr, Fr]
              · split
                · grind [OkFr, Fr]
                · have h3 := ihrd Val.dflt id (Rec.sepOrAbort sep abort) (G.one sep).discard lexer2 ctx W1
                  split
                  · next v1 lexer3 W2 hr =>
                    rw [hr] at h3
                    have f3 : Fr lx (Lexer.intoSublexer R.E lexer3) :=
                      (f2.trans (by simpa using h3)).trans (by simp [Fr])
                    exact OkFr.trans f3 (ihll _ _ _ _ _ _ _ _ _ _ _)
                  · next r hne =>
                    intro v' l' heq
                    exact (hne v' l' _ (Prod.ext heq rfl)).elim
        · next r hne =>
          intro v' l' heq
          exact (hne v' l' _ (Prod.ext heq rfl)).elim
  · intro dv id pat body lx ctx res W hres
    cases res <;> simp only [stabValue]
    · simpa [Fr] using hres
    · split
      · next lx1 W1 h =>
        have f1 := advanceToRecover_frame' _ _ _ _ _ h
        split
        · simp
        · exact OkFr.trans f1 (ihsv _ _ _ _ _ _ _ _ (ihrd _ _ _ _ _ _ _))
      · simp
    · simp
    · simp


theorem frameAt (R : RunEnv) : ∀ n, FrameAt R n
  | 0 => frameAt_zero R
  | n + 1 => frameAt_succ R n (frameAt R n)

/-- C09, lexer half: whatever the grammar, a successful run hands back a lexer
with the filter, metrics and length it was given. -/
theorem run_frame (R : RunEnv) (n : Nat) (g : G) (lx : Lx) (ctx : Ctx) (W : World) (v : Val) (lx' : Lx)
    (h : (run R n g lx ctx W).1 = .ok v lx') :
    lx'.filter = lx.filter ∧ lx'.metrics = lx.metrics ∧ lx'.len = lx.len :=
  (frameAt R n).run g lx ctx W v lx' h

end Frame
end Tephra
