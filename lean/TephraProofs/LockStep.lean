/-
  TephraProofs.LockStep — C08, part 4: the run without a sink and the run with a
  sink are in lock step until the first `send_error` (committed grammars).
  Parts 1-3 (recover-state frame, sink independence of recovery-free grammars,
  no recover state without a sink) are in `LockStepBase.lean`.
-/
import TephraProofs.LockStepBase

set_option linter.unusedVariables false

namespace Tephra
namespace LockStep
open WorldFrame

/-! ### Part 4 — lock step for committed grammars -/

/-- `Spec.committed` with the answer for `probe` as a parameter: `comm true = Spec.committed`,
`comm false` = `committed'` (a live `probe` — one outside `maybe`/`unrecoverable` — is not allowed). -/
def comm (pr : Bool) : G → Bool
  | .probe _ => pr
  | .empty | .one _ | .any _ | .anyIndex _ | .seq _ | .seqCount _ | .pred _ | .endOfText => true
  | .left a b | .right a b | .both a b => comm pr a && comm pr b
  | .center a b c => comm pr a && comm pr b && comm pr c
  | .either a b => Spec.recoveryFree a && comm pr b
  | .maybe _ | .unrecoverable _ => true
  | .requireIf flag a => if flag then comm pr a else true
  | .cond _ a => comm pr a
  | .implies _ b | .antecedent _ b | .consequent _ b | .condImplies _ _ b => comm pr b
  | .map a | .discard a | .filterWith _ a | .unfiltered a | .sub a | .spanned a | .text a | .raw a
  | .upTo a _ | .ctxPushed _ a | .ctxPush _ a | .ctxLocked _ a | .someOf a => comm pr a
  | .repeat_ _ _ _ a => Spec.recoveryFree a
  | .repeatUntil _ _ _ st a => Spec.recoveryFree st && Spec.recoveryFree a
  | .intersperse _ _ _ a sp => Spec.recoveryFree a && Spec.recoveryFree sp
  | .intersperseUntil _ _ _ st a sp => Spec.recoveryFree st && Spec.recoveryFree a && Spec.recoveryFree sp
  | .intersperseDefault _ _ a _ => Spec.recoveryFree a
  | .recover _ _ a _ => comm pr a
  | .stabilize a => comm pr a
  | .bracket _ _ a _ _ => comm pr a
  | .list _ _ _ _ a _ _ => comm pr a

theorem comm_true (g : G) : comm true g = Spec.committed g := by
  induction g <;> simp_all [comm, Spec.committed]

theorem comm_false_imp (g : G) : comm false g = true → Spec.committed g = true := by
  induction g <;> simp only [comm, Spec.committed] <;> grind

/-- no context transformer (`ctxPushed`, `ctxPush`, `ctxLocked`, `raw`) outside `maybe`/`unrecoverable`:
every reachable `send_error` sees the context the run was started with -/
def ctxFree : G → Bool
  | .ctxPushed .. | .ctxPush .. | .ctxLocked .. | .raw _ => false
  | .probe _ | .empty | .one _ | .any _ | .anyIndex _ | .seq _ | .seqCount _ | .pred _ | .endOfText => true
  | .left a b | .right a b | .both a b => ctxFree a && ctxFree b
  | .center a b c => ctxFree a && ctxFree b && ctxFree c
  | .either _ b => ctxFree b
  | .maybe _ | .unrecoverable _ => true
  | .requireIf flag a => if flag then ctxFree a else true
  | .cond _ a => ctxFree a
  | .implies _ b | .antecedent _ b | .consequent _ b | .condImplies _ _ b => ctxFree b
  | .map a | .discard a | .filterWith _ a | .unfiltered a | .sub a | .spanned a | .text a
  | .upTo a _ | .someOf a => ctxFree a
  | .repeat_ .. | .repeatUntil .. | .intersperse .. | .intersperseUntil .. | .intersperseDefault .. => true
  | .recover _ _ a _ => ctxFree a
  | .stabilize a => ctxFree a
  | .bracket _ _ a _ _ => ctxFree a
  | .list _ _ _ _ a _ _ => ctxFree a

/-- The sink-enabled run has left the lock step: its log (in world `W1`) starts with a new
entry `e'`; unless probes are allowed (`pr`), the sink-less run failed with an error `e`
of the same body (and `e' = c.apply e` if `p`). -/
def Div (pr p : Bool) (c : Ctx) (W : World) (r0 : RRes) (W1 : World) : Prop :=
  ∃ e' rest, W1.log = W.log ++ e' :: rest ∧
    (pr = false → ∃ e, r0 = .err e ∧ e'.body = e.body ∧ (p = true → e' = c.apply e))

/-- lock step: the two runs agree entirely, or the sink-enabled one has diverged -/
def LS (pr p : Bool) (c : Ctx) (W : World) (r0 r1 : RRes × World) : Prop :=
  r1 = r0 ∨ Div pr p c W r0.1 r1.2

theorem LS.same {pr p : Bool} {c : Ctx} {W : World} {r0 r1 : RRes × World} (h : r1 = r0) : LS pr p c W r0 r1 :=
  Or.inl h

theorem Div.lift {pr p q : Bool} {c c' : Ctx} {W W' : World} {r0 r0' : RRes} {W1 W1' : World}
    (h : Div pr p c W r0 W1) (h0 : pr = false → ∀ e, r0 = .err e → r0' = .err e)
    (h1 : WR true W1 W1') (hL : W.log = W'.log) (hq : q = true → p = true ∧ c' = c) :
    Div pr q c' W' r0' W1' := by
  obtain ⟨e', rest, hlog, hrest⟩ := h
  obtain ⟨t, ht⟩ := h1.1
  refine ⟨e', rest ++ t, ?_, ?_⟩
  · rw [← ht, hlog, hL]; simp
  · intro hpr
    obtain ⟨e, he, hb, hp⟩ := hrest hpr
    exact ⟨e, h0 hpr e he, hb, fun hq' => by rw [(hq hq').2]; exact hp (hq hq').1⟩

/-- from a diverged sub-run to the whole: the sink-less side passes the error up, the
sink-enabled side only extends its log -/
theorem LS.of_div {pr p q : Bool} {c c' : Ctx} {W W' : World} {r0 r1 R0 R1 : RRes × World}
    (h : Div pr p c W r0.1 r1.2) (h0 : pr = false → ∀ e, r0.1 = .err e → R0.1 = .err e)
    (h1 : WR true r1.2 R1.2) (hL : W.log = W'.log) (hq : q = true → p = true ∧ c' = c) :
    LS pr q c' W' R0 R1 :=
  Or.inr (h.lift h0 h1 hL hq)

theorem WR_log_append (W : World) (l : List PErr) : WR true W { W with log := W.log ++ l } :=
  ⟨by simp, by simp, by simp⟩

theorem sendError_on (c : Ctx) (e : PErr) (W : World) :
    sendError (on c) e W = (none, { W with log := W.log ++ [c.apply e] }) := by
  simp [sendError]

theorem stabLoop_none (R : RunEnv) (n : Nat) (a : G) (lx : Lx) (ctx : Ctx) (res : RRes) (W : World)
    (h : lx.recover = none) :
    stabLoop R (n + 1) a lx ctx res W =
      match res with
      | .ok v lx' => (.ok v (lx'.setRecoverState none), W)
      | r => (r, W) := by
  cases res <;> simp [stabLoop, advanceToRecover_none _ _ _ h]

theorem stabValue_none (R : RunEnv) (n : Nat) (dv : Val) (id : Nat) (pat : Rec) (body : G) (lx : Lx) (ctx : Ctx)
    (res : RRes) (W : World) (h : lx.recover = none) :
    stabValue R (n + 1) dv id pat body lx ctx res W =
      match res with
      | .ok v lx' => (.ok v (lx'.setRecoverState none), W)
      | r => (r, W) := by
  cases res <;> simp [stabValue, advanceToRecover_none _ _ _ h]

structure LSAt (pr : Bool) (R : RunEnv) (n : Nat) : Prop where
  run : ∀ g lx c W, c.sink = false → comm pr g = true → lx.recover = none →
    LS pr (ctxFree g) c W (run R n g lx c W) (run R n g lx (on c) W)
  recoverDefault : ∀ dv id r body lx c W, c.sink = false → comm pr body = true → lx.recover = none →
    LS pr (ctxFree body) c W (recoverDefault R n dv id r body lx c W) (recoverDefault R n dv id r body lx (on c) W)
  listLoop : ∀ v id lo hi a sep abort lx c W vals, c.sink = false → comm pr a = true → lx.recover = none →
    LS pr (ctxFree a) c W (listLoop R n v id lo hi a sep abort lx c W vals)
      (listLoop R n v id lo hi a sep abort lx (on c) W vals)

set_option hygiene false in
/-- close `LS` from a diverged sub-run (`LS.of_div`); `hw` relates the base logs -/
macro "ls_div " h:term " with " hw:term : tactic =>
  `(tactic| (refine LS.of_div $h ?_ ?_ $hw ?_ <;> (try clear ihr ihrd ihll nr si) <;>
      grind [WR.refl, WR.trans, WR_log_append, advanceToRecover_WR', ctxFree]))

set_option hygiene false in
/-- a single committed sub-run whose result is post-processed the same way on both sides -/
macro "ls_single " t:term " with " hw:term : tactic =>
  `(tactic| (have hh := $t
             rcases hh with h | h
             · (rw [h]; exact LS.same rfl)
             · ls_div h with $hw))

theorem ls_run_step (pr : Bool) (R : RunEnv) (n : Nat) (ih : LSAt pr R n) (g : G) (lx : Lx) (c : Ctx) (W : World)
    (hs : c.sink = false) (hg : comm pr g = true) (hr : lx.recover = none) :
    LS pr (ctxFree g) c W (run R (n + 1) g lx c W) (run R (n + 1) g lx (on c) W) := by
  obtain ⟨ihr, ihrd, ihll⟩ := ih
  have nr := (nrAt R n).run
  have wr := (wAt R n).run
  have si := (siAt R n)
  cases g <;> simp only [comm, Bool.and_eq_true] at hg <;> simp only [run, ctxFree]
  case empty | one | any | anyIndex | seq | seqCount | pred | endOfText | left | right | map | discard | cond
      | someOf | filterWith | unfiltered | sub | spanned | text | maybe | unrecoverable | list | upTo =>
    grind [LS, Div.lift, WR.refl, WR.trans, OkNR, comm, ctxFree, = peek_recover, = next_recover,
      = setFilter_recover, = intoSublexer_recover, = setRecoverState_recover, = withoutSink_sink,
      withoutSink_of_sink_false, rf_empty, rf_discard_one]
  case antecedent a b => ls_single (ihr (.implies a b) lx c W hs (by simpa [comm] using hg) hr) with rfl
  case consequent a b => ls_single (ihr (.implies a b) lx c W hs (by simpa [comm] using hg) hr) with rfl
  case ctxPushed tag a =>
    simp only [on_pushed]
    ls_single (ihr a lx (c.pushed tag) W (by simp [hs]) hg hr) with rfl
  case ctxPush tag a =>
    simp only [on_pushed]
    ls_single (ihr a lx (c.pushed tag) W (by simp [hs]) hg hr) with rfl
  case ctxLocked flag a =>
    simp only [on_locked]
    ls_single (ihr a lx { c with locked := flag } W (by simp [hs]) hg hr) with rfl
  case raw a =>
    simp only [on_raw]
    ls_single (ihr a lx c.rawCtx W (by simp [hs]) hg hr) with rfl
  case both a b =>
    rcases ihr a lx c W hs hg.1 hr with h | h
    · rw [h]
      have hnr := nr a lx c W hs hr
      have hw := (wr a lx c W).2.2 hs
      clear h
      generalize run R n a lx c W = rA at *
      rcases rA with ⟨(⟨v1, lx1⟩ | e | _ | _), W1⟩ <;> try exact LS.same rfl
      simp only []
      ls_single (ihr b lx1 c W1 hs hg.2 (hnr _ _ rfl)) with hw
    · ls_div h with rfl
  case center a b d =>
    rcases ihr a lx c W hs hg.1.1 hr with h | h
    · rw [h]
      have hnr := nr a lx c W hs hr
      have hw := (wr a lx c W).2.2 hs
      clear h
      generalize run R n a lx c W = rA at *
      rcases rA with ⟨(⟨v1, lx1⟩ | e | _ | _), W1⟩ <;> try exact LS.same rfl
      simp only []
      rcases ihr b lx1 c W1 hs hg.1.2 (hnr _ _ rfl) with h | h
      · rw [h]
        have hnr2 := nr b lx1 c W1 hs (hnr _ _ rfl)
        have hw2 := (wr b lx1 c W1).2.2 hs
        clear h
        generalize run R n b lx1 c W1 = rB at *
        rcases rB with ⟨(⟨v2, lx2⟩ | e | _ | _), W2⟩ <;> try exact LS.same rfl
        simp only []
        ls_single (ihr d lx2 c W2 hs hg.2 (hnr2 _ _ rfl)) with (hw2.trans hw)
      · ls_div h with hw
    · ls_div h with rfl
  case either a b =>
    rw [si.run a lx c W hg.1]
    have hw := (wr a lx c W).2.2 hs
    generalize run R n a lx c W = rA at *
    rcases rA with ⟨(⟨v1, lx1⟩ | e | _ | _), W1⟩ <;> try exact LS.same rfl
    simp only []
    ls_single (ihr b lx c W1 hs hg.2 hr) with hw
  case requireIf flag a =>
    cases flag
    · simp only [Bool.false_eq_true, if_false]
      ls_single (ihr (.maybe a) lx c W hs rfl hr) with rfl
    · simp only [if_true] at hg ⊢
      ls_single (ihr a lx c W hs hg hr) with rfl
  case implies a b =>
    rcases ihr (.maybe a) lx c W hs rfl hr with h | h
    · rw [h]
      have hnr := nr (.maybe a) lx c W hs hr
      have hw := (wr (.maybe a) lx c W).2.2 hs
      clear h
      generalize run R n (.maybe a) lx c W = rA at *
      rcases rA with ⟨(⟨v1, lx1⟩ | e | _ | _), W1⟩ <;> try exact LS.same rfl
      cases v1 <;> try exact LS.same rfl
      simp only []
      ls_single (ihr b lx1 c W1 hs hg (hnr _ _ rfl)) with hw
    · ls_div h with rfl
  case condImplies a k b =>
    rcases ihr (.maybe a) lx c W hs rfl hr with h | h
    · rw [h]
      have hnr := nr (.maybe a) lx c W hs hr
      have hw := (wr (.maybe a) lx c W).2.2 hs
      clear h
      generalize run R n (.maybe a) lx c W = rA at *
      rcases rA with ⟨(⟨v1, lx1⟩ | e | _ | _), W1⟩ <;> try exact LS.same rfl
      cases v1 <;> try exact LS.same rfl
      rename_i l
      cases l <;> simp only [Bool.false_eq_true, if_false] <;> try exact LS.same rfl
      split
      · ls_single (ihr b lx1 c W1 hs hg (hnr _ _ rfl)) with hw
      · exact LS.same rfl
    · ls_div h with rfl
  case repeat_ | repeatUntil | intersperse | intersperseUntil | intersperseDefault =>
    first
      | rw [si.interLoopStart _ _ _ _ _ _ _ (by first | exact hg | exact hg.1) (by first | rfl | exact hg.2)]
      | rw [si.untilStart _ _ _ _ _ _ _ _ (by first | exact hg.1 | exact hg.1.1) (by first | exact hg.2 | exact hg.1.2) (by first | rfl | exact hg.2)]
    exact LS.same rfl
  case probe tag =>
    subst hg
    simp only [sendError_on, sendError_nosink _ _ hs]
    refine Or.inr ⟨c.apply (mkErr (.probe tag)), [], by simp, by simp⟩
  case recover v id a r =>
    split
    · exact ihrd _ id r (.someOf a) lx c W hs hg hr
    · exact ihrd _ id r a lx c W hs hg hr
  case stabilize a =>
    cases n with
    | zero => simp [stabLoop, run, LS]
    | succ m =>
      simp only [stabLoop_none _ _ _ _ _ _ _ hr]
      ls_single (ihr a lx c W hs hg hr) with rfl
  case bracket v opens a closes abort =>
    simp only [sendError_on, sendError_nosink _ _ hs]
    split
    · exact LS.same rfl
    rename_i hcnd
    clear hcnd
    split
    · exact LS.same rfl
    · exact LS.same rfl
    · exact LS.same rfl
    next o cl idx hm =>
    have hm' := matchLoop_recover R opens closes abort _ none _ lx none [] o cl idx hr (by simp) hm
    have hin : (Lexer.intoSublexer R.E (o.next R.E).2).recover = none := by
      rw [intoSublexer_recover, next_recover]; exact hm'.1
    have hb : comm pr (if (v % 2 == 0) = true then G.someOf a else a) = true := by split <;> simpa [comm] using hg
    have hcf : ctxFree (if (v % 2 == 0) = true then G.someOf a else a) = ctxFree a := by split <;> simp [ctxFree]
    rcases ihr _ _ c W hs hb hin with h | h
    · rw [h]
      have hw := (wr (if (v % 2 == 0) = true then G.someOf a else a) (Lexer.intoSublexer R.E (o.next R.E).2) c W).2.2 hs
      clear h
      generalize run R n (if (v % 2 == 0) = true then G.someOf a else a) (Lexer.intoSublexer R.E (o.next R.E).2) c W = rA at *
      rcases rA with ⟨(⟨v1, lx1⟩ | e | _ | _), W1⟩ <;> try exact LS.same rfl
      exact Or.inr ⟨c.apply e, [], by simp [← hw], fun _ => ⟨e, rfl, rfl, fun _ => rfl⟩⟩
    · rw [hcf] at h
      clear hm hm' hin hb hcf
      generalize (if (v % 2 == 0) = true then G.someOf a else a) = body at *
      ls_div h with rfl


theorem LS.rebase {pr p q : Bool} {c : Ctx} {W W' : World} {r0 r1 : RRes × World}
    (h : LS pr p c W r0 r1) (hL : W.log = W'.log) (hq : q = true → p = true) : LS pr q c W' r0 r1 := by
  rcases h with h | h
  · exact Or.inl h
  · exact Or.inr (h.lift (fun _ _ he => he) (WR.refl _ _) hL (fun hq' => ⟨hq hq', rfl⟩))

theorem listFinish_WR (ctx : Ctx) (lo : Nat) (hi : Option Nat) (lexer : Lx) (vals : List Val) (W : World) :
    WR ctx.sink W (listFinish ctx lo hi lexer vals W).2 := by
  unfold listFinish
  split
  · exact WR.refl _ _
  · split
    · dsimp only
      split
      · next h => exact sendError_WR' h
      · next h => exact sendError_WR' h
    · exact WR.refl _ _

theorem finish_ls (pr p : Bool) (c : Ctx) (lo : Nat) (hi : Option Nat) (lexer : Lx) (vals : List Val) (W : World)
    (hs : c.sink = false) :
    LS pr p c W (listFinish c lo hi lexer vals W) (listFinish (on c) lo hi lexer vals W) := by
  unfold listFinish
  simp only [sendError_on, sendError_nosink _ _ hs]
  split
  · exact LS.same rfl
  · split
    · exact Or.inr ⟨_, [], rfl, fun _ => ⟨_, rfl, rfl, fun _ => rfl⟩⟩
    · exact LS.same rfl

theorem lsAt_zero (pr : Bool) (R : RunEnv) : LSAt pr R 0 := by
  constructor <;> intros <;> simp [run, recoverDefault, listLoop, LS]

theorem ls_recoverDefault_step (pr : Bool) (R : RunEnv) (n : Nat) (ih : LSAt pr R n) (dv : Val) (id : Nat) (r : Rec)
    (body : G) (lx : Lx) (c : Ctx) (W : World)
    (hs : c.sink = false) (hg : comm pr body = true) (hr : lx.recover = none) :
    LS pr (ctxFree body) c W (recoverDefault R (n + 1) dv id r body lx c W)
      (recoverDefault R (n + 1) dv id r body lx (on c) W) := by
  obtain ⟨ihr, ihrd, ihll⟩ := ih
  have nr := (nrAt R n).run
  have wr := (wAt R n).run
  have si := (siAt R n)
  simp only [recoverDefault, sendError_on, sendError_nosink _ _ hs]
  rcases ihr body lx c (W.register id r) hs hg hr with h | h
  · rw [h]
    have hw := (wr body lx c (W.register id r)).2.2 hs
    clear h
    generalize run R n body lx c (W.register id r) = rA at *
    rcases rA with ⟨(⟨v1, lx1⟩ | e | _ | _), W1⟩ <;> try exact LS.same rfl
    refine Or.inr ⟨c.apply e, [], ?_, fun _ => ⟨e, rfl, rfl, fun _ => rfl⟩⟩
    have := (advanceToRecover_WR R false (lx.setRecoverState (some id))
      { W1 with log := W1.log ++ [c.apply e] }).2.2 rfl
    simp only [register_log] at hw
    simp only []
    split <;> simp_all
  · ls_div h with (register_log W id r)

theorem ls_listLoop_step (pr : Bool) (R : RunEnv) (n : Nat) (ih : LSAt pr R n) (v id lo : Nat) (hi : Option Nat)
    (a : G) (sep : Nat) (abort : List Nat) (lx : Lx) (c : Ctx) (W : World) (vals : List Val)
    (hs : c.sink = false) (hg : comm pr a = true) (hr : lx.recover = none) :
    LS pr (ctxFree a) c W (listLoop R (n + 1) v id lo hi a sep abort lx c W vals)
      (listLoop R (n + 1) v id lo hi a sep abort lx (on c) W vals) := by
  obtain ⟨ihr, ihrd, ihll⟩ := ih
  have nr := (nrAt R n).run
  have nrd := (nrAt R n).recoverDefault
  have wr := (wAt R n).run
  have wrd := (wAt R n).recoverDefault
  have wll := (wAt R n).listLoop
  have si := (siAt R n)
  have wfin := listFinish_WR
  simp only [listLoop_succ]
  have hitem : comm pr (if v < 2 then G.someOf a else a) = true := by split <;> simpa [comm] using hg
  have hcf : ctxFree (if v < 2 then G.someOf a else a) = ctxFree a := by split <;> simp [ctxFree]
  generalize (if v < 2 then G.someOf a else a) = item at *
  generalize (if v < 2 then Val.none else Val.dflt) = dv at *
  split
  · exact finish_ls _ _ _ _ _ _ _ _ hs
  next tok lexer hp =>
  have f0 : lexer.recover = none := (peek_recover' hp).trans hr
  split
  · split
    · exact finish_ls _ _ _ _ _ _ _ _ hs
    · rcases ihr (.stabilize (.maybe (.upTo item (sep :: abort)))) lexer c W hs rfl f0 with h | h
      · rw [h]
        have hw := (wr (.stabilize (.maybe (.upTo item (sep :: abort)))) lexer c W).2.2 hs
        clear h
        generalize run R n (.stabilize (.maybe (.upTo item (sep :: abort)))) lexer c W = rA at *
        rcases rA with ⟨(⟨v1, lx1⟩ | e | _ | _), W1⟩ <;> try exact LS.same rfl
        cases v1 <;> exact (finish_ls _ true _ _ _ _ _ _ hs).rebase hw (fun _ => rfl)
      · ls_div h with rfl
  · cases n with
    | zero => simp [recoverDefault, stabValue, LS]
    | succ m =>
      simp only [stabValue_none _ _ _ _ _ _ _ _ _ _ f0]
      rcases ihrd dv id (Rec.sepOrAbort sep abort) (.upTo item (sep :: abort)) lexer c W hs
        (by simpa [comm] using hitem) f0 with h | h
      · rw [h]
        have hw := (wrd dv id (Rec.sepOrAbort sep abort) (.upTo item (sep :: abort)) lexer c W).2.2 hs
        clear h
        generalize recoverDefault R (m + 1) dv id (Rec.sepOrAbort sep abort) (.upTo item (sep :: abort)) lexer c W = rA at *
        rcases rA with ⟨(⟨v1, lx1⟩ | e | _ | _), W1⟩ <;> try exact LS.same rfl
        simp only []
        have f1 : (Lexer.setRecoverState none lx1).recover = none := rfl
        generalize Lexer.setRecoverState none lx1 = lexer1 at *
        have hfin : ∀ lexer' vals', LS pr (ctxFree a) c W (listFinish c lo hi lexer' vals' W1)
            (listFinish (on c) lo hi lexer' vals' W1) :=
          fun lexer' vals' => (finish_ls _ true _ _ _ _ _ _ hs).rebase hw (fun _ => rfl)
        split
        · exact hfin _ _
        split
        · exact hfin _ _
        next t2 lexer2 hp2 =>
        have f2 : lexer2.recover = none := (peek_recover' hp2).trans f1
        split
        · exact hfin _ _
        split
        · exact hfin _ _
        rcases ihrd Val.dflt id (Rec.sepOrAbort sep abort) (.discard (.one sep)) lexer2 c W1 hs rfl f2 with h | h
        · rw [h]
          have hw2 := (wrd Val.dflt id (Rec.sepOrAbort sep abort) (.discard (.one sep)) lexer2 c W1).2.2 hs
          have hn2 := nrd Val.dflt id (Rec.sepOrAbort sep abort) (.discard (.one sep)) lexer2 c W1 hs f2
          clear h
          generalize recoverDefault R (m + 1) Val.dflt id (Rec.sepOrAbort sep abort) (.discard (.one sep)) lexer2 c W1 = rB at *
          rcases rB with ⟨(⟨v3, lx3⟩ | e | _ | _), W2⟩ <;> try exact LS.same rfl
          simp only []
          exact (ihll v id lo hi a sep abort _ c W2 _ hs hg
            (by rw [intoSublexer_recover]; exact hn2 _ _ rfl)).rebase (hw2.trans hw) (fun h => h)
        · ls_div h with hw
      · simp only [ctxFree, hcf] at h
        ls_div h with rfl

theorem lsAt (pr : Bool) (R : RunEnv) : ∀ n, LSAt pr R n
  | 0 => lsAt_zero pr R
  | n + 1 => ⟨ls_run_step pr R n (lsAt pr R n), ls_recoverDefault_step pr R n (lsAt pr R n),
      ls_listLoop_step pr R n (lsAt pr R n)⟩

/-- `committed'`: `Spec.committed` minus live probes (a `probe` outside `maybe`/`unrecoverable`) -/
abbrev committed' (g : G) : Bool := comm false g

/-- **Lock step.**  For a committed grammar run from a lexer without recover state, the
sink-less run and the sink-enabled run either agree entirely (result and world), or the
sink-enabled run has reported something; in the latter case — probes apart — the sink-less run
failed with an error whose body is that of the first report. -/
theorem run_lockstep (pr : Bool) (R : RunEnv) (n : Nat) (g : G) (lx : Lx) (c : Ctx) (W : World)
    (hs : c.sink = false) (hg : comm pr g = true) (hr : lx.recover = none) :
    LS pr (ctxFree g) c W (run R n g lx c W) (run R n g lx (on c) W) :=
  (lsAt pr R n).run g lx c W hs hg hr

end LockStep
end Tephra
