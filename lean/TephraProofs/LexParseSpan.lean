/-
  TephraProofs.LexParseSpan — the parse-span clause of C04 on operation histories.

  `parseSpanTrack` is the driver's `parseSpanOK` (TephraModel/Fam/Lex.lean, inside
  `runOps`) restated over model values: outside clones, after each `next` / `next_if`
  that returns a token, `parse_span()` starts (by byte offset) at the start of the
  first token delivered since the parse began — the start of the history or the last
  sub-lex mark — and ends where `token_span()` ends; an `advance_to` /
  `advance_up_to` switches the tracking off until the next sub-lex mark.

  Route.  No raw stream is needed.  `W lx` is a structural well-formedness of a
  lexer (scanner contract at its metrics, `parseStart ≤ cursor` by byte, equal
  bytes only when `parseStart = cursor = tokenStart`, a buffered token lies at or
  after the cursor and is non-empty).  `T lx first` ties the lexer to the tracker:
  `first = none`: nothing delivered since the parse began, `parseStart = cursor`
  (both move together over rejected tokens in `bufferLoop true` / `nextLoop true`);
  `first = some p`: `parseStart` is at byte `p.byte`, strictly before the cursor
  (so it never moves again until a sub-lex mark).  Every operation keeps `W`; every
  operation but `advance_to` / `advance_up_to` keeps `T`; a delivering `next`
  passes the tracker's check and establishes `T _ (some f)`.
-/
import TephraProofs.RunMatchers
import TephraProofs.LexInv
import TephraProofs.Frame
import TephraProofs.LexOpsSublex
import TephraProofs.MeasureCanon

namespace Tephra
namespace LexParseSpan
open LexOps
open LexOpsProof (isFork isMetricsOp exec_plain metricsFree_cons)

variable {σ τ : Type} {E : LexEnv σ τ} {len : Nat}

/-! ### the tracker (mirror of `Fam.Lex.runOps.parseSpanOK`) -/

/-- `out == "none"`: the advance returned no token. -/
def isNoneOut : Out τ → Bool
  | .tok none => true
  | _ => false

/-- The oracle's `goPS` over model observations: `depth` = clone depth, `first` = start of
the first token delivered since tracking (re)started, `known` = tracking is on. -/
def parseSpanTrack : Nat → Option Pos → Bool → List (Op τ) → List (Out τ × Lexer σ τ) → Bool
  | _, _, _, [], _ => true
  | _, _, _, _, [] => true
  | depth, first, known, op :: ops, o :: os =>
    match op with
    | .forkBegin => parseSpanTrack (depth + 1) first known ops os
    | .forkEnd => parseSpanTrack (depth - 1) first known ops os
    | _ =>
      if depth > 0 then parseSpanTrack depth first known ops os else
      match op with
      | .startSublex | .intoSublexer => parseSpanTrack depth none true ops os
      | .advanceTo _ | .advanceUpTo _ => parseSpanTrack depth first false ops os
      | .next | .nextIf _ =>
        if isNoneOut o.1 || !known then parseSpanTrack depth first known ops os else
        let ts := o.2.tokenSpan
        let ps := o.2.parseSpan
        let f := first.getD ts.s
        (ps.s.byte == f.byte && ps.e == ts.e) && parseSpanTrack depth (some f) known ops os
      | _ => parseSpanTrack depth first known ops os

/-- One tracked step outside clones: (check passed, new `first`, new `known`). -/
def trackStep (first : Option Pos) (known : Bool) (op : Op τ) (o : Out τ × Lexer σ τ) :
    Bool × Option Pos × Bool :=
  match op with
  | .startSublex | .intoSublexer => (true, none, true)
  | .advanceTo _ | .advanceUpTo _ => (true, first, false)
  | .next | .nextIf _ =>
    if isNoneOut o.1 || !known then (true, first, known) else
    let f := first.getD o.2.tokenSpan.s
    (o.2.parseSpan.s.byte == f.byte && o.2.parseSpan.e == o.2.tokenSpan.e, some f, known)
  | _ => (true, first, known)

theorem parseSpanTrack_plain (d : Nat) (first : Option Pos) (known : Bool) (op : Op τ)
    (ops : List (Op τ)) (o : Out τ × Lexer σ τ) (os : List (Out τ × Lexer σ τ))
    (h : isFork op = false) :
    parseSpanTrack d first known (op :: ops) (o :: os) =
      if d > 0 then parseSpanTrack d first known ops os
      else ((trackStep first known op o).1 &&
        parseSpanTrack d (trackStep first known op o).2.1 (trackStep first known op o).2.2 ops os) := by
  cases op <;> first
    | exact Bool.noConfusion h
    | (simp only [parseSpanTrack, trackStep]; split <;> simp; done)
    | (simp only [parseSpanTrack, trackStep]
       split
       · rfl
       · split <;> simp_all)

/-! ### the invariant -/

/-- Structural well-formedness of a lexer (for the scanner contract at its own metrics). -/
structure W (E : LexEnv σ τ) (len : Nat) (lx : Lexer σ τ) : Prop where
  ok : ScanOK E lx.metrics len
  hlen : lx.len = len
  ps_le : lx.parseStart.byte ≤ lx.cursor.byte
  eqv : lx.parseStart.byte = lx.cursor.byte → lx.parseStart = lx.cursor ∧ lx.tokenStart = lx.cursor
  buf : ∀ b, lx.buffer = some b →
    lx.cursor.byte ≤ b.peekStart.byte ∧ b.peekStart.byte < b.peekCursor.byte

/-- The lexer against the tracker's `first`. -/
def T (lx : Lexer σ τ) : Option Pos → Prop
  | none => lx.parseStart = lx.cursor
  | some p => lx.parseStart.byte = p.byte ∧ p.byte < lx.cursor.byte

theorem W.lt_of_ne {lx : Lexer σ τ} (w : W E len lx) (h : lx.parseStart ≠ lx.cursor) :
    lx.parseStart.byte < lx.cursor.byte := by
  have := w.ps_le
  rcases Nat.lt_or_ge lx.parseStart.byte lx.cursor.byte with h1 | h1
  · exact h1
  · exact absurd (w.eqv (by omega)).1 h

theorem T.ne_of_some {lx : Lexer σ τ} {p : Pos} (t : T lx (some p)) : lx.parseStart ≠ lx.cursor := by
  intro h
  have : lx.parseStart.byte = lx.cursor.byte := by rw [h]
  have := t.1; have := t.2
  omega

/-! ### `buffer_next` -/

theorem bufferLoop_true (lx : Lexer σ τ) (ps : σ) (pc : Pos) (ok : ScanOK E lx.metrics len)
    (hpc : pc = lx.cursor) (hP : lx.parseStart = lx.cursor) (hT : lx.tokenStart = lx.cursor)
    (hbuf : lx.buffer = none) :
    (Lexer.bufferLoop E true lx ps pc).parseStart = (Lexer.bufferLoop E true lx ps pc).cursor ∧
    (Lexer.bufferLoop E true lx ps pc).tokenStart = (Lexer.bufferLoop E true lx ps pc).cursor ∧
    ∀ b, (Lexer.bufferLoop E true lx ps pc).buffer = some b →
      b.peekStart = (Lexer.bufferLoop E true lx ps pc).cursor ∧ b.peekStart.byte < b.peekCursor.byte := by
  fun_induction Lexer.bufferLoop E true lx ps pc with
  | case1 lx ps pc s' heq => simp [hP, hT, hbuf]
  | case2 lx ps pc tok adv ps' heq hf lx' hg ih =>
    exact ih (by simpa [lx'] using ok) (by simp [lx']) (by simp [lx']) (by simp [lx']) (by simp [lx', hbuf])
  | case3 lx ps pc tok adv ps' heq hf lx' hg => simp [lx', hbuf]
  | case4 lx ps pc tok adv ps' heq hf =>
    refine ⟨hP, hT, ?_⟩
    intro b hb
    cases hb
    exact ⟨hpc, (ok.progress _ _ _ _ _ heq).1⟩

theorem bufferLoop_false (lx : Lexer σ τ) (ps : σ) (pc : Pos) (ok : ScanOK E lx.metrics len)
    (hbuf : lx.buffer = none) :
    (Lexer.bufferLoop E false lx ps pc).parseStart = lx.parseStart ∧
    (Lexer.bufferLoop E false lx ps pc).tokenStart = lx.tokenStart ∧
    (Lexer.bufferLoop E false lx ps pc).cursor = lx.cursor ∧
    ∀ b, (Lexer.bufferLoop E false lx ps pc).buffer = some b →
      pc.byte ≤ b.peekStart.byte ∧ b.peekStart.byte < b.peekCursor.byte := by
  fun_induction Lexer.bufferLoop E false lx ps pc with
  | case1 lx ps pc s' heq => simp [hbuf]
  | case2 lx ps pc tok adv ps' heq hf lx' hg ih =>
    have hlx : lx' = lx := by simp [lx']
    rw [hlx] at ih ⊢
    obtain ⟨h1, h2, h3, h4⟩ := ih ok hbuf
    refine ⟨h1, h2, h3, ?_⟩
    intro b hb
    have := h4 b hb
    omega
  | case3 lx ps pc tok adv ps' heq hf lx' hg => simp [lx', hbuf]
  | case4 lx ps pc tok adv ps' heq hf =>
    refine ⟨rfl, rfl, rfl, ?_⟩
    intro b hb
    cases hb
    exact ⟨Nat.le_refl _, (ok.progress _ _ _ _ _ heq).1⟩

theorem bufferNext_keep {lx : Lexer σ τ} (w : W E len lx) :
    W E len (lx.bufferNext E) ∧ ∀ first, T lx first → T (lx.bufferNext E) first := by
  unfold Lexer.bufferNext
  split
  · exact ⟨w, fun _ h => h⟩
  · next hb =>
    have hbuf : lx.buffer = none := by simpa using hb
    cases hbeh : (lx.parseStart == lx.cursor)
    · have hne : lx.parseStart ≠ lx.cursor := by simpa using hbeh
      have hlt := w.lt_of_ne hne
      obtain ⟨h1, h2, h3, h4⟩ := bufferLoop_false (E := E) (len := len) lx lx.scanner lx.cursor w.ok hbuf
      refine ⟨⟨by simpa using w.ok, by simpa using w.hlen, by rw [h1, h3]; exact w.ps_le, ?_, by rw [h3]; exact h4⟩, ?_⟩
      · rw [h1, h3]; intro h; omega
      · intro first t
        cases first with
        | none => exact absurd t hne
        | some p => show _ ∧ _; rw [h1, h3]; exact t
    · have he : lx.parseStart = lx.cursor := by simpa using hbeh
      obtain ⟨h1, h2, h3⟩ := bufferLoop_true (E := E) (len := len) lx lx.scanner lx.cursor w.ok rfl he
        ((w.eqv (by rw [he])).2) hbuf
      refine ⟨⟨by simpa using w.ok, by simpa using w.hlen, by rw [h1]; exact Nat.le_refl _, fun _ => ⟨h1, h2⟩, ?_⟩, ?_⟩
      · intro b hb
        obtain ⟨g1, g2⟩ := h3 b hb
        rw [g1] at g2 ⊢
        exact ⟨Nat.le_refl _, g2⟩
      · intro first t
        cases first with
        | none => exact h1
        | some p => exact absurd he t.ne_of_some

theorem peek_keep {lx : Lexer σ τ} (w : W E len lx) :
    W E len (lx.peek E).2 ∧ ∀ first, T lx first → T (lx.peek E).2 first := by
  rcases LexOpsProof.peek_state (E := E) lx with h | h
  · rw [h]; exact ⟨w, fun _ t => t⟩
  · rw [h]; exact bufferNext_keep w

theorem emptyQ_keep {lx : Lexer σ τ} (w : W E len lx) :
    W E len (lx.isEmptyWithFilter E).2 ∧ ∀ first, T lx first → T (lx.isEmptyWithFilter E).2 first :=
  bufferNext_keep w

theorem setFilter_keep (f : Option Nat) {lx : Lexer σ τ} (w : W E len lx) :
    W E len (lx.setFilter E f).2 ∧ ∀ first, T lx first → T (lx.setFilter E f).2 first := by
  have w' : W E len ({ lx with filter := f, buffer := none } : Lexer σ τ) :=
    ⟨w.ok, w.hlen, w.ps_le, w.eqv, fun _ h => nomatch h⟩
  obtain ⟨h1, h2⟩ := bufferNext_keep w'
  refine ⟨h1, fun first t => h2 first ?_⟩
  cases first <;> exact t

theorem withFilter_keep (f : Option Nat) {lx : Lexer σ τ} (w : W E len lx) :
    W E len (lx.withFilter E f) ∧ ∀ first, T lx first → T (lx.withFilter E f) first := by
  obtain ⟨h1, h2⟩ := setFilter_keep f w
  obtain ⟨h3, h4⟩ := bufferNext_keep h1
  exact ⟨h3, fun first t => h4 first (h2 first t)⟩

theorem startSublex_keep {lx : Lexer σ τ} (w : W E len lx) :
    W E len (lx.startSublex E) ∧ T (lx.startSublex E) none := by
  have w' : W E len ({ lx with parseStart := lx.cursor, tokenStart := lx.cursor } : Lexer σ τ) :=
    ⟨w.ok, w.hlen, Nat.le_refl _, fun _ => ⟨rfl, rfl⟩, w.buf⟩
  obtain ⟨h1, h2⟩ := bufferNext_keep w'
  exact ⟨h1, h2 none rfl⟩

/-! ### `next` -/

theorem nextLoop_keep (behind : Bool) (lx : Lexer σ τ) (ok : ScanOK E lx.metrics len) (hl : lx.len = len)
    (hb : behind = true → lx.parseStart = lx.cursor ∧ lx.tokenStart = lx.cursor) :
    (Lexer.nextLoop E behind lx).2.buffer = lx.buffer ∧
    lx.cursor.byte ≤ (Lexer.nextLoop E behind lx).2.cursor.byte ∧
    ((Lexer.nextLoop E behind lx).1 = none →
      (behind = true → (Lexer.nextLoop E behind lx).2.parseStart = (Lexer.nextLoop E behind lx).2.cursor ∧
        (Lexer.nextLoop E behind lx).2.tokenStart = (Lexer.nextLoop E behind lx).2.cursor) ∧
      (behind = false → (Lexer.nextLoop E behind lx).2.parseStart = lx.parseStart)) ∧
    (∀ t, (Lexer.nextLoop E behind lx).1 = some t →
      lx.cursor.byte ≤ (Lexer.nextLoop E behind lx).2.tokenStart.byte ∧
      (Lexer.nextLoop E behind lx).2.tokenStart.byte < (Lexer.nextLoop E behind lx).2.cursor.byte ∧
      (Lexer.nextLoop E behind lx).2.parseStart =
        if behind = true then (Lexer.nextLoop E behind lx).2.tokenStart else lx.parseStart) := by
  fun_induction Lexer.nextLoop E behind lx with
  | case1 lx s' heq =>
    refine ⟨rfl, Nat.le_refl _, fun _ => ⟨hb, fun _ => rfl⟩, fun t h => nomatch h⟩
  | case2 lx tok adv s' heq hf lx' hg ih =>
    have hc : lx'.cursor = adv := by cases behind <;> simp [lx']
    have hbuf : lx'.buffer = lx.buffer := by cases behind <;> simp [lx']
    have hps : behind = false → lx'.parseStart = lx.parseStart := by
      intro h; subst h; simp [lx']
    obtain ⟨i1, i2, i3, i4⟩ := ih (by cases behind <;> simpa [lx'] using ok)
      (by cases behind <;> simpa [lx'] using hl)
      (by intro h; subst h; simp [lx'])
    rw [hc] at i2 i4
    refine ⟨i1.trans hbuf, by omega, ?_, ?_⟩
    · intro h
      obtain ⟨j1, j2⟩ := i3 h
      exact ⟨j1, fun h' => (j2 h').trans (hps h')⟩
    · intro t h
      obtain ⟨j1, j2, j3⟩ := i4 t h
      refine ⟨by omega, j2, ?_⟩
      rw [j3]
      cases behind
      · simp [lx']
      · simp
  | case3 lx tok adv s' heq hf lx' hg =>
    have hp := ok.progress _ _ _ _ _ heq
    omega
  | case4 lx tok adv s' heq hf ps =>
    have hp := ok.progress _ _ _ _ _ heq
    refine ⟨rfl, by simp; omega, fun h => by simp at h, ?_⟩
    intro t _
    refine ⟨Nat.le_refl _, hp.1, ?_⟩
    cases behind
    · simp [ps]
    · simp [ps, (hb rfl).2]

/-- What the tracker checks after a delivered token, and the invariant for its new state. -/
def Chk (first : Option Pos) (lx' : Lexer σ τ) : Prop :=
  lx'.parseSpan.s.byte = (first.getD lx'.tokenSpan.s).byte ∧ lx'.parseSpan.e = lx'.tokenSpan.e ∧
    T lx' (some (first.getD lx'.tokenSpan.s))

/-- The tracker's view of an advance by `next` / `next_if`. -/
def Deliv (first : Option Pos) (r : Option τ × Lexer σ τ) : Prop :=
  match r.1 with
  | none => T r.2 first
  | some _ => Chk first r.2

theorem chk_of {lx lx' : Lexer σ τ} (w : W E len lx)
    (h1 : lx.cursor.byte ≤ lx'.tokenStart.byte) (h2 : lx'.tokenStart.byte < lx'.cursor.byte)
    (h3 : lx'.parseStart = if lx.parseStart = lx.cursor then lx'.tokenStart else lx.parseStart)
    (first : Option Pos) (t : T lx first) : Chk first lx' := by
  have hle := w.ps_le
  have hts : lx'.tokenSpan = ⟨lx'.tokenStart, lx'.cursor⟩ := LexIter.enclosing_le (by omega)
  cases first with
  | none =>
    have he : lx.parseStart = lx.cursor := t
    rw [if_pos he] at h3
    have hps : lx'.parseSpan = ⟨lx'.tokenStart, lx'.cursor⟩ := by
      unfold Lexer.parseSpan; rw [h3]; exact LexIter.enclosing_le (by omega)
    refine ⟨?_, ?_, ?_⟩
    · rw [hps, hts]; rfl
    · rw [hps, hts]
    · rw [hts]; show _ ∧ _; rw [h3]; exact ⟨rfl, h2⟩
  | some p =>
    have hne := t.ne_of_some
    rw [if_neg hne] at h3
    have hps : lx'.parseSpan = ⟨lx.parseStart, lx'.cursor⟩ := by
      unfold Lexer.parseSpan; rw [h3]; exact LexIter.enclosing_le (by omega)
    obtain ⟨t1, t2⟩ := t
    refine ⟨?_, ?_, ?_⟩
    · rw [hps]; exact t1
    · rw [hps, hts]
    · show _ ∧ _; rw [h3]; exact ⟨t1, by show p.byte < _; omega⟩

theorem next_keep {lx : Lexer σ τ} (w : W E len lx) :
    W E len (lx.next E).2 ∧ ∀ first, T lx first → Deliv first (lx.next E) := by
  unfold Lexer.next
  split
  · exact ⟨w, fun _ t => t⟩
  · next hend =>
    split
    · next buf hb =>
      obtain ⟨g1, g2⟩ := w.buf buf hb
      have hle := w.ps_le
      have hps : (if lx.parseStart = lx.cursor then buf.peekStart else lx.parseStart).byte < buf.peekCursor.byte := by
        split <;> omega
      refine ⟨⟨w.ok, w.hlen, Nat.le_of_lt hps, fun h => absurd h (Nat.ne_of_lt hps), fun _ h => nomatch h⟩, ?_⟩
      intro first t
      exact chk_of w g1 g2 rfl first t
    · next hb =>
      have hbh : (lx.parseStart == lx.cursor) = true → lx.parseStart = lx.cursor ∧ lx.tokenStart = lx.cursor := by
        intro h
        have he : lx.parseStart = lx.cursor := by simpa using h
        exact ⟨he, (w.eqv (by rw [he])).2⟩
      obtain ⟨n1, n2, n3, n4⟩ := nextLoop_keep (E := E) (len := len) (lx.parseStart == lx.cursor) lx w.ok w.hlen hbh
      generalize hr : Lexer.nextLoop E (lx.parseStart == lx.cursor) lx = r at n1 n2 n3 n4
      have hmet : r.2.metrics = lx.metrics := by rw [← hr]; simp
      have hlen' : r.2.len = len := by rw [← hr]; simpa using w.hlen
      obtain ⟨o, lx'⟩ := r
      show W E len lx' ∧ ∀ first, T lx first → Deliv first (o, lx')
      simp only at hmet hlen'
      cases o with
      | none =>
        obtain ⟨j1, j2⟩ := n3 rfl
        cases hbeh : (lx.parseStart == lx.cursor)
        · have hne : lx.parseStart ≠ lx.cursor := by simpa using hbeh
          have hlt := w.lt_of_ne hne
          have hp := j2 hbeh
          simp only at hp n1 n2 hmet
          refine ⟨⟨by rw [hmet]; exact w.ok, hlen', by rw [hp]; omega, by rw [hp]; intro h; omega, ?_⟩, ?_⟩
          · intro b hb'; rw [n1, hb] at hb'; cases hb'
          · intro first t
            cases first with
            | none => exact absurd t hne
            | some p => exact ⟨by rw [hp]; exact t.1, by have := t.2; show p.byte < lx'.cursor.byte; omega⟩
        · obtain ⟨k1, k2⟩ := j1 hbeh
          have he : lx.parseStart = lx.cursor := by simpa using hbeh
          simp only at k1 k2 n1 hmet
          refine ⟨⟨by rw [hmet]; exact w.ok, hlen', by rw [k1]; exact Nat.le_refl _, fun _ => ⟨k1, k2⟩, ?_⟩, ?_⟩
          · intro b hb'; rw [n1, hb] at hb'; cases hb'
          · intro first t
            cases first with
            | none => exact k1
            | some p => exact absurd he t.ne_of_some
      | some tk =>
        obtain ⟨j1, j2, j3⟩ := n4 tk rfl
        simp only at j1 j2 j3 n1 hmet
        have j3' : lx'.parseStart = if lx.parseStart = lx.cursor then lx'.tokenStart else lx.parseStart := by
          rw [j3]; simp
        have hle := w.ps_le
        have hps : lx'.parseStart.byte < lx'.cursor.byte := by
          rw [j3']; split <;> omega
        refine ⟨⟨by rw [hmet]; exact w.ok, hlen', Nat.le_of_lt hps, fun h => absurd h (Nat.ne_of_lt hps), ?_⟩, ?_⟩
        · intro b hb'; rw [n1, hb] at hb'; cases hb'
        · intro first t
          exact chk_of w j1 j2 j3' first t

theorem nextIf_keep (p : τ → Bool) {lx : Lexer σ τ} (w : W E len lx) :
    W E len (lx.nextIf E p).2 ∧ ∀ first, T lx first → Deliv first (lx.nextIf E p) := by
  obtain ⟨p1, p2⟩ := peek_keep w
  unfold Lexer.nextIf
  generalize lx.peek E = r at p1 p2
  obtain ⟨o, lx1⟩ := r
  cases o with
  | none => exact ⟨p1, fun first t => p2 first t⟩
  | some t =>
    show W E len (if p t = true then lx1.next E else (none, lx1)).2 ∧
      ∀ first, T lx first → Deliv first (if p t = true then lx1.next E else (none, lx1))
    split
    · obtain ⟨n1, n2⟩ := next_keep p1
      exact ⟨n1, fun first t => n2 first (p2 first t)⟩
    · exact ⟨p1, fun first t => p2 first t⟩

/-! ### `advance_to` / `advance_up_to`: only `W` survives in the tracker's eyes -/

theorem advanceTo_keep (p : τ → Bool) (lx : Lexer σ τ) (w : W E len lx) :
    W E len (lx.advanceTo E p).2 := by
  fun_induction Lexer.advanceTo E p lx with
  | case1 lx lx' h0 => have := (next_keep w).1; rw [h0] at this; exact this
  | case2 lx t lx' h0 hp => have := (next_keep w).1; rw [h0] at this; exact this
  | case3 lx t lx' h0 hp hg ih => have := (next_keep w).1; rw [h0] at this; exact ih this
  | case4 lx t lx' h0 hp hg => have := (next_keep w).1; rw [h0] at this; exact this

theorem advanceUpTo_keep (p : τ → Bool) (lx : Lexer σ τ) (w : W E len lx) :
    W E len (lx.advanceUpTo E p).2 := by
  fun_induction Lexer.advanceUpTo E p lx with
  | case1 lx lx' h0 => have := (peek_keep w).1; rw [h0] at this; exact this
  | case2 lx t lx' h0 hp => have := (peek_keep w).1; rw [h0] at this; exact this
  | case3 lx t lx' h0 hp o lx'' h1 hg ih =>
    have := (peek_keep w).1; rw [h0] at this
    have := (next_keep this).1; rw [h1] at this
    exact ih this
  | case4 lx t lx' h0 hp o lx'' h1 hg =>
    have := (peek_keep w).1; rw [h0] at this
    have := (next_keep this).1; rw [h1] at this
    exact this

/-! ### the metrics builders (`remeasure_positions`) -/

/-- What the builders need: the scanner contract at every metrics, and re-measuring a byte
offset yields a position at that byte offset. -/
structure MeasOK (E : LexEnv σ τ) (len : Nat) : Prop where
  okAll : ∀ m, ScanOK E m len
  byte : ∀ m b, (E.measure m b).byte = b

theorem remeasure_byte (h : ∀ m b, (E.measure m b).byte = b) (m : Metrics) (p : Pos) :
    (Lexer.remeasure E m p).byte = p.byte := by
  unfold Lexer.remeasure
  split
  · rfl
  · exact h _ _

theorem remeasureAll_keep (hM : MeasOK E len) {lx : Lexer σ τ} (w : W E len lx) :
    W E len (lx.remeasureAll E) ∧ ∀ first, T lx first → T (lx.remeasureAll E) first := by
  have hb := remeasure_byte (E := E) hM.byte lx.metrics
  refine ⟨⟨hM.okAll _, w.hlen, ?_, ?_, ?_⟩, ?_⟩
  · show (Lexer.remeasure E lx.metrics lx.parseStart).byte ≤ (Lexer.remeasure E lx.metrics lx.cursor).byte
    rw [hb, hb]; exact w.ps_le
  · show (Lexer.remeasure E lx.metrics lx.parseStart).byte = (Lexer.remeasure E lx.metrics lx.cursor).byte →
      Lexer.remeasure E lx.metrics lx.parseStart = Lexer.remeasure E lx.metrics lx.cursor ∧
      Lexer.remeasure E lx.metrics lx.tokenStart = Lexer.remeasure E lx.metrics lx.cursor
    rw [hb, hb]
    intro h
    obtain ⟨h1, h2⟩ := w.eqv h
    rw [h1, h2]; exact ⟨rfl, rfl⟩
  · intro b hb'
    simp only [Lexer.remeasureAll] at hb'
    cases hbuf : lx.buffer with
    | none => rw [hbuf] at hb'; cases hb'
    | some b0 =>
      rw [hbuf] at hb'
      cases hb'
      show (Lexer.remeasure E lx.metrics lx.cursor).byte ≤ (Lexer.remeasure E lx.metrics b0.peekStart).byte ∧
        (Lexer.remeasure E lx.metrics b0.peekStart).byte < (Lexer.remeasure E lx.metrics b0.peekCursor).byte
      rw [hb, hb, hb]
      exact w.buf b0 hbuf
  · intro first t
    cases first with
    | none =>
      have he : lx.parseStart = lx.cursor := t
      show Lexer.remeasure E lx.metrics lx.parseStart = Lexer.remeasure E lx.metrics lx.cursor
      rw [he]
    | some p =>
      show (Lexer.remeasure E lx.metrics lx.parseStart).byte = p.byte ∧
        p.byte < (Lexer.remeasure E lx.metrics lx.cursor).byte
      rw [hb, hb]; exact t

theorem setMetrics_keep (hM : MeasOK E len) (m' : Metrics) {lx : Lexer σ τ} (w : W E len lx) :
    W E len (Lexer.remeasureAll E { lx with metrics := m' }) ∧
    ∀ first, T lx first → T (Lexer.remeasureAll E { lx with metrics := m' }) first := by
  have w' : W E len ({ lx with metrics := m' } : Lexer σ τ) :=
    ⟨hM.okAll _, w.hlen, w.ps_le, w.eqv, w.buf⟩
  obtain ⟨h1, h2⟩ := remeasureAll_keep hM w'
  refine ⟨h1, fun first t => h2 first ?_⟩
  cases first <;> exact t

/-! ### one operation outside clones -/

theorem isNoneOut_tok (o : Option τ) : isNoneOut (Out.tok o) = o.isNone := by
  cases o <;> rfl

theorem deliv_step {first : Option Pos} {known : Bool} {r : Option τ × Lexer σ τ}
    (h : known = true → Deliv first r) :
    (if isNoneOut (Out.tok r.1) || !known then (true, first, known) else
      (r.2.parseSpan.s.byte == (first.getD r.2.tokenSpan.s).byte && r.2.parseSpan.e == r.2.tokenSpan.e,
        some (first.getD r.2.tokenSpan.s), known)).1 = true ∧
    ((if isNoneOut (Out.tok r.1) || !known then (true, first, known) else
      (r.2.parseSpan.s.byte == (first.getD r.2.tokenSpan.s).byte && r.2.parseSpan.e == r.2.tokenSpan.e,
        some (first.getD r.2.tokenSpan.s), known)).2.2 = true →
      T r.2 (if isNoneOut (Out.tok r.1) || !known then (true, first, known) else
        (r.2.parseSpan.s.byte == (first.getD r.2.tokenSpan.s).byte && r.2.parseSpan.e == r.2.tokenSpan.e,
          some (first.getD r.2.tokenSpan.s), known)).2.1) := by
  obtain ⟨o, lx'⟩ := r
  cases known with
  | false => simp
  | true =>
    have hd := h rfl
    cases o with
    | none => simpa [isNoneOut, Deliv] using hd
    | some t =>
      obtain ⟨c1, c2, c3⟩ : Chk first lx' := hd
      simp [isNoneOut, c1, c2, c3]

/-- Every non-clone operation keeps `W`, passes the tracker's check, and keeps the tracker's
invariant whenever the tracker is (still, or again) on. -/
theorem op_track {lx : Lexer σ τ} {first : Option Pos} {known : Bool} (op : Op τ)
    (hM : isMetricsOp op = false ∨ MeasOK E len) (hf : isFork op = false)
    (w : W E len lx) (ht : known = true → T lx first) :
    (trackStep first known op (applyOp E lx op)).1 = true ∧
    W E len (applyOp E lx op).2 ∧
    ((trackStep first known op (applyOp E lx op)).2.2 = true →
      T (applyOp E lx op).2 (trackStep first known op (applyOp E lx op)).2.1) := by
  cases op with
  | next =>
    obtain ⟨h1, h2⟩ := next_keep w
    obtain ⟨d1, d2⟩ := deliv_step (r := lx.next E) (fun hk => h2 first (ht hk))
    exact ⟨d1, h1, d2⟩
  | nextIf p =>
    obtain ⟨h1, h2⟩ := nextIf_keep p w
    obtain ⟨d1, d2⟩ := deliv_step (r := lx.nextIf E p) (fun hk => h2 first (ht hk))
    exact ⟨d1, h1, d2⟩
  | peek => exact ⟨rfl, (peek_keep w).1, fun hk => (peek_keep w).2 first (ht hk)⟩
  | emptyQ => exact ⟨rfl, (emptyQ_keep w).1, fun hk => (emptyQ_keep w).2 first (ht hk)⟩
  | advanceTo p => exact ⟨rfl, advanceTo_keep p lx w, fun hk => nomatch hk⟩
  | advanceUpTo p => exact ⟨rfl, advanceUpTo_keep p lx w, fun hk => nomatch hk⟩
  | setFilter f => exact ⟨rfl, (setFilter_keep f w).1, fun hk => (setFilter_keep f w).2 first (ht hk)⟩
  | withFilter f => exact ⟨rfl, (withFilter_keep f w).1, fun hk => (withFilter_keep f w).2 first (ht hk)⟩
  | startSublex => exact ⟨rfl, (startSublex_keep w).1, fun _ => (startSublex_keep w).2⟩
  | intoSublexer => exact ⟨rfl, (startSublex_keep w).1, fun _ => (startSublex_keep w).2⟩
  | spans => exact ⟨rfl, w, ht⟩
  | forkBegin => cases hf
  | forkEnd => cases hf
  | withLineEnding le =>
    rcases hM with h | hM
    · cases h
    · exact ⟨rfl, (setMetrics_keep hM _ w).1, fun hk => (setMetrics_keep hM _ w).2 first (ht hk)⟩
  | withTabWidth tab =>
    rcases hM with h | hM
    · cases h
    · exact ⟨rfl, (setMetrics_keep hM _ w).1, fun hk => (setMetrics_keep hM _ w).2 first (ht hk)⟩
  | withMetrics le tab =>
    rcases hM with h | hM
    · cases h
    · exact ⟨rfl, (setMetrics_keep hM _ w).1, fun hk => (setMetrics_keep hM _ w).2 first (ht hk)⟩

/-! ### histories -/

theorem metrics_cons (op : Op τ) (ops : List (Op τ))
    (h : metricsFree (op :: ops) = true ∨ MeasOK E len) :
    (isMetricsOp op = false ∨ MeasOK E len) ∧ (metricsFree ops = true ∨ MeasOK E len) := by
  rcases h with h | h
  · obtain ⟨h1, h2⟩ := metricsFree_cons op ops h
    exact ⟨Or.inl h1, Or.inl h2⟩
  · exact ⟨Or.inr h, Or.inr h⟩

/-- The tracker accepts every history, with the clone stack `stk` above the lexer under
observation. -/
theorem track_main :
    ∀ (ops : List (Op τ)) (stk : List (Lexer σ τ)) (a : Lexer σ τ) (first : Option Pos) (known : Bool),
      (metricsFree ops = true ∨ MeasOK E len) → W E len a → (known = true → T a first) →
      parseSpanTrack stk.length first known ops (exec E (stk ++ [a]) ops) = true := by
  intro ops
  induction ops with
  | nil => intro stk a first known _ _ _; simp [parseSpanTrack]
  | cons op ops ih =>
    intro stk a first known hM w ht
    obtain ⟨hM1, hM2⟩ := metrics_cons op ops hM
    cases hf : isFork op with
    | true =>
      cases op with
      | forkBegin =>
        cases stk with
        | nil => exact ih [a] a first known hM2 w ht
        | cons c cs => exact ih (c :: c :: cs) a first known hM2 w ht
      | forkEnd =>
        cases stk with
        | nil => exact ih [] a first known hM2 w ht
        | cons c cs =>
          cases cs with
          | nil => exact ih [] a first known hM2 w ht
          | cons c' cs' => exact ih (c' :: cs') a first known hM2 w ht
      | _ => cases hf
    | false =>
      cases stk with
      | cons c cs =>
        have := ih ((applyOp E c op).2 :: cs) a first known hM2 w ht
        show parseSpanTrack (cs.length + 1) first known (op :: ops) (exec E (c :: (cs ++ [a])) (op :: ops)) = true
        rw [exec_plain _ _ _ _ hf, parseSpanTrack_plain _ _ _ _ _ _ _ hf]
        simpa using this
      | nil =>
        obtain ⟨s1, s2, s3⟩ := op_track op hM1 hf w ht
        have := ih [] (applyOp E a op).2 _ _ hM2 s2 s3
        show parseSpanTrack 0 first known (op :: ops) (exec E [a] (op :: ops)) = true
        rw [exec_plain _ _ _ _ hf, parseSpanTrack_plain _ _ _ _ _ _ _ hf]
        simp only [Nat.lt_irrefl, gt_iff_lt, if_false, Bool.and_eq_true]
        exact ⟨s1, this⟩

theorem w_new (m : Metrics) (ok : ScanOK E m len) (s0 : σ) : W E len (Lexer.new s0 m len) :=
  ⟨ok, rfl, Nat.le_refl _, fun _ => ⟨rfl, rfl⟩, fun _ h => nomatch h⟩

/-- C04, parse-span clause on histories (no metrics builder in the history). -/
theorem parse_span_history {m : Metrics} (ok : ScanOK E m len) (s0 : σ) (ops : List (Op τ))
    (hm : metricsFree ops = true) :
    parseSpanTrack 0 none true ops (exec E [Lexer.new s0 m len] ops) = true :=
  track_main ops [] _ none true (Or.inl hm) (w_new m ok s0) (fun _ => rfl)

/-- The same with metrics builders anywhere in the history. -/
theorem parse_span_history_metrics (hM : MeasOK E len) (m : Metrics) (s0 : σ) (ops : List (Op τ)) :
    parseSpanTrack 0 none true ops (exec E [Lexer.new s0 m len] ops) = true :=
  track_main ops [] _ none true (Or.inr hM) (w_new m (hM.okAll m) s0) (fun _ => rfl)

/-! ### the driver's `measure` satisfies `MeasOK.byte` -/

/-- `measureText` (the `measure` of `lexEnv`) of a well-formed text returns a position at the
byte offset it was asked for — for every offset, boundary or not. -/
theorem measureText_byte (t : Text) (hwf : Text.WF t) (m : Metrics) (b : Nat) :
    (measureText t m b).byte = b := by
  unfold measureText
  cases hs : splitAtByte t b with
  | none => rfl
  | some x =>
    obtain ⟨pre, suf⟩ := x
    obtain ⟨h1, h2⟩ := MeasureCanon.splitAtByte_some t b pre suf hs
    subst h1
    simp only []
    rw [MeasureCanon.endPosition_zero m pre (WF_append.mp hwf).1]
    simp [h2]

/-! ### witness (evaluated): `a ws b ws c` -/

namespace Witness

/-- Text `a ws b ws c`: token 1 at [0,1), `ws` (token 0) at [1,2), token 2 at [2,3), `ws` at
[3,4), token 3 at [4,5).  A stateless table scanner. -/
def scanP (s : Unit) (_m : Metrics) (p : Pos) : Option (Nat × Pos) × Unit :=
  if p.byte = 0 then (some (1, ⟨1, 0, 1⟩), s)
  else if p.byte = 1 then (some (0, ⟨2, 0, 2⟩), s)
  else if p.byte = 2 then (some (2, ⟨3, 0, 3⟩), s)
  else if p.byte = 3 then (some (0, ⟨4, 0, 4⟩), s)
  else if p.byte = 4 then (some (3, ⟨5, 0, 5⟩), s)
  else (none, s)

/-- every filter id rejects exactly the `ws` tokens. -/
def EP : LexEnv Unit Nat := ⟨scanP, fun _ t => t != 0, fun _ b => ⟨b, 0, b⟩⟩

theorem scanP_ok (m : Metrics) : ScanOK EP m 5 := by
  constructor
  · intro s p tok adv s' h
    simp only [EP, scanP] at h
    repeat' split at h
    all_goals (cases h <;> (simp only []; omega))
  · intro s p h
    simp only [EP, scanP]
    rw [if_neg (by omega), if_neg (by omega), if_neg (by omega), if_neg (by omega), if_neg (by omega)]

theorem measP_ok : MeasOK EP 5 := ⟨scanP_ok, fun _ _ => rfl⟩

/-- `with_filter; next; peek; start_sublex; next; next` -/
def opsP : List (Op Nat) := [.withFilter (some 0), .next, .peek, .startSublex, .next, .next]

/-- (output, token span, parse span) after each operation: after the mark the parse span is
`[b.start, b.end]`, then `[b.start, c.end]`. -/
theorem P_obs : (exec EP [Lexer.new () ⟨.lf, 4⟩ 5] opsP).map (fun o => (o.1, o.2.tokenSpan, o.2.parseSpan)) =
    [(.unit, ⟨⟨0, 0, 0⟩, ⟨0, 0, 0⟩⟩, ⟨⟨0, 0, 0⟩, ⟨0, 0, 0⟩⟩),
     (.tok (some 1), ⟨⟨0, 0, 0⟩, ⟨1, 0, 1⟩⟩, ⟨⟨0, 0, 0⟩, ⟨1, 0, 1⟩⟩),
     (.tok (some 2), ⟨⟨0, 0, 0⟩, ⟨1, 0, 1⟩⟩, ⟨⟨0, 0, 0⟩, ⟨1, 0, 1⟩⟩),
     (.unit, ⟨⟨1, 0, 1⟩, ⟨1, 0, 1⟩⟩, ⟨⟨1, 0, 1⟩, ⟨1, 0, 1⟩⟩),
     (.tok (some 2), ⟨⟨2, 0, 2⟩, ⟨3, 0, 3⟩⟩, ⟨⟨2, 0, 2⟩, ⟨3, 0, 3⟩⟩),
     (.tok (some 3), ⟨⟨4, 0, 4⟩, ⟨5, 0, 5⟩⟩, ⟨⟨2, 0, 2⟩, ⟨5, 0, 5⟩⟩)] := by
  simp [opsP, exec, applyOp, Lexer.withFilter, Lexer.setFilter, Lexer.peek, Lexer.bufferNext,
    Lexer.bufferLoop, Lexer.next, Lexer.nextLoop, Lexer.startSublex, Lexer.new, EP, scanP,
    Lexer.filtered, Pos.zero, Lexer.tokenSpan, Lexer.parseSpan, Span.enclosing]

/-- a history with a metrics builder between two delivered tokens -/
def opsPM : List (Op Nat) := [.withFilter (some 0), .next, .withTabWidth 8, .next, .next]

end Witness

end LexParseSpan
end Tephra
