/-
  TephraProofs.BoundaryExtent — C13, "boundary errors quote the actual extents".

  `up_to(item, abort)` (the wrapper `list` puts around every item) raises a boundary
  error when the item succeeds but the next kept token is not an abort token.  The
  error quotes `es` = the lexer's parse span at that moment.  Here: that span ENDS at
  the end (`stop`) of the last token the item consumed.

  Route.
  1. `peg_rel`: a closure principle for the reference evaluator — any relation on
     states that is reflexive, transitive and contains `pop` relates the start and the
     end state of every successful `Spec.peg` run of a grammar that does not change
     the filter.  Instance `After`: the end state's raw tokens are the start state's
     raw tokens after a *kept* token (or nothing was consumed) — "the consumed prefix
     always ends with a kept token".
  2. `cap_sim` (PegCaptureSim) gives the lexer after the item: related (`AbsC`) to the
     reference end state, with the transition `Tr`; `passed_cursor` places its cursor
     at the end of the consumed raw prefix; by 1. that is the stop of the last kept
     consumed token.
  3. `peek` on a lexer whose parse span has begun changes only the buffer
     (`peek_ahead`), and shows the first kept token (`peek_cases`).
-/
import TephraProofs.RunMatchers
import TephraProofs.PegCaptureSim
import TephraProofs.ListLocal

set_option linter.unusedVariables false
set_option linter.unusedSimpArgs false

namespace Tephra
open Tephra.Spec

namespace BoundaryExtent
open LexIter PegRefine
open ListLocal (bindOk_ok countOfP_ok)

/-! ### 1. a closure principle for the reference evaluator -/

/-- relations every state-changing step of the reference evaluator stays inside -/
structure PegRel (Rel : PState → PState → Prop) : Prop where
  refl : ∀ s, Rel s s
  trans : ∀ {a b c}, Rel a b → Rel b c → Rel a c
  pop : ∀ {s r s'}, s.pop = some (r, s') → Rel s s'

variable {Rel : PState → PState → Prop}

theorem pegSeq_rel (hR : PegRel Rel) : ∀ (ks : List Nat) (s : PState) (acc : List Tok) v s',
    pegSeq ks s acc = .ok v s' → Rel s s' := by
  intro ks
  induction ks with
  | nil => intro s acc v s' h; simp only [pegSeq] at h; cases h; exact hR.refl s
  | cons k ks ih =>
    intro s acc v s' h
    simp only [pegSeq] at h
    split at h
    · next r s1 hp =>
      split at h
      · exact hR.trans (hR.pop hp) (ih _ _ _ _ h)
      · cases h
    · cases h

theorem pegSeqCount_rel (hR : PegRel Rel) : ∀ (ks : List Nat) (s : PState) (c : Nat) v s',
    pegSeqCount ks s c = .ok v s' → Rel s s' := by
  intro ks
  induction ks with
  | nil => intro s c v s' h; simp only [pegSeqCount] at h; cases h; exact hR.refl s
  | cons k ks ih =>
    intro s c v s' h
    simp only [pegSeqCount] at h
    split at h
    · next r s1 hp =>
      split at h
      · exact hR.trans (hR.pop hp) (ih _ _ _ _ h)
      · cases h; exact hR.refl s
    · split at h
      · cases h
      · cases h; exact hR.refl s

/-- the statement for one fuel -/
structure RelAt (Rel : PState → PState → Prop) (text : Text) (n : Nat) : Prop where
  peg : ∀ g s v s', changesFilter g = false → peg text n g s = .ok v s' → Rel s s'
  rep : ∀ lo hi stop a sep s v s', changesFilter a = false → changesFilter sep = false →
    pegRep text n lo hi stop a sep s = .ok v s' → Rel s s'
  loop : ∀ lo hi stop a sep vals s v s', changesFilter a = false → changesFilter sep = false →
    pegRepLoop text n lo hi stop a sep vals s = .ok v s' → Rel s s'

theorem relAt_zero (text : Text) : RelAt Rel text 0 := by
  constructor <;> intros <;> simp_all [peg, pegRep, pegRepLoop]

theorem prim_rel (hR : PegRel Rel) {s : PState} {c : Tok → Bool} {val : Tok → Val} {v s'}
    (h : (match s.pop with
        | some (r, s1) => if c r.tok then PRes.ok (val r.tok) s1 else .fail
        | none => .fail) = .ok v s') : Rel s s' := by
  split at h
  · next r s1 hp =>
    split at h
    · cases h; exact hR.pop hp
    · cases h
  · cases h

/-- `match peg a s with | .ok l s1 => k l s1 | .fail => .ok .none s | r => r` -/
theorem impl_rel (hR : PegRel Rel) {r : PRes} {k : Val → PState → PRes} {s : PState} {v s'}
    (h : (match r with
        | .ok l s1 => k l s1
        | .fail => PRes.ok .none s
        | r' => r') = PRes.ok v s')
    (h1 : ∀ l s1, r = .ok l s1 → Rel s s1)
    (h2 : ∀ l s1 v s', r = .ok l s1 → k l s1 = .ok v s' → Rel s1 s') : Rel s s' := by
  cases r with
  | ok l s1 => exact hR.trans (h1 l s1 rfl) (h2 l s1 v s' rfl h)
  | fail => cases h; exact hR.refl s
  | fuel => cases h
  | unsupported => cases h

theorem peg_rel_step (hR : PegRel Rel) {text : Text} {n : Nat} (ih : RelAt Rel text n) :
    ∀ g s v s', changesFilter g = false → peg text (n + 1) g s = .ok v s' → Rel s s' := by
  obtain ⟨ihp, ihr, ihl⟩ := ih
  intro g s v s' hg h
  cases g <;> simp only [changesFilter, Bool.or_eq_false_iff, Bool.true_eq_false] at hg <;>
    simp only [peg] at h
  case empty => cases h; exact hR.refl s
  case one k => exact prim_rel hR (c := fun r => r.kind == k) (val := fun r => .tok r) h
  case any ks => exact prim_rel hR (c := fun r => ks.contains r.kind) (val := fun r => .tok ⟨r.kind, 0⟩) h
  case pred p => exact prim_rel hR (c := fun r => p.eval r) (val := fun r => .tok r) h
  case anyIndex ks =>
    split at h
    · next r s1 hp =>
      split at h
      · cases h; exact hR.pop hp
      · cases h
    · cases h
  case seq ks => exact pegSeq_rel hR ks s [] v s' h
  case seqCount ks => exact pegSeqCount_rel hR ks s 0 v s' h
  case endOfText =>
    split at h
    · cases h; exact hR.refl s
    · cases h
  case left a b =>
    obtain ⟨v1, s1, e1, h⟩ := bindOk_ok h
    obtain ⟨v2, s2, e2, h⟩ := bindOk_ok h
    cases h
    exact hR.trans (ihp a s _ _ hg.1 e1) (ihp b _ _ _ hg.2 e2)
  case right a b =>
    obtain ⟨v1, s1, e1, h⟩ := bindOk_ok h
    obtain ⟨v2, s2, e2, h⟩ := bindOk_ok h
    cases h
    exact hR.trans (ihp a s _ _ hg.1 e1) (ihp b _ _ _ hg.2 e2)
  case both a b =>
    obtain ⟨v1, s1, e1, h⟩ := bindOk_ok h
    obtain ⟨v2, s2, e2, h⟩ := bindOk_ok h
    cases h
    exact hR.trans (ihp a s _ _ hg.1 e1) (ihp b _ _ _ hg.2 e2)
  case center a b c =>
    obtain ⟨v1, s1, e1, h⟩ := bindOk_ok h
    obtain ⟨v2, s2, e2, h⟩ := bindOk_ok h
    obtain ⟨v3, s3, e3, h⟩ := bindOk_ok h
    cases h
    exact hR.trans (hR.trans (ihp a s _ _ hg.1.1 e1) (ihp b _ _ _ hg.1.2 e2)) (ihp c _ _ _ hg.2 e3)
  case map a =>
    obtain ⟨v1, s1, e1, h⟩ := bindOk_ok h
    cases h
    exact ihp a s _ _ hg e1
  case someOf a =>
    obtain ⟨v1, s1, e1, h⟩ := bindOk_ok h
    cases h
    exact ihp a s _ _ hg e1
  case discard a =>
    obtain ⟨v1, s1, e1, h⟩ := bindOk_ok h
    cases h
    exact ihp a s _ _ hg e1
  case either a b =>
    cases hr : peg text n a s with
    | ok v1 s1 => rw [hr] at h; cases h; exact ihp a s v s' hg.1 hr
    | fail => rw [hr] at h; exact ihp b s v s' hg.2 h
    | fuel => rw [hr] at h; cases h
    | unsupported => rw [hr] at h; cases h
  case maybe a =>
    cases hr : peg text n a s with
    | ok v1 s1 => rw [hr] at h; cases h; exact ihp a s _ _ hg hr
    | fail => rw [hr] at h; cases h; exact hR.refl s
    | fuel => rw [hr] at h; cases h
    | unsupported => rw [hr] at h; cases h
  case requireIf flag a =>
    cases flag
    · simp only [Bool.false_eq_true, if_false] at h
      exact ihp (.maybe a) s v s' (by simpa [changesFilter] using hg) h
    · simp only [if_true] at h
      obtain ⟨v1, s1, e1, h⟩ := bindOk_ok h
      cases h
      exact ihp a s _ _ hg e1
  case cond flag a =>
    cases flag
    · simp only [Bool.false_eq_true, if_false] at h
      cases h
      exact hR.refl s
    · simp only [if_true] at h
      obtain ⟨v1, s1, e1, h⟩ := bindOk_ok h
      cases h
      exact ihp a s _ _ hg e1
  case implies a b =>
    refine impl_rel hR h (fun l s1 e => ihp a s l s1 hg.1 e) ?_
    intro l s1 v s' _ hk
    obtain ⟨v2, s2, e2, hk⟩ := bindOk_ok hk
    cases hk
    exact ihp b _ _ _ hg.2 e2
  case antecedent a b =>
    refine impl_rel hR h (fun l s1 e => ihp a s l s1 hg.1 e) ?_
    intro l s1 v s' _ hk
    obtain ⟨v2, s2, e2, hk⟩ := bindOk_ok hk
    cases hk
    exact ihp b _ _ _ hg.2 e2
  case consequent a b =>
    refine impl_rel hR h (fun l s1 e => ihp a s l s1 hg.1 e) ?_
    intro l s1 v s' _ hk
    obtain ⟨v2, s2, e2, hk⟩ := bindOk_ok hk
    cases hk
    exact ihp b _ _ _ hg.2 e2
  case condImplies a k b =>
    refine impl_rel hR h (fun l s1 e => ihp a s l s1 hg.1 e) ?_
    intro l s1 v s' _ hk
    split at hk
    · split at hk
      · obtain ⟨v2, s2, e2, hk⟩ := bindOk_ok hk
        cases hk
        exact ihp b _ _ _ hg.2 e2
      · cases hk; exact hR.refl _
    · simp only [Bool.false_eq_true, if_false] at hk
      cases hk; exact hR.refl _
  case spanned a =>
    obtain ⟨v1, s1, e1, h⟩ := bindOk_ok h
    split at h <;> cases h <;> exact ihp a s _ _ hg e1
  case text a =>
    obtain ⟨v1, s1, e1, h⟩ := bindOk_ok h
    split at h
    · split at h
      · cases h; exact ihp a s _ _ hg e1
      · cases h
    · cases h; exact ihp a s _ _ hg e1
  case repeat_ c lo hi a =>
    obtain ⟨v1, h⟩ := countOfP_ok h
    exact ihr lo hi none a .empty s v1 s' hg rfl h
  case intersperse c lo hi a sep =>
    obtain ⟨v1, h⟩ := countOfP_ok h
    exact ihr lo hi none a sep s v1 s' hg.1 hg.2 h
  case intersperseDefault lo hi a sepk =>
    exact ihr lo hi none a (.one sepk) s v s' hg rfl h
  case repeatUntil c lo hi st a =>
    obtain ⟨v1, h⟩ := countOfP_ok h
    exact ihr lo hi (some st) a .empty s v1 s' hg.2 rfl h
  case intersperseUntil c lo hi st a sep =>
    obtain ⟨v1, h⟩ := countOfP_ok h
    exact ihr lo hi (some st) a sep s v1 s' hg.1.2 hg.2 h
  all_goals first | (cases h) | (cases hg)

theorem pegRepLoop_rel_step (hR : PegRel Rel) {text : Text} {n : Nat} (ih : RelAt Rel text n) :
    ∀ lo hi stop a sep vals s v s', changesFilter a = false → changesFilter sep = false →
      pegRepLoop text (n + 1) lo hi stop a sep vals s = .ok v s' → Rel s s' := by
  obtain ⟨ihp, ihr, ihl⟩ := ih
  intro lo hi stop a sep vals s v s' ha hsep h
  have tail : ∀ nx : PRes, (nx = (if vals.isEmpty = true then peg text n a s
        else bindOk (peg text n sep s) fun _ s1 => peg text n a s1)) →
      (match nx with
        | .ok v1 s1 => pegRepLoop text n lo hi stop a sep (v1 :: vals) s1
        | .fail => if vals.length < lo then PRes.fail else PRes.ok (.list vals.reverse) s
        | r' => r') = PRes.ok v s' → Rel s s' := by
    intro nx hnx h
    cases nx with
    | ok v1 s1 =>
      refine hR.trans ?_ (ihl lo hi stop a sep _ s1 v s' ha hsep h)
      have hnext := hnx.symm
      split at hnext
      · exact ihp a s v1 s1 ha hnext
      · obtain ⟨v2, s2, e2, hnext⟩ := bindOk_ok hnext
        exact hR.trans (ihp sep s v2 s2 hsep e2) (ihp a s2 v1 s1 ha hnext)
    | fail =>
      simp only at h
      split at h
      · cases h
      · cases h; exact hR.refl s
    | fuel => cases h
    | unsupported => cases h
  simp only [pegRepLoop] at h
  split at h
  · cases h; exact hR.refl s
  · cases stop with
    | none =>
      simp only [Bool.false_eq_true, if_false] at h
      exact tail _ rfl h
    | some st =>
      cases hst : peg text n st s <;> simp only [hst, Bool.false_eq_true, if_false, if_true] at h
      · cases h; exact hR.refl s
      all_goals exact tail _ rfl h

theorem relAt (hR : PegRel Rel) (text : Text) : ∀ n, RelAt Rel text n := by
  intro n
  induction n with
  | zero => exact relAt_zero text
  | succ n ih =>
    refine ⟨peg_rel_step hR ih, ?_, pegRepLoop_rel_step hR ih⟩
    intro lo hi stop a sep s v s' ha hsep h
    simp only [pegRep] at h
    split at h
    · cases h; exact hR.refl s
    · exact ih.loop lo hi stop a sep [] s v s' ha hsep h

/-- **Closure principle**: a successful run of the reference evaluator on a grammar that
does not change the filter stays inside every reflexive, transitive relation containing `pop`. -/
theorem peg_rel (hR : PegRel Rel) (text : Text) (n : Nat) (g : G) (s : PState) (v : Val) (s' : PState)
    (hg : changesFilter g = false) (h : peg text n g s = .ok v s') : Rel s s' :=
  (relAt hR text n).peg g s v s' hg h

/-! ### 2. the consumed prefix ends with a kept token -/

/-- `s'` is `s` itself or what is left of `s` right after one of its *kept* raw tokens;
the filter is the same. -/
def After (s s' : PState) : Prop :=
  s'.filter = s.filter ∧
  (s'.rest = s.rest ∨ ∃ pre q, s.rest = pre ++ q :: s'.rest ∧ keeps s.filter q.tok = true)

theorem after_pegRel : PegRel After := by
  refine ⟨fun s => ⟨rfl, Or.inl rfl⟩, ?_, ?_⟩
  · intro a b c hab hbc
    obtain ⟨f1, h1⟩ := hab
    obtain ⟨f2, h2⟩ := hbc
    refine ⟨f2.trans f1, ?_⟩
    rcases h1 with e1 | ⟨pre, q, e1, k1⟩
    · rcases h2 with e2 | ⟨pre', q', e2, k2⟩
      · exact Or.inl (e2.trans e1)
      · exact Or.inr ⟨pre', q', by rw [← e1]; exact e2, by rw [← f1]; exact k2⟩
    · rcases h2 with e2 | ⟨pre', q', e2, k2⟩
      · exact Or.inr ⟨pre, q, by rw [e2]; exact e1, k1⟩
      · refine Or.inr ⟨pre ++ q :: pre', q', ?_, by rw [← f1]; exact k2⟩
        rw [e1, e2]; simp
  · intro s r s' h
    obtain ⟨post, h1, rfl⟩ := pop_some_iff.mp h
    simp only [PState.skipFiltered] at h1
    obtain ⟨pre, hl, _, hk⟩ := dropWhile_split _ h1
    exact ⟨rfl, Or.inr ⟨pre, r, hl, by simpa using hk⟩⟩

theorem withCap_noFilterChange : ∀ g, pegWithCap g = true → changesFilter g = false := by
  intro g
  induction g <;> simp_all [pegWithCap, changesFilter]

/-- On the C14 fragment, what the reference evaluator leaves starts right after a kept token. -/
theorem peg_after {text : Text} {k : Nat} {g : G} {s s1 : PState} {v : Val}
    (hg : pegWithCap g = true) (h : peg text k g s = .ok v s1) : After s s1 :=
  peg_rel after_pegRel text k g s v s1 (withCap_noFilterChange g hg) h

/-- If the view shrank by a prefix ending with `q`, then `q` is the last *raw* token consumed. -/
theorem last_consumed {s s1 : PState} (h : After s s1) {vpre : List (RawTok Tok)} {q : RawTok Tok}
    (hview : s.view = vpre ++ q :: s1.view) : ∃ pre, s.rest = pre ++ q :: s1.rest := by
  obtain ⟨hf, h | ⟨pre, q', e, hk⟩⟩ := h
  · exfalso
    have : s1.view = s.view := by unfold PState.view; rw [h, hf]
    have hl := congrArg List.length hview
    rw [this] at hl
    simp at hl
    omega
  · refine ⟨pre, ?_⟩
    have hv : s.view = pre.filter (fun r => keeps s.filter r.tok) ++ q' :: s1.view := by
      unfold PState.view
      rw [e, List.filter_append, List.filter_cons, if_pos hk, hf]
    rw [hview] at hv
    have h2 : (vpre ++ [q]) ++ s1.view = (pre.filter (fun r => keeps s.filter r.tok) ++ [q']) ++ s1.view := by
      simpa using hv
    have h3 := List.append_cancel_right h2
    have h4 := List.append_inj_right' h3 rfl
    cases h4
    exact e

/-! ### 3. where the lexer sits after the item -/

section Lex
variable {E : LexEnv Nat Tok} {m : Metrics} {len : Nat} {P : Pos → Prop}

theorem endPos_snoc {τ} (l : List (RawTok τ)) (q : RawTok τ) (p : Pos) : endPos p (l ++ [q]) = q.stop := by
  rw [endPos_append]; rfl

/-- The lexer the item returns: its parse span has begun and its cursor is the stop of the last
consumed raw token. -/
theorem item_end (ok : ScanOK E m len) (hp : PassOK E) {lx lx1 : Lx} {s s1 : PState}
    (a0 : AbsC E m len P lx s) (a1 : AbsC E m len P lx1 s1) (t : Tr E m len lx s lx1 s1)
    {pre : List (RawTok Tok)} {q : RawTok Tok} (hrest : s.rest = pre ++ q :: s1.rest) :
    lx1.parseStart ≠ lx1.cursor ∧ lx1.cursor = q.stop := by
  rcases t.step with ⟨e, _⟩ | ⟨hah, r0, post, hs, hsuf⟩
  · exfalso
    have hl := congrArg List.length hrest
    rw [e] at hl
    simp at hl
    omega
  · refine ⟨hah, ?_⟩
    obtain ⟨mid, hmid⟩ := hsuf
    obtain ⟨hcur, _⟩ := passed_cursor ok hp a0 a1 hs hmid.symm hah t.endp
    have hs' := hs
    simp only [PState.skipFiltered] at hs'
    obtain ⟨pre0, hl, _, _⟩ := dropWhile_split _ hs'
    rw [hrest, ← hmid] at hl
    have h2 : (pre ++ [q]) ++ s1.rest = (pre0 ++ r0 :: mid) ++ s1.rest := by simpa using hl
    have h3 := List.append_cancel_right h2
    have h4 : endPos Pos.zero (pre ++ [q]) = endPos Pos.zero (pre0 ++ r0 :: mid) := by rw [h3]
    rw [endPos_snoc, endPos_append] at h4
    rw [hcur, h4]
    rfl

/-- `peek` on a lexer whose parse span has begun changes at most the lookahead buffer. -/
theorem peek_ahead (ok : ScanOK E m len) {f} {lx : Lx} (inv : Inv E m len f lx)
    (h : lx.parseStart ≠ lx.cursor) :
    (lx.peek E).2.parseSpan = lx.parseSpan ∧ (lx.peek E).2.cursor = lx.cursor ∧
      (lx.peek E).2.parseStart = lx.parseStart := by
  unfold Lexer.peek
  split
  · exact ⟨rfl, rfl, rfl⟩
  · obtain ⟨ob, e⟩ := bufferNext_ahead ok inv h
    simp only
    rw [e]
    exact ⟨rfl, rfl, rfl⟩

end Lex

/-! ### 4. the boundary error of `up_to` -/

variable {R : RunEnv} {m : Metrics} {len : Nat} {P : Pos → Prop}

/-- The shape of the failure: the item succeeded leaving a lexer whose parse span has begun, the
next kept token is not an abort token; `up_to` fails with a boundary error quoting that lexer's
parse span. -/
theorem upTo_after_item (ok : ScanOK R.E m len) (hp : PassOK R.E) {n : Nat} {a : G} {abort : List Nat}
    {lx lx1 : Lx} {ctx : Ctx} {W W1 : World} {v : Val} {s1 : PState} {r : RawTok Tok} {vpost : List (RawTok Tok)}
    (hr : run R n a lx ctx W = (.ok v lx1, W1)) (ha : AbsC R.E m len P lx1 s1)
    (hah : lx1.parseStart ≠ lx1.cursor) (hnext : s1.view = r :: vpost)
    (hab : abort.contains r.tok.kind = false) :
    ∃ endp, run R (n + 1) (.upTo a abort) lx ctx W = (.err (mkErr (.boundary lx1.parseSpan endp)), W1) := by
  simp only [run]
  rw [hr]
  simp only
  obtain ⟨s2, hpop, _, _⟩ := ListLocal.pop_view_cons hnext
  rcases peek_cases ok hp ha.abs with ⟨lxp, hpk, _, hpop'⟩ | ⟨lxp, r', s'', lxn, hpk, abp, hpop', _, _⟩
  · rw [hpop] at hpop'; cases hpop'
  · rw [hpop] at hpop'
    cases hpop'
    obtain ⟨hps, _, _⟩ := peek_ahead ok ha.abs.inv hah
    rw [hpk] at hps
    rw [hpk]
    simp only
    rw [if_neg (by rw [hab]; simp), hps]
    exact ⟨_, rfl⟩

theorem parseSpan_le {f} {lx : Lx} (inv : Inv R.E m len f lx) : lx.parseSpan.s.byte ≤ lx.parseSpan.e.byte := by
  unfold Lexer.parseSpan
  rw [enclosing_le inv.ps_le]
  exact inv.ps_le

/-- **Boundary extent.**  The item `a` (C14 fragment) is accepted by the reference evaluator on a
prefix of the kept tokens that ends with `q` (`s.view = vpre ++ q :: s1.view`), and the next kept
token `r` exists and is not an abort token.  Then `up_to(a, abort)`, unless it runs out of fuel,
fails with a boundary error whose parsed extent `es` ends exactly at `q.stop`. -/
theorem upTo_boundary_extent (hc : Closed R.E P m) (ok : ScanOK R.E m len) (hp : PassOK R.E)
    (hP : ∀ p, P p → (splitAtByte R.text p.byte).isSome = true)
    {n k : Nat} (hk : 2 * n ≤ k) {a : G} {abort : List Nat} {lx : Lx} {s s1 : PState} {ctx : Ctx} {W : World}
    {v : Val} (hg : pegWithCap a = true) (a0 : AbsC R.E m len P lx s)
    (hpeg : peg R.text k a s = .ok v s1)
    {vpre vpost : List (RawTok Tok)} {q r : RawTok Tok}
    (hview : s.view = vpre ++ q :: s1.view) (hnext : s1.view = r :: vpost)
    (hab : abort.contains r.tok.kind = false)
    (hnf : (run R (n + 1) (.upTo a abort) lx ctx W).1 ≠ .fuel) :
    ∃ es endp, (run R (n + 1) (.upTo a abort) lx ctx W).1 = .err (mkErr (.boundary es endp)) ∧
      es.e = q.stop ∧ es.s.byte ≤ es.e.byte := by
  have sim := cap_sim hc ok hp hP n n (Nat.le_refl n) k hk a lx s ctx W hg a0
  rcases sim.cases with ⟨v1, lx1, W1, v1', s1', hr, hp1, hv, ha, t1⟩ | ⟨e, W1, hr, hp1⟩ | ⟨W1, hr⟩
  · rw [hpeg] at hp1
    cases hp1
    obtain ⟨pre, hrest⟩ := last_consumed (peg_after hg hpeg) hview
    obtain ⟨hah, hcur⟩ := item_end ok hp a0 ha t1 hrest
    obtain ⟨endp, he⟩ := upTo_after_item ok hp hr ha hah hnext hab
    refine ⟨_, endp, by rw [he], ?_, parseSpan_le ha.abs.inv⟩
    rw [parseSpan_e ha.abs.inv, hcur]
  · rw [hpeg] at hp1; cases hp1
  · exfalso
    apply hnf
    simp only [run]
    rw [hr]

/-- The same end, named through C14: the parsed extent of the boundary error ends where the span
`spanned(a)` would capture ends (`Spec.capturedSpan` of the raw tokens the item consumed). -/
theorem upTo_boundary_captured (hc : Closed R.E P m) (ok : ScanOK R.E m len) (hp : PassOK R.E)
    (hP : ∀ p, P p → (splitAtByte R.text p.byte).isSome = true)
    {n k : Nat} (hk : 2 * n ≤ k) {a : G} {abort : List Nat} {lx : Lx} {s s1 : PState} {ctx : Ctx} {W : World}
    {v : Val} (hg : pegWithCap a = true) (a0 : AbsC R.E m len P lx s)
    (hpeg : peg R.text k a s = .ok v s1)
    {sp : Span} (hcap : capturedSpan s.filter (s.rest.take (s.rest.length - s1.rest.length)) = some sp)
    {vpost : List (RawTok Tok)} {r : RawTok Tok} (hnext : s1.view = r :: vpost)
    (hab : abort.contains r.tok.kind = false)
    (hnf : (run R (n + 1) (.upTo a abort) lx ctx W).1 ≠ .fuel) :
    ∃ es endp, (run R (n + 1) (.upTo a abort) lx ctx W).1 = .err (mkErr (.boundary es endp)) ∧
      es.e = sp.e := by
  have sim := cap_sim hc ok hp hP n n (Nat.le_refl n) k hk a lx s ctx W hg a0
  rcases sim.cases with ⟨v1, lx1, W1, v1', s1', hr, hp1, hv, ha, t1⟩ | ⟨e, W1, hr, hp1⟩ | ⟨W1, hr⟩
  · rw [hpeg] at hp1
    cases hp1
    rcases t1.step with ⟨hrest, _⟩ | ⟨hah, r0, post, hs, hsuf⟩
    · rw [captured_of_none hrest] at hcap; cases hcap
    · obtain ⟨mid, hmid, hcap'⟩ := captured_of_passed hs hsuf
      rw [hcap'] at hcap
      cases hcap
      obtain ⟨hcur, _⟩ := passed_cursor ok hp a0 ha hs hmid hah t1.endp
      obtain ⟨endp, he⟩ := upTo_after_item ok hp hr ha hah hnext hab
      refine ⟨_, endp, by rw [he], ?_⟩
      rw [parseSpan_e ha.abs.inv, hcur]
  · rw [hpeg] at hp1; cases hp1
  · exfalso
    apply hnf
    simp only [run]
    rw [hr]

end BoundaryExtent
end Tephra
