/-
  TephraProofs.RecoverFrame — two frame theorems for the recovery state kept in
  the world, over the whole interpreter:

  * `run_specs_stable`: a closure, once registered, stays registered with the
    same predicate (`World.register` never overwrites, nothing else writes `specs`);
  * `run_supported_world`: a grammar of the PEG family (`Spec.supported`: no
    `recover`, `list`, `stabilize`, `bracket`, `probe`) does not touch the world.
-/
import TephraModel.Run
import TephraModel.Spec.Peg
import TephraProofs.RunMatchers

set_option linter.unusedVariables false

namespace Tephra
namespace RecoverFrame

/-- the recovery closure registered under `id` -/
def specOf (W : World) (id : Nat) : Option Rec := (W.specs.find? (·.1 == id)).map (·.2)

/-- every registered closure is still registered, with the same predicate -/
def SR (W W' : World) : Prop := ∀ i r, specOf W i = some r → specOf W' i = some r

theorem SR.refl (W : World) : SR W W := fun _ _ h => h
theorem SR.trans {a b c : World} (h1 : SR a b) (h2 : SR b c) : SR a c := fun i r h => h2 i r (h1 i r h)
theorem SR.of_eq {a b : World} (h : b.specs = a.specs) : SR a b := by
  intro i r hi; unfold specOf at *; rw [h]; exact hi

theorem specOf_register_self {W : World} {id : Nat} {r : Rec} (h : specOf W id = none) :
    specOf (W.register id r) id = some r := by
  unfold specOf at h
  have hnone : W.specs.find? (·.1 == id) = none := by simpa using h
  have hany : W.specs.any (·.1 == id) = false := by
    rw [List.find?_eq_none] at hnone
    simpa [List.any_eq_false] using hnone
  simp [World.register, hany, specOf]

theorem register_SR (W : World) (id : Nat) (r : Rec) : SR W (W.register id r) := by
  unfold World.register
  split
  · exact SR.refl _
  · next hany =>
    intro i r' hi
    unfold specOf at *
    have hne : (id == i) = false := by
      cases hid : (id == i)
      · rfl
      · exfalso
        have : id = i := by simpa using hid
        subst this
        apply hany
        cases hf : W.specs.find? (·.1 == id) with
        | none => rw [hf] at hi; cases hi
        | some x =>
          rw [List.any_eq_true]
          exact ⟨x, List.mem_of_find?_eq_some hf, by simpa using List.find?_some hf⟩
    simp only [List.find?_cons, hne]
    exact hi

theorem sendError_SR {c : Ctx} {e : PErr} {W W' : World} {o : Option PErr} (h : sendError c e W = (o, W')) :
    SR W W' := by
  unfold sendError at h
  split at h <;> cases h <;> exact SR.of_eq rfl

@[simp] theorem askRecover_specs (W : World) (id : Nat) (t : Tok) : (askRecover W id t).2.specs = W.specs := by
  unfold askRecover
  split <;> try rfl
  all_goals (split <;> try rfl)
  all_goals (split <;> rfl)

theorem recoverLoop_specs (R : RunEnv) (id : Nat) (n : Nat) (lx : Lx) (W : World) :
    (recoverLoop R id n lx W).2.specs = W.specs := by
  induction n generalizing lx W with
  | zero => simp [recoverLoop]
  | succ n ih =>
    simp only [recoverLoop]
    split
    · simp
    · split
      · simp
      · have := ih (Lexer.next R.E ‹Lx›).2 (askRecover W id ‹Tok›).2
        simpa using this

theorem advanceToRecover_SR' {R : RunEnv} {lx : Lx} {W W' : World} {o : Option Lx}
    (h : advanceToRecover R lx W = (o, W')) : SR W W' := by
  unfold advanceToRecover at h
  split at h
  · cases h; exact SR.refl _
  · have := recoverLoop_specs R ‹Nat› (lx.len + 2) lx W
    rw [h] at this
    exact SR.of_eq this

theorem countOf_snd (v : Nat) (r : RRes × World) : (countOf v r).2 = r.2 := by
  unfold countOf
  split
  · rfl
  · split <;> rfl

/-! ### specs are stable over the interpreter -/

structure SAt (R : RunEnv) (n : Nat) : Prop where
  run : ∀ g lx ctx W, SR W (run R n g lx ctx W).2
  sepItem : ∀ a sep lx ctx W, SR W (sepItem R n a sep lx ctx W).2
  interLoopStart : ∀ lo hi a sep lx ctx W, SR W (interLoopStart R n lo hi a sep lx ctx W).2
  interLoop : ∀ lo hi a sep vals lx ctx W, SR W (interLoop R n lo hi a sep vals lx ctx W).2
  untilStart : ∀ lo hi stop a sep lx ctx W, SR W (untilStart R n lo hi stop a sep lx ctx W).2
  untilLoop : ∀ lo hi stop a sep vals lx ctx W, SR W (untilLoop R n lo hi stop a sep vals lx ctx W).2
  recoverDefault : ∀ dv id r body lx ctx W, SR W (recoverDefault R n dv id r body lx ctx W).2
  stabLoop : ∀ a lx ctx res W, SR W (stabLoop R n a lx ctx res W).2
  listLoop : ∀ v id lo hi a sep abort lx ctx W vals, SR W (listLoop R n v id lo hi a sep abort lx ctx W vals).2
  stabValue : ∀ dv id pat body lx ctx res W, SR W (stabValue R n dv id pat body lx ctx res W).2

theorem run_step (R : RunEnv) (n : Nat) (ih : SAt R n) (g : G) (lx : Lx) (ctx : Ctx) (W : World) :
    SR W (run R (n + 1) g lx ctx W).2 := by
  obtain ⟨ihr, ihsep, ihis, ihil, ihus, ihul, ihrd, ihsl, ihll, ihsv⟩ := ih
  cases g <;> simp only [run]
  all_goals try (grind [SR.refl, SR.trans, sendError_SR, countOf_snd])
  case probe tag =>
    intro i r hi
    have h := @sendError_SR ctx (mkErr (.probe tag)) W (sendError ctx (mkErr (.probe tag)) W).2
      (sendError ctx (mkErr (.probe tag)) W).1 rfl
    exact h i r hi

theorem sAt_zero (R : RunEnv) : SAt R 0 := by
  constructor <;> intros <;>
    simp [run, sepItem, interLoopStart, interLoop, untilStart, untilLoop, recoverDefault, stabLoop, listLoop, stabValue,
      SR.refl]

theorem sAt_succ (R : RunEnv) (n : Nat) (ih : SAt R n) : SAt R (n + 1) := by
  have hrun := run_step R n ih
  obtain ⟨ihr, ihsep, ihis, ihil, ihus, ihul, ihrd, ihsl, ihll, ihsv⟩ := ih
  refine ⟨hrun, ?_, ?_, ?_, ?_, ?_, ?_, ?_, ?_, ?_⟩
  · intro a sep lx ctx W; simp only [sepItem]; grind [SR.refl, SR.trans]
  · intro lo hi a sep lx ctx W; simp only [interLoopStart]; grind [SR.refl, SR.trans]
  · intro lo hi a sep vals lx ctx W; simp only [interLoop]; grind [SR.refl, SR.trans]
  · intro lo hi stop a sep lx ctx W; simp only [untilStart]; grind [SR.refl, SR.trans]
  · intro lo hi stop a sep vals lx ctx W; simp only [untilLoop]; grind [SR.refl, SR.trans]
  · intro dv id r body lx ctx W; simp only [recoverDefault]
    have hR := register_SR W id r
    have h0 := ihr body lx ctx (W.register id r)
    split
    · next e W1 h1 =>
      rw [h1] at h0
      have h01 := hR.trans h0
      split
      · next e' W2 h2 => exact h01.trans (sendError_SR h2)
      · next W2 h2 =>
        have h02 := h01.trans (sendError_SR h2)
        split
        · next lx' W3 h3 => exact h02.trans (advanceToRecover_SR' h3)
        · next W3 h3 => exact h02.trans (advanceToRecover_SR' h3)
    · exact hR.trans h0
  · intro a lx ctx res W
    have hA := @advanceToRecover_SR' R
    cases res <;> simp only [stabLoop]
    all_goals grind [SR.refl, SR.trans, advanceToRecover_SR']
  · intro v id lo hi a sep abort lx ctx W vals
    simp only [listLoop]
    split
    · grind [SR.refl, SR.trans, sendError_SR]
    · next tok lexer hp =>
      split
      · split
        · grind [SR.refl, SR.trans, sendError_SR]
        · have h1 := ihr (.stabilize (.maybe (.upTo (if v < 2 then G.someOf a else a) (sep :: abort)))) lexer ctx W
          split
          · grind [SR.refl, SR.trans, sendError_SR]
          · grind [SR.refl, SR.trans, sendError_SR]
          · grind [SR.refl, SR.trans, sendError_SR]
      · have h1 := ihrd (if v < 2 then Val.none else Val.dflt) id (Rec.sepOrAbort sep abort)
          ((if v < 2 then a.someOf else a).upTo (sep :: abort)) lexer ctx W
        have h2 := ihsv (if v < 2 then Val.none else Val.dflt) id (Rec.sepOrAbort sep abort)
          ((if v < 2 then a.someOf else a).upTo (sep :: abort)) lexer ctx
          (recoverDefault R n (if v < 2 then Val.none else Val.dflt) id
            (Rec.sepOrAbort sep abort) ((if v < 2 then a.someOf else a).upTo (sep :: abort)) lexer ctx W).fst
          (recoverDefault R n (if v < 2 then Val.none else Val.dflt) id
            (Rec.sepOrAbort sep abort) ((if v < 2 then a.someOf else a).upTo (sep :: abort)) lexer ctx W).snd
        have h12 := h1.trans h2
        split
        · next x lexer1 W1 hs =>
          rw [hs] at h12
          replace h12 : SR W W1 := h12
          clear h1 h2
          split
          · grind [SR.refl, SR.trans, sendError_SR]
          · split
            · grind [SR.refl, SR.trans, sendError_SR]
            · next t2 lexer2 hp2 =>
              split
              · grind [SR.refl, SR.trans, sendError_SR]
              · split
                · grind [SR.refl, SR.trans, sendError_SR]
                · have h3 := ihrd Val.dflt id (Rec.sepOrAbort sep abort) (G.one sep).discard lexer2 ctx W1
                  split
                  · next v1 lexer3 W2 hr =>
                    rw [hr] at h3
                    exact (h12.trans h3).trans (ihll _ _ _ _ _ _ _ _ _ _ _)
                  · exact h12.trans h3
        · exact h12
  · intro dv id pat body lx ctx res W
    cases res <;> simp only [stabValue]
    · exact SR.refl _
    · split
      · next lx1 W1 h1 =>
        have h01 : SR W W1 := advanceToRecover_SR' h1
        split
        · exact h01
        · have h2 : SR W1 _ := ihrd dv id pat body lx1 ctx.withoutSink W1
          exact (h01.trans h2).trans (ihsv _ _ _ _ _ _ _ _)
      · next W1 h1 => exact advanceToRecover_SR' h1
    · exact SR.refl _
    · exact SR.refl _

theorem sAt (R : RunEnv) : ∀ n, SAt R n
  | 0 => sAt_zero R
  | n + 1 => sAt_succ R n (sAt R n)

/-- A registered recovery closure stays registered, with the same predicate,
whatever runs. -/
theorem run_specs_stable (R : RunEnv) (n : Nat) (g : G) (lx : Lx) (ctx : Ctx) (W : World) (i : Nat) (r : Rec)
    (h : specOf W i = some r) : specOf (run R n g lx ctx W).2 i = some r :=
  (sAt R n).run g lx ctx W i r h

/-! ### the PEG family does not touch the world -/

open Tephra.Spec (supported)

structure PAt (R : RunEnv) (n : Nat) : Prop where
  run : ∀ g lx ctx W, supported g = true → (run R n g lx ctx W).2 = W
  sepItem : ∀ a sep lx ctx W, supported a = true → supported sep = true → (sepItem R n a sep lx ctx W).2 = W
  interLoopStart : ∀ lo hi a sep lx ctx W, supported a = true → supported sep = true →
    (interLoopStart R n lo hi a sep lx ctx W).2 = W
  interLoop : ∀ lo hi a sep vals lx ctx W, supported a = true → supported sep = true →
    (interLoop R n lo hi a sep vals lx ctx W).2 = W
  untilStart : ∀ lo hi stop a sep lx ctx W, supported stop = true → supported a = true → supported sep = true →
    (untilStart R n lo hi stop a sep lx ctx W).2 = W
  untilLoop : ∀ lo hi stop a sep vals lx ctx W, supported stop = true → supported a = true → supported sep = true →
    (untilLoop R n lo hi stop a sep vals lx ctx W).2 = W

theorem supported_empty : supported .empty = true := rfl
theorem supported_discard_one (k : Nat) : supported (.discard (.one k)) = true := rfl

theorem p_run_step (R : RunEnv) (n : Nat) (ih : PAt R n) (g : G) (lx : Lx) (ctx : Ctx) (W : World)
    (hg : supported g = true) : (run R (n + 1) g lx ctx W).2 = W := by
  obtain ⟨ihr, ihsep, ihis, ihil, ihus, ihul⟩ := ih
  cases g <;> simp only [supported, Bool.and_eq_true] at hg <;> simp only [run]
  all_goals try (grind [countOf_snd, supported_empty, supported_discard_one, supported])

theorem pAt_zero (R : RunEnv) : PAt R 0 := by
  constructor <;> intros <;>
    simp [run, sepItem, interLoopStart, interLoop, untilStart, untilLoop]

theorem pAt_succ (R : RunEnv) (n : Nat) (ih : PAt R n) : PAt R (n + 1) := by
  have hrun := p_run_step R n ih
  obtain ⟨ihr, ihsep, ihis, ihil, ihus, ihul⟩ := ih
  refine ⟨hrun, ?_, ?_, ?_, ?_, ?_⟩
  · intro a sep lx ctx W ha hs; simp only [sepItem]; grind
  · intro lo hi a sep lx ctx W ha hs; simp only [interLoopStart]; grind
  · intro lo hi a sep vals lx ctx W ha hs; simp only [interLoop]; grind
  · intro lo hi stop a sep lx ctx W hst ha hs; simp only [untilStart]; grind
  · intro lo hi stop a sep vals lx ctx W hst ha hs; simp only [untilLoop]; grind

theorem pAt (R : RunEnv) : ∀ n, PAt R n
  | 0 => pAt_zero R
  | n + 1 => pAt_succ R n (pAt R n)

/-- A grammar of the PEG family (no `recover`, `list`, `stabilize`, `bracket`,
`probe`) leaves the world — registered closures, flags, sink log — as it found it. -/
theorem run_supported_world (R : RunEnv) (n : Nat) (g : G) (lx : Lx) (ctx : Ctx) (W : World)
    (h : supported g = true) : (run R n g lx ctx W).2 = W :=
  (pAt R n).run g lx ctx W h

end RecoverFrame
end Tephra
