/-
  TephraProofs.NoPanicInv — C01, interpreter part: the invariants carried through
  `run` for the full no-panic theorem, assembled from the existing fuel inductions.

  * `SL lx`  : the lexer is well formed (`Term.WF`) and every position it stores is a
               character boundary of the text (`RunSpans.LI (Bd R)`);
  * `SW W`   : the registered recover closures agree with the table `T` (`Term.WOK`) and
               every logged error carries character boundaries only (`RunSpans.LogOK`);
  * `Res lx r`: the result `r` of a call started at `lx` satisfies both again (and its lexer
               is not behind `lx`).
  `keep_all`: every function of the mutual block maps `SL`/`SW` to `Res` (from
  `Term.cur_all`, `RunSpans.spAt`, `Term.wok_all`).
  `text_slice`: slicing the text between two stored positions succeeds — the panic
  site of `text`.
-/
import TephraProofs.RunMatchers
import TephraProofs.TermWorld
import TephraProofs.RunSpans
import TephraProofs.NoPanicBr

set_option linter.unusedVariables false

namespace Tephra.NoPanic
open Tephra Tephra.Term Tephra.RunSpans

/-- `p` is a character boundary of the text (`&text[..p.byte]` does not panic). -/
def Bd (R : RunEnv) (p : Pos) : Prop := (splitAtByte R.text p.byte).isSome = true

/-- the trivial span predicate -/
def QT : Span → Prop := fun _ => True

theorem qencl_QT (P : Pos → Prop) : QEncl P QT := fun _ _ _ _ => trivial

mutual
theorem valQ_QT : ∀ v : Val, ValQ QT v
  | .pair a b => by simp only [ValQ]; exact ⟨valQ_QT a, valQ_QT b⟩
  | .some a => by simp only [ValQ]; exact valQ_QT a
  | .list l => by simp only [ValQ]; exact valsQ_QT l
  | .spanned s a => by simp only [ValQ]; exact ⟨trivial, valQ_QT a⟩
  | .mapped a => by simp only [ValQ]; exact valQ_QT a
  | .dflt => by simp [ValQ]
  | .unit => by simp [ValQ]
  | .tok _ => by simp [ValQ]
  | .idx _ => by simp [ValQ]
  | .count _ => by simp [ValQ]
  | .toks _ => by simp [ValQ]
  | .none => by simp [ValQ]
  | .text _ => by simp [ValQ]
theorem valsQ_QT : ∀ l : List Val, ValsQ QT l
  | [] => by simp [ValsQ]
  | v :: l => by simp only [ValsQ]; exact ⟨valQ_QT v, valsQ_QT l⟩
end

/-! ### slicing between character boundaries -/

theorem splitAtByte_zero (t : Text) : splitAtByte t 0 = some ([], t) := by
  cases t <;> rfl

theorem splitAtByte_mid : ∀ (t : Text) (a b : Nat) (p1 s1 p2 s2 : Text), a ≤ b →
    splitAtByte t a = some (p1, s1) → splitAtByte t b = some (p2, s2) →
    ∃ mid, splitAtByte s1 (b - a) = some (mid, s2) := by
  intro t
  induction t with
  | nil =>
    intro a b p1 s1 p2 s2 hab h1 h2
    cases a with
    | zero =>
      rw [splitAtByte_zero] at h1
      cases h1
      exact ⟨p2, h2⟩
    | succ a => simp [splitAtByte] at h1
  | cons c rest ih =>
    intro a b p1 s1 p2 s2 hab h1 h2
    cases a with
    | zero =>
      rw [splitAtByte_zero] at h1
      cases h1
      exact ⟨p2, h2⟩
    | succ a =>
      obtain ⟨b, rfl⟩ : ∃ b', b = b' + 1 := ⟨b - 1, by omega⟩
      simp only [splitAtByte] at h1 h2
      split at h1
      · next hc =>
        have hc2 : c.size ≤ b + 1 := by omega
        rw [if_pos hc2] at h2
        split at h1
        · next pre suf e1 =>
          cases h1
          split at h2
          · next pre2 suf2 e2 =>
            cases h2
            obtain ⟨mid, hm⟩ := ih (a + 1 - c.size) (b + 1 - c.size) pre s1 pre2 s2 (by omega) e1 e2
            refine ⟨mid, ?_⟩
            have : b + 1 - (a + 1) = b + 1 - c.size - (a + 1 - c.size) := by omega
            rw [this]; exact hm
          · cases h2
        · cases h1
      · cases h1

/-- `text[a..b]` does not panic when `a ≤ b` are character boundaries. -/
theorem sliceBytes_ok {t : Text} {a b : Nat} (ha : (splitAtByte t a).isSome = true)
    (hb : (splitAtByte t b).isSome = true) (hab : a ≤ b) : ∃ mid, Source.sliceBytes t a b = .ok mid := by
  unfold Source.sliceBytes
  rw [if_neg (by omega)]
  cases hs : splitAtByte t a with
  | none => rw [hs] at ha; cases ha
  | some x =>
    obtain ⟨p1, s1⟩ := x
    cases hs2 : splitAtByte t b with
    | none => rw [hs2] at hb; cases hb
    | some y =>
      obtain ⟨p2, s2⟩ := y
      obtain ⟨mid, hm⟩ := splitAtByte_mid t a b p1 s1 p2 s2 hab hs hs2
      simp only [hm]
      exact ⟨mid, rfl⟩

/-! ### the invariants -/

variable {R : RunEnv} {m : Metrics} {len : Nat} {T : Nat → Rec}

/-- the static hypotheses: scanner contract, and the scanner returns character boundaries -/
structure Env3 (R : RunEnv) (m : Metrics) (len : Nat) : Prop where
  ok : ScanOK R.E m len
  cl : Closed R.E (Bd R) m

structure SL (R : RunEnv) (m : Metrics) (len : Nat) (lx : Lx) : Prop where
  wf : WF m len lx
  li : LI (Bd R) m lx

structure SW (R : RunEnv) (T : Nat → Rec) (W : World) : Prop where
  wok : WOK T W
  log : LogOK (Bd R) QT W

def Res (R : RunEnv) (m : Metrics) (len : Nat) (T : Nat → Rec) (lx : Lx) (r : RRes × World) : Prop :=
  Good (Bd R) QT m r ∧ WOK T r.2 ∧ OkC m len lx r

theorem Res_ok {lx : Lx} {v : Val} {l : Lx} {W : World} :
    Res R m len T lx (.ok v l, W) ↔ SL R m len l ∧ SW R T W ∧ lx.cursor.byte ≤ l.cursor.byte := by
  simp only [Res, Good_mk, ResOK_ok, OkC_ok]
  constructor
  · rintro ⟨⟨⟨h1, _⟩, h2⟩, h3, h4, h5⟩
    exact ⟨⟨h4, h1⟩, ⟨h3, h2⟩, h5⟩
  · rintro ⟨⟨h4, h1⟩, ⟨h3, h2⟩, h5⟩
    exact ⟨⟨⟨h1, valQ_QT v⟩, h2⟩, h3, h4, h5⟩

theorem Res_err {lx : Lx} {e : PErr} {W : World} :
    Res R m len T lx (.err e, W) ↔ ErrQ QT (Bd R) e.body ∧ SW R T W := by
  simp only [Res, Good_mk, ResOK_err, OkC_err, and_true]
  constructor
  · rintro ⟨⟨h1, h2⟩, h3⟩
    exact ⟨h1, ⟨h3, h2⟩⟩
  · rintro ⟨h1, ⟨h3, h2⟩⟩
    exact ⟨⟨h1, h2⟩, h3⟩

theorem Res_panic {lx : Lx} {W : World} : Res R m len T lx (.panic, W) ↔ SW R T W := by
  simp only [Res, Good_mk, ResOK_panic, OkC_panic, and_true, true_and]
  exact ⟨fun ⟨h2, h3⟩ => ⟨h3, h2⟩, fun ⟨h3, h2⟩ => ⟨h2, h3⟩⟩

theorem Res_fuel {lx : Lx} {W : World} : Res R m len T lx (.fuel, W) ↔ SW R T W := by
  simp only [Res, Good_mk, ResOK_fuel, OkC_fuel, and_true, true_and]
  exact ⟨fun ⟨h2, h3⟩ => ⟨h3, h2⟩, fun ⟨h3, h2⟩ => ⟨h2, h3⟩⟩

theorem Res.sw {lx : Lx} {r : RRes × World} (h : Res R m len T lx r) : SW R T r.2 := ⟨h.2.1, h.1.2⟩

theorem Res.sl {lx : Lx} {r : RRes × World} (h : Res R m len T lx r) {v l} (he : r.1 = .ok v l) : SL R m len l := by
  obtain ⟨h1, _, h3⟩ := h
  have := h1.1
  rw [he] at this
  exact ⟨(h3 v l he).1, this.1⟩

/-- `Res` for every fuelled function at fuel `n`. -/
structure KeepAt (R : RunEnv) (m : Metrics) (len : Nat) (T : Nat → Rec) (n : Nat) : Prop where
  run : ∀ g lx ctx W, SL R m len lx → SW R T W → Consistent T g → Res R m len T lx (run R n g lx ctx W)
  listLoop : ∀ v id lo hi a sep abort lexer ctx W vals, SL R m len lexer → SW R T W →
    T id = .sepOrAbort sep abort → Consistent T a →
    Res R m len T lexer (listLoop R n v id lo hi a sep abort lexer ctx W vals)
  stabValue : ∀ dv id pat body lx ctx res W, SL R m len lx → T id = pat → Consistent T body →
    Res R m len T lx (res, W) → Res R m len T lx (stabValue R n dv id pat body lx ctx res W)
  recoverDefault : ∀ dv id r body lx ctx W, SL R m len lx → SW R T W → T id = r → Consistent T body →
    Res R m len T lx (recoverDefault R n dv id r body lx ctx W)
  stabLoop : ∀ a lx ctx res W, SL R m len lx → Consistent T a → Res R m len T lx (res, W) →
    Res R m len T lx (stabLoop R n a lx ctx res W)
  untilStart : ∀ lo hi stop a sep lx ctx W, SL R m len lx → SW R T W → Consistent T stop → Consistent T a →
    Consistent T sep → Res R m len T lx (untilStart R n lo hi stop a sep lx ctx W)
  untilLoop : ∀ lo hi stop a sep vals lx ctx W, SL R m len lx → SW R T W → Consistent T stop → Consistent T a →
    Consistent T sep → Res R m len T lx (untilLoop R n lo hi stop a sep vals lx ctx W)
  sepItem : ∀ a sep lx ctx W, SL R m len lx → SW R T W → Consistent T a → Consistent T sep →
    Res R m len T lx (sepItem R n a sep lx ctx W)
  interLoopStart : ∀ lo hi a sep lx ctx W, SL R m len lx → SW R T W → Consistent T a → Consistent T sep →
    Res R m len T lx (interLoopStart R n lo hi a sep lx ctx W)
  interLoop : ∀ lo hi a sep vals lx ctx W, SL R m len lx → SW R T W → Consistent T a → Consistent T sep →
    Res R m len T lx (interLoop R n lo hi a sep vals lx ctx W)

theorem keep_all (E : Env3 R m len) (n : Nat) : KeepAt R m len T n := by
  have C := cur_all E.ok n
  have S := spAt (R := R) (P := Bd R) (Q := QT) (m := m) E.cl (qencl_QT _) n
  have K := wok_all (R := R) (T := T) n
  constructor
  · intro g lx ctx W sl sw hc
    exact ⟨S.run g lx ctx W sl.li sw.log, K.run g lx ctx W hc sw.wok, C.run g lx ctx W sl.wf⟩
  · intro v id lo hi a sep abort lexer ctx W vals sl sw hT hc
    exact ⟨S.listLoop v id lo hi a sep abort lexer ctx W vals sl.li sw.log (valsQ_QT _),
      K.listLoop v id lo hi a sep abort lexer ctx W vals hT hc sw.wok,
      C.listLoop v id lo hi a sep abort lexer ctx W vals sl.wf⟩
  · intro dv id pat body lx ctx res W sl hT hc hr
    exact ⟨S.stabValue dv id pat body lx ctx res W sl.li hr.1.2 (valQ_QT _) hr.1.1,
      K.stabValue dv id pat body lx ctx res W hT hc hr.2.1,
      C.stabValue dv id pat body lx ctx res W sl.wf hr.2.2⟩
  · intro dv id r body lx ctx W sl sw hT hc
    exact ⟨S.recoverDefault dv id r body lx ctx W sl.li sw.log (valQ_QT _),
      K.recoverDefault dv id r body lx ctx W hT hc sw.wok,
      C.recoverDefault dv id r body lx ctx W sl.wf⟩
  · intro a lx ctx res W sl hc hr
    exact ⟨S.stabLoop a lx ctx res W sl.li hr.1.2 hr.1.1,
      K.stabLoop a lx ctx res W hc hr.2.1,
      C.stabLoop a lx ctx res W sl.wf hr.2.2⟩
  · intro lo hi stop a sep lx ctx W sl sw hct hca hcs
    exact ⟨S.untilStart lo hi stop a sep lx ctx W sl.li sw.log,
      K.untilStart lo hi stop a sep lx ctx W hct hca hcs sw.wok,
      C.untilStart lo hi stop a sep lx ctx W sl.wf⟩
  · intro lo hi stop a sep vals lx ctx W sl sw hct hca hcs
    exact ⟨S.untilLoop lo hi stop a sep vals lx ctx W sl.li sw.log (valsQ_QT _),
      K.untilLoop lo hi stop a sep vals lx ctx W hct hca hcs sw.wok,
      C.untilLoop lo hi stop a sep vals lx ctx W sl.wf⟩
  · intro a sep lx ctx W sl sw hca hcs
    exact ⟨S.sepItem a sep lx ctx W sl.li sw.log,
      K.sepItem a sep lx ctx W hca hcs sw.wok,
      C.sepItem a sep lx ctx W sl.wf⟩
  · intro lo hi a sep lx ctx W sl sw hca hcs
    exact ⟨S.interLoopStart lo hi a sep lx ctx W sl.li sw.log,
      K.interLoopStart lo hi a sep lx ctx W hca hcs sw.wok,
      C.interLoopStart lo hi a sep lx ctx W sl.wf⟩
  · intro lo hi a sep vals lx ctx W sl sw hca hcs
    exact ⟨S.interLoop lo hi a sep vals lx ctx W sl.li sw.log (valsQ_QT _),
      K.interLoop lo hi a sep vals lx ctx W hca hcs sw.wok,
      C.interLoop lo hi a sep vals lx ctx W sl.wf⟩

/-! ### the lexer methods keep `SL`, the world operations keep `SW` -/

structure LexFacts3 (R : RunEnv) (m : Metrics) (len : Nat) : Prop where
  next : ∀ lx : Lx, SL R m len lx → SL R m len (lx.next R.E).2
  peek : ∀ lx : Lx, SL R m len lx → SL R m len (lx.peek R.E).2
  setFilter : ∀ f (lx : Lx), SL R m len lx → SL R m len (lx.setFilter R.E f).2
  sub : ∀ lx : Lx, SL R m len lx → SL R m len (lx.intoSublexer R.E)
  setRec : ∀ r (lx : Lx), SL R m len lx → SL R m len (lx.setRecoverState r)
  advTo : ∀ p (lx : Lx), SL R m len lx → SL R m len (lx.advanceTo R.E p).2

theorem lexFacts3 (E : Env3 R m len) : LexFacts3 R m len where
  next := fun _ sl => ⟨(next_wf E.ok sl.wf).1, LI_next E.cl sl.li⟩
  peek := fun _ sl => ⟨(peek_wf E.ok sl.wf).1, LI_peek E.cl sl.li⟩
  setFilter := fun f _ sl => ⟨(setFilter_wf E.ok f sl.wf).1, LI_setFilter E.cl f sl.li⟩
  sub := fun _ sl => ⟨(intoSublexer_wf E.ok sl.wf).1, LI_intoSublexer E.cl sl.li⟩
  setRec := fun r _ sl => ⟨setRecoverState_wf r sl.wf, LI_setRecoverState r sl.li⟩
  advTo := fun p lx sl => ⟨(advanceTo_wf E.ok p lx sl.wf).1, LI_advanceTo E.cl p sl.li⟩

theorem SL_peek' (E : Env3 R m len) {lx lx' : Lx} {o : Option Tok} (sl : SL R m len lx)
    (h : lx.peek R.E = (o, lx')) : SL R m len lx' := by
  have := (lexFacts3 E).peek lx sl
  rwa [h] at this

theorem SW_register {W : World} {id : Nat} {r : Rec} (sw : SW R T W) (hT : T id = r) :
    SW R T (W.register id r) :=
  ⟨WOK_register sw.wok hT, register_LogOK id r sw.log⟩

theorem adv3 (E : Env3 R m len) {lx : Lx} {W : World} {lx1 : Lx} {W1 : World} (sl : SL R m len lx)
    (sw : SW R T W) (h : advanceToRecover R lx W = (some lx1, W1)) :
    SL R m len lx1 ∧ SW R T W1 ∧ lx.cursor.byte ≤ lx1.cursor.byte := by
  have h1 := advanceToRecover_wf E.ok sl.wf h
  have h2 := advanceToRecover_spec (Q := QT) E.cl h sl.li sw.log
  have h3 := WOK_advance (R := R) (lx := lx) sw.wok
  rw [h] at h3
  exact ⟨⟨h1.1, h2.1 _ rfl⟩, ⟨h3, h2.2⟩, h1.2.le⟩

/-- the panic site of `text`: both ends are stored positions of `SL` lexers -/
theorem text_slice {lx1 lx2 : Lx} (s1 : SL R m len lx1) (s2 : SL R m len lx2) :
    ∃ mid, Source.sliceBytes R.text (lx1.peekTokenSpan.getD (Span.at_ lx1.tokenSpan.e)).s.byte
      (Nat.max lx2.parseSpan.e.byte (lx1.peekTokenSpan.getD (Span.at_ lx1.tokenSpan.e)).s.byte) = .ok mid := by
  have hs : Bd R (lx1.peekTokenSpan.getD (Span.at_ lx1.tokenSpan.e)).s := spanStart_P s1.li
  have he : Bd R lx2.parseSpan.e := (LexInv.parseSpan_pos s2.li.1).2
  apply sliceBytes_ok hs
  · show (splitAtByte R.text (max _ _)).isSome = true
    rcases Nat.le_total lx2.parseSpan.e.byte (lx1.peekTokenSpan.getD (Span.at_ lx1.tokenSpan.e)).s.byte with h | h
    · rw [Nat.max_eq_right h]; exact hs
    · rw [Nat.max_eq_left h]; exact he
  · show _ ≤ max _ _
    exact Nat.le_max_right _ _

end Tephra.NoPanic
