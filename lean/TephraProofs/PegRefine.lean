/-
  TephraProofs.PegRefine — C06 / C07: the interpreter `run` refines the reference
  PEG evaluator `Spec.peg` on the filter-preserving fragment.

  `Sim r p`: the result `r` of `run` and the result `p` of `peg` agree —
  success with the same value and related states (`Abs`), or failure on both
  sides; `run` out of fuel is related to anything; `run` never panics.
  One step lemma per combinator, generic in the two fuels (`run` at `n + 1`,
  `peg` at `k + 1`, sub-parsers at `n`, `k`), then inductions on `run`'s fuel.
-/
import TephraProofs.RunMatchers
import TephraProofs.PegAbs
import TephraProofs.LexOpsProof

namespace Tephra
open Tephra.Spec

namespace PegRefine
open LexIter

variable {R : RunEnv} {m : Metrics} {len : Nat}

def Sim (R : RunEnv) (m : Metrics) (len : Nat) (r : RRes) (p : PRes) : Prop :=
  match r with
  | .ok v lx' => ∃ s', p = .ok v s' ∧ Abs R.E m len lx' s'
  | .err _ => p = .fail
  | .fuel => True
  | .panic => False

theorem Sim.cases {x : RRes × World} {p : PRes} (h : Sim R m len x.1 p) :
    (∃ v lx' W' s', x = (.ok v lx', W') ∧ p = .ok v s' ∧ Abs R.E m len lx' s') ∨
    (∃ e W', x = (.err e, W') ∧ p = .fail) ∨ (∃ W', x = (.fuel, W')) := by
  obtain ⟨r, W'⟩ := x
  cases r with
  | ok v lx' =>
    obtain ⟨s', hp, ha⟩ := h
    exact Or.inl ⟨v, lx', W', s', rfl, hp, ha⟩
  | err e => exact Or.inr (Or.inl ⟨e, W', rfl, h⟩)
  | fuel => exact Or.inr (Or.inr ⟨W', rfl⟩)
  | panic => exact h.elim

theorem sim_fuel {W : World} {p : PRes} : Sim R m len ((RRes.fuel, W) : RRes × World).1 p := trivial

/-! ### primitives -/

theorem step_empty {n k lx ctx W s} (a : Abs R.E m len lx s) :
    Sim R m len (run R (n + 1) .empty lx ctx W).1 (peg R.text (k + 1) .empty s) := by
  simp only [run, peg]
  exact ⟨s, rfl, a⟩

theorem find_beq {ks : List Nat} {x k : Nat} (h : ks.find? (· == x) = some k) : k = x := by
  have := List.find?_some h
  simpa using this

theorem contains_find (ks : List Nat) (x : Nat) : ks.contains x = (ks.find? (· == x)).isSome := by
  induction ks with
  | nil => rfl
  | cons a t ih =>
    rw [List.contains_cons, List.find?_cons, BEq.comm (a := x)]
    cases h : a == x
    · simpa using ih
    · rfl

theorem term_cases (t : Term) : t = .eot ∨ t = .rejected := by cases t <;> simp

section Prim
variable (ok : ScanOK R.E m len) (hp : PassOK R.E)
include ok hp

theorem step_one {n k kd lx ctx W s} (a : Abs R.E m len lx s) :
    Sim R m len (run R (n + 1) (.one kd) lx ctx W).1 (peg R.text (k + 1) (.one kd) s) := by
  simp only [run, peg]
  rcases next_cases ok hp a with ⟨lx', hn, hpop⟩ | ⟨r, s', lx', hn, hpop, a', _⟩
  · rw [hn, hpop]; rfl
  · rw [hn, hpop]
    by_cases hk : r.tok.kind == kd
    · simp only [hk, if_true]
      exact ⟨s', rfl, a'⟩
    · simp only [hk]
      rfl

theorem step_pred {n k pe lx ctx W s} (a : Abs R.E m len lx s) :
    Sim R m len (run R (n + 1) (.pred pe) lx ctx W).1 (peg R.text (k + 1) (.pred pe) s) := by
  simp only [run, peg]
  rcases next_cases ok hp a with ⟨lx', hn, hpop⟩ | ⟨r, s', lx', hn, hpop, a', _⟩
  · rw [hn, hpop]; rfl
  · rw [hn, hpop]
    by_cases hk : pe.eval r.tok
    · simp only [hk, if_true]
      exact ⟨s', rfl, a'⟩
    · simp only [hk]
      rfl

theorem step_any {n k ks lx ctx W s} (a : Abs R.E m len lx s) (hks : ks.isEmpty = false) :
    Sim R m len (run R (n + 1) (.any ks) lx ctx W).1 (peg R.text (k + 1) (.any ks) s) := by
  simp only [run, peg, hks, Bool.false_eq_true, if_false]
  rcases peek_cases ok hp a with ⟨lxp, hpe, ap, hpop⟩ | ⟨lxp, r, s', lx', hpe, ap, hpop, hn, a'⟩
  · rw [hpe, hpop]; rfl
  · rw [hpe, hpop]
    simp only []
    cases hf : ks.find? (· == r.tok.kind) with
    | none =>
      have : ks.contains r.tok.kind = false := by rw [contains_find, hf]; rfl
      simp only [this]
      rfl
    | some k' =>
      have hk := find_beq hf
      subst hk
      have : ks.contains r.tok.kind = true := by rw [contains_find, hf]; rfl
      simp only [this, if_true, hn]
      exact ⟨s', rfl, a'⟩

theorem step_anyIndex {n k ks lx ctx W s} (a : Abs R.E m len lx s) (hks : ks.isEmpty = false) :
    Sim R m len (run R (n + 1) (.anyIndex ks) lx ctx W).1 (peg R.text (k + 1) (.anyIndex ks) s) := by
  simp only [run, peg, hks, Bool.false_eq_true, if_false]
  rcases peek_cases ok hp a with ⟨lxp, hpe, ap, hpop⟩ | ⟨lxp, r, s', lx', hpe, ap, hpop, hn, a'⟩
  · rw [hpe, hpop]; rfl
  · rw [hpe, hpop]
    simp only [position]
    cases hf : ks.findIdx? (· == r.tok.kind) with
    | none => rfl
    | some i =>
      simp only [hn]
      exact ⟨s', rfl, a'⟩

theorem seqLoop_sim (es : Span) : ∀ (ks : List Nat) (lx : Lx) (s : PState) (acc : List Tok),
    Abs R.E m len lx s → Sim R m len (seqLoop R es ks lx acc) (pegSeq ks s acc) := by
  intro ks
  induction ks with
  | nil => intro lx s acc a; exact ⟨s, rfl, a⟩
  | cons kd ks ih =>
    intro lx s acc a
    simp only [seqLoop, pegSeq]
    rcases next_cases ok hp a with ⟨lx', hn, hpop⟩ | ⟨r, s', lx', hn, hpop, a', _⟩
    · rw [hn, hpop]; rfl
    · rw [hn, hpop]
      by_cases hk : r.tok.kind == kd
      · simp only [hk, if_true]
        exact ih lx' s' _ a'
      · simp only [hk]
        rfl

theorem step_seq {n k ks lx ctx W s} (a : Abs R.E m len lx s) :
    Sim R m len (run R (n + 1) (.seq ks) lx ctx W).1 (peg R.text (k + 1) (.seq ks) s) := by
  simp only [run, peg]
  exact seqLoop_sim ok hp _ ks lx s [] a

theorem seqCountLoop_sim (es : Span) : ∀ (ks : List Nat) (lx : Lx) (s : PState) (c : Nat),
    Abs R.E m len lx s → Sim R m len (seqCountLoop R es ks lx c) (pegSeqCount ks s c) := by
  intro ks
  induction ks with
  | nil => intro lx s c a; exact ⟨s, rfl, a⟩
  | cons kd ks ih =>
    intro lx s c a
    simp only [seqCountLoop, pegSeqCount]
    by_cases hemp : lx.isEmpty = true
    · obtain ⟨h1, h2⟩ := isEmpty_abs ok a hemp
      simp only [hemp, if_true, h1, h2]
      exact ⟨s, rfl, a⟩
    · simp only [hemp, Bool.false_eq_true, if_false]
      rcases peek_cases ok hp a with ⟨lxp, hpe, ap, hpop⟩ | ⟨lxp, r, s', lx', hpe, ap, hpop, hn, a'⟩
      · rw [hpe, hpop]
        simp only []
        have := next_none_end ok ap hpop
        rcases term_cases s.term with ht | ht
        · simp only [this.mpr ht, if_true, ht]
          exact ⟨s, rfl, ap⟩
        · have he : ¬ (lxp.next R.E).2.isEmpty = true := by
            intro h; rw [this.mp h] at ht; cases ht
          simp only [he, ht]
          rfl
      · rw [hpe, hpop]
        simp only []
        by_cases hk : r.tok.kind == kd
        · simp only [hk, if_true, hn]
          exact ih lx' s' _ a'
        · simp only [hk]
          exact ⟨s, rfl, ap⟩

theorem step_seqCount {n k ks lx ctx W s} (a : Abs R.E m len lx s) :
    Sim R m len (run R (n + 1) (.seqCount ks) lx ctx W).1 (peg R.text (k + 1) (.seqCount ks) s) := by
  simp only [run, peg]
  exact seqCountLoop_sim ok hp _ ks lx s 0 a

theorem step_endOfText {n k lx ctx W s} (a : Abs R.E m len lx s) :
    Sim R m len (run R (n + 1) .endOfText lx ctx W).1 (peg R.text (k + 1) .endOfText s) := by
  simp only [run, peg]
  rcases peek_cases ok hp a with ⟨lxp, hpe, ap, hpop⟩ | ⟨lxp, r, s', lx', hpe, ap, hpop, hn, a'⟩
  · rw [hpe]
    simp only []
    have := next_none_end ok ap hpop
    have hv := view_nil_of_pop_none hpop
    simp only [hv, List.isEmpty_nil, Bool.true_and]
    rcases term_cases s.term with ht | ht
    · simp only [this.mpr ht, if_true, ht]
      exact ⟨s, rfl, ap⟩
    · have he : ¬ (lxp.next R.E).2.isEmpty = true := by
        intro h; rw [this.mp h] at ht; cases ht
      simp only [he, ht]
      rfl
  · rw [hpe]
    have hv := view_ne_nil_of_pop_some hpop
    have : s.view.isEmpty = false := by
      cases h : s.view with
      | nil => exact absurd h hv
      | cons _ _ => rfl
    simp only [this, Bool.false_and]
    rfl

end Prim

/-! ### combinators -/

syntax "sim_done" : tactic
macro_rules
  | `(tactic| sim_done) => `(tactic| first | exact ⟨_, rfl, by assumption⟩ | rfl | trivial)

theorem step_map {n k a lx ctx W s}
    (h1 : Sim R m len (run R n a lx ctx W).1 (peg R.text k a s)) :
    Sim R m len (run R (n + 1) (.map a) lx ctx W).1 (peg R.text (k + 1) (.map a) s) := by
  simp only [run, peg]
  rcases h1.cases with ⟨v1, lx1, W1, s1, hr, hp, ha⟩ | ⟨e, W1, hr, hp⟩ | ⟨W1, hr⟩
  · rw [hr, hp]; sim_done
  · rw [hr, hp]; sim_done
  · rw [hr]; sim_done

theorem step_someOf {n k a lx ctx W s}
    (h1 : Sim R m len (run R n a lx ctx W).1 (peg R.text k a s)) :
    Sim R m len (run R (n + 1) (.someOf a) lx ctx W).1 (peg R.text (k + 1) (.someOf a) s) := by
  simp only [run, peg]
  rcases h1.cases with ⟨v1, lx1, W1, s1, hr, hp, ha⟩ | ⟨e, W1, hr, hp⟩ | ⟨W1, hr⟩
  · rw [hr, hp]; sim_done
  · rw [hr, hp]; sim_done
  · rw [hr]; sim_done

theorem step_discard {n k a lx ctx W s}
    (h1 : Sim R m len (run R n a lx ctx W).1 (peg R.text k a s)) :
    Sim R m len (run R (n + 1) (.discard a) lx ctx W).1 (peg R.text (k + 1) (.discard a) s) := by
  simp only [run, peg]
  rcases h1.cases with ⟨v1, lx1, W1, s1, hr, hp, ha⟩ | ⟨e, W1, hr, hp⟩ | ⟨W1, hr⟩
  · rw [hr, hp]; sim_done
  · rw [hr, hp]; sim_done
  · rw [hr]; sim_done

theorem step_both {n k a b lx ctx W s}
    (h1 : Sim R m len (run R n a lx ctx W).1 (peg R.text k a s))
    (h2 : ∀ lx1 s1 W1, Abs R.E m len lx1 s1 → Sim R m len (run R n b lx1 ctx W1).1 (peg R.text k b s1)) :
    Sim R m len (run R (n + 1) (.both a b) lx ctx W).1 (peg R.text (k + 1) (.both a b) s) := by
  simp only [run, peg]
  rcases h1.cases with ⟨v1, lx1, W1, s1, hr, hp, ha⟩ | ⟨e, W1, hr, hp⟩ | ⟨W1, hr⟩
  · rw [hr, hp]
    simp only [bindOk]
    rcases (h2 lx1 s1 W1 ha).cases with ⟨v2, lx2, W2, s2, hr2, hp2, ha2⟩ | ⟨e, W2, hr2, hp2⟩ | ⟨W2, hr2⟩
    · rw [hr2, hp2]; sim_done
    · rw [hr2, hp2]; sim_done
    · rw [hr2]; sim_done
  · rw [hr, hp]; sim_done
  · rw [hr]; sim_done

theorem step_center {n k a b c lx ctx W s}
    (h1 : Sim R m len (run R n a lx ctx W).1 (peg R.text k a s))
    (h2 : ∀ lx1 s1 W1, Abs R.E m len lx1 s1 → Sim R m len (run R n b lx1 ctx W1).1 (peg R.text k b s1))
    (h3 : ∀ lx1 s1 W1, Abs R.E m len lx1 s1 → Sim R m len (run R n c lx1 ctx W1).1 (peg R.text k c s1)) :
    Sim R m len (run R (n + 1) (.center a b c) lx ctx W).1 (peg R.text (k + 1) (.center a b c) s) := by
  simp only [run, peg]
  rcases h1.cases with ⟨v1, lx1, W1, s1, hr, hp, ha⟩ | ⟨e, W1, hr, hp⟩ | ⟨W1, hr⟩
  · rw [hr, hp]
    simp only [bindOk]
    rcases (h2 lx1 s1 W1 ha).cases with ⟨v2, lx2, W2, s2, hr2, hp2, ha2⟩ | ⟨e, W2, hr2, hp2⟩ | ⟨W2, hr2⟩
    · rw [hr2, hp2]
      simp only []
      rcases (h3 lx2 s2 W2 ha2).cases with ⟨v3, lx3, W3, s3, hr3, hp3, ha3⟩ | ⟨e, W3, hr3, hp3⟩ | ⟨W3, hr3⟩
      · rw [hr3, hp3]; sim_done
      · rw [hr3, hp3]; sim_done
      · rw [hr3]; sim_done
    · rw [hr2, hp2]; sim_done
    · rw [hr2]; sim_done
  · rw [hr, hp]; sim_done
  · rw [hr]; sim_done

theorem step_either {n k a b lx ctx W s}
    (h1 : Sim R m len (run R n a lx ctx W).1 (peg R.text k a s))
    (h2 : ∀ W1, Sim R m len (run R n b lx ctx W1).1 (peg R.text k b s)) :
    Sim R m len (run R (n + 1) (.either a b) lx ctx W).1 (peg R.text (k + 1) (.either a b) s) := by
  simp only [run, peg]
  rcases h1.cases with ⟨v1, lx1, W1, s1, hr, hp, ha⟩ | ⟨e, W1, hr, hp⟩ | ⟨W1, hr⟩
  · rw [hr, hp]; sim_done
  · rw [hr, hp]; exact h2 W1
  · rw [hr]; sim_done

theorem step_maybe {n k a lx ctx W s} (a0 : Abs R.E m len lx s)
    (h1 : Sim R m len (run R n a lx ctx.withoutSink W).1 (peg R.text k a s)) :
    Sim R m len (run R (n + 1) (.maybe a) lx ctx W).1 (peg R.text (k + 1) (.maybe a) s) := by
  simp only [run, peg]
  rcases h1.cases with ⟨v1, lx1, W1, s1, hr, hp, ha⟩ | ⟨e, W1, hr, hp⟩ | ⟨W1, hr⟩
  · rw [hr, hp]; sim_done
  · rw [hr, hp]; sim_done
  · rw [hr]; sim_done

theorem step_cond {n k flag a lx ctx W s} (a0 : Abs R.E m len lx s)
    (h1 : Sim R m len (run R n a lx ctx W).1 (peg R.text k a s)) :
    Sim R m len (run R (n + 1) (.cond flag a) lx ctx W).1 (peg R.text (k + 1) (.cond flag a) s) := by
  simp only [run, peg]
  cases flag
  · simp only [Bool.false_eq_true, if_false]; sim_done
  · simp only [if_true]
    rcases h1.cases with ⟨v1, lx1, W1, s1, hr, hp, ha⟩ | ⟨e, W1, hr, hp⟩ | ⟨W1, hr⟩
    · rw [hr, hp]; sim_done
    · rw [hr, hp]; sim_done
    · rw [hr]; sim_done

theorem step_requireIf {n k flag a lx ctx W s}
    (h1 : Sim R m len (run R n a lx ctx W).1 (peg R.text k a s))
    (h2 : Sim R m len (run R n (.maybe a) lx ctx W).1 (peg R.text k (.maybe a) s)) :
    Sim R m len (run R (n + 1) (.requireIf flag a) lx ctx W).1 (peg R.text (k + 1) (.requireIf flag a) s) := by
  simp only [run, peg]
  cases flag
  · simp only [Bool.false_eq_true, if_false]; exact h2
  · simp only [if_true]
    rcases h1.cases with ⟨v1, lx1, W1, s1, hr, hp, ha⟩ | ⟨e, W1, hr, hp⟩ | ⟨W1, hr⟩
    · rw [hr, hp]; sim_done
    · rw [hr, hp]; sim_done
    · rw [hr]; sim_done

/-! spec-side inversions -/

theorem peg_both_ok {text k a b s v s'} (h : peg text k (.both a b) s = .ok v s') :
    ∃ v1 v2, v = .pair v1 v2 ∧ peg text k (.left a b) s = .ok v1 s' ∧ peg text k (.right a b) s = .ok v2 s' := by
  cases k with
  | zero => simp [peg] at h
  | succ k =>
    simp only [peg, bindOk] at h ⊢
    cases h1 : peg text k a s <;> rw [h1] at h <;> simp only [] at h ⊢ <;> try cases h
    next v1 s1 =>
      cases h2 : peg text k b s1 <;> rw [h2] at h <;> simp only [] at h ⊢ <;> cases h
      exact ⟨_, _, rfl, rfl, rfl⟩

theorem peg_both_fail {text k a b s} (h : peg text k (.both a b) s = .fail) :
    peg text k (.left a b) s = .fail ∧ peg text k (.right a b) s = .fail := by
  cases k with
  | zero => simp [peg] at h
  | succ k =>
    simp only [peg, bindOk] at h ⊢
    cases h1 : peg text k a s <;> rw [h1] at h <;> simp only [] at h ⊢ <;> try cases h
    next v1 s1 =>
      cases h2 : peg text k b s1 <;> rw [h2] at h <;> simp only [] at h ⊢ <;> cases h
      simp
    · simp

theorem peg_maybe_ok {text k a s v s1} (h : peg text (k + 1) (.maybe a) s = .ok v s1) :
    (v = .none ∧ s1 = s ∧ peg text k a s = .fail) ∨ (∃ l, v = .some l ∧ peg text k a s = .ok l s1) := by
  simp only [peg] at h
  cases h1 : peg text k a s <;> rw [h1] at h <;> simp only [] at h <;> cases h
  · exact Or.inr ⟨_, rfl, rfl⟩
  · exact Or.inl ⟨rfl, rfl, rfl⟩

theorem peg_maybe_fail {text k a s} (h : peg text (k + 1) (.maybe a) s = .fail) : False := by
  simp only [peg] at h
  cases h1 : peg text k a s <;> rw [h1] at h <;> simp only [] at h <;> cases h

theorem peg_implies_ok {text k a b s v s'} (h : peg text k (.implies a b) s = .ok v s') :
    (v = .none ∧ peg text k (.antecedent a b) s = .ok .none s' ∧ peg text k (.consequent a b) s = .ok .none s') ∨
    (∃ l r, v = .some (.pair l r) ∧ peg text k (.antecedent a b) s = .ok (.some l) s' ∧
      peg text k (.consequent a b) s = .ok (.some r) s') := by
  cases k with
  | zero => simp [peg] at h
  | succ k =>
    simp only [peg, bindOk] at h ⊢
    cases h1 : peg text k a s <;> rw [h1] at h <;> simp only [] at h ⊢ <;> try cases h
    next v1 s1 =>
      cases h2 : peg text k b s1 <;> rw [h2] at h <;> simp only [] at h ⊢ <;> cases h
      exact Or.inr ⟨_, _, rfl, rfl, rfl⟩
    · exact Or.inl ⟨rfl, rfl, rfl⟩

theorem peg_implies_fail {text k a b s} (h : peg text k (.implies a b) s = .fail) :
    peg text k (.antecedent a b) s = .fail ∧ peg text k (.consequent a b) s = .fail := by
  cases k with
  | zero => simp [peg] at h
  | succ k =>
    simp only [peg, bindOk] at h ⊢
    cases h1 : peg text k a s <;> rw [h1] at h <;> simp only [] at h ⊢ <;> try cases h
    next v1 s1 =>
      cases h2 : peg text k b s1 <;> rw [h2] at h <;> simp only [] at h ⊢ <;> cases h
      simp

theorem step_left {n k a b lx ctx W s}
    (h1 : Sim R m len (run R n (.both a b) lx ctx W).1 (peg R.text k (.both a b) s)) :
    Sim R m len (run R (n + 1) (.left a b) lx ctx W).1 (peg R.text k (.left a b) s) := by
  simp only [run]
  rcases h1.cases with ⟨v1, lx1, W1, s1, hr, hp, ha⟩ | ⟨e, W1, hr, hp⟩ | ⟨W1, hr⟩
  · obtain ⟨x, y, rfl, h, _⟩ := peg_both_ok hp
    rw [hr, h]; sim_done
  · rw [hr, (peg_both_fail hp).1]; sim_done
  · rw [hr]; sim_done

theorem step_right {n k a b lx ctx W s}
    (h1 : Sim R m len (run R n (.both a b) lx ctx W).1 (peg R.text k (.both a b) s)) :
    Sim R m len (run R (n + 1) (.right a b) lx ctx W).1 (peg R.text k (.right a b) s) := by
  simp only [run]
  rcases h1.cases with ⟨v1, lx1, W1, s1, hr, hp, ha⟩ | ⟨e, W1, hr, hp⟩ | ⟨W1, hr⟩
  · obtain ⟨x, y, rfl, _, h⟩ := peg_both_ok hp
    rw [hr, h]; sim_done
  · rw [hr, (peg_both_fail hp).2]; sim_done
  · rw [hr]; sim_done

theorem step_implies {n k a b lx ctx W s}
    (h1 : Sim R m len (run R n (.maybe a) lx ctx W).1 (peg R.text (k + 1) (.maybe a) s))
    (h2 : ∀ lx1 s1 W1, Abs R.E m len lx1 s1 → Sim R m len (run R n b lx1 ctx W1).1 (peg R.text k b s1)) :
    Sim R m len (run R (n + 1) (.implies a b) lx ctx W).1 (peg R.text (k + 1) (.implies a b) s) := by
  simp only [run, peg]
  rcases h1.cases with ⟨v1, lx1, W1, s1, hr, hp, ha⟩ | ⟨e, W1, hr, hp⟩ | ⟨W1, hr⟩
  · rcases peg_maybe_ok hp with ⟨rfl, rfl, h⟩ | ⟨l, rfl, h⟩
    · rw [hr, h]; sim_done
    · rw [hr, h]
      simp only [bindOk]
      rcases (h2 lx1 s1 W1 ha).cases with ⟨v2, lx2, W2, s2, hr2, hp2, ha2⟩ | ⟨e, W2, hr2, hp2⟩ | ⟨W2, hr2⟩
      · rw [hr2, hp2]; sim_done
      · rw [hr2, hp2]; sim_done
      · rw [hr2]; sim_done
  · exact (peg_maybe_fail hp).elim
  · rw [hr]; sim_done

theorem step_antecedent {n k a b lx ctx W s}
    (h1 : Sim R m len (run R n (.implies a b) lx ctx W).1 (peg R.text k (.implies a b) s)) :
    Sim R m len (run R (n + 1) (.antecedent a b) lx ctx W).1 (peg R.text k (.antecedent a b) s) := by
  simp only [run]
  rcases h1.cases with ⟨v1, lx1, W1, s1, hr, hp, ha⟩ | ⟨e, W1, hr, hp⟩ | ⟨W1, hr⟩
  · rcases peg_implies_ok hp with ⟨rfl, h, _⟩ | ⟨l, r, rfl, h, _⟩
    · rw [hr, h]; sim_done
    · rw [hr, h]; sim_done
  · rw [hr, (peg_implies_fail hp).1]; sim_done
  · rw [hr]; sim_done

theorem step_consequent {n k a b lx ctx W s}
    (h1 : Sim R m len (run R n (.implies a b) lx ctx W).1 (peg R.text k (.implies a b) s)) :
    Sim R m len (run R (n + 1) (.consequent a b) lx ctx W).1 (peg R.text k (.consequent a b) s) := by
  simp only [run]
  rcases h1.cases with ⟨v1, lx1, W1, s1, hr, hp, ha⟩ | ⟨e, W1, hr, hp⟩ | ⟨W1, hr⟩
  · rcases peg_implies_ok hp with ⟨rfl, _, h⟩ | ⟨l, r, rfl, _, h⟩
    · rw [hr, h]; sim_done
    · rw [hr, h]; sim_done
  · rw [hr, (peg_implies_fail hp).2]; sim_done
  · rw [hr]; sim_done

theorem step_condImplies {n k a kd b lx ctx W s}
    (h1 : Sim R m len (run R n (.maybe a) lx ctx W).1 (peg R.text (k + 1) (.maybe a) s))
    (h2 : ∀ lx1 s1 W1, Abs R.E m len lx1 s1 → Sim R m len (run R n b lx1 ctx W1).1 (peg R.text k b s1)) :
    Sim R m len (run R (n + 1) (.condImplies a kd b) lx ctx W).1 (peg R.text (k + 1) (.condImplies a kd b) s) := by
  simp only [run, peg]
  rcases h1.cases with ⟨v1, lx1, W1, s1, hr, hp, ha⟩ | ⟨e, W1, hr, hp⟩ | ⟨W1, hr⟩
  · rcases peg_maybe_ok hp with ⟨rfl, rfl, h⟩ | ⟨l, rfl, h⟩
    · rw [hr, h]; sim_done
    · rw [hr, h]
      simp only [bindOk]
      cases l with
      | tok t =>
        simp only []
        by_cases hk : t.kind == kd
        · simp only [hk, if_true]
          rcases (h2 lx1 s1 W1 ha).cases with ⟨v2, lx2, W2, s2, hr2, hp2, ha2⟩ | ⟨e, W2, hr2, hp2⟩ | ⟨W2, hr2⟩
          · rw [hr2, hp2]; sim_done
          · rw [hr2, hp2]; sim_done
          · rw [hr2]; sim_done
        · simp only [hk, Bool.false_eq_true, if_false]; sim_done
      | _ => simp only [Bool.false_eq_true, if_false]; sim_done
  · exact (peg_maybe_fail hp).elim
  · rw [hr]; sim_done

/-! ### C06: the filter-preserving, repetition-free fragment -/

/-- The C06 fragment: primitives, sequencing, choice, option, conditionals and
implications — no filter change, no repetition, no capture, no recovery.
`any` / `any_index` need a non-empty token list (the Rust asserts it). -/
def pegCore : G → Bool
  | .empty | .one _ | .seq _ | .seqCount _ | .pred _ | .endOfText => true
  | .any ks | .anyIndex ks => !ks.isEmpty
  | .left a b | .right a b | .both a b | .either a b | .implies a b | .antecedent a b | .consequent a b =>
    pegCore a && pegCore b
  | .center a b c => pegCore a && pegCore b && pegCore c
  | .map a | .discard a | .maybe a | .requireIf _ a | .cond _ a | .someOf a => pegCore a
  | .condImplies a _ b => pegCore a && pegCore b
  | _ => false

theorem core_sim (ok : ScanOK R.E m len) (hp : PassOK R.E) :
    ∀ n k, n ≤ k → ∀ g lx s ctx W, pegCore g = true → Abs R.E m len lx s →
      Sim R m len (run R n g lx ctx W).1 (peg R.text k g s) := by
  intro n
  induction n with
  | zero => intro k _ g lx s ctx W _ _; simp only [run]; trivial
  | succ n ih =>
    intro k hk g lx s ctx W hg a
    obtain ⟨k, rfl⟩ : ∃ k', k = k' + 1 := ⟨k - 1, by omega⟩
    have hk' : n ≤ k := by omega
    have hk1 : n ≤ k + 1 := by omega
    cases g with
    | empty => exact step_empty a
    | one kd => exact step_one ok hp a
    | any ks => exact step_any ok hp a (by simpa [pegCore] using hg)
    | anyIndex ks => exact step_anyIndex ok hp a (by simpa [pegCore] using hg)
    | seq ks => exact step_seq ok hp a
    | seqCount ks => exact step_seqCount ok hp a
    | pred pe => exact step_pred ok hp a
    | endOfText => exact step_endOfText ok hp a
    | left x y =>
      simp only [pegCore, Bool.and_eq_true] at hg
      exact step_left (ih (k + 1) hk1 (.both x y) lx s ctx W (by simp [pegCore, hg]) a)
    | right x y =>
      simp only [pegCore, Bool.and_eq_true] at hg
      exact step_right (ih (k + 1) hk1 (.both x y) lx s ctx W (by simp [pegCore, hg]) a)
    | both x y =>
      simp only [pegCore, Bool.and_eq_true] at hg
      exact step_both (ih k hk' x lx s ctx W hg.1 a) (fun lx1 s1 W1 a1 => ih k hk' y lx1 s1 ctx W1 hg.2 a1)
    | center x y z =>
      simp only [pegCore, Bool.and_eq_true] at hg
      exact step_center (ih k hk' x lx s ctx W hg.1.1 a) (fun lx1 s1 W1 a1 => ih k hk' y lx1 s1 ctx W1 hg.1.2 a1)
        (fun lx1 s1 W1 a1 => ih k hk' z lx1 s1 ctx W1 hg.2 a1)
    | map x => exact step_map (ih k hk' x lx s ctx W hg a)
    | discard x => exact step_discard (ih k hk' x lx s ctx W hg a)
    | someOf x => exact step_someOf (ih k hk' x lx s ctx W hg a)
    | either x y =>
      simp only [pegCore, Bool.and_eq_true] at hg
      exact step_either (ih k hk' x lx s ctx W hg.1 a) (fun W1 => ih k hk' y lx s ctx W1 hg.2 a)
    | maybe x => exact step_maybe a (ih k hk' x lx s _ W hg a)
    | requireIf flag x =>
      exact step_requireIf (ih k hk' x lx s ctx W hg a) (ih k hk' (.maybe x) lx s ctx W hg a)
    | cond flag x => exact step_cond a (ih k hk' x lx s ctx W hg a)
    | implies x y =>
      simp only [pegCore, Bool.and_eq_true] at hg
      exact step_implies (ih (k + 1) hk1 (.maybe x) lx s ctx W hg.1 a)
        (fun lx1 s1 W1 a1 => ih k hk' y lx1 s1 ctx W1 hg.2 a1)
    | antecedent x y =>
      simp only [pegCore, Bool.and_eq_true] at hg
      exact step_antecedent (ih (k + 1) hk1 (.implies x y) lx s ctx W (by simp [pegCore, hg]) a)
    | consequent x y =>
      simp only [pegCore, Bool.and_eq_true] at hg
      exact step_consequent (ih (k + 1) hk1 (.implies x y) lx s ctx W (by simp [pegCore, hg]) a)
    | condImplies x kd y =>
      simp only [pegCore, Bool.and_eq_true] at hg
      exact step_condImplies (ih (k + 1) hk1 (.maybe x) lx s ctx W hg.1 a)
        (fun lx1 s1 W1 a1 => ih k hk' y lx1 s1 ctx W1 hg.2 a1)
    | _ => simp [pegCore] at hg

/-! ### C07: repetition -/

/-- `Sim` without the value (separators: their value is dropped on both sides). -/
def SimV (R : RunEnv) (m : Metrics) (len : Nat) (r : RRes) (p : PRes) : Prop :=
  match r with
  | .ok _ lx' => ∃ v' s', p = .ok v' s' ∧ Abs R.E m len lx' s'
  | .err _ => p = .fail
  | .fuel => True
  | .panic => False

theorem SimV.cases {x : RRes × World} {p : PRes} (h : SimV R m len x.1 p) :
    (∃ v lx' W' v' s', x = (.ok v lx', W') ∧ p = .ok v' s' ∧ Abs R.E m len lx' s') ∨
    (∃ e W', x = (.err e, W') ∧ p = .fail) ∨ (∃ W', x = (.fuel, W')) := by
  obtain ⟨r, W'⟩ := x
  cases r with
  | ok v lx' =>
    obtain ⟨v', s', hp, ha⟩ := h
    exact Or.inl ⟨v, lx', W', v', s', rfl, hp, ha⟩
  | err e => exact Or.inr (Or.inl ⟨e, W', rfl, h⟩)
  | fuel => exact Or.inr (Or.inr ⟨W', rfl⟩)
  | panic => exact h.elim

theorem Sim.toV {r : RRes} {p : PRes} (h : Sim R m len r p) : SimV R m len r p := by
  cases r with
  | ok v lx' => obtain ⟨s', hp, ha⟩ := h; exact ⟨v, s', hp, ha⟩
  | err e => exact h
  | fuel => trivial
  | panic => exact h.elim

theorem hiAllows_eq (hi : Option Nat) (n : Nat) : Tephra.hiAllows hi n = Spec.hiAllows hi n := by
  cases hi <;> rfl

theorem hiReached_eq (hi : Option Nat) (n : Nat) : hiReached hi n = !Spec.hiAllows hi n := by
  cases hi with
  | none => rfl
  | some h =>
    simp only [hiReached, Spec.hiAllows]
    by_cases hh : n < h
    · have : ¬ n ≥ h := by omega
      simp [hh, this]
    · have : n ≥ h := by omega
      simp [hh, this]

theorem allows_of_lt {hi : Option Nat} {lo n : Nat} (h : hiBelow hi lo = false) (hl : n < lo) :
    Spec.hiAllows hi n = true := by
  cases hi with
  | none => rfl
  | some x => simp [hiBelow, Spec.hiAllows] at h ⊢; omega

theorem pegRepLoop_full {text : Text} {j lo : Nat} {hi : Option Nat} {stop : Option G} {a sep : G}
    {vals : List Val} {s : PState} (h : Spec.hiAllows hi vals.length = false) :
    pegRepLoop text (j + 1) lo hi stop a sep vals s = .ok (.list vals.reverse) s := by
  simp only [pegRepLoop, h, Bool.not_false, if_true]

theorem sepItem_sim {j k a sepR sepP lx ctx W s}
    (hs : SimV R m len (run R j sepR lx ctx W).1 (peg R.text k sepP s))
    (ha : ∀ lx1 s1 W1, Abs R.E m len lx1 s1 → Sim R m len (run R j a lx1 ctx W1).1 (peg R.text k a s1)) :
    Sim R m len (sepItem R (j + 1) a sepR lx ctx W).1
      (bindOk (peg R.text k sepP s) fun _ s1 => peg R.text k a s1) := by
  simp only [sepItem]
  rcases hs.cases with ⟨v1, lx1, W1, v1', s1, hr, hp, h1⟩ | ⟨e, W1, hr, hp⟩ | ⟨W1, hr⟩
  · rw [hr, hp]; exact ha lx1 s1 W1 h1
  · rw [hr, hp]; sim_done
  · rw [hr]; sim_done

/-- "`gR` run with fuel `i ≤ N` agrees with `gP` evaluated with fuel `k ≥ 2 i`". -/
def ItemOK (R : RunEnv) (m : Metrics) (len : Nat) (N : Nat) (gR gP : G) (rel : RRes → PRes → Prop) : Prop :=
  ∀ i k, i ≤ N → 2 * i ≤ k → ∀ lx s ctx W, Abs R.E m len lx s → rel (run R i gR lx ctx W).1 (peg R.text k gP s)

section Rep
variable {N lo : Nat} {hi : Option Nat} {a sepR sepP st : G} {ctx : Ctx}
variable (hA : ItemOK R m len N a a (Sim R m len)) (hS : ItemOK R m len N sepR sepP (SimV R m len))
variable (hlh : hiBelow hi lo = false)
include hA hS hlh

omit hlh in
theorem sepItem_ok {j k lx W s} (hj : j ≤ N + 1) (hk : 2 * j ≤ k + 2) (a0 : Abs R.E m len lx s) :
    Sim R m len (sepItem R j a sepR lx ctx W).1
      (bindOk (peg R.text k sepP s) fun _ s1 => peg R.text k a s1) := by
  cases j with
  | zero => simp only [sepItem]; trivial
  | succ i =>
    exact sepItem_sim (hS i k (by omega) (by omega) lx s ctx W a0)
      (fun lx1 s1 W1 a1 => hA i k (by omega) (by omega) lx1 s1 ctx W1 a1)

theorem interLoop_sim : ∀ j, j ≤ N + 1 → ∀ j', 2 * j + 1 ≤ j' → ∀ vals lx s W, vals ≠ [] →
    Abs R.E m len lx s →
    Sim R m len (interLoop R j lo hi a sepR vals lx ctx W).1
      (pegRepLoop R.text j' lo hi none a sepP vals s) := by
  intro j
  induction j with
  | zero => intro _ j' _ vals lx s W _ _; simp only [interLoop]; trivial
  | succ j ih =>
    intro hj j' hj' vals lx s W hne a0
    obtain ⟨j'', rfl⟩ : ∃ x, j' = x + 1 := ⟨j' - 1, by omega⟩
    have hsi := fun W => sepItem_ok (j := j) (k := j'') (lx := lx) (W := W) (s := s) (ctx := ctx)
      hA hS (by omega) (by omega) a0
    have hemp : vals.isEmpty = false := by cases vals <;> simp_all
    simp only [interLoop, pegRepLoop, hemp, Bool.false_eq_true, if_false]
    by_cases hlt : vals.length < lo
    · simp only [hlt, if_true, allows_of_lt hlh hlt, Bool.not_true, Bool.false_eq_true, if_false]
      rcases (hsi W).cases with ⟨v1, lx1, W1, s1, hr, hp, h1⟩ | ⟨e, W1, hr, hp⟩ | ⟨W1, hr⟩
      · rw [hr, hp]; exact ih (by omega) j'' (by omega) _ lx1 s1 W1 (by simp) h1
      · rw [hr, hp]; sim_done
      · rw [hr]; sim_done
    · simp only [hlt, if_false, hiAllows_eq]
      cases hall : Spec.hiAllows hi vals.length
      · simp only [Bool.false_eq_true, if_false, Bool.not_false, if_true]
        exact ⟨s, rfl, a0⟩
      · simp only [if_true, Bool.not_true, Bool.false_eq_true, if_false]
        rcases (hsi W).cases with ⟨v1, lx1, W1, s1, hr, hp, h1⟩ | ⟨e, W1, hr, hp⟩ | ⟨W1, hr⟩
        · rw [hr, hp]
          simp only [hiReached_eq]
          cases hre : Spec.hiAllows hi (vals.length + 1)
          · simp only [Bool.not_false, if_true]
            obtain ⟨x, rfl⟩ : ∃ x, j'' = x + 1 := ⟨j'' - 1, by omega⟩
            rw [pegRepLoop_full (by simpa using hre)]
            exact ⟨s1, rfl, h1⟩
          · simp only [Bool.not_true, Bool.false_eq_true, if_false]
            exact ih (by omega) j'' (by omega) _ lx1 s1 W1 (by simp) h1
        · rw [hr, hp]; exact ⟨s, rfl, a0⟩
        · rw [hr]; sim_done


theorem interLoopStart_sim {n k lx W s} (hn : n ≤ N + 1) (hk : 2 * n + 1 ≤ k) (a0 : Abs R.E m len lx s) :
    Sim R m len (interLoopStart R n lo hi a sepR lx ctx W).1 (pegRep R.text k lo hi none a sepP s) := by
  cases n with
  | zero => simp only [interLoopStart]; trivial
  | succ n =>
    obtain ⟨k, rfl⟩ : ∃ x, k = x + 2 := ⟨k - 2, by omega⟩
    simp only [interLoopStart, pegRep, hlh, Bool.false_eq_true, if_false]
    by_cases h0 : hi = some 0
    · subst h0
      simp only [beq_self_eq_true, if_true]
      exact ⟨s, rfl, a0⟩
    · have h0' : (hi == some 0) = false := by simpa using h0
      have hall : Spec.hiAllows hi 0 = true := by
        cases hi with
        | none => rfl
        | some x =>
          have : x ≠ 0 := by intro e; exact h0 (by rw [e])
          simp [Spec.hiAllows]; omega
      simp only [h0', Bool.false_eq_true, if_false, pegRepLoop, List.length_nil, hall, Bool.not_true,
        List.isEmpty_nil, if_true]
      rcases (hA n k (by omega) (by omega) lx s ctx W a0).cases with
        ⟨v1, lx1, W1, s1, hr, hp, h1⟩ | ⟨e, W1, hr, hp⟩ | ⟨W1, hr⟩
      · rw [hr, hp]
        exact interLoop_sim hA hS hlh n (by omega) k (by omega) _ lx1 s1 W1 (by simp) h1
      · rw [hr, hp]
        simp only []
        cases lo with
        | zero => simp only [beq_self_eq_true, if_true, Nat.lt_irrefl, if_false]; exact ⟨s, rfl, a0⟩
        | succ l => simp only [Nat.zero_lt_succ, if_true]; sim_done
      · rw [hr]; sim_done


section Until
variable (hT : ItemOK R m len N st st (SimV R m len))
include hT

theorem untilLoop_sim : ∀ j, j ≤ N + 1 → ∀ j', 2 * j + 1 ≤ j' → ∀ vals lx s W, vals ≠ [] →
    Abs R.E m len lx s →
    Sim R m len (untilLoop R j lo hi st a sepR vals lx ctx W).1
      (pegRepLoop R.text j' lo hi (some st) a sepP vals s) := by
  intro j
  induction j with
  | zero => intro _ j' _ vals lx s W _ _; simp only [untilLoop]; trivial
  | succ j ih =>
    intro hj j' hj' vals lx s W hne a0
    obtain ⟨j'', rfl⟩ : ∃ x, j' = x + 1 := ⟨j' - 1, by omega⟩
    have hsi := fun W => sepItem_ok (j := j) (k := j'') (lx := lx) (W := W) (s := s) (ctx := ctx)
      hA hS (by omega) (by omega) a0
    have hst := hT j j'' (by omega) (by omega) lx s ctx W a0
    have hemp : vals.isEmpty = false := by cases vals <;> simp_all
    simp only [untilLoop, pegRepLoop, hemp, Bool.false_eq_true, if_false]
    by_cases hlt : vals.length < lo
    · simp only [hlt, if_true, allows_of_lt hlh hlt, Bool.not_true, Bool.false_eq_true, if_false]
      rcases hst.cases with ⟨v0, lx0, W0, v0', s0, hr0, hp0, _⟩ | ⟨e0, W0, hr0, hp0⟩ | ⟨W0, hr0⟩
      · rw [hr0, hp0]; exact ⟨s, rfl, a0⟩
      · rw [hr0, hp0]
        simp only [Bool.false_eq_true, if_false]
        rcases (hsi W0).cases with ⟨v1, lx1, W1, s1, hr, hp, h1⟩ | ⟨e, W1, hr, hp⟩ | ⟨W1, hr⟩
        · rw [hr, hp]; exact ih (by omega) j'' (by omega) _ lx1 s1 W1 (by simp) h1
        · rw [hr, hp]; sim_done
        · rw [hr]; sim_done
      · rw [hr0]; sim_done
    · simp only [hlt, if_false, hiAllows_eq]
      cases hall : Spec.hiAllows hi vals.length
      · simp only [Bool.false_eq_true, if_false, Bool.not_false, if_true]
        exact ⟨s, rfl, a0⟩
      · simp only [if_true, Bool.not_true, Bool.false_eq_true, if_false]
        rcases hst.cases with ⟨v0, lx0, W0, v0', s0, hr0, hp0, _⟩ | ⟨e0, W0, hr0, hp0⟩ | ⟨W0, hr0⟩
        · rw [hr0, hp0]; exact ⟨s, rfl, a0⟩
        · rw [hr0, hp0]
          simp only [Bool.false_eq_true, if_false]
          rcases (hsi W0).cases with ⟨v1, lx1, W1, s1, hr, hp, h1⟩ | ⟨e, W1, hr, hp⟩ | ⟨W1, hr⟩
          · rw [hr, hp]
            simp only [hiReached_eq]
            cases hre : Spec.hiAllows hi (vals.length + 1)
            · simp only [Bool.not_false, if_true]
              obtain ⟨x, rfl⟩ : ∃ x, j'' = x + 1 := ⟨j'' - 1, by omega⟩
              rw [pegRepLoop_full (by simpa using hre)]
              exact ⟨s1, rfl, h1⟩
            · simp only [Bool.not_true, Bool.false_eq_true, if_false]
              exact ih (by omega) j'' (by omega) _ lx1 s1 W1 (by simp) h1
          · rw [hr, hp]; exact ⟨s, rfl, a0⟩
          · rw [hr]; sim_done
        · rw [hr0]; sim_done

theorem untilStart_sim {n k lx W s} (hn : n ≤ N + 1) (hk : 2 * n + 1 ≤ k) (a0 : Abs R.E m len lx s) :
    Sim R m len (untilStart R n lo hi st a sepR lx ctx W).1 (pegRep R.text k lo hi (some st) a sepP s) := by
  cases n with
  | zero => simp only [untilStart]; trivial
  | succ n =>
    obtain ⟨k, rfl⟩ : ∃ x, k = x + 2 := ⟨k - 2, by omega⟩
    simp only [untilStart, pegRep, hlh, Bool.false_eq_true, if_false]
    by_cases h0 : hi = some 0
    · subst h0
      simp only [beq_self_eq_true, if_true]
      exact ⟨s, rfl, a0⟩
    · have h0' : (hi == some 0) = false := by simpa using h0
      have hall : Spec.hiAllows hi 0 = true := by
        cases hi with
        | none => rfl
        | some x =>
          have : x ≠ 0 := by intro e; exact h0 (by rw [e])
          simp [Spec.hiAllows]; omega
      simp only [h0', Bool.false_eq_true, if_false, pegRepLoop, List.length_nil, hall, Bool.not_true,
        List.isEmpty_nil, if_true]
      rcases (hT n k (by omega) (by omega) lx s ctx W a0).cases with
        ⟨v0, lx0, W0, v0', s0, hr0, hp0, _⟩ | ⟨e0, W0, hr0, hp0⟩ | ⟨W0, hr0⟩
      · rw [hr0, hp0]; exact ⟨s, rfl, a0⟩
      · rw [hr0, hp0]
        simp only [Bool.false_eq_true, if_false]
        rcases (hA n k (by omega) (by omega) lx s ctx W0 a0).cases with
          ⟨v1, lx1, W1, s1, hr, hp, h1⟩ | ⟨e, W1, hr, hp⟩ | ⟨W1, hr⟩
        · rw [hr, hp]
          exact untilLoop_sim hA hS hlh hT n (by omega) k (by omega) _ lx1 s1 W1 (by simp) h1
        · rw [hr, hp]
          simp only []
          cases lo with
          | zero => simp only [beq_self_eq_true, if_true, Nat.lt_irrefl, if_false]; exact ⟨s, rfl, a0⟩
          | succ l => simp only [Nat.zero_lt_succ, if_true]; sim_done
        · rw [hr]; sim_done
      · rw [hr0]; sim_done

end Until

end Rep

/-! ### C07: the fragment with repetition -/

theorem countOf_sim {v : Nat} {x : RRes × World} {p : PRes} (h : Sim R m len x.1 p) :
    Sim R m len (countOf v x).1 (countOfP v p) := by
  simp only [countOf, countOfP]
  by_cases hv : (v == 0) = true
  · simp only [hv, if_true]; exact h
  · simp only [hv, Bool.false_eq_true, if_false]
    rcases h.cases with ⟨v1, lx1, W1, s1, hr, hp, h1⟩ | ⟨e, W1, hr, hp⟩ | ⟨W1, hr⟩
    · rw [hr, hp]
      cases v1 <;> sim_done
    · rw [hr, hp]; sim_done
    · rw [hr]; sim_done

theorem discard_simV {i g lx ctx W p} (h : Sim R m len (run R i g lx ctx W).1 p) :
    SimV R m len (run R (i + 1) (.discard g) lx ctx W).1 p := by
  simp only [run]
  rcases h.cases with ⟨v1, lx1, W1, s1, hr, hp, h1⟩ | ⟨e, W1, hr, hp⟩ | ⟨W1, hr⟩
  · rw [hr]; exact ⟨v1, s1, hp, h1⟩
  · rw [hr]; exact hp
  · rw [hr]; trivial

theorem sepDefault_ok (ok : ScanOK R.E m len) (hp : PassOK R.E) (N kd : Nat) :
    ItemOK R m len N (.discard (.one kd)) (.one kd) (SimV R m len) := by
  intro i k _ hk lx s ctx W a
  cases i with
  | zero => simp only [run]; trivial
  | succ i =>
    cases i with
    | zero => simp only [run]; trivial
    | succ i =>
      obtain ⟨k, rfl⟩ : ∃ x, k = x + 1 := ⟨k - 1, by omega⟩
      exact discard_simV (step_one ok hp a)

/-- The C07 fragment: the C06 fragment plus the repetition combinators, with
bounds `lo ≤ hi` (the Rust panics otherwise). -/
def pegWithRep : G → Bool
  | .empty | .one _ | .seq _ | .seqCount _ | .pred _ | .endOfText => true
  | .any ks | .anyIndex ks => !ks.isEmpty
  | .left a b | .right a b | .both a b | .either a b | .implies a b | .antecedent a b | .consequent a b =>
    pegWithRep a && pegWithRep b
  | .center a b c => pegWithRep a && pegWithRep b && pegWithRep c
  | .map a | .discard a | .maybe a | .requireIf _ a | .cond _ a | .someOf a => pegWithRep a
  | .condImplies a _ b => pegWithRep a && pegWithRep b
  | .repeat_ _ lo hi a => !hiBelow hi lo && pegWithRep a
  | .repeatUntil _ lo hi st a => !hiBelow hi lo && pegWithRep st && pegWithRep a
  | .intersperse _ lo hi a sp => !hiBelow hi lo && pegWithRep a && pegWithRep sp
  | .intersperseUntil _ lo hi st a sp => !hiBelow hi lo && pegWithRep st && pegWithRep a && pegWithRep sp
  | .intersperseDefault lo hi a _ => !hiBelow hi lo && pegWithRep a
  | _ => false

theorem rep_sim (ok : ScanOK R.E m len) (hp : PassOK R.E) :
    ∀ N n, n ≤ N → ∀ k, 2 * n ≤ k → ∀ g lx s ctx W, pegWithRep g = true → Abs R.E m len lx s →
      Sim R m len (run R n g lx ctx W).1 (peg R.text k g s) := by
  intro N
  induction N with
  | zero =>
    intro n hn k _ g lx s ctx W _ _
    obtain rfl : n = 0 := by omega
    simp only [run]; trivial
  | succ n ihN =>
    intro n0 hn k hk g lx s ctx W hg a
    by_cases hlt : n0 ≤ n
    · exact ihN n0 hlt k hk g lx s ctx W hg a
    obtain rfl : n0 = n + 1 := by omega
    have item : ∀ g, pegWithRep g = true → ItemOK R m len n g g (Sim R m len) :=
      fun g hg i k hi hk lx s ctx W a => ihN i hi k hk g lx s ctx W hg a
    have itemV : ∀ g, pegWithRep g = true → ItemOK R m len n g g (SimV R m len) :=
      fun g hg i k hi hk lx s ctx W a => (ihN i hi k hk g lx s ctx W hg a).toV
    have ih := fun k hk => ihN n (Nat.le_refl n) k hk
    obtain ⟨k, rfl⟩ : ∃ k', k = k' + 1 := ⟨k - 1, by omega⟩
    have hk' : 2 * n ≤ k := by omega
    have hk1 : 2 * n ≤ k + 1 := by omega
    have hk2 : 2 * n + 1 ≤ k := by omega
    cases g with
    | empty => exact step_empty a
    | one kd => exact step_one ok hp a
    | any ks => exact step_any ok hp a (by simpa [pegWithRep] using hg)
    | anyIndex ks => exact step_anyIndex ok hp a (by simpa [pegWithRep] using hg)
    | seq ks => exact step_seq ok hp a
    | seqCount ks => exact step_seqCount ok hp a
    | pred pe => exact step_pred ok hp a
    | endOfText => exact step_endOfText ok hp a
    | left x y =>
      simp only [pegWithRep, Bool.and_eq_true] at hg
      exact step_left (ih (k + 1) hk1 (.both x y) lx s ctx W (by simp [pegWithRep, hg]) a)
    | right x y =>
      simp only [pegWithRep, Bool.and_eq_true] at hg
      exact step_right (ih (k + 1) hk1 (.both x y) lx s ctx W (by simp [pegWithRep, hg]) a)
    | both x y =>
      simp only [pegWithRep, Bool.and_eq_true] at hg
      exact step_both (ih k hk' x lx s ctx W hg.1 a) (fun lx1 s1 W1 a1 => ih k hk' y lx1 s1 ctx W1 hg.2 a1)
    | center x y z =>
      simp only [pegWithRep, Bool.and_eq_true] at hg
      exact step_center (ih k hk' x lx s ctx W hg.1.1 a) (fun lx1 s1 W1 a1 => ih k hk' y lx1 s1 ctx W1 hg.1.2 a1)
        (fun lx1 s1 W1 a1 => ih k hk' z lx1 s1 ctx W1 hg.2 a1)
    | map x => exact step_map (ih k hk' x lx s ctx W hg a)
    | discard x => exact step_discard (ih k hk' x lx s ctx W hg a)
    | someOf x => exact step_someOf (ih k hk' x lx s ctx W hg a)
    | either x y =>
      simp only [pegWithRep, Bool.and_eq_true] at hg
      exact step_either (ih k hk' x lx s ctx W hg.1 a) (fun W1 => ih k hk' y lx s ctx W1 hg.2 a)
    | maybe x => exact step_maybe a (ih k hk' x lx s _ W hg a)
    | requireIf flag x =>
      exact step_requireIf (ih k hk' x lx s ctx W hg a) (ih k hk' (.maybe x) lx s ctx W hg a)
    | cond flag x => exact step_cond a (ih k hk' x lx s ctx W hg a)
    | implies x y =>
      simp only [pegWithRep, Bool.and_eq_true] at hg
      exact step_implies (ih (k + 1) hk1 (.maybe x) lx s ctx W hg.1 a)
        (fun lx1 s1 W1 a1 => ih k hk' y lx1 s1 ctx W1 hg.2 a1)
    | antecedent x y =>
      simp only [pegWithRep, Bool.and_eq_true] at hg
      exact step_antecedent (ih (k + 1) hk1 (.implies x y) lx s ctx W (by simp [pegWithRep, hg]) a)
    | consequent x y =>
      simp only [pegWithRep, Bool.and_eq_true] at hg
      exact step_consequent (ih (k + 1) hk1 (.implies x y) lx s ctx W (by simp [pegWithRep, hg]) a)
    | condImplies x kd y =>
      simp only [pegWithRep, Bool.and_eq_true] at hg
      exact step_condImplies (ih (k + 1) hk1 (.maybe x) lx s ctx W hg.1 a)
        (fun lx1 s1 W1 a1 => ih k hk' y lx1 s1 ctx W1 hg.2 a1)
    | repeat_ v lo hi x =>
      simp only [pegWithRep, Bool.and_eq_true, Bool.not_eq_true'] at hg
      simp only [run, peg]
      exact countOf_sim (interLoopStart_sim (item x hg.2) (itemV .empty rfl) hg.1 (Nat.le_succ n) hk2 a)
    | intersperse v lo hi x sp =>
      simp only [pegWithRep, Bool.and_eq_true, Bool.not_eq_true'] at hg
      simp only [run, peg]
      exact countOf_sim (interLoopStart_sim (item x hg.1.2) (itemV sp hg.2) hg.1.1 (Nat.le_succ n) hk2 a)
    | intersperseDefault lo hi x sepk =>
      simp only [pegWithRep, Bool.and_eq_true, Bool.not_eq_true'] at hg
      simp only [run, peg]
      exact interLoopStart_sim (item x hg.2) (sepDefault_ok ok hp n sepk) hg.1 (Nat.le_succ n) hk2 a
    | repeatUntil v lo hi st x =>
      simp only [pegWithRep, Bool.and_eq_true, Bool.not_eq_true'] at hg
      simp only [run, peg]
      exact countOf_sim (untilStart_sim (item x hg.2) (itemV .empty rfl) hg.1.1 (itemV st hg.1.2)
        (Nat.le_succ n) hk2 a)
    | intersperseUntil v lo hi st x sp =>
      simp only [pegWithRep, Bool.and_eq_true, Bool.not_eq_true'] at hg
      simp only [run, peg]
      exact countOf_sim (untilStart_sim (item x hg.1.2) (itemV sp hg.2) hg.1.1.1 (itemV st hg.1.1.2)
        (Nat.le_succ n) hk2 a)
    | _ => simp [pegWithRep] at hg

/-! ### witnesses (evaluated) -/

namespace Witness

/-- Text `a b`: token kind 0 at [0,1), whitespace (kind 12) at [1,2), kind 1 at [2,3). -/
def scanW (s : Nat) (_m : Metrics) (p : Pos) : Option (Tok × Pos) × Nat :=
  if p.byte = 0 then (some (⟨0, 0⟩, ⟨1, 0, 1⟩), s)
  else if p.byte = 1 then (some (⟨12, 0⟩, ⟨2, 0, 2⟩), s)
  else if p.byte = 2 then (some (⟨1, 0⟩, ⟨3, 0, 3⟩), s)
  else (none, s)

def EW : LexEnv Nat Tok := ⟨scanW, passesMask, fun _ b => ⟨b, 0, b⟩⟩
def mW : Metrics := ⟨.lf, 4⟩
def RW : RunEnv := ⟨EW, [⟨97, 1, 1⟩, ⟨32, 1, 1⟩, ⟨98, 1, 1⟩]⟩

theorem scanW_ok : ScanOK EW mW 3 := by
  constructor
  · intro s p tok adv s' h
    simp only [EW, scanW] at h
    split at h
    · cases h; simp_all
    · split at h
      · cases h; simp_all
      · split at h
        · cases h; simp_all
        · cases h
  · intro s p h
    simp only [EW, scanW]
    rw [if_neg (by omega), if_neg (by omega), if_neg (by omega)]

theorem passW : PassOK EW := fun _ _ => rfl

def rawW : List (RawTok Tok) :=
  [⟨⟨0, 0⟩, ⟨0, 0, 0⟩, ⟨1, 0, 1⟩⟩, ⟨⟨12, 0⟩, ⟨1, 0, 1⟩, ⟨2, 0, 2⟩⟩, ⟨⟨1, 0⟩, ⟨2, 0, 2⟩, ⟨3, 0, 3⟩⟩]

theorem rawW_eq : rawAt EW mW 3 0 Pos.zero = rawW := by
  simp [rawAt, rawFrom, EW, scanW, rawW, Pos.zero]

/-- the harness's initial lexer with the whitespace filter (mask 1) -/
def lxW : Lx := (Lexer.new 0 mW 3).withFilter EW (some 1)
def sW : PState := ⟨rawW, .eot, some 1⟩
def ctxW : Ctx := ⟨false, [], false⟩

theorem absW : Abs EW mW 3 lxW sW := by
  have := abs_withFilter scanW_ok passW 0 (some 1)
  rw [rawW_eq] at this
  exact this

/-! F27: a temporary filter installed while nothing has been consumed. -/

/-- Text ` a`: whitespace (kind 12) at [0,1), token kind 0 at [1,2). -/
def scanV (s : Nat) (_m : Metrics) (p : Pos) : Option (Tok × Pos) × Nat :=
  if p.byte = 0 then (some (⟨12, 0⟩, ⟨1, 0, 1⟩), s)
  else if p.byte = 1 then (some (⟨0, 0⟩, ⟨2, 0, 2⟩), s)
  else (none, s)

def EV : LexEnv Nat Tok := ⟨scanV, passesMask, fun _ b => ⟨b, 0, b⟩⟩
def RV : RunEnv := ⟨EV, [⟨32, 1, 1⟩, ⟨97, 1, 1⟩]⟩

theorem scanV_ok : ScanOK EV mW 2 := by
  constructor
  · intro s p tok adv s' h
    simp only [EV, scanV] at h
    split at h
    · cases h; simp_all
    · split at h
      · cases h; simp_all
      · cases h
  · intro s p h
    simp only [EV, scanV]
    rw [if_neg (by omega), if_neg (by omega)]

theorem scanV_final : ScanFinal EV mW := by
  constructor
  intro s p s' h
  simp only [EV, scanV] at h ⊢
  split at h
  · cases h
  · split at h
    · cases h
    · next h1 h2 => rw [if_neg h1, if_neg h2]

theorem passV : PassOK EV := fun _ _ => rfl

def rawV : List (RawTok Tok) := [⟨⟨12, 0⟩, ⟨0, 0, 0⟩, ⟨1, 0, 1⟩⟩, ⟨⟨0, 0⟩, ⟨1, 0, 1⟩, ⟨2, 0, 2⟩⟩]

theorem rawV_eq : rawAt EV mW 2 0 Pos.zero = rawV := by
  simp [rawAt, rawFrom, EV, scanV, rawV, Pos.zero]

def sV : PState := ⟨rawV, .eot, none⟩

theorem absV : Abs EV mW 2 (Lexer.new 0 mW 2) sV := by
  have := abs_new (E := EV) (m := mW) (len := 2) 0 passV
  rw [rawV_eq] at this
  exact this

/-- `filter_with(ws-filter, empty)` then `one(ws)`: the reference evaluator takes the
whitespace token, the model has skipped it while the filter was installed. -/
def gV : G := .both (.filterWith 1 .empty) (.one 12)

def isErr : RRes → Bool
  | .err _ => true
  | _ => false

def isOkP : PRes → Bool
  | .ok _ _ => true
  | _ => false

theorem pegV : isOkP (peg RV.text 8 gV sV) = true := by rfl

set_option maxRecDepth 4000 in
theorem runV (ctx : Ctx) (W : World) : isErr (run RV 4 gV (Lexer.new 0 mW 2) ctx W).1 = true := by
  simp [isErr, run, gV, RV, EV, scanV, mW, Lexer.setFilter, Lexer.new, Lexer.bufferNext, Lexer.bufferLoop,
    Lexer.next, Lexer.filtered, passesMask, classOf, Pos.zero]

end Witness

end PegRefine
end Tephra
