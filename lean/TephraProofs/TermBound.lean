/-
  TephraProofs.TermBound — C02, part 4: fuel bounds, constructor by constructor.
  `Term g k`: with any fuel `n ≥ k`, on a well-formed lexer and a consistent
  world, `run R n g` does not run out of fuel.
-/
import TephraProofs.TermLoops

set_option linter.unusedVariables false

namespace Tephra.Term
open Tephra

variable {R : RunEnv} {m : Metrics} {len : Nat} {T : Nat → Rec}

/-- `g` terminates with fuel `k`. -/
def Term (R : RunEnv) (m : Metrics) (len : Nat) (T : Nat → Rec) (g : G) (k : Nat) : Prop :=
  ∀ n, k ≤ n → ∀ lx ctx W, WF m len lx → WOK T W → (run R n g lx ctx W).1 ≠ .fuel

theorem Term.mono {g k k'} (h : Term R m len T g k) (hk : k ≤ k') : Term R m len T g k' :=
  fun n hn => h n (by omega)

macro "term_tac" : tactic => `(tactic|
  (first | done | ((repeat' split) <;> first | (simp; done) | grind [OkC_ok, Consistent])))

theorem seqLoop_ne_fuel (es : Span) : ∀ ks (lx : Lx) acc, seqLoop R es ks lx acc ≠ .fuel := by
  intro ks
  induction ks with
  | nil => intro lx acc; simp [seqLoop]
  | cons k ks ih =>
    intro lx acc
    simp only [seqLoop]
    repeat' split
    all_goals first | exact ih _ _ | simp

theorem seqCountLoop_ne_fuel (es : Span) : ∀ ks (lx : Lx) c, seqCountLoop R es ks lx c ≠ .fuel := by
  intro ks
  induction ks with
  | nil => intro lx c; simp [seqCountLoop]
  | cons k ks ih =>
    intro lx c
    simp only [seqCountLoop]
    repeat' split
    all_goals first | exact ih _ _ | simp

theorem term_seq {ks} : Term R m len T (.seq ks) 1 := by
  intro n hn lx ctx W wf hw
  obtain ⟨n', rfl⟩ : ∃ n', n = n' + 1 := ⟨n - 1, by omega⟩
  simp only [run]
  exact seqLoop_ne_fuel _ _ _ _

theorem term_seqCount {ks} : Term R m len T (.seqCount ks) 1 := by
  intro n hn lx ctx W wf hw
  obtain ⟨n', rfl⟩ : ∃ n', n = n' + 1 := ⟨n - 1, by omega⟩
  simp only [run]
  exact seqCountLoop_ne_fuel _ _ _ _

theorem term_empty (ok : ScanOK R.E m len)  :
    Term R m len T (.empty ) (1) := by
  intro n hn lx ctx W wf hw
  obtain ⟨n', rfl⟩ : ∃ n', n = n' + 1 := ⟨n - 1, by omega⟩
  have hC := (cur_all ok n').run
  have hW := (wok_all (R := R) (T := T) n').run
  obtain ⟨f1, f2, f3, f4, f5, f6⟩ := lexFacts ok
  simp only [run]
  term_tac

theorem term_one (ok : ScanOK R.E m len) {k} :
    Term R m len T (.one k) (1) := by
  intro n hn lx ctx W wf hw
  obtain ⟨n', rfl⟩ : ∃ n', n = n' + 1 := ⟨n - 1, by omega⟩
  have hC := (cur_all ok n').run
  have hW := (wok_all (R := R) (T := T) n').run
  obtain ⟨f1, f2, f3, f4, f5, f6⟩ := lexFacts ok
  simp only [run]
  term_tac

theorem term_any (ok : ScanOK R.E m len) {ks} :
    Term R m len T (.any ks) (1) := by
  intro n hn lx ctx W wf hw
  obtain ⟨n', rfl⟩ : ∃ n', n = n' + 1 := ⟨n - 1, by omega⟩
  have hC := (cur_all ok n').run
  have hW := (wok_all (R := R) (T := T) n').run
  obtain ⟨f1, f2, f3, f4, f5, f6⟩ := lexFacts ok
  simp only [run]
  term_tac

theorem term_anyIndex (ok : ScanOK R.E m len) {ks} :
    Term R m len T (.anyIndex ks) (1) := by
  intro n hn lx ctx W wf hw
  obtain ⟨n', rfl⟩ : ∃ n', n = n' + 1 := ⟨n - 1, by omega⟩
  have hC := (cur_all ok n').run
  have hW := (wok_all (R := R) (T := T) n').run
  obtain ⟨f1, f2, f3, f4, f5, f6⟩ := lexFacts ok
  simp only [run]
  term_tac

theorem term_pred (ok : ScanOK R.E m len) {p} :
    Term R m len T (.pred p) (1) := by
  intro n hn lx ctx W wf hw
  obtain ⟨n', rfl⟩ : ∃ n', n = n' + 1 := ⟨n - 1, by omega⟩
  have hC := (cur_all ok n').run
  have hW := (wok_all (R := R) (T := T) n').run
  obtain ⟨f1, f2, f3, f4, f5, f6⟩ := lexFacts ok
  simp only [run]
  term_tac

theorem term_endOfText (ok : ScanOK R.E m len)  :
    Term R m len T (.endOfText ) (1) := by
  intro n hn lx ctx W wf hw
  obtain ⟨n', rfl⟩ : ∃ n', n = n' + 1 := ⟨n - 1, by omega⟩
  have hC := (cur_all ok n').run
  have hW := (wok_all (R := R) (T := T) n').run
  obtain ⟨f1, f2, f3, f4, f5, f6⟩ := lexFacts ok
  simp only [run]
  term_tac

theorem term_probe (ok : ScanOK R.E m len) {tag} :
    Term R m len T (.probe tag) (1) := by
  intro n hn lx ctx W wf hw
  obtain ⟨n', rfl⟩ : ∃ n', n = n' + 1 := ⟨n - 1, by omega⟩
  have hC := (cur_all ok n').run
  have hW := (wok_all (R := R) (T := T) n').run
  obtain ⟨f1, f2, f3, f4, f5, f6⟩ := lexFacts ok
  simp only [run]
  term_tac

theorem term_left (ok : ScanOK R.E m len) {a b} {k0} (hc0 : Consistent T (.both a b)) (ht0 : Term R m len T (.both a b) k0) :
    Term R m len T (.left a b) (k0 + 1) := by
  intro n hn lx ctx W wf hw
  obtain ⟨n', rfl⟩ : ∃ n', n = n' + 1 := ⟨n - 1, by omega⟩
  have hC := (cur_all ok n').run
  have hW := (wok_all (R := R) (T := T) n').run
  have ht0' := ht0 n' (by omega)
  obtain ⟨f1, f2, f3, f4, f5, f6⟩ := lexFacts ok
  simp only [run]
  term_tac

theorem term_right (ok : ScanOK R.E m len) {a b} {k0} (hc0 : Consistent T (.both a b)) (ht0 : Term R m len T (.both a b) k0) :
    Term R m len T (.right a b) (k0 + 1) := by
  intro n hn lx ctx W wf hw
  obtain ⟨n', rfl⟩ : ∃ n', n = n' + 1 := ⟨n - 1, by omega⟩
  have hC := (cur_all ok n').run
  have hW := (wok_all (R := R) (T := T) n').run
  have ht0' := ht0 n' (by omega)
  obtain ⟨f1, f2, f3, f4, f5, f6⟩ := lexFacts ok
  simp only [run]
  term_tac

theorem term_both (ok : ScanOK R.E m len) {a b} {k0 k1} (hc0 : Consistent T a) (ht0 : Term R m len T a k0) (hc1 : Consistent T b) (ht1 : Term R m len T b k1) :
    Term R m len T (.both a b) (k0 + k1 + 1) := by
  intro n hn lx ctx W wf hw
  obtain ⟨n', rfl⟩ : ∃ n', n = n' + 1 := ⟨n - 1, by omega⟩
  have hC := (cur_all ok n').run
  have hW := (wok_all (R := R) (T := T) n').run
  have ht0' := ht0 n' (by omega)
  have ht1' := ht1 n' (by omega)
  obtain ⟨f1, f2, f3, f4, f5, f6⟩ := lexFacts ok
  simp only [run]
  term_tac

theorem term_center (ok : ScanOK R.E m len) {a b c} {k0 k1 k2} (hc0 : Consistent T a) (ht0 : Term R m len T a k0) (hc1 : Consistent T b) (ht1 : Term R m len T b k1) (hc2 : Consistent T c) (ht2 : Term R m len T c k2) :
    Term R m len T (.center a b c) (k0 + k1 + k2 + 1) := by
  intro n hn lx ctx W wf hw
  obtain ⟨n', rfl⟩ : ∃ n', n = n' + 1 := ⟨n - 1, by omega⟩
  have hC := (cur_all ok n').run
  have hW := (wok_all (R := R) (T := T) n').run
  have ht0' := ht0 n' (by omega)
  have ht1' := ht1 n' (by omega)
  have ht2' := ht2 n' (by omega)
  obtain ⟨f1, f2, f3, f4, f5, f6⟩ := lexFacts ok
  simp only [run]
  term_tac

theorem term_map (ok : ScanOK R.E m len) {a} {k0} (hc0 : Consistent T a) (ht0 : Term R m len T a k0) :
    Term R m len T (.map a) (k0 + 1) := by
  intro n hn lx ctx W wf hw
  obtain ⟨n', rfl⟩ : ∃ n', n = n' + 1 := ⟨n - 1, by omega⟩
  have hC := (cur_all ok n').run
  have hW := (wok_all (R := R) (T := T) n').run
  have ht0' := ht0 n' (by omega)
  obtain ⟨f1, f2, f3, f4, f5, f6⟩ := lexFacts ok
  simp only [run]
  term_tac

theorem term_discard (ok : ScanOK R.E m len) {a} {k0} (hc0 : Consistent T a) (ht0 : Term R m len T a k0) :
    Term R m len T (.discard a) (k0 + 1) := by
  intro n hn lx ctx W wf hw
  obtain ⟨n', rfl⟩ : ∃ n', n = n' + 1 := ⟨n - 1, by omega⟩
  have hC := (cur_all ok n').run
  have hW := (wok_all (R := R) (T := T) n').run
  have ht0' := ht0 n' (by omega)
  obtain ⟨f1, f2, f3, f4, f5, f6⟩ := lexFacts ok
  simp only [run]
  term_tac

theorem term_either (ok : ScanOK R.E m len) {a b} {k0 k1} (hc0 : Consistent T a) (ht0 : Term R m len T a k0) (hc1 : Consistent T b) (ht1 : Term R m len T b k1) :
    Term R m len T (.either a b) (k0 + k1 + 1) := by
  intro n hn lx ctx W wf hw
  obtain ⟨n', rfl⟩ : ∃ n', n = n' + 1 := ⟨n - 1, by omega⟩
  have hC := (cur_all ok n').run
  have hW := (wok_all (R := R) (T := T) n').run
  have ht0' := ht0 n' (by omega)
  have ht1' := ht1 n' (by omega)
  obtain ⟨f1, f2, f3, f4, f5, f6⟩ := lexFacts ok
  simp only [run]
  term_tac

theorem term_maybe (ok : ScanOK R.E m len) {a} {k0} (hc0 : Consistent T a) (ht0 : Term R m len T a k0) :
    Term R m len T (.maybe a) (k0 + 1) := by
  intro n hn lx ctx W wf hw
  obtain ⟨n', rfl⟩ : ∃ n', n = n' + 1 := ⟨n - 1, by omega⟩
  have hC := (cur_all ok n').run
  have hW := (wok_all (R := R) (T := T) n').run
  have ht0' := ht0 n' (by omega)
  obtain ⟨f1, f2, f3, f4, f5, f6⟩ := lexFacts ok
  simp only [run]
  term_tac

theorem term_unrecoverable (ok : ScanOK R.E m len) {a} {k0} (hc0 : Consistent T a) (ht0 : Term R m len T a k0) :
    Term R m len T (.unrecoverable a) (k0 + 1) := by
  intro n hn lx ctx W wf hw
  obtain ⟨n', rfl⟩ : ∃ n', n = n' + 1 := ⟨n - 1, by omega⟩
  have hC := (cur_all ok n').run
  have hW := (wok_all (R := R) (T := T) n').run
  have ht0' := ht0 n' (by omega)
  obtain ⟨f1, f2, f3, f4, f5, f6⟩ := lexFacts ok
  simp only [run]
  term_tac

theorem term_raw (ok : ScanOK R.E m len) {a} {k0} (hc0 : Consistent T a) (ht0 : Term R m len T a k0) :
    Term R m len T (.raw a) (k0 + 1) := by
  intro n hn lx ctx W wf hw
  obtain ⟨n', rfl⟩ : ∃ n', n = n' + 1 := ⟨n - 1, by omega⟩
  have hC := (cur_all ok n').run
  have hW := (wok_all (R := R) (T := T) n').run
  have ht0' := ht0 n' (by omega)
  obtain ⟨f1, f2, f3, f4, f5, f6⟩ := lexFacts ok
  simp only [run]
  term_tac

theorem term_requireIf (ok : ScanOK R.E m len) {flag a} {k0 k1} (hc0 : Consistent T a) (ht0 : Term R m len T a k0) (hc1 : Consistent T (.maybe a)) (ht1 : Term R m len T (.maybe a) k1) :
    Term R m len T (.requireIf flag a) (k0 + k1 + 1) := by
  intro n hn lx ctx W wf hw
  obtain ⟨n', rfl⟩ : ∃ n', n = n' + 1 := ⟨n - 1, by omega⟩
  have hC := (cur_all ok n').run
  have hW := (wok_all (R := R) (T := T) n').run
  have ht0' := ht0 n' (by omega)
  have ht1' := ht1 n' (by omega)
  obtain ⟨f1, f2, f3, f4, f5, f6⟩ := lexFacts ok
  simp only [run]
  term_tac

theorem term_cond (ok : ScanOK R.E m len) {flag a} {k0} (hc0 : Consistent T a) (ht0 : Term R m len T a k0) :
    Term R m len T (.cond flag a) (k0 + 1) := by
  intro n hn lx ctx W wf hw
  obtain ⟨n', rfl⟩ : ∃ n', n = n' + 1 := ⟨n - 1, by omega⟩
  have hC := (cur_all ok n').run
  have hW := (wok_all (R := R) (T := T) n').run
  have ht0' := ht0 n' (by omega)
  obtain ⟨f1, f2, f3, f4, f5, f6⟩ := lexFacts ok
  simp only [run]
  term_tac

theorem term_implies (ok : ScanOK R.E m len) {a b} {k0 k1} (hc0 : Consistent T (.maybe a)) (ht0 : Term R m len T (.maybe a) k0) (hc1 : Consistent T b) (ht1 : Term R m len T b k1) :
    Term R m len T (.implies a b) (k0 + k1 + 1) := by
  intro n hn lx ctx W wf hw
  obtain ⟨n', rfl⟩ : ∃ n', n = n' + 1 := ⟨n - 1, by omega⟩
  have hC := (cur_all ok n').run
  have hW := (wok_all (R := R) (T := T) n').run
  have ht0' := ht0 n' (by omega)
  have ht1' := ht1 n' (by omega)
  obtain ⟨f1, f2, f3, f4, f5, f6⟩ := lexFacts ok
  simp only [run]
  term_tac

theorem term_antecedent (ok : ScanOK R.E m len) {a b} {k0} (hc0 : Consistent T (.implies a b)) (ht0 : Term R m len T (.implies a b) k0) :
    Term R m len T (.antecedent a b) (k0 + 1) := by
  intro n hn lx ctx W wf hw
  obtain ⟨n', rfl⟩ : ∃ n', n = n' + 1 := ⟨n - 1, by omega⟩
  have hC := (cur_all ok n').run
  have hW := (wok_all (R := R) (T := T) n').run
  have ht0' := ht0 n' (by omega)
  obtain ⟨f1, f2, f3, f4, f5, f6⟩ := lexFacts ok
  simp only [run]
  term_tac

theorem term_consequent (ok : ScanOK R.E m len) {a b} {k0} (hc0 : Consistent T (.implies a b)) (ht0 : Term R m len T (.implies a b) k0) :
    Term R m len T (.consequent a b) (k0 + 1) := by
  intro n hn lx ctx W wf hw
  obtain ⟨n', rfl⟩ : ∃ n', n = n' + 1 := ⟨n - 1, by omega⟩
  have hC := (cur_all ok n').run
  have hW := (wok_all (R := R) (T := T) n').run
  have ht0' := ht0 n' (by omega)
  obtain ⟨f1, f2, f3, f4, f5, f6⟩ := lexFacts ok
  simp only [run]
  term_tac

theorem term_condImplies (ok : ScanOK R.E m len) {a k b} {k0 k1} (hc0 : Consistent T (.maybe a)) (ht0 : Term R m len T (.maybe a) k0) (hc1 : Consistent T b) (ht1 : Term R m len T b k1) :
    Term R m len T (.condImplies a k b) (k0 + k1 + 1) := by
  intro n hn lx ctx W wf hw
  obtain ⟨n', rfl⟩ : ∃ n', n = n' + 1 := ⟨n - 1, by omega⟩
  have hC := (cur_all ok n').run
  have hW := (wok_all (R := R) (T := T) n').run
  have ht0' := ht0 n' (by omega)
  have ht1' := ht1 n' (by omega)
  obtain ⟨f1, f2, f3, f4, f5, f6⟩ := lexFacts ok
  simp only [run]
  term_tac

theorem term_filterWith (ok : ScanOK R.E m len) {mask a} {k0} (hc0 : Consistent T a) (ht0 : Term R m len T a k0) :
    Term R m len T (.filterWith mask a) (k0 + 1) := by
  intro n hn lx ctx W wf hw
  obtain ⟨n', rfl⟩ : ∃ n', n = n' + 1 := ⟨n - 1, by omega⟩
  have hC := (cur_all ok n').run
  have hW := (wok_all (R := R) (T := T) n').run
  have ht0' := ht0 n' (by omega)
  obtain ⟨f1, f2, f3, f4, f5, f6⟩ := lexFacts ok
  simp only [run]
  term_tac

theorem term_unfiltered (ok : ScanOK R.E m len) {a} {k0} (hc0 : Consistent T a) (ht0 : Term R m len T a k0) :
    Term R m len T (.unfiltered a) (k0 + 1) := by
  intro n hn lx ctx W wf hw
  obtain ⟨n', rfl⟩ : ∃ n', n = n' + 1 := ⟨n - 1, by omega⟩
  have hC := (cur_all ok n').run
  have hW := (wok_all (R := R) (T := T) n').run
  have ht0' := ht0 n' (by omega)
  obtain ⟨f1, f2, f3, f4, f5, f6⟩ := lexFacts ok
  simp only [run]
  term_tac

theorem term_sub (ok : ScanOK R.E m len) {a} {k0} (hc0 : Consistent T a) (ht0 : Term R m len T a k0) :
    Term R m len T (.sub a) (k0 + 1) := by
  intro n hn lx ctx W wf hw
  obtain ⟨n', rfl⟩ : ∃ n', n = n' + 1 := ⟨n - 1, by omega⟩
  have hC := (cur_all ok n').run
  have hW := (wok_all (R := R) (T := T) n').run
  have ht0' := ht0 n' (by omega)
  obtain ⟨f1, f2, f3, f4, f5, f6⟩ := lexFacts ok
  simp only [run]
  term_tac

theorem term_spanned (ok : ScanOK R.E m len) {a} {k0} (hc0 : Consistent T a) (ht0 : Term R m len T a k0) :
    Term R m len T (.spanned a) (k0 + 1) := by
  intro n hn lx ctx W wf hw
  obtain ⟨n', rfl⟩ : ∃ n', n = n' + 1 := ⟨n - 1, by omega⟩
  have hC := (cur_all ok n').run
  have hW := (wok_all (R := R) (T := T) n').run
  have ht0' := ht0 n' (by omega)
  obtain ⟨f1, f2, f3, f4, f5, f6⟩ := lexFacts ok
  simp only [run]
  term_tac

theorem term_text (ok : ScanOK R.E m len) {a} {k0} (hc0 : Consistent T a) (ht0 : Term R m len T a k0) :
    Term R m len T (.text a) (k0 + 1) := by
  intro n hn lx ctx W wf hw
  obtain ⟨n', rfl⟩ : ∃ n', n = n' + 1 := ⟨n - 1, by omega⟩
  have hC := (cur_all ok n').run
  have hW := (wok_all (R := R) (T := T) n').run
  have ht0' := ht0 n' (by omega)
  obtain ⟨f1, f2, f3, f4, f5, f6⟩ := lexFacts ok
  simp only [run]
  term_tac

theorem term_upTo (ok : ScanOK R.E m len) {a abort} {k0} (hc0 : Consistent T a) (ht0 : Term R m len T a k0) :
    Term R m len T (.upTo a abort) (k0 + 1) := by
  intro n hn lx ctx W wf hw
  obtain ⟨n', rfl⟩ : ∃ n', n = n' + 1 := ⟨n - 1, by omega⟩
  have hC := (cur_all ok n').run
  have hW := (wok_all (R := R) (T := T) n').run
  have ht0' := ht0 n' (by omega)
  obtain ⟨f1, f2, f3, f4, f5, f6⟩ := lexFacts ok
  simp only [run]
  term_tac

theorem term_ctxPushed (ok : ScanOK R.E m len) {tag a} {k0} (hc0 : Consistent T a) (ht0 : Term R m len T a k0) :
    Term R m len T (.ctxPushed tag a) (k0 + 1) := by
  intro n hn lx ctx W wf hw
  obtain ⟨n', rfl⟩ : ∃ n', n = n' + 1 := ⟨n - 1, by omega⟩
  have hC := (cur_all ok n').run
  have hW := (wok_all (R := R) (T := T) n').run
  have ht0' := ht0 n' (by omega)
  obtain ⟨f1, f2, f3, f4, f5, f6⟩ := lexFacts ok
  simp only [run]
  term_tac

theorem term_ctxPush (ok : ScanOK R.E m len) {tag a} {k0} (hc0 : Consistent T a) (ht0 : Term R m len T a k0) :
    Term R m len T (.ctxPush tag a) (k0 + 1) := by
  intro n hn lx ctx W wf hw
  obtain ⟨n', rfl⟩ : ∃ n', n = n' + 1 := ⟨n - 1, by omega⟩
  have hC := (cur_all ok n').run
  have hW := (wok_all (R := R) (T := T) n').run
  have ht0' := ht0 n' (by omega)
  obtain ⟨f1, f2, f3, f4, f5, f6⟩ := lexFacts ok
  simp only [run]
  term_tac

theorem term_ctxLocked (ok : ScanOK R.E m len) {flag a} {k0} (hc0 : Consistent T a) (ht0 : Term R m len T a k0) :
    Term R m len T (.ctxLocked flag a) (k0 + 1) := by
  intro n hn lx ctx W wf hw
  obtain ⟨n', rfl⟩ : ∃ n', n = n' + 1 := ⟨n - 1, by omega⟩
  have hC := (cur_all ok n').run
  have hW := (wok_all (R := R) (T := T) n').run
  have ht0' := ht0 n' (by omega)
  obtain ⟨f1, f2, f3, f4, f5, f6⟩ := lexFacts ok
  simp only [run]
  term_tac

theorem term_someOf (ok : ScanOK R.E m len) {a} {k0} (hc0 : Consistent T a) (ht0 : Term R m len T a k0) :
    Term R m len T (.someOf a) (k0 + 1) := by
  intro n hn lx ctx W wf hw
  obtain ⟨n', rfl⟩ : ∃ n', n = n' + 1 := ⟨n - 1, by omega⟩
  have hC := (cur_all ok n').run
  have hW := (wok_all (R := R) (T := T) n').run
  have ht0' := ht0 n' (by omega)
  obtain ⟨f1, f2, f3, f4, f5, f6⟩ := lexFacts ok
  simp only [run]
  term_tac


/-! ### `recover_default`, `recover_option` -/

theorem recoverDefault_term (_ok : ScanOK R.E m len) {body : G} {k : Nat} (_hc : Consistent T body)
    (ht : Term R m len T body k) {dv : Val} {id : Nat} {r : Rec} (hT : T id = r) :
    ∀ n, k + 1 ≤ n → ∀ lx ctx W, WF m len lx → WOK T W → (recoverDefault R n dv id r body lx ctx W).1 ≠ .fuel := by
  intro n hn lx ctx W wf hw
  obtain ⟨n', rfl⟩ : ∃ n', n = n' + 1 := ⟨n - 1, by omega⟩
  have hreg := WOK_register hw hT
  have ht' := ht n' (by omega) lx ctx _ wf hreg
  simp only [recoverDefault]
  term_tac

theorem term_recover (ok : ScanOK R.E m len) {v id a r k} (hc : Consistent T a) (hT : T id = r)
    (ht : Term R m len T a k) : Term R m len T (.recover v id a r) (k + 3) := by
  intro n hn lx ctx W wf hw
  obtain ⟨n', rfl⟩ : ∃ n', n = n' + 1 := ⟨n - 1, by omega⟩
  simp only [run]
  split
  · exact recoverDefault_term ok (by simpa [Consistent] using hc) (term_someOf ok hc ht) hT n' (by omega) lx ctx W wf hw
  · exact recoverDefault_term ok hc ht hT n' (by omega) lx ctx W wf hw

/-! ### `stabilize` -/

theorem term_stabilize (ok : ScanOK R.E m len) {a k} (hc : Consistent T a) (ht : Term R m len T a k) :
    Term R m len T (.stabilize a) (k + len + 3) := by
  intro n hn lx ctx W wf hw
  obtain ⟨n', rfl⟩ : ∃ n', n = n' + 1 := ⟨n - 1, by omega⟩
  simp only [run]
  have h1 := ht n' (by omega) lx ctx W wf hw
  have hw1 := (wok_all (R := R) (T := T) n').run a lx ctx W hc hw
  have hu := term_unrecoverable ok hc ht
  exact stabLoop_terminates ok hc (fun lx1 W1 wf1 hw1 => hu (k + 1) (Nat.le_refl _) lx1 ctx W1 wf1 hw1)
    (len - lx.cursor.byte) lx _ _ wf hw1 (Nat.le_refl _) h1 n' (by omega)

/-! ### `bracket` -/

theorem term_bracket (ok : ScanOK R.E m len) {v opens a closes abort k} (hc : Consistent T a)
    (ht : Term R m len T a k) : Term R m len T (.bracket v opens a closes abort) (k + 2) := by
  intro n hn lx ctx W wf hw
  obtain ⟨n', rfl⟩ : ∃ n', n = n' + 1 := ⟨n - 1, by omega⟩
  obtain ⟨f1, f2, f3, f4, f5, f6⟩ := lexFacts ok
  simp only [run]
  split
  · simp
  · have hml := matchLoop_terminates ok opens closes abort (Span.at_ lx.cursor) (lx.len + 2) lx none [] wf
      (by have := wf.hlen; omega)
    split
    · next hf => exact absurd hf hml
    · simp
    · simp
    · next o c idx hm =>
      have hm' := matchLoop_cur ok opens closes abort _ lx _ lx none [] o c idx wf (Nat.le_refl _)
        (fun l hl => nomatch hl) hm
      have wfi : WF m len ((o.next R.E).2.intoSublexer R.E) := (f4 _ (f1 o hm'.1).1).1
      have hb : (run R n' (if (v % 2 == 0) = true then a.someOf else a) ((o.next R.E).2.intoSublexer R.E) ctx W).1 ≠
          .fuel := by
        split
        · exact term_someOf ok hc ht n' (by omega) _ ctx W wfi hw
        · exact ht n' (by omega) _ ctx W wfi hw
      (repeat' split) <;> first | (simp; done) | exact hb | (simp_all; done)


/-! ### `list` -/

theorem listFinish_ne_fuel {ctx lo hi} {lexer : Lx} {vals W} : (listFinish ctx lo hi lexer vals W).1 ≠ .fuel := by
  unfold listFinish
  repeat' split
  all_goals simp

theorem term_listItem (ok : ScanOK R.E m len) {v a sep abort k} (hc : Consistent T a) (ht : Term R m len T a k) :
    Term R m len T (listItem v a sep abort) (k + 2) := by
  unfold listItem
  split
  · exact term_upTo ok (by simpa [Consistent] using hc) (term_someOf ok hc ht)
  · exact (term_upTo ok hc ht).mono (by omega)

theorem listLoop_term (ok : ScanOK R.E m len) {v id lo : Nat} {hi : Option Nat} {a : G} {sep : Nat}
    {abort : List Nat} {ctx : Ctx} {k : Nat} (hc : Consistent T a) (hT : T id = .sepOrAbort sep abort)
    (ht : Term R m len T a k) :
    ∀ d (lexer : Lx) W vals, WF m len lexer → WOK T W → len - lexer.cursor.byte ≤ d →
      ∀ n, d + (k + len + 7) ≤ n → (listLoop R n v id lo hi a sep abort lexer ctx W vals).1 ≠ .fuel := by
  intro d
  induction d using Nat.strongRecOn with
  | _ d ih =>
  intro lexer W vals wf hw hd n hn
  obtain ⟨n', rfl⟩ : ∃ n', n = n' + 1 := ⟨n - 1, by omega⟩
  obtain ⟨f1, f2, f3, f4, f5, f6⟩ := lexFacts ok
  have hci := listItem_consistent (T := T) (v := v) (sep := sep) (abort := abort) hc
  have hti := term_listItem (v := v) (sep := sep) (abort := abort) ok hc ht
  rw [listLoop_succ]
  have hp := f2 lexer wf
  split
  · exact listFinish_ne_fuel
  · next tok lexer' heq =>
    simp only [heq] at hp
    split
    · split
      · exact listFinish_ne_fuel
      · have hst := term_stabilize ok (a := .maybe (listItem v a sep abort)) (by simpa [Consistent] using hci)
          (term_maybe ok hci hti) n' (by omega) lexer' ctx W hp.1 hw
        split
        · exact listFinish_ne_fuel
        · exact listFinish_ne_fuel
        · exact hst
    · have hrd := recoverDefault_term ok hci hti (dv := listDv v) hT n' (by omega) lexer' ctx W hp.1 hw
      have hwrd := (wok_all (R := R) (T := T) n').recoverDefault (listDv v) id (.sepOrAbort sep abort)
        (listItem v a sep abort) lexer' ctx W hT hci hw
      have hsv := stabValue_terminates ok (ctx := ctx) (dv := listDv v) hT hci
        (fun lx1 W1 wf1 hw1 => recoverDefault_term ok hci hti hT (k + 3) (by omega) lx1 _ W1 wf1 hw1)
        (len - lexer'.cursor.byte) lexer' _ _ hp.1 hwrd (Nat.le_refl _) hrd n' (by omega)
      have hcsv := (cur_all ok n').stabValue (listDv v) id (.sepOrAbort sep abort) (listItem v a sep abort) lexer' ctx
        _ _ hp.1 ((cur_all ok n').recoverDefault (listDv v) id (.sepOrAbort sep abort) (listItem v a sep abort) lexer' ctx W hp.1)
      have hwsv := (wok_all (R := R) (T := T) n').stabValue (listDv v) id (.sepOrAbort sep abort)
        (listItem v a sep abort) lexer' ctx
        (recoverDefault R n' (listDv v) id (.sepOrAbort sep abort) (listItem v a sep abort) lexer' ctx W).1 _ hT hci hwrd
      split
      · next x lexer1 W1 hs =>
        rw [hs] at hcsv hwsv
        simp only [OkC_ok] at hcsv
        have hp1 := f2 lexer1 hcsv.1
        split
        · exact listFinish_ne_fuel
        · split
          · exact listFinish_ne_fuel
          · next t2 lexer2 heq2 =>
            simp only [heq2] at hp1
            split
            · exact listFinish_ne_fuel
            · next hab =>
              split
              · exact listFinish_ne_fuel
              · have htd : Term R m len T (.discard (.one sep)) 2 :=
                  term_discard ok (by simp [Consistent]) (term_one ok)
                have hr2 := recoverDefault_term ok (by simp [Consistent]) htd (dv := .dflt) hT n' (by omega)
                  lexer2 ctx W1 hp1.1 hwsv
                have hc2 := (cur_all ok n').recoverDefault .dflt id (.sepOrAbort sep abort) (.discard (.one sep))
                  lexer2 ctx W1 hp1.1
                have hw2 := (wok_all (R := R) (T := T) n').recoverDefault .dflt id (.sepOrAbort sep abort)
                  (.discard (.one sep)) lexer2 ctx W1 hT (by simp [Consistent]) hwsv
                split
                · next v3 lexer3 W2 heq3 =>
                  have hprog := sep_progress ok hcsv.1 hwsv hT heq2 hab heq3
                  rw [heq3] at hc2 hw2
                  simp only [OkC_ok] at hc2
                  have hsub := f4 lexer3 hc2.1
                  have hcur := hsub.1.cur
                  exact ih (d - 1) (by omega) _ W2 _ hsub.1 hw2 (by omega) n' (by omega)
                · exact hr2
      · exact hsv

theorem term_list (ok : ScanOK R.E m len) {v id lo hi a sep abort k} (hc : Consistent T a)
    (hT : T id = .sepOrAbort sep abort) (ht : Term R m len T a k) :
    Term R m len T (.list v id lo hi a sep abort) (k + 2 * len + 8) := by
  intro n hn lx ctx W wf hw
  obtain ⟨n', rfl⟩ : ∃ n', n = n' + 1 := ⟨n - 1, by omega⟩
  simp only [run]
  have hl := fun lo hi => listLoop_term (v := v) (lo := lo) (hi := hi) (ctx := ctx) ok hc hT ht (len - lx.cursor.byte)
    lx W [] wf hw (Nat.le_refl _) n' (by omega)
  (repeat' split) <;> first | (simp; done) | exact hl _ _


/-! ### repetition, under the hypothesis of the property: the repeated parser consumes input -/

/-- `a` consumes at least one token whenever it succeeds. -/
def Prog (R : RunEnv) (m : Metrics) (len : Nat) (a : G) : Prop :=
  ∀ n (lx : Lx) ctx W v lx', WF m len lx → (run R n a lx ctx W).1 = .ok v lx' → lx.cursor.byte < lx'.cursor.byte

theorem countOf_ne_fuel {v : Nat} {r : RRes × World} (h : r.1 ≠ .fuel) : (countOf v r).1 ≠ .fuel := by
  unfold countOf
  split
  · exact h
  · split
    · simp
    · exact h

theorem sepItem_term (ok : ScanOK R.E m len) {a sep ka ks} (hcs : Consistent T sep)
    (hta : Term R m len T a ka) (hts : Term R m len T sep ks) :
    ∀ n, ka + ks + 1 ≤ n → ∀ lx ctx W, WF m len lx → WOK T W → (sepItem R n a sep lx ctx W).1 ≠ .fuel := by
  intro n hn lx ctx W wf hw
  obtain ⟨n', rfl⟩ : ∃ n', n = n' + 1 := ⟨n - 1, by omega⟩
  have hC := (cur_all ok n').run
  have hW := (wok_all (R := R) (T := T) n').run
  have hta' := hta n' (by omega)
  have hts' := hts n' (by omega)
  simp only [sepItem]
  term_tac

theorem sepItem_prog (ok : ScanOK R.E m len) {a sep} (hp : Prog R m len a) :
    ∀ n (lx : Lx) ctx W v lx' W', WF m len lx → sepItem R n a sep lx ctx W = (.ok v lx', W') →
      lx.cursor.byte < lx'.cursor.byte := by
  intro n lx ctx W v lx' W' wf h
  cases n with
  | zero => simp [sepItem] at h
  | succ n' =>
    simp only [sepItem] at h
    split at h
    · next v1 lx1 W1 heq =>
      have h1 := (cur_all ok n').run sep lx ctx W wf v1 lx1 (by rw [heq])
      have := hp n' lx1 ctx W1 v lx' h1.1 (by rw [h])
      omega
    · next hn =>
      exact absurd h (hn _ _ _)

theorem interLoop_term (ok : ScanOK R.E m len) {lo hi a sep ctx ka ks} (hca : Consistent T a) (hcs : Consistent T sep)
    (hta : Term R m len T a ka) (hts : Term R m len T sep ks) (hp : Prog R m len a) :
    ∀ d (lx : Lx) vals W, WF m len lx → WOK T W → len - lx.cursor.byte ≤ d →
      ∀ n, d + (ka + ks + 3) ≤ n → (interLoop R n lo hi a sep vals lx ctx W).1 ≠ .fuel := by
  intro d
  induction d using Nat.strongRecOn with
  | _ d ih =>
  intro lx vals W wf hw hd n hn
  obtain ⟨n', rfl⟩ : ∃ n', n = n' + 1 := ⟨n - 1, by omega⟩
  have hsi := sepItem_term ok hcs hta hts n' (by omega) lx ctx W wf hw
  have hcsi := (cur_all ok n').sepItem a sep lx ctx W wf
  have hwsi := (wok_all (R := R) (T := T) n').sepItem a sep lx ctx W hca hcs hw
  have step : ∀ v lx1 W1 vals', sepItem R n' a sep lx ctx W = (.ok v lx1, W1) →
      (interLoop R n' lo hi a sep vals' lx1 ctx W1).1 ≠ .fuel := by
    intro v lx1 W1 vals' heq
    have hpr := sepItem_prog ok hp n' lx ctx W v lx1 W1 wf heq
    rw [heq] at hcsi hwsi
    simp only [OkC_ok] at hcsi
    have := hcsi.1.cur
    exact ih (d - 1) (by omega) lx1 vals' W1 hcsi.1 hwsi (by omega) n' (by omega)
  simp only [interLoop]
  split
  · split
    · next heq => exact step _ _ _ _ heq
    · exact hsi
  · split
    · split
      · next heq =>
        split
        · simp
        · exact step _ _ _ _ heq
      · simp
      · exact hsi
    · simp

theorem interLoopStart_term (ok : ScanOK R.E m len) {lo hi a sep ka ks} (hca : Consistent T a)
    (hcs : Consistent T sep) (hta : Term R m len T a ka) (hts : Term R m len T sep ks) (hp : Prog R m len a) :
    ∀ n, len + ka + ks + 4 ≤ n → ∀ lx ctx W, WF m len lx → WOK T W →
      (interLoopStart R n lo hi a sep lx ctx W).1 ≠ .fuel := by
  intro n hn lx ctx W wf hw
  obtain ⟨n', rfl⟩ : ∃ n', n = n' + 1 := ⟨n - 1, by omega⟩
  have h1 := hta n' (by omega) lx ctx W wf hw
  have hc1 := (cur_all ok n').run a lx ctx W wf
  have hw1 := (wok_all (R := R) (T := T) n').run a lx ctx W hca hw
  simp only [interLoopStart]
  split
  · simp
  · split
    · simp
    · split
      · next v lx1 W1 heq =>
        rw [heq] at hc1 hw1
        simp only [OkC_ok] at hc1
        exact interLoop_term ok hca hcs hta hts hp (len - lx1.cursor.byte) lx1 _ W1 hc1.1 hw1 (Nat.le_refl _) n'
          (by omega)
      · split <;> simp
      · exact h1

theorem untilLoop_term (ok : ScanOK R.E m len) {lo hi stop a sep ctx kt ka ks} (hct : Consistent T stop)
    (hca : Consistent T a) (hcs : Consistent T sep)
    (htt : Term R m len T stop kt) (hta : Term R m len T a ka) (hts : Term R m len T sep ks) (hp : Prog R m len a) :
    ∀ d (lx : Lx) vals W, WF m len lx → WOK T W → len - lx.cursor.byte ≤ d →
      ∀ n, d + (kt + ka + ks + 3) ≤ n → (untilLoop R n lo hi stop a sep vals lx ctx W).1 ≠ .fuel := by
  intro d
  induction d using Nat.strongRecOn with
  | _ d ih =>
  intro lx vals W wf hw hd n hn
  obtain ⟨n', rfl⟩ : ∃ n', n = n' + 1 := ⟨n - 1, by omega⟩
  have hst := htt n' (by omega) lx ctx W wf hw
  have hwst := (wok_all (R := R) (T := T) n').run stop lx ctx W hct hw
  have step : ∀ W0 v lx1 W1 vals', WOK T W0 → sepItem R n' a sep lx ctx W0 = (.ok v lx1, W1) →
      (untilLoop R n' lo hi stop a sep vals' lx1 ctx W1).1 ≠ .fuel := by
    intro W0 v lx1 W1 vals' hw0 heq
    have hpr := sepItem_prog ok hp n' lx ctx W0 v lx1 W1 wf heq
    have hcsi := (cur_all ok n').sepItem a sep lx ctx W0 wf
    have hwsi := (wok_all (R := R) (T := T) n').sepItem a sep lx ctx W0 hca hcs hw0
    rw [heq] at hcsi hwsi
    simp only [OkC_ok] at hcsi
    have := hcsi.1.cur
    exact ih (d - 1) (by omega) lx1 vals' W1 hcsi.1 hwsi (by omega) n' (by omega)
  have hsi := fun W0 (hw0 : WOK T W0) => sepItem_term ok hcs hta hts n' (by omega) lx ctx W0 wf hw0
  simp only [untilLoop]
  split
  · split
    · simp
    · next e W0 heq0 =>
      rw [heq0] at hwst
      split
      · next heq => exact step _ _ _ _ _ hwst heq
      · exact hsi _ hwst
    · exact hst
  · split
    · split
      · simp
      · next e W0 heq0 =>
        rw [heq0] at hwst
        split
        · next heq =>
          split
          · simp
          · exact step _ _ _ _ _ hwst heq
        · simp
        · exact hsi _ hwst
      · exact hst
    · simp

theorem untilStart_term (ok : ScanOK R.E m len) {lo hi stop a sep kt ka ks} (hct : Consistent T stop)
    (hca : Consistent T a) (hcs : Consistent T sep)
    (htt : Term R m len T stop kt) (hta : Term R m len T a ka) (hts : Term R m len T sep ks) (hp : Prog R m len a) :
    ∀ n, len + kt + ka + ks + 4 ≤ n → ∀ lx ctx W, WF m len lx → WOK T W →
      (untilStart R n lo hi stop a sep lx ctx W).1 ≠ .fuel := by
  intro n hn lx ctx W wf hw
  obtain ⟨n', rfl⟩ : ∃ n', n = n' + 1 := ⟨n - 1, by omega⟩
  have hst := htt n' (by omega) lx ctx W wf hw
  have hwst := (wok_all (R := R) (T := T) n').run stop lx ctx W hct hw
  simp only [untilStart]
  split
  · simp
  · split
    · simp
    · split
      · simp
      · next e W0 heq0 =>
        rw [heq0] at hwst
        have h1 := hta n' (by omega) lx ctx W0 wf hwst
        have hc1 := (cur_all ok n').run a lx ctx W0 wf
        have hw1 := (wok_all (R := R) (T := T) n').run a lx ctx W0 hca hwst
        split
        · next v lx1 W1 heq =>
          rw [heq] at hc1 hw1
          simp only [OkC_ok] at hc1
          exact untilLoop_term ok hct hca hcs htt hta hts hp (len - lx1.cursor.byte) lx1 _ W1 hc1.1 hw1
            (Nat.le_refl _) n' (by omega)
        · split <;> simp
        · exact h1
      · exact hst

theorem term_repeat (ok : ScanOK R.E m len) {v lo hi a k} (hc : Consistent T a) (ht : Term R m len T a k)
    (hp : Prog R m len a) : Term R m len T (.repeat_ v lo hi a) (k + len + 6) := by
  intro n hn lx ctx W wf hw
  obtain ⟨n', rfl⟩ : ∃ n', n = n' + 1 := ⟨n - 1, by omega⟩
  simp only [run]
  exact countOf_ne_fuel (interLoopStart_term ok hc (by simp [Consistent]) ht (term_empty ok) hp n' (by omega)
    lx ctx W wf hw)

theorem term_intersperse (ok : ScanOK R.E m len) {v lo hi a sep ka ks} (hca : Consistent T a) (hcs : Consistent T sep)
    (hta : Term R m len T a ka) (hts : Term R m len T sep ks) (hp : Prog R m len a) :
    Term R m len T (.intersperse v lo hi a sep) (ka + ks + len + 5) := by
  intro n hn lx ctx W wf hw
  obtain ⟨n', rfl⟩ : ∃ n', n = n' + 1 := ⟨n - 1, by omega⟩
  simp only [run]
  exact countOf_ne_fuel (interLoopStart_term ok hca hcs hta hts hp n' (by omega) lx ctx W wf hw)

theorem term_intersperseDefault (ok : ScanOK R.E m len) {lo hi a sepk k} (hc : Consistent T a)
    (ht : Term R m len T a k) (hp : Prog R m len a) :
    Term R m len T (.intersperseDefault lo hi a sepk) (k + len + 7) := by
  intro n hn lx ctx W wf hw
  obtain ⟨n', rfl⟩ : ∃ n', n = n' + 1 := ⟨n - 1, by omega⟩
  simp only [run]
  exact interLoopStart_term ok hc (by simp [Consistent]) ht (term_discard ok (by simp [Consistent]) (term_one ok))
    hp n' (by omega) lx ctx W wf hw

theorem term_repeatUntil (ok : ScanOK R.E m len) {v lo hi stop a kt ka} (hct : Consistent T stop)
    (hca : Consistent T a) (htt : Term R m len T stop kt) (hta : Term R m len T a ka) (hp : Prog R m len a) :
    Term R m len T (.repeatUntil v lo hi stop a) (kt + ka + len + 6) := by
  intro n hn lx ctx W wf hw
  obtain ⟨n', rfl⟩ : ∃ n', n = n' + 1 := ⟨n - 1, by omega⟩
  simp only [run]
  exact countOf_ne_fuel (untilStart_term ok hct hca (by simp [Consistent]) htt hta (term_empty ok) hp n' (by omega)
    lx ctx W wf hw)

theorem term_intersperseUntil (ok : ScanOK R.E m len) {v lo hi stop a sep kt ka ks} (hct : Consistent T stop)
    (hca : Consistent T a) (hcs : Consistent T sep) (htt : Term R m len T stop kt) (hta : Term R m len T a ka)
    (hts : Term R m len T sep ks) (hp : Prog R m len a) :
    Term R m len T (.intersperseUntil v lo hi stop a sep) (kt + ka + ks + len + 5) := by
  intro n hn lx ctx W wf hw
  obtain ⟨n', rfl⟩ : ∃ n', n = n' + 1 := ⟨n - 1, by omega⟩
  simp only [run]
  exact countOf_ne_fuel (untilStart_term ok hct hca hcs htt hta hts hp n' (by omega) lx ctx W wf hw)

end Tephra.Term
