/-
  Lemmas for C20: a window cut out of a window (or out of a source that was given a start
  position) is the window cut out of the document.
-/
import TephraProofs.Window
import TephraProofs.WindowPrev

set_option linter.unusedSimpArgs false
set_option linter.unusedSectionVars false
set_option linter.unusedVariables false

namespace Tephra.LinesPf
open Tephra.Spec

/-- `canon` is monotone (in page order) along aligned prefixes -/
theorem pageLe_canon_append {m : Metrics} {x y : Text} (hwf : Text.WF (x ++ y))
    (ha : aligned m x y = true) :
    Pos.pageLe (canon m x) (canon m (x ++ y)) = true := by
  rw [canon_append hwf ha]; exact pageLe_canonFrom m _ y

/-- in a source `x ++ y` starting at the canonical position of `wa`, the canonical position of
every aligned cut `(wa ++ x) | y` is in bounds -/
theorem posInBounds_canon_off {m : Metrics} {wa x y : Text} (hwf : Text.WF (wa ++ x ++ y))
    (ha0 : aligned m wa (x ++ y) = true) (ha : aligned m (wa ++ x) y = true) :
    Source.posInBounds ⟨x ++ y, m, canon m wa⟩ (canon m (wa ++ x)) = .ok true := by
  have hwf0 : Text.WF (wa ++ (x ++ y)) := by simpa [List.append_assoc] using hwf
  have hwfx : Text.WF (wa ++ x) := (Text.WF_append.mp hwf).1
  have hend := win_end (m := m) (wa := wa) (pre' := x ++ y) hwf0 ha0
  have h1 : Pos.pageLe (canon m wa) (canon m (wa ++ x)) = true :=
    pageLe_canon_append hwfx (aligned_of_append_right ha0)
  have h2 : Pos.pageLe (canon m (wa ++ x)) (canon m (wa ++ (x ++ y))) = true := by
    rw [← List.append_assoc]; exact pageLe_canon_append hwf ha
  unfold Source.posInBounds
  simp only [hend, Res.ok_bind, Res.pure_eq, h1, h2, canon_byte, bytes_append]
  simp

/-- `clipped` on a source that starts at the canonical position of `oa` (a window, or a source
built with `with_start_position`): the span between two aligned cuts yields the inner window,
starting at the span's start.  (`1 ≤ m.tab` is not needed.) -/
theorem clipped_nested (m : Metrics) (oa a2 wmid z2 oz : Text)
    (hwf : Text.WF (oa ++ (a2 ++ wmid ++ z2) ++ oz))
    (h1 : aligned m oa ((a2 ++ wmid ++ z2) ++ oz) = true)
    (h2 : aligned m (oa ++ a2) (wmid ++ z2 ++ oz) = true)
    (h3 : aligned m (oa ++ a2 ++ wmid) (z2 ++ oz) = true)
    (h4 : aligned m (oa ++ (a2 ++ wmid ++ z2)) oz = true) :
    Source.clipped ⟨a2 ++ wmid ++ z2, m, canon m oa⟩
        ⟨canon m (oa ++ a2), canon m (oa ++ a2 ++ wmid)⟩ =
      .ok ⟨wmid, m, canon m (oa ++ a2)⟩ := by
  have hwfo : Text.WF (oa ++ (a2 ++ wmid ++ z2)) := (Text.WF_append.mp hwf).1
  have hwfm : Text.WF (a2 ++ wmid ++ z2) := (Text.WF_append.mp hwfo).2
  have h1' : aligned m oa (a2 ++ wmid ++ z2) = true := aligned_of_append_right h1
  have h2' : aligned m (oa ++ a2) (wmid ++ z2) = true := aligned_of_append_right h2
  have h3' : aligned m (oa ++ a2 ++ wmid) z2 = true := aligned_of_append_right h3
  have hb1 : Source.posInBounds ⟨a2 ++ wmid ++ z2, m, canon m oa⟩ (canon m (oa ++ a2)) =
      .ok true := by
    have := posInBounds_canon_off (m := m) (wa := oa) (x := a2) (y := wmid ++ z2)
      (by simpa [List.append_assoc] using hwfo) (by simpa [List.append_assoc] using h1') h2'
    simpa [List.append_assoc] using this
  have hb2 : Source.posInBounds ⟨a2 ++ wmid ++ z2, m, canon m oa⟩ (canon m (oa ++ a2 ++ wmid)) =
      .ok true := by
    have := posInBounds_canon_off (m := m) (wa := oa) (x := a2 ++ wmid) (y := z2)
      (by simpa [List.append_assoc] using hwfo) h1' (by simpa [List.append_assoc] using h3')
    simpa [List.append_assoc] using this
  have hc1 : csub (bytes (oa ++ a2)) (bytes oa) = .ok (bytes a2) := by
    rw [csub_le (by simp)]; simp
  have hc2 : csub (bytes (oa ++ a2 ++ wmid)) (bytes oa) = .ok (bytes (a2 ++ wmid)) := by
    rw [csub_le (by simp [List.append_assoc])]; simp [List.append_assoc]
  unfold Source.clipped
  simp only [hb1, hb2, Res.ok_bind, Res.pure_eq]
  simp only [canon_byte, hc1, hc2, Res.ok_bind,
    sliceBytes_mid (z := z2) (Text.WF_append.mp hwfm).1]
  simp

/-- the bytes under the outer span are the outer window's text -/
theorem sliceBytes_outer {oa mid oz : Text} (hwf : Text.WF (oa ++ mid ++ oz)) (m : Metrics) :
    Source.sliceBytes (oa ++ mid ++ oz) (canon m oa).byte (canon m (oa ++ mid)).byte = .ok mid := by
  simp only [canon_byte]
  exact sliceBytes_mid (Text.WF_append.mp hwf).1

/-- a window of a window (route `c`), or of a source over the outer bytes placed at the outer
start (any other route), observes exactly what the window of the document observes -/
theorem modelNested_eq_model (m : Metrics) (oa a2 wmid z2 oz : Text)
    (hwf : Text.WF (oa ++ (a2 ++ wmid ++ z2) ++ oz))
    (h1 : aligned m oa ((a2 ++ wmid ++ z2) ++ oz) = true)
    (h2 : aligned m (oa ++ a2) (wmid ++ z2 ++ oz) = true)
    (h3 : aligned m (oa ++ a2 ++ wmid) (z2 ++ oz) = true)
    (h4 : aligned m (oa ++ (a2 ++ wmid ++ z2)) oz = true)
    (route : Char) (p : Pos) (sub : Span) :
    Fam.Window.modelNested m (oa ++ (a2 ++ wmid ++ z2) ++ oz) route
        ⟨canon m oa, canon m (oa ++ (a2 ++ wmid ++ z2))⟩
        ⟨canon m (oa ++ a2), canon m (oa ++ a2 ++ wmid)⟩ p sub =
      Fam.Window.model m (oa ++ (a2 ++ wmid ++ z2) ++ oz)
        ⟨canon m (oa ++ a2), canon m (oa ++ a2 ++ wmid)⟩ p sub := by
  -- the window of the document
  have et : oa ++ (a2 ++ wmid ++ z2) ++ oz = (oa ++ a2) ++ wmid ++ (z2 ++ oz) := by
    simp [List.append_assoc]
  have hR : Source.clipped ⟨oa ++ (a2 ++ wmid ++ z2) ++ oz, m, Pos.zero⟩
      ⟨canon m (oa ++ a2), canon m (oa ++ a2 ++ wmid)⟩ = .ok ⟨wmid, m, canon m (oa ++ a2)⟩ := by
    rw [et]
    exact clipped_correct m (oa ++ a2) wmid (z2 ++ oz) (by rw [← et]; exact hwf)
      (by simpa [List.append_assoc] using h2) h3
  -- the intermediate source, both routes
  have hC : Source.clipped ⟨oa ++ (a2 ++ wmid ++ z2) ++ oz, m, Pos.zero⟩
      ⟨canon m oa, canon m (oa ++ (a2 ++ wmid ++ z2))⟩ =
        .ok ⟨a2 ++ wmid ++ z2, m, canon m oa⟩ :=
    clipped_correct m oa (a2 ++ wmid ++ z2) oz hwf h1 h4
  have hS := sliceBytes_outer (oa := oa) (mid := a2 ++ wmid ++ z2) (oz := oz) hwf m
  have hN := clipped_nested m oa a2 wmid z2 oz hwf h1 h2 h3 h4
  unfold Fam.Window.modelNested Fam.Window.model
  by_cases hr : route = 'c'
  · subst hr
    simp only [beq_self_eq_true, if_true, hC, hN, hR]
  · have hr' : (route == 'c') = false := beq_eq_false_iff_ne.mpr hr
    simp only [hr', Bool.false_eq_true, if_false, hS, hN, hR]

end Tephra.LinesPf
