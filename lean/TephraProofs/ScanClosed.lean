/-
  TephraProofs.ScanClosed — the harness scanners (`scanText`) return canonical positions:
  started at the canonical position of a cut of the text that is aligned for the metrics they are
  given, they stop at the canonical position (same metrics) of a later cut, and that cut is never
  between a CR and an LF (`AlignedAll`): a whitespace token is a maximal run of blanks, every
  other token ends in a character that is not a CR.
-/
import TephraProofs.MeasureCanon

namespace Tephra
open Tephra.Spec

namespace ScanClosed

theorem withByteOffset_zero (p : Pos) (f : Pos → Res (Option Pos)) :
    Source.withByteOffset p 0 f = f p := by
  have hp : ({ p with byte := p.byte - 0 } : Pos) = p := by cases p; rfl
  simp only [Source.withByteOffset, csub, Nat.zero_le, if_true, Res.ok_bind, hp]
  cases hf : f p with
  | panic => rfl
  | ok r =>
    simp only [Res.ok_bind]
    cases r with
    | none => rfl
    | some q => cases q; rfl

theorem alignedAll_of_last {pre suf : Text} (h : ∀ a, pre.getLast? = some a → a.code ≠ 13) :
    AlignedAll pre suf := by
  intro m
  unfold aligned
  split
  · split
    · next a b ha hb => simp [h a ha]
    · rfl
  · rfl

theorem alignedAll_of_head {pre suf : Text} (h : ∀ b, suf.head? = some b → b.code ≠ 10) :
    AlignedAll pre suf := by
  intro m
  unfold aligned
  split
  · split
    · next a b ha hb => simp [h b hb]
    · rfl
  · rfl

theorem firstUnit_lf (m : Metrics) (b : Ch) (y : Text) (hb : b.code = 10) :
    firstUnit m (b :: y) = some [b] := by
  obtain ⟨le, tab⟩ := m
  cases le <;> simp [firstUnit, breakAt, lbCodes, stripCodes, hb]

theorem firstUnit_plain (m : Metrics) (c : Ch) (r : Text) (h1 : c.code ≠ 13) (h2 : c.code ≠ 10) :
    firstUnit m (c :: r) = some [c] := by
  obtain ⟨le, tab⟩ := m
  cases le <;> simp [firstUnit, breakAt, lbCodes, stripCodes, h1, h2]

/-- What follows a maximal matching run does not start with a matching unit. -/
theorem matchingRun_max {m : Metrics} (f : Ch → Bool) (suf : Text) (hwf : Text.WF suf) :
    ∀ y, suf = matchingRun m f suf ++ y → ∀ u, firstUnit m y = some u → u.all f = false := by
  induction hn : suf.length using Nat.strongRecOn generalizing suf with
  | _ n ih =>
    intro y hy u huy
    cases hu : firstUnit m suf with
    | none =>
      have := firstUnit_eq_none hu; subst this
      rw [matchingRun_nil] at hy
      simp at hy; subst hy
      rw [firstUnit_nil] at huy; cases huy
    | some u0 =>
      obtain ⟨rest, h1, h2, h3⟩ := firstUnit_some hwf hu
      subst h1
      rw [matchingRun_step f hu h2] at hy
      split at hy
      · rw [List.append_assoc] at hy
        have hy' := List.append_cancel_left hy
        have : 0 < u0.length := List.length_pos_iff.mpr h2
        exact ih rest.length (by simp at hn; omega) rest (WF_append.mp hwf).2 rfl y hy' u huy
      · next hall =>
        simp at hy; subst hy
        rw [hu] at huy; cases huy
        simpa using hall

theorem kind_not_ws {cfg : ScanCfg} {c : Ch} {als : Bool} {kind : Nat}
    (h : (if (cfg.hash && c.code == 35) = true then (if als = true then some kHash else none) else kindOf c.code) = some kind)
    (hk : (kind == kWs) = false) : c.code ≠ 13 ∧ c.code ≠ 10 := by
  have hk' : kind ≠ 12 := by simpa [kWs] using hk
  constructor
  · intro hc
    simp [hc, kindOf, kWs] at h
    exact hk' h.symm
  · intro hc
    simp [hc, kindOf, kWs] at h
    exact hk' h.symm

/-- One call of a harness scanner at the canonical position of a cut aligned for its metrics:
the token ends at the canonical position of a later cut, which is not inside a CR LF pair. -/
theorem scanText_cut (cfg : ScanCfg) (m : Metrics) (pre suf : Text) (hwf : Text.WF (pre ++ suf))
    (hal : aligned m pre suf = true) (st st' : Nat) (tok : Tok) (adv : Pos)
    (h : scanText cfg (pre ++ suf) st m (canon m pre) = (some (tok, adv), st')) :
    ∃ x y, suf = x ++ y ∧ adv = canon m (pre ++ x) ∧ AlignedAll (pre ++ x) y := by
  unfold scanText at h
  simp only [split_cut m hwf] at h
  cases suf with
  | nil => simp at h
  | cons c rest =>
    simp only at h
    split at h
    · simp at h
    · next kind hkind =>
      simp only [Source.positionAfterCharsMatching, Source.positionAfterStr, Source.nextPosition,
        withByteOffset_zero, Pos.zero] at h
      split at h
      · simp at h
      · next k adv0 heq =>
        have hadv : adv0 = adv := by
          have := congrArg (fun r => r.1.map (·.2)) h; simpa using this
        subst hadv
        clear h
        have hws : Text.WF (c :: rest) := (WF_append.mp hwf).2
        split at heq
        · -- a whitespace token: the maximal run of blanks
          rw [positionAfterCharsMatching_cut isWs hwf hal] at heq
          obtain ⟨y, hy⟩ := matchingRun_prefix (m := m) isWs (c :: rest) hws
          have hmax := matchingRun_max (m := m) isWs (c :: rest) hws y hy
          generalize matchingRun m isWs (c :: rest) = run at heq hy hmax
          by_cases hr : run.isEmpty = true
          · simp [resOpt, hr] at heq
          · simp [resOpt, hr] at heq
            refine ⟨run, y, hy, heq.2.symm, alignedAll_of_head ?_⟩
            intro b hb hb10
            cases y with
            | nil => simp at hb
            | cons b' y' =>
              simp at hb; subst hb
              have := hmax _ (firstUnit_lf m b' y' hb10)
              simp [isWs, hb10] at this
        · next hk =>
          have hk' : (kind == kWs) = false := by simpa using hk
          obtain ⟨hc13, hc10⟩ := kind_not_ws hkind hk'
          split at heq
          · -- `aa`
            rw [positionAfterStr_cut _ hwf hal] at heq
            simp only [resOpt, List.isEmpty_cons, Bool.false_eq_true, if_false] at heq
            split at heq
            · next hcond =>
              simp at heq
              refine ⟨(c :: rest).take 2, (c :: rest).drop 2, (List.take_append_drop _ _).symm,
                heq.2.symm, alignedAll_of_last ?_⟩
              cases rest with
              | nil => simp at hcond
              | cons d r =>
                intro a ha
                simp at hcond
                have : (pre ++ List.take 2 (c :: d :: r)).getLast? = some d := by
                  simp [List.getLast?_append]
                rw [this] at ha; cases ha
                omega
            · simp at heq
          · -- one character
            rw [Tephra.nextPosition_cut hwf hal, firstUnit_plain m c rest hc13 hc10] at heq
            simp [resOpt] at heq
            refine ⟨[c], rest, rfl, heq.2.symm, alignedAll_of_last ?_⟩
            intro a ha
            simp at ha; subst ha; exact hc13
/-- The harness scanners preserve "canonical position of a cut that is not inside a CR LF pair",
at every metrics. -/
theorem scanText_closed (cfg : ScanCfg) (t : Text) (hwf : Text.WF t) (m : Metrics) :
    Closed (lexEnv cfg t) (CanonCut t AlignedAll m) m := by
  intro s p tok adv s' hp h
  obtain ⟨pre, suf, rfl, hq, rfl⟩ := hp
  obtain ⟨x, y, rfl, hadv, hal⟩ := scanText_cut cfg m pre suf hwf (hq m) s s' tok adv h
  exact ⟨pre ++ x, y, by simp, hal, hadv⟩

/-- … and "canonical position of a cut aligned for the metrics at hand" (`Spec.isCanon`). -/
theorem scanText_closed_isCanon (cfg : ScanCfg) (t : Text) (hwf : Text.WF t) (m : Metrics) :
    Closed (lexEnv cfg t) (fun p => isCanon m t p = true) m := by
  intro s p tok adv s' hp h
  obtain ⟨pre, suf, rfl, hq, rfl⟩ := (MeasureCanon.isCanon_iff m t hwf p).mp hp
  obtain ⟨x, y, rfl, hadv, hal⟩ := scanText_cut cfg m pre suf hwf hq s s' tok adv h
  exact (MeasureCanon.isCanon_iff m _ hwf adv).mpr ⟨pre ++ x, y, by simp, hal m, hadv⟩

end ScanClosed
end Tephra
