/-
  TephraProofs.LexInv — the position invariant of the lexer (lexer half of C03).

  `PosOK P lx`: every position stored in the lexer (parse start, token start,
  cursor, buffered token start / end) satisfies `P`.  For `P` closed under the
  scanner at the lexer's metrics (`Closed`), every method that does not change
  the metrics preserves `PosOK P`, hence every reported position satisfies `P`.
  Nothing is assumed of the scanner beyond closure (no `ScanOK`).
  The three metrics builders (repaired, cbd4024: `remeasureAll`) move
  `PosOK (Pm m)` to `PosOK (Pm m')` when re-measuring a position does
  (`mstep_pos`); `reachAll_pos` is the invariant for lexers reachable with
  builders anywhere in the call sequence.
-/
import TephraModel.Lexer

namespace Tephra

def PosOK {σ τ} (P : Pos → Prop) (lx : Lexer σ τ) : Prop :=
  P lx.parseStart ∧ P lx.tokenStart ∧ P lx.cursor ∧
    ∀ b, lx.buffer = some b → P b.peekStart ∧ P b.peekCursor

/-- `P` is closed under the scanner at metrics `m`. -/
def Closed {σ τ} (E : LexEnv σ τ) (P : Pos → Prop) (m : Metrics) : Prop :=
  ∀ s p tok adv s', P p → E.scan s m p = (some (tok, adv), s') → P adv

namespace LexInv
variable {σ τ : Type} {E : LexEnv σ τ} {P : Pos → Prop}

/-! ### the metrics are never changed (outside the three builder methods) -/

@[simp] theorem bufferLoop_metrics (behind : Bool) (lx : Lexer σ τ) (ps : σ) (pc : Pos) :
    (Lexer.bufferLoop E behind lx ps pc).metrics = lx.metrics := by
  fun_induction Lexer.bufferLoop E behind lx ps pc with
  | case1 => rfl
  | case2 lx ps pc tok adv ps' heq hf lx' hg ih => rw [ih]; cases behind <;> simp [lx']
  | case3 lx ps pc tok adv ps' heq hf lx' hg => cases behind <;> simp [lx']
  | case4 => rfl

@[simp] theorem bufferNext_metrics (lx : Lexer σ τ) : (lx.bufferNext E).metrics = lx.metrics := by
  unfold Lexer.bufferNext; split <;> simp

@[simp] theorem peek_metrics (lx : Lexer σ τ) : (lx.peek E).2.metrics = lx.metrics := by
  unfold Lexer.peek; split <;> simp

@[simp] theorem nextLoop_metrics (behind : Bool) (lx : Lexer σ τ) :
    (Lexer.nextLoop E behind lx).2.metrics = lx.metrics := by
  fun_induction Lexer.nextLoop E behind lx with
  | case1 => rfl
  | case2 lx tok adv s' heq hf lx' hg ih => rw [ih]; cases behind <;> simp [lx']
  | case3 lx tok adv s' heq hf lx' hg => cases behind <;> simp [lx']
  | case4 => rfl

@[simp] theorem next_metrics (lx : Lexer σ τ) : (lx.next E).2.metrics = lx.metrics := by
  unfold Lexer.next
  split
  · rfl
  · split <;> simp

@[simp] theorem nextIf_metrics (pred : τ → Bool) (lx : Lexer σ τ) :
    (lx.nextIf E pred).2.metrics = lx.metrics := by
  unfold Lexer.nextIf
  split
  · next t lx' h =>
    have : lx'.metrics = lx.metrics := by rw [← peek_metrics (E := E) lx, h]
    split
    · rw [next_metrics, this]
    · exact this
  · next lx' h => rw [← peek_metrics (E := E) lx, h]

@[simp] theorem setFilter_metrics (f : Option Nat) (lx : Lexer σ τ) :
    (lx.setFilter E f).2.metrics = lx.metrics := by
  simp [Lexer.setFilter]

@[simp] theorem withFilter_metrics (f : Option Nat) (lx : Lexer σ τ) :
    (lx.withFilter E f).metrics = lx.metrics := by
  simp [Lexer.withFilter]

@[simp] theorem startSublex_metrics (lx : Lexer σ τ) : (lx.startSublex E).metrics = lx.metrics := by
  simp [Lexer.startSublex]

@[simp] theorem intoSublexer_metrics (lx : Lexer σ τ) : (lx.intoSublexer E).metrics = lx.metrics := by
  simp [Lexer.intoSublexer]

@[simp] theorem setRecoverState_metrics (r : Option Nat) (lx : Lexer σ τ) :
    (lx.setRecoverState r).metrics = lx.metrics := rfl

@[simp] theorem advanceUpTo_metrics (pred : τ → Bool) (lx : Lexer σ τ) :
    (lx.advanceUpTo E pred).2.metrics = lx.metrics := by
  fun_induction Lexer.advanceUpTo E pred lx with
  | case1 lx lx' h => rw [← peek_metrics (E := E) lx, h]
  | case2 lx t lx' h hp => rw [← peek_metrics (E := E) lx, h]
  | case3 lx t lx' h hp o lx'' hn hg ih =>
    rw [ih]
    have : lx''.metrics = lx'.metrics := by rw [← next_metrics (E := E) lx', hn]
    rw [this, ← peek_metrics (E := E) lx, h]
  | case4 lx t lx' h hp o lx'' hn hg =>
    have : lx''.metrics = lx'.metrics := by rw [← next_metrics (E := E) lx', hn]
    show lx''.metrics = _
    rw [this, ← peek_metrics (E := E) lx, h]

@[simp] theorem advanceTo_metrics (pred : τ → Bool) (lx : Lexer σ τ) :
    (lx.advanceTo E pred).2.metrics = lx.metrics := by
  fun_induction Lexer.advanceTo E pred lx with
  | case1 lx lx' h => rw [← next_metrics (E := E) lx, h]
  | case2 lx t lx' h hp => rw [← next_metrics (E := E) lx, h]
  | case3 lx t lx' h hp hg ih => rw [ih, ← next_metrics (E := E) lx, h]
  | case4 lx t lx' h hp hg => show lx'.metrics = _; rw [← next_metrics (E := E) lx, h]

/-! ### `PosOK` is preserved -/

theorem new_pos (h0 : P Pos.zero) (s0 : σ) (m : Metrics) (len : Nat) :
    PosOK P (Lexer.new s0 m len : Lexer σ τ) :=
  ⟨h0, h0, h0, fun _ h => nomatch h⟩

theorem bufferLoop_pos (behind : Bool) (lx : Lexer σ τ) (ps : σ) (pc : Pos)
    (hc : Closed E P lx.metrics) (h : PosOK P lx) (hpc : P pc) :
    PosOK P (Lexer.bufferLoop E behind lx ps pc) := by
  fun_induction Lexer.bufferLoop E behind lx ps pc with
  | case1 => exact h
  | case2 lx ps pc tok adv ps' heq hf lx' hg ih =>
    have ha : P adv := hc _ _ _ _ _ hpc heq
    have h' : PosOK P lx' := by
      cases behind
      · simpa [lx'] using h
      · exact ⟨ha, ha, ha, h.2.2.2⟩
    exact ih (by cases behind <;> simpa [lx'] using hc) h' ha
  | case3 lx ps pc tok adv ps' heq hf lx' hg =>
    have ha : P adv := hc _ _ _ _ _ hpc heq
    cases behind
    · simpa [lx'] using h
    · exact ⟨ha, ha, ha, h.2.2.2⟩
  | case4 lx ps pc tok adv ps' heq hf =>
    have ha : P adv := hc _ _ _ _ _ hpc heq
    refine ⟨h.1, h.2.1, h.2.2.1, ?_⟩
    intro b hb
    cases hb
    exact ⟨hpc, ha⟩

theorem bufferNext_pos (lx : Lexer σ τ) (hc : Closed E P lx.metrics) (h : PosOK P lx) :
    PosOK P (lx.bufferNext E) := by
  unfold Lexer.bufferNext
  split
  · exact h
  · exact bufferLoop_pos _ _ _ _ hc h h.2.2.1

theorem peek_pos (lx : Lexer σ τ) (hc : Closed E P lx.metrics) (h : PosOK P lx) :
    PosOK P (lx.peek E).2 := by
  unfold Lexer.peek
  split
  · exact h
  · exact bufferNext_pos _ hc h

theorem nextLoop_pos (behind : Bool) (lx : Lexer σ τ)
    (hc : Closed E P lx.metrics) (h : PosOK P lx) :
    PosOK P (Lexer.nextLoop E behind lx).2 := by
  fun_induction Lexer.nextLoop E behind lx with
  | case1 => exact h
  | case2 lx tok adv s' heq hf lx' hg ih =>
    have ha : P adv := hc _ _ _ _ _ h.2.2.1 heq
    have h' : PosOK P lx' := by
      cases behind
      · exact ⟨h.1, h.2.1, ha, h.2.2.2⟩
      · exact ⟨ha, ha, ha, h.2.2.2⟩
    exact ih (by cases behind <;> simpa [lx'] using hc) h'
  | case3 lx tok adv s' heq hf lx' hg =>
    have ha : P adv := hc _ _ _ _ _ h.2.2.1 heq
    cases behind
    · exact ⟨h.1, h.2.1, ha, h.2.2.2⟩
    · exact ⟨ha, ha, ha, h.2.2.2⟩
  | case4 lx tok adv s' heq hf ps =>
    have ha : P adv := hc _ _ _ _ _ h.2.2.1 heq
    refine ⟨?_, h.2.2.1, ha, h.2.2.2⟩
    cases behind
    · exact h.1
    · exact h.2.1

theorem next_pos (lx : Lexer σ τ) (hc : Closed E P lx.metrics) (h : PosOK P lx) :
    PosOK P (lx.next E).2 := by
  unfold Lexer.next
  split
  · exact h
  · split
    · next buf hb =>
      obtain ⟨b1, b2⟩ := h.2.2.2 buf hb
      refine ⟨?_, b1, b2, fun _ h => nomatch h⟩
      show P (if lx.parseStart = lx.cursor then buf.peekStart else lx.parseStart)
      split
      · exact b1
      · exact h.1
    · exact nextLoop_pos _ _ hc h

theorem nextIf_pos (pred : τ → Bool) (lx : Lexer σ τ) (hc : Closed E P lx.metrics)
    (h : PosOK P lx) : PosOK P (lx.nextIf E pred).2 := by
  have hp := peek_pos lx hc h
  have hm := peek_metrics (E := E) lx
  unfold Lexer.nextIf
  split
  · next t lx' he =>
    rw [he] at hp hm
    split
    · exact next_pos _ (by rw [hm]; exact hc) hp
    · exact hp
  · next lx' he => rw [he] at hp; exact hp

theorem setFilter_pos (f : Option Nat) (lx : Lexer σ τ) (hc : Closed E P lx.metrics)
    (h : PosOK P lx) : PosOK P (lx.setFilter E f).2 := by
  unfold Lexer.setFilter
  exact bufferNext_pos _ hc ⟨h.1, h.2.1, h.2.2.1, fun _ h => nomatch h⟩

theorem withFilter_pos (f : Option Nat) (lx : Lexer σ τ) (hc : Closed E P lx.metrics)
    (h : PosOK P lx) : PosOK P (lx.withFilter E f) := by
  unfold Lexer.withFilter
  exact bufferNext_pos _ (by rw [setFilter_metrics]; exact hc) (setFilter_pos f lx hc h)

theorem startSublex_pos (lx : Lexer σ τ) (hc : Closed E P lx.metrics) (h : PosOK P lx) :
    PosOK P (lx.startSublex E) := by
  unfold Lexer.startSublex
  exact bufferNext_pos _ hc ⟨h.2.2.1, h.2.2.1, h.2.2.1, h.2.2.2⟩

theorem intoSublexer_pos (lx : Lexer σ τ) (hc : Closed E P lx.metrics) (h : PosOK P lx) :
    PosOK P (lx.intoSublexer E) := startSublex_pos lx hc h

theorem setRecoverState_pos (r : Option Nat) (lx : Lexer σ τ) (h : PosOK P lx) :
    PosOK P (lx.setRecoverState r) := h

theorem advanceUpTo_pos (pred : τ → Bool) (lx : Lexer σ τ) (hc : Closed E P lx.metrics)
    (h : PosOK P lx) : PosOK P (lx.advanceUpTo E pred).2 := by
  fun_induction Lexer.advanceUpTo E pred lx with
  | case1 lx lx' hpk => have := peek_pos lx hc h; rw [hpk] at this; exact this
  | case2 lx t lx' hpk hp => have := peek_pos lx hc h; rw [hpk] at this; exact this
  | case3 lx t lx' hpk hp o lx'' hn hg ih =>
    have h1 := peek_pos lx hc h
    have m1 := peek_metrics (E := E) lx
    rw [hpk] at h1 m1
    have c1 : Closed E P lx'.metrics := by rw [m1]; exact hc
    have h2 := next_pos lx' c1 h1
    have m2 := next_metrics (E := E) lx'
    rw [hn] at h2 m2
    exact ih (by rw [m2]; exact c1) h2
  | case4 lx t lx' hpk hp o lx'' hn hg =>
    have h1 := peek_pos lx hc h
    have m1 := peek_metrics (E := E) lx
    rw [hpk] at h1 m1
    have h2 := next_pos lx' (by rw [m1]; exact hc) h1
    rw [hn] at h2
    exact h2

theorem advanceTo_pos (pred : τ → Bool) (lx : Lexer σ τ) (hc : Closed E P lx.metrics)
    (h : PosOK P lx) : PosOK P (lx.advanceTo E pred).2 := by
  fun_induction Lexer.advanceTo E pred lx with
  | case1 lx lx' hn => have := next_pos lx hc h; rw [hn] at this; exact this
  | case2 lx t lx' hn hp => have := next_pos lx hc h; rw [hn] at this; exact this
  | case3 lx t lx' hn hp hg ih =>
    have h1 := next_pos lx hc h
    have m1 := next_metrics (E := E) lx
    rw [hn] at h1 m1
    exact ih (by rw [m1]; exact hc) h1
  | case4 lx t lx' hn hp hg => have := next_pos lx hc h; rw [hn] at this; exact this

/-! ### reported positions -/

theorem enclosing_pos {a b : Pos} (ha : P a) (hb : P b) :
    P (Span.enclosing a b).s ∧ P (Span.enclosing a b).e := by
  unfold Span.enclosing
  split
  · exact ⟨hb, ha⟩
  · exact ⟨ha, hb⟩

theorem tokenSpan_pos {lx : Lexer σ τ} (h : PosOK P lx) : P lx.tokenSpan.s ∧ P lx.tokenSpan.e :=
  enclosing_pos h.2.1 h.2.2.1

theorem parseSpan_pos {lx : Lexer σ τ} (h : PosOK P lx) : P lx.parseSpan.s ∧ P lx.parseSpan.e :=
  enclosing_pos h.1 h.2.2.1

theorem cursorPos_pos {lx : Lexer σ τ} (h : PosOK P lx) : P lx.cursorPos := h.2.2.1

theorem peekTokenSpan_pos {lx : Lexer σ τ} (h : PosOK P lx) :
    ∀ sp, lx.peekTokenSpan = some sp → P sp.s ∧ P sp.e := by
  intro sp hsp
  unfold Lexer.peekTokenSpan at hsp
  cases hb : lx.buffer with
  | none => rw [hb] at hsp; cases hsp
  | some b =>
    rw [hb] at hsp
    obtain ⟨b1, b2⟩ := h.2.2.2 b hb
    simp only [Option.bind_some] at hsp
    split at hsp
    · cases hsp
    · cases hsp; exact enclosing_pos b1 b2

theorem peekParseSpan_pos {lx : Lexer σ τ} (h : PosOK P lx) :
    ∀ sp, lx.peekParseSpan = some sp → P sp.s ∧ P sp.e := by
  intro sp hsp
  unfold Lexer.peekParseSpan at hsp
  cases hb : lx.buffer with
  | none => rw [hb] at hsp; cases hsp
  | some b =>
    rw [hb] at hsp
    obtain ⟨b1, b2⟩ := h.2.2.2 b hb
    simp only [Option.map_some] at hsp
    cases hsp
    split
    · exact enclosing_pos h.1 b2
    · exact enclosing_pos h.1 h.2.2.1

theorem peekCursorPos_pos {lx : Lexer σ τ} (h : PosOK P lx) :
    ∀ p, lx.peekCursorPos = some p → P p := by
  intro p hp
  unfold Lexer.peekCursorPos at hp
  cases hb : lx.buffer with
  | none => rw [hb] at hp; cases hp
  | some b =>
    rw [hb] at hp
    simp only [Option.map_some] at hp
    cases hp
    exact (h.2.2.2 b hb).2

end LexInv

/-! ### lexers reachable by public method calls -/

/-- One call of a public lexer method that does not touch the metrics
(`lx'` is the lexer after the call; a returned value is discarded). -/
inductive Lexer.Step {σ τ} (E : LexEnv σ τ) : Lexer σ τ → Lexer σ τ → Prop
  | peek (lx) : Step E lx (lx.peek E).2
  | next (lx) : Step E lx (lx.next E).2
  | nextIf (pred) (lx) : Step E lx (lx.nextIf E pred).2
  | setFilter (f) (lx) : Step E lx (lx.setFilter E f).2
  | withFilter (f) (lx) : Step E lx (lx.withFilter E f)
  | startSublex (lx) : Step E lx (lx.startSublex E)
  | intoSublexer (lx) : Step E lx (lx.intoSublexer E)
  | advanceTo (pred) (lx) : Step E lx (lx.advanceTo E pred).2
  | advanceUpTo (pred) (lx) : Step E lx (lx.advanceUpTo E pred).2
  | bufferNext (lx) : Step E lx (lx.bufferNext E)
  | setRecoverState (r) (lx) : Step E lx (lx.setRecoverState r)

/-- One call of a builder method that changes the metrics. -/
inductive Lexer.MStep {σ τ} (E : LexEnv σ τ) : Lexer σ τ → Lexer σ τ → Prop
  | withColumnMetrics (m) (lx) : MStep E lx (lx.withColumnMetrics E m)
  | withLineEnding (le) (lx) : MStep E lx (lx.withLineEnding E le)
  | withTabWidth (tab) (lx) : MStep E lx (lx.withTabWidth E tab)

/-- Reachable from `Lexer::new` without changing the metrics afterwards.  (A
metrics builder applied directly to `new` is again a `new`: see
`LexInv.new_withTabWidth` etc.) -/
inductive Lexer.Reach {σ τ} (E : LexEnv σ τ) : Lexer σ τ → Prop
  | new (s0 m len) : Reach E (Lexer.new s0 m len)
  | step {lx lx'} : Reach E lx → Lexer.Step E lx lx' → Reach E lx'

/-- Reachable from `Lexer::new` by any public method, metrics builders included. -/
inductive Lexer.ReachAll {σ τ} (E : LexEnv σ τ) : Lexer σ τ → Prop
  | new (s0 m len) : ReachAll E (Lexer.new s0 m len)
  | step {lx lx'} : ReachAll E lx → Lexer.Step E lx lx' → ReachAll E lx'
  | mstep {lx lx'} : ReachAll E lx → Lexer.MStep E lx lx' → ReachAll E lx'

namespace LexInv
variable {σ τ : Type} {E : LexEnv σ τ} {P : Pos → Prop}

theorem new_withColumnMetrics (s0 : σ) (m m' : Metrics) (len : Nat) :
    ((Lexer.new s0 m len).withColumnMetrics E m' : Lexer σ τ) = Lexer.new s0 m' len := by
  simp [Lexer.withColumnMetrics, Lexer.remeasureAll, Lexer.remeasure, Lexer.new, Pos.zero]
theorem new_withLineEnding (s0 : σ) (m : Metrics) (le : LineEnding) (len : Nat) :
    ((Lexer.new s0 m len).withLineEnding E le : Lexer σ τ) = Lexer.new s0 { m with le := le } len := by
  simp [Lexer.withLineEnding, Lexer.remeasureAll, Lexer.remeasure, Lexer.new, Pos.zero]
theorem new_withTabWidth (s0 : σ) (m : Metrics) (tab : Nat) (len : Nat) :
    ((Lexer.new s0 m len).withTabWidth E tab : Lexer σ τ) = Lexer.new s0 { m with tab := tab } len := by
  simp [Lexer.withTabWidth, Lexer.remeasureAll, Lexer.remeasure, Lexer.new, Pos.zero]

theorem step_metrics {lx lx' : Lexer σ τ} (h : Lexer.Step E lx lx') : lx'.metrics = lx.metrics := by
  cases h <;> simp

theorem step_pos {lx lx' : Lexer σ τ} (h : Lexer.Step E lx lx') (hc : Closed E P lx.metrics)
    (hp : PosOK P lx) : PosOK P lx' := by
  cases h with
  | peek => exact peek_pos _ hc hp
  | next => exact next_pos _ hc hp
  | nextIf pred => exact nextIf_pos pred _ hc hp
  | setFilter f => exact setFilter_pos f _ hc hp
  | withFilter f => exact withFilter_pos f _ hc hp
  | startSublex => exact startSublex_pos _ hc hp
  | intoSublexer => exact intoSublexer_pos _ hc hp
  | advanceTo pred => exact advanceTo_pos pred _ hc hp
  | advanceUpTo pred => exact advanceUpTo_pos pred _ hc hp
  | bufferNext => exact bufferNext_pos _ hc hp
  | setRecoverState r => exact setRecoverState_pos r _ hp

theorem reach_pos {lx : Lexer σ τ} (h0 : P Pos.zero) (hr : Lexer.Reach E lx)
    (hc : Closed E P lx.metrics) : PosOK P lx := by
  induction hr with
  | new s0 m len => exact new_pos h0 s0 m len
  | step hr hs ih =>
    have hm := step_metrics hs
    rw [hm] at hc
    exact step_pos hs hc (ih hc)

/-! ### the metrics builders (repaired: they re-measure every held position) -/

@[simp] theorem remeasureAll_metrics (lx : Lexer σ τ) : (lx.remeasureAll E).metrics = lx.metrics := rfl

@[simp] theorem withColumnMetrics_metrics (m : Metrics) (lx : Lexer σ τ) :
    (lx.withColumnMetrics E m).metrics = m := rfl
@[simp] theorem withLineEnding_metrics (le : LineEnding) (lx : Lexer σ τ) :
    (lx.withLineEnding E le).metrics = { lx.metrics with le := le } := rfl
@[simp] theorem withTabWidth_metrics (tab : Nat) (lx : Lexer σ τ) :
    (lx.withTabWidth E tab).metrics = { lx.metrics with tab := tab } := rfl

/-- Re-measuring turns a `P` lexer into a `P'` lexer when it turns `P` positions into `P'` ones. -/
theorem remeasureAll_pos {P' : Pos → Prop} (lx : Lexer σ τ)
    (hre : ∀ p, P p → P' (Lexer.remeasure E lx.metrics p)) (h : PosOK P lx) :
    PosOK P' (lx.remeasureAll E) := by
  refine ⟨hre _ h.1, hre _ h.2.1, hre _ h.2.2.1, ?_⟩
  intro b hb
  cases hlb : lx.buffer with
  | none => simp [Lexer.remeasureAll, hlb] at hb
  | some b0 =>
    obtain ⟨b1, b2⟩ := h.2.2.2 b0 hlb
    simp only [Lexer.remeasureAll, hlb, Option.map_some, Option.some.injEq] at hb
    subst hb
    exact ⟨hre _ b1, hre _ b2⟩

/-- One metrics builder: `Pm` indexed by the metrics; `hre`: re-measuring a position that is
`Pm m` gives a `Pm m'` position. -/
theorem mstep_pos {Pm : Metrics → Pos → Prop} {lx lx' : Lexer σ τ}
    (hre : ∀ m m' p, Pm m p → Pm m' (Lexer.remeasure E m' p))
    (h : Lexer.MStep E lx lx') (hp : PosOK (Pm lx.metrics) lx) : PosOK (Pm lx'.metrics) lx' := by
  cases h with
  | withColumnMetrics m =>
    exact remeasureAll_pos (P := Pm lx.metrics) { lx with metrics := m } (fun p => hre _ _ p) hp
  | withLineEnding le =>
    exact remeasureAll_pos (P := Pm lx.metrics) { lx with metrics := { lx.metrics with le := le } }
      (fun p => hre _ _ p) hp
  | withTabWidth tab =>
    exact remeasureAll_pos (P := Pm lx.metrics) { lx with metrics := { lx.metrics with tab := tab } }
      (fun p => hre _ _ p) hp

/-- The invariant for every lexer reachable by public calls, metrics builders anywhere. -/
theorem reachAll_pos {Pm : Metrics → Pos → Prop} {lx : Lexer σ τ}
    (h0 : ∀ m, Pm m Pos.zero) (hc : ∀ m, Closed E (Pm m) m)
    (hre : ∀ m m' p, Pm m p → Pm m' (Lexer.remeasure E m' p))
    (hr : Lexer.ReachAll E lx) : PosOK (Pm lx.metrics) lx := by
  induction hr with
  | new s0 m len => exact new_pos (h0 m) s0 m len
  | step hr hs ih =>
    rw [step_metrics hs]
    exact step_pos hs (hc _) ih
  | mstep hr hs ih => exact mstep_pos hre hs ih

/-- `hre` from its two halves: a position at byte 0 is kept, any other is `E.measure`d. -/
theorem remeasure_of_measure {Pm : Metrics → Pos → Prop}
    (hz : ∀ m m' p, Pm m p → p.byte = 0 → Pm m' p)
    (hm : ∀ m m' p, Pm m p → p.byte ≠ 0 → Pm m' (E.measure m' p.byte)) :
    ∀ m m' p, Pm m p → Pm m' (Lexer.remeasure E m' p) := by
  intro m m' p hp
  unfold Lexer.remeasure
  split
  · exact hz m m' p hp ‹_›
  · exact hm m m' p hp ‹_›

end LexInv
end Tephra
