/-
  TephraProofs.Transparent — C09, the consequence clause: which parts of `run`
  consult the context, context-independence of the grammars that do not, and
  the transparency of `unrecoverable` / `raw` / `maybe` / `filter_with` /
  `unfiltered` for the later siblings of a sequencing combinator.

  The context is consulted in exactly two places of `run`:
    * `sendError ctx e W`  (`recover*`, `bracket*`, `list*`): reads `ctx.sink`
      and, when the sink is present, `ctx.chain`;
    * `probe`: reads `ctx.sink` and `ctx.chain`.
  Everything else only passes the context on, possibly modified
  (`maybe` / `unrecoverable`: sink off; `raw`: chain emptied and locked;
  `ctx_push*`, `ctx_locked`).  A returned error is never decorated with the
  context (`Ctx.apply` is used only on the way into the sink and in the probe
  line).
-/
import TephraModel.Run
import TephraProofs.RunMatchers
import TephraProofs.Frame
import TephraProofs.WorldFrame
import TephraProofs.TermFuel

set_option linter.unusedVariables false

namespace Tephra
namespace Transparent

/-- `CF s g`: `g` does not consult the context (`s = false`), resp. does not
consult it beyond the absence of a sink (`s = true`).

* `CF true g`  ⇔ `probe` does not occur in `g`.
* `CF false g` ⇔ `probe` does not occur in `g`, and `recover*`, `bracket*`,
  `list*` occur only below a `maybe` / `unrecoverable` (or in the antecedent
  position of `implies` & co., which is a `maybe`). -/
def CF (s : Bool) : G → Bool
  | .empty => true
  | .one _ => true
  | .any _ => true
  | .anyIndex _ => true
  | .seq _ => true
  | .seqCount _ => true
  | .pred _ => true
  | .endOfText => true
  | .left a b => CF s a && CF s b
  | .right a b => CF s a && CF s b
  | .both a b => CF s a && CF s b
  | .center a b c => CF s a && CF s b && CF s c
  | .map a => CF s a
  | .discard a => CF s a
  | .either a b => CF s a && CF s b
  | .maybe a => CF true a
  | .requireIf flag a => if flag then CF s a else CF true a
  | .cond flag a => if flag then CF s a else true
  | .implies a b => CF true a && CF s b
  | .antecedent a b => CF true a && CF s b
  | .consequent a b => CF true a && CF s b
  | .condImplies a _ b => CF true a && CF s b
  | .filterWith _ a => CF s a
  | .unfiltered a => CF s a
  | .sub a => CF s a
  | .spanned a => CF s a
  | .text a => CF s a
  | .repeat_ _ _ _ a => CF s a
  | .repeatUntil _ _ _ stop a => CF s stop && CF s a
  | .intersperse _ _ _ a sep => CF s a && CF s sep
  | .intersperseUntil _ _ _ stop a sep => CF s stop && CF s a && CF s sep
  | .intersperseDefault _ _ a _ => CF s a
  | .raw a => CF s a
  | .unrecoverable a => CF true a
  | .recover _ _ a _ => s && CF s a
  | .stabilize a => CF s a
  | .bracket _ _ a _ _ => s && CF s a
  | .list _ _ _ _ a _ _ => s && CF s a
  | .upTo a _ => CF s a
  | .probe _ => false
  | .ctxPushed _ a => CF s a
  | .ctxPush _ a => CF s a
  | .ctxLocked _ a => CF s a
  | .someOf a => CF s a

/-- context-insensitive grammar -/
abbrev CtxFree (g : G) : Prop := CF false g = true
/-- grammar insensitive to the context beyond the presence of a sink (= probe-free) -/
abbrev SinkOnly (g : G) : Prop := CF true g = true

theorem CF_mono (g : G) : CF false g = true → CF true g = true := by
  induction g <;> simp_all [CF]
  all_goals first | (split <;> simp_all) | grind

/-- the reference context (no sink, empty chain, unlocked) -/
def c0 : Ctx := ⟨false, [], false⟩

/-- side condition of the independence statement -/
def SC (s : Bool) (ctx : Ctx) : Prop := s = true → ctx.sink = false

@[simp] theorem SC_false (ctx : Ctx) : SC false ctx := by simp [SC]
theorem SC_of_nosink (s : Bool) (ctx : Ctx) (h : ctx.sink = false) : SC s ctx := fun _ => h
@[simp] theorem SC_withoutSink (s : Bool) (ctx : Ctx) : SC s ctx.withoutSink := fun _ => rfl
@[simp] theorem SC_c0 (s : Bool) : SC s c0 := fun _ => rfl
theorem SC_raw {s : Bool} {ctx : Ctx} (h : SC s ctx) : SC s ctx.rawCtx := h
theorem SC_pushed {s : Bool} {ctx : Ctx} (h : SC s ctx) (t : Nat) : SC s (ctx.pushed t) := by
  intro hs; rw [WorldFrame.pushed_sink]; exact h hs
theorem SC_locked {s : Bool} {ctx : Ctx} (h : SC s ctx) (f : Bool) : SC s { ctx with locked := f } := h

theorem sendError_nosink (ctx : Ctx) (e : PErr) (W : World) (h : ctx.sink = false) :
    sendError ctx e W = (some e, W) := by
  simp [sendError, h]


/-! ### context independence, by induction on the fuel -/

structure IAt (R : RunEnv) (n : Nat) : Prop where
  run : ∀ s g, CF s g = true → ∀ lx ctx W, SC s ctx → run R n g lx ctx W = run R n g lx c0 W
  sepItem : ∀ s a sep, CF s a = true → CF s sep = true → ∀ lx ctx W, SC s ctx →
    sepItem R n a sep lx ctx W = sepItem R n a sep lx c0 W
  interLoopStart : ∀ s a sep, CF s a = true → CF s sep = true → ∀ lo hi lx ctx W, SC s ctx →
    interLoopStart R n lo hi a sep lx ctx W = interLoopStart R n lo hi a sep lx c0 W
  interLoop : ∀ s a sep, CF s a = true → CF s sep = true → ∀ lo hi vals lx ctx W, SC s ctx →
    interLoop R n lo hi a sep vals lx ctx W = interLoop R n lo hi a sep vals lx c0 W
  untilStart : ∀ s stop a sep, CF s stop = true → CF s a = true → CF s sep = true → ∀ lo hi lx ctx W, SC s ctx →
    untilStart R n lo hi stop a sep lx ctx W = untilStart R n lo hi stop a sep lx c0 W
  untilLoop : ∀ s stop a sep, CF s stop = true → CF s a = true → CF s sep = true → ∀ lo hi vals lx ctx W, SC s ctx →
    untilLoop R n lo hi stop a sep vals lx ctx W = untilLoop R n lo hi stop a sep vals lx c0 W
  stabLoop : ∀ s a, CF s a = true → ∀ lx ctx res W, SC s ctx →
    stabLoop R n a lx ctx res W = stabLoop R n a lx c0 res W
  recoverDefault : ∀ body, CF true body = true → ∀ dv id r lx ctx W, ctx.sink = false →
    recoverDefault R n dv id r body lx ctx W = recoverDefault R n dv id r body lx c0 W
  stabValue : ∀ body, CF true body = true → ∀ dv id pat lx ctx res W, ctx.sink = false →
    stabValue R n dv id pat body lx ctx res W = stabValue R n dv id pat body lx c0 res W
  listLoop : ∀ a, CF true a = true → ∀ v id lo hi sep abort lx ctx W vals, ctx.sink = false →
    listLoop R n v id lo hi a sep abort lx ctx W vals = listLoop R n v id lo hi a sep abort lx c0 W vals

theorem iAt_zero (R : RunEnv) : IAt R 0 := by
  constructor <;> intros <;>
    simp [run, sepItem, interLoopStart, interLoop, untilStart, untilLoop, recoverDefault, stabLoop, listLoop, stabValue]

theorem run_step (R : RunEnv) (n : Nat) (ih : IAt R n) (s : Bool) (g : G) (hg : CF s g = true) (lx : Lx) (ctx : Ctx)
    (W : World) (hs : SC s ctx) : run R (n + 1) g lx ctx W = run R (n + 1) g lx c0 W := by
  obtain ⟨ihr, ihsep, ihis, ihil, ihus, ihul, ihsl, ihrd, ihsv, ihll⟩ := ih
  cases g <;> simp only [CF, Bool.and_eq_true] at hg <;> simp only [run]
  all_goals first
    | rfl
    | (simp [ihr s, ihr true, ihis s, ihus s, ihsl s, CF, hg, hs, SC_raw hs, SC_pushed hs, SC_locked hs]; done)
    | skip
  case requireIf flag a =>
    cases flag
    · simp only [Bool.false_eq_true, if_false] at hg ⊢
      exact ihr s (.maybe a) (by simpa [CF] using hg) _ _ _ hs
    · simp only [if_true] at hg ⊢
      simp only [ihr s a hg _ ctx _ hs]
  case cond flag a =>
    cases flag
    · rfl
    · simp only [if_true] at hg ⊢
      simp only [ihr s a hg _ ctx _ hs]
  case repeat_ v lo hi a => rw [ihis s a .empty hg rfl _ _ _ ctx _ hs]
  case repeatUntil v lo hi stop a => rw [ihus s stop a .empty hg.1 hg.2 rfl _ _ _ ctx _ hs]
  case intersperseDefault lo hi a sepk => rw [ihis s a (.discard (.one sepk)) hg rfl _ _ _ ctx _ hs]
  case raw a => rw [ihr s a hg _ ctx.rawCtx _ (SC_raw hs), ihr s a hg _ c0.rawCtx _ (SC_raw (SC_c0 s))]
  case ctxPushed tag a =>
    rw [ihr s a hg _ (ctx.pushed tag) _ (SC_pushed hs _), ihr s a hg _ (c0.pushed tag) _ (SC_pushed (SC_c0 s) _)]
  case ctxPush tag a =>
    rw [ihr s a hg _ (ctx.pushed tag) _ (SC_pushed hs _), ihr s a hg _ (c0.pushed tag) _ (SC_pushed (SC_c0 s) _)]
  case ctxLocked flag a =>
    rw [ihr s a hg _ { ctx with locked := flag } _ (SC_locked hs _),
      ihr s a hg _ { c0 with locked := flag } _ (SC_locked (SC_c0 s) _)]
  case probe tag => simp at hg
  case recover v id a r =>
    obtain ⟨rfl, ha⟩ := hg
    have hk : ctx.sink = false := hs rfl
    rw [ihrd (.someOf a) ha _ _ _ _ ctx _ hk, ihrd a ha _ _ _ _ ctx _ hk]
  case list v id lo hi a sep abort =>
    obtain ⟨rfl, ha⟩ := hg
    have hk : ctx.sink = false := hs rfl
    simp only [ihll a ha _ _ _ _ _ _ _ ctx _ _ hk]
  case bracket v opens a closes abort =>
    obtain ⟨rfl, ha⟩ := hg
    have hk : ctx.sink = false := hs rfl
    have hb : CF true (if (v % 2 == 0) = true then G.someOf a else a) = true := by split <;> simpa [CF] using ha
    simp only [ihr true _ hb _ ctx _ hs, sendError_nosink ctx _ _ hk, sendError_nosink c0 _ _ rfl]


theorem iAt_succ (R : RunEnv) (n : Nat) (ih : IAt R n) : IAt R (n + 1) := by
  have hrun := run_step R n ih
  obtain ⟨ihr, ihsep, ihis, ihil, ihus, ihul, ihsl, ihrd, ihsv, ihll⟩ := ih
  refine ⟨hrun, ?_, ?_, ?_, ?_, ?_, ?_, ?_, ?_, ?_⟩
  · intro s a sep ha hsep lx ctx W hs
    simp only [sepItem, ihr s a ha _ ctx _ hs, ihr s sep hsep _ ctx _ hs]
  · intro s a sep ha hsep lo hi lx ctx W hs
    simp only [interLoopStart, ihr s a ha _ ctx _ hs, ihil s a sep ha hsep _ _ _ _ ctx _ hs]
  · intro s a sep ha hsep lo hi vals lx ctx W hs
    simp only [interLoop, ihsep s a sep ha hsep _ ctx _ hs, ihil s a sep ha hsep _ _ _ _ ctx _ hs]
  · intro s stop a sep hst ha hsep lo hi lx ctx W hs
    simp only [untilStart, ihr s a ha _ ctx _ hs, ihr s stop hst _ ctx _ hs, ihul s stop a sep hst ha hsep _ _ _ _ ctx _ hs]
  · intro s stop a sep hst ha hsep lo hi vals lx ctx W hs
    simp only [untilLoop, ihr s stop hst _ ctx _ hs, ihsep s a sep ha hsep _ ctx _ hs,
      ihul s stop a sep hst ha hsep _ _ _ _ ctx _ hs]
  · intro s a ha lx ctx res W hs
    have ha' : CF true a = true := by cases s; exact CF_mono a ha; exact ha
    cases res <;> simp only [stabLoop]
    simp only [ihr s (.unrecoverable a) (by simpa [CF] using ha') _ ctx _ hs, ihsl s a ha _ ctx _ _ hs]
  · intro body hb dv id r lx ctx W hk
    simp only [recoverDefault, ihr true body hb _ ctx _ (SC_of_nosink _ _ hk), sendError_nosink ctx _ _ hk,
      sendError_nosink c0 _ _ rfl]
  · intro body hb dv id pat lx ctx res W hk
    cases res <;> simp only [stabValue]
    simp only [ihsv body hb _ _ _ _ ctx _ _ hk, ihrd body hb _ _ _ _ ctx.withoutSink _ rfl,
      ihrd body hb _ _ _ _ c0.withoutSink _ rfl]
  · intro a ha v id lo hi sep abort lx ctx W vals hk
    have hit : CF true (if v < 2 then G.someOf a else a) = true := by split <;> simpa [CF] using ha
    have h1 : CF true (.stabilize (.maybe (.upTo (if v < 2 then G.someOf a else a) (sep :: abort)))) = true := by
      simpa [CF] using hit
    have h2 : CF true (.upTo (if v < 2 then G.someOf a else a) (sep :: abort)) = true := by
      simpa [CF] using hit
    have h3 : CF true (.discard (.one sep)) = true := rfl
    simp only [listLoop, sendError_nosink ctx _ _ hk, sendError_nosink c0 _ _ rfl,
      ihr true _ h1 _ ctx _ (SC_of_nosink _ _ hk), ihrd _ h2 _ _ _ _ ctx _ hk, ihrd _ h3 _ _ _ _ ctx _ hk,
      ihsv _ h2 _ _ _ _ ctx _ _ hk, ihll a ha _ _ _ _ _ _ _ ctx _ _ hk]

theorem iAt (R : RunEnv) : ∀ n, IAt R n
  | 0 => iAt_zero R
  | n + 1 => iAt_succ R n (iAt R n)

/-- **Context independence.**  If `g` does not consult the context (`s = false`),
or consults nothing but the presence of a sink (`s = true`) and neither context
has one, the run is the same function of lexer and world under both contexts:
same result (value or error, undecorated), same returned lexer, same world. -/
theorem run_ctx_indep (R : RunEnv) (n : Nat) (s : Bool) (g : G) (hg : CF s g = true) (lx : Lx) (ctx ctx' : Ctx)
    (W : World) (h : SC s ctx) (h' : SC s ctx') : run R n g lx ctx W = run R n g lx ctx' W :=
  ((iAt R n).run s g hg lx ctx W h).trans ((iAt R n).run s g hg lx ctx' W h').symm

theorem run_ctxFree (R : RunEnv) (n : Nat) (g : G) (hg : CtxFree g) (lx : Lx) (ctx ctx' : Ctx) (W : World) :
    run R n g lx ctx W = run R n g lx ctx' W :=
  run_ctx_indep R n false g hg lx ctx ctx' W (SC_false _) (SC_false _)

theorem run_sinkOnly (R : RunEnv) (n : Nat) (g : G) (hg : SinkOnly g) (lx : Lx) (ctx ctx' : Ctx) (W : World)
    (h : ctx.sink = false) (h' : ctx'.sink = false) : run R n g lx ctx W = run R n g lx ctx' W :=
  run_ctx_indep R n true g hg lx ctx ctx' W (fun _ => h) (fun _ => h')

/-! ### `unrecoverable`, `raw` -/

theorem withoutSink_of_nosink (ctx : Ctx) (h : ctx.sink = false) : ctx.withoutSink = ctx := by
  cases ctx; simp_all [Ctx.withoutSink]

/-- exact fuel offset: the wrapper spends one unit of fuel and nothing else. -/
theorem unrecoverable_eq (R : RunEnv) (n : Nat) (a : G) (ha : CtxFree a) (lx : Lx) (ctx : Ctx) (W : World) :
    run R (n + 1) (.unrecoverable a) lx ctx W = run R n a lx ctx W := by
  simp only [run]; exact run_ctxFree R n a ha lx _ _ W

theorem raw_eq (R : RunEnv) (n : Nat) (a : G) (ha : CtxFree a) (lx : Lx) (ctx : Ctx) (W : World) :
    run R (n + 1) (.raw a) lx ctx W = run R n a lx ctx W := by
  simp only [run]; exact run_ctxFree R n a ha lx _ _ W

/-- without a sink `unrecoverable` is the identity on every grammar. -/
theorem unrecoverable_eq_nosink (R : RunEnv) (n : Nat) (a : G) (lx : Lx) (ctx : Ctx) (W : World)
    (h : ctx.sink = false) : run R (n + 1) (.unrecoverable a) lx ctx W = run R n a lx ctx W := by
  simp only [run, withoutSink_of_nosink ctx h]

/-- without a sink `raw` is the identity on every probe-free grammar. -/
theorem raw_eq_nosink (R : RunEnv) (n : Nat) (a : G) (ha : SinkOnly a) (lx : Lx) (ctx : Ctx) (W : World)
    (h : ctx.sink = false) : run R (n + 1) (.raw a) lx ctx W = run R n a lx ctx W := by
  simp only [run]; exact run_sinkOnly R n a ha lx _ _ W h h

/-- same fuel on both sides, once the fuel suffices for `a`. -/
theorem unrecoverable_same_fuel (R : RunEnv) (n : Nat) (a : G) (ha : CtxFree a) (lx : Lx) (ctx : Ctx) (W : World)
    (hne : (run R n a lx ctx W).1 ≠ .fuel) (m : Nat) (hm : n + 1 ≤ m) :
    run R m (.unrecoverable a) lx ctx W = run R m a lx ctx W := by
  obtain ⟨k, rfl⟩ : ∃ k, m = k + 1 := ⟨m - 1, by omega⟩
  rw [unrecoverable_eq R k a ha, Term.run_fuel_mono R (by omega : n ≤ k) a lx ctx W hne,
    Term.run_fuel_mono R (by omega : n ≤ k + 1) a lx ctx W hne]

theorem raw_same_fuel (R : RunEnv) (n : Nat) (a : G) (ha : CtxFree a) (lx : Lx) (ctx : Ctx) (W : World)
    (hne : (run R n a lx ctx W).1 ≠ .fuel) (m : Nat) (hm : n + 1 ≤ m) :
    run R m (.raw a) lx ctx W = run R m a lx ctx W := by
  obtain ⟨k, rfl⟩ : ∃ k, m = k + 1 := ⟨m - 1, by omega⟩
  rw [raw_eq R k a ha, Term.run_fuel_mono R (by omega : n ≤ k) a lx ctx W hne,
    Term.run_fuel_mono R (by omega : n ≤ k + 1) a lx ctx W hne]

/-! ### sequencing combinators: what flows from the earlier to the later sibling -/

/-- what a sequencing combinator makes of the later sibling's outcome: the value
is post-processed, everything else (lexer, world, error, panic) is passed on. -/
def thenWith (f : Val → Val) : RRes × World → RRes × World
  | (.ok v2 lx2, W2) => (.ok (f v2) lx2, W2)
  | r => r

@[simp] theorem thenWith_ok (f : Val → Val) (v : Val) (lx : Lx) (W : World) :
    thenWith f (.ok v lx, W) = (.ok (f v) lx, W) := rfl
@[simp] theorem thenWith_err (f : Val → Val) (e : PErr) (W : World) : thenWith f (.err e, W) = (.err e, W) := rfl
@[simp] theorem thenWith_panic (f : Val → Val) (W : World) : thenWith f (.panic, W) = (.panic, W) := rfl
@[simp] theorem thenWith_fuel (f : Val → Val) (W : World) : thenWith f (.fuel, W) = (.fuel, W) := rfl

theorem thenWith_snd (f : Val → Val) (r : RRes × World) : (thenWith f r).2 = r.2 := by
  rcases r with ⟨_ | _ | _ | _, W⟩ <;> rfl

theorem thenWith_id (r : RRes × World) : thenWith (fun x => x) r = r := by
  rcases r with ⟨_ | _ | _ | _, W⟩ <;> rfl

theorem both_factor (R : RunEnv) (n : Nat) (a b : G) (lx lx1 : Lx) (ctx : Ctx) (W W1 : World) (v : Val)
    (h : run R n a lx ctx W = (.ok v lx1, W1)) :
    run R (n + 1) (.both a b) lx ctx W = thenWith (.pair v) (run R n b lx1 ctx W1) := by
  simp only [run, h]
  rcases run R n b lx1 ctx W1 with ⟨_ | _ | _ | _, W2⟩ <;> rfl

theorem left_factor (R : RunEnv) (n : Nat) (a b : G) (lx lx1 : Lx) (ctx : Ctx) (W W1 : World) (v : Val)
    (h : run R n a lx ctx W = (.ok v lx1, W1)) :
    run R (n + 2) (.left a b) lx ctx W = thenWith (fun _ => v) (run R n b lx1 ctx W1) := by
  simp only [run, h]
  rcases run R n b lx1 ctx W1 with ⟨_ | _ | _ | _, W2⟩ <;> rfl

theorem right_factor (R : RunEnv) (n : Nat) (a b : G) (lx lx1 : Lx) (ctx : Ctx) (W W1 : World) (v : Val)
    (h : run R n a lx ctx W = (.ok v lx1, W1)) :
    run R (n + 2) (.right a b) lx ctx W = run R n b lx1 ctx W1 := by
  simp only [run, h]
  rcases run R n b lx1 ctx W1 with ⟨_ | _ | _ | _, W2⟩ <;> rfl

/-- continuation of `center` after its first parser -/
def centerRest (R : RunEnv) (n : Nat) (b c : G) (lx1 : Lx) (ctx : Ctx) (W1 : World) : RRes × World :=
  match run R n b lx1 ctx W1 with
  | (.ok v2 lx2, W2) => thenWith (fun _ => v2) (run R n c lx2 ctx W2)
  | r => r

theorem center_factor (R : RunEnv) (n : Nat) (a b c : G) (lx lx1 : Lx) (ctx : Ctx) (W W1 : World) (v : Val)
    (h : run R n a lx ctx W = (.ok v lx1, W1)) :
    run R (n + 1) (.center a b c) lx ctx W = centerRest R n b c lx1 ctx W1 := by
  simp only [run, h, centerRest]
  rcases run R n b lx1 ctx W1 with ⟨_ | _ | _ | _, W2⟩ <;> rfl

/-- the earlier sibling does not succeed: the later one is not run at all. -/
theorem both_stop (R : RunEnv) (n : Nat) (a b : G) (lx : Lx) (ctx : Ctx) (W : World)
    (h : ∀ v lx1, (run R n a lx ctx W).1 ≠ .ok v lx1) :
    run R (n + 1) (.both a b) lx ctx W = run R n a lx ctx W := by
  simp only [run]
  rcases hr : run R n a lx ctx W with ⟨_ | _ | _ | _, W2⟩ <;> try rfl
  exact absurd (by rw [hr]) (h _ _)

/-- replacing the earlier sibling by an observationally equal one (at this
lexer, context, world and fuel) does not change the combinator. -/
theorem seq_congr (R : RunEnv) (k : Nat) (w a : G) (lx : Lx) (ctx : Ctx) (W : World)
    (h : run R k w lx ctx W = run R k a lx ctx W) (b c : G) :
    run R (k + 1) (.both w b) lx ctx W = run R (k + 1) (.both a b) lx ctx W ∧
    run R (k + 2) (.left w b) lx ctx W = run R (k + 2) (.left a b) lx ctx W ∧
    run R (k + 2) (.right w b) lx ctx W = run R (k + 2) (.right a b) lx ctx W ∧
    run R (k + 1) (.center w b c) lx ctx W = run R (k + 1) (.center a b c) lx ctx W := by
  refine ⟨?_, ?_, ?_, ?_⟩ <;> simp only [run, h]

/-! ### `maybe` -/

theorem maybe_run (R : RunEnv) (n : Nat) (a : G) (lx : Lx) (ctx : Ctx) (W : World) :
    run R (n + 1) (.maybe a) lx ctx W =
      match run R n a lx ctx.withoutSink W with
      | (.ok v lx1, W1) => (.ok (.some v) lx1, W1)
      | (.err _, W1) => (.ok .none lx, W1)
      | r => r := by
  simp only [run]
  rcases run R n a lx ctx.withoutSink W with ⟨_ | _ | _ | _, W2⟩ <;> rfl

theorem maybe_ok (R : RunEnv) (n : Nat) (a : G) (lx lx1 : Lx) (ctx : Ctx) (W W1 : World) (v : Val)
    (h : run R n a lx ctx.withoutSink W = (.ok v lx1, W1)) :
    run R (n + 1) (.maybe a) lx ctx W = (.ok (.some v) lx1, W1) := by
  simp only [run, h]

theorem maybe_err (R : RunEnv) (n : Nat) (a : G) (lx : Lx) (ctx : Ctx) (W W1 : World) (e : PErr)
    (h : run R n a lx ctx.withoutSink W = (.err e, W1)) :
    run R (n + 1) (.maybe a) lx ctx W = (.ok .none lx, W1) ∧ W1.log = W.log := by
  refine ⟨by simp only [run, h], ?_⟩
  have := WorldFrame.run_nosink_log R n a lx ctx.withoutSink W rfl
  rwa [h] at this

/-! ### `filter_with`, `unfiltered` -/

theorem filterWith_run (R : RunEnv) (n : Nat) (k : Nat) (a : G) (lx : Lx) (ctx : Ctx) (W : World) :
    run R (n + 1) (.filterWith k a) lx ctx W =
      match run R n a (lx.setFilter R.E (some k)).2 ctx W with
      | (.ok v lx2, W2) => (.ok v (lx2.setFilter R.E lx.filter).2, W2)
      | r => r := by
  simp only [run]
  rcases run R n a _ ctx W with ⟨_ | _ | _ | _, W2⟩ <;> rfl

theorem unfiltered_run (R : RunEnv) (n : Nat) (a : G) (lx : Lx) (ctx : Ctx) (W : World) :
    run R (n + 1) (.unfiltered a) lx ctx W =
      match run R n a (lx.setFilter R.E none).2 ctx W with
      | (.ok v lx2, W2) => (.ok v (lx2.setFilter R.E lx.filter).2, W2)
      | r => r := by
  simp only [run]
  rcases run R n a _ ctx W with ⟨_ | _ | _ | _, W2⟩ <;> rfl

end Transparent
end Tephra
