/-
  C19, `SourceText::iter_columns`: the loop of `next_position` calls started at the canonical
  position of an aligned cut yields exactly the column steps of the specification
  (`Fam.Nav.specColumns`): one character, or one whole line ending, per step.
-/
import TephraProofs.Nav
import TephraModel.Fam.Nav

namespace Tephra
open Tephra.Spec Tephra.Fam.Nav

/-- One step of the specification, phrased with `firstUnit`: the head item is the first unit of the
suffix (its byte length, the canonical position after it), the tail is the same walk after it. -/
theorem specColumns_step (m : Metrics) (pre : Text) (n : Nat) {suf u : Text}
    (hu : firstUnit m suf = some u) :
    specColumns m pre (n + 1) suf
      = (bytes u, canon m (pre ++ u)) :: specColumns m (pre ++ u) n (suf.drop u.length) := by
  obtain ⟨le, tab⟩ := m
  cases suf with
  | nil => simp [firstUnit_nil] at hu
  | cons c rest =>
    have e1 : rest.length + 1 - rest.length = 1 := by omega
    cases le
    · by_cases h : c.code = 10 <;>
        (simp [firstUnit, breakAt, lbCodes, stripCodes, h, e1] at hu; subst hu; simp [specColumns])
    · by_cases h : c.code = 13 <;>
        (simp [firstUnit, breakAt, lbCodes, stripCodes, h, e1] at hu; subst hu; simp [specColumns])
    · cases rest with
      | nil =>
        simp [firstUnit, breakAt, lbCodes, stripCodes] at hu
        subst hu; simp [specColumns]
      | cons d rest' =>
        have e2 : rest'.length + 1 + 1 - rest'.length = 2 := by omega
        by_cases h1 : c.code = 13
        · by_cases h2 : d.code = 10
          · simp [firstUnit, breakAt, lbCodes, stripCodes, h1, h2, e2] at hu
            subst hu; simp [specColumns, h1, h2]
          · simp [firstUnit, breakAt, lbCodes, stripCodes, h1, h2] at hu
            subst hu; simp [specColumns, h1, h2]
        · simp [firstUnit, breakAt, lbCodes, stripCodes, h1] at hu
          subst hu; simp [specColumns, h1]

@[simp] theorem specColumns_zero (m : Metrics) (pre suf : Text) : specColumns m pre 0 suf = [] := by
  cases suf <;> rfl

@[simp] theorem specColumns_nil (m : Metrics) (pre : Text) (n : Nat) : specColumns m pre n [] = [] := by
  cases n <;> rfl

/-- `iter_columns` from the canonical position of an aligned cut: never panics and yields the
specified column steps. -/
theorem iterColumns_cut {m : Metrics} (n : Nat) {pre suf : Text} (hwf : Text.WF (pre ++ suf))
    (hal : aligned m pre suf = true) :
    iterColumns m (pre ++ suf) n (canon m pre) = .ok (specColumns m pre n suf) := by
  induction n generalizing pre suf with
  | zero => simp [iterColumns]
  | succ n ih =>
    have hws := (WF_append.mp hwf).2
    rw [iterColumns, nextPosition_cut hwf hal]
    cases hu : firstUnit m suf with
    | none =>
      have := firstUnit_eq_none hu; subst this; simp
    | some u =>
      obtain ⟨rest, e, hne, halu⟩ := firstUnit_some hws hu
      rw [specColumns_step m pre n hu]
      subst e
      have hwf' : Text.WF ((pre ++ u) ++ rest) := by rwa [List.append_assoc]
      have hal' : aligned m (pre ++ u) rest = true := by
        rwa [aligned_append_left m pre rest hne]
      have := ih hwf' hal'
      rw [List.append_assoc] at this
      simp [this]

end Tephra
