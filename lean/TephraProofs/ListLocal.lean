/-
  TephraProofs.ListLocal — C11: a syntactic sufficient condition for the locality
  hypothesis of the list theorems.  If no primitive of the item can match a token
  of one of the boundary kinds `bs` (separator / abort kinds), and the item uses
  neither `end_of_text` nor `seq_count` nor a stop parser, then the reference
  evaluator's verdict on a stream is its verdict on the tokens before the first
  boundary token (`loc_sim`).
-/
import TephraProofs.RunMatchers
import TephraProofs.PegRefine
import TephraProofs.PegFuel
import TephraProofs.ListRefine

set_option linter.unusedVariables false
set_option linter.unusedSimpArgs false

namespace Tephra.ListLocal
open Tephra Tephra.Spec Tephra.LexIter Tephra.PegRefine

/-- the item fragment: `pegWithRep` without `end_of_text`, `seq_count`, stop parsers, and with
no primitive able to match a boundary kind -/
def locG (bs : List Nat) : G → Bool
  | .empty => true
  | .one k => !bs.contains k
  | .any ks | .anyIndex ks => !ks.isEmpty && ks.all (fun k => !bs.contains k)
  | .seq ks => ks.all (fun k => !bs.contains k)
  | .pred p => bs.all (fun k => !p.eval ⟨k, 0⟩)
  | .left a b | .right a b | .both a b | .either a b | .implies a b | .antecedent a b | .consequent a b =>
    locG bs a && locG bs b
  | .center a b c => locG bs a && locG bs b && locG bs c
  | .map a | .discard a | .maybe a | .requireIf _ a | .cond _ a | .someOf a => locG bs a
  | .condImplies a _ b => locG bs a && locG bs b
  | .repeat_ _ lo hi a => !hiBelow hi lo && locG bs a
  | .intersperse _ lo hi a sp => !hiBelow hi lo && locG bs a && locG bs sp
  | .intersperseDefault lo hi a k => !hiBelow hi lo && locG bs a && !bs.contains k
  | _ => false

theorem locG_withRep (bs : List Nat) : ∀ g, locG bs g = true → pegWithRep g = true := by
  intro g
  induction g <;> simp_all [locG, pegWithRep]

theorem locG_noUntil (bs : List Nat) : ∀ g, locG bs g = true → PegFuel.noUntil g = true := by
  intro g
  induction g <;> simp_all [locG, PegFuel.noUntil]

theorem PE.eval_kind (p : PE) (t : Tok) : p.eval t = p.eval ⟨t.kind, 0⟩ := by
  induction p <;> simp_all [PE.eval]

/-! ### `pop` and `view` -/

theorem pop_view_nil {s : PState} (h : s.view = []) : s.pop = none := by
  cases hp : s.pop with
  | none => rfl
  | some x => exact absurd h (view_ne_nil_of_pop_some hp)

theorem view_of_pop_some {s : PState} {r s'} (h : s.pop = some (r, s')) : s.view = r :: s'.view :=
  ListRefine.view_of_pop_some h

theorem pop_filter {s : PState} {r s'} (h : s.pop = some (r, s')) : s'.filter = s.filter := by
  obtain ⟨post, _, rfl⟩ := pop_some_iff.mp h
  rfl

theorem pop_view_cons {s : PState} {r V} (h : s.view = r :: V) :
    ∃ s', s.pop = some (r, s') ∧ s'.view = V ∧ s'.filter = s.filter := by
  cases hp : s.pop with
  | none => rw [view_nil_of_pop_none hp] at h; cases h
  | some x =>
    obtain ⟨r', s'⟩ := x
    have := view_of_pop_some hp
    rw [h] at this
    injection this with e1 e2
    subst e1
    exact ⟨s', rfl, e2.symm, pop_filter hp⟩

/-! ### the locality relation -/

/-- `t` is the isolated segment of `s`: same filter, `s` continues with `tl` after what `t` has left,
and `t` holds no boundary token. -/
structure Loc (bs : List Nat) (tl : List (RawTok Tok)) (s t : PState) : Prop where
  filt : s.filter = t.filter
  view : s.view = t.view ++ tl
  inner : ∀ r ∈ t.view, bs.contains r.tok.kind = false

/-- the rest of the stream is empty or starts with a boundary token -/
def TlOK (bs : List Nat) (tl : List (RawTok Tok)) : Prop :=
  ∀ b rest, tl = b :: rest → bs.contains b.tok.kind = true

/-- results related by locality -/
def ResLoc (bs : List Nat) (tl : List (RawTok Tok)) (rs rt : PRes) : Prop :=
  match rt with
  | .ok v t' => ∃ s', rs = .ok v s' ∧ Loc bs tl s' t'
  | .fail => rs = .fail
  | .fuel => rs = .fuel
  | .unsupported => rs = .unsupported

section
variable {bs : List Nat} {tl : List (RawTok Tok)}

theorem Loc.pop_some {s t : PState} (h : Loc bs tl s t) {r t'} (hp : t.pop = some (r, t')) :
    ∃ s', s.pop = some (r, s') ∧ Loc bs tl s' t' ∧ bs.contains r.tok.kind = false := by
  have hv := view_of_pop_some hp
  have hs := h.view
  rw [hv, List.cons_append] at hs
  obtain ⟨s', h1, h2, h3⟩ := pop_view_cons hs
  refine ⟨s', h1, ⟨by rw [h3, h.filt, pop_filter hp], h2, ?_⟩, h.inner r (by rw [hv]; simp)⟩
  intro x hx
  exact h.inner x (by rw [hv]; simp [hx])

theorem Loc.pop_none {s t : PState} (h : Loc bs tl s t) (htl : TlOK bs tl) (hp : t.pop = none) :
    s.pop = none ∨ ∃ b s', s.pop = some (b, s') ∧ bs.contains b.tok.kind = true := by
  have hv := view_nil_of_pop_none hp
  have hs := h.view
  rw [hv, List.nil_append] at hs
  cases tl with
  | nil => exact Or.inl (pop_view_nil hs)
  | cons b rest =>
    obtain ⟨s', h1, _, _⟩ := pop_view_cons hs
    exact Or.inr ⟨b, s', h1, htl b rest rfl⟩

theorem ResLoc.bind {rs rt : PRes} {ks kt : Val → PState → PRes} (h : ResLoc bs tl rs rt)
    (hk : ∀ v s' t', Loc bs tl s' t' → ResLoc bs tl (ks v s') (kt v t')) :
    ResLoc bs tl (bindOk rs ks) (bindOk rt kt) := by
  cases rt with
  | ok v t' =>
    obtain ⟨s', rfl, hl⟩ := h
    exact hk v s' t' hl
  | fail => cases h; exact rfl
  | fuel => cases h; exact rfl
  | unsupported => cases h; exact rfl

theorem ResLoc.ok {v : Val} {s' t' : PState} (h : Loc bs tl s' t') : ResLoc bs tl (.ok v s') (.ok v t') :=
  ⟨s', rfl, h⟩

/-! ### primitives -/

/-- a primitive that inspects one token with a test that rejects every boundary token -/
theorem prim_loc {s t : PState} (h : Loc bs tl s t) (htl : TlOK bs tl) (test : Tok → Option Val)
    (hb : ∀ b : Tok, bs.contains b.kind = true → test b = none) :
    ResLoc bs tl
      (match s.pop with
        | some (r, s') => (match test r.tok with | some v => PRes.ok v s' | none => .fail)
        | none => .fail)
      (match t.pop with
        | some (r, t') => (match test r.tok with | some v => PRes.ok v t' | none => .fail)
        | none => .fail) := by
  cases hp : t.pop with
  | some x =>
    obtain ⟨r, t'⟩ := x
    obtain ⟨s', h1, h2, _⟩ := h.pop_some hp
    rw [h1]
    simp only
    cases test r.tok with
    | none => exact rfl
    | some v => exact ResLoc.ok h2
  | none =>
    rcases h.pop_none htl hp with h1 | ⟨b, s', h1, h2⟩
    · rw [h1]; exact rfl
    · rw [h1]
      simp only
      rw [hb b.tok h2]
      exact rfl

theorem prim_loc' {s t : PState} (h : Loc bs tl s t) (htl : TlOK bs tl) (c : Tok → Bool) (val : Tok → Val)
    (hb : ∀ b : Tok, bs.contains b.kind = true → c b = false) :
    ResLoc bs tl
      (match s.pop with
        | some (r, s') => if c r.tok then PRes.ok (val r.tok) s' else .fail
        | none => .fail)
      (match t.pop with
        | some (r, t') => if c r.tok then PRes.ok (val r.tok) t' else .fail
        | none => .fail) := by
  have := prim_loc h htl (fun r => if c r then some (val r) else none)
    (fun b hb' => by simp [hb b hb'])
  have e : ∀ u : PState, (match u.pop with
        | some (r, u') => (match (if c r.tok then some (val r.tok) else none) with
            | some v => PRes.ok v u' | none => .fail)
        | none => .fail) =
      (match u.pop with
        | some (r, u') => if c r.tok then PRes.ok (val r.tok) u' else .fail
        | none => .fail) := by
    intro u
    cases u.pop with
    | none => rfl
    | some x =>
      obtain ⟨r, u'⟩ := x
      simp only
      cases c r.tok <;> rfl
  simp only [e] at this
  exact this

theorem contains_of_all {ks : List Nat} (hks : ks.all (fun k => !bs.contains k) = true) {k : Nat}
    (h : ks.contains k = true) : bs.contains k = false := by
  have := List.all_eq_true.mp hks k (by simpa using h)
  simpa using this

variable (text : Text)

theorem one_loc {s t : PState} (h : Loc bs tl s t) (htl : TlOK bs tl) (n k : Nat) (hk : bs.contains k = false) :
    ResLoc bs tl (peg text (n + 1) (.one k) s) (peg text (n + 1) (.one k) t) := by
  simp only [peg]
  refine prim_loc' h htl (fun r => r.kind == k) (fun r => .tok r) ?_
  intro b hb
  cases hc : b.kind == k with
  | false => rfl
  | true =>
    have : b.kind = k := by simpa using hc
    rw [this, hk] at hb; cases hb

theorem any_loc {s t : PState} (h : Loc bs tl s t) (htl : TlOK bs tl) (n : Nat) (ks : List Nat)
    (hks : ks.all (fun k => !bs.contains k) = true) :
    ResLoc bs tl (peg text (n + 1) (.any ks) s) (peg text (n + 1) (.any ks) t) := by
  simp only [peg]
  refine prim_loc' h htl (fun r => ks.contains r.kind) (fun r => .tok ⟨r.kind, 0⟩) ?_
  intro b hb
  cases hc : ks.contains b.kind with
  | false => rfl
  | true => rw [contains_of_all hks hc] at hb; cases hb

theorem pred_loc {s t : PState} (h : Loc bs tl s t) (htl : TlOK bs tl) (n : Nat) (p : PE)
    (hp : bs.all (fun k => !p.eval ⟨k, 0⟩) = true) :
    ResLoc bs tl (peg text (n + 1) (.pred p) s) (peg text (n + 1) (.pred p) t) := by
  simp only [peg]
  refine prim_loc' h htl (fun r => p.eval r) (fun r => .tok r) ?_
  intro b hb
  have := List.all_eq_true.mp hp b.kind (by simpa using hb)
  rw [PE.eval_kind]
  simpa using this

theorem anyIndex_loc {s t : PState} (h : Loc bs tl s t) (htl : TlOK bs tl) (n : Nat) (ks : List Nat)
    (hks : ks.all (fun k => !bs.contains k) = true) :
    ResLoc bs tl (peg text (n + 1) (.anyIndex ks) s) (peg text (n + 1) (.anyIndex ks) t) := by
  simp only [peg]
  cases hp : t.pop with
  | some x =>
    obtain ⟨r, t'⟩ := x
    obtain ⟨s', h1, h2, _⟩ := h.pop_some hp
    rw [h1]
    simp only
    cases ks.findIdx? (· == r.tok.kind) with
    | none => exact rfl
    | some i => exact ResLoc.ok h2
  | none =>
    rcases h.pop_none htl hp with h1 | ⟨b, s', h1, h2⟩
    · rw [h1]; exact rfl
    · rw [h1]
      simp only
      cases hf : ks.findIdx? (· == b.tok.kind) with
      | none => exact rfl
      | some i =>
        exfalso
        rw [List.findIdx?_eq_some_iff_getElem] at hf
        obtain ⟨hi, hx, _⟩ := hf
        have hmem : ks.contains b.tok.kind = true := by
          have : ks[i] = b.tok.kind := by simpa using hx
          rw [← this]
          simp
        rw [contains_of_all hks hmem] at h2; cases h2

theorem seq_loc (htl : TlOK bs tl) : ∀ (ks : List Nat), ks.all (fun k => !bs.contains k) = true →
    ∀ (s t : PState) (acc : List Tok), Loc bs tl s t → ResLoc bs tl (pegSeq ks s acc) (pegSeq ks t acc) := by
  intro ks
  induction ks with
  | nil => intro _ s t acc h; simp only [pegSeq]; exact ResLoc.ok h
  | cons k ks ih =>
    intro hks s t acc h
    simp only [List.all_cons, Bool.and_eq_true] at hks
    have hk : bs.contains k = false := by simpa using hks.1
    simp only [pegSeq]
    cases hp : t.pop with
    | some x =>
      obtain ⟨r, t'⟩ := x
      obtain ⟨s', h1, h2, _⟩ := h.pop_some hp
      rw [h1]
      simp only
      split
      · exact ih hks.2 s' t' _ h2
      · exact rfl
    | none =>
      rcases h.pop_none htl hp with h1 | ⟨b, s', h1, h2⟩
      · rw [h1]; exact rfl
      · rw [h1]
        simp only
        split
        · next hc =>
          have : b.tok.kind = k := by simpa using hc
          rw [this, hk] at h2; cases h2
        · exact rfl

theorem ResLoc.inv {rs rt : PRes} (h : ResLoc bs tl rs rt) :
    (∃ v s' t', rs = .ok v s' ∧ rt = .ok v t' ∧ Loc bs tl s' t') ∨ (rs = .fail ∧ rt = .fail) ∨
    (rs = .fuel ∧ rt = .fuel) ∨ (rs = .unsupported ∧ rt = .unsupported) := by
  cases rt with
  | ok v t' => obtain ⟨s', e, hl⟩ := h; exact Or.inl ⟨v, s', t', e, rfl, hl⟩
  | fail => exact Or.inr (Or.inl ⟨h, rfl⟩)
  | fuel => exact Or.inr (Or.inr (Or.inl ⟨h, rfl⟩))
  | unsupported => exact Or.inr (Or.inr (Or.inr ⟨h, rfl⟩))

theorem ResLoc.fail' : ResLoc bs tl .fail .fail := rfl
theorem ResLoc.fuel' : ResLoc bs tl .fuel .fuel := rfl
theorem ResLoc.unsup' : ResLoc bs tl .unsupported .unsupported := rfl

theorem ResLoc.countOfP {v : Nat} {rs rt : PRes} (h : ResLoc bs tl rs rt) :
    ResLoc bs tl (countOfP v rs) (countOfP v rt) := by
  unfold Spec.countOfP
  split
  · exact h
  · rcases h.inv with ⟨x, s', t', rfl, rfl, hl⟩ | ⟨rfl, rfl⟩ | ⟨rfl, rfl⟩ | ⟨rfl, rfl⟩
    · cases x <;> first | exact ResLoc.ok hl | exact ⟨_, rfl, hl⟩
    · exact rfl
    · exact rfl
    · exact rfl

/-- locality for all fuelled functions of the reference evaluator at one fuel -/
structure LocAt (text : Text) (bs : List Nat) (tl : List (RawTok Tok)) (n : Nat) : Prop where
  peg : ∀ g s t, locG bs g = true → Loc bs tl s t → ResLoc bs tl (peg text n g s) (peg text n g t)
  rep : ∀ lo hi a sep s t, locG bs a = true → locG bs sep = true → Loc bs tl s t →
    ResLoc bs tl (pegRep text n lo hi none a sep s) (pegRep text n lo hi none a sep t)
  loop : ∀ lo hi a sep vals s t, locG bs a = true → locG bs sep = true → Loc bs tl s t →
    ResLoc bs tl (pegRepLoop text n lo hi none a sep vals s) (pegRepLoop text n lo hi none a sep vals t)

theorem locAt_zero : LocAt text bs tl 0 := by
  constructor <;> intros <;> simp only [peg, pegRep, pegRepLoop] <;> exact rfl

/-- chain of `bindOk` -/
macro "loc_bind" : tactic => `(tactic|
  (repeat' (first
    | exact ResLoc.ok ‹_›
    | (refine ResLoc.bind ?_ (fun _ _ _ _ => ?_))
    | (apply ‹∀ g s t, locG _ g = true → Loc _ _ s t → ResLoc _ _ (peg _ _ g s) (peg _ _ g t)› <;>
        first | assumption | exact (And.left ‹_ ∧ _›) | exact (And.right ‹_ ∧ _›)
              | exact (And.left (And.left ‹(_ ∧ _) ∧ _›)) | exact (And.right (And.left ‹(_ ∧ _) ∧ _›))))))

theorem peg_loc_step (htl : TlOK bs tl) {n : Nat} (ih : LocAt text bs tl n) : ∀ g s t, locG bs g = true →
    Loc bs tl s t → ResLoc bs tl (peg text (n + 1) g s) (peg text (n + 1) g t) := by
  obtain ⟨ihp, ihr, ihl⟩ := ih
  intro g s t hg h
  cases g <;> simp only [locG, Bool.and_eq_true, Bool.not_eq_true', Bool.false_eq_true] at hg
  case empty => simp only [peg]; exact ResLoc.ok h
  case one k => exact one_loc text h htl n k hg
  case any ks => exact any_loc text h htl n ks hg.2
  case anyIndex ks => exact anyIndex_loc text h htl n ks hg.2
  case seq ks => simp only [peg]; exact seq_loc htl ks hg s t [] h
  case pred p => exact pred_loc text h htl n p hg
  case left a b => simp only [peg]; loc_bind
  case right a b => simp only [peg]; loc_bind
  case both a b => simp only [peg]; loc_bind
  case center a b c => simp only [peg]; loc_bind
  case map a => simp only [peg]; loc_bind
  case someOf a => simp only [peg]; loc_bind
  case discard a => simp only [peg]; loc_bind
  case either a b =>
    simp only [peg]
    rcases (ihp a s t hg.1 h).inv with ⟨v, s1, t1, e1, e2, hl⟩ | ⟨e1, e2⟩ | ⟨e1, e2⟩ | ⟨e1, e2⟩ <;> rw [e1, e2]
    · exact ResLoc.ok hl
    · exact ihp b s t hg.2 h
    · exact rfl
    · exact rfl
  case maybe a =>
    simp only [peg]
    rcases (ihp a s t hg h).inv with ⟨v, s1, t1, e1, e2, hl⟩ | ⟨e1, e2⟩ | ⟨e1, e2⟩ | ⟨e1, e2⟩ <;> rw [e1, e2]
    · exact ResLoc.ok hl
    · exact ResLoc.ok h
    · exact rfl
    · exact rfl
  case requireIf flag a =>
    simp only [peg]
    cases flag
    · simp only [Bool.false_eq_true, if_false]
      exact ihp (.maybe a) s t (by simpa [locG] using hg) h
    · simp only [if_true]; loc_bind
  case cond flag a =>
    simp only [peg]
    cases flag
    · simp only [Bool.false_eq_true, if_false]; exact ResLoc.ok h
    · simp only [if_true]; loc_bind
  case implies a b =>
    simp only [peg]
    rcases (ihp a s t hg.1 h).inv with ⟨v, s1, t1, e1, e2, hl⟩ | ⟨e1, e2⟩ | ⟨e1, e2⟩ | ⟨e1, e2⟩ <;> rw [e1, e2]
    · simp only; loc_bind
    · exact ResLoc.ok h
    · exact rfl
    · exact rfl
  case antecedent a b =>
    simp only [peg]
    rcases (ihp a s t hg.1 h).inv with ⟨v, s1, t1, e1, e2, hl⟩ | ⟨e1, e2⟩ | ⟨e1, e2⟩ | ⟨e1, e2⟩ <;> rw [e1, e2]
    · simp only; loc_bind
    · exact ResLoc.ok h
    · exact rfl
    · exact rfl
  case consequent a b =>
    simp only [peg]
    rcases (ihp a s t hg.1 h).inv with ⟨v, s1, t1, e1, e2, hl⟩ | ⟨e1, e2⟩ | ⟨e1, e2⟩ | ⟨e1, e2⟩ <;> rw [e1, e2]
    · simp only; loc_bind
    · exact ResLoc.ok h
    · exact rfl
    · exact rfl
  case condImplies a k b =>
    simp only [peg]
    rcases (ihp a s t hg.1 h).inv with ⟨v, s1, t1, e1, e2, hl⟩ | ⟨e1, e2⟩ | ⟨e1, e2⟩ | ⟨e1, e2⟩ <;> rw [e1, e2]
    · simp only
      split
      · split
        · loc_bind
        · exact ResLoc.ok hl
      · simp only [Bool.false_eq_true, if_false]
        exact ResLoc.ok hl
    · exact ResLoc.ok h
    · exact rfl
    · exact rfl
  case repeat_ v lo hi a =>
    simp only [peg]
    exact (ihr lo hi a .empty s t hg.2 rfl h).countOfP
  case intersperse v lo hi a sp =>
    simp only [peg]
    exact (ihr lo hi a sp s t hg.1.2 hg.2 h).countOfP
  case intersperseDefault lo hi a k =>
    simp only [peg]
    exact ihr lo hi a (.one k) s t hg.1.2 (by simpa [locG] using hg.2) h

theorem rep_loc_step {n : Nat} (ih : LocAt text bs tl n) : ∀ lo hi a sep s t, locG bs a = true →
    locG bs sep = true → Loc bs tl s t →
    ResLoc bs tl (pegRep text (n + 1) lo hi none a sep s) (pegRep text (n + 1) lo hi none a sep t) := by
  obtain ⟨ihp, ihr, ihl⟩ := ih
  intro lo hi a sep s t ha hs h
  simp only [pegRep]
  split
  · exact ResLoc.ok h
  · exact ihl lo hi a sep [] s t ha hs h

theorem loop_loc_step {n : Nat} (ih : LocAt text bs tl n) : ∀ lo hi a sep vals s t, locG bs a = true →
    locG bs sep = true → Loc bs tl s t →
    ResLoc bs tl (pegRepLoop text (n + 1) lo hi none a sep vals s)
      (pegRepLoop text (n + 1) lo hi none a sep vals t) := by
  obtain ⟨ihp, ihr, ihl⟩ := ih
  intro lo hi a sep vals s t ha hs h
  simp only [pegRepLoop]
  split
  · exact ResLoc.ok h
  · simp only [Bool.false_eq_true, if_false]
    have hnext : ResLoc bs tl
        (if vals.isEmpty = true then peg text n a s else bindOk (peg text n sep s) fun _ s1 => peg text n a s1)
        (if vals.isEmpty = true then peg text n a t else bindOk (peg text n sep t) fun _ s1 => peg text n a s1) := by
      split
      · exact ihp a s t ha h
      · exact ResLoc.bind (ihp sep s t hs h) (fun _ s' t' hl => ihp a s' t' ha hl)
    rcases hnext.inv with ⟨v, s1, t1, e1, e2, hl⟩ | ⟨e1, e2⟩ | ⟨e1, e2⟩ | ⟨e1, e2⟩ <;> rw [e1, e2]
    · exact ihl lo hi a sep (v :: vals) s1 t1 ha hs hl
    · simp only
      split
      · exact rfl
      · exact ResLoc.ok h
    · exact rfl
    · exact rfl

theorem locAt (htl : TlOK bs tl) : ∀ n, LocAt text bs tl n
  | 0 => locAt_zero text
  | n + 1 => ⟨peg_loc_step text htl (locAt htl n), rep_loc_step text (locAt htl n), loop_loc_step text (locAt htl n)⟩

/-- **Locality of the fragment**: from states related by `Loc`, the reference evaluator
gives related results. -/
theorem loc_sim (htl : TlOK bs tl) (n : Nat) (g : G) (s t : PState) (hg : locG bs g = true) (h : Loc bs tl s t) :
    ResLoc bs tl (peg text n g s) (peg text n g t) :=
  (locAt text htl n).peg g s t hg h

end

/-! ### the hypotheses of the list theorems from the fragment -/

open Tephra.ListRefine in
theorem loc_iso (f : Option Nat) (sep : Nat) (abort : List Nat) (s : PState) (hf : s.filter = f) :
    Loc (sep :: abort) (tailOf sep abort s.view) s (iso f (segOf sep abort s.view)) ∧
    TlOK (sep :: abort) (tailOf sep abort s.view) := by
  have hisov : (iso f (segOf sep abort s.view)).view = segOf sep abort s.view := by
    show (segOf sep abort s.view).filter (fun r => keeps f r.tok) = _
    rw [List.filter_eq_self]
    intro r hr
    have hm : r ∈ s.view := by
      have := seg_tail sep abort s.view
      rw [← this]; exact List.mem_append_left _ hr
    have := (List.mem_filter.mp hm).2
    rw [hf] at this
    exact this
  refine ⟨⟨hf, ?_, ?_⟩, ?_⟩
  · rw [hisov]; exact (seg_tail sep abort s.view).symm
  · intro r hr
    rw [hisov] at hr
    rw [contains_bnd]; exact seg_mem hr
  · intro b rest hb
    rw [contains_bnd]; exact tail_head hb

open Tephra.ListRefine in
/-- **The syntactic fragment satisfies the locality hypothesis.**  Non-nullability remains a
semantic hypothesis. -/
theorem itemHyp_of_locG (text : Text) (f : Option Nat) (a : G) (sep : Nat) (abort : List Nat)
    (hloc : locG (sep :: abort) a = true)
    (hnn : ∀ k (s : PState) v s', s.filter = f → peg text k a s = .ok v s' → s'.view.length < s.view.length) :
    ItemHyp text f a sep abort := by
  refine ⟨locG_withRep _ a hloc, hnn, ?_, ?_⟩
  · intro k s v s' hf hpeg
    obtain ⟨hl, htl⟩ := loc_iso f sep abort s hf
    have := loc_sim text htl k a s _ hloc hl
    rcases this.inv with ⟨v2, s2, t2, e1, e2, hl2⟩ | ⟨e1, _⟩ | ⟨e1, _⟩ | ⟨e1, _⟩
    · rw [hpeg] at e1
      cases e1
      refine ⟨t2, e2, hl2.view, ?_⟩
      intro r hr
      rw [← contains_bnd]; exact hl2.inner r hr
    · rw [hpeg] at e1; cases e1
    · rw [hpeg] at e1; cases e1
    · rw [hpeg] at e1; cases e1
  · intro k s hf hpeg
    obtain ⟨hl, htl⟩ := loc_iso f sep abort s hf
    have := loc_sim text htl k a s _ hloc hl
    rcases this.inv with ⟨v2, s2, t2, e1, e2, hl2⟩ | ⟨_, e2⟩ | ⟨e1, _⟩ | ⟨e1, _⟩
    · rw [hpeg] at e1; cases e1
    · exact e2
    · rw [hpeg] at e1; cases e1
    · rw [hpeg] at e1; cases e1

/-! ### a syntactic sufficient condition for non-nullability -/

/-- conservatively: the grammar consumes at least one kept token whenever it succeeds -/
def nnG : G → Bool
  | .one _ | .any _ | .anyIndex _ | .pred _ => true
  | .seq ks => !ks.isEmpty
  | .left a b | .right a b | .both a b => nnG a || nnG b
  | .center a b c => nnG a || nnG b || nnG c
  | .map a | .discard a | .someOf a => nnG a
  | .either a b => nnG a && nnG b
  | .requireIf flag a | .cond flag a => flag && nnG a
  | .repeat_ _ lo _ a => decide (1 ≤ lo) && nnG a
  | .intersperse _ lo _ a _ => decide (1 ≤ lo) && nnG a
  | .intersperseDefault lo _ a _ => decide (1 ≤ lo) && nnG a
  | _ => false

/-- `s'` is `s` after consuming some (`strict`: at least one) kept tokens, same filter -/
def Shr (strict : Bool) (s s' : PState) : Prop :=
  s'.filter = s.filter ∧ s'.view.length + (if strict then 1 else 0) ≤ s.view.length

theorem Shr.refl (s : PState) : Shr false s s := ⟨rfl, by simp⟩

theorem Shr.weaken {b b' : Bool} {s s' : PState} (h : Shr b s s') (hb : b' = true → b = true) : Shr b' s s' := by
  refine ⟨h.1, ?_⟩
  have := h.2
  cases b' <;> cases b <;> simp_all <;> omega

theorem Shr.trans {b1 b2 : Bool} {s s1 s2 : PState} (h1 : Shr b1 s s1) (h2 : Shr b2 s1 s2) :
    Shr (b1 || b2) s s2 := by
  refine ⟨h2.1.trans h1.1, ?_⟩
  have e : s2.view = s2.view := rfl
  have a1 := h1.2
  have a2 := h2.2
  cases b1 <;> cases b2 <;> simp_all <;> omega

theorem Shr.pop {s : PState} {r s'} (h : s.pop = some (r, s')) : Shr true s s' := by
  refine ⟨pop_filter h, ?_⟩
  rw [view_of_pop_some h]; simp

theorem bindOk_ok {r : PRes} {k : Val → PState → PRes} {v s'} (h : bindOk r k = .ok v s') :
    ∃ v1 s1, r = .ok v1 s1 ∧ k v1 s1 = .ok v s' := by
  cases r with
  | ok v1 s1 => exact ⟨v1, s1, rfl, h⟩
  | _ => cases h

theorem countOfP_ok {c : Nat} {r : PRes} {v s'} (h : countOfP c r = .ok v s') : ∃ v1, r = .ok v1 s' := by
  unfold Spec.countOfP at h
  split at h
  · exact ⟨v, h⟩
  · split at h
    · cases h; exact ⟨_, rfl⟩
    · exact ⟨v, h⟩

theorem pegSeq_shr : ∀ (ks : List Nat) (s : PState) (acc : List Tok) v s', pegSeq ks s acc = .ok v s' →
    Shr (!ks.isEmpty) s s' := by
  intro ks
  induction ks with
  | nil => intro s acc v s' h; simp only [pegSeq] at h; cases h; exact Shr.refl s
  | cons k ks ih =>
    intro s acc v s' h
    simp only [pegSeq] at h
    split at h
    · next r s1 hp =>
      split at h
      · exact ((Shr.pop hp).trans (ih _ _ _ _ h)).weaken (fun _ => rfl)
      · cases h
    · cases h

/-- the statement for one fuel -/
structure ShrAt (text : Text) (bs : List Nat) (n : Nat) : Prop where
  peg : ∀ g s v s', locG bs g = true → peg text n g s = .ok v s' → Shr (nnG g) s s'
  rep : ∀ lo hi a sep s v s', locG bs a = true → locG bs sep = true → hiBelow hi lo = false →
    pegRep text n lo hi none a sep s = .ok v s' → Shr (decide (1 ≤ lo) && nnG a) s s'
  loop : ∀ lo hi a sep vals s v s', locG bs a = true → locG bs sep = true →
    pegRepLoop text n lo hi none a sep vals s = .ok v s' →
    Shr (vals.isEmpty && decide (1 ≤ lo) && Spec.hiAllows hi 0 && nnG a) s s'

theorem shrAt_zero (text : Text) (bs : List Nat) : ShrAt text bs 0 := by
  constructor <;> intros <;> simp_all [peg, pegRep, pegRepLoop]

theorem prim_shr {s : PState} {c : Tok → Bool} {val : Tok → Val} {v s'}
    (h : (match s.pop with
        | some (r, s1) => if c r.tok then PRes.ok (val r.tok) s1 else .fail
        | none => .fail) = .ok v s') : Shr true s s' := by
  split at h
  · next r s1 hp =>
    split at h
    · cases h; exact Shr.pop hp
    · cases h
  · cases h

theorem peg_shr_step {text : Text} {bs : List Nat} {n : Nat} (ih : ShrAt text bs n) :
    ∀ g s v s', locG bs g = true → peg text (n + 1) g s = .ok v s' → Shr (nnG g) s s' := by
  obtain ⟨ihp, ihr, ihl⟩ := ih
  intro g s v s' hg h
  cases g <;> simp only [locG, Bool.and_eq_true, Bool.not_eq_true', Bool.false_eq_true] at hg <;>
    simp only [peg] at h
  case empty => cases h; exact Shr.refl s
  case one k => exact prim_shr (c := fun r => r.kind == k) (val := fun r => .tok r) h
  case any ks => exact prim_shr (c := fun r => ks.contains r.kind) (val := fun r => .tok ⟨r.kind, 0⟩) h
  case pred p => exact prim_shr (c := fun r => p.eval r) (val := fun r => .tok r) h
  case anyIndex ks =>
    split at h
    · next r s1 hp =>
      split at h
      · cases h; exact Shr.pop hp
      · cases h
    · cases h
  case seq ks => exact pegSeq_shr ks s [] v s' h
  case left a b =>
    obtain ⟨v1, s1, e1, h⟩ := bindOk_ok h
    obtain ⟨v2, s2, e2, h⟩ := bindOk_ok h
    cases h
    exact (ihp a s _ _ hg.1 e1).trans (ihp b _ _ _ hg.2 e2)
  case right a b =>
    obtain ⟨v1, s1, e1, h⟩ := bindOk_ok h
    obtain ⟨v2, s2, e2, h⟩ := bindOk_ok h
    cases h
    exact (ihp a s _ _ hg.1 e1).trans (ihp b _ _ _ hg.2 e2)
  case both a b =>
    obtain ⟨v1, s1, e1, h⟩ := bindOk_ok h
    obtain ⟨v2, s2, e2, h⟩ := bindOk_ok h
    cases h
    exact (ihp a s _ _ hg.1 e1).trans (ihp b _ _ _ hg.2 e2)
  case center a b c =>
    obtain ⟨v1, s1, e1, h⟩ := bindOk_ok h
    obtain ⟨v2, s2, e2, h⟩ := bindOk_ok h
    obtain ⟨v3, s3, e3, h⟩ := bindOk_ok h
    cases h
    exact ((ihp a s _ _ hg.1.1 e1).trans (ihp b _ _ _ hg.1.2 e2)).trans (ihp c _ _ _ hg.2 e3)
  case map a =>
    obtain ⟨v1, s1, e1, h⟩ := bindOk_ok h
    cases h
    exact ihp a s _ _ hg e1
  case someOf a =>
    obtain ⟨v1, s1, e1, h⟩ := bindOk_ok h
    cases h
    exact ihp a s _ _ hg e1
  case discard a =>
    obtain ⟨v1, s1, e1, h⟩ := bindOk_ok h
    cases h
    exact ihp a s _ _ hg e1
  case either a b =>
    cases hr : peg text n a s with
    | ok v1 s1 =>
      rw [hr] at h
      cases h
      exact (ihp a s v s' hg.1 hr).weaken (fun hb => by simp only [nnG, Bool.and_eq_true] at hb; exact hb.1)
    | fail =>
      rw [hr] at h
      exact (ihp b s v s' hg.2 h).weaken (fun hb => by simp only [nnG, Bool.and_eq_true] at hb; exact hb.2)
    | fuel => rw [hr] at h; cases h
    | unsupported => rw [hr] at h; cases h
  case maybe a =>
    cases hr : peg text n a s with
    | ok v1 s1 => rw [hr] at h; cases h; exact (ihp a s _ _ hg hr).weaken (fun hb => nomatch hb)
    | fail => rw [hr] at h; cases h; exact Shr.refl s
    | fuel => rw [hr] at h; cases h
    | unsupported => rw [hr] at h; cases h
  case requireIf flag a =>
    cases flag
    · simp only [Bool.false_eq_true, if_false] at h
      exact (ihp (.maybe a) s v s' (by simpa [locG] using hg) h).weaken (fun hb => nomatch hb)
    · simp only [if_true] at h
      obtain ⟨v1, s1, e1, h⟩ := bindOk_ok h
      cases h
      exact (ihp a s _ _ hg e1).weaken (fun hb => by simpa [nnG] using hb)
  case cond flag a =>
    cases flag
    · simp only [Bool.false_eq_true, if_false] at h
      cases h
      exact Shr.refl s
    · simp only [if_true] at h
      obtain ⟨v1, s1, e1, h⟩ := bindOk_ok h
      cases h
      exact (ihp a s _ _ hg e1).weaken (fun hb => by simpa [nnG] using hb)
  case implies a b =>
    cases hr : peg text n a s with
    | ok v1 s1 =>
      rw [hr] at h
      obtain ⟨v2, s2, e2, h⟩ := bindOk_ok h
      cases h
      exact ((ihp a s _ _ hg.1 hr).trans (ihp b _ _ _ hg.2 e2)).weaken (fun hb => nomatch hb)
    | fail => rw [hr] at h; cases h; exact Shr.refl s
    | fuel => rw [hr] at h; cases h
    | unsupported => rw [hr] at h; cases h
  case antecedent a b =>
    cases hr : peg text n a s with
    | ok v1 s1 =>
      rw [hr] at h
      obtain ⟨v2, s2, e2, h⟩ := bindOk_ok h
      cases h
      exact ((ihp a s _ _ hg.1 hr).trans (ihp b _ _ _ hg.2 e2)).weaken (fun hb => nomatch hb)
    | fail => rw [hr] at h; cases h; exact Shr.refl s
    | fuel => rw [hr] at h; cases h
    | unsupported => rw [hr] at h; cases h
  case consequent a b =>
    cases hr : peg text n a s with
    | ok v1 s1 =>
      rw [hr] at h
      obtain ⟨v2, s2, e2, h⟩ := bindOk_ok h
      cases h
      exact ((ihp a s _ _ hg.1 hr).trans (ihp b _ _ _ hg.2 e2)).weaken (fun hb => nomatch hb)
    | fail => rw [hr] at h; cases h; exact Shr.refl s
    | fuel => rw [hr] at h; cases h
    | unsupported => rw [hr] at h; cases h
  case condImplies a k b =>
    cases hr : peg text n a s with
    | ok v1 s1 =>
      rw [hr] at h
      simp only at h
      split at h
      · split at h
        · obtain ⟨v2, s2, e2, h⟩ := bindOk_ok h
          cases h
          exact ((ihp a s _ _ hg.1 hr).trans (ihp b _ _ _ hg.2 e2)).weaken (fun hb => nomatch hb)
        · cases h
          exact (ihp a s _ _ hg.1 hr).weaken (fun hb => nomatch hb)
      · simp only [Bool.false_eq_true, if_false] at h
        cases h
        exact (ihp a s _ _ hg.1 hr).weaken (fun hb => nomatch hb)
    | fail => rw [hr] at h; cases h; exact Shr.refl s
    | fuel => rw [hr] at h; cases h
    | unsupported => rw [hr] at h; cases h
  case repeat_ c lo hi a =>
    obtain ⟨v1, e1⟩ := countOfP_ok h
    exact ihr lo hi a .empty s v1 s' hg.2 rfl hg.1 e1
  case intersperse c lo hi a sp =>
    obtain ⟨v1, e1⟩ := countOfP_ok h
    exact ihr lo hi a sp s v1 s' hg.1.2 hg.2 hg.1.1 e1
  case intersperseDefault lo hi a k =>
    exact ihr lo hi a (.one k) s v s' hg.1.2 (by simpa [locG] using hg.2) hg.1.1 h

theorem rep_shr_step {text : Text} {bs : List Nat} {n : Nat} (ih : ShrAt text bs n) :
    ∀ lo hi a sep s v s', locG bs a = true → locG bs sep = true → hiBelow hi lo = false →
    pegRep text (n + 1) lo hi none a sep s = .ok v s' → Shr (decide (1 ≤ lo) && nnG a) s s' := by
  obtain ⟨ihp, ihr, ihl⟩ := ih
  intro lo hi a sep s v s' ha hs hlo h
  simp only [pegRep] at h
  split at h
  · next h0 =>
    cases h
    refine (Shr.refl s).weaken ?_
    intro hb
    have : hi = some 0 := by simpa using h0
    subst this
    simp only [hiBelow, decide_eq_false_iff_not] at hlo
    simp only [Bool.and_eq_true, decide_eq_true_eq] at hb
    omega
  · next h0 =>
    refine (ihl lo hi a sep [] s v s' ha hs h).weaken ?_
    intro hb
    simp only [Bool.and_eq_true, decide_eq_true_eq] at hb
    have hall : Spec.hiAllows hi 0 = true := by
      cases hi with
      | none => rfl
      | some x =>
        have : x ≠ 0 := fun e => h0 (by rw [e]; rfl)
        simp [Spec.hiAllows]; omega
    simp [hb.1, hb.2, hall]

theorem loop_shr_step {text : Text} {bs : List Nat} {n : Nat} (ih : ShrAt text bs n) :
    ∀ lo hi a sep vals s v s', locG bs a = true → locG bs sep = true →
    pegRepLoop text (n + 1) lo hi none a sep vals s = .ok v s' →
    Shr (vals.isEmpty && decide (1 ≤ lo) && Spec.hiAllows hi 0 && nnG a) s s' := by
  obtain ⟨ihp, ihr, ihl⟩ := ih
  intro lo hi a sep vals s v s' ha hs h
  simp only [pegRepLoop] at h
  split at h
  · next hA =>
    cases h
    refine (Shr.refl s).weaken ?_
    intro hb
    simp only [Bool.and_eq_true, decide_eq_true_eq] at hb
    have : vals = [] := by simpa using hb.1.1.1
    subst this
    simp only [List.length_nil] at hA
    rw [hb.1.2] at hA
    simp at hA
  · simp only [Bool.false_eq_true, if_false] at h
    split at h
    · next v1 s1 hnext =>
      have h2 := ihl lo hi a sep (v1 :: vals) s1 v s' ha hs h
      by_cases hv : vals.isEmpty = true
      · rw [if_pos hv] at hnext
        have h1 := ihp a s v1 s1 ha hnext
        refine (h1.trans h2).weaken ?_
        intro hb
        simp only [Bool.and_eq_true] at hb
        simp [hb.2]
      · rw [if_neg hv] at hnext
        refine ((?_ : Shr false s s1).trans h2).weaken ?_
        · obtain ⟨v0, s0, e0, e1⟩ := bindOk_ok hnext
          exact ((ihp sep s v0 s0 hs e0).trans (ihp a s0 v1 s1 ha e1)).weaken (fun hb => nomatch hb)
        · intro hb
          simp only [Bool.and_eq_true] at hb
          exact absurd hb.1.1.1 hv
    · split at h
      · cases h
      · next hlt =>
        cases h
        refine (Shr.refl s).weaken ?_
        intro hb
        simp only [Bool.and_eq_true, decide_eq_true_eq] at hb
        have : vals = [] := by simpa using hb.1.1.1
        subst this
        simp only [List.length_nil] at hlt
        omega
    · next hne1 hne2 =>
      exfalso
      exact hne1 v s' h

theorem shrAt (text : Text) (bs : List Nat) : ∀ n, ShrAt text bs n
  | 0 => shrAt_zero text bs
  | n + 1 => ⟨peg_shr_step (shrAt text bs n), rep_shr_step (shrAt text bs n), loop_shr_step (shrAt text bs n)⟩

/-- A grammar of the fragment that is syntactically non-nullable consumes at least one kept token. -/
theorem nonnull_of_nnG (text : Text) (bs : List Nat) (a : G) (hloc : locG bs a = true) (hnn : nnG a = true)
    (k : Nat) (s : PState) (v : Val) (s' : PState) (h : peg text k a s = .ok v s') :
    s'.view.length < s.view.length := by
  have := (shrAt text bs k).peg a s v s' hloc h
  rw [hnn] at this
  have := this.2
  simp at this
  omega

open Tephra.ListRefine in
/-- **Decidable sufficient condition for the hypotheses of the list theorems.** -/
theorem itemHyp_of_syntax (text : Text) (f : Option Nat) (a : G) (sep : Nat) (abort : List Nat)
    (hloc : locG (sep :: abort) a = true) (hnn : nnG a = true) : ItemHyp text f a sep abort :=
  itemHyp_of_locG text f a sep abort hloc
    (fun k s v s' _ h => nonnull_of_nnG text _ a hloc hnn k s v s' h)

end Tephra.ListLocal
