/-
  TephraProofs.WorldFrame — C09 (world half) and C08 (first clause): `run`
  only ever appends to the sink log and to the probe log, and without a sink
  nothing is logged at all.
-/
import TephraModel.Run
import TephraProofs.RunMatchers

set_option linter.unusedVariables false

namespace Tephra
namespace WorldFrame

/-- `W'` extends `W`: both logs grow at the end only; when no sink is
reachable (`s = false`) the sink log is unchanged. -/
def WR (s : Bool) (W W' : World) : Prop :=
  W.log <+: W'.log ∧ W.probes <+: W'.probes ∧ (s = false → W'.log = W.log)

theorem WR.refl (s : Bool) (W : World) : WR s W W :=
  ⟨List.prefix_refl _, List.prefix_refl _, fun _ => rfl⟩

theorem WR.trans {s : Bool} {a b c : World} (h1 : WR s a b) (h2 : WR s b c) : WR s a c :=
  ⟨h1.1.trans h2.1, h1.2.1.trans h2.2.1, fun h => (h2.2.2 h).trans (h1.2.2 h)⟩

theorem WR.mono {s : Bool} {a b : World} (h : WR false a b) : WR s a b :=
  ⟨h.1, h.2.1, fun _ => h.2.2 rfl⟩

theorem WR.of_eq {s : Bool} {a b : World} (hl : b.log = a.log) (hp : b.probes = a.probes) : WR s a b :=
  ⟨by rw [hl]; exact List.prefix_refl _, by rw [hp]; exact List.prefix_refl _, fun _ => hl⟩

@[simp] theorem withoutSink_sink (c : Ctx) : c.withoutSink.sink = false := rfl
@[simp] theorem rawCtx_sink (c : Ctx) : c.rawCtx.sink = c.sink := rfl
@[simp] theorem pushed_sink (c : Ctx) (t : Nat) : (c.pushed t).sink = c.sink := by
  unfold Ctx.pushed; split <;> rfl

theorem sendError_WR (c : Ctx) (e : PErr) (W : World) : WR c.sink W (sendError c e W).2 := by
  unfold sendError
  cases h : c.sink
  · simp [WR.refl]
  · exact ⟨by simp, by simp, by simp⟩

theorem sendError_WR' {c : Ctx} {e : PErr} {W W' : World} {o : Option PErr} (h : sendError c e W = (o, W')) :
    WR c.sink W W' := by
  have := sendError_WR c e W; rwa [h] at this

@[simp] theorem register_log (W : World) (id : Nat) (r : Rec) : (W.register id r).log = W.log := by
  unfold World.register; split <;> rfl
@[simp] theorem register_probes (W : World) (id : Nat) (r : Rec) : (W.register id r).probes = W.probes := by
  unfold World.register; split <;> rfl

theorem register_WR (s : Bool) (W : World) (id : Nat) (r : Rec) : WR s W (W.register id r) :=
  WR.of_eq (by simp) (by simp)

@[simp] theorem askRecover_log (W : World) (id : Nat) (t : Tok) : (askRecover W id t).2.log = W.log := by
  unfold askRecover
  split <;> try rfl
  all_goals (split <;> try rfl)
  all_goals (split <;> rfl)
@[simp] theorem askRecover_probes (W : World) (id : Nat) (t : Tok) : (askRecover W id t).2.probes = W.probes := by
  unfold askRecover
  split <;> try rfl
  all_goals (split <;> try rfl)
  all_goals (split <;> rfl)

theorem recoverLoop_world (R : RunEnv) (id : Nat) (n : Nat) (lx : Lx) (W : World) :
    (recoverLoop R id n lx W).2.log = W.log ∧ (recoverLoop R id n lx W).2.probes = W.probes := by
  induction n generalizing lx W with
  | zero => simp [recoverLoop]
  | succ n ih =>
    simp only [recoverLoop]
    split
    · simp
    · split
      · simp
      · have := ih (Lexer.next R.E ‹Lx›).2 (askRecover W id ‹Tok›).2
        simpa using this

theorem advanceToRecover_WR (R : RunEnv) (s : Bool) (lx : Lx) (W : World) : WR s W (advanceToRecover R lx W).2 := by
  unfold advanceToRecover
  split
  · exact WR.refl _ _
  · exact WR.of_eq (recoverLoop_world ..).1 (recoverLoop_world ..).2

theorem advanceToRecover_WR' {R : RunEnv} {s : Bool} {lx : Lx} {W W' : World} {o : Option Lx}
    (h : advanceToRecover R lx W = (o, W')) : WR s W W' := by
  have := advanceToRecover_WR R s lx W; rwa [h] at this

theorem countOf_snd (v : Nat) (r : RRes × World) : (countOf v r).2 = r.2 := by
  unfold countOf
  split
  · rfl
  · split <;> rfl

/-! ### the interpreter -/

structure WAt (R : RunEnv) (n : Nat) : Prop where
  run : ∀ g lx ctx W, WR ctx.sink W (run R n g lx ctx W).2
  sepItem : ∀ a sep lx ctx W, WR ctx.sink W (sepItem R n a sep lx ctx W).2
  interLoopStart : ∀ lo hi a sep lx ctx W, WR ctx.sink W (interLoopStart R n lo hi a sep lx ctx W).2
  interLoop : ∀ lo hi a sep vals lx ctx W, WR ctx.sink W (interLoop R n lo hi a sep vals lx ctx W).2
  untilStart : ∀ lo hi stop a sep lx ctx W, WR ctx.sink W (untilStart R n lo hi stop a sep lx ctx W).2
  untilLoop : ∀ lo hi stop a sep vals lx ctx W, WR ctx.sink W (untilLoop R n lo hi stop a sep vals lx ctx W).2
  recoverDefault : ∀ dv id r body lx ctx W, WR ctx.sink W (recoverDefault R n dv id r body lx ctx W).2
  stabLoop : ∀ a lx ctx res W, WR ctx.sink W (stabLoop R n a lx ctx res W).2
  listLoop : ∀ v id lo hi a sep abort lx ctx W vals, WR ctx.sink W (listLoop R n v id lo hi a sep abort lx ctx W vals).2
  stabValue : ∀ dv id pat body lx ctx res W, WR ctx.sink W (stabValue R n dv id pat body lx ctx res W).2

theorem run_step (R : RunEnv) (n : Nat) (ih : WAt R n) (g : G) (lx : Lx) (ctx : Ctx) (W : World) :
    WR ctx.sink W (run R (n + 1) g lx ctx W).2 := by
  obtain ⟨ihr, ihsep, ihis, ihil, ihus, ihul, ihrd, ihsl, ihll, ihsv⟩ := ih
  cases g <;> simp only [run]
  all_goals try (grind [WR.refl, WR.trans, WR.mono, sendError_WR', withoutSink_sink, rawCtx_sink, pushed_sink, countOf_snd])
  case probe tag =>
    have h := sendError_WR ctx (mkErr (.probe tag)) W
    exact ⟨h.1, h.2.1.trans (by simp), h.2.2⟩


theorem wAt_zero (R : RunEnv) : WAt R 0 := by
  constructor <;> intros <;>
    simp [run, sepItem, interLoopStart, interLoop, untilStart, untilLoop, recoverDefault, stabLoop, listLoop, stabValue,
      WR.refl]

theorem wAt_succ (R : RunEnv) (n : Nat) (ih : WAt R n) : WAt R (n + 1) := by
  have hrun := run_step R n ih
  obtain ⟨ihr, ihsep, ihis, ihil, ihus, ihul, ihrd, ihsl, ihll, ihsv⟩ := ih
  refine ⟨hrun, ?_, ?_, ?_, ?_, ?_, ?_, ?_, ?_, ?_⟩
  · intro a sep lx ctx W; simp only [sepItem]; grind [WR.refl, WR.trans]
  · intro lo hi a sep lx ctx W; simp only [interLoopStart]; grind [WR.refl, WR.trans]
  · intro lo hi a sep vals lx ctx W; simp only [interLoop]; grind [WR.refl, WR.trans]
  · intro lo hi stop a sep lx ctx W; simp only [untilStart]; grind [WR.refl, WR.trans]
  · intro lo hi stop a sep vals lx ctx W; simp only [untilLoop]; grind [WR.refl, WR.trans]
  · intro dv id r body lx ctx W; simp only [recoverDefault]
    have hR := register_WR ctx.sink W id r
    have h0 := ihr body lx ctx (W.register id r)
    split
    · next e W1 h1 =>
      rw [h1] at h0
      have h01 := hR.trans h0
      split
      · next e' W2 h2 => exact h01.trans (sendError_WR' h2)
      · next W2 h2 =>
        have h02 := h01.trans (sendError_WR' h2)
        split
        · next lx' W3 h3 => exact h02.trans (advanceToRecover_WR' h3)
        · next W3 h3 => exact h02.trans (advanceToRecover_WR' h3)
    · exact hR.trans h0
  · intro a lx ctx res W
    have hA := @advanceToRecover_WR' R ctx.sink
    cases res <;> simp only [stabLoop]
    all_goals grind [WR.refl, WR.trans, WR.mono, advanceToRecover_WR', withoutSink_sink]
  · intro v id lo hi a sep abort lx ctx W vals
    simp only [listLoop]
    split
    · grind [WR.refl, WR.trans, sendError_WR']
    · next tok lexer hp =>
      split
      · split
        · grind [WR.refl, WR.trans, sendError_WR']
        · have h1 := ihr (.stabilize (.maybe (.upTo (if v < 2 then G.someOf a else a) (sep :: abort)))) lexer ctx W
          split
          · grind [WR.refl, WR.trans, sendError_WR']
          · grind [WR.refl, WR.trans, sendError_WR']
          · grind [WR.refl, WR.trans, sendError_WR']
      · have h1 := ihrd (if v < 2 then Val.none else Val.dflt) id (Rec.sepOrAbort sep abort)
          ((if v < 2 then a.someOf else a).upTo (sep :: abort)) lexer ctx W
        have h2 := ihsv (if v < 2 then Val.none else Val.dflt) id (Rec.sepOrAbort sep abort)
          ((if v < 2 then a.someOf else a).upTo (sep :: abort)) lexer ctx
          (recoverDefault R n (if v < 2 then Val.none else Val.dflt) id
            (Rec.sepOrAbort sep abort) ((if v < 2 then a.someOf else a).upTo (sep :: abort)) lexer ctx W).fst
          (recoverDefault R n (if v < 2 then Val.none else Val.dflt) id
            (Rec.sepOrAbort sep abort) ((if v < 2 then a.someOf else a).upTo (sep :: abort)) lexer ctx W).snd
        have h12 := h1.trans h2
        split
        · next x lexer1 W1 hs =>
          rw [hs] at h12
          replace h12 : WR ctx.sink W W1 := h12
          clear h1 h2
          split
          · grind [WR.refl, WR.trans, sendError_WR']
          · split
            · grind [WR.refl, WR.trans, sendError_WR']
            · next t2 lexer2 hp2 =>
              split
              · grind [WR.refl, WR.trans, sendError_WR']
              · split
                · grind [WR.refl, WR.trans, sendError_WR']
                · have h3 := ihrd Val.dflt id (Rec.sepOrAbort sep abort) (G.one sep).discard lexer2 ctx W1
                  split
                  · next v1 lexer3 W2 hr =>
                    rw [hr] at h3
                    exact (h12.trans h3).trans (ihll ..)
                  · exact h12.trans h3
        · exact h12
  · intro dv id pat body lx ctx res W
    cases res <;> simp only [stabValue]
    · exact WR.refl _ _
    · split
      · next lx1 W1 h1 =>
        have h01 : WR ctx.sink W W1 := advanceToRecover_WR' h1
        split
        · exact h01
        · have h2 : WR ctx.sink W1 _ := WR.mono (ihrd dv id pat body lx1 ctx.withoutSink W1)
          exact (h01.trans h2).trans (ihsv ..)
      · next W1 h1 => exact advanceToRecover_WR' h1
    · exact WR.refl _ _
    · exact WR.refl _ _


theorem wAt (R : RunEnv) : ∀ n, WAt R n
  | 0 => wAt_zero R
  | n + 1 => wAt_succ R n (wAt R n)

/-- `run` never removes anything from the sink log or the probe log. -/
theorem run_world_prefix (R : RunEnv) (n : Nat) (g : G) (lx : Lx) (ctx : Ctx) (W : World) :
    W.log <+: (run R n g lx ctx W).2.log ∧ W.probes <+: (run R n g lx ctx W).2.probes :=
  ⟨((wAt R n).run g lx ctx W).1, ((wAt R n).run g lx ctx W).2.1⟩

/-- Without a sink nothing is logged. -/
theorem run_nosink_log (R : RunEnv) (n : Nat) (g : G) (lx : Lx) (ctx : Ctx) (W : World) (h : ctx.sink = false) :
    (run R n g lx ctx W).2.log = W.log :=
  ((wAt R n).run g lx ctx W).2.2 h

end WorldFrame
end Tephra
