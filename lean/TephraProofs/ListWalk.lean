/-
  TephraProofs.ListWalk — C11, the pure part: segments of a token stream
  (`segOf` / `tailOf`), the walk of the list loop over a stream (`walk`), and
  `walk` against the specification `Spec.listSpec` (`walk_listSpec`).
  Nothing here refers to the lexer or to `run`.
-/
import TephraModel.Spec.ListSpec
import TephraProofs.LexIter

set_option linter.unusedVariables false
set_option linter.unusedSimpArgs false

namespace Tephra.ListRefine
open Tephra Tephra.Spec Tephra.LexIter

/-- separator or abort kind (the recovery predicate of the list, and the `up_to` boundary) -/
def bnd (sep : Nat) (abort : List Nat) (k : Nat) : Bool := k == sep || abort.contains k

/-- the tokens up to the first separator / abort token (or the end) -/
def segOf (sep : Nat) (abort : List Nat) (V : List (RawTok Tok)) : List (RawTok Tok) :=
  V.takeWhile (fun r => !bnd sep abort r.tok.kind)

/-- the rest: empty, or starting with a separator / abort token -/
def tailOf (sep : Nat) (abort : List Nat) (V : List (RawTok Tok)) : List (RawTok Tok) :=
  V.dropWhile (fun r => !bnd sep abort r.tok.kind)

theorem seg_tail (sep : Nat) (abort : List Nat) (V : List (RawTok Tok)) :
    segOf sep abort V ++ tailOf sep abort V = V := List.takeWhile_append_dropWhile

theorem tail_head {sep : Nat} {abort : List Nat} {V : List (RawTok Tok)} {r tl}
    (h : tailOf sep abort V = r :: tl) : bnd sep abort r.tok.kind = true := by
  have := dropWhile_cons_inv (p := fun r : RawTok Tok => !bnd sep abort r.tok.kind) h
  simpa using this

theorem mem_takeWhile_true {α} {p : α → Bool} : ∀ {l : List α} {x}, x ∈ l.takeWhile p → p x = true := by
  intro l
  induction l with
  | nil => intro x h; simp at h
  | cons a t ih =>
    intro x h
    rw [List.takeWhile_cons] at h
    split at h
    · rcases List.mem_cons.mp h with rfl | h'
      · assumption
      · exact ih h'
    · simp at h

theorem seg_mem {sep : Nat} {abort : List Nat} {V : List (RawTok Tok)} {r}
    (h : r ∈ segOf sep abort V) : bnd sep abort r.tok.kind = false := by
  have := mem_takeWhile_true h
  simpa using this

/-- what the loop does on the stream `V` with `hi` more values allowed: the entries
(`none` = placeholder), how many tokens are passed, and whether a bad last segment runs
to the end of the stream (F21). -/
structure WalkRes where
  ents : List (Option Val)
  cons : Nat
  f21 : Bool

theorem tail_length_lt {sep : Nat} {abort : List Nat} {V : List (RawTok Tok)} {t tl}
    (h : tailOf sep abort V = t :: tl) : tl.length < V.length := by
  have := congrArg List.length (seg_tail sep abort V)
  rw [h] at this
  simp at this
  omega

def walk (judge : List (RawTok Tok) → Option Val) (sep : Nat) (abort : List Nat) :
    Option Nat → List (RawTok Tok) → WalkRes
  | _, [] => ⟨[], 0, false⟩
  | hi, r :: V =>
    if abort.contains r.tok.kind then ⟨[], 0, false⟩ else
    match h : tailOf sep abort (r :: V) with
    | [] => ⟨[judge (segOf sep abort (r :: V))], (segOf sep abort (r :: V)).length,
              (judge (segOf sep abort (r :: V))).isNone⟩
    | t :: tl =>
      if hi == some 1 || abort.contains t.tok.kind then
        ⟨[judge (segOf sep abort (r :: V))], (segOf sep abort (r :: V)).length, false⟩
      else
        let w := walk judge sep abort (hi.map (· - 1)) tl
        ⟨judge (segOf sep abort (r :: V)) :: w.ents, (segOf sep abort (r :: V)).length + 1 + w.cons, w.f21⟩
termination_by _ V => V.length
decreasing_by
  have := tail_length_lt h
  simpa using this

section WalkEq
variable (judge : List (RawTok Tok) → Option Val) (sep : Nat) (abort : List Nat)

theorem walk_nil (hi : Option Nat) : walk judge sep abort hi [] = ⟨[], 0, false⟩ := by
  rw [walk]

theorem walk_abort (hi : Option Nat) {r : RawTok Tok} {V} (h : abort.contains r.tok.kind = true) :
    walk judge sep abort hi (r :: V) = ⟨[], 0, false⟩ := by
  rw [walk]; rw [if_pos h]

theorem walk_end (hi : Option Nat) {r : RawTok Tok} {V} (h : abort.contains r.tok.kind = false)
    (htl : tailOf sep abort (r :: V) = []) :
    walk judge sep abort hi (r :: V) =
      ⟨[judge (segOf sep abort (r :: V))], (segOf sep abort (r :: V)).length,
        (judge (segOf sep abort (r :: V))).isNone⟩ := by
  rw [walk]
  simp only [h, Bool.false_eq_true, if_false]
  split
  · rfl
  · next t tl h' => rw [htl] at h'; cases h'

theorem walk_stop (hi : Option Nat) {r : RawTok Tok} {V t tl} (h : abort.contains r.tok.kind = false)
    (htl : tailOf sep abort (r :: V) = t :: tl) (hs : (hi == some 1 || abort.contains t.tok.kind) = true) :
    walk judge sep abort hi (r :: V) =
      ⟨[judge (segOf sep abort (r :: V))], (segOf sep abort (r :: V)).length, false⟩ := by
  rw [walk]
  simp only [h, Bool.false_eq_true, if_false]
  split
  · next h' => rw [htl] at h'; cases h'
  · next t' tl' h' =>
    rw [htl] at h'; cases h'
    rw [if_pos hs]

theorem walk_step (hi : Option Nat) {r : RawTok Tok} {V t tl} (h : abort.contains r.tok.kind = false)
    (htl : tailOf sep abort (r :: V) = t :: tl) (hs : (hi == some 1 || abort.contains t.tok.kind) = false) :
    walk judge sep abort hi (r :: V) =
      ⟨judge (segOf sep abort (r :: V)) :: (walk judge sep abort (hi.map (· - 1)) tl).ents,
        (segOf sep abort (r :: V)).length + 1 + (walk judge sep abort (hi.map (· - 1)) tl).cons,
        (walk judge sep abort (hi.map (· - 1)) tl).f21⟩ := by
  rw [walk]
  simp only [h, Bool.false_eq_true, if_false]
  split
  · next h' => rw [htl] at h'; cases h'
  · next t' tl' h' =>
    rw [htl] at h'; cases h'
    rw [if_neg (by rw [hs]; simp)]

end WalkEq

/-- number of placeholders -/
def nbad (ents : List (Option Val)) : Nat := (ents.filter (·.isNone)).length

theorem nbad_cons (e : Option Val) (l : List (Option Val)) : nbad (e :: l) = nbad [e] + nbad l := by
  cases e <;> simp [nbad] <;> omega


/-! ### `walk` against `Spec.listSpec` -/

/-- the tokens before the first abort token -/
def specBody (abort : List Nat) (V : List (RawTok Tok)) : List (RawTok Tok) :=
  V.takeWhile (fun r => !abort.contains r.tok.kind)

/-- drop one trailing empty segment -/
def normSegs (L : List (List (RawTok Tok))) : List (List (RawTok Tok)) :=
  if (L.getLast?.map (·.isEmpty)).getD false then L.dropLast else L

/-- `listSpec` from the body and the segments on -/
def specFrom (judge : List (RawTok Tok) → Option Val) (sep : Nat) (hi : Option Nat) (V body : List (RawTok Tok))
    (segsAll : List (List (RawTok Tok))) : ListExp :=
  let segs := match hi with
    | some h => segsAll.take h
    | none => segsAll
  let stoppedEarly : Bool := match hi with
    | some h => decide (segs.length ≥ h)
    | none => false
  let entries := segs.map judge
  let consumed := if stoppedEarly then (segs.map (·.length)).foldl (· + ·) 0 + (segs.length - 1) else body.length
  let lastBadAtEnd := segs.length == segsAll.length && body.length == V.length &&
      (match entries.getLast? with | some none => true | _ => false) &&
      !(match body.getLast? with | some r => r.tok.kind == sep | none => true)
  { entries, consumed, stoppedEarly, lastBadAtEnd }

theorem listSpec_eq (text : Text) (f : Option Nat) (hi : Option Nat) (a : G) (sep : Nat) (abort : List Nat)
    (V : List (RawTok Tok)) :
    listSpec text f hi a sep abort V =
      specFrom (evalSegment text f a) sep hi V (specBody abort V) (normSegs (splitAtSep sep (specBody abort V))) :=
  rfl

theorem split_ne_nil (sep : Nat) : ∀ l, splitAtSep sep l ≠ [] := by
  intro l
  induction l with
  | nil => simp [splitAtSep]
  | cons r rest ih =>
    simp only [splitAtSep]
    split
    · split <;> simp
    · simp

theorem split_noSep (sep : Nat) : ∀ l : List (RawTok Tok), (∀ r ∈ l, (r.tok.kind == sep) = false) →
    splitAtSep sep l = [l] := by
  intro l
  induction l with
  | nil => intro _; rfl
  | cons r rest ih =>
    intro h
    have h1 := h r (by simp)
    have h2 := ih (fun x hx => h x (by simp [hx]))
    simp only [splitAtSep, h2, h1]
    simp

theorem split_append_sep (sep : Nat) (t : RawTok Tok) (l : List (RawTok Tok)) (ht : (t.tok.kind == sep) = true) :
    ∀ s : List (RawTok Tok), (∀ r ∈ s, (r.tok.kind == sep) = false) →
      splitAtSep sep (s ++ t :: l) = s :: splitAtSep sep l := by
  intro s
  induction s with
  | nil =>
    intro _
    simp only [List.nil_append, splitAtSep]
    cases h : splitAtSep sep l with
    | nil => exact absurd h (split_ne_nil sep l)
    | cons a b => simp [ht]
  | cons r rest ih =>
    intro h
    have h1 := h r (by simp)
    have h2 := ih (fun x hx => h x (by simp [hx]))
    simp only [List.cons_append, splitAtSep, h2, h1]
    simp

theorem norm_cons (s : List (RawTok Tok)) {L : List (List (RawTok Tok))} (hL : L ≠ []) :
    normSegs (s :: L) = s :: normSegs L := by
  unfold normSegs
  rw [List.getLast?_cons_of_ne_nil hL]
  split
  · rw [List.dropLast_cons_of_ne_nil hL]
  · rfl

theorem norm_single (s : List (RawTok Tok)) : normSegs [s] = if s.isEmpty then [] else [s] := by
  unfold normSegs
  cases h : s.isEmpty <;> simp [h]

theorem split_eq_nilnil {sep : Nat} : ∀ {l : List (RawTok Tok)}, splitAtSep sep l = [[]] → l = [] := by
  intro l
  cases l with
  | nil => intro _; rfl
  | cons r rest =>
    intro h
    simp only [splitAtSep] at h
    split at h
    · split at h <;> simp at h
    · simp at h

theorem norm_split_nil {sep : Nat} {l : List (RawTok Tok)} (h : normSegs (splitAtSep sep l) = []) : l = [] := by
  unfold normSegs at h
  split at h
  · next hc =>
    cases hs : splitAtSep sep l with
    | nil => exact absurd hs (split_ne_nil sep l)
    | cons x rest =>
      rw [hs] at h hc
      cases rest with
      | nil =>
        simp at hc
        subst hc
        exact split_eq_nilnil hs
      | cons y rest' => simp at h
  · exact absurd h (split_ne_nil sep l)

theorem norm_split_nil' (sep : Nat) : normSegs (splitAtSep sep []) = [] := by
  simp [splitAtSep, normSegs]

theorem foldl_add (l : List Nat) : ∀ a, l.foldl (· + ·) a = a + l.foldl (· + ·) 0 := by
  induction l with
  | nil => intro a; simp
  | cons x t ih => intro a; simp only [List.foldl_cons]; rw [ih (a + x), ih (0 + x)]; omega

theorem takeWhile_append_all {α} (p : α → Bool) : ∀ (s l : List α), (∀ x ∈ s, p x = true) →
    (s ++ l).takeWhile p = s ++ l.takeWhile p := by
  intro s
  induction s with
  | nil => intro l _; rfl
  | cons a t ih =>
    intro l h
    have h1 := h a (by simp)
    simp only [List.cons_append, List.takeWhile_cons, h1, if_true]
    rw [ih l (fun x hx => h x (by simp [hx]))]

theorem takeWhile_all {α} (p : α → Bool) : ∀ (s : List α), (∀ x ∈ s, p x = true) → s.takeWhile p = s := by
  intro s h
  have := takeWhile_append_all p s [] h
  simpa using this

theorem bnd_false {sep : Nat} {abort : List Nat} {k : Nat} (h : bnd sep abort k = false) :
    (k == sep) = false ∧ abort.contains k = false := by
  unfold bnd at h
  simpa [Bool.or_eq_false_iff] using h

theorem seg_noSep {sep : Nat} {abort : List Nat} {V : List (RawTok Tok)} :
    ∀ r ∈ segOf sep abort V, (r.tok.kind == sep) = false := fun r h => (bnd_false (seg_mem h)).1

theorem seg_noAbort {sep : Nat} {abort : List Nat} {V : List (RawTok Tok)} :
    ∀ r ∈ segOf sep abort V, (!abort.contains r.tok.kind) = true := fun r h => by
  rw [(bnd_false (seg_mem h)).2]; rfl

section Spec
variable (judge : List (RawTok Tok) → Option Val) (sep : Nat) (abort : List Nat)

theorem specFrom_nil {hi : Option Nat} (hhi : hi ≠ some 0) (V : List (RawTok Tok)) :
    (specFrom judge sep hi V [] []).entries = [] ∧ (specFrom judge sep hi V [] []).consumed = 0 ∧
    (specFrom judge sep hi V [] []).lastBadAtEnd = false := by
  cases hi with
  | none => simp [specFrom]
  | some h =>
    have : h ≠ 0 := fun e => hhi (by rw [e])
    simp [specFrom, this]

/-- a single segment -/
theorem specFrom_single {hi : Option Nat} (hhi : hi ≠ some 0) (V body seg : List (RawTok Tok)) (hb : body = seg) :
    (specFrom judge sep hi V body [seg]).entries = [judge seg] ∧
    (specFrom judge sep hi V body [seg]).consumed = seg.length ∧
    (specFrom judge sep hi V body [seg]).lastBadAtEnd =
      (body.length == V.length && (judge seg).isNone &&
        !(match body.getLast? with | some r => r.tok.kind == sep | none => true)) := by
  subst hb
  cases hi with
  | none =>
    refine ⟨by simp [specFrom], by simp [specFrom], ?_⟩
    cases hj : judge body <;> simp [specFrom, hj]
  | some h =>
    have h0 : h ≠ 0 := fun e => hhi (by rw [e])
    obtain ⟨h', rfl⟩ : ∃ h', h = h' + 1 := ⟨h - 1, by omega⟩
    refine ⟨by simp [specFrom], ?_, ?_⟩
    · by_cases h1 : h' = 0
      · subst h1; simp [specFrom]
      · have : ¬ (1 ≥ h' + 1) := by omega
        simp [specFrom, this]
    · cases hj : judge body <;> simp [specFrom, hj]

/-- the upper bound stops the list in front of a separator -/
theorem specFrom_one (V seg body' : List (RawTok Tok)) (t : RawTok Tok) (S' : List (List (RawTok Tok)))
    (ht : (t.tok.kind == sep) = true) (hS : S' = [] → body' = []) :
    (specFrom judge sep (some 1) V (seg ++ t :: body') (seg :: S')).entries = [judge seg] ∧
    (specFrom judge sep (some 1) V (seg ++ t :: body') (seg :: S')).consumed = seg.length ∧
    (specFrom judge sep (some 1) V (seg ++ t :: body') (seg :: S')).lastBadAtEnd = false := by
  refine ⟨by simp [specFrom], by simp [specFrom], ?_⟩
  cases S' with
  | nil =>
    have := hS rfl
    subst this
    simp [specFrom, ht]
  | cons x rest => simp [specFrom]

theorem getLast?_map_cons_ne {α β} (g : α → β) (x : α) {l : List α} (h : l ≠ []) :
    ((x :: l).map g).getLast? = (l.map g).getLast? := by
  rw [List.map_cons, List.getLast?_cons_of_ne_nil (by simpa using h)]

/-- one segment, its separator, and the rest -/
theorem specFrom_cons {hi : Option Nat} (hhi : hi ≠ some 0) (hhi1 : hi ≠ some 1)
    (seg body' tl' : List (RawTok Tok)) (t : RawTok Tok) (S' : List (List (RawTok Tok)))
    (ht : (t.tok.kind == sep) = true) (hS : S' = [] ↔ body' = []) :
    (specFrom judge sep hi (seg ++ t :: tl') (seg ++ t :: body') (seg :: S')).entries =
      judge seg :: (specFrom judge sep (hi.map (· - 1)) tl' body' S').entries ∧
    (specFrom judge sep hi (seg ++ t :: tl') (seg ++ t :: body') (seg :: S')).consumed =
      seg.length + 1 + (specFrom judge sep (hi.map (· - 1)) tl' body' S').consumed ∧
    (specFrom judge sep hi (seg ++ t :: tl') (seg ++ t :: body') (seg :: S')).lastBadAtEnd =
      (specFrom judge sep (hi.map (· - 1)) tl' body' S').lastBadAtEnd := by
  -- the two "last" observations
  have hlastB : body' ≠ [] → (seg ++ t :: body').getLast? = body'.getLast? := by
    intro h
    rw [List.getLast?_append, List.getLast?_cons_of_ne_nil h]
    cases hb : body'.getLast? with
    | none => rw [List.getLast?_eq_none_iff] at hb; exact absurd hb h
    | some x => rfl
  have hlastB0 : body' = [] → (seg ++ t :: body').getLast? = some t := by
    intro h; subst h; simp
  have hlen : ((seg ++ t :: body').length == (seg ++ t :: tl').length) = (body'.length == tl'.length) := by
    simp only [List.length_append, List.length_cons]
    cases h : body'.length == tl'.length
    · have : body'.length ≠ tl'.length := by simpa using h
      simp; omega
    · have : body'.length = tl'.length := by simpa using h
      simp; omega
  cases hi with
  | none =>
    simp only [Option.map_none]
    refine ⟨by simp [specFrom], by simp [specFrom]; omega, ?_⟩
    by_cases hb : body' = []
    · have hs := hS.mpr hb
      subst hs; subst hb
      simp [specFrom, ht]
    · have hs : S' ≠ [] := fun h => hb (hS.mp h)
      simp only [specFrom]
      rw [getLast?_map_cons_ne judge seg hs, hlastB hb, hlen]
      simp
  | some h =>
    obtain ⟨h', rfl⟩ : ∃ h', h = h' + 2 := ⟨h - 2, by
      have : h ≠ 0 := fun e => hhi (by rw [e])
      have : h ≠ 1 := fun e => hhi1 (by rw [e])
      omega⟩
    simp only [Option.map_some, Nat.add_sub_cancel]
    have e1 : h' + 2 - 1 = h' + 1 := by omega
    rw [e1]
    have hge : (decide ((List.take (h' + 2) (seg :: S')).length ≥ h' + 2)) =
        decide ((List.take (h' + 1) S').length ≥ h' + 1) := by
      simp only [List.take_succ_cons, List.length_cons]
      by_cases hc : (List.take (h' + 1) S').length ≥ h' + 1
      · have : (List.take (h' + 1) S').length + 1 ≥ h' + 2 := by omega
        simp [hc, this]
      · have : ¬ (List.take (h' + 1) S').length + 1 ≥ h' + 2 := by omega
        simp [hc, this]
    refine ⟨by simp [specFrom, List.take_succ_cons], ?_, ?_⟩
    · simp only [specFrom]
      rw [hge]
      by_cases hc : (List.take (h' + 1) S').length ≥ h' + 1
      · simp only [hc, decide_true, if_true]
        simp only [List.take_succ_cons, List.map_cons, List.foldl_cons, List.length_cons]
        rw [foldl_add _ (0 + seg.length)]
        omega
      · simp only [hc, decide_false, Bool.false_eq_true, if_false]
        simp; omega
    · by_cases hb : body' = []
      · have hs := hS.mpr hb
        subst hs; subst hb
        simp [specFrom, ht]
      · have hs : S' ≠ [] := fun h => hb (hS.mp h)
        have hs' : List.take (h' + 1) S' ≠ [] := by
          cases S' with
          | nil => exact absurd rfl hs
          | cons x r => simp
        simp only [specFrom]
        rw [List.take_succ_cons, getLast?_map_cons_ne judge seg hs', hlastB hb, hlen]
        simp

end Spec

theorem specBody_cons_abort {abort : List Nat} {r : RawTok Tok} {V} (h : abort.contains r.tok.kind = true) :
    specBody abort (r :: V) = [] := by
  unfold specBody
  rw [List.takeWhile_cons, h]
  rfl

theorem specBody_cons_keep {abort : List Nat} {r : RawTok Tok} {V} (h : abort.contains r.tok.kind = false) :
    specBody abort (r :: V) = r :: specBody abort V := by
  unfold specBody
  rw [List.takeWhile_cons, h]
  rfl

/-- **`walk` computes `listSpec`** (from the body and segments on). -/
theorem walk_spec (judge : List (RawTok Tok) → Option Val) (sep : Nat) (abort : List Nat) :
    ∀ (n : Nat) (V : List (RawTok Tok)) (hi : Option Nat), V.length ≤ n → hi ≠ some 0 →
      (walk judge sep abort hi V).ents =
        (specFrom judge sep hi V (specBody abort V) (normSegs (splitAtSep sep (specBody abort V)))).entries ∧
      (walk judge sep abort hi V).cons =
        (specFrom judge sep hi V (specBody abort V) (normSegs (splitAtSep sep (specBody abort V)))).consumed ∧
      (walk judge sep abort hi V).f21 =
        (specFrom judge sep hi V (specBody abort V) (normSegs (splitAtSep sep (specBody abort V)))).lastBadAtEnd := by
  intro n
  induction n with
  | zero =>
    intro V hi hV hhi
    have : V = [] := List.eq_nil_of_length_eq_zero (by omega)
    subst this
    rw [walk_nil]
    have := specFrom_nil judge sep hhi []
    simp only [specBody, List.takeWhile_nil, norm_split_nil']
    exact ⟨this.1.symm, this.2.1.symm, this.2.2.symm⟩
  | succ n ih =>
    intro V hi hV hhi
    cases V with
    | nil =>
      rw [walk_nil]
      have := specFrom_nil judge sep hhi []
      simp only [specBody, List.takeWhile_nil, norm_split_nil']
      exact ⟨this.1.symm, this.2.1.symm, this.2.2.symm⟩
    | cons r V0 =>
      by_cases hab : abort.contains r.tok.kind = true
      · rw [walk_abort _ _ _ _ hab, specBody_cons_abort hab, norm_split_nil']
        have := specFrom_nil judge sep hhi (r :: V0)
        exact ⟨this.1.symm, this.2.1.symm, this.2.2.symm⟩
      · have hab' : abort.contains r.tok.kind = false := by simpa using hab
        have hst := seg_tail sep abort (r :: V0)
        cases htl : tailOf sep abort (r :: V0) with
        | nil =>
          rw [walk_end _ _ _ _ hab' htl]
          rw [htl, List.append_nil] at hst
          have hbody : specBody abort (r :: V0) = r :: V0 := by
            unfold specBody
            apply takeWhile_all
            intro x hx
            rw [← hst] at hx
            exact seg_noAbort x hx
          have hsplit : splitAtSep sep (r :: V0) = [r :: V0] := by
            apply split_noSep
            intro x hx
            rw [← hst] at hx
            exact seg_noSep x hx
          rw [hbody, hsplit, norm_single, hst]
          simp only [List.isEmpty_cons, Bool.false_eq_true, if_false]
          have := specFrom_single judge sep hhi (r :: V0) (r :: V0) (r :: V0) rfl
          refine ⟨this.1.symm, this.2.1.symm, ?_⟩
          rw [this.2.2]
          have hl : (r :: V0).getLast? = some ((r :: V0).getLast (by simp)) := List.getLast?_eq_some_getLast _
          have hm : (r :: V0).getLast (by simp) ∈ segOf sep abort (r :: V0) := by
            rw [hst]; exact List.getLast_mem _
          rw [hl]
          simp [seg_noSep _ hm]
        | cons t tl' =>
          rw [htl] at hst
          have hbt := tail_head htl
          by_cases habt : abort.contains t.tok.kind = true
          · -- an abort token ends the body
            have hs : (hi == some 1 || abort.contains t.tok.kind) = true := by rw [habt]; simp
            rw [walk_stop _ _ _ _ hab' htl hs]
            have hsegne : segOf sep abort (r :: V0) ≠ [] := by
              intro h0
              rw [h0, List.nil_append] at hst
              have : t = r := by injection hst
              subst this
              rw [hab'] at habt; cases habt
            have hbody : specBody abort (r :: V0) = segOf sep abort (r :: V0) := by
              have := specBody_cons_abort (V := tl') habt
              unfold specBody at this ⊢
              conv => lhs; rw [← hst]
              rw [takeWhile_append_all _ _ _ seg_noAbort, this, List.append_nil]
            have hsplit : splitAtSep sep (segOf sep abort (r :: V0)) = [segOf sep abort (r :: V0)] :=
              split_noSep sep _ seg_noSep
            rw [hbody, hsplit, norm_single]
            have : (segOf sep abort (r :: V0)).isEmpty = false := by
              cases h : segOf sep abort (r :: V0) with
              | nil => exact absurd h hsegne
              | cons _ _ => rfl
            rw [this]
            simp only [Bool.false_eq_true, if_false]
            have hsp := specFrom_single judge sep hhi (r :: V0) (segOf sep abort (r :: V0)) _ rfl
            refine ⟨hsp.1.symm, hsp.2.1.symm, ?_⟩
            rw [hsp.2.2]
            have : ((segOf sep abort (r :: V0)).length == (r :: V0).length) = false := by
              have := congrArg List.length hst
              simp only [List.length_append, List.length_cons] at this
              simp only [List.length_cons]
              rw [beq_eq_false_iff_ne]
              omega
            rw [this]
            simp
          · have habt' : abort.contains t.tok.kind = false := by simpa using habt
            have htsep : (t.tok.kind == sep) = true := by
              unfold bnd at hbt
              rw [habt', Bool.or_false] at hbt
              exact hbt
            have hbody : specBody abort (r :: V0) = segOf sep abort (r :: V0) ++ t :: specBody abort tl' := by
              have := specBody_cons_keep (V := tl') habt'
              unfold specBody at this ⊢
              conv => lhs; rw [← hst]
              rw [takeWhile_append_all _ _ _ seg_noAbort, this]
            have hsplit := split_append_sep sep t (specBody abort tl') htsep _ (seg_noSep (abort := abort) (V := r :: V0))
            have hS : normSegs (splitAtSep sep (specBody abort tl')) = [] ↔ specBody abort tl' = [] :=
              ⟨norm_split_nil, fun h => by rw [h]; exact norm_split_nil' sep⟩
            by_cases h1 : hi = some 1
            · have hs : (hi == some 1 || abort.contains t.tok.kind) = true := by rw [h1]; simp
              rw [walk_stop _ _ _ _ hab' htl hs, hbody, hsplit, norm_cons _ (split_ne_nil sep _), h1]
              have := specFrom_one judge sep (r :: V0) (segOf sep abort (r :: V0)) (specBody abort tl') t _ htsep hS.mp
              exact ⟨this.1.symm, this.2.1.symm, this.2.2.symm⟩
            · have hs : (hi == some 1 || abort.contains t.tok.kind) = false := by
                rw [habt']
                simp [h1]
              rw [walk_step _ _ _ _ hab' htl hs, hbody, hsplit, norm_cons _ (split_ne_nil sep _)]
              have hlen' : tl'.length ≤ n := by
                have := tail_length_lt htl
                simp only [List.length_cons] at this hV
                omega
              have hhi' : hi.map (· - 1) ≠ some 0 := by
                cases hi with
                | none => simp
                | some h =>
                  simp only [Option.map_some, ne_eq, Option.some.injEq]
                  have : h ≠ 0 := fun e => hhi (by rw [e])
                  have : h ≠ 1 := fun e => h1 (by rw [e])
                  omega
              obtain ⟨i1, i2, i3⟩ := ih tl' (hi.map (· - 1)) hlen' hhi'
              have hc := specFrom_cons judge sep hhi h1 (segOf sep abort (r :: V0)) (specBody abort tl') tl' t _ htsep hS
              rw [i1, i2, i3]
              rw [hst] at hc
              exact ⟨hc.1.symm, hc.2.1.symm, hc.2.2.symm⟩

/-- **`walk` is `Spec.listSpec`**: entries, consumed tokens, and the F21 flag. -/
theorem walk_listSpec (text : Text) (f : Option Nat) (a : G) (sep : Nat) (abort : List Nat) (hi : Option Nat)
    (hhi : hi ≠ some 0) (V : List (RawTok Tok)) :
    (walk (evalSegment text f a) sep abort hi V).ents = (listSpec text f hi a sep abort V).entries ∧
    (walk (evalSegment text f a) sep abort hi V).cons = (listSpec text f hi a sep abort V).consumed ∧
    (walk (evalSegment text f a) sep abort hi V).f21 = (listSpec text f hi a sep abort V).lastBadAtEnd := by
  rw [listSpec_eq]
  exact walk_spec _ sep abort V.length V hi (Nat.le_refl _) hhi

end Tephra.ListRefine
