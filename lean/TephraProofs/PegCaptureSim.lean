/-
  TephraProofs.PegCaptureSim — C14: `run` against `Spec.peg` on the C07 fragment
  with captures (`spanned`, `text`) anywhere; values up to `normVal`.
  Same route as PegRefine (one step lemma per combinator, induction on the fuel),
  with the relation `SimC` carrying `AbsC` and the transition `Tr`.
-/
import TephraProofs.PegCapture

set_option linter.unusedVariables false
set_option linter.unusedSimpArgs false

namespace Tephra
open Tephra.Spec

namespace PegRefine
open LexIter

variable {R : RunEnv} {m : Metrics} {len : Nat} {P : Pos → Prop}

def SimC (R : RunEnv) (m : Metrics) (len : Nat) (P : Pos → Prop) (lx : Lx) (s : PState) (r : RRes) (p : PRes) :
    Prop :=
  match r with
  | .ok v lx' => ∃ v' s', p = .ok v' s' ∧ normVal v = normVal v' ∧ AbsC R.E m len P lx' s' ∧
      Tr R.E m len lx s lx' s'
  | .err _ => p = .fail
  | .fuel => True
  | .panic => False

theorem SimC.cases {lx : Lx} {s : PState} {x : RRes × World} {p : PRes} (h : SimC R m len P lx s x.1 p) :
    (∃ v lx' W' v' s', x = (.ok v lx', W') ∧ p = .ok v' s' ∧ normVal v = normVal v' ∧
      AbsC R.E m len P lx' s' ∧ Tr R.E m len lx s lx' s') ∨
    (∃ e W', x = (.err e, W') ∧ p = .fail) ∨ (∃ W', x = (.fuel, W')) := by
  obtain ⟨r, W'⟩ := x
  cases r with
  | ok v lx' =>
    obtain ⟨v', s', hp, hv, ha, ht⟩ := h
    exact Or.inl ⟨v, lx', W', v', s', rfl, hp, hv, ha, ht⟩
  | err e => exact Or.inr (Or.inl ⟨e, W', rfl, h⟩)
  | fuel => exact Or.inr (Or.inr ⟨W', rfl⟩)
  | panic => exact h.elim

theorem SimC.trans {lx0 lx : Lx} {s0 s : PState} {r : RRes} {p : PRes}
    (t : Tr R.E m len lx0 s0 lx s) (h : SimC R m len P lx s r p) : SimC R m len P lx0 s0 r p := by
  cases r with
  | ok v lx' =>
    obtain ⟨v', s', hp, hv, ha, ht⟩ := h
    exact ⟨v', s', hp, hv, ha, t.trans ht⟩
  | err e => exact h
  | fuel => trivial
  | panic => exact h.elim

syntax "simc_done" : tactic
macro_rules
  | `(tactic| simc_done) => `(tactic| first
      | exact ⟨_, _, rfl, by simp [*], by assumption, by first | assumption | exact Tr.refl _ _⟩
      | rfl | trivial)

theorem stepC_empty {n k lx ctx W s} (a : AbsC R.E m len P lx s) :
    SimC R m len P lx s (run R (n + 1) .empty lx ctx W).1 (peg R.text (k + 1) .empty s) := by
  simp only [run, peg]
  simc_done

section Prim
variable (hc : Closed R.E P m) (ok : ScanOK R.E m len) (hp : PassOK R.E)
include hc ok hp

theorem stepC_one {n k kd lx ctx W s} (a : AbsC R.E m len P lx s) :
    SimC R m len P lx s (run R (n + 1) (.one kd) lx ctx W).1 (peg R.text (k + 1) (.one kd) s) := by
  simp only [run, peg]
  rcases next_casesC hc ok hp a with ⟨lx', hn, hpop⟩ | ⟨r, s', lx', hn, hpop, a', t'⟩
  · rw [hn, hpop]; rfl
  · rw [hn, hpop]
    by_cases hk : r.tok.kind == kd
    · simp only [hk, if_true]
      simc_done
    · simp only [hk]
      rfl

theorem stepC_pred {n k pe lx ctx W s} (a : AbsC R.E m len P lx s) :
    SimC R m len P lx s (run R (n + 1) (.pred pe) lx ctx W).1 (peg R.text (k + 1) (.pred pe) s) := by
  simp only [run, peg]
  rcases next_casesC hc ok hp a with ⟨lx', hn, hpop⟩ | ⟨r, s', lx', hn, hpop, a', t'⟩
  · rw [hn, hpop]; rfl
  · rw [hn, hpop]
    by_cases hk : pe.eval r.tok
    · simp only [hk, if_true]
      simc_done
    · simp only [hk]
      rfl

theorem stepC_any {n k ks lx ctx W s} (a : AbsC R.E m len P lx s) (hks : ks.isEmpty = false) :
    SimC R m len P lx s (run R (n + 1) (.any ks) lx ctx W).1 (peg R.text (k + 1) (.any ks) s) := by
  simp only [run, peg, hks, Bool.false_eq_true, if_false]
  rcases peek_casesC hc ok hp a with ⟨lxp, hpe, ap, tp, _, hpop⟩ | ⟨lxp, r, s', lx', hpe, ap, tp, _, hpop, hn, a', t'⟩
  · rw [hpe, hpop]; rfl
  · rw [hpe, hpop]
    simp only []
    cases hf : ks.find? (· == r.tok.kind) with
    | none =>
      have : ks.contains r.tok.kind = false := by rw [contains_find, hf]; rfl
      simp only [this]
      rfl
    | some k' =>
      have hk := find_beq hf
      subst hk
      have : ks.contains r.tok.kind = true := by rw [contains_find, hf]; rfl
      simp only [this, if_true, hn]
      exact ⟨_, _, rfl, rfl, a', tp.trans t'⟩

theorem stepC_anyIndex {n k ks lx ctx W s} (a : AbsC R.E m len P lx s) (hks : ks.isEmpty = false) :
    SimC R m len P lx s (run R (n + 1) (.anyIndex ks) lx ctx W).1 (peg R.text (k + 1) (.anyIndex ks) s) := by
  simp only [run, peg, hks, Bool.false_eq_true, if_false]
  rcases peek_casesC hc ok hp a with ⟨lxp, hpe, ap, tp, _, hpop⟩ | ⟨lxp, r, s', lx', hpe, ap, tp, _, hpop, hn, a', t'⟩
  · rw [hpe, hpop]; rfl
  · rw [hpe, hpop]
    simp only [position]
    cases hf : ks.findIdx? (· == r.tok.kind) with
    | none => rfl
    | some i =>
      simp only [hn]
      exact ⟨_, _, rfl, rfl, a', tp.trans t'⟩

theorem seqLoopC_sim (es : Span) : ∀ (ks : List Nat) (lx : Lx) (s : PState) (acc : List Tok),
    AbsC R.E m len P lx s → SimC R m len P lx s (seqLoop R es ks lx acc) (pegSeq ks s acc) := by
  intro ks
  induction ks with
  | nil => intro lx s acc a; exact ⟨_, _, rfl, rfl, a, Tr.refl _ _⟩
  | cons kd ks ih =>
    intro lx s acc a
    simp only [seqLoop, pegSeq]
    rcases next_casesC hc ok hp a with ⟨lx', hn, hpop⟩ | ⟨r, s', lx', hn, hpop, a', t'⟩
    · rw [hn, hpop]; rfl
    · rw [hn, hpop]
      by_cases hk : r.tok.kind == kd
      · simp only [hk, if_true]
        exact (ih lx' s' _ a').trans t'
      · simp only [hk]
        rfl

theorem stepC_seq {n k ks lx ctx W s} (a : AbsC R.E m len P lx s) :
    SimC R m len P lx s (run R (n + 1) (.seq ks) lx ctx W).1 (peg R.text (k + 1) (.seq ks) s) := by
  simp only [run, peg]
  exact seqLoopC_sim hc ok hp _ ks lx s [] a

theorem seqCountLoopC_sim (es : Span) : ∀ (ks : List Nat) (lx : Lx) (s : PState) (c : Nat),
    AbsC R.E m len P lx s → SimC R m len P lx s (seqCountLoop R es ks lx c) (pegSeqCount ks s c) := by
  intro ks
  induction ks with
  | nil => intro lx s c a; exact ⟨_, _, rfl, rfl, a, Tr.refl _ _⟩
  | cons kd ks ih =>
    intro lx s c a
    simp only [seqCountLoop, pegSeqCount]
    by_cases hemp : lx.isEmpty = true
    · obtain ⟨h1, h2⟩ := isEmpty_abs ok a.abs hemp
      simp only [hemp, if_true, h1, h2]
      exact ⟨_, _, rfl, rfl, a, Tr.refl _ _⟩
    · simp only [hemp, Bool.false_eq_true, if_false]
      rcases peek_casesC hc ok hp a with ⟨lxp, hpe, ap, tp, _, hpop⟩ |
        ⟨lxp, r, s', lx', hpe, ap, tp, _, hpop, hn, a', t'⟩
      · rw [hpe, hpop]
        simp only []
        have := next_none_end ok ap.abs hpop
        rcases term_cases s.term with ht | ht
        · simp only [this.mpr ht, if_true, ht]
          exact ⟨_, _, rfl, rfl, ap, tp⟩
        · have he : ¬ (lxp.next R.E).2.isEmpty = true := by
            intro h; rw [this.mp h] at ht; cases ht
          simp only [he, ht]
          rfl
      · rw [hpe, hpop]
        simp only []
        by_cases hk : r.tok.kind == kd
        · simp only [hk, if_true, hn]
          exact (ih lx' s' _ a').trans (tp.trans t')
        · simp only [hk]
          exact ⟨_, _, rfl, rfl, ap, tp⟩

theorem stepC_seqCount {n k ks lx ctx W s} (a : AbsC R.E m len P lx s) :
    SimC R m len P lx s (run R (n + 1) (.seqCount ks) lx ctx W).1 (peg R.text (k + 1) (.seqCount ks) s) := by
  simp only [run, peg]
  exact seqCountLoopC_sim hc ok hp _ ks lx s 0 a

theorem stepC_endOfText {n k lx ctx W s} (a : AbsC R.E m len P lx s) :
    SimC R m len P lx s (run R (n + 1) .endOfText lx ctx W).1 (peg R.text (k + 1) .endOfText s) := by
  simp only [run, peg]
  rcases peek_casesC hc ok hp a with ⟨lxp, hpe, ap, tp, _, hpop⟩ | ⟨lxp, r, s', lx', hpe, ap, tp, _, hpop, hn, a', t'⟩
  · rw [hpe]
    simp only []
    have := next_none_end ok ap.abs hpop
    have hv := view_nil_of_pop_none hpop
    simp only [hv, List.isEmpty_nil, Bool.true_and]
    rcases term_cases s.term with ht | ht
    · simp only [this.mpr ht, if_true, ht]
      exact ⟨_, _, rfl, rfl, ap, tp⟩
    · have he : ¬ (lxp.next R.E).2.isEmpty = true := by
        intro h; rw [this.mp h] at ht; cases ht
      simp only [he, ht]
      rfl
  · rw [hpe]
    have hv := view_ne_nil_of_pop_some hpop
    have : s.view.isEmpty = false := by
      cases h : s.view with
      | nil => exact absurd h hv
      | cons _ _ => rfl
    simp only [this, Bool.false_and]
    rfl

end Prim

/-! ### combinators -/

theorem stepC_map {n k a lx ctx W s}
    (h1 : SimC R m len P lx s (run R n a lx ctx W).1 (peg R.text k a s)) :
    SimC R m len P lx s (run R (n + 1) (.map a) lx ctx W).1 (peg R.text (k + 1) (.map a) s) := by
  simp only [run, peg]
  rcases h1.cases with ⟨v1, lx1, W1, v1', s1, hr, hp, hv, ha, t1⟩ | ⟨e, W1, hr, hp⟩ | ⟨W1, hr⟩
  · rw [hr, hp]; exact ⟨_, _, rfl, by simp [hv], ha, t1⟩
  · rw [hr, hp]; rfl
  · rw [hr]; trivial

theorem stepC_someOf {n k a lx ctx W s}
    (h1 : SimC R m len P lx s (run R n a lx ctx W).1 (peg R.text k a s)) :
    SimC R m len P lx s (run R (n + 1) (.someOf a) lx ctx W).1 (peg R.text (k + 1) (.someOf a) s) := by
  simp only [run, peg]
  rcases h1.cases with ⟨v1, lx1, W1, v1', s1, hr, hp, hv, ha, t1⟩ | ⟨e, W1, hr, hp⟩ | ⟨W1, hr⟩
  · rw [hr, hp]; exact ⟨_, _, rfl, by simp [hv], ha, t1⟩
  · rw [hr, hp]; rfl
  · rw [hr]; trivial

theorem stepC_discard {n k a lx ctx W s}
    (h1 : SimC R m len P lx s (run R n a lx ctx W).1 (peg R.text k a s)) :
    SimC R m len P lx s (run R (n + 1) (.discard a) lx ctx W).1 (peg R.text (k + 1) (.discard a) s) := by
  simp only [run, peg]
  rcases h1.cases with ⟨v1, lx1, W1, v1', s1, hr, hp, hv, ha, t1⟩ | ⟨e, W1, hr, hp⟩ | ⟨W1, hr⟩
  · rw [hr, hp]; exact ⟨_, _, rfl, by simp [hv], ha, t1⟩
  · rw [hr, hp]; rfl
  · rw [hr]; trivial

theorem stepC_both {n k a b lx ctx W s}
    (h1 : SimC R m len P lx s (run R n a lx ctx W).1 (peg R.text k a s))
    (h2 : ∀ lx1 s1 W1, AbsC R.E m len P lx1 s1 →
      SimC R m len P lx1 s1 (run R n b lx1 ctx W1).1 (peg R.text k b s1)) :
    SimC R m len P lx s (run R (n + 1) (.both a b) lx ctx W).1 (peg R.text (k + 1) (.both a b) s) := by
  simp only [run, peg]
  rcases h1.cases with ⟨v1, lx1, W1, v1', s1, hr, hp, hv, ha, t1⟩ | ⟨e, W1, hr, hp⟩ | ⟨W1, hr⟩
  · rw [hr, hp]
    simp only [bindOk]
    rcases (h2 lx1 s1 W1 ha).cases with ⟨v2, lx2, W2, v2', s2, hr2, hp2, hv2, ha2, t2⟩ | ⟨e, W2, hr2, hp2⟩ | ⟨W2, hr2⟩
    · rw [hr2, hp2]; exact ⟨_, _, rfl, by simp [hv, hv2], ha2, t1.trans t2⟩
    · rw [hr2, hp2]; rfl
    · rw [hr2]; trivial
  · rw [hr, hp]; rfl
  · rw [hr]; trivial

theorem stepC_center {n k a b c lx ctx W s}
    (h1 : SimC R m len P lx s (run R n a lx ctx W).1 (peg R.text k a s))
    (h2 : ∀ lx1 s1 W1, AbsC R.E m len P lx1 s1 →
      SimC R m len P lx1 s1 (run R n b lx1 ctx W1).1 (peg R.text k b s1))
    (h3 : ∀ lx1 s1 W1, AbsC R.E m len P lx1 s1 →
      SimC R m len P lx1 s1 (run R n c lx1 ctx W1).1 (peg R.text k c s1)) :
    SimC R m len P lx s (run R (n + 1) (.center a b c) lx ctx W).1 (peg R.text (k + 1) (.center a b c) s) := by
  simp only [run, peg]
  rcases h1.cases with ⟨v1, lx1, W1, v1', s1, hr, hp, hv, ha, t1⟩ | ⟨e, W1, hr, hp⟩ | ⟨W1, hr⟩
  · rw [hr, hp]
    simp only [bindOk]
    rcases (h2 lx1 s1 W1 ha).cases with ⟨v2, lx2, W2, v2', s2, hr2, hp2, hv2, ha2, t2⟩ | ⟨e, W2, hr2, hp2⟩ | ⟨W2, hr2⟩
    · rw [hr2, hp2]
      simp only []
      rcases (h3 lx2 s2 W2 ha2).cases with ⟨v3, lx3, W3, v3', s3, hr3, hp3, hv3, ha3, t3⟩ | ⟨e, W3, hr3, hp3⟩ | ⟨W3, hr3⟩
      · rw [hr3, hp3]; exact ⟨_, _, rfl, hv2, ha3, (t1.trans t2).trans t3⟩
      · rw [hr3, hp3]; rfl
      · rw [hr3]; trivial
    · rw [hr2, hp2]; rfl
    · rw [hr2]; trivial
  · rw [hr, hp]; rfl
  · rw [hr]; trivial

theorem stepC_either {n k a b lx ctx W s}
    (h1 : SimC R m len P lx s (run R n a lx ctx W).1 (peg R.text k a s))
    (h2 : ∀ W1, SimC R m len P lx s (run R n b lx ctx W1).1 (peg R.text k b s)) :
    SimC R m len P lx s (run R (n + 1) (.either a b) lx ctx W).1 (peg R.text (k + 1) (.either a b) s) := by
  simp only [run, peg]
  rcases h1.cases with ⟨v1, lx1, W1, v1', s1, hr, hp, hv, ha, t1⟩ | ⟨e, W1, hr, hp⟩ | ⟨W1, hr⟩
  · rw [hr, hp]; exact ⟨_, _, rfl, hv, ha, t1⟩
  · rw [hr, hp]; exact h2 W1
  · rw [hr]; trivial

theorem stepC_maybe {n k a lx ctx W s} (a0 : AbsC R.E m len P lx s)
    (h1 : SimC R m len P lx s (run R n a lx ctx.withoutSink W).1 (peg R.text k a s)) :
    SimC R m len P lx s (run R (n + 1) (.maybe a) lx ctx W).1 (peg R.text (k + 1) (.maybe a) s) := by
  simp only [run, peg]
  rcases h1.cases with ⟨v1, lx1, W1, v1', s1, hr, hp, hv, ha, t1⟩ | ⟨e, W1, hr, hp⟩ | ⟨W1, hr⟩
  · rw [hr, hp]; exact ⟨_, _, rfl, by simp [hv], ha, t1⟩
  · rw [hr, hp]; exact ⟨_, _, rfl, rfl, a0, Tr.refl _ _⟩
  · rw [hr]; trivial

theorem stepC_cond {n k flag a lx ctx W s} (a0 : AbsC R.E m len P lx s)
    (h1 : SimC R m len P lx s (run R n a lx ctx W).1 (peg R.text k a s)) :
    SimC R m len P lx s (run R (n + 1) (.cond flag a) lx ctx W).1 (peg R.text (k + 1) (.cond flag a) s) := by
  simp only [run, peg]
  cases flag
  · simp only [Bool.false_eq_true, if_false]; exact ⟨_, _, rfl, rfl, a0, Tr.refl _ _⟩
  · simp only [if_true]
    rcases h1.cases with ⟨v1, lx1, W1, v1', s1, hr, hp, hv, ha, t1⟩ | ⟨e, W1, hr, hp⟩ | ⟨W1, hr⟩
    · rw [hr, hp]; exact ⟨_, _, rfl, by simp [hv], ha, t1⟩
    · rw [hr, hp]; rfl
    · rw [hr]; trivial

theorem stepC_requireIf {n k flag a lx ctx W s}
    (h1 : SimC R m len P lx s (run R n a lx ctx W).1 (peg R.text k a s))
    (h2 : SimC R m len P lx s (run R n (.maybe a) lx ctx W).1 (peg R.text k (.maybe a) s)) :
    SimC R m len P lx s (run R (n + 1) (.requireIf flag a) lx ctx W).1
      (peg R.text (k + 1) (.requireIf flag a) s) := by
  simp only [run, peg]
  cases flag
  · simp only [Bool.false_eq_true, if_false]; exact h2
  · simp only [if_true]
    rcases h1.cases with ⟨v1, lx1, W1, v1', s1, hr, hp, hv, ha, t1⟩ | ⟨e, W1, hr, hp⟩ | ⟨W1, hr⟩
    · rw [hr, hp]; exact ⟨_, _, rfl, by simp [hv], ha, t1⟩
    · rw [hr, hp]; rfl
    · rw [hr]; trivial

theorem stepC_left {n k a b lx ctx W s}
    (h1 : SimC R m len P lx s (run R n (.both a b) lx ctx W).1 (peg R.text k (.both a b) s)) :
    SimC R m len P lx s (run R (n + 1) (.left a b) lx ctx W).1 (peg R.text k (.left a b) s) := by
  simp only [run]
  rcases h1.cases with ⟨v1, lx1, W1, v1', s1, hr, hp, hv, ha, t1⟩ | ⟨e, W1, hr, hp⟩ | ⟨W1, hr⟩
  · obtain ⟨x, y, rfl, h, _⟩ := peg_both_ok hp
    obtain ⟨x0, y0, rfl, hx, hy⟩ := normVal_eq_pair (v := v1) (by rw [hv]; exact normVal_pair _ _)
    rw [hr, h]; exact ⟨_, _, rfl, hx, ha, t1⟩
  · rw [hr, (peg_both_fail hp).1]; rfl
  · rw [hr]; trivial

theorem stepC_right {n k a b lx ctx W s}
    (h1 : SimC R m len P lx s (run R n (.both a b) lx ctx W).1 (peg R.text k (.both a b) s)) :
    SimC R m len P lx s (run R (n + 1) (.right a b) lx ctx W).1 (peg R.text k (.right a b) s) := by
  simp only [run]
  rcases h1.cases with ⟨v1, lx1, W1, v1', s1, hr, hp, hv, ha, t1⟩ | ⟨e, W1, hr, hp⟩ | ⟨W1, hr⟩
  · obtain ⟨x, y, rfl, _, h⟩ := peg_both_ok hp
    obtain ⟨x0, y0, rfl, hx, hy⟩ := normVal_eq_pair (v := v1) (by rw [hv]; exact normVal_pair _ _)
    rw [hr, h]; exact ⟨_, _, rfl, hy, ha, t1⟩
  · rw [hr, (peg_both_fail hp).2]; rfl
  · rw [hr]; trivial

theorem stepC_implies {n k a b lx ctx W s}
    (h1 : SimC R m len P lx s (run R n (.maybe a) lx ctx W).1 (peg R.text (k + 1) (.maybe a) s))
    (h2 : ∀ lx1 s1 W1, AbsC R.E m len P lx1 s1 →
      SimC R m len P lx1 s1 (run R n b lx1 ctx W1).1 (peg R.text k b s1)) :
    SimC R m len P lx s (run R (n + 1) (.implies a b) lx ctx W).1 (peg R.text (k + 1) (.implies a b) s) := by
  simp only [run, peg]
  rcases h1.cases with ⟨v1, lx1, W1, v1', s1, hr, hp, hv, ha, t1⟩ | ⟨e, W1, hr, hp⟩ | ⟨W1, hr⟩
  · rcases peg_maybe_ok hp with ⟨rfl, rfl, h⟩ | ⟨l, rfl, h⟩
    · obtain rfl := normVal_eq_none (v := v1) (by rw [hv]; exact normVal_none)
      rw [hr, h]; exact ⟨_, _, rfl, rfl, ha, t1⟩
    · obtain ⟨l0, rfl, hl⟩ := normVal_eq_some (v := v1) (by rw [hv]; exact normVal_some _)
      rw [hr, h]
      simp only [bindOk]
      rcases (h2 lx1 s1 W1 ha).cases with ⟨v2, lx2, W2, v2', s2, hr2, hp2, hv2, ha2, t2⟩ | ⟨e, W2, hr2, hp2⟩ | ⟨W2, hr2⟩
      · rw [hr2, hp2]; exact ⟨_, _, rfl, by simp [hl, hv2], ha2, t1.trans t2⟩
      · rw [hr2, hp2]; rfl
      · rw [hr2]; trivial
  · exact (peg_maybe_fail hp).elim
  · rw [hr]; trivial

theorem stepC_antecedent {n k a b lx ctx W s}
    (h1 : SimC R m len P lx s (run R n (.implies a b) lx ctx W).1 (peg R.text k (.implies a b) s)) :
    SimC R m len P lx s (run R (n + 1) (.antecedent a b) lx ctx W).1 (peg R.text k (.antecedent a b) s) := by
  simp only [run]
  rcases h1.cases with ⟨v1, lx1, W1, v1', s1, hr, hp, hv, ha, t1⟩ | ⟨e, W1, hr, hp⟩ | ⟨W1, hr⟩
  · rcases peg_implies_ok hp with ⟨rfl, h, _⟩ | ⟨l, r, rfl, h, _⟩
    · obtain rfl := normVal_eq_none (v := v1) (by rw [hv]; exact normVal_none)
      rw [hr, h]; exact ⟨_, _, rfl, rfl, ha, t1⟩
    · obtain ⟨p0, rfl, hp0⟩ := normVal_eq_some (v := v1) (by rw [hv]; exact normVal_some _)
      obtain ⟨l0, r0, rfl, hl, hr0⟩ := normVal_eq_pair (v := p0) (by rw [hp0]; exact normVal_pair _ _)
      rw [hr, h]; exact ⟨_, _, rfl, by simp [hl], ha, t1⟩
  · rw [hr, (peg_implies_fail hp).1]; rfl
  · rw [hr]; trivial

theorem stepC_consequent {n k a b lx ctx W s}
    (h1 : SimC R m len P lx s (run R n (.implies a b) lx ctx W).1 (peg R.text k (.implies a b) s)) :
    SimC R m len P lx s (run R (n + 1) (.consequent a b) lx ctx W).1 (peg R.text k (.consequent a b) s) := by
  simp only [run]
  rcases h1.cases with ⟨v1, lx1, W1, v1', s1, hr, hp, hv, ha, t1⟩ | ⟨e, W1, hr, hp⟩ | ⟨W1, hr⟩
  · rcases peg_implies_ok hp with ⟨rfl, _, h⟩ | ⟨l, r, rfl, _, h⟩
    · obtain rfl := normVal_eq_none (v := v1) (by rw [hv]; exact normVal_none)
      rw [hr, h]; exact ⟨_, _, rfl, rfl, ha, t1⟩
    · obtain ⟨p0, rfl, hp0⟩ := normVal_eq_some (v := v1) (by rw [hv]; exact normVal_some _)
      obtain ⟨l0, r0, rfl, hl, hr0⟩ := normVal_eq_pair (v := p0) (by rw [hp0]; exact normVal_pair _ _)
      rw [hr, h]; exact ⟨_, _, rfl, by simp [hr0], ha, t1⟩
  · rw [hr, (peg_implies_fail hp).2]; rfl
  · rw [hr]; trivial

theorem stepC_condImplies {n k a kd b lx ctx W s}
    (h1 : SimC R m len P lx s (run R n (.maybe a) lx ctx W).1 (peg R.text (k + 1) (.maybe a) s))
    (h2 : ∀ lx1 s1 W1, AbsC R.E m len P lx1 s1 →
      SimC R m len P lx1 s1 (run R n b lx1 ctx W1).1 (peg R.text k b s1)) :
    SimC R m len P lx s (run R (n + 1) (.condImplies a kd b) lx ctx W).1
      (peg R.text (k + 1) (.condImplies a kd b) s) := by
  simp only [run, peg]
  rcases h1.cases with ⟨v1, lx1, W1, v1', s1, hr, hp, hv, ha, t1⟩ | ⟨e, W1, hr, hp⟩ | ⟨W1, hr⟩
  · rcases peg_maybe_ok hp with ⟨rfl, rfl, h⟩ | ⟨l, rfl, h⟩
    · obtain rfl := normVal_eq_none (v := v1) (by rw [hv]; exact normVal_none)
      rw [hr, h]; exact ⟨_, _, rfl, rfl, ha, t1⟩
    · obtain ⟨l0, rfl, hl⟩ := normVal_eq_some (v := v1) (by rw [hv]; exact normVal_some _)
      rw [hr, h]
      simp only [bindOk]
      cases l with
      | tok t =>
        obtain rfl : l0 = .tok t := normVal_eq_tok (by rw [hl]; exact normVal_tok t)
        simp only []
        by_cases hk : t.kind == kd
        · simp only [hk, if_true]
          rcases (h2 lx1 s1 W1 ha).cases with ⟨v2, lx2, W2, v2', s2, hr2, hp2, hv2, ha2, t2⟩ | ⟨e, W2, hr2, hp2⟩ | ⟨W2, hr2⟩
          · rw [hr2, hp2]; exact ⟨_, _, rfl, by simp [hv2], ha2, t1.trans t2⟩
          · rw [hr2, hp2]; rfl
          · rw [hr2]; trivial
        · simp only [hk, Bool.false_eq_true, if_false]
          exact ⟨_, _, rfl, rfl, ha, t1⟩
      | _ =>
        all_goals
          cases l0 <;> simp at hl
          all_goals
            simp only [Bool.false_eq_true, if_false]
            exact ⟨_, _, rfl, by simp [hl], ha, t1⟩
  · exact (peg_maybe_fail hp).elim
  · rw [hr]; trivial

/-! ### captures -/

theorem span_empty {st e : Pos} (h : e.byte ≤ st.byte) :
    normSpan (Span.enclosing st (if e.byte < st.byte then st else e)) = emptySpan := by
  by_cases h' : e.byte < st.byte
  · rw [if_pos h', enclosing_le (Nat.le_refl _)]
    unfold normSpan
    rw [if_pos rfl]
  · rw [if_neg h', enclosing_le (by omega)]
    unfold normSpan
    rw [if_pos (by show st.byte = e.byte; omega)]

theorem span_full {st e : Pos} (h : st.byte < e.byte) :
    Span.enclosing st (if e.byte < st.byte then st else e) = ⟨st, e⟩ := by
  rw [if_neg (by omega), enclosing_le (by omega)]

theorem normSpan_emptySpan : normSpan emptySpan = emptySpan := by
  simp [normSpan, emptySpan]

section Cap
variable (hc : Closed R.E P m) (ok : ScanOK R.E m len) (hp : PassOK R.E)
include hc ok hp

theorem stepC_spanned {n k a lx ctx W s} (a0 : AbsC R.E m len P lx s)
    (h1 : ∀ lx1, AbsC R.E m len P lx1 s → SimC R m len P lx1 s (run R n a lx1 ctx W).1 (peg R.text k a s)) :
    SimC R m len P lx s (run R (n + 1) (.spanned a) lx ctx W).1 (peg R.text (k + 1) (.spanned a) s) := by
  obtain ⟨ap, tp, stp⟩ := peek_trC hc ok a0
  obtain ⟨cs1, cs2, cs3⟩ := capStart_spec ok a0 ap
  simp only [run, peg]
  rcases (h1 _ ap).cases with ⟨v1, lx2, W1, v1', s1, hr, hp1, hv, ha, t1⟩ | ⟨e, W1, hr, hp1⟩ | ⟨W1, hr⟩
  · rw [hr, hp1]
    simp only [bindOk]
    have hpe := parseSpan_e ha.abs.inv
    rcases t1.step with ⟨hrest, hst⟩ | ⟨hah, r0, post, hs, hsuf⟩
    · rw [captured_of_none hrest]
      simp only []
      obtain ⟨hcur, _⟩ := hst stp
      refine ⟨_, _, rfl, ?_, ha, tp.trans t1⟩
      rw [normVal_spanned, normVal_spanned, normSpan_emptySpan, hv]
      congr 1
      apply span_empty
      rw [hpe, hcur]; exact cs2
    · obtain ⟨mid, hmid, hcap⟩ := captured_of_passed hs hsuf
      rw [hcap]
      simp only []
      obtain ⟨hcur, hlt⟩ := passed_cursor ok hp ap ha hs hmid hah t1.endp
      have hst : capStart (lx.peek R.E).2 = r0.start := cs1 r0 post hs
      refine ⟨_, _, rfl, ?_, ha, tp.trans t1⟩
      rw [normVal_spanned, normVal_spanned, hv]
      congr 2
      show Span.enclosing (capStart (lx.peek R.E).2)
        (if lx2.parseSpan.e.byte < (capStart (lx.peek R.E).2).byte then capStart (lx.peek R.E).2
          else lx2.parseSpan.e) = _
      rw [hst, hpe, hcur]
      exact span_full hlt
  · rw [hr, hp1]; rfl
  · rw [hr]; trivial

theorem stepC_text (hP : ∀ p, P p → (splitAtByte R.text p.byte).isSome = true)
    {n k a lx ctx W s} (a0 : AbsC R.E m len P lx s)
    (h1 : ∀ lx1, AbsC R.E m len P lx1 s → SimC R m len P lx1 s (run R n a lx1 ctx W).1 (peg R.text k a s)) :
    SimC R m len P lx s (run R (n + 1) (.text a) lx ctx W).1 (peg R.text (k + 1) (.text a) s) := by
  obtain ⟨ap, tp, stp⟩ := peek_trC hc ok a0
  obtain ⟨cs1, cs2, cs3⟩ := capStart_spec ok a0 ap
  simp only [run, peg]
  rcases (h1 _ ap).cases with ⟨v1, lx2, W1, v1', s1, hr, hp1, hv, ha, t1⟩ | ⟨e, W1, hr, hp1⟩ | ⟨W1, hr⟩
  · rw [hr, hp1]
    simp only [bindOk]
    have hpe := parseSpan_e ha.abs.inv
    show SimC R m len P lx s
      (match Source.sliceBytes R.text (capStart (lx.peek R.E).2).byte
          (Nat.max lx2.parseSpan.e.byte (capStart (lx.peek R.E).2).byte) with
        | .ok mid => ((RRes.ok (.text mid) lx2, W1) : RRes × World)
        | .panic => (RRes.panic, W1)).1 _
    rcases t1.step with ⟨hrest, hst⟩ | ⟨hah, r0, post, hs, hsuf⟩
    · rw [captured_of_none hrest]
      simp only []
      obtain ⟨hcur, _⟩ := hst stp
      have hmax : Nat.max lx2.parseSpan.e.byte (capStart (lx.peek R.E).2).byte =
          (capStart (lx.peek R.E).2).byte := by
        rw [hpe, hcur]; exact Nat.max_eq_right cs2
      rw [hmax, sliceBytes_self (hP _ cs3)]
      exact ⟨_, _, rfl, rfl, ha, tp.trans t1⟩
    · obtain ⟨mid, hmid, hcap⟩ := captured_of_passed hs hsuf
      rw [hcap]
      simp only []
      obtain ⟨hcur, hlt⟩ := passed_cursor ok hp ap ha hs hmid hah t1.endp
      have hst : capStart (lx.peek R.E).2 = r0.start := cs1 r0 post hs
      have hmax : Nat.max lx2.parseSpan.e.byte (capStart (lx.peek R.E).2).byte =
          (endPos r0.stop mid).byte := by
        rw [hpe, hcur, hst]; exact Nat.max_eq_left (by omega)
      rw [hmax, hst]
      have hP1 := hP _ cs3
      rw [hst] at hP1
      have hP2 := hP _ ha.pos.2.2.1
      rw [hcur] at hP2
      obtain ⟨t, ht⟩ := sliceBytes_ok hP1 hP2 (by omega)
      rw [ht]
      exact ⟨_, _, rfl, rfl, ha, tp.trans t1⟩
  · rw [hr, hp1]; rfl
  · rw [hr]; trivial

end Cap

/-! ### repetition -/

def SimCV (R : RunEnv) (m : Metrics) (len : Nat) (P : Pos → Prop) (lx : Lx) (s : PState) (r : RRes) (p : PRes) :
    Prop :=
  match r with
  | .ok _ lx' => ∃ v' s', p = .ok v' s' ∧ AbsC R.E m len P lx' s' ∧ Tr R.E m len lx s lx' s'
  | .err _ => p = .fail
  | .fuel => True
  | .panic => False

theorem SimCV.cases {lx : Lx} {s : PState} {x : RRes × World} {p : PRes} (h : SimCV R m len P lx s x.1 p) :
    (∃ v lx' W' v' s', x = (.ok v lx', W') ∧ p = .ok v' s' ∧ AbsC R.E m len P lx' s' ∧
      Tr R.E m len lx s lx' s') ∨
    (∃ e W', x = (.err e, W') ∧ p = .fail) ∨ (∃ W', x = (.fuel, W')) := by
  obtain ⟨r, W'⟩ := x
  cases r with
  | ok v lx' =>
    obtain ⟨v', s', hp, ha, ht⟩ := h
    exact Or.inl ⟨v, lx', W', v', s', rfl, hp, ha, ht⟩
  | err e => exact Or.inr (Or.inl ⟨e, W', rfl, h⟩)
  | fuel => exact Or.inr (Or.inr ⟨W', rfl⟩)
  | panic => exact h.elim

theorem SimC.toV {lx : Lx} {s : PState} {r : RRes} {p : PRes} (h : SimC R m len P lx s r p) :
    SimCV R m len P lx s r p := by
  cases r with
  | ok v lx' => obtain ⟨v', s', hp, _, ha, ht⟩ := h; exact ⟨v', s', hp, ha, ht⟩
  | err e => exact h
  | fuel => trivial
  | panic => exact h.elim

theorem sepItemC_sim {j k a sepR sepP lx ctx W s}
    (hs : SimCV R m len P lx s (run R j sepR lx ctx W).1 (peg R.text k sepP s))
    (ha : ∀ lx1 s1 W1, AbsC R.E m len P lx1 s1 →
      SimC R m len P lx1 s1 (run R j a lx1 ctx W1).1 (peg R.text k a s1)) :
    SimC R m len P lx s (sepItem R (j + 1) a sepR lx ctx W).1
      (bindOk (peg R.text k sepP s) fun _ s1 => peg R.text k a s1) := by
  simp only [sepItem]
  rcases hs.cases with ⟨v1, lx1, W1, v1', s1, hr, hp, h1, t1⟩ | ⟨e, W1, hr, hp⟩ | ⟨W1, hr⟩
  · rw [hr, hp]; exact (ha lx1 s1 W1 h1).trans t1
  · rw [hr, hp]; rfl
  · rw [hr]; trivial

def ItemOKC (R : RunEnv) (m : Metrics) (len : Nat) (P : Pos → Prop) (N : Nat) (gR gP : G)
    (rel : Lx → PState → RRes → PRes → Prop) : Prop :=
  ∀ i k, i ≤ N → 2 * i ≤ k → ∀ lx s ctx W, AbsC R.E m len P lx s →
    rel lx s (run R i gR lx ctx W).1 (peg R.text k gP s)

section RepC
variable {N lo : Nat} {hi : Option Nat} {a sepR sepP st : G} {ctx : Ctx}
variable (hA : ItemOKC R m len P N a a (SimC R m len P))
variable (hS : ItemOKC R m len P N sepR sepP (SimCV R m len P))
variable (hlh : hiBelow hi lo = false)
include hA hS hlh

omit hlh in
theorem sepItemC_ok {j k lx W s} (hj : j ≤ N + 1) (hk : 2 * j ≤ k + 2) (a0 : AbsC R.E m len P lx s) :
    SimC R m len P lx s (sepItem R j a sepR lx ctx W).1
      (bindOk (peg R.text k sepP s) fun _ s1 => peg R.text k a s1) := by
  cases j with
  | zero => simp only [sepItem]; trivial
  | succ i =>
    exact sepItemC_sim (hS i k (by omega) (by omega) lx s ctx W a0)
      (fun lx1 s1 W1 a1 => hA i k (by omega) (by omega) lx1 s1 ctx W1 a1)

theorem interLoopC_sim : ∀ j, j ≤ N + 1 → ∀ j', 2 * j + 1 ≤ j' → ∀ vals vals' lx s W, vals ≠ [] →
    vals.map normVal = vals'.map normVal → AbsC R.E m len P lx s →
    SimC R m len P lx s (interLoop R j lo hi a sepR vals lx ctx W).1
      (pegRepLoop R.text j' lo hi none a sepP vals' s) := by
  intro j
  induction j with
  | zero => intro _ j' _ vals vals' lx s W _ _ _; simp only [interLoop]; trivial
  | succ j ih =>
    intro hj j' hj' vals vals' lx s W hne hvals a0
    obtain ⟨j'', rfl⟩ : ∃ x, j' = x + 1 := ⟨j' - 1, by omega⟩
    have hsi := fun W => sepItemC_ok (j := j) (k := j'') (lx := lx) (W := W) (s := s) (ctx := ctx)
      hA hS (by omega) (by omega) a0
    have hlen : vals'.length = vals.length := by
      have := congrArg List.length hvals
      simpa using this.symm
    have hemp : vals'.isEmpty = false := by
      cases vals' with
      | nil => cases vals with
        | nil => exact absurd rfl hne
        | cons _ _ => simp at hlen
      | cons _ _ => rfl
    have hfin : normVal (.list vals.reverse) = normVal (.list vals'.reverse) := by
      simp [List.map_reverse, hvals]
    simp only [interLoop, pegRepLoop, hemp, hlen, Bool.false_eq_true, if_false]
    by_cases hlt : vals.length < lo
    · simp only [hlt, if_true, allows_of_lt hlh hlt, Bool.not_true, Bool.false_eq_true, if_false]
      rcases (hsi W).cases with ⟨v1, lx1, W1, v1', s1, hr, hp1, hv, h1, t1⟩ | ⟨e, W1, hr, hp1⟩ | ⟨W1, hr⟩
      · rw [hr, hp1]
        exact (ih (by omega) j'' (by omega) _ _ lx1 s1 W1 (by simp) (by simp [hv, hvals]) h1).trans t1
      · rw [hr, hp1]; rfl
      · rw [hr]; trivial
    · simp only [hlt, if_false, hiAllows_eq]
      cases hall : Spec.hiAllows hi vals.length
      · simp only [Bool.false_eq_true, if_false, Bool.not_false, if_true]
        exact ⟨_, _, rfl, hfin, a0, Tr.refl _ _⟩
      · simp only [if_true, Bool.not_true, Bool.false_eq_true, if_false]
        rcases (hsi W).cases with ⟨v1, lx1, W1, v1', s1, hr, hp1, hv, h1, t1⟩ | ⟨e, W1, hr, hp1⟩ | ⟨W1, hr⟩
        · rw [hr, hp1]
          simp only [hiReached_eq]
          cases hre : Spec.hiAllows hi (vals.length + 1)
          · simp only [Bool.not_false, if_true]
            obtain ⟨x, rfl⟩ : ∃ x, j'' = x + 1 := ⟨j'' - 1, by omega⟩
            rw [pegRepLoop_full (by simpa [hlen] using hre)]
            exact ⟨_, _, rfl, by simp [List.map_reverse, hv, hvals], h1, t1⟩
          · simp only [Bool.not_true, Bool.false_eq_true, if_false]
            exact (ih (by omega) j'' (by omega) _ _ lx1 s1 W1 (by simp) (by simp [hv, hvals]) h1).trans t1
        · rw [hr, hp1]; exact ⟨_, _, rfl, hfin, a0, Tr.refl _ _⟩
        · rw [hr]; trivial

theorem interLoopStartC_sim {n k lx W s} (hn : n ≤ N + 1) (hk : 2 * n + 1 ≤ k)
    (a0 : AbsC R.E m len P lx s) :
    SimC R m len P lx s (interLoopStart R n lo hi a sepR lx ctx W).1
      (pegRep R.text k lo hi none a sepP s) := by
  cases n with
  | zero => simp only [interLoopStart]; trivial
  | succ n =>
    obtain ⟨k, rfl⟩ : ∃ x, k = x + 2 := ⟨k - 2, by omega⟩
    simp only [interLoopStart, pegRep, hlh, Bool.false_eq_true, if_false]
    by_cases h0 : hi = some 0
    · subst h0
      simp only [beq_self_eq_true, if_true]
      exact ⟨_, _, rfl, rfl, a0, Tr.refl _ _⟩
    · have h0' : (hi == some 0) = false := by simpa using h0
      have hall : Spec.hiAllows hi 0 = true := by
        cases hi with
        | none => rfl
        | some x =>
          have : x ≠ 0 := by intro e; exact h0 (by rw [e])
          simp [Spec.hiAllows]; omega
      simp only [h0', Bool.false_eq_true, if_false, pegRepLoop, List.length_nil, hall, Bool.not_true,
        List.isEmpty_nil, if_true]
      rcases (hA n k (by omega) (by omega) lx s ctx W a0).cases with ⟨v1, lx1, W1, v1', s1, hr, hp1, hv, h1, t1⟩ | ⟨e, W1, hr, hp1⟩ | ⟨W1, hr⟩
      · rw [hr, hp1]
        exact (interLoopC_sim hA hS hlh n (by omega) k (by omega) _ _ lx1 s1 W1 (by simp) (by simp [hv])
          h1).trans t1
      · rw [hr, hp1]
        simp only []
        cases lo with
        | zero =>
          simp only [beq_self_eq_true, if_true, Nat.lt_irrefl, if_false]
          exact ⟨_, _, rfl, rfl, a0, Tr.refl _ _⟩
        | succ l => simp only [Nat.zero_lt_succ, if_true]; rfl
      · rw [hr]; trivial

section UntilC
variable (hT : ItemOKC R m len P N st st (SimCV R m len P))
include hT

theorem untilLoopC_sim : ∀ j, j ≤ N + 1 → ∀ j', 2 * j + 1 ≤ j' → ∀ vals vals' lx s W, vals ≠ [] →
    vals.map normVal = vals'.map normVal → AbsC R.E m len P lx s →
    SimC R m len P lx s (untilLoop R j lo hi st a sepR vals lx ctx W).1
      (pegRepLoop R.text j' lo hi (some st) a sepP vals' s) := by
  intro j
  induction j with
  | zero => intro _ j' _ vals vals' lx s W _ _ _; simp only [untilLoop]; trivial
  | succ j ih =>
    intro hj j' hj' vals vals' lx s W hne hvals a0
    obtain ⟨j'', rfl⟩ : ∃ x, j' = x + 1 := ⟨j' - 1, by omega⟩
    have hsi := fun W => sepItemC_ok (j := j) (k := j'') (lx := lx) (W := W) (s := s) (ctx := ctx)
      hA hS (by omega) (by omega) a0
    have hst := hT j j'' (by omega) (by omega) lx s ctx W a0
    have hlen : vals'.length = vals.length := by
      have := congrArg List.length hvals
      simpa using this.symm
    have hemp : vals'.isEmpty = false := by
      cases vals' with
      | nil => cases vals with
        | nil => exact absurd rfl hne
        | cons _ _ => simp at hlen
      | cons _ _ => rfl
    have hfin : normVal (.list vals.reverse) = normVal (.list vals'.reverse) := by
      simp [List.map_reverse, hvals]
    simp only [untilLoop, pegRepLoop, hemp, hlen, Bool.false_eq_true, if_false]
    by_cases hlt : vals.length < lo
    · simp only [hlt, if_true, allows_of_lt hlh hlt, Bool.not_true, Bool.false_eq_true, if_false]
      rcases hst.cases with ⟨v0, lx0, W0, v0', s0, hr0, hp0, _, _⟩ | ⟨e0, W0, hr0, hp0⟩ | ⟨W0, hr0⟩
      · rw [hr0, hp0]; exact ⟨_, _, rfl, hfin, a0, Tr.refl _ _⟩
      · rw [hr0, hp0]
        simp only [Bool.false_eq_true, if_false]
        rcases (hsi W0).cases with ⟨v1, lx1, W1, v1', s1, hr, hp1, hv, h1, t1⟩ | ⟨e, W1, hr, hp1⟩ | ⟨W1, hr⟩
        · rw [hr, hp1]
          exact (ih (by omega) j'' (by omega) _ _ lx1 s1 W1 (by simp) (by simp [hv, hvals]) h1).trans t1
        · rw [hr, hp1]; rfl
        · rw [hr]; trivial
      · rw [hr0]; trivial
    · simp only [hlt, if_false, hiAllows_eq]
      cases hall : Spec.hiAllows hi vals.length
      · simp only [Bool.false_eq_true, if_false, Bool.not_false, if_true]
        exact ⟨_, _, rfl, hfin, a0, Tr.refl _ _⟩
      · simp only [if_true, Bool.not_true, Bool.false_eq_true, if_false]
        rcases hst.cases with ⟨v0, lx0, W0, v0', s0, hr0, hp0, _, _⟩ | ⟨e0, W0, hr0, hp0⟩ | ⟨W0, hr0⟩
        · rw [hr0, hp0]; exact ⟨_, _, rfl, hfin, a0, Tr.refl _ _⟩
        · rw [hr0, hp0]
          simp only [Bool.false_eq_true, if_false]
          rcases (hsi W0).cases with ⟨v1, lx1, W1, v1', s1, hr, hp1, hv, h1, t1⟩ | ⟨e, W1, hr, hp1⟩ | ⟨W1, hr⟩
          · rw [hr, hp1]
            simp only [hiReached_eq]
            cases hre : Spec.hiAllows hi (vals.length + 1)
            · simp only [Bool.not_false, if_true]
              obtain ⟨x, rfl⟩ : ∃ x, j'' = x + 1 := ⟨j'' - 1, by omega⟩
              rw [pegRepLoop_full (by simpa [hlen] using hre)]
              exact ⟨_, _, rfl, by simp [List.map_reverse, hv, hvals], h1, t1⟩
            · simp only [Bool.not_true, Bool.false_eq_true, if_false]
              exact (ih (by omega) j'' (by omega) _ _ lx1 s1 W1 (by simp) (by simp [hv, hvals]) h1).trans t1
          · rw [hr, hp1]; exact ⟨_, _, rfl, hfin, a0, Tr.refl _ _⟩
          · rw [hr]; trivial
        · rw [hr0]; trivial

theorem untilStartC_sim {n k lx W s} (hn : n ≤ N + 1) (hk : 2 * n + 1 ≤ k) (a0 : AbsC R.E m len P lx s) :
    SimC R m len P lx s (untilStart R n lo hi st a sepR lx ctx W).1
      (pegRep R.text k lo hi (some st) a sepP s) := by
  cases n with
  | zero => simp only [untilStart]; trivial
  | succ n =>
    obtain ⟨k, rfl⟩ : ∃ x, k = x + 2 := ⟨k - 2, by omega⟩
    simp only [untilStart, pegRep, hlh, Bool.false_eq_true, if_false]
    by_cases h0 : hi = some 0
    · subst h0
      simp only [beq_self_eq_true, if_true]
      exact ⟨_, _, rfl, rfl, a0, Tr.refl _ _⟩
    · have h0' : (hi == some 0) = false := by simpa using h0
      have hall : Spec.hiAllows hi 0 = true := by
        cases hi with
        | none => rfl
        | some x =>
          have : x ≠ 0 := by intro e; exact h0 (by rw [e])
          simp [Spec.hiAllows]; omega
      simp only [h0', Bool.false_eq_true, if_false, pegRepLoop, List.length_nil, hall, Bool.not_true,
        List.isEmpty_nil, if_true]
      rcases (hT n k (by omega) (by omega) lx s ctx W a0).cases with ⟨v0, lx0, W0, v0', s0, hr0, hp0, _, _⟩ | ⟨e0, W0, hr0, hp0⟩ | ⟨W0, hr0⟩
      · rw [hr0, hp0]; exact ⟨_, _, rfl, rfl, a0, Tr.refl _ _⟩
      · rw [hr0, hp0]
        simp only [Bool.false_eq_true, if_false]
        rcases (hA n k (by omega) (by omega) lx s ctx W0 a0).cases with ⟨v1, lx1, W1, v1', s1, hr, hp1, hv, h1, t1⟩ | ⟨e, W1, hr, hp1⟩ | ⟨W1, hr⟩
        · rw [hr, hp1]
          exact (untilLoopC_sim hA hS hlh hT n (by omega) k (by omega) _ _ lx1 s1 W1 (by simp)
            (by simp [hv]) h1).trans t1
        · rw [hr, hp1]
          simp only []
          cases lo with
          | zero =>
            simp only [beq_self_eq_true, if_true, Nat.lt_irrefl, if_false]
            exact ⟨_, _, rfl, rfl, a0, Tr.refl _ _⟩
          | succ l => simp only [Nat.zero_lt_succ, if_true]; rfl
        · rw [hr]; trivial
      · rw [hr0]; trivial

end UntilC
end RepC

/-! ### the fragment with repetition and captures -/

theorem countOfC_sim {lx : Lx} {s : PState} {v : Nat} {x : RRes × World} {p : PRes}
    (h : SimC R m len P lx s x.1 p) : SimC R m len P lx s (countOf v x).1 (countOfP v p) := by
  simp only [countOf, countOfP]
  by_cases hv0 : (v == 0) = true
  · simp only [hv0, if_true]; exact h
  · simp only [hv0, Bool.false_eq_true, if_false]
    rcases h.cases with ⟨v1, lx1, W1, v1', s1, hr, hp, hv, h1, t1⟩ | ⟨e, W1, hr, hp⟩ | ⟨W1, hr⟩
    · rw [hr, hp]
      cases v1' with
      | list l' =>
        obtain ⟨l, rfl, hl⟩ := normVal_eq_list (v := v1) (by rw [hv]; exact normVal_list _)
        simp only []
        have := congrArg List.length hl
        simp only [List.length_map] at this
        exact ⟨_, _, rfl, by simp [this], h1, t1⟩
      | _ =>
        all_goals
          cases v1 <;> simp at hv
          all_goals exact ⟨_, _, rfl, by simp_all, h1, t1⟩
    · rw [hr, hp]; rfl
    · rw [hr]; trivial

theorem discard_simCV {lx0 : Lx} {s0 : PState} {i g lx ctx W p}
    (h : SimC R m len P lx0 s0 (run R i g lx ctx W).1 p) :
    SimCV R m len P lx0 s0 (run R (i + 1) (.discard g) lx ctx W).1 p := by
  simp only [run]
  rcases h.cases with ⟨v1, lx1, W1, v1', s1, hr, hp, hv, h1, t1⟩ | ⟨e, W1, hr, hp⟩ | ⟨W1, hr⟩
  · rw [hr]; exact ⟨v1', s1, hp, h1, t1⟩
  · rw [hr]; exact hp
  · rw [hr]; trivial

theorem sepDefaultC_ok (hc : Closed R.E P m) (ok : ScanOK R.E m len) (hp : PassOK R.E) (N kd : Nat) :
    ItemOKC R m len P N (.discard (.one kd)) (.one kd) (SimCV R m len P) := by
  intro i k _ hk lx s ctx W a
  cases i with
  | zero => simp only [run]; trivial
  | succ i =>
    cases i with
    | zero => simp only [run]; trivial
    | succ i =>
      obtain ⟨k, rfl⟩ : ∃ x, k = x + 1 := ⟨k - 1, by omega⟩
      exact discard_simCV (stepC_one hc ok hp a)

/-- The C14 fragment: the C07 fragment plus `spanned` and `text`, anywhere. -/
def pegWithCap : G → Bool
  | .empty | .one _ | .seq _ | .seqCount _ | .pred _ | .endOfText => true
  | .any ks | .anyIndex ks => !ks.isEmpty
  | .left a b | .right a b | .both a b | .either a b | .implies a b | .antecedent a b | .consequent a b =>
    pegWithCap a && pegWithCap b
  | .center a b c => pegWithCap a && pegWithCap b && pegWithCap c
  | .map a | .discard a | .maybe a | .requireIf _ a | .cond _ a | .someOf a | .spanned a | .text a =>
    pegWithCap a
  | .condImplies a _ b => pegWithCap a && pegWithCap b
  | .repeat_ _ lo hi a => !hiBelow hi lo && pegWithCap a
  | .repeatUntil _ lo hi st a => !hiBelow hi lo && pegWithCap st && pegWithCap a
  | .intersperse _ lo hi a sp => !hiBelow hi lo && pegWithCap a && pegWithCap sp
  | .intersperseUntil _ lo hi st a sp => !hiBelow hi lo && pegWithCap st && pegWithCap a && pegWithCap sp
  | .intersperseDefault lo hi a _ => !hiBelow hi lo && pegWithCap a
  | _ => false

theorem cap_sim (hc : Closed R.E P m) (ok : ScanOK R.E m len) (hp : PassOK R.E)
    (hP : ∀ p, P p → (splitAtByte R.text p.byte).isSome = true) :
    ∀ N n, n ≤ N → ∀ k, 2 * n ≤ k → ∀ g lx s ctx W, pegWithCap g = true → AbsC R.E m len P lx s →
      SimC R m len P lx s (run R n g lx ctx W).1 (peg R.text k g s) := by
  intro N
  induction N with
  | zero =>
    intro n hn k _ g lx s ctx W _ _
    obtain rfl : n = 0 := by omega
    simp only [run]; trivial
  | succ n ihN =>
    intro n0 hn k hk g lx s ctx W hg a
    by_cases hlt : n0 ≤ n
    · exact ihN n0 hlt k hk g lx s ctx W hg a
    obtain rfl : n0 = n + 1 := by omega
    have item : ∀ g, pegWithCap g = true → ItemOKC R m len P n g g (SimC R m len P) :=
      fun g hg i k hi hk lx s ctx W a => ihN i hi k hk g lx s ctx W hg a
    have itemV : ∀ g, pegWithCap g = true → ItemOKC R m len P n g g (SimCV R m len P) :=
      fun g hg i k hi hk lx s ctx W a => (ihN i hi k hk g lx s ctx W hg a).toV
    have ih := fun k hk => ihN n (Nat.le_refl n) k hk
    obtain ⟨k, rfl⟩ : ∃ k', k = k' + 1 := ⟨k - 1, by omega⟩
    have hk' : 2 * n ≤ k := by omega
    have hk1 : 2 * n ≤ k + 1 := by omega
    have hk2 : 2 * n + 1 ≤ k := by omega
    cases g with
    | empty => exact stepC_empty a
    | one kd => exact stepC_one hc ok hp a
    | any ks => exact stepC_any hc ok hp a (by simpa [pegWithCap] using hg)
    | anyIndex ks => exact stepC_anyIndex hc ok hp a (by simpa [pegWithCap] using hg)
    | seq ks => exact stepC_seq hc ok hp a
    | seqCount ks => exact stepC_seqCount hc ok hp a
    | pred pe => exact stepC_pred hc ok hp a
    | endOfText => exact stepC_endOfText hc ok hp a
    | left x y =>
      simp only [pegWithCap, Bool.and_eq_true] at hg
      exact stepC_left (ih (k + 1) hk1 (.both x y) lx s ctx W (by simp [pegWithCap, hg]) a)
    | right x y =>
      simp only [pegWithCap, Bool.and_eq_true] at hg
      exact stepC_right (ih (k + 1) hk1 (.both x y) lx s ctx W (by simp [pegWithCap, hg]) a)
    | both x y =>
      simp only [pegWithCap, Bool.and_eq_true] at hg
      exact stepC_both (ih k hk' x lx s ctx W hg.1 a) (fun lx1 s1 W1 a1 => ih k hk' y lx1 s1 ctx W1 hg.2 a1)
    | center x y z =>
      simp only [pegWithCap, Bool.and_eq_true] at hg
      exact stepC_center (ih k hk' x lx s ctx W hg.1.1 a) (fun lx1 s1 W1 a1 => ih k hk' y lx1 s1 ctx W1 hg.1.2 a1)
        (fun lx1 s1 W1 a1 => ih k hk' z lx1 s1 ctx W1 hg.2 a1)
    | map x => exact stepC_map (ih k hk' x lx s ctx W hg a)
    | discard x => exact stepC_discard (ih k hk' x lx s ctx W hg a)
    | someOf x => exact stepC_someOf (ih k hk' x lx s ctx W hg a)
    | either x y =>
      simp only [pegWithCap, Bool.and_eq_true] at hg
      exact stepC_either (ih k hk' x lx s ctx W hg.1 a) (fun W1 => ih k hk' y lx s ctx W1 hg.2 a)
    | maybe x => exact stepC_maybe a (ih k hk' x lx s _ W hg a)
    | requireIf flag x =>
      exact stepC_requireIf (ih k hk' x lx s ctx W hg a) (ih k hk' (.maybe x) lx s ctx W hg a)
    | cond flag x => exact stepC_cond a (ih k hk' x lx s ctx W hg a)
    | implies x y =>
      simp only [pegWithCap, Bool.and_eq_true] at hg
      exact stepC_implies (ih (k + 1) hk1 (.maybe x) lx s ctx W hg.1 a)
        (fun lx1 s1 W1 a1 => ih k hk' y lx1 s1 ctx W1 hg.2 a1)
    | antecedent x y =>
      simp only [pegWithCap, Bool.and_eq_true] at hg
      exact stepC_antecedent (ih (k + 1) hk1 (.implies x y) lx s ctx W (by simp [pegWithCap, hg]) a)
    | consequent x y =>
      simp only [pegWithCap, Bool.and_eq_true] at hg
      exact stepC_consequent (ih (k + 1) hk1 (.implies x y) lx s ctx W (by simp [pegWithCap, hg]) a)
    | condImplies x kd y =>
      simp only [pegWithCap, Bool.and_eq_true] at hg
      exact stepC_condImplies (ih (k + 1) hk1 (.maybe x) lx s ctx W hg.1 a)
        (fun lx1 s1 W1 a1 => ih k hk' y lx1 s1 ctx W1 hg.2 a1)
    | spanned x =>
      exact stepC_spanned hc ok hp a (fun lx1 a1 => ih k hk' x lx1 s ctx W hg a1)
    | text x =>
      exact stepC_text hc ok hp hP a (fun lx1 a1 => ih k hk' x lx1 s ctx W hg a1)
    | repeat_ v lo hi x =>
      simp only [pegWithCap, Bool.and_eq_true, Bool.not_eq_true'] at hg
      simp only [run, peg]
      exact countOfC_sim (interLoopStartC_sim (item x hg.2) (itemV .empty rfl) hg.1 (Nat.le_succ n) hk2 a)
    | intersperse v lo hi x sp =>
      simp only [pegWithCap, Bool.and_eq_true, Bool.not_eq_true'] at hg
      simp only [run, peg]
      exact countOfC_sim (interLoopStartC_sim (item x hg.1.2) (itemV sp hg.2) hg.1.1 (Nat.le_succ n) hk2 a)
    | intersperseDefault lo hi x sepk =>
      simp only [pegWithCap, Bool.and_eq_true, Bool.not_eq_true'] at hg
      simp only [run, peg]
      exact interLoopStartC_sim (item x hg.2) (sepDefaultC_ok hc ok hp n sepk) hg.1 (Nat.le_succ n) hk2 a
    | repeatUntil v lo hi st x =>
      simp only [pegWithCap, Bool.and_eq_true, Bool.not_eq_true'] at hg
      simp only [run, peg]
      exact countOfC_sim (untilStartC_sim (item x hg.2) (itemV .empty rfl) hg.1.1 (itemV st hg.1.2)
        (Nat.le_succ n) hk2 a)
    | intersperseUntil v lo hi st x sp =>
      simp only [pegWithCap, Bool.and_eq_true, Bool.not_eq_true'] at hg
      simp only [run, peg]
      exact countOfC_sim (untilStartC_sim (item x hg.1.2) (itemV sp hg.2) hg.1.1.1 (itemV st hg.1.1.2)
        (Nat.le_succ n) hk2 a)
    | _ => simp [pegWithCap] at hg

/-! ### the capture itself, explicitly -/

theorem span_empty_bytes {st e : Pos} (h : e.byte ≤ st.byte) :
    (Span.enclosing st (if e.byte < st.byte then st else e)).s.byte =
      (Span.enclosing st (if e.byte < st.byte then st else e)).e.byte := by
  by_cases h' : e.byte < st.byte
  · rw [if_pos h', enclosing_le (Nat.le_refl _)]
  · rw [if_neg h', enclosing_le (by omega)]
    show st.byte = e.byte
    omega

section Exact
variable (hc : Closed R.E P m) (ok : ScanOK R.E m len) (hp : PassOK R.E)
include hc ok hp

/-- `spanned(a)`: the recorded span is the reference evaluator's captured span of the
consumed raw tokens, or an empty span when nothing was consumed. -/
theorem spanned_exact {n k a lx ctx W s} (a0 : AbsC R.E m len P lx s)
    (h1 : ∀ lx1, AbsC R.E m len P lx1 s → SimC R m len P lx1 s (run R n a lx1 ctx W).1 (peg R.text k a s))
    {val : Val} {lx2 : Lx} (hrun : (run R (n + 1) (.spanned a) lx ctx W).1 = .ok val lx2) :
    ∃ sp v v' s1, val = .spanned sp v ∧ peg R.text k a s = .ok v' s1 ∧ normVal v = normVal v' ∧
      AbsC R.E m len P lx2 s1 ∧
      (match capturedSpan s.filter (s.rest.take (s.rest.length - s1.rest.length)) with
        | some sp' => sp = sp'
        | none => sp.s.byte = sp.e.byte) := by
  obtain ⟨ap, tp, stp⟩ := peek_trC hc ok a0
  obtain ⟨cs1, cs2, cs3⟩ := capStart_spec ok a0 ap
  simp only [run] at hrun
  rcases (h1 _ ap).cases with ⟨v1, lx2', W1, v1', s1, hr, hp1, hv, ha, t1⟩ | ⟨e, W1, hr, hp1⟩ | ⟨W1, hr⟩
  · rw [hr] at hrun
    simp only [RRes.ok.injEq] at hrun
    obtain ⟨rfl, rfl⟩ := hrun
    have hpe := parseSpan_e ha.abs.inv
    refine ⟨_, v1, v1', s1, rfl, hp1, hv, ha, ?_⟩
    rcases t1.step with ⟨hrest, hst⟩ | ⟨hah, r0, post, hs, hsuf⟩
    · rw [captured_of_none hrest]
      simp only []
      obtain ⟨hcur, _⟩ := hst stp
      apply span_empty_bytes
      rw [hpe, hcur]; exact cs2
    · obtain ⟨mid, hmid, hcap⟩ := captured_of_passed hs hsuf
      rw [hcap]
      simp only []
      obtain ⟨hcur, hlt⟩ := passed_cursor ok hp ap ha hs hmid hah t1.endp
      have hst : capStart (lx.peek R.E).2 = r0.start := cs1 r0 post hs
      show Span.enclosing (capStart (lx.peek R.E).2)
        (if lx2'.parseSpan.e.byte < (capStart (lx.peek R.E).2).byte then capStart (lx.peek R.E).2
          else lx2'.parseSpan.e) = _
      rw [hst, hpe, hcur]
      exact span_full hlt
  · rw [hr] at hrun; cases hrun
  · rw [hr] at hrun; cases hrun

/-- `text(a)`: the returned text is the slice of the source over the reference evaluator's
captured span, or empty when nothing was consumed. -/
theorem text_exact (hP : ∀ p, P p → (splitAtByte R.text p.byte).isSome = true)
    {n k a lx ctx W s} (a0 : AbsC R.E m len P lx s)
    (h1 : ∀ lx1, AbsC R.E m len P lx1 s → SimC R m len P lx1 s (run R n a lx1 ctx W).1 (peg R.text k a s))
    {val : Val} {lx2 : Lx} (hrun : (run R (n + 1) (.text a) lx ctx W).1 = .ok val lx2) :
    ∃ mid v' s1, val = .text mid ∧ peg R.text k a s = .ok v' s1 ∧ AbsC R.E m len P lx2 s1 ∧
      (match capturedSpan s.filter (s.rest.take (s.rest.length - s1.rest.length)) with
        | some sp' => Source.sliceBytes R.text sp'.s.byte sp'.e.byte = .ok mid
        | none => mid = []) := by
  obtain ⟨ap, tp, stp⟩ := peek_trC hc ok a0
  obtain ⟨cs1, cs2, cs3⟩ := capStart_spec ok a0 ap
  simp only [run] at hrun
  rcases (h1 _ ap).cases with ⟨v1, lx2', W1, v1', s1, hr, hp1, hv, ha, t1⟩ | ⟨e, W1, hr, hp1⟩ | ⟨W1, hr⟩
  · rw [hr] at hrun
    have hpe := parseSpan_e ha.abs.inv
    change (match Source.sliceBytes R.text (capStart (lx.peek R.E).2).byte
          (Nat.max lx2'.parseSpan.e.byte (capStart (lx.peek R.E).2).byte) with
        | .ok mid => ((RRes.ok (.text mid) lx2', W1) : RRes × World)
        | .panic => (RRes.panic, W1)).1 = _ at hrun
    rcases t1.step with ⟨hrest, hst⟩ | ⟨hah, r0, post, hs, hsuf⟩
    · obtain ⟨hcur, _⟩ := hst stp
      have hmax : Nat.max lx2'.parseSpan.e.byte (capStart (lx.peek R.E).2).byte =
          (capStart (lx.peek R.E).2).byte := by
        rw [hpe, hcur]; exact Nat.max_eq_right cs2
      rw [hmax, sliceBytes_self (hP _ cs3)] at hrun
      simp only [RRes.ok.injEq] at hrun
      obtain ⟨rfl, rfl⟩ := hrun
      refine ⟨[], v1', s1, rfl, hp1, ha, ?_⟩
      rw [captured_of_none hrest]
    · obtain ⟨mid, hmid, hcap⟩ := captured_of_passed hs hsuf
      obtain ⟨hcur, hlt⟩ := passed_cursor ok hp ap ha hs hmid hah t1.endp
      have hst : capStart (lx.peek R.E).2 = r0.start := cs1 r0 post hs
      have hmax : Nat.max lx2'.parseSpan.e.byte (capStart (lx.peek R.E).2).byte =
          (endPos r0.stop mid).byte := by
        rw [hpe, hcur, hst]; exact Nat.max_eq_left (by omega)
      rw [hmax, hst] at hrun
      have hP1 := hP _ cs3
      rw [hst] at hP1
      have hP2 := hP _ ha.pos.2.2.1
      rw [hcur] at hP2
      obtain ⟨t, ht⟩ := sliceBytes_ok hP1 hP2 (by omega)
      rw [ht] at hrun
      simp only [RRes.ok.injEq] at hrun
      obtain ⟨rfl, rfl⟩ := hrun
      refine ⟨t, v1', s1, rfl, hp1, ha, ?_⟩
      rw [hcap]
      exact ht
  · rw [hr] at hrun; cases hrun
  · rw [hr] at hrun; cases hrun

end Exact

/-! ### witnesses (evaluated) -/

namespace Witness

/-- positions inside the 3-byte text `a b` (all are char boundaries) -/
def PW : Pos → Prop := fun p => p.byte ≤ 3

theorem closedW : Closed EW PW mW := by
  intro s p tok adv s' _ h
  exact (scanW_ok.progress s p tok adv s' h).2

theorem boundaryW : ∀ p, PW p → (splitAtByte RW.text p.byte).isSome = true := by
  intro p h
  have : p.byte = 0 ∨ p.byte = 1 ∨ p.byte = 2 ∨ p.byte = 3 := by unfold PW at h; omega
  rcases this with e | e | e | e <;> rw [e] <;> rfl

theorem absCW : AbsC EW mW 3 PW lxW sW := by
  have := absC_withFilter (P := PW) closedW scanW_ok passW (by show (0 : Nat) ≤ 3; omega) 0 (some 1)
  rw [rawW_eq] at this
  exact this

end Witness

end PegRefine
end Tephra
