/-
  C16, escape codes: the plain rendering of a whole report is the coloured
  rendering with the escape sequences `ESC [ … m` removed.

  `stripC` is the two-state automaton (outside / inside an escape sequence) the
  differential driver uses (`Fam.RenderF.stripAnsi`, here on characters instead
  of code points; `stripAnsi_bridge`).  `Strips a b` is the compositional form:
  reading `a` from the outside state emits `b` and ends in the outside state.
  Every piece the renderer emits has that form, so stripping distributes over
  the concatenations of the renderer.
-/
import TephraProofs.RenderProof

set_option linter.unusedSimpArgs false
set_option linter.unusedSectionVars false
set_option linter.unusedVariables false

namespace Tephra

/-- `panic ↦ panic`, `ok a ↦ ok (f a)` -/
def Res.map {α β} (f : α → β) : Res α → Res β
  | .ok a => .ok (f a)
  | .panic => .panic

end Tephra

namespace Tephra.RenderPf
open Tephra Tephra.Render

/-! ### 1. the automaton -/

/-- remove `ESC … m` sequences; the flag says whether we are inside one -/
def stripC : List Char → Bool → List Char
  | [], _ => []
  | c :: rest, true => if c == 'm' then stripC rest false else stripC rest true
  | c :: rest, false => if c == '\x1b' then stripC rest true else c :: stripC rest false

/-- the coloured string with its escape sequences removed -/
def stripAnsi (s : String) : String := String.ofList (stripC s.toList false)

theorem strip'_map (cs : List Char) (b : Bool) :
    strip' (cs.map (·.toNat)) b = (stripC cs b).map (·.toNat) := by
  induction cs generalizing b with
  | nil => simp [strip', stripC]
  | cons c cs ih =>
    have h1 : (c.toNat == 109) = (c == 'm') := by
      rw [Bool.eq_iff_iff]; simp [← Char.toNat_inj]
    have h2 : (c.toNat == 27) = (c == '\x1b') := by
      rw [Bool.eq_iff_iff]; simp [← Char.toNat_inj]
    cases b
    · simp only [List.map_cons, strip', stripC, h2, ih]
      split <;> simp
    · simp only [List.map_cons, strip', stripC, h1, ih]
      split <;> simp

/-- `stripAnsi` is the function the differential driver applies to the coloured output -/
theorem stripAnsi_bridge (s : String) :
    Fam.RenderF.stripAnsi (s.toList.map (·.toNat)) = (stripAnsi s).toList.map (·.toNat) := by
  unfold Fam.RenderF.stripAnsi
  rw [go_eq_strip' _ _ _ (Nat.lt_succ_self _), strip'_map]
  simp [stripAnsi]

/-! ### 2. ESC-free strings; the compositional relation -/

/-- the string contains no ESC character -/
def NoEsc (s : String) : Prop := ∀ c ∈ s.toList, c ≠ '\x1b'

instance (s : String) : Decidable (NoEsc s) := by unfold NoEsc; infer_instance

@[simp] theorem NoEsc_append (a b : String) : NoEsc (a ++ b) ↔ NoEsc a ∧ NoEsc b := by
  simp only [NoEsc, String.toList_append, List.mem_append]
  constructor
  · intro h; exact ⟨fun c hc => h c (Or.inl hc), fun c hc => h c (Or.inr hc)⟩
  · rintro ⟨h1, h2⟩ c (hc | hc)
    · exact h1 c hc
    · exact h2 c hc

@[simp] theorem NoEsc_empty : NoEsc "" := by decide

theorem NoEsc_join (l : List String) (h : ∀ s ∈ l, NoEsc s) : NoEsc (String.join l) := by
  induction l with
  | nil => simp
  | cons x xs ih =>
    simp only [String.join_cons, NoEsc_append]
    exact ⟨h x (by simp), ih (fun s hs => h s (by simp [hs]))⟩

@[simp] theorem NoEsc_rep (s : String) (n : Nat) (h : NoEsc s) : NoEsc (rep s n) := by
  apply NoEsc_join
  intro x hx
  rw [(List.mem_replicate.mp hx).2]; exact h

@[simp] theorem NoEsc_rep_space (n : Nat) : NoEsc (rep " " n) := NoEsc_rep _ _ (by decide)

@[simp] theorem NoEsc_nat (n : Nat) : NoEsc (toString n) := by
  intro c hc h
  rw [Nat.toString_eq_repr, Nat.repr, String.toList_ofList] at hc
  have := Nat.isDigit_of_mem_toDigits (by decide) (by decide) hc
  subst h
  revert this; decide

theorem NoEsc_padLeft (w : Nat) (s : String) (h : NoEsc s) : NoEsc (padLeft w s) := by
  simp [padLeft, h]

/-- reading `a` from outside an escape sequence emits `b` and ends outside -/
def Strips (a b : String) : Prop :=
  ∀ rest, stripC (a.toList ++ rest) false = b.toList ++ stripC rest false

theorem Strips.eq {a b : String} (h : Strips a b) : stripAnsi a = b := by
  have := h []
  simp only [List.append_nil, stripC] at this
  simp [stripAnsi, this]

/-- stripping distributes over `++` when the left piece ends outside an escape sequence -/
theorem stripAnsi_append {a a' : String} (h : Strips a a') (b : String) :
    stripAnsi (a ++ b) = stripAnsi a ++ stripAnsi b := by
  rw [h.eq]
  simp only [stripAnsi, String.toList_append, h _, String.ofList_append, String.ofList_toList]

theorem Strips.of_noEsc {s : String} (h : NoEsc s) : Strips s s := by
  intro rest
  unfold NoEsc at h
  generalize s.toList = cs at h
  induction cs with
  | nil => rfl
  | cons c cs ih =>
    have hc : (c == '\x1b') = false := by simpa using h c (by simp)
    simp only [List.cons_append, stripC, hc, Bool.false_eq_true, if_false,
      ih (fun c' hc' => h c' (by simp [hc']))]

theorem Strips.empty : Strips "" "" := Strips.of_noEsc NoEsc_empty

theorem Strips.append {a a' b b' : String} (h1 : Strips a a') (h2 : Strips b b') :
    Strips (a ++ b) (a' ++ b') := by
  intro rest
  simp only [String.toList_append, List.append_assoc]
  rw [h1, h2]

theorem Strips.ansi (st : Style) {s : String} (h : NoEsc s) : Strips (ansi st s) (plainPaint st s) := by
  intro rest
  have key := Strips.of_noEsc h
  obtain ⟨color, bold⟩ := st
  cases color <;> cases bold <;>
    simp [Render.ansi, plainPaint, String.toList_append, stripC, key _]

theorem Strips.join {α} (l : List α) (f g : α → String) (h : ∀ x ∈ l, Strips (f x) (g x)) :
    Strips (String.join (l.map f)) (String.join (l.map g)) := by
  induction l with
  | nil => exact Strips.empty
  | cons x xs ih =>
    simp only [List.map_cons, String.join_cons]
    exact (h x (by simp)).append (ih (fun y hy => h y (by simp [hy])))

theorem Strips.replicate {a b : String} (n : Nat) (h : Strips a b) :
    Strips (String.join (List.replicate n a)) (String.join (List.replicate n b)) := by
  induction n with
  | zero => exact Strips.empty
  | succ n ih =>
    simp only [List.replicate_succ, String.join_cons]
    exact h.append ih


/-! ### 3. the renderer, function by function: `paint := ansi` against `paint := plainPaint`
on the colour code path -/

theorem ofNat_esc (n : Nat) (h : Char.ofNat n = '\x1b') : n = 27 := by
  have h2 : (Char.ofNat n).toNat = 27 := by rw [h]; rfl
  unfold Char.ofNat at h2
  split at h2
  · simpa [Char.ofNatAux, Char.toNat] using h2
  · simp [Char.toNat] at h2

theorem NoEsc_textString (t : Text) (h : ∀ c ∈ t, c.code ≠ 27) : NoEsc (textString t) := by
  intro c hc he
  simp only [textString, String.toList_ofList, List.mem_map] at hc
  obtain ⟨ch, hch, rfl⟩ := hc
  exact h ch hch (ofNat_esc _ he)

theorem NoEsc_toString_str (s : String) : NoEsc (toString s) ↔ NoEsc s := Iff.rfl

theorem NoEsc_showPage (p : Pos) : NoEsc (showPage p) := by
  simp only [showPage, NoEsc_append, NoEsc_toString_str, NoEsc_nat, true_and, and_true]
  decide

theorem NoEsc_showSpan (x : Span) : NoEsc (showSpan x) := by
  simp only [showSpan]
  split <;> split <;>
    simp only [NoEsc_append, NoEsc_toString_str, NoEsc_nat, NoEsc_showPage, true_and, and_true] <;>
    decide

theorem NoEsc_label (m : MType) : NoEsc m.label := by cases m <;> decide

theorem NoEsc_underline (m : MType) : NoEsc m.underline := by cases m <;> decide

theorem writeMType_strip (m : MType) :
    Strips (writeMType ansi true m) (writeMType plainPaint true m) := by
  cases m <;> simp only [writeMType, if_true]
  · exact Strips.of_noEsc (by decide)
  all_goals exact Strips.ansi _ (NoEsc_label _)

theorem writeNote_strip (n : Note) (h : NoEsc n.text) :
    Strips (writeNote ansi true n) (writeNote plainPaint true n) := by
  unfold writeNote
  exact ((writeMType_strip _).append (Strips.of_noEsc (by decide))).append (Strips.of_noEsc h)

theorem writeGutter_strip (v : String) (w : Nat) (h : NoEsc v) :
    Strips (writeGutter ansi true v w) (writeGutter plainPaint true v w) := by
  simp only [writeGutter, if_true]
  exact (((Strips.ansi _ (NoEsc_padLeft _ _ h)).append (Strips.of_noEsc (by decide))).append
    (Strips.ansi _ (by decide))).append (Strips.of_noEsc (by decide))

/-- `writeRiser` after its two normalisation steps (`normSt`), any painter -/
def riserCoreP (paint : Style → String → String) (color : Bool) (h : Highlight) (line : Nat)
    (st : Riser) (active : Bool) : String × Riser :=
  match st with
  | .unused => ("", .unused)
  | .ended => (" ", .ended)
  | .waiting =>
    if line == h.span.s.line && !active && h.span.s.col == 0 && !h.hasMessageForLine line then
      ((if color then paint ⟨h.mtype.color, false⟩ "/" else "/"), .started)
    else if line == h.span.s.line && active then (" ", .started)
    else (" ", .waiting)
  | .started =>
    if line == h.span.e.line && !active && h.span.e.col == 0 && !h.hasMessageForLine line then
      ((if color then paint ⟨h.mtype.color, false⟩ "\\" else "\\"), .ended)
    else if line == h.span.e.line && active then ("|", .ended)
    else ("|", .started)

theorem writeRiser_eqP (paint : Style → String → String) (color : Bool) (h : Highlight)
    (line : Nat) (st : Riser) (active : Bool) :
    writeRiser paint color h line st active =
      riserCoreP paint color h line (normSt h line st) active := rfl

theorem writeRiser_strip (h : Highlight) (line : Nat) (st : Riser) (active : Bool) :
    Strips (writeRiser ansi true h line st active).1 (writeRiser plainPaint true h line st active).1 ∧
      (writeRiser ansi true h line st active).2 = (writeRiser plainPaint true h line st active).2 := by
  rw [writeRiser_eqP, writeRiser_eqP]
  generalize normSt h line st = st'
  constructor
  · cases st' <;> simp only [riserCoreP, if_true]
    · exact Strips.empty
    · split
      · exact Strips.ansi _ (by decide)
      · split <;> exact Strips.of_noEsc (by decide)
    · split
      · exact Strips.ansi _ (by decide)
      · split <;> exact Strips.of_noEsc (by decide)
    · exact Strips.of_noEsc (by decide)
  · cases st' <;> simp only [riserCoreP] <;> (repeat' split) <;> rfl

theorem writeRisers_strip (line : Nat) (act : Option Nat) (i : Nat) (hls : List Highlight)
    (sts : List Riser) :
    Strips (writeRisers ansi true line act i hls sts).1 (writeRisers plainPaint true line act i hls sts).1 ∧
      (writeRisers ansi true line act i hls sts).2 = (writeRisers plainPaint true line act i hls sts).2 := by
  induction hls generalizing i sts with
  | nil => simp [writeRisers, Strips.empty]
  | cons h hs ih =>
    cases sts with
    | nil => simp [writeRisers, Strips.empty]
    | cons st sts =>
      obtain ⟨h1, h2⟩ := writeRiser_strip h line st (act == some i)
      obtain ⟨h3, h4⟩ := ih (i + 1) sts
      simp only [writeRisers]
      exact ⟨h1.append h3, by rw [h2, h4]⟩

def StripsOpt : Option String → Option String → Prop
  | some a, some b => Strips a b
  | none, none => True
  | _, _ => False

theorem Strips.ite {c : Prop} [Decidable c] {a a' b b' : String} (h1 : Strips a a') (h2 : Strips b b') :
    Strips (if c then a else b) (if c then a' else b') := by
  split <;> assumption

/-- decompose a `Strips` goal along the concatenations of the renderer, leaving `NoEsc` goals -/
macro "strips_tac" : tactic => `(tactic| repeat' (with_reducible first
  | assumption
  | exact Strips.empty
  | apply Strips.append
  | apply Strips.ite
  | apply Strips.replicate
  | apply Strips.ansi
  | apply Strips.of_noEsc))

/-- close a `NoEsc` side goal: hypothesis, renderer constant, or literal -/
macro "noesc_tac" : tactic => `(tactic| first
  | with_reducible assumption
  | with_reducible exact NoEsc_rep_space _
  | with_reducible exact NoEsc_underline _
  | with_reducible exact NoEsc_label _
  | with_reducible exact NoEsc_showSpan _
  | with_reducible exact NoEsc_nat _
  | decide)

theorem writeMessage_strip (h : Highlight) (line : Nat) (sp : Bool)
    (hs : ∀ m, h.startMsg = some m → NoEsc m) (he : ∀ m, h.endMsg = some m → NoEsc m) :
    StripsOpt (writeMessage ansi true h line sp) (writeMessage plainPaint true h line sp) := by
  obtain ⟨span, sm, em, mt⟩ := h
  have hs' : ∀ m, sm = some m → NoEsc m := hs
  have he' : ∀ m, em = some m → NoEsc m := he
  clear hs he
  cases ha : (span.s.line == line) <;> cases hb : (span.e.line == line) <;>
    rcases sm with _ | v1 <;> rcases em with _ | v2 <;>
    (try have hv1 := hs' _ rfl) <;> (try have hv2 := he' _ rfl) <;>
    simp only [writeMessage, ha, hb, Bool.and_self, Bool.and_true, Bool.and_false, if_true, if_false, Bool.false_eq_true, StripsOpt] <;>
    strips_tac <;> noesc_tac

def StripsRes1 {σ} : Res (String × σ) → Res (String × σ) → Prop
  | .ok (a, s), .ok (b, t) => Strips a b ∧ s = t
  | .panic, .panic => True
  | _, _ => False

def StripsRes : Res String → Res String → Prop
  | .ok a, .ok b => Strips a b
  | .panic, .panic => True
  | _, _ => False

/-- an optional string without ESC -/
def NoEscOpt : Option String → Prop
  | some s => NoEsc s
  | none => True

instance (o : Option String) : Decidable (NoEscOpt o) := by
  cases o <;> unfold NoEscOpt <;> infer_instance

theorem NoEscOpt.get {o : Option String} (h : NoEscOpt o) : ∀ m, o = some m → NoEsc m := by
  intro m hm; subst hm; exact h

/-- the messages of a highlight contain no ESC -/
def HlNoEsc (h : Highlight) : Prop := NoEscOpt h.startMsg ∧ NoEscOpt h.endMsg

instance (h : Highlight) : Decidable (HlNoEsc h) := by unfold HlNoEsc; infer_instance

theorem messageRows_strip (w line : Nat) (hls : List Highlight) (multi : Bool) (i : Nat)
    (rest : List Highlight) (sts : List Riser) (hr : ∀ h ∈ rest, HlNoEsc h) :
    StripsRes1 (messageRows ansi true w line hls multi i rest sts)
      (messageRows plainPaint true w line hls multi i rest sts) := by
  induction rest generalizing i sts with
  | nil => simp [messageRows, StripsRes1, Strips.empty]
  | cons mh rest ih =>
    have hrest : ∀ h ∈ rest, HlNoEsc h := fun h hh => hr h (by simp [hh])
    simp only [messageRows]
    split
    · exact ih _ _ hrest
    · obtain ⟨r1, r2⟩ := writeRisers_strip line (some i) 0 hls sts
      have hm := writeMessage_strip mh line multi (hr mh (by simp)).1.get (hr mh (by simp)).2.get
      have hih := ih (i+1) (writeRisers plainPaint true line (some i) 0 hls sts).2 hrest
      have hg := writeGutter_strip "" w NoEsc_empty
      rw [r2]
      generalize writeMessage ansi true mh line multi = ma at hm ⊢
      generalize writeMessage plainPaint true mh line multi = mb at hm ⊢
      generalize messageRows ansi true w line hls multi (i + 1) rest _ = ra at hih ⊢
      generalize messageRows plainPaint true w line hls multi (i + 1) rest _ = rb at hih ⊢
      rcases ma with _ | ma <;> rcases mb with _ | mb
      · exact True.intro
      · exact hm.elim
      · exact hm.elim
      · rcases ra with ⟨ra, sa⟩ | _ <;> rcases rb with ⟨rb, sb⟩ | _
        · exact ⟨((hg.append r1).append hm).append hih.1, hih.2⟩
        · exact hih.elim
        · exact hih.elim
        · exact True.intro

theorem splitAtByte_eq_append : ∀ (t : Text) (n : Nat) (p s : Text),
    splitAtByte t n = some (p, s) → t = p ++ s := by
  intro t n
  fun_induction splitAtByte t n <;> intro p s h <;> simp_all
  obtain ⟨rfl, rfl⟩ := h; rfl

theorem sliceBytes_sub (t : Text) (s e : Nat) (mid : Text) (h : Source.sliceBytes t s e = .ok mid) :
    ∀ c ∈ mid, c ∈ t := by
  unfold Source.sliceBytes at h
  split at h
  · exact absurd h (by simp)
  · split at h
    · exact absurd h (by simp)
    · rename_i pre suf h1
      split at h
      · exact absurd h (by simp)
      · rename_i mid' r h2
        injection h with h; subst h
        have e1 := splitAtByte_eq_append _ _ _ _ h1
        have e2 := splitAtByte_eq_append _ _ _ _ h2
        intro c hc
        rw [e1, e2]; simp [hc]

theorem clipped_sub (src : Source) (sp : Span) (piece : Source) (h : src.clipped sp = .ok piece) :
    ∀ c ∈ piece.text, c ∈ src.text := by
  simp only [Source.clipped, bind, Res.bind] at h
  repeat (split at h <;> try contradiction)
  rename_i mid _ hsl
  injection h with h; subst h
  exact sliceBytes_sub _ _ _ _ hsl

/-- no character of the source text is ESC -/
def SrcNoEsc (src : Source) : Prop := ∀ c ∈ src.text, c.code ≠ 27

instance (src : Source) : Decidable (SrcNoEsc src) := by unfold SrcNoEsc; infer_instance

theorem lineRows_strip (src : Source) (w : Nat) (hls : List Highlight) (pieces : List Span)
    (sts : List Riser) (hsrc : SrcNoEsc src) (hr : ∀ h ∈ hls, HlNoEsc h) :
    StripsRes (lineRows ansi true src w hls pieces sts) (lineRows plainPaint true src w hls pieces sts) := by
  induction pieces generalizing sts with
  | nil => simp [lineRows, StripsRes, Strips.empty]
  | cons sp more ih =>
    simp only [lineRows]
    obtain ⟨r1, r2⟩ := writeRisers_strip sp.s.line none 0 hls sts
    rw [r2]
    cases hc : src.clipped sp with
    | panic => exact True.intro
    | ok piece =>
      have hpiece : NoEsc (textString piece.text) :=
        NoEsc_textString _ (fun c hc' => hsrc c (clipped_sub _ _ _ hc c hc'))
      have hmr := messageRows_strip w sp.s.line hls (hls.any (·.isMultiline)) 0 hls
        (writeRisers plainPaint true sp.s.line none 0 hls sts).2 hr
      simp only []
      generalize messageRows ansi true w sp.s.line hls _ 0 hls _ = ra at hmr ⊢
      generalize messageRows plainPaint true w sp.s.line hls _ 0 hls _ = rb at hmr ⊢
      rcases ra with ⟨ra, sa⟩ | _ <;> rcases rb with ⟨rb, sb⟩ | _
      · obtain ⟨hm1, rfl⟩ := hmr
        have hih := ih sa
        simp only []
        generalize lineRows ansi true src w hls more sa = la at hih ⊢
        generalize lineRows plainPaint true src w hls more sa = lb at hih ⊢
        rcases la with la | _ <;> rcases lb with lb | _
        · have hg := writeGutter_strip (toString sp.s.line) w (NoEsc_nat _)
          simp only [StripsRes] at hih ⊢
          strips_tac <;> noesc_tac
        · exact hih.elim
        · exact hih.elim
        · exact True.intro
      · exact hmr.elim
      · exact hmr.elim
      · exact True.intro

/-- name, messages and notes of a span display contain no ESC -/
def SdNoEsc (sd : SpanDisplay) : Prop :=
  NoEscOpt sd.name ∧ (∀ h ∈ sd.highlights, HlNoEsc h) ∧ (∀ n ∈ sd.notes, NoEsc n.text)

instance (sd : SpanDisplay) : Decidable (SdNoEsc sd) := by unfold SdNoEsc; infer_instance

theorem writeSpanDisplay_strip (src : Source) (sd : SpanDisplay) (hsrc : SrcNoEsc src)
    (hsd : SdNoEsc sd) :
    StripsRes (writeSpanDisplay ansi true src sd) (writeSpanDisplay plainPaint true src sd) := by
  obtain ⟨name, span, hls, notes, gutter⟩ := sd
  obtain ⟨hn, hh, hnotes⟩ := hsd
  simp only at hn hh hnotes
  have hnt : Strips
      (String.join (notes.map fun n => rep " " gutter ++ " = " ++ writeNote ansi true n ++ "\n"))
      (String.join (notes.map fun n => rep " " gutter ++ " = " ++ writeNote plainPaint true n ++ "\n")) := by
    apply Strips.join
    intro n hn
    have := writeNote_strip n (hnotes n hn)
    strips_tac <;> noesc_tac
  have hg := writeGutter_strip "" gutter NoEsc_empty
  rcases name with _ | name <;> (try have hn' : NoEsc name := hn) <;> simp only [writeSpanDisplay, if_true] <;>
    (split; exact True.intro)
  all_goals
    cases (SplitLines.ofSpan span src).collect (span.e.line - span.s.line + 2) with
    | panic => exact True.intro
    | ok pr =>
      obtain ⟨pieces, k⟩ := pr
      simp only []
      have hl := lineRows_strip src gutter hls (pieces.map (·.2))
        (hls.map fun h => if h.isMultiline then Riser.waiting else Riser.unused) hsrc hh
      generalize lineRows ansi true src gutter hls _ _ = la at hl ⊢
      generalize lineRows plainPaint true src gutter hls _ _ = lb at hl ⊢
      rcases la with la | _ <;> rcases lb with lb | _
      · simp only [StripsRes] at hl ⊢
        strips_tac <;> noesc_tac
      · exact hl.elim
      · exact hl.elim
      · exact True.intro

theorem writeSpanDisplays_strip (src : Source) (sds : List SpanDisplay) (hsrc : SrcNoEsc src)
    (hsd : ∀ sd ∈ sds, SdNoEsc sd) :
    StripsRes (writeSpanDisplays ansi true src sds) (writeSpanDisplays plainPaint true src sds) := by
  induction sds with
  | nil => simp [writeSpanDisplays, StripsRes, Strips.empty]
  | cons sd more ih =>
    have h1 := writeSpanDisplay_strip src sd hsrc (hsd sd (by simp))
    have h2 := ih (fun sd' h => hsd sd' (by simp [h]))
    simp only [writeSpanDisplays]
    generalize writeSpanDisplay ansi true src sd = a at h1 ⊢
    generalize writeSpanDisplay plainPaint true src sd = b at h1 ⊢
    generalize writeSpanDisplays ansi true src more = c at h2 ⊢
    generalize writeSpanDisplays plainPaint true src more = d at h2 ⊢
    rcases a with a | _ <;> rcases b with b | _ <;> (try exact h1.elim) <;>
      rcases c with c | _ <;> rcases d with d | _ <;> (try exact h2.elim) <;>
      (try exact True.intro)
    exact Strips.append h1 h2

/-- message, error code, names, highlight messages and notes of a report contain no ESC -/
def CdNoEsc (cd : CodeDisplay) : Prop :=
  NoEsc cd.message ∧ NoEscOpt cd.codeId ∧ (∀ sd ∈ cd.spans, SdNoEsc sd) ∧ (∀ n ∈ cd.notes, NoEsc n.text)

instance (cd : CodeDisplay) : Decidable (CdNoEsc cd) := by unfold CdNoEsc; infer_instance

/-- the whole report on the colour code path: painting with `ansi` and stripping gives painting
with the identity -/
theorem writeCodeDisplay_strip (src : Source) (cd : CodeDisplay) (hsrc : SrcNoEsc src)
    (hcd : CdNoEsc cd) :
    StripsRes (writeCodeDisplay ansi src { cd with colorEnabled := true })
      (writeCodeDisplay plainPaint src { cd with colorEnabled := true }) := by
  obtain ⟨message, mtype, codeId, spans, notes, ce⟩ := cd
  obtain ⟨hm, hc, hs, hn⟩ := hcd
  simp only at hm hc hs hn
  have hb := writeSpanDisplays_strip src spans hsrc hs
  have hmt := writeMType_strip mtype
  have hnt : Strips (String.join (notes.map (writeNote ansi true)))
      (String.join (notes.map (writeNote plainPaint true))) :=
    Strips.join _ _ _ (fun n h => writeNote_strip n (hn n h))
  rcases codeId with _ | code <;> (try have hc' : NoEsc code := hc) <;>
    simp only [writeCodeDisplay, if_true] <;>
    generalize writeSpanDisplays ansi true src spans = a at hb ⊢ <;>
    generalize writeSpanDisplays plainPaint true src spans = b at hb ⊢ <;>
    rcases a with a | _ <;> rcases b with b | _ <;> (try exact hb.elim) <;> (try exact True.intro) <;>
    simp only [StripsRes] at hb ⊢ <;>
    strips_tac <;> noesc_tac

theorem StripsRes.map_eq {a b : Res String} (h : StripsRes a b) : a.map stripAnsi = b := by
  rcases a with a | _ <;> rcases b with b | _
  · simp only [StripsRes] at h; simp [Res.map, h.eq]
  · exact h.elim
  · exact h.elim
  · rfl

/-- one span display: the plain rendering is the coloured rendering with escape codes removed -/
theorem display_plain_is_coloured_stripped (src : Source) (sd : SpanDisplay)
    (hstart : ∀ h ∈ sd.highlights, h.startMsg = none) (hsrc : SrcNoEsc src) (hsd : SdNoEsc sd) :
    (writeSpanDisplay ansi true src sd).map stripAnsi = writeSpanDisplay plainPaint false src sd := by
  rw [(writeSpanDisplay_strip src sd hsrc hsd).map_eq]
  exact writeSpanDisplay_colour src sd hstart

/-- what the public API builds: no error code (the plain code path does not print it), no
start message on any highlight -/
def ApiBuilt (cd : CodeDisplay) : Prop :=
  cd.codeId = none ∧ ∀ sd ∈ cd.spans, ∀ h ∈ sd.highlights, h.startMsg = none

instance (cd : CodeDisplay) : Decidable (ApiBuilt cd) := by unfold ApiBuilt; infer_instance

/-- The plain rendering equals the coloured rendering with escape codes removed. -/
theorem plain_is_coloured_stripped (src : Source) (cd : CodeDisplay) (hapi : ApiBuilt cd)
    (hsrc : SrcNoEsc src) (hcd : CdNoEsc cd) :
    (writeCodeDisplay ansi src { cd with colorEnabled := true }).map stripAnsi =
      writeCodeDisplay plainPaint src { cd with colorEnabled := false } := by
  rw [(writeCodeDisplay_strip src cd hsrc hcd).map_eq]
  exact writeCodeDisplay_colour src cd hapi.2 hapi.1
end Tephra.RenderPf
