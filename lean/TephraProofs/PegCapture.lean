/-
  TephraProofs.PegCapture — C14: captures (`spanned`, `text`) against the
  reference evaluator, for grammars of the C07 fragment with captures anywhere.

  On top of `Abs` (PegAbs): `AbsC` adds that after the parse span has begun the
  state's remaining raw tokens are exactly the raw stream at the lexer, and that
  every position held by the lexer satisfies a scanner-closed predicate `P`
  (char boundaries, for `text`).  `Tr lx s lx' s'` is what a run from `(lx, s)` to
  `(lx', s')` guarantees: the stream ends where it ended, and either nothing was
  consumed (and a lexer that had looked ahead did not move) or the first kept
  token was passed and the lexer sits right after the last consumed token.
  Values are compared up to `Val.norm` (an empty captured span is "empty").
-/
import TephraProofs.PegRefine

set_option linter.unusedVariables false

namespace Tephra
open Tephra.Spec

namespace PegRefine
open LexIter

variable {E : LexEnv Nat Tok} {m : Metrics} {len : Nat} {P : Pos → Prop}

/-! ### values up to empty spans -/

/-- Normal form of a value: a captured span with `s.byte = e.byte` becomes `emptySpan`
(what the oracle's `normalizeSp` does to both sides before comparing). -/
def normSpan (sp : Span) : Span := if sp.s.byte = sp.e.byte then emptySpan else sp

mutual
def normVal : Val → Val
  | .pair a b => .pair (normVal a) (normVal b)
  | .some a => .some (normVal a)
  | .list l => .list (normList l)
  | .spanned sp a => .spanned (normSpan sp) (normVal a)
  | .mapped a => .mapped (normVal a)
  | .dflt => .dflt
  | .unit => .unit
  | .tok t => .tok t
  | .idx n => .idx n
  | .count n => .count n
  | .toks l => .toks l
  | .none => .none
  | .text t => .text t
def normList : List Val → List Val
  | [] => []
  | v :: l => normVal v :: normList l
end

theorem normList_eq_map (l : List Val) : normList l = l.map normVal := by
  induction l with
  | nil => rfl
  | cons a t ih => simp [normList, ih]

@[simp] theorem normVal_pair (a b : Val) : normVal (.pair a b) = .pair (normVal a) (normVal b) := by
  simp [normVal]
@[simp] theorem normVal_some (a : Val) : normVal (.some a) = .some (normVal a) := by simp [normVal]
@[simp] theorem normVal_mapped (a : Val) : normVal (.mapped a) = .mapped (normVal a) := by simp [normVal]
@[simp] theorem normVal_spanned (sp : Span) (a : Val) :
    normVal (.spanned sp a) = .spanned (normSpan sp) (normVal a) := by simp [normVal]
@[simp] theorem normVal_list (l : List Val) : normVal (.list l) = .list (l.map normVal) := by
  simp [normVal, normList_eq_map]
@[simp] theorem normVal_none : normVal .none = .none := by simp [normVal]
@[simp] theorem normVal_unit : normVal .unit = .unit := by simp [normVal]
@[simp] theorem normVal_dflt : normVal .dflt = .dflt := by simp [normVal]
@[simp] theorem normVal_tok (t : Tok) : normVal (.tok t) = .tok t := by simp [normVal]
@[simp] theorem normVal_idx (n : Nat) : normVal (.idx n) = .idx n := by simp [normVal]
@[simp] theorem normVal_count (n : Nat) : normVal (.count n) = .count n := by simp [normVal]
@[simp] theorem normVal_toks (l : List Tok) : normVal (.toks l) = .toks l := by simp [normVal]
@[simp] theorem normVal_text (t : Text) : normVal (.text t) = .text t := by simp [normVal]

theorem normVal_eq_pair {v a b : Val} (h : normVal v = .pair a b) :
    ∃ x y, v = .pair x y ∧ normVal x = a ∧ normVal y = b := by
  cases v <;> simp at h
  exact ⟨_, _, rfl, h.1, h.2⟩

theorem normVal_eq_some {v a : Val} (h : normVal v = .some a) : ∃ x, v = .some x ∧ normVal x = a := by
  cases v <;> simp at h
  exact ⟨_, rfl, h⟩

theorem normVal_eq_none {v : Val} (h : normVal v = .none) : v = .none := by
  cases v <;> simp at h
  rfl

theorem normVal_eq_tok {v : Val} {t : Tok} (h : normVal v = .tok t) : v = .tok t := by
  cases v <;> simp at h
  rw [h]

theorem normVal_eq_list {v : Val} {l : List Val} (h : normVal v = .list l) :
    ∃ x, v = .list x ∧ x.map normVal = l := by
  cases v <;> simp at h
  exact ⟨_, rfl, h⟩

/-! ### transitions -/

/-- where the scan chain from the lexer's position stops -/
def EP (E : LexEnv Nat Tok) (m : Metrics) (len : Nat) (lx : Lx) : Pos :=
  endPos lx.cursor (rawAt E m len lx.scanner lx.cursor)

/-- A lexer on which `peek` does not move the cursor. -/
def Stable (E : LexEnv Nat Tok) (m : Metrics) (len : Nat) (lx : Lx) : Prop :=
  lx.parseStart = lx.cursor → lx.buffer = none → rawAt E m len lx.scanner lx.cursor = []

structure AbsC (E : LexEnv Nat Tok) (m : Metrics) (len : Nat) (P : Pos → Prop) (lx : Lx) (s : PState) : Prop where
  abs : Abs E m len lx s
  ahead : lx.parseStart ≠ lx.cursor → s.rest = rawAt E m len lx.scanner lx.cursor
  pos : PosOK P lx

structure Tr (E : LexEnv Nat Tok) (m : Metrics) (len : Nat) (lx : Lx) (s : PState) (lx' : Lx) (s' : PState) :
    Prop where
  endp : EP E m len lx' = EP E m len lx
  filt : s'.filter = s.filter
  ahead : lx.parseStart ≠ lx.cursor → lx'.parseStart ≠ lx'.cursor
  step : (s'.rest = s.rest ∧ (Stable E m len lx → lx'.cursor = lx.cursor ∧ Stable E m len lx')) ∨
    (lx'.parseStart ≠ lx'.cursor ∧ ∃ r0 post, s.skipFiltered.rest = r0 :: post ∧ s'.rest <:+ post)

theorem Tr.refl (lx : Lx) (s : PState) : Tr E m len lx s lx s :=
  ⟨rfl, rfl, id, Or.inl ⟨rfl, fun h => ⟨rfl, h⟩⟩⟩

theorem skip_suffix (s : PState) : s.skipFiltered.rest <:+ s.rest := by
  simp only [PState.skipFiltered]
  exact List.dropWhile_suffix _

theorem Tr.trans {lx0 lx1 lx2 : Lx} {s0 s1 s2 : PState}
    (h1 : Tr E m len lx0 s0 lx1 s1) (h2 : Tr E m len lx1 s1 lx2 s2) : Tr E m len lx0 s0 lx2 s2 := by
  refine ⟨h2.endp.trans h1.endp, h2.filt.trans h1.filt, fun h => h2.ahead (h1.ahead h), ?_⟩
  rcases h1.step with ⟨e1, st1⟩ | ⟨a1, r0, post, hs, hsuf⟩
  · rcases h2.step with ⟨e2, st2⟩ | ⟨a2, r1, post1, hs1, hsuf1⟩
    · refine Or.inl ⟨e2.trans e1, fun h => ?_⟩
      obtain ⟨c1, t1⟩ := st1 h
      obtain ⟨c2, t2⟩ := st2 t1
      exact ⟨c2.trans c1, t2⟩
    · refine Or.inr ⟨a2, r1, post1, ?_, hsuf1⟩
      have : s1.skipFiltered.rest = s0.skipFiltered.rest := by
        simp only [PState.skipFiltered, e1, h1.filt]
      rw [← this]; exact hs1
  · refine Or.inr ⟨h2.ahead a1, r0, post, hs, ?_⟩
    rcases h2.step with ⟨e2, _⟩ | ⟨_, r1, post1, hs1, hsuf1⟩
    · rw [e2]; exact hsuf
    · have h3 : post1 <:+ s1.skipFiltered.rest := by rw [hs1]; exact List.suffix_cons _ _
      exact hsuf1.trans (h3.trans ((skip_suffix s1).trans hsuf))

/-! ### `buffer_next`, by mode -/

theorem bufferNext_ahead (ok : ScanOK E m len) {f} {lx : Lx} (inv : Inv E m len f lx)
    (h : lx.parseStart ≠ lx.cursor) : ∃ ob, lx.bufferNext E = { lx with buffer := ob } := by
  unfold Lexer.bufferNext
  split
  · exact ⟨lx.buffer, rfl⟩
  · have hb : (lx.parseStart == lx.cursor) = false := by simpa using h
    rw [hb]
    rcases bufferLoop_ahead ok lx lx.scanner lx.cursor inv.hmet inv.hlen with e | ⟨b, e, _⟩
    · exact ⟨lx.buffer, by rw [e]⟩
    · exact ⟨some b, e⟩

theorem bufferNext_behind (ok : ScanOK E m len) {f} {lx : Lx} (inv : Inv E m len f lx)
    (h : lx.parseStart = lx.cursor) (hb : lx.buffer = none) :
    ∃ s c ob, lx.bufferNext E =
        { lx with scanner := s, cursor := c, parseStart := c, tokenStart := c, buffer := ob } ∧
      (ob = none → rawAt E m len s c = []) := by
  have hbn : lx.bufferNext E = Lexer.bufferLoop E true lx lx.scanner lx.cursor := by
    unfold Lexer.bufferNext
    have hb' : (lx.parseStart == lx.cursor) = true := by simpa using h
    simp [hb, hb']
  obtain ⟨s, c, ob, e, hr, _⟩ := bufferLoop_behind ok lx lx.scanner lx.cursor inv.hmet inv.hlen rfl rfl h
    (inv.ts h) hb
  refine ⟨s, c, ob, hbn.trans e, ?_⟩
  intro hob
  rw [hr]
  by_cases hD : D E m len lx = []
  · exact hD
  · have := bufferLoop_complete ok true lx lx.scanner lx.cursor inv.hmet inv.hlen hD
    rw [e, hob] at this
    cases this

theorem scan_none_of_rawAt_nil (ok : ScanOK E m len) {s : Nat} {p : Pos}
    (h : rawAt E m len s p = []) : ∃ s', E.scan s m p = (none, s') := by
  rcases hx : E.scan s m p with ⟨o, s'⟩
  cases o with
  | none => exact ⟨s', rfl⟩
  | some ta =>
    obtain ⟨tok, adv⟩ := ta
    rw [rawAt_some ok hx] at h
    cases h

theorem bufferNext_stable (ok : ScanOK E m len) {f} {lx : Lx} (inv : Inv E m len f lx)
    (h : lx.parseStart = lx.cursor) (hb : lx.buffer = none)
    (hr : rawAt E m len lx.scanner lx.cursor = []) : lx.bufferNext E = lx := by
  obtain ⟨s', hs⟩ := scan_none_of_rawAt_nil ok hr
  unfold Lexer.bufferNext
  simp only [hb, Option.isSome_none, Bool.false_eq_true, if_false]
  rw [Lexer.bufferLoop]
  rw [inv.hmet, hs]

/-! ### `peek` and `next` with transitions -/

variable (hc : Closed E P m)

include hc in
theorem peek_trC (ok : ScanOK E m len) {lx : Lx} {s : PState} (a : AbsC E m len P lx s) :
    AbsC E m len P (lx.peek E).2 s ∧ Tr E m len lx s (lx.peek E).2 s ∧ Stable E m len (lx.peek E).2 := by
  have hpos : PosOK P (lx.peek E).2 := LexInv.peek_pos lx (by rw [a.abs.inv.hmet]; exact hc) a.pos
  have habs := (peek_abs ok a.abs).1
  unfold Lexer.peek at hpos habs ⊢
  split
  · next hend =>
    rw [if_pos hend] at hpos habs
    refine ⟨a, Tr.refl lx s, fun _ _ => ?_⟩
    rw [a.abs.inv.hlen] at hend
    exact rawAt_atEnd ok hend
  · next hend =>
    rw [if_neg hend] at hpos habs
    simp only at hpos habs ⊢
    by_cases hm : lx.parseStart = lx.cursor
    · cases hb : lx.buffer with
      | some b =>
        have e : lx.bufferNext E = lx := by unfold Lexer.bufferNext; simp [hb]
        rw [e]
        exact ⟨a, Tr.refl lx s, fun _ h => by rw [hb] at h; cases h⟩
      | none =>
        obtain ⟨s', c, ob, e, hob⟩ := bufferNext_behind ok a.abs.inv hm hb
        have hend' := bufferNext_end ok a.abs.inv
        rw [e] at hpos habs hend' ⊢
        refine ⟨⟨habs, fun h => absurd rfl h, hpos⟩, ⟨hend', rfl, fun h => absurd hm h, Or.inl ⟨rfl, ?_⟩⟩, ?_⟩
        · intro st
          have hst := bufferNext_stable ok a.abs.inv hm hb (st hm hb)
          rw [e] at hst
          rw [hst]
          exact ⟨rfl, st⟩
        · intro _ h; exact hob h
    · obtain ⟨ob, e⟩ := bufferNext_ahead ok a.abs.inv hm
      rw [e] at hpos habs ⊢
      refine ⟨⟨habs, fun _ => a.ahead hm, hpos⟩, ⟨rfl, rfl, fun h => h, Or.inl ⟨rfl, fun _ => ⟨rfl, ?_⟩⟩⟩, ?_⟩
      · intro h; exact absurd h hm
      · intro h; exact absurd h hm

include hc in
theorem next_casesC (ok : ScanOK E m len) (hp : PassOK E) {lx : Lx} {s : PState} (a : AbsC E m len P lx s) :
    (∃ lx', lx.next E = (none, lx') ∧ s.pop = none) ∨
    (∃ r s' lx', lx.next E = (some r.tok, lx') ∧ s.pop = some (r, s') ∧ AbsC E m len P lx' s' ∧
      Tr E m len lx s lx' s') := by
  rcases next_cases ok hp a.abs with ⟨lx', hn, hpop⟩ | ⟨r, s', lx', hn, hpop, a', _⟩
  · exact Or.inl ⟨lx', hn, hpop⟩
  · refine Or.inr ⟨r, s', lx', hn, hpop, ?_⟩
    obtain ⟨post, h1, rfl⟩ := pop_some_iff.mp hpop
    have h1' := h1
    rw [a.abs.rest] at h1'
    obtain ⟨lx'', e, i', h2, h3, h4, h5, h6, h7, h8⟩ := (next_spec ok a.abs.inv).2 r post h1'
    rw [hn] at e
    cases e
    have hpos : PosOK P (lx.next E).2 := LexInv.next_pos lx (by rw [a.abs.inv.hmet]; exact hc) a.pos
    rw [hn] at hpos
    have hahead : lx'.parseStart ≠ lx'.cursor := by
      intro e
      have : lx'.parseStart.byte = lx'.cursor.byte := by rw [e]
      have hle := a.abs.inv.ps_le
      rw [h5, h3] at this
      split at this <;> omega
    refine ⟨⟨a', fun _ => h2.symm, hpos⟩, ⟨?_, rfl, fun _ => hahead, Or.inr ⟨hahead, r, post, h1, List.suffix_refl _⟩⟩⟩
    unfold EP
    rw [h2, h3]
    exact (endPos_dropWhile _ _ _ h1').symm

include hc in
theorem peek_casesC (ok : ScanOK E m len) (hp : PassOK E) {lx : Lx} {s : PState} (a : AbsC E m len P lx s) :
    (∃ lxp, lx.peek E = (none, lxp) ∧ AbsC E m len P lxp s ∧ Tr E m len lx s lxp s ∧ Stable E m len lxp ∧
      s.pop = none) ∨
    (∃ lxp r s' lx', lx.peek E = (some r.tok, lxp) ∧ AbsC E m len P lxp s ∧ Tr E m len lx s lxp s ∧
      Stable E m len lxp ∧ s.pop = some (r, s') ∧
      lxp.next E = (some r.tok, lx') ∧ AbsC E m len P lx' s' ∧ Tr E m len lxp s lx' s') := by
  obtain ⟨ap, tp, stp⟩ := peek_trC hc ok a
  rcases peek_cases ok hp a.abs with ⟨lxp, hpe, _, hpop⟩ | ⟨lxp, r, s', lx', hpe, _, hpop, hn, _⟩
  · rw [hpe] at ap tp stp
    exact Or.inl ⟨lxp, hpe, ap, tp, stp, hpop⟩
  · rw [hpe] at ap tp stp
    rcases next_casesC hc ok hp ap with ⟨lx'', hn', hpop'⟩ | ⟨r2, s2, lx2, hn', hpop', a2, t2⟩
    · rw [hpop] at hpop'; cases hpop'
    · have hpop0 := hpop
      rw [hpop'] at hpop; cases hpop
      exact Or.inr ⟨lxp, r, s', lx2, hpe, ap, tp, stp, hpop0, hn', a2, t2⟩

/-! ### tilings and consumed prefixes -/

theorem endPos_append {τ} : ∀ (l1 l2 : List (RawTok τ)) (p : Pos),
    endPos p (l1 ++ l2) = endPos (endPos p l1) l2 := by
  intro l1
  induction l1 with
  | nil => intro l2 p; rfl
  | cons a t ih => intro l2 p; exact ih l2 a.stop

theorem tiles_cons {τ} {p : Pos} {r : RawTok τ} {l : List (RawTok τ)} :
    tiles p (r :: l) = true ↔ r.start = p ∧ r.start.byte < r.stop.byte ∧ tiles r.stop l = true := by
  simp [tiles, and_assoc]

theorem tiles_append {τ} : ∀ (l1 l2 : List (RawTok τ)) (p : Pos),
    tiles p (l1 ++ l2) = true ↔ tiles p l1 = true ∧ tiles (endPos p l1) l2 = true := by
  intro l1
  induction l1 with
  | nil => intro l2 p; simp [tiles, endPos]
  | cons a t ih =>
    intro l2 p
    rw [List.cons_append, tiles_cons, tiles_cons, ih l2 a.stop]
    simp [endPos, and_assoc]

theorem tiles_le {τ} : ∀ (l : List (RawTok τ)) (p : Pos), tiles p l = true → p.byte ≤ (endPos p l).byte := by
  intro l
  induction l with
  | nil => intro p _; exact Nat.le_refl _
  | cons a t ih =>
    intro p h
    obtain ⟨h1, h2, h3⟩ := tiles_cons.mp h
    have := ih a.stop h3
    show p.byte ≤ (endPos a.stop t).byte
    rw [← h1]; omega

theorem tiles_rawAt (ok : ScanOK E m len) (s : Nat) (p : Pos) : tiles p (rawAt E m len s p) = true :=
  tiles_rawFrom ok (len + 1) s p

theorem mem_takeWhile_true {α} (q : α → Bool) : ∀ (l : List α) (x : α), x ∈ l.takeWhile q → q x = true := by
  intro l
  induction l with
  | nil => intro x h; simp at h
  | cons a t ih =>
    intro x h
    rw [List.takeWhile_cons] at h
    split at h
    · next ha =>
      rcases List.mem_cons.mp h with e | h'
      · rw [e]; exact ha
      · exact ih x h'
    · simp at h

theorem dropWhile_split {α} (q : α → Bool) {l : List α} {r : α} {post : List α}
    (h : l.dropWhile q = r :: post) :
    ∃ pre, l = pre ++ r :: post ∧ (∀ x ∈ pre, q x = true) ∧ q r = false := by
  refine ⟨l.takeWhile q, ?_, fun x hx => mem_takeWhile_true q l x hx, dropWhile_cons_inv h⟩
  rw [← h, List.takeWhile_append_dropWhile]

/-- What the reference evaluator captures when the first kept token `r0` was passed:
the span from `r0` to the end of the consumed prefix. -/
theorem captured_of_passed {f : Option Nat} {rest rest1 : List (RawTok Tok)} {r0 : RawTok Tok}
    {post : List (RawTok Tok)}
    (hs : rest.dropWhile (fun r => !keeps f r.tok) = r0 :: post) (hsuf : rest1 <:+ post) :
    ∃ mid, post = mid ++ rest1 ∧
      capturedSpan f (rest.take (rest.length - rest1.length)) = some ⟨r0.start, endPos r0.stop mid⟩ := by
  obtain ⟨mid, hmid⟩ := hsuf
  obtain ⟨pre, hl, hpre, hr0⟩ := dropWhile_split _ hs
  refine ⟨mid, hmid.symm, ?_⟩
  have hk : keeps f r0.tok = true := by simpa using hr0
  have hrest : rest = (pre ++ r0 :: mid) ++ rest1 := by rw [hl, ← hmid]; simp
  have htake : rest.take (rest.length - rest1.length) = pre ++ r0 :: mid := by
    rw [hrest]
    apply List.take_left'
    simp
    omega
  rw [htake]
  unfold capturedSpan
  have hfind : (pre ++ r0 :: mid).find? (fun r => keeps f r.tok) = some r0 := by
    rw [List.find?_append]
    have : pre.find? (fun r => keeps f r.tok) = none := by
      rw [List.find?_eq_none]
      intro x hx
      have := hpre x hx
      simpa using this
    rw [this]
    simp [hk]
  have hlast : ∃ b, (pre ++ r0 :: mid).getLast? = some b ∧ b.stop = endPos r0.stop mid := by
    have h1 := endPos_eq_getLast (pre ++ r0 :: mid) Pos.zero
    rw [endPos_append] at h1
    cases hg : (pre ++ r0 :: mid).getLast? with
    | none => simp at hg
    | some b =>
      rw [hg] at h1
      exact ⟨b, rfl, h1.symm⟩
  obtain ⟨b, hb, hbs⟩ := hlast
  rw [hfind, hb]
  simp [hbs]

theorem captured_of_none {f : Option Nat} {rest rest1 : List (RawTok Tok)} (h : rest1 = rest) :
    capturedSpan f (rest.take (rest.length - rest1.length)) = none := by
  rw [h]; simp [capturedSpan]

/-- After the first kept token `r0` was passed, a lexer whose parse span has begun sits
exactly at the end of the consumed prefix. -/
theorem passed_cursor (ok : ScanOK E m len) (hp : PassOK E) {lx1 lx2 : Lx} {s s1 : PState}
    {r0 : RawTok Tok} {post mid : List (RawTok Tok)}
    (a1 : AbsC E m len P lx1 s) (a2 : AbsC E m len P lx2 s1)
    (hs : s.skipFiltered.rest = r0 :: post) (hmid : post = mid ++ s1.rest)
    (hah : lx2.parseStart ≠ lx2.cursor) (hep : EP E m len lx2 = EP E m len lx1) :
    lx2.cursor = endPos r0.stop mid ∧ r0.start.byte < (endPos r0.stop mid).byte := by
  have hD : D E m len lx1 = r0 :: post := by rw [← a1.abs.rest]; exact hs
  obtain ⟨pre, hL, _, _⟩ := dropWhile_split _ hD
  have ht1 := tiles_rawAt (len := len) ok lx1.scanner lx1.cursor
  rw [hL, tiles_append, tiles_cons, hmid, tiles_append] at ht1
  obtain ⟨_, _, hlt, htm, hts⟩ := ht1
  have hle := tiles_le _ _ htm
  refine ⟨?_, by omega⟩
  have he1 : EP E m len lx1 = endPos (endPos r0.stop mid) s1.rest := by
    unfold EP
    rw [hL, endPos_append, hmid]
    show endPos r0.stop (mid ++ s1.rest) = _
    rw [endPos_append]
  have hr2 := a2.ahead hah
  have ht2 := tiles_rawAt (len := len) ok lx2.scanner lx2.cursor
  have he2 : EP E m len lx2 = endPos lx2.cursor s1.rest := by unfold EP; rw [hr2]
  rw [← hr2] at ht2
  rw [he1, he2] at hep
  cases hL2 : s1.rest with
  | nil =>
    rw [hL2] at hep
    exact hep
  | cons x t =>
    rw [hL2] at ht2 hts
    have e1 := (tiles_cons.mp ht2).1
    have e2 := (tiles_cons.mp hts).1
    rw [← e1, e2]

/-! ### where a capture starts -/

/-- the start position `spanned` / `text` record on the (peeked) lexer -/
def capStart (lx : Lx) : Pos := (lx.peekTokenSpan.getD (Span.at_ lx.tokenSpan.e)).s

theorem peek_buffer (ok : ScanOK E m len) {lx : Lx} {s : PState} (a : Abs E m len lx s)
    {r0 : RawTok Tok} {post : List (RawTok Tok)} (h : s.skipFiltered.rest = r0 :: post) :
    ∃ b, (lx.peek E).2.buffer = some b ∧ b.peekStart = r0.start ∧ b.peekCursor = r0.stop := by
  have hD : D E m len lx = r0 :: post := by rw [← a.rest]; exact h
  unfold Lexer.peek
  split
  · next hend =>
    rw [a.inv.hlen] at hend
    rw [D_atEnd ok hend] at hD
    cases hD
  · obtain ⟨i1, d1, _⟩ := bufferNext_spec ok a.inv
    have hc := bufferNext_complete ok a.inv (by rw [hD]; simp)
    cases hb : (lx.bufferNext E).buffer with
    | none => rw [hb] at hc; cases hc
    | some b =>
      have := (i1.buf b hb).1
      rw [d1, hD] at this
      cases this
      exact ⟨b, rfl, rfl, rfl⟩

theorem capStart_spec (ok : ScanOK E m len) {lx : Lx} {s : PState} (a : AbsC E m len P lx s)
    (ap : AbsC E m len P (lx.peek E).2 s) :
    (∀ r0 post, s.skipFiltered.rest = r0 :: post → capStart (lx.peek E).2 = r0.start) ∧
    (lx.peek E).2.cursor.byte ≤ (capStart (lx.peek E).2).byte ∧ P (capStart (lx.peek E).2) := by
  cases hs : s.skipFiltered.rest with
  | cons r0 post =>
    obtain ⟨b, hb, h1, h2⟩ := peek_buffer ok a.abs hs
    obtain ⟨_, g2, g3, _⟩ := ap.abs.inv.buf b hb
    have hne : b.peekStart ≠ b.peekCursor := by
      intro e; rw [e] at g3; omega
    have hcs : capStart (lx.peek E).2 = r0.start := by
      unfold capStart Lexer.peekTokenSpan
      rw [hb]
      simp only [Option.bind, if_neg hne, Option.getD]
      rw [enclosing_le (by omega), h1]
    refine ⟨?_, ?_, ?_⟩
    · intro r0' post' e
      cases e
      exact hcs
    · rw [hcs, ← h1]; exact g2
    · rw [hcs, ← h1]; exact (ap.pos.2.2.2 b hb).1
  | nil =>
    have hD : D E m len (lx.peek E).2 = [] := by rw [← ap.abs.rest]; exact hs
    have hb : (lx.peek E).2.buffer = none := by
      cases hb : (lx.peek E).2.buffer with
      | none => rfl
      | some b =>
        have := (ap.abs.inv.buf b hb).1
        rw [hD] at this; cases this
    have hcs : capStart (lx.peek E).2 = (lx.peek E).2.tokenSpan.e := by
      unfold capStart Lexer.peekTokenSpan
      rw [hb]; rfl
    refine ⟨fun _ _ e => (by cases e), ?_, ?_⟩
    · rw [hcs]
      unfold Lexer.tokenSpan Span.enclosing
      split <;> simp only [] <;> omega
    · rw [hcs]
      unfold Lexer.tokenSpan Span.enclosing
      split
      · exact ap.pos.2.1
      · exact ap.pos.2.2.1

theorem parseSpan_e {f} {lx : Lx} (inv : Inv E m len f lx) : lx.parseSpan.e = lx.cursor := by
  unfold Lexer.parseSpan
  rw [enclosing_le inv.ps_le]

/-! ### slicing the text between char boundaries -/

theorem splitAtByte_zero (t : Text) : splitAtByte t 0 = some ([], t) := by
  cases t <;> rfl

theorem splitAtByte_mid : ∀ (t : Text) (a b : Nat) (p1 s1 p2 s2 : Text), a ≤ b →
    splitAtByte t a = some (p1, s1) → splitAtByte t b = some (p2, s2) →
    ∃ mid, splitAtByte s1 (b - a) = some (mid, s2) := by
  intro t
  induction t with
  | nil =>
    intro a b p1 s1 p2 s2 hab h1 h2
    cases a with
    | zero =>
      rw [splitAtByte_zero] at h1
      cases h1
      exact ⟨p2, h2⟩
    | succ a => simp [splitAtByte] at h1
  | cons c rest ih =>
    intro a b p1 s1 p2 s2 hab h1 h2
    cases a with
    | zero =>
      rw [splitAtByte_zero] at h1
      cases h1
      exact ⟨p2, h2⟩
    | succ a =>
      obtain ⟨b, rfl⟩ : ∃ b', b = b' + 1 := ⟨b - 1, by omega⟩
      simp only [splitAtByte] at h1 h2
      split at h1
      · next hc =>
        have hc2 : c.size ≤ b + 1 := by omega
        rw [if_pos hc2] at h2
        split at h1
        · next pre suf e1 =>
          cases h1
          split at h2
          · next pre2 suf2 e2 =>
            cases h2
            obtain ⟨mid, hm⟩ := ih (a + 1 - c.size) (b + 1 - c.size) pre s1 pre2 s2 (by omega) e1 e2
            refine ⟨mid, ?_⟩
            have : b + 1 - (a + 1) = b + 1 - c.size - (a + 1 - c.size) := by omega
            rw [this]; exact hm
          · cases h2
        · cases h1
      · cases h1

theorem sliceBytes_self {t : Text} {a : Nat} (h : (splitAtByte t a).isSome = true) :
    Source.sliceBytes t a a = .ok [] := by
  unfold Source.sliceBytes
  rw [if_neg (by omega)]
  cases hs : splitAtByte t a with
  | none => rw [hs] at h; cases h
  | some x =>
    obtain ⟨p1, s1⟩ := x
    simp only [Nat.sub_self, splitAtByte_zero]

theorem sliceBytes_ok {t : Text} {a b : Nat} (ha : (splitAtByte t a).isSome = true)
    (hb : (splitAtByte t b).isSome = true) (hab : a ≤ b) : ∃ mid, Source.sliceBytes t a b = .ok mid := by
  unfold Source.sliceBytes
  rw [if_neg (by omega)]
  cases hs : splitAtByte t a with
  | none => rw [hs] at ha; cases ha
  | some x =>
    obtain ⟨p1, s1⟩ := x
    cases hs2 : splitAtByte t b with
    | none => rw [hs2] at hb; cases hb
    | some y =>
      obtain ⟨p2, s2⟩ := y
      obtain ⟨mid, hm⟩ := splitAtByte_mid t a b p1 s1 p2 s2 hab hs hs2
      simp only [hm]
      exact ⟨mid, rfl⟩

/-! ### initial states -/

include hc in
theorem absC_bufferNext (ok : ScanOK E m len) {lx : Lx} {s : PState} (a : AbsC E m len P lx s) :
    AbsC E m len P (lx.bufferNext E) s := by
  have hpos : PosOK P (lx.bufferNext E) := LexInv.bufferNext_pos lx (by rw [a.abs.inv.hmet]; exact hc) a.pos
  have habs := abs_bufferNext ok a.abs
  by_cases hm : lx.parseStart = lx.cursor
  · cases hb : lx.buffer with
    | some b =>
      have e : lx.bufferNext E = lx := by unfold Lexer.bufferNext; simp [hb]
      rw [e]; exact a
    | none =>
      obtain ⟨s', c, ob, e, _⟩ := bufferNext_behind ok a.abs.inv hm hb
      rw [e] at hpos habs ⊢
      exact ⟨habs, fun h => absurd rfl h, hpos⟩
  · obtain ⟨ob, e⟩ := bufferNext_ahead ok a.abs.inv hm
    rw [e] at hpos habs ⊢
    exact ⟨habs, fun _ => a.ahead hm, hpos⟩

theorem absC_fresh (h0 : P Pos.zero) (s0 : Nat) (f : Option Nat) (hp : PassOK E) :
    AbsC E m len P (fresh s0 m len f) (stateOf len (rawAt E m len s0 Pos.zero) Pos.zero f) :=
  ⟨abs_fresh s0 f hp, fun h => absurd rfl h, ⟨h0, h0, h0, fun _ h => nomatch h⟩⟩

theorem absC_new (h0 : P Pos.zero) (s0 : Nat) (hp : PassOK E) :
    AbsC E m len P (Lexer.new s0 m len) (stateOf len (rawAt E m len s0 Pos.zero) Pos.zero none) :=
  absC_fresh h0 s0 none hp

include hc in
theorem absC_withFilter (ok : ScanOK E m len) (hp : PassOK E) (h0 : P Pos.zero) (s0 : Nat) (f : Option Nat) :
    AbsC E m len P ((Lexer.new s0 m len).withFilter E f)
      (stateOf len (rawAt E m len s0 Pos.zero) Pos.zero f) :=
  absC_bufferNext hc ok (absC_bufferNext hc ok (absC_fresh h0 s0 f hp))

end PegRefine
end Tephra
