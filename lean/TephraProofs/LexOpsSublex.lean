/-
  TephraProofs.LexOpsSublex — C05 with sub-lex marks.

  A sub-lex mark (`start_sublex` / `into_sublexer`) resets the parse span to the
  cursor and calls `buffer_next`; on a lexer without a lookahead that call moves
  the cursor over the tokens the current filter rejects (F19).  As long as the
  filter is not changed before a token has been consumed, this is unobservable.

  Route.  The full history runs on `a`, the projected history on `b`.  `b` never
  sees a sub-lex mark and keeps the invariant `Good` of `LexOpsProof`.  `a` keeps
  the weaker denotational invariant `Inv` of `LexIter`.  `Rel sync a b`: the raw
  stream at `b` is the raw stream at `a` preceded by tokens the common filter
  rejects (`sync`: by none, and both lexers are in the same parse-span mode).
  Every operation but a filter change preserves `Rel false` with equal outputs of
  the advances; an advance that consumes a token establishes `Rel true`; a filter
  change needs and keeps `Rel true`.
-/
import TephraProofs.LexOpsProof

namespace Tephra
open Tephra.Spec

namespace LexOpsProof
open LexIter
variable {σ τ : Type} {E : LexEnv σ τ} {m : Metrics} {len : Nat}

/-! ### list helpers -/

theorem dropWhile_append_of_all {α} (p : α → Bool) :
    ∀ (sk l : List α), (∀ x ∈ sk, p x = true) → (sk ++ l).dropWhile p = l.dropWhile p := by
  intro sk
  induction sk with
  | nil => intro l _; rfl
  | cons x sk ih =>
    intro l h
    rw [List.cons_append, List.dropWhile_cons, if_pos (h x (by simp))]
    exact ih l (fun y hy => h y (by simp [hy]))

theorem dropWhile_eq_self_of_head {α} (p : α → Bool) (l : List α)
    (h : ∀ x rest, l = x :: rest → p x = false) : l.dropWhile p = l := by
  cases l with
  | nil => rfl
  | cons x rest => rw [List.dropWhile_cons, if_neg (by simp [h x rest rfl])]

theorem mem_takeWhile_sat {α} (p : α → Bool) : ∀ (l : List α) (x : α), x ∈ l.takeWhile p → p x = true := by
  intro l
  induction l with
  | nil => intro x h; simp at h
  | cons y t ih =>
    intro x h
    rw [List.takeWhile_cons] at h
    split at h
    · next hy =>
      rcases List.mem_cons.mp h with e | e
      · rw [e]; exact hy
      · exact ih x e
    · simp at h

/-! ### `buffer_next`, denotationally -/

theorem bufferLoop_none_D (ok : ScanOK E m len) (behind : Bool) (lx : Lexer σ τ) (ps : σ) (pc : Pos)
    (hm : lx.metrics = m) (hl : lx.len = len) (hbuf : lx.buffer = none)
    (h : (Lexer.bufferLoop E behind lx ps pc).buffer = none) :
    (rawAt E m len ps pc).dropWhile (fun r => !keepOf E lx.filter r.tok) = [] := by
  fun_induction Lexer.bufferLoop E behind lx ps pc with
  | case1 lx ps pc s' heq =>
    subst hm
    rw [rawAt_none heq]; rfl
  | case2 lx ps pc tok adv ps' heq hf lx' hg ih =>
    subst hm
    have hk : keepOf E lx.filter tok = false := keep_false_of_filtered hf
    have := ih (by cases behind <;> simp [lx']) (by cases behind <;> simp [lx', hl])
      (by cases behind <;> simp [lx', hbuf]) h
    have hfl : lx'.filter = lx.filter := by cases behind <;> simp [lx']
    rw [hfl] at this
    rw [rawAt_some ok heq, List.dropWhile_cons, if_pos (by simp [hk])]
    exact this
  | case3 lx ps pc tok adv ps' heq hf lx' hg =>
    subst hm
    have := ok.progress _ _ _ _ _ heq
    omega
  | case4 lx ps pc tok adv ps' heq hf =>
    simp at h

theorem bufferLoop_cursor (ok : ScanOK E m len) (behind : Bool) (lx : Lexer σ τ) (ps : σ) (pc : Pos)
    (hm : lx.metrics = m) (hl : lx.len = len) (hc : lx.cursor.byte ≤ pc.byte) :
    lx.cursor.byte ≤ (Lexer.bufferLoop E behind lx ps pc).cursor.byte := by
  fun_induction Lexer.bufferLoop E behind lx ps pc with
  | case1 lx ps pc s' heq => exact Nat.le_refl _
  | case2 lx ps pc tok adv ps' heq hf lx' hg ih =>
    have h1 : lx.cursor.byte ≤ lx'.cursor.byte := by cases behind <;> simp [lx'] <;> omega
    have := ih (by cases behind <;> simp [lx', hm]) (by cases behind <;> simp [lx', hl])
      (by cases behind <;> simp [lx'] <;> omega)
    omega
  | case3 lx ps pc tok adv ps' heq hf lx' hg =>
    subst hm
    have := ok.progress _ _ _ _ _ heq
    omega
  | case4 lx ps pc tok adv ps' heq hf => exact Nat.le_refl _

/-- What `buffer_next` does to the raw stream the lexer sits on. -/
theorem bn_den (ok : ScanOK E m len) {f} {lx : Lexer σ τ} (i : Inv E m len f lx) :
    Inv E m len f (lx.bufferNext E) ∧ D E m len (lx.bufferNext E) = D E m len lx ∧
    ((lx.bufferNext E).parseStart = (lx.bufferNext E).cursor ↔ lx.parseStart = lx.cursor) ∧
    lx.cursor.byte ≤ (lx.bufferNext E).cursor.byte ∧
    ((lx.buffer ≠ none ∨ lx.parseStart ≠ lx.cursor) →
      rawAt E m len (lx.bufferNext E).scanner (lx.bufferNext E).cursor = rawAt E m len lx.scanner lx.cursor) ∧
    (lx.buffer = none → lx.parseStart = lx.cursor →
      rawAt E m len (lx.bufferNext E).scanner (lx.bufferNext E).cursor = D E m len lx) ∧
    ((lx.bufferNext E).buffer = none → D E m len lx = []) := by
  obtain ⟨i', hD, _⟩ := bufferNext_spec ok i
  refine ⟨i', hD, ?_⟩
  cases hb : lx.buffer with
  | some bf =>
    rw [bufferNext_of_some hb]
    refine ⟨Iff.rfl, Nat.le_refl _, fun _ => rfl, fun h => by simp at h, fun h => ?_⟩
    rw [hb] at h; cases h
  | none =>
    have hbn := bufferNext_of_none (E := E) hb
    have hcur : lx.cursor.byte ≤ (lx.bufferNext E).cursor.byte := by
      rw [hbn]; exact bufferLoop_cursor ok _ lx _ _ i.hmet i.hlen (Nat.le_refl _)
    have hnone : (lx.bufferNext E).buffer = none → D E m len lx = [] := by
      intro h
      rw [hbn] at h
      have := bufferLoop_none_D ok _ lx _ _ i.hmet i.hlen hb h
      exact this
    cases hbeh : (lx.parseStart == lx.cursor)
    · have hne : lx.parseStart ≠ lx.cursor := by simpa using hbeh
      rw [hbeh] at hbn
      have hsame : (lx.bufferNext E).scanner = lx.scanner ∧ (lx.bufferNext E).cursor = lx.cursor ∧
          (lx.bufferNext E).parseStart = lx.parseStart := by
        rcases bufferLoop_ahead ok lx lx.scanner lx.cursor i.hmet i.hlen with h | ⟨b, h, _⟩
        · rw [hbn, h]; exact ⟨rfl, rfl, rfl⟩
        · rw [hbn, h]; exact ⟨rfl, rfl, rfl⟩
      refine ⟨?_, hcur, ?_, fun _ h => absurd h hne, hnone⟩
      · rw [hsame.2.1, hsame.2.2]
      · intro _; rw [hsame.1, hsame.2.1]
    · have he : lx.parseStart = lx.cursor := by simpa using hbeh
      rw [hbeh] at hbn
      obtain ⟨s, c, ob, h1, h2, _⟩ := bufferLoop_behind ok lx lx.scanner lx.cursor i.hmet i.hlen
        rfl rfl he (i.ts he) hb
      have e : lx.bufferNext E =
          { lx with scanner := s, cursor := c, parseStart := c, tokenStart := c, buffer := ob } := by
        rw [hbn, h1]
      refine ⟨?_, hcur, ?_, ?_, hnone⟩
      · rw [e]; exact ⟨fun _ => he, fun _ => rfl⟩
      · intro h
        rcases h with h | h
        · exact absurd rfl h
        · exact absurd he h
      · intro _ _
        rw [e]; exact h2

/-- The answer of `peek` is the first kept token of the raw stream. -/
theorem peek_out (ok : ScanOK E m len) {f} {lx : Lexer σ τ} (i : Inv E m len f lx) :
    (lx.peek E).1 = (D E m len lx).head?.map (·.tok) := by
  unfold Lexer.peek
  split
  · next hend =>
    rw [i.hlen] at hend
    simp [D, rawAt_atEnd ok hend]
  · obtain ⟨i', _, _, _, _, _, hnone⟩ := bn_den ok i
    obtain ⟨_, hD, _⟩ := bufferNext_spec ok i
    show (lx.bufferNext E).buffer.map (·.token) = _
    cases hb : (lx.bufferNext E).buffer with
    | none => rw [hnone hb]; rfl
    | some bf =>
      obtain ⟨g1, _⟩ := i'.buf bf hb
      rw [← hD, g1]; rfl

/-- `peek` leaves the lexer alone or applies `buffer_next`. -/
theorem peek_state (lx : Lexer σ τ) : (lx.peek E).2 = lx ∨ (lx.peek E).2 = lx.bufferNext E := by
  unfold Lexer.peek
  split
  · exact Or.inl rfl
  · exact Or.inr rfl

/-! ### a failed advance -/

theorem nextLoop_fail (ok : ScanOK E m len) (fin : ScanFinal E m) (behind : Bool) (lx : Lexer σ τ)
    (hm : lx.metrics = m) (hl : lx.len = len)
    (hb : behind = true → lx.parseStart = lx.cursor ∧ lx.tokenStart = lx.cursor)
    (hD : D E m len lx = []) :
    ∃ s' c', Lexer.nextLoop E behind lx =
        (none, { lx with scanner := s', cursor := c',
                         parseStart := if behind then c' else lx.parseStart,
                         tokenStart := if behind then c' else lx.tokenStart }) ∧
      rawAt E m len s' c' = [] ∧ (c' = lx.cursor ∨ lx.cursor.byte < c'.byte) := by
  fun_induction Lexer.nextLoop E behind lx with
  | case1 lx s' heq =>
    subst hm
    refine ⟨s', lx.cursor, ?_, ?_, Or.inl rfl⟩
    · cases behind
      · rfl
      · obtain ⟨h1, h2⟩ := hb rfl
        cases lx; simp_all
    · have := fin.final _ _ _ heq
      generalize hx : E.scan s' lx.metrics lx.cursor = x at this
      obtain ⟨o, s''⟩ := x
      simp only at this
      subst this
      exact rawAt_none hx
  | case2 lx tok adv s' heq hf lx' hg ih =>
    subst hm
    have hk : keepOf E lx.filter tok = false := keep_false_of_filtered hf
    have hD' : D E lx.metrics len lx' = [] := by
      have : D E lx.metrics len lx' = D E lx.metrics len lx := by
        cases behind <;> simp [lx', D, rawAt_some ok heq, hk]
      rw [this]; exact hD
    obtain ⟨s'', c'', h1, h2, h3⟩ := ih (by cases behind <;> simp [lx']) (by cases behind <;> simp [lx', hl])
      (by cases behind <;> simp [lx']) hD'
    refine ⟨s'', c'', ?_, h2, Or.inr ?_⟩
    · rw [h1]; cases behind <;> simp [lx']
    · have : lx'.cursor = adv := by cases behind <;> simp [lx']
      rw [this] at h3
      rcases h3 with h3 | h3
      · rw [h3]; exact hg.1
      · omega
  | case3 lx tok adv s' heq hf lx' hg =>
    subst hm
    have := ok.progress _ _ _ _ _ heq
    omega
  | case4 lx tok adv s' heq hf ps =>
    subst hm
    have hk : keepOf E lx.filter tok = true := keep_of_filtered_false hf
    simp [D, rawAt_some ok heq, hk] at hD

/-- `next`, denotationally: the head of the kept stream, or nothing. -/
theorem next_den (ok : ScanOK E m len) (fin : ScanFinal E m) {f} {lx : Lexer σ τ} (i : Inv E m len f lx) :
    (D E m len lx = [] → (lx.next E).1 = none ∧ Inv E m len f (lx.next E).2 ∧
      rawAt E m len (lx.next E).2.scanner (lx.next E).2.cursor = [] ∧
      ((lx.next E).2.parseStart = (lx.next E).2.cursor ↔ lx.parseStart = lx.cursor)) ∧
    (∀ r post, D E m len lx = r :: post → (lx.next E).1 = some r.tok ∧ Inv E m len f (lx.next E).2 ∧
      rawAt E m len (lx.next E).2.scanner (lx.next E).2.cursor = post ∧
      (lx.next E).2.parseStart ≠ (lx.next E).2.cursor ∧
      (lx.next E).2.tokenSpan = ⟨r.start, r.stop⟩ ∧
      lx.cursor.byte < (lx.next E).2.cursor.byte ∧ (lx.next E).2.cursor.byte ≤ len) := by
  refine ⟨fun hD => ?_, fun r post hD => ?_⟩
  · by_cases hend : lx.len ≤ lx.cursor.byte
    · rw [next_at_end hend]
      refine ⟨rfl, i, ?_, Iff.rfl⟩
      rw [i.hlen] at hend
      exact rawAt_atEnd ok hend
    · cases hbuf : lx.buffer with
      | some bf =>
        obtain ⟨g1, _⟩ := i.buf bf hbuf
        rw [hD] at g1; cases g1
      | none =>
        have hn : lx.next E = Lexer.nextLoop E (lx.parseStart == lx.cursor) lx := by
          unfold Lexer.next; simp [hend, hbuf]
        obtain ⟨s', c', h1, h2, h3⟩ := nextLoop_fail ok fin (lx.parseStart == lx.cursor) lx i.hmet i.hlen
          (fun h => by
            have he : lx.parseStart = lx.cursor := by simpa using h
            exact ⟨he, i.ts he⟩) hD
        rw [hn, h1]
        have hle := i.ps_le
        cases hbeh : (lx.parseStart == lx.cursor)
        · have hne : lx.parseStart ≠ lx.cursor := by simpa using hbeh
          have hne' : lx.parseStart ≠ c' := by
            rcases h3 with h3 | h3
            · rw [h3]; exact hne
            · intro e; rw [e] at hle; omega
          refine ⟨rfl, ⟨i.hmet, i.hlen, i.hfil, ?_, fun h => absurd h hne', ?_⟩, h2, ?_⟩
          · show lx.parseStart.byte ≤ c'.byte
            rcases h3 with h3 | h3
            · rw [h3]; exact hle
            · omega
          · intro b hb'
            have : lx.buffer = some b := hb'
            rw [hbuf] at this; cases this
          · exact ⟨fun h => absurd h hne', fun h => absurd h hne⟩
        · have he : lx.parseStart = lx.cursor := by simpa using hbeh
          refine ⟨rfl, ⟨i.hmet, i.hlen, i.hfil, Nat.le_refl _, fun _ => rfl, ?_⟩, h2, ?_⟩
          · intro b hb'
            have : lx.buffer = some b := hb'
            rw [hbuf] at this; cases this
          · exact ⟨fun _ => he, fun _ => rfl⟩
  · obtain ⟨_, n2⟩ := next_spec ok i
    obtain ⟨lx', h1, i', h2, h3, h4, h5, h6, h7, h8⟩ := n2 r post hD
    rw [h1]
    have hle := i.ps_le
    refine ⟨rfl, i', h2, ?_, ?_, ?_, ?_⟩
    · intro e
      have : lx'.parseStart.byte = lx'.cursor.byte := by rw [e]
      rw [h5, h3] at this
      split at this <;> omega
    · show Span.enclosing lx'.tokenStart lx'.cursor = _
      rw [h3, h4]; exact enclosing_le (by omega)
    · show lx.cursor.byte < lx'.cursor.byte
      rw [h3]; omega
    · show lx'.cursor.byte ≤ len
      rw [h3]; exact h8

/-! ### from `Good` to `Inv` -/

theorem Good.inv {raw : List (RawTok τ)} (ok : ScanOK E m len) {lx : Lexer σ τ} (g : Good E m len raw lx) :
    Inv E m len lx.filter lx := by
  have hle : lx.parseStart.byte ≤ lx.cursor.byte := by
    rcases g.hps with h | h
    · rw [h]; exact Nat.le_refl _
    · omega
  have i0 : Inv E m len lx.filter (nb lx) :=
    ⟨g.hmet, g.hlen, rfl, hle, g.ts, fun b hb => by simp at hb⟩
  rcases g.buf with h | h
  · rw [← nb_of_none h]; exact i0
  · have := (bufferNext_spec ok i0).1
    rw [h] at this
    exact this

/-- the key clause of `Good`, on the raw stream. -/
theorem Good.key_raw {raw : List (RawTok τ)} (ok : ScanOK E m len) {lx : Lexer σ τ} (g : Good E m len raw lx)
    (he : lx.parseStart = lx.cursor) :
    D E m len lx = rawAt E m len lx.scanner lx.cursor := by
  apply dropWhile_eq_self_of_head
  intro x rest hx
  generalize hs : E.scan lx.scanner m lx.cursor = y at *
  obtain ⟨o, s'⟩ := y
  cases o with
  | none => rw [rawAt_none hs] at hx; cases hx
  | some ta =>
    obtain ⟨tok, adv⟩ := ta
    rw [rawAt_some ok hs] at hx
    cases hx
    have := g.key he tok adv s' hs
    simp [this]

/-! ### the relation between the full run and the projected run -/

variable {raw : List (RawTok τ)}

/-- `a` (full history) against `b` (projected history): the raw stream at `b` is the
raw stream at `a` preceded by tokens the common filter rejects; `sync`: by none, and
both are in the same parse-span mode. -/
structure Rel (E : LexEnv σ τ) (m : Metrics) (len : Nat) (raw : List (RawTok τ)) (sync : Bool)
    (a b : Lexer σ τ) : Prop where
  ia : Inv E m len b.filter a
  gb : Good E m len raw b
  sk : ∃ sk, rawAt E m len b.scanner b.cursor = sk ++ rawAt E m len a.scanner a.cursor ∧
    (∀ r ∈ sk, keepOf E b.filter r.tok = false) ∧ (sync = true → sk = [])
  md : sync = true → (a.parseStart = a.cursor ↔ b.parseStart = b.cursor)

theorem Rel.mono {s s' : Bool} {a b : Lexer σ τ} (h : Rel E m len raw s a b) (hs : s' = true → s = true) :
    Rel E m len raw s' a b := by
  obtain ⟨sk, e, hr, h0⟩ := h.sk
  exact ⟨h.ia, h.gb, ⟨sk, e, hr, fun x => h0 (hs x)⟩, fun x => h.md (hs x)⟩

theorem Rel.D_eq {s : Bool} {a b : Lexer σ τ} (h : Rel E m len raw s a b) : D E m len a = D E m len b := by
  obtain ⟨sk, e, hr, _⟩ := h.sk
  unfold D
  rw [e, h.ia.hfil]
  symm
  apply dropWhile_append_of_all
  intro x hx
  simp [hr x hx]

theorem Rel.raw_eq {a b : Lexer σ τ} (h : Rel E m len raw true a b) :
    rawAt E m len a.scanner a.cursor = rawAt E m len b.scanner b.cursor := by
  obtain ⟨sk, e, _, h0⟩ := h.sk
  rw [e, h0 rfl]; rfl

theorem Rel.of_raw_eq {s : Bool} {a b : Lexer σ τ} (ia : Inv E m len b.filter a) (gb : Good E m len raw b)
    (e : rawAt E m len a.scanner a.cursor = rawAt E m len b.scanner b.cursor)
    (md : a.parseStart = a.cursor ↔ b.parseStart = b.cursor) : Rel E m len raw s a b :=
  ⟨ia, gb, ⟨[], (by rw [e]; rfl), (fun _ h => by cases h), fun _ => rfl⟩, fun _ => md⟩

theorem rel_new (s0 : σ) (s : Bool) :
    Rel E m len (rawAt E m len s0 Pos.zero) s (Lexer.new s0 m len) (Lexer.new s0 m len) :=
  Rel.of_raw_eq ⟨rfl, rfl, rfl, Nat.le_refl _, fun _ => rfl, fun _ h => nomatch h⟩ (good_new s0) rfl Iff.rfl

theorem nb_fields {x y : Lexer σ τ} (h : nb x = nb y) :
    x.scanner = y.scanner ∧ x.cursor = y.cursor ∧ x.filter = y.filter ∧ x.parseStart = y.parseStart := by
  have h1 := congrArg Lexer.scanner h
  have h2 := congrArg Lexer.cursor h
  have h3 := congrArg Lexer.filter h
  have h4 := congrArg Lexer.parseStart h
  simp only [nb_scanner, nb_cursor, nb_filter, nb_parseStart] at h1 h2 h3 h4
  exact ⟨h1, h2, h3, h4⟩

/-- the projected side may gain or lose a lookahead. -/
theorem Rel.congr_right {s : Bool} {a b b' : Lexer σ τ} (h : Rel E m len raw s a b)
    (gb' : Good E m len raw b') (hnb : nb b' = nb b) : Rel E m len raw s a b' := by
  obtain ⟨h1, h2, h3, h4⟩ := nb_fields hnb
  refine ⟨by rw [h3]; exact h.ia, gb', ?_, ?_⟩
  · rw [h1, h2, h3]; exact h.sk
  · rw [h2, h4]; exact h.md

/-- `buffer_next` on the full side. -/
theorem rel_bn_left (ok : ScanOK E m len) {s : Bool} {a b : Lexer σ τ} (h : Rel E m len raw s a b) :
    Rel E m len raw s (a.bufferNext E) b := by
  obtain ⟨i', _, hmode, _, hA, hB, _⟩ := bn_den ok h.ia
  obtain ⟨sk, e, hrej, hs⟩ := h.sk
  by_cases hc : a.buffer = none ∧ a.parseStart = a.cursor
  · have hr := hB hc.1 hc.2
    have hsplit := List.takeWhile_append_dropWhile
      (p := fun r : RawTok τ => !keepOf E a.filter r.tok) (l := rawAt E m len a.scanner a.cursor)
    refine ⟨i', h.gb, ⟨sk ++ (rawAt E m len a.scanner a.cursor).takeWhile
      (fun r => !keepOf E a.filter r.tok), ?_, ?_, ?_⟩, fun x => hmode.trans (h.md x)⟩
    · rw [hr, List.append_assoc]
      show _ = sk ++ (_ ++ (rawAt E m len a.scanner a.cursor).dropWhile _)
      rw [hsplit]; exact e
    · intro r hr'
      rcases List.mem_append.mp hr' with h1 | h1
      · exact hrej r h1
      · have := mem_takeWhile_sat _ _ _ h1
        rw [h.ia.hfil] at this
        simpa using this
    · intro hsync
      subst hsync
      have hsk := hs rfl
      subst hsk
      have hraw : rawAt E m len b.scanner b.cursor = rawAt E m len a.scanner a.cursor := e
      have hbeh : b.parseStart = b.cursor := (h.md rfl).mp hc.2
      have hk := h.gb.key_raw ok hbeh
      have hdw : (rawAt E m len a.scanner a.cursor).dropWhile (fun r => !keepOf E a.filter r.tok) =
          rawAt E m len a.scanner a.cursor := by
        rw [h.ia.hfil, ← hraw]; exact hk
      rw [hdw] at hsplit
      rw [List.nil_append]
      exact List.append_left_eq_self.mp hsplit
  · have hne : a.buffer ≠ none ∨ a.parseStart ≠ a.cursor := by
      by_cases h1 : a.buffer = none
      · exact Or.inr (fun h2 => hc ⟨h1, h2⟩)
      · exact Or.inl h1
    have hr := hA hne
    exact ⟨i', h.gb, ⟨sk, by rw [hr]; exact e, hrej, hs⟩, fun x => hmode.trans (h.md x)⟩

theorem rel_bn_right (ok : ScanOK E m len) {s : Bool} {a b : Lexer σ τ} (h : Rel E m len raw s a b) :
    Rel E m len raw s a (b.bufferNext E) :=
  h.congr_right (bn_good ok h.gb).1 (bn_good ok h.gb).2

theorem rel_peek_left (ok : ScanOK E m len) {s : Bool} {a b : Lexer σ τ} (h : Rel E m len raw s a b) :
    Rel E m len raw s (a.peek E).2 b := by
  rcases peek_state (E := E) a with e | e
  · rw [e]; exact h
  · rw [e]; exact rel_bn_left ok h

/-- a sub-lex mark on the full side. -/
theorem rel_mark_left (ok : ScanOK E m len) {s : Bool} {a b : Lexer σ τ} (h : Rel E m len raw s a b) :
    Rel E m len raw false (a.startSublex E) b := by
  have h0 : Rel E m len raw false ({ a with parseStart := a.cursor, tokenStart := a.cursor } : Lexer σ τ) b := by
    obtain ⟨sk, e, hrej, _⟩ := h.sk
    refine ⟨⟨h.ia.hmet, h.ia.hlen, h.ia.hfil, Nat.le_refl _, fun _ => rfl, ?_⟩, h.gb,
      ⟨sk, e, hrej, fun x => by cases x⟩, fun x => by cases x⟩
    intro bf hb
    exact h.ia.buf bf hb
  exact rel_bn_left ok h0

/-- `peek` on both sides. -/
theorem rel_peek (ok : ScanOK E m len) {s : Bool} {a b : Lexer σ τ} (h : Rel E m len raw s a b) :
    (a.peek E).1 = (b.peek E).1 ∧ Rel E m len raw s (a.peek E).2 (b.peek E).2 ∧
    a.cursor.byte ≤ (a.peek E).2.cursor.byte ∧ b.cursor.byte ≤ (b.peek E).2.cursor.byte ∧
    D E m len (a.peek E).2 = D E m len a := by
  have hpb := peek_good ok h.gb
  refine ⟨?_, (rel_peek_left ok h).congr_right hpb.1 hpb.2, ?_, ?_, ?_⟩
  · rw [peek_out ok h.ia, peek_out ok (h.gb.inv ok), h.D_eq]
  · rcases peek_state (E := E) a with e | e
    · rw [e]; exact Nat.le_refl _
    · rw [e]; exact (bn_den ok h.ia).2.2.2.1
  · rw [(nb_fields hpb.2).2.1]; exact Nat.le_refl _
  · rcases peek_state (E := E) a with e | e
    · rw [e]
    · rw [e]; exact (bn_den ok h.ia).2.1

/-- `next` on both sides: the same answer; a delivered token synchronises. -/
theorem rel_next (ok : ScanOK E m len) (fin : ScanFinal E m) {s : Bool} {a b : Lexer σ τ}
    (h : Rel E m len raw s a b) {oa ob : Option τ} {a' b' : Lexer σ τ}
    (ha : a.next E = (oa, a')) (hb : b.next E = (ob, b')) :
    (oa = none ∧ ob = none ∧ Rel E m len raw s a' b') ∨
    (∃ t, oa = some t ∧ ob = some t ∧ Rel E m len raw true a' b' ∧ a'.tokenSpan = b'.tokenSpan ∧
      a.cursor.byte < a'.cursor.byte ∧ a'.cursor.byte ≤ len ∧
      b.cursor.byte < b'.cursor.byte ∧ b'.cursor.byte ≤ len) := by
  have ib := h.gb.inv ok
  have hgb := (next_good ok fin h.gb).1
  have hD := h.D_eq
  obtain ⟨a1, a2⟩ := next_den ok fin h.ia
  obtain ⟨b1, b2⟩ := next_den ok fin ib
  rw [ha] at a1 a2
  rw [hb] at b1 b2 hgb
  cases hDa : D E m len a with
  | nil =>
    obtain ⟨x1, x2, x3, x4⟩ := a1 hDa
    obtain ⟨y1, y2, y3, y4⟩ := b1 (hD ▸ hDa)
    refine Or.inl ⟨x1, y1, ?_⟩
    have x2' : Inv E m len b'.filter a' := by rw [y2.hfil]; exact x2
    refine ⟨x2', hgb, ⟨[], ?_, (fun _ hx => by cases hx), fun _ => rfl⟩, fun x => ?_⟩
    · show rawAt E m len b'.scanner b'.cursor = [] ++ rawAt E m len a'.scanner a'.cursor
      rw [x3, y3]; rfl
    · exact x4.trans ((h.md x).trans y4.symm)
  | cons r post =>
    obtain ⟨x1, x2, x3, x4, x5, x6, x7⟩ := a2 r post hDa
    obtain ⟨y1, y2, y3, y4, y5, y6, y7⟩ := b2 r post (hD ▸ hDa)
    refine Or.inr ⟨r.tok, x1, y1, ?_, ?_, x6, x7, y6, y7⟩
    · have x2' : Inv E m len b'.filter a' := by rw [y2.hfil]; exact x2
      exact Rel.of_raw_eq x2' hgb (by show rawAt E m len a'.scanner a'.cursor = rawAt E m len b'.scanner b'.cursor; rw [x3, y3])
        ⟨fun e => absurd e x4, fun e => absurd e y4⟩
    · show a'.tokenSpan = b'.tokenSpan
      rw [show a'.tokenSpan = _ from x5, show b'.tokenSpan = _ from y5]

/-- `next_if` on both sides. -/
theorem rel_nextIf (ok : ScanOK E m len) (fin : ScanFinal E m) (p : τ → Bool) {s : Bool} {a b : Lexer σ τ}
    (h : Rel E m len raw s a b) :
    ((a.nextIf E p).1 = none ∧ (b.nextIf E p).1 = none ∧ Rel E m len raw s (a.nextIf E p).2 (b.nextIf E p).2) ∨
    (∃ t, (a.nextIf E p).1 = some t ∧ (b.nextIf E p).1 = some t ∧
      Rel E m len raw true (a.nextIf E p).2 (b.nextIf E p).2 ∧
      (a.nextIf E p).2.tokenSpan = (b.nextIf E p).2.tokenSpan) := by
  obtain ⟨ho, hr, _⟩ := rel_peek ok h
  rcases hpa : a.peek E with ⟨oa, a1⟩
  rcases hpb : b.peek E with ⟨ob, b1⟩
  rw [hpa, hpb] at ho hr
  simp only at ho hr
  subst ho
  unfold Lexer.nextIf
  rw [hpa, hpb]
  cases oa with
  | none => exact Or.inl ⟨rfl, rfl, hr⟩
  | some t =>
    simp only
    by_cases hp : p t = true
    · rw [if_pos hp, if_pos hp]
      rcases hna : a1.next E with ⟨o1, a2⟩
      rcases hnb : b1.next E with ⟨o2, b2⟩
      rcases rel_next ok fin hr hna hnb with ⟨e1, e2, r2⟩ | ⟨t', e1, e2, r2, sp, _⟩
      · exact Or.inl ⟨e1, e2, r2⟩
      · exact Or.inr ⟨t', e1, e2, r2, sp⟩
    · rw [if_neg hp, if_neg hp]
      exact Or.inl ⟨rfl, rfl, hr⟩

/-- `advance_to` on both sides. -/
theorem rel_advanceTo (ok : ScanOK E m len) (fin : ScanFinal E m) (p : τ → Bool) (a : Lexer σ τ) :
    ∀ (b : Lexer σ τ) (s : Bool), Rel E m len raw s a b →
      (a.advanceTo E p).1 = (b.advanceTo E p).1 ∧
      Rel E m len raw (s || (a.advanceTo E p).1) (a.advanceTo E p).2 (b.advanceTo E p).2 := by
  fun_induction Lexer.advanceTo E p a with
  | case1 a a' hn =>
    intro b s h
    rcases hnb : b.next E with ⟨ob, b'⟩
    rw [advanceTo_unfold p b, hnb]
    rcases rel_next ok fin h hn hnb with ⟨_, e2, r2⟩ | ⟨t', e1, _⟩
    · subst e2
      exact ⟨rfl, by simpa using r2⟩
    · cases e1
  | case2 a t a' hn hp =>
    intro b s h
    rcases hnb : b.next E with ⟨ob, b'⟩
    rw [advanceTo_unfold p b, hnb]
    rcases rel_next ok fin h hn hnb with ⟨e1, _⟩ | ⟨t', e1, e2, r2, _⟩
    · cases e1
    · cases e1
      subst e2
      simp only []
      rw [if_pos hp]
      exact ⟨rfl, by simpa using r2⟩
  | case3 a t a' hn hp hg ih =>
    intro b s h
    rcases hnb : b.next E with ⟨ob, b'⟩
    rw [advanceTo_unfold p b, hnb]
    rcases rel_next ok fin h hn hnb with ⟨e1, _⟩ | ⟨t', e1, e2, r2, _, _, _, g3, g4⟩
    · cases e1
    · cases e1
      subst e2
      have hlb : b'.len = b.len := by rw [r2.gb.hlen, h.gb.hlen]
      have hlb' : b'.cursor.byte ≤ b.len := by rw [h.gb.hlen]; exact g4
      simp only []
      rw [if_neg hp, if_pos ⟨g3, hlb, hlb'⟩]
      obtain ⟨i1, i2⟩ := ih b' true r2
      exact ⟨i1, i2.mono (fun _ => rfl)⟩
  | case4 a t a' hn hp hg =>
    intro b s h
    rcases hnb : b.next E with ⟨ob, b'⟩
    rcases rel_next ok fin h hn hnb with ⟨e1, _⟩ | ⟨t', e1, e2, r2, _, g1, g2, _, _⟩
    · cases e1
    · exfalso
      apply hg
      refine ⟨g1, ?_, ?_⟩
      · rw [r2.ia.hlen, h.ia.hlen]
      · rw [h.ia.hlen]; exact g2

/-- `advance_up_to` on both sides (it may stop without consuming anything). -/
theorem rel_advanceUpTo (ok : ScanOK E m len) (fin : ScanFinal E m) (p : τ → Bool) (a : Lexer σ τ) :
    ∀ (b : Lexer σ τ) (s : Bool), Rel E m len raw s a b →
      (a.advanceUpTo E p).1 = (b.advanceUpTo E p).1 ∧
      Rel E m len raw s (a.advanceUpTo E p).2 (b.advanceUpTo E p).2 := by
  fun_induction Lexer.advanceUpTo E p a with
  | case1 a a1 hpk =>
    intro b s h
    obtain ⟨ho, hr, _⟩ := rel_peek ok h
    rcases hpb : b.peek E with ⟨ob, b1⟩
    rw [hpk, hpb] at ho hr
    simp only at ho hr
    subst ho
    rw [Lexer.advanceUpTo.eq_1 E p b, hpb]
    exact ⟨rfl, hr⟩
  | case2 a t a1 hpk hp =>
    intro b s h
    obtain ⟨ho, hr, _⟩ := rel_peek ok h
    rcases hpb : b.peek E with ⟨ob, b1⟩
    rw [hpk, hpb] at ho hr
    simp only at ho hr
    subst ho
    rw [Lexer.advanceUpTo.eq_1 E p b, hpb]
    simp only []
    rw [if_pos hp]
    exact ⟨rfl, hr⟩
  | case3 a t a1 hpk hp o a2 hn hg ih =>
    intro b s h
    obtain ⟨ho, hr, c1, c2, hD⟩ := rel_peek ok h
    rcases hpb : b.peek E with ⟨ob, b1⟩
    rw [hpk, hpb] at ho hr
    rw [hpk] at hD c1
    rw [hpb] at c2
    simp only at ho hr c1 c2 hD
    subst ho
    rcases hnb : b1.next E with ⟨o2, b2⟩
    rw [Lexer.advanceUpTo.eq_1 E p b, hpb]
    simp only []
    rw [if_neg hp, hnb]
    simp only []
    have hsome : o ≠ none := by
      have h1 := peek_out ok h.ia
      rw [hpk] at h1
      simp only at h1
      cases hDa : D E m len a with
      | nil => rw [hDa] at h1; cases h1
      | cons r post =>
        have := ((next_den ok fin hr.ia).2 r post (hD.trans hDa)).1
        rw [hn] at this
        simp only at this
        rw [this]; simp
    rcases rel_next ok fin hr hn hnb with ⟨e1, _⟩ | ⟨t', _, _, r2, _, _, _, g3, g4⟩
    · exact absurd e1 hsome
    · have hlb : b2.len = b.len := by rw [r2.gb.hlen, h.gb.hlen]
      have hlb' : b2.cursor.byte ≤ b.len := by rw [h.gb.hlen]; exact g4
      rw [dif_pos ⟨by omega, hlb, hlb'⟩]
      obtain ⟨i1, i2⟩ := ih b2 true r2
      exact ⟨i1, i2.mono (fun _ => rfl)⟩
  | case4 a t a1 hpk hp o a2 hn hg =>
    intro b s h
    obtain ⟨ho, hr, c1, c2, hD⟩ := rel_peek ok h
    rcases hpb : b.peek E with ⟨ob, b1⟩
    rw [hpk, hpb] at ho hr
    rw [hpk] at hD c1
    rw [hpb] at c2
    simp only at ho hr c1 c2 hD
    rcases hnb : b1.next E with ⟨o2, b2⟩
    have hsome : o ≠ none := by
      have h1 := peek_out ok h.ia
      rw [hpk] at h1
      simp only at h1
      cases hDa : D E m len a with
      | nil => rw [hDa] at h1; cases h1
      | cons r post =>
        have := ((next_den ok fin hr.ia).2 r post (hD.trans hDa)).1
        rw [hn] at this
        simp only at this
        rw [this]; simp
    rcases rel_next ok fin hr hn hnb with ⟨e1, _⟩ | ⟨t', _, _, r2, _, g1, g2, _, _⟩
    · exact absurd e1 hsome
    · exfalso
      apply hg
      refine ⟨by omega, ?_, ?_⟩
      · rw [r2.ia.hlen, h.ia.hlen]
      · rw [h.ia.hlen]; exact g2

/-! ### filter changes (synchronised lexers only) -/

theorem rel_setFilter (ok : ScanOK E m len) (f : Option Nat) {a b : Lexer σ τ} (h : Rel E m len raw true a b) :
    Rel E m len raw true (a.setFilter E f).2 (b.setFilter E f).2 := by
  have ib := h.gb.inv ok
  have ia0 : Inv E m len f ({ a with filter := f, buffer := none } : Lexer σ τ) :=
    ⟨h.ia.hmet, h.ia.hlen, rfl, h.ia.ps_le, h.ia.ts, fun _ hb => by cases hb⟩
  have ib0 : Inv E m len f ({ b with filter := f, buffer := none } : Lexer σ τ) :=
    ⟨ib.hmet, ib.hlen, rfl, ib.ps_le, ib.ts, fun _ hb => by cases hb⟩
  obtain ⟨ia', _, ma, _, aA, aB, _⟩ := bn_den ok ia0
  obtain ⟨ib', _, mb, _, bA, bB, _⟩ := bn_den ok ib0
  have hraw := h.raw_eq
  have hmd := h.md rfl
  have hfb : (b.setFilter E f).2.filter = f := ib'.hfil
  have hD0 : D E m len ({ a with filter := f, buffer := none } : Lexer σ τ) =
      D E m len ({ b with filter := f, buffer := none } : Lexer σ τ) := by
    show (rawAt E m len a.scanner a.cursor).dropWhile _ = (rawAt E m len b.scanner b.cursor).dropWhile _
    rw [hraw]
  refine Rel.of_raw_eq (by rw [hfb]; exact ia') (setFilter_good ok f h.gb) ?_ (ma.trans (hmd.trans mb.symm))
  show rawAt E m len (Lexer.bufferNext E _).scanner (Lexer.bufferNext E _).cursor =
    rawAt E m len (Lexer.bufferNext E _).scanner (Lexer.bufferNext E _).cursor
  by_cases he : a.parseStart = a.cursor
  · rw [aB rfl he, bB rfl (hmd.mp he), hD0]
  · rw [aA (Or.inr he), bA (Or.inr (fun e => he (hmd.mpr e)))]
    exact hraw

theorem rel_withFilter (ok : ScanOK E m len) (f : Option Nat) {a b : Lexer σ τ} (h : Rel E m len raw true a b) :
    Rel E m len raw true (a.withFilter E f) (b.withFilter E f) :=
  rel_bn_right ok (rel_bn_left ok (rel_setFilter ok f h))

/-! ### operations -/

open LexOps

def isFilterOp : Op τ → Bool
  | .setFilter _ | .withFilter _ => true
  | _ => false

/-- An advance that is known, from its answer alone, to have consumed a token:
`next` / `next_if` returning a token, `advance_to` returning `true`.
(`advance_up_to` returning `true` may have consumed nothing.) -/
def consumes (op : Op τ) (o : Out τ) : Bool :=
  match op, o with
  | .next, .tok (some _) => true
  | .nextIf _, .tok (some _) => true
  | .advanceTo _, .flag true => true
  | _, _ => false

/-- The complement of the (corrected) signature of F19 on a run: outside forks, no
filter change after a sub-lex mark unless an advance in between consumed a token.
`pending`: a sub-lex mark has been seen and no token consumed since. -/
def sublexOKAux : Nat → Bool → List (Op τ) → List (Out τ × Lexer σ τ) → Bool
  | _, _, [], _ => true
  | _, _, _ :: _, [] => true
  | depth, pending, op :: ops, o :: os =>
    match op with
    | .forkBegin => sublexOKAux (depth + 1) pending ops os
    | .forkEnd => sublexOKAux (depth - 1) pending ops os
    | _ =>
      if depth > 0 then sublexOKAux depth pending ops os
      else if isSublex op then sublexOKAux depth true ops os
      else if isFilterOp op then !pending && sublexOKAux depth pending ops os
      else sublexOKAux depth (pending && !consumes op o.1) ops os

def sublexOK (ops : List (Op τ)) (obs : List (Out τ × Lexer σ τ)) : Bool := sublexOKAux 0 false ops obs

/-- Syntactic sufficient condition: outside forks, no filter change after the first
sub-lex mark. -/
def noFilterAfterSublexAux : Nat → Bool → List (Op τ) → Bool
  | _, _, [] => true
  | depth, seen, op :: ops =>
    match op with
    | .forkBegin => noFilterAfterSublexAux (depth + 1) seen ops
    | .forkEnd => noFilterAfterSublexAux (depth - 1) seen ops
    | _ =>
      if depth > 0 then noFilterAfterSublexAux depth seen ops
      else if isSublex op then noFilterAfterSublexAux depth true ops
      else if isFilterOp op then !seen && noFilterAfterSublexAux depth seen ops
      else noFilterAfterSublexAux depth seen ops

def noFilterAfterSublex (ops : List (Op τ)) : Bool := noFilterAfterSublexAux 0 false ops

theorem sublexOKAux_plain (d : Nat) (pend : Bool) (op : Op τ) (ops : List (Op τ)) (o : Out τ × Lexer σ τ)
    (os : List (Out τ × Lexer σ τ)) (h : isFork op = false) :
    sublexOKAux d pend (op :: ops) (o :: os) =
      if d > 0 then sublexOKAux d pend ops os
      else if isSublex op then sublexOKAux d true ops os
      else if isFilterOp op then !pend && sublexOKAux d pend ops os
      else sublexOKAux d (pend && !consumes op o.1) ops os := by
  cases op <;> first | rfl | exact Bool.noConfusion h

theorem noFilterAfterSublexAux_plain (d : Nat) (seen : Bool) (op : Op τ) (ops : List (Op τ))
    (h : isFork op = false) :
    noFilterAfterSublexAux d seen (op :: ops) =
      if d > 0 then noFilterAfterSublexAux d seen ops
      else if isSublex op then noFilterAfterSublexAux d true ops
      else if isFilterOp op then !seen && noFilterAfterSublexAux d seen ops
      else noFilterAfterSublexAux d seen ops := by
  cases op <;> first | rfl | exact Bool.noConfusion h

/-- the syntactic condition implies the condition on the run, whatever the run. -/
theorem sublexOK_of_syntactic : ∀ (ops : List (Op τ)) (d : Nat) (pend seen : Bool)
    (obs : List (Out τ × Lexer σ τ)), (pend = true → seen = true) →
    noFilterAfterSublexAux d seen ops = true → sublexOKAux d pend ops obs = true := by
  intro ops
  induction ops with
  | nil => intro d pend seen obs _ _; cases obs <;> rfl
  | cons op ops ih =>
    intro d pend seen obs hps h
    cases obs with
    | nil => rfl
    | cons o os =>
      cases hf : isFork op with
      | true =>
        cases op with
        | forkBegin => exact ih (d + 1) pend seen os hps h
        | forkEnd => exact ih (d - 1) pend seen os hps h
        | _ => cases hf
      | false =>
        rw [noFilterAfterSublexAux_plain _ _ _ _ hf] at h
        rw [sublexOKAux_plain _ _ _ _ _ _ hf]
        by_cases hd : d > 0
        · rw [if_pos hd] at h ⊢
          exact ih d pend seen os hps h
        · rw [if_neg hd] at h ⊢
          cases hsub : isSublex op with
          | true =>
            rw [hsub] at h
            simp only [if_true] at h ⊢
            exact ih d true true os (fun _ => rfl) h
          | false =>
            rw [hsub] at h
            simp only [Bool.false_eq_true, if_false] at h ⊢
            cases hfo : isFilterOp op with
            | true =>
              rw [hfo] at h
              simp only [if_true, Bool.and_eq_true, Bool.not_eq_eq_eq_not, Bool.not_true] at h ⊢
              have hsn : seen = false := h.1
              have hpn : pend = false := by
                cases pend
                · rfl
                · rw [hps rfl] at hsn; cases hsn
              exact ⟨hpn, ih d pend seen os hps h.2⟩
            | false =>
              rw [hfo] at h
              simp only [Bool.false_eq_true, if_false] at h ⊢
              exact ih d _ seen os (fun hx => hps (by simp at hx; exact hx.1)) h

theorem op_left (ok : ScanOK E m len) {s : Bool} {a b : Lexer σ τ} (h : Rel E m len raw s a b)
    (op : Op τ) (hl : isLook op = true) : Rel E m len raw s (applyOp E a op).2 b := by
  cases op with
  | peek => exact rel_peek_left ok h
  | emptyQ => exact rel_bn_left ok h
  | spans => exact h
  | _ => cases hl

theorem op_mark (ok : ScanOK E m len) {s : Bool} {a b : Lexer σ τ} (h : Rel E m len raw s a b)
    (op : Op τ) (hl : isSublex op = true) : Rel E m len raw false (applyOp E a op).2 b := by
  cases op with
  | startSublex => exact rel_mark_left ok h
  | intoSublexer => exact rel_mark_left ok h
  | _ => cases hl

theorem op_filter (ok : ScanOK E m len) {a b : Lexer σ τ} (h : Rel E m len raw true a b)
    (op : Op τ) (hl : isFilterOp op = true) :
    Rel E m len raw true (applyOp E a op).2 (applyOp E b op).2 := by
  cases op with
  | setFilter f => exact rel_setFilter ok f h
  | withFilter f => exact rel_withFilter ok f h
  | _ => cases hl

theorem op_adv (ok : ScanOK E m len) (fin : ScanFinal E m) {s : Bool} {a b : Lexer σ τ}
    (h : Rel E m len raw s a b) (op : Op τ) (hl : isAdvance op = true) :
    (applyOp E a op).1 = (applyOp E b op).1 ∧ spanOf (applyOp E a op) = spanOf (applyOp E b op) ∧
    Rel E m len raw (s || consumes op (applyOp E a op).1) (applyOp E a op).2 (applyOp E b op).2 := by
  cases op with
  | next =>
    rcases hna : a.next E with ⟨oa, a'⟩
    rcases hnb : b.next E with ⟨ob, b'⟩
    simp only [applyOp, hna, hnb, spanOf]
    rcases rel_next ok fin h hna hnb with ⟨e1, e2, r2⟩ | ⟨t, e1, e2, r2, sp, _⟩
    · subst e1 e2
      exact ⟨rfl, rfl, by simpa [consumes] using r2⟩
    · subst e1 e2
      exact ⟨rfl, by rw [sp], by simpa [consumes] using r2⟩
  | nextIf p =>
    simp only [applyOp, spanOf]
    rcases rel_nextIf ok fin p h with ⟨e1, e2, r2⟩ | ⟨t, e1, e2, r2, sp⟩
    · rw [e1, e2]
      exact ⟨rfl, rfl, by simpa [consumes] using r2⟩
    · rw [e1, e2]
      exact ⟨rfl, by rw [sp], by simpa [consumes] using r2⟩
  | advanceTo p =>
    obtain ⟨h1, h2⟩ := rel_advanceTo ok fin p a b s h
    simp only [applyOp, spanOf]
    refine ⟨by rw [h1], trivial, ?_⟩
    cases hx : (a.advanceTo E p).1 with
    | false => rw [hx] at h2; simpa [consumes] using h2
    | true => rw [hx] at h2; simpa [consumes] using h2
  | advanceUpTo p =>
    obtain ⟨h1, h2⟩ := rel_advanceUpTo ok fin p a b s h
    simp only [applyOp, spanOf]
    exact ⟨by rw [h1], trivial, by simpa [consumes] using h2⟩
  | _ => cases hl

theorem projectAux_sublex (d : Nat) (op : Op τ) (ops : List (Op τ)) (h : isSublex op = true) :
    projectAux d (op :: ops) = projectAux d ops := by
  cases op <;> first | rfl | exact Bool.noConfusion h

theorem sublex_not_advance (op : Op τ) (h : isSublex op = true) : isAdvance op = false := by
  cases op <;> first | rfl | exact Bool.noConfusion h

theorem filter_not_advance (op : Op τ) (h : isFilterOp op = true) : isAdvance op = false := by
  cases op <;> first | rfl | exact Bool.noConfusion h

theorem filter_not_look (op : Op τ) (h : isFilterOp op = true) : isLook op = false := by
  cases op <;> first | rfl | exact Bool.noConfusion h

theorem sublex_not_look (op : Op τ) (h : isSublex op = true) : isLook op = false := by
  cases op <;> first | rfl | exact Bool.noConfusion h

theorem look_not_filter (op : Op τ) (h : isLook op = true) : isFilterOp op = false := by
  cases op <;> first | rfl | exact Bool.noConfusion h

theorem consumes_of_not_advance (op : Op τ) (o : Out τ) (h : isAdvance op = false) : consumes op o = false := by
  cases op <;> first | rfl | exact Bool.noConfusion h

theorem advance_of_rest (op : Op τ) (h1 : isFork op = false) (h2 : isSublex op = false)
    (h3 : isMetricsOp op = false) (h4 : isLook op = false) (h5 : isFilterOp op = false) :
    isAdvance op = true := by
  cases op <;> first | rfl | exact Bool.noConfusion h1 | exact Bool.noConfusion h2 |
    exact Bool.noConfusion h3 | exact Bool.noConfusion h4 | exact Bool.noConfusion h5

/-! ### the interpreter -/

/-- Lock step of the full history (on `a`, below the fork stack `stk`) and its
projection (on `b`). -/
theorem mainS (ok : ScanOK E m len) (fin : ScanFinal E m) :
    ∀ (ops : List (Op τ)) (stk : List (Lexer σ τ)) (pend : Bool) (a b : Lexer σ τ),
      Rel E m len raw (!pend) a b → metricsFree ops = true →
      sublexOKAux stk.length pend ops (exec E (stk ++ [a]) ops) = true →
      deliveredAux stk.length ops (exec E (stk ++ [a]) ops) =
        deliveredAux 0 (projectAux stk.length ops) (exec E [b] (projectAux stk.length ops)) := by
  intro ops
  induction ops with
  | nil =>
    intro stk pend a b _ _ _
    simp [projectAux, deliveredAux]
  | cons op ops ih =>
    intro stk pend a b hr hm hs
    obtain ⟨hm1, hm2⟩ := metricsFree_cons op ops hm
    cases hf : isFork op with
    | true =>
      cases op with
      | forkBegin =>
        cases stk with
        | nil => exact ih [a] pend a b hr hm2 hs
        | cons c cs => exact ih (c :: c :: cs) pend a b hr hm2 hs
      | forkEnd =>
        cases stk with
        | nil => exact ih [] pend a b hr hm2 hs
        | cons c cs =>
          cases cs with
          | nil => exact ih [] pend a b hr hm2 hs
          | cons c' cs' => exact ih (c' :: cs') pend a b hr hm2 hs
      | _ => cases hf
    | false =>
      cases stk with
      | cons c cs =>
        have hs' : sublexOKAux (cs.length + 1) pend ops (exec E ((applyOp E c op).2 :: (cs ++ [a])) ops) = true := by
          have h0 : sublexOKAux (cs.length + 1) pend (op :: ops) (exec E (c :: (cs ++ [a])) (op :: ops)) = true := hs
          rw [exec_plain _ _ _ _ hf, sublexOKAux_plain _ _ _ _ _ _ hf, if_pos (Nat.succ_pos _)] at h0
          exact h0
        have := ih ((applyOp E c op).2 :: cs) pend a b hr hm2 hs'
        show deliveredAux (cs.length + 1) (op :: ops) (exec E (c :: (cs ++ [a])) (op :: ops)) =
            deliveredAux 0 (projectAux (cs.length + 1) (op :: ops))
              (exec E [b] (projectAux (cs.length + 1) (op :: ops)))
        rw [exec_plain _ _ _ _ hf, deliveredAux_plain _ _ _ _ _ hf, projectAux_pos _ _ _ hf]
        simpa using this
      | nil =>
        have h0 : sublexOKAux 0 pend (op :: ops) (exec E [a] (op :: ops)) = true := hs
        rw [exec_plain _ _ _ _ hf, sublexOKAux_plain _ _ _ _ _ _ hf, if_neg (Nat.lt_irrefl 0)] at h0
        show deliveredAux 0 (op :: ops) (exec E [a] (op :: ops)) =
            deliveredAux 0 (projectAux 0 (op :: ops)) (exec E [b] (projectAux 0 (op :: ops)))
        rw [exec_plain _ _ _ _ hf, deliveredAux_plain _ _ _ _ _ hf]
        cases hsub : isSublex op with
        | true =>
          rw [hsub, if_pos rfl] at h0
          have := ih [] true (applyOp E a op).2 b (op_mark ok hr op hsub) hm2 h0
          rw [projectAux_sublex _ _ _ hsub, sublex_not_advance _ hsub]
          simpa using this
        | false =>
          rw [hsub, if_neg (by simp)] at h0
          cases hl : isLook op with
          | true =>
            rw [look_not_filter _ hl, if_neg (by simp), consumes_of_not_advance _ _ (look_not_advance _ hl)] at h0
            have h0' : sublexOKAux 0 pend ops (exec E [(applyOp E a op).2] ops) = true := by
              simpa using h0
            have := ih [] pend (applyOp E a op).2 b (op_left ok hr op hl) hm2 h0'
            rw [projectAux_look _ _ _ hl, look_not_advance _ hl]
            simpa using this
          | false =>
            rw [projectAux_keep _ _ hf hsub hl, exec_plain _ _ _ _ hf, deliveredAux_plain _ _ _ _ _ hf]
            cases hfo : isFilterOp op with
            | true =>
              rw [hfo, if_pos rfl] at h0
              simp only [Bool.and_eq_true, Bool.not_eq_eq_eq_not, Bool.not_true] at h0
              obtain ⟨hp0, h0'⟩ := h0
              subst hp0
              have := ih [] false (applyOp E a op).2 (applyOp E b op).2 (op_filter ok hr op hfo) hm2 h0'
              rw [filter_not_advance _ hfo]
              simpa using this
            | false =>
              rw [hfo, if_neg (by simp)] at h0
              have hadv := advance_of_rest op hf hsub hm1 hl hfo
              obtain ⟨e1, e2, r2⟩ := op_adv ok fin hr op hadv
              have r2' : Rel E m len raw (!(pend && !consumes op (applyOp E a op).1))
                  (applyOp E a op).2 (applyOp E b op).2 := by
                refine r2.mono ?_
                cases pend <;> cases consumes op (applyOp E a op).1 <;> simp
              have := ih [] _ (applyOp E a op).2 (applyOp E b op).2 r2' hm2 h0
              rw [hadv]
              simp only [beq_self_eq_true, Bool.and_self, if_true]
              rw [e1, e2]
              exact congrArg _ this

/-! ### the projection is a plain advance-only history -/

theorem metricsFree_keep (op : Op τ) (ops : List (Op τ)) (h : isMetricsOp op = false) :
    metricsFree (op :: ops) = metricsFree ops := by
  cases op <;> first | rfl | exact Bool.noConfusion h

theorem metricsFree_projectAux : ∀ (ops : List (Op τ)) (d : Nat), metricsFree ops = true →
    metricsFree (projectAux d ops) = true := by
  intro ops
  induction ops with
  | nil => intro d _; rfl
  | cons op ops ih =>
    intro d hm
    obtain ⟨hm1, hm2⟩ := metricsFree_cons op ops hm
    cases hf : isFork op with
    | true =>
      cases op with
      | forkBegin => exact ih (d + 1) hm2
      | forkEnd => exact ih (d - 1) hm2
      | _ => cases hf
    | false =>
      cases d with
      | succ d => rw [projectAux_pos _ _ _ hf]; exact ih _ hm2
      | zero =>
        cases hsub : isSublex op with
        | true => rw [projectAux_sublex _ _ _ hsub]; exact ih _ hm2
        | false =>
          cases hl : isLook op with
          | true => rw [projectAux_look _ _ _ hl]; exact ih _ hm2
          | false => rw [projectAux_keep _ _ hf hsub hl, metricsFree_keep _ _ hm1]; exact ih _ hm2

theorem sublexFree_projectAux : ∀ (ops : List (Op τ)) (d : Nat), sublexFreeAux 0 (projectAux d ops) = true := by
  intro ops
  induction ops with
  | nil => intro d; rfl
  | cons op ops ih =>
    intro d
    cases hf : isFork op with
    | true =>
      cases op with
      | forkBegin => exact ih (d + 1)
      | forkEnd => exact ih (d - 1)
      | _ => cases hf
    | false =>
      cases d with
      | succ d => rw [projectAux_pos _ _ _ hf]; exact ih _
      | zero =>
        cases hsub : isSublex op with
        | true => rw [projectAux_sublex _ _ _ hsub]; exact ih _
        | false =>
          cases hl : isLook op with
          | true => rw [projectAux_look _ _ _ hl]; exact ih _
          | false =>
            rw [projectAux_keep _ _ hf hsub hl, sublexFreeAux_plain _ _ _ hf, hsub, ih]
            rfl

/-- a history without sub-lex marks outside forks satisfies the syntactic condition. -/
theorem syntactic_of_sublexFree : ∀ (ops : List (Op τ)) (d : Nat), sublexFreeAux d ops = true →
    noFilterAfterSublexAux d false ops = true := by
  intro ops
  induction ops with
  | nil => intro d _; rfl
  | cons op ops ih =>
    intro d h
    cases hf : isFork op with
    | true =>
      cases op with
      | forkBegin => exact ih (d + 1) h
      | forkEnd => exact ih (d - 1) h
      | _ => cases hf
    | false =>
      rw [sublexFreeAux_plain _ _ _ hf] at h
      rw [noFilterAfterSublexAux_plain _ _ _ _ hf]
      simp only [Bool.and_eq_true, Bool.or_eq_true, decide_eq_true_eq, Bool.not_eq_eq_eq_not, Bool.not_true] at h
      by_cases hd : d > 0
      · rw [if_pos hd]; exact ih d h.2
      · rw [if_neg hd]
        have hsub : isSublex op = false := by
          rcases h.1 with h1 | h1
          · exact absurd h1 hd
          · exact h1
        rw [hsub]
        simp only [Bool.false_eq_true, if_false]
        cases hfo : isFilterOp op with
        | true => simp only [if_true, Bool.not_false, Bool.true_and]; exact ih d h.2
        | false => simp only [Bool.false_eq_true, if_false]; exact ih d h.2

/-! ### the theorems -/

/-- Sub-lex marks are unobservable as long as no filter change follows one before a
token has been consumed. -/
theorem sublex_ (ok : ScanOK E m len) (fin : ScanFinal E m) (s0 : σ) (ops : List (Op τ))
    (hm : metricsFree ops = true) (hs : sublexOK ops (exec E [Lexer.new s0 m len] ops) = true) :
    delivered ops (exec E [Lexer.new s0 m len] ops) =
      delivered (project ops) (exec E [Lexer.new s0 m len] (project ops)) :=
  mainS (raw := rawAt E m len s0 Pos.zero) ok fin ops [] false _ _ (rel_new s0 _) hm hs

/-- … and every delivered token is a token of the raw stream, with its span. -/
theorem sublex_sequential (ok : ScanOK E m len) (fin : ScanFinal E m) (s0 : σ) (ops : List (Op τ))
    (hm : metricsFree ops = true) (hs : sublexOK ops (exec E [Lexer.new s0 m len] ops) = true) :
    ∀ x ∈ delivered ops (exec E [Lexer.new s0 m len] ops),
      SeqOK (rawFrom E.scan m (len + 1) s0 Pos.zero) x := by
  rw [sublex_ ok fin s0 ops hm hs]
  exact sequential ok fin s0 (project ops) (metricsFree_projectAux ops 0 hm) (sublexFree_projectAux ops 0)

theorem sublexOK_of_noFilterAfterSublex (ops : List (Op τ)) (obs : List (Out τ × Lexer σ τ))
    (h : noFilterAfterSublex ops = true) : sublexOK ops obs = true :=
  sublexOK_of_syntactic ops 0 false false obs (fun x => by cases x) h

theorem noFilterAfterSublex_of_sublexFree (ops : List (Op τ)) (h : sublexFree ops = true) :
    noFilterAfterSublex ops = true :=
  syntactic_of_sublexFree ops 0 h

/-! ### the signature of F19 as the test oracle computes it -/

/-- `deliveredTok` of `Fam.Lex.sublexThenFilter`: an advance whose answer is neither
"no token" nor `false`. -/
def oracleDelivered (op : Op τ) (o : Out τ) : Bool :=
  match o with
  | .tok none => false
  | .flag false => false
  | _ => isAdvance op

/-- `Fam.Lex.sublexThenFilter` on the model's own outputs. -/
def oracleSigAux : Nat → Bool → List (Op τ) → List (Out τ × Lexer σ τ) → Bool
  | _, _, [], _ => false
  | _, _, _ :: _, [] => false
  | depth, pending, op :: ops, o :: os =>
    match op with
    | .forkBegin => oracleSigAux (depth + 1) pending ops os
    | .forkEnd => oracleSigAux (depth - 1) pending ops os
    | _ =>
      if depth > 0 then oracleSigAux depth pending ops os
      else if isSublex op then oracleSigAux depth true ops os
      else if isFilterOp op then pending || oracleSigAux depth pending ops os
      else oracleSigAux depth (pending && !oracleDelivered op o.1) ops os

def oracleSig (ops : List (Op τ)) (obs : List (Out τ × Lexer σ τ)) : Bool := oracleSigAux 0 false ops obs

namespace Witness

/-- a lookahead, then a sub-lex mark, then an advance. -/
def opsS : List (Op Nat) := [.withFilter (some 0), .next, .peek, .startSublex, .next]

theorem S_ok : sublexOK opsS (exec ET [Lexer.new () mT 3] opsS) = true := by
  simp [opsS, sublexOK, sublexOKAux, isSublex, isFilterOp, exec, applyOp, Lexer.withFilter,
    Lexer.setFilter, Lexer.peek, Lexer.bufferNext, Lexer.bufferLoop, Lexer.next,
    Lexer.startSublex, Lexer.new, ET, scanT, Lexer.filtered, Pos.zero]

theorem S_full : delivered opsS (exec ET [Lexer.new () mT 3] opsS) =
    [(.tok (some 1), some ⟨⟨0, 0, 0⟩, ⟨1, 0, 1⟩⟩), (.tok (some 2), some ⟨⟨2, 0, 2⟩, ⟨3, 0, 3⟩⟩)] := by
  simp [opsS, LexOps.delivered, deliveredAux, exec, applyOp, Lexer.withFilter, Lexer.setFilter, Lexer.peek,
    Lexer.bufferNext, Lexer.bufferLoop, Lexer.next, Lexer.startSublex, Lexer.new, ET, scanT,
    Lexer.filtered, isAdvance, Pos.zero, Lexer.tokenSpan, Span.enclosing]

/-- a sub-lex mark, a consumed token, then a filter change: allowed (not covered by the
syntactic condition); the filter change takes effect, the `ws` token is delivered. -/
def opsS2 : List (Op Nat) := [.withFilter (some 0), .startSublex, .next, .setFilter none, .next, .next]

theorem S2_ok : sublexOK opsS2 (exec ET [Lexer.new () mT 3] opsS2) = true ∧
    noFilterAfterSublex opsS2 = false := by
  refine ⟨?_, rfl⟩
  simp [opsS2, sublexOK, sublexOKAux, isSublex, isFilterOp, consumes, exec, applyOp, Lexer.withFilter,
    Lexer.setFilter, Lexer.bufferNext, Lexer.bufferLoop, Lexer.next,
    Lexer.startSublex, Lexer.new, ET, scanT, Lexer.filtered, Pos.zero]

theorem S2_full : (delivered opsS2 (exec ET [Lexer.new () mT 3] opsS2)).map (·.1) =
    [.tok (some 1), .tok (some 0), .tok (some 2)] := by
  simp [opsS2, LexOps.delivered, deliveredAux, exec, applyOp, Lexer.withFilter, Lexer.setFilter,
    Lexer.bufferNext, Lexer.bufferLoop, Lexer.next, Lexer.nextLoop, Lexer.startSublex, Lexer.new, ET, scanT,
    Lexer.filtered, isAdvance, Pos.zero]

/-- `advance_up_to` answers `true` without consuming anything: the oracle's
signature of F19 does not flag this history, yet it exhibits F19. -/
def opsU : List (Op Nat) :=
  [.withFilter (some 0), .next, .startSublex, .advanceUpTo (fun t => t == 2), .setFilter none, .next]

theorem U_sig : oracleSig opsU (exec ET [Lexer.new () mT 3] opsU) = false ∧
    sublexOK opsU (exec ET [Lexer.new () mT 3] opsU) = false := by
  constructor <;>
  simp [opsU, oracleSig, oracleSigAux, oracleDelivered, sublexOK, sublexOKAux, isSublex, isFilterOp, consumes,
    isAdvance, exec, applyOp, Lexer.withFilter,
    Lexer.setFilter, Lexer.peek, Lexer.bufferNext, Lexer.bufferLoop, Lexer.next,
    Lexer.advanceUpTo, Lexer.startSublex, Lexer.new, ET, scanT, Lexer.filtered, Pos.zero]

theorem U_full : (delivered opsU (exec ET [Lexer.new () mT 3] opsU)).map (·.1) =
    [.tok (some 1), .flag true, .tok (some 2)] := by
  simp [opsU, LexOps.delivered, deliveredAux, exec, applyOp, Lexer.withFilter, Lexer.setFilter, Lexer.peek,
    Lexer.bufferNext, Lexer.bufferLoop, Lexer.next, Lexer.advanceUpTo, Lexer.startSublex,
    Lexer.new, ET, scanT, Lexer.filtered, isAdvance, Pos.zero]

theorem U_projected : (delivered (project opsU) (exec ET [Lexer.new () mT 3] (project opsU))).map (·.1) =
    [.tok (some 1), .flag true, .tok (some 0)] := by
  simp [opsU, project, projectAux, LexOps.delivered, deliveredAux, exec, applyOp, Lexer.withFilter,
    Lexer.setFilter, Lexer.peek, Lexer.bufferNext, Lexer.bufferLoop, Lexer.next,
    Lexer.advanceUpTo, Lexer.new, ET, scanT, Lexer.filtered, isAdvance, Pos.zero]

end Witness

end LexOpsProof
end Tephra
