/-
  TephraProofs.MeasureCanon — `measureText` (the `measure` of `lexEnv`, used by the repaired
  metrics builders) is the canonical position of the prefix it measures, and the position
  predicate `CanonCut` used to instantiate the lexer half of C03 with builders anywhere.

  `CanonCut t Q m p`: `p` is `Spec.canon m pre` for a cut `t = pre ++ suf` with `Q pre suf`.
  `Q` is a *metrics-independent* description of the offsets the scanner stops at
  (`fun _ _ => True`: any character boundary; `AlignedAll`: never between a CR and an LF).
  Metrics independence is what makes the predicate survive a change of metrics: an offset that is
  aligned for `lf` (every boundary is) need not be aligned for `crlf`.
-/
import TephraModel.Scan
import TephraProofs.Nav
import TephraProofs.LexInv

namespace Tephra
open Tephra.Spec

/-- `p` is the canonical position under `m` of a cut `t = pre ++ suf` satisfying `Q`. -/
def CanonCut (t : Text) (Q : Text → Text → Prop) (m : Metrics) (p : Pos) : Prop :=
  ∃ pre suf, t = pre ++ suf ∧ Q pre suf ∧ p = canon m pre

/-- The cut is aligned for every line-ending style, i.e. not between a CR and an LF. -/
def AlignedAll (pre suf : Text) : Prop := ∀ m, aligned m pre suf = true

namespace MeasureCanon

theorem splitAtByte_some : ∀ (t : Text) (b : Nat) (pre suf : Text),
    splitAtByte t b = some (pre, suf) → t = pre ++ suf ∧ bytes pre = b := by
  intro t b
  fun_induction splitAtByte t b with
  | case1 t => intro pre suf h; cases h; simp
  | case2 => intro pre suf h; cases h
  | case3 c rest b hle pre0 suf0 hs ih =>
    intro pre suf h
    cases h
    obtain ⟨h1, h2⟩ := ih _ _ hs
    simp [h1, h2]; omega
  | case4 => intro pre suf h; cases h
  | case5 => intro pre suf h; cases h

/-- `end_position` of a well-formed text from zero, unconditionally (no alignment involved). -/
theorem endPosition_zero (m : Metrics) (t : Text) (hwf : Text.WF t) :
    endPosition m t Pos.zero = .ok (canon m t) := by
  unfold endPosition
  by_cases h : bytes t ≤ Pos.zero.byte
  · have ht : t = [] := (bytes_eq_zero hwf).mp (by simp [Pos.zero] at h; exact h)
    subst ht
    simp
  · simp only [h, if_false]
    have : splitAtByte t Pos.zero.byte = some ([], t) := splitAtByte_zero t
    rw [this]
    simp [endSuf_eq_canonFrom m Pos.zero t hwf, canon]

/-- Byte offset `bytes pre` of `pre ++ suf` measured with `m` is the canonical position of `pre`
under `m`.  No alignment hypothesis: the prefix is measured on its own, so a CR that ends the
prefix is not (under `crlf`) a line ending even when `suf` starts with LF. -/
theorem measureText_cut (m : Metrics) (pre suf : Text) (hwf : Text.WF pre) :
    measureText (pre ++ suf) m (bytes pre) = canon m pre := by
  simp [measureText, splitAtByte_append (suf := suf) hwf, endPosition_zero m pre hwf]

/-- Re-measuring under any metrics keeps `CanonCut` (same cut, new metrics). -/
theorem canonCut_remeasure {σ τ} (E : LexEnv σ τ) (t : Text) (hwf : Text.WF t)
    (hE : E.measure = measureText t) (Q : Text → Text → Prop) (m m' : Metrics) (p : Pos)
    (h : CanonCut t Q m p) : CanonCut t Q m' (Lexer.remeasure E m' p) := by
  obtain ⟨pre, suf, rfl, hq, rfl⟩ := h
  refine ⟨pre, suf, rfl, hq, ?_⟩
  have hwp := (WF_append.mp hwf).1
  unfold Lexer.remeasure
  split
  · next hz =>
    rw [canon_byte] at hz
    have : pre = [] := (bytes_eq_zero hwp).mp hz
    subst this
    simp
  · rw [hE, canon_byte, measureText_cut m' pre suf hwp]

theorem canonCut_zero (t : Text) (Q : Text → Text → Prop) (hQ : Q [] t) (m : Metrics) :
    CanonCut t Q m Pos.zero := ⟨[], t, rfl, hQ, (canon_nil m).symm⟩

theorem alignedAll_nil (t : Text) : AlignedAll [] t := by
  intro m; unfold aligned; split <;> simp

/-- `Spec.isCanon` spelled out: `p` is the canonical position of a cut aligned for `m`. -/
theorem isCanon_iff (m : Metrics) (t : Text) (hwf : Text.WF t) (p : Pos) :
    isCanon m t p = true ↔ CanonCut t (fun pre suf => aligned m pre suf = true) m p := by
  unfold isCanon canonAt cutAt
  constructor
  · intro h
    cases hs : splitAtByte t p.byte with
    | none => simp [hs] at h
    | some ps =>
      obtain ⟨pre, suf⟩ := ps
      obtain ⟨h1, h2⟩ := splitAtByte_some _ _ _ _ hs
      simp only [hs] at h
      split at h
      · next ha => exact ⟨pre, suf, h1, ha, (by simpa using h : canon m pre = p).symm⟩
      · simp at h
  · rintro ⟨pre, suf, rfl, ha, rfl⟩
    simp [splitAtByte_append (suf := suf) (WF_append.mp hwf).1, ha]

/-- A cut aligned for every style is in particular `isCanon` for the metrics at hand. -/
theorem isCanon_of_alignedAll (m : Metrics) (t : Text) (hwf : Text.WF t) (p : Pos)
    (h : CanonCut t AlignedAll m p) : isCanon m t p = true := by
  obtain ⟨pre, suf, h1, ha, h2⟩ := h
  exact (isCanon_iff m t hwf p).mpr ⟨pre, suf, h1, ha m, h2⟩

end MeasureCanon
end Tephra
