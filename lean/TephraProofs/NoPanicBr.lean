/-
  TephraProofs.NoPanicBr — C01, interpreter part, with `bracket*`: under the scanner
  contract `ScanOK` and from a well-formed lexer, `run` never reaches a panic site
  on grammars within the documented preconditions, for the fragment of `G`
  without `text` and `list`.

  Additional panic sites covered (w.r.t. `NoPanic`): the bracket precondition
  check (non-empty, equal-length, disjoint slices) and the four `unwrap`s of
  `match_nested_brackets` (`matchLoop_no_panic`).
-/
import TephraProofs.TermRun
import TephraProofs.NoPanic

set_option linter.unusedVariables false

namespace Tephra.NoPanic
open Tephra Tephra.Term

variable {R : RunEnv} {m : Metrics} {len : Nat}

/-- the documented precondition of the bracket combinators. -/
def BrPre (opens closes : List Nat) : Prop :=
  (opens.isEmpty || closes.isEmpty || opens.length != closes.length || opens.any (closes.contains ·)) = false

/-- The fragment (everything but `text`, `list`) and its preconditions. -/
def Frag2 : G → Prop
  | .empty  => True
  | .one _ => True
  | .any ks => ks.isEmpty = false
  | .anyIndex ks => ks.isEmpty = false
  | .seq _ => True
  | .seqCount _ => True
  | .pred _ => True
  | .endOfText  => True
  | .left a b => Frag2 a ∧ Frag2 b
  | .right a b => Frag2 a ∧ Frag2 b
  | .both a b => Frag2 a ∧ Frag2 b
  | .center a b c => Frag2 a ∧ Frag2 b ∧ Frag2 c
  | .map a => Frag2 a
  | .discard a => Frag2 a
  | .either a b => Frag2 a ∧ Frag2 b
  | .maybe a => Frag2 a
  | .requireIf _ a => Frag2 a
  | .cond _ a => Frag2 a
  | .implies a b => Frag2 a ∧ Frag2 b
  | .antecedent a b => Frag2 a ∧ Frag2 b
  | .consequent a b => Frag2 a ∧ Frag2 b
  | .condImplies a _ b => Frag2 a ∧ Frag2 b
  | .filterWith _ a => Frag2 a
  | .unfiltered a => Frag2 a
  | .sub a => Frag2 a
  | .spanned a => Frag2 a
  | .text _ => False
  | .repeat_ _ lo hi a => hiBelow hi lo = false ∧ Frag2 a
  | .repeatUntil _ lo hi stop a => hiBelow hi lo = false ∧ Frag2 stop ∧ Frag2 a
  | .intersperse _ lo hi a sep => hiBelow hi lo = false ∧ Frag2 a ∧ Frag2 sep
  | .intersperseUntil _ lo hi stop a sep => hiBelow hi lo = false ∧ Frag2 stop ∧ Frag2 a ∧ Frag2 sep
  | .intersperseDefault lo hi a _ => hiBelow hi lo = false ∧ Frag2 a
  | .raw a => Frag2 a
  | .unrecoverable a => Frag2 a
  | .recover _ _ a _ => Frag2 a
  | .stabilize a => Frag2 a
  | .bracket _ opens a closes _ => BrPre opens closes ∧ Frag2 a
  | .list _ _ _ _ _ _ _ => False
  | .upTo a _ => Frag2 a
  | .probe _ => True
  | .ctxPushed _ a => Frag2 a
  | .ctxPush _ a => Frag2 a
  | .ctxLocked _ a => Frag2 a
  | .someOf a => Frag2 a

/-- The documented preconditions alone, on all of `G` (`text` and `list` included). -/
def Pre : G → Prop
  | .empty  => True
  | .one _ => True
  | .any ks => ks.isEmpty = false
  | .anyIndex ks => ks.isEmpty = false
  | .seq _ => True
  | .seqCount _ => True
  | .pred _ => True
  | .endOfText  => True
  | .left a b => Pre a ∧ Pre b
  | .right a b => Pre a ∧ Pre b
  | .both a b => Pre a ∧ Pre b
  | .center a b c => Pre a ∧ Pre b ∧ Pre c
  | .map a => Pre a
  | .discard a => Pre a
  | .either a b => Pre a ∧ Pre b
  | .maybe a => Pre a
  | .requireIf _ a => Pre a
  | .cond _ a => Pre a
  | .implies a b => Pre a ∧ Pre b
  | .antecedent a b => Pre a ∧ Pre b
  | .consequent a b => Pre a ∧ Pre b
  | .condImplies a _ b => Pre a ∧ Pre b
  | .filterWith _ a => Pre a
  | .unfiltered a => Pre a
  | .sub a => Pre a
  | .spanned a => Pre a
  | .text a => Pre a
  | .repeat_ _ lo hi a => hiBelow hi lo = false ∧ Pre a
  | .repeatUntil _ lo hi stop a => hiBelow hi lo = false ∧ Pre stop ∧ Pre a
  | .intersperse _ lo hi a sep => hiBelow hi lo = false ∧ Pre a ∧ Pre sep
  | .intersperseUntil _ lo hi stop a sep => hiBelow hi lo = false ∧ Pre stop ∧ Pre a ∧ Pre sep
  | .intersperseDefault lo hi a _ => hiBelow hi lo = false ∧ Pre a
  | .raw a => Pre a
  | .unrecoverable a => Pre a
  | .recover _ _ a _ => Pre a
  | .stabilize a => Pre a
  | .bracket _ opens a closes _ => BrPre opens closes ∧ Pre a
  | .list v _ lo hi a _ _ => (v % 2 = 0 ∨ hiBelow hi lo = false) ∧ Pre a
  | .upTo a _ => Pre a
  | .probe _ => True
  | .ctxPushed _ a => Pre a
  | .ctxPush _ a => Pre a
  | .ctxLocked _ a => Pre a
  | .someOf a => Pre a

theorem pre_of_frag2 : ∀ g, Frag2 g → Pre g := by
  intro g
  induction g <;> simp_all [Pre, Frag2]

theorem frag2_of_frag : ∀ g, Frag g → Frag2 g := by
  intro g
  induction g <;> simp_all [Frag, Frag2]

theorem peekTokenSpan_of_buf {lx : Lx} {b} (wf : WF m len lx) (hb : lx.buffer = some b) :
    ∃ s, lx.peekTokenSpan = some s := by
  have := wf.buf b hb
  unfold Lexer.peekTokenSpan
  rw [hb]
  have hne : b.peekStart ≠ b.peekCursor := by
    intro h; rw [h] at this; omega
  simp [hne]

theorem peekTokenSpan_of_peek (ok : ScanOK R.E m len) {lx lx' : Lx} {t} (wf : WF m len lx)
    (h : lx.peek R.E = (some t, lx')) : ∃ s, lx'.peekTokenSpan = some s := by
  have hp := peek_wf ok wf
  simp only [h] at hp
  obtain ⟨b, hb⟩ := peek_some_buf h
  exact peekTokenSpan_of_buf hp.1 hb

/-- `match_nested_brackets` does not hit its `unwrap`s: the open-bracket lexer is recorded
whenever a bracket is open, and every recorded / peeked lexer holds a lookahead token. -/
theorem matchLoop_no_panic (ok : ScanOK R.E m len) (opens closes abort : List Nat) (sp : Span) :
    ∀ n (lexer : Lx) ol opened, WF m len lexer →
      (opened ≠ [] → ol ≠ none) → (∀ l, ol = some l → ∃ s, l.peekTokenSpan = some s) →
      matchLoop R opens closes abort sp n lexer ol opened ≠ .panic := by
  intro n
  induction n with
  | zero => intro lexer ol opened _ _ _; simp [matchLoop]
  | succ n ih =>
    intro lexer ol opened wf h1 h2
    simp only [matchLoop]
    split
    · split
      · simp
      · next l =>
        obtain ⟨s, hs⟩ := h2 l rfl
        simp [hs]
    · next tok lexer' hp =>
      obtain ⟨s', hs'⟩ := peekTokenSpan_of_peek ok wf hp
      have hpw := peek_wf ok wf
      simp only [hp] at hpw
      have hn := next_wf ok hpw.1
      have ih' := fun ol' opened' => ih (lexer'.next R.E).2 ol' opened' hn.1
      split
      · next idx hpos =>
        split
        · simp [hs']
        · next t cnt rest =>
          have hol : ol ≠ none := h1 (by simp)
          obtain ⟨l, rfl⟩ : ∃ l, ol = some l := by
            cases ol with
            | none => exact absurd rfl hol
            | some l => exact ⟨l, rfl⟩
          obtain ⟨s, hs⟩ := h2 l rfl
          split
          · simp [hs, hs']
          · split
            · exact ih' _ _ (fun _ => by simp) h2
            · split
              · simp
              · next hre =>
                exact ih' _ _ (fun _ => by simp) h2
      · split
        · next idx hpos =>
          apply ih'
          · intro _
            cases ol <;> simp
          · intro l hl
            cases ol with
            | none => simp at hl; subst hl; exact ⟨s', hs'⟩
            | some l0 => simp at hl; subst hl; exact h2 _ rfl
        · split
          · simp [hs']
          · exact ih' _ _ h1 h2



/-- no panic at fuel `n` from well-formed lexers. -/
structure NpAt2 (R : RunEnv) (m : Metrics) (len : Nat) (n : Nat) : Prop where
  run : ∀ g lx ctx W, WF m len lx → Frag2 g → (run R n g lx ctx W).1 ≠ .panic
  recoverDefault : ∀ dv id r body lx ctx W, WF m len lx → Frag2 body →
    (recoverDefault R n dv id r body lx ctx W).1 ≠ .panic
  stabLoop : ∀ a lx ctx res W, WF m len lx → Frag2 a → res ≠ .panic → (stabLoop R n a lx ctx res W).1 ≠ .panic
  untilStart : ∀ lo hi stop a sep lx ctx W, WF m len lx → hiBelow hi lo = false → Frag2 stop → Frag2 a → Frag2 sep →
    (untilStart R n lo hi stop a sep lx ctx W).1 ≠ .panic
  untilLoop : ∀ lo hi stop a sep vals lx ctx W, WF m len lx → Frag2 stop → Frag2 a → Frag2 sep →
    (untilLoop R n lo hi stop a sep vals lx ctx W).1 ≠ .panic
  sepItem : ∀ a sep lx ctx W, WF m len lx → Frag2 a → Frag2 sep → (sepItem R n a sep lx ctx W).1 ≠ .panic
  interLoopStart : ∀ lo hi a sep lx ctx W, WF m len lx → hiBelow hi lo = false → Frag2 a → Frag2 sep →
    (interLoopStart R n lo hi a sep lx ctx W).1 ≠ .panic
  interLoop : ∀ lo hi a sep vals lx ctx W, WF m len lx → Frag2 a → Frag2 sep →
    (interLoop R n lo hi a sep vals lx ctx W).1 ≠ .panic

macro "np2_tac" : tactic => `(tactic|
  (first | done | ((repeat' split) <;> first | (simp; done) | grind [OkC_ok, Frag2])))

theorem run_np2_empty {n} (ok : ScanOK R.E m len) (ih : NpAt2 R m len n)  :
    ∀ lx ctx W, WF m len lx → Frag2 (.empty ) → (run R (n+1) (.empty ) lx ctx W).1 ≠ .panic := by
  obtain ⟨h1, h2, h3, h4, h5, h6, h7, h8⟩ := ih
  obtain ⟨c1, c2, c3, c4, c5, c6, c7, c8, c9, c10⟩ := cur_all ok n
  obtain ⟨f1, f2, f3, f4, f5, f6⟩ := lexFacts ok
  intro lx ctx W wf hf
  simp only [run, Frag2] at hf ⊢
  np2_tac

theorem run_np2_one {n} (ok : ScanOK R.E m len) (ih : NpAt2 R m len n) {k} :
    ∀ lx ctx W, WF m len lx → Frag2 (.one k) → (run R (n+1) (.one k) lx ctx W).1 ≠ .panic := by
  obtain ⟨h1, h2, h3, h4, h5, h6, h7, h8⟩ := ih
  obtain ⟨c1, c2, c3, c4, c5, c6, c7, c8, c9, c10⟩ := cur_all ok n
  obtain ⟨f1, f2, f3, f4, f5, f6⟩ := lexFacts ok
  intro lx ctx W wf hf
  simp only [run, Frag2] at hf ⊢
  np2_tac

theorem run_np2_any {n} (ok : ScanOK R.E m len) (ih : NpAt2 R m len n) {ks} :
    ∀ lx ctx W, WF m len lx → Frag2 (.any ks) → (run R (n+1) (.any ks) lx ctx W).1 ≠ .panic := by
  obtain ⟨h1, h2, h3, h4, h5, h6, h7, h8⟩ := ih
  obtain ⟨c1, c2, c3, c4, c5, c6, c7, c8, c9, c10⟩ := cur_all ok n
  obtain ⟨f1, f2, f3, f4, f5, f6⟩ := lexFacts ok
  intro lx ctx W wf hf
  simp only [run, Frag2] at hf ⊢
  np2_tac

theorem run_np2_anyIndex {n} (ok : ScanOK R.E m len) (ih : NpAt2 R m len n) {ks} :
    ∀ lx ctx W, WF m len lx → Frag2 (.anyIndex ks) → (run R (n+1) (.anyIndex ks) lx ctx W).1 ≠ .panic := by
  obtain ⟨h1, h2, h3, h4, h5, h6, h7, h8⟩ := ih
  obtain ⟨c1, c2, c3, c4, c5, c6, c7, c8, c9, c10⟩ := cur_all ok n
  obtain ⟨f1, f2, f3, f4, f5, f6⟩ := lexFacts ok
  intro lx ctx W wf hf
  simp only [run, Frag2] at hf ⊢
  np2_tac

theorem run_np2_seq {n} (ok : ScanOK R.E m len) (ih : NpAt2 R m len n) {ks} :
    ∀ lx ctx W, WF m len lx → Frag2 (.seq ks) → (run R (n+1) (.seq ks) lx ctx W).1 ≠ .panic := by
  obtain ⟨h1, h2, h3, h4, h5, h6, h7, h8⟩ := ih
  obtain ⟨c1, c2, c3, c4, c5, c6, c7, c8, c9, c10⟩ := cur_all ok n
  obtain ⟨f1, f2, f3, f4, f5, f6⟩ := lexFacts ok
  intro lx ctx W wf hf
  simp only [run]
  exact seqLoop_ne_panic _ _ _ _

theorem run_np2_seqCount {n} (ok : ScanOK R.E m len) (ih : NpAt2 R m len n) {ks} :
    ∀ lx ctx W, WF m len lx → Frag2 (.seqCount ks) → (run R (n+1) (.seqCount ks) lx ctx W).1 ≠ .panic := by
  obtain ⟨h1, h2, h3, h4, h5, h6, h7, h8⟩ := ih
  obtain ⟨c1, c2, c3, c4, c5, c6, c7, c8, c9, c10⟩ := cur_all ok n
  obtain ⟨f1, f2, f3, f4, f5, f6⟩ := lexFacts ok
  intro lx ctx W wf hf
  simp only [run]
  exact seqCountLoop_ne_panic _ _ _ _

theorem run_np2_pred {n} (ok : ScanOK R.E m len) (ih : NpAt2 R m len n) {p} :
    ∀ lx ctx W, WF m len lx → Frag2 (.pred p) → (run R (n+1) (.pred p) lx ctx W).1 ≠ .panic := by
  obtain ⟨h1, h2, h3, h4, h5, h6, h7, h8⟩ := ih
  obtain ⟨c1, c2, c3, c4, c5, c6, c7, c8, c9, c10⟩ := cur_all ok n
  obtain ⟨f1, f2, f3, f4, f5, f6⟩ := lexFacts ok
  intro lx ctx W wf hf
  simp only [run, Frag2] at hf ⊢
  np2_tac

theorem run_np2_endOfText {n} (ok : ScanOK R.E m len) (ih : NpAt2 R m len n)  :
    ∀ lx ctx W, WF m len lx → Frag2 (.endOfText ) → (run R (n+1) (.endOfText ) lx ctx W).1 ≠ .panic := by
  obtain ⟨h1, h2, h3, h4, h5, h6, h7, h8⟩ := ih
  obtain ⟨c1, c2, c3, c4, c5, c6, c7, c8, c9, c10⟩ := cur_all ok n
  obtain ⟨f1, f2, f3, f4, f5, f6⟩ := lexFacts ok
  intro lx ctx W wf hf
  simp only [run, Frag2] at hf ⊢
  np2_tac

theorem run_np2_left {n} (ok : ScanOK R.E m len) (ih : NpAt2 R m len n) {a b} :
    ∀ lx ctx W, WF m len lx → Frag2 (.left a b) → (run R (n+1) (.left a b) lx ctx W).1 ≠ .panic := by
  obtain ⟨h1, h2, h3, h4, h5, h6, h7, h8⟩ := ih
  obtain ⟨c1, c2, c3, c4, c5, c6, c7, c8, c9, c10⟩ := cur_all ok n
  obtain ⟨f1, f2, f3, f4, f5, f6⟩ := lexFacts ok
  intro lx ctx W wf hf
  simp only [run, Frag2] at hf ⊢
  np2_tac

theorem run_np2_right {n} (ok : ScanOK R.E m len) (ih : NpAt2 R m len n) {a b} :
    ∀ lx ctx W, WF m len lx → Frag2 (.right a b) → (run R (n+1) (.right a b) lx ctx W).1 ≠ .panic := by
  obtain ⟨h1, h2, h3, h4, h5, h6, h7, h8⟩ := ih
  obtain ⟨c1, c2, c3, c4, c5, c6, c7, c8, c9, c10⟩ := cur_all ok n
  obtain ⟨f1, f2, f3, f4, f5, f6⟩ := lexFacts ok
  intro lx ctx W wf hf
  simp only [run, Frag2] at hf ⊢
  np2_tac

theorem run_np2_both {n} (ok : ScanOK R.E m len) (ih : NpAt2 R m len n) {a b} :
    ∀ lx ctx W, WF m len lx → Frag2 (.both a b) → (run R (n+1) (.both a b) lx ctx W).1 ≠ .panic := by
  obtain ⟨h1, h2, h3, h4, h5, h6, h7, h8⟩ := ih
  obtain ⟨c1, c2, c3, c4, c5, c6, c7, c8, c9, c10⟩ := cur_all ok n
  obtain ⟨f1, f2, f3, f4, f5, f6⟩ := lexFacts ok
  intro lx ctx W wf hf
  simp only [run, Frag2] at hf ⊢
  np2_tac

theorem run_np2_center {n} (ok : ScanOK R.E m len) (ih : NpAt2 R m len n) {a b c} :
    ∀ lx ctx W, WF m len lx → Frag2 (.center a b c) → (run R (n+1) (.center a b c) lx ctx W).1 ≠ .panic := by
  obtain ⟨h1, h2, h3, h4, h5, h6, h7, h8⟩ := ih
  obtain ⟨c1, c2, c3, c4, c5, c6, c7, c8, c9, c10⟩ := cur_all ok n
  obtain ⟨f1, f2, f3, f4, f5, f6⟩ := lexFacts ok
  intro lx ctx W wf hf
  simp only [run, Frag2] at hf ⊢
  np2_tac

theorem run_np2_map {n} (ok : ScanOK R.E m len) (ih : NpAt2 R m len n) {a} :
    ∀ lx ctx W, WF m len lx → Frag2 (.map a) → (run R (n+1) (.map a) lx ctx W).1 ≠ .panic := by
  obtain ⟨h1, h2, h3, h4, h5, h6, h7, h8⟩ := ih
  obtain ⟨c1, c2, c3, c4, c5, c6, c7, c8, c9, c10⟩ := cur_all ok n
  obtain ⟨f1, f2, f3, f4, f5, f6⟩ := lexFacts ok
  intro lx ctx W wf hf
  simp only [run, Frag2] at hf ⊢
  np2_tac

theorem run_np2_discard {n} (ok : ScanOK R.E m len) (ih : NpAt2 R m len n) {a} :
    ∀ lx ctx W, WF m len lx → Frag2 (.discard a) → (run R (n+1) (.discard a) lx ctx W).1 ≠ .panic := by
  obtain ⟨h1, h2, h3, h4, h5, h6, h7, h8⟩ := ih
  obtain ⟨c1, c2, c3, c4, c5, c6, c7, c8, c9, c10⟩ := cur_all ok n
  obtain ⟨f1, f2, f3, f4, f5, f6⟩ := lexFacts ok
  intro lx ctx W wf hf
  simp only [run, Frag2] at hf ⊢
  np2_tac

theorem run_np2_either {n} (ok : ScanOK R.E m len) (ih : NpAt2 R m len n) {a b} :
    ∀ lx ctx W, WF m len lx → Frag2 (.either a b) → (run R (n+1) (.either a b) lx ctx W).1 ≠ .panic := by
  obtain ⟨h1, h2, h3, h4, h5, h6, h7, h8⟩ := ih
  obtain ⟨c1, c2, c3, c4, c5, c6, c7, c8, c9, c10⟩ := cur_all ok n
  obtain ⟨f1, f2, f3, f4, f5, f6⟩ := lexFacts ok
  intro lx ctx W wf hf
  simp only [run, Frag2] at hf ⊢
  np2_tac

theorem run_np2_maybe {n} (ok : ScanOK R.E m len) (ih : NpAt2 R m len n) {a} :
    ∀ lx ctx W, WF m len lx → Frag2 (.maybe a) → (run R (n+1) (.maybe a) lx ctx W).1 ≠ .panic := by
  obtain ⟨h1, h2, h3, h4, h5, h6, h7, h8⟩ := ih
  obtain ⟨c1, c2, c3, c4, c5, c6, c7, c8, c9, c10⟩ := cur_all ok n
  obtain ⟨f1, f2, f3, f4, f5, f6⟩ := lexFacts ok
  intro lx ctx W wf hf
  simp only [run, Frag2] at hf ⊢
  np2_tac

theorem run_np2_requireIf {n} (ok : ScanOK R.E m len) (ih : NpAt2 R m len n) {flag a} :
    ∀ lx ctx W, WF m len lx → Frag2 (.requireIf flag a) → (run R (n+1) (.requireIf flag a) lx ctx W).1 ≠ .panic := by
  obtain ⟨h1, h2, h3, h4, h5, h6, h7, h8⟩ := ih
  obtain ⟨c1, c2, c3, c4, c5, c6, c7, c8, c9, c10⟩ := cur_all ok n
  obtain ⟨f1, f2, f3, f4, f5, f6⟩ := lexFacts ok
  intro lx ctx W wf hf
  simp only [run, Frag2] at hf ⊢
  np2_tac

theorem run_np2_cond {n} (ok : ScanOK R.E m len) (ih : NpAt2 R m len n) {flag a} :
    ∀ lx ctx W, WF m len lx → Frag2 (.cond flag a) → (run R (n+1) (.cond flag a) lx ctx W).1 ≠ .panic := by
  obtain ⟨h1, h2, h3, h4, h5, h6, h7, h8⟩ := ih
  obtain ⟨c1, c2, c3, c4, c5, c6, c7, c8, c9, c10⟩ := cur_all ok n
  obtain ⟨f1, f2, f3, f4, f5, f6⟩ := lexFacts ok
  intro lx ctx W wf hf
  simp only [run, Frag2] at hf ⊢
  np2_tac

theorem run_np2_implies {n} (ok : ScanOK R.E m len) (ih : NpAt2 R m len n) {a b} :
    ∀ lx ctx W, WF m len lx → Frag2 (.implies a b) → (run R (n+1) (.implies a b) lx ctx W).1 ≠ .panic := by
  obtain ⟨h1, h2, h3, h4, h5, h6, h7, h8⟩ := ih
  obtain ⟨c1, c2, c3, c4, c5, c6, c7, c8, c9, c10⟩ := cur_all ok n
  obtain ⟨f1, f2, f3, f4, f5, f6⟩ := lexFacts ok
  intro lx ctx W wf hf
  simp only [run, Frag2] at hf ⊢
  np2_tac

theorem run_np2_antecedent {n} (ok : ScanOK R.E m len) (ih : NpAt2 R m len n) {a b} :
    ∀ lx ctx W, WF m len lx → Frag2 (.antecedent a b) → (run R (n+1) (.antecedent a b) lx ctx W).1 ≠ .panic := by
  obtain ⟨h1, h2, h3, h4, h5, h6, h7, h8⟩ := ih
  obtain ⟨c1, c2, c3, c4, c5, c6, c7, c8, c9, c10⟩ := cur_all ok n
  obtain ⟨f1, f2, f3, f4, f5, f6⟩ := lexFacts ok
  intro lx ctx W wf hf
  simp only [run, Frag2] at hf ⊢
  np2_tac

theorem run_np2_consequent {n} (ok : ScanOK R.E m len) (ih : NpAt2 R m len n) {a b} :
    ∀ lx ctx W, WF m len lx → Frag2 (.consequent a b) → (run R (n+1) (.consequent a b) lx ctx W).1 ≠ .panic := by
  obtain ⟨h1, h2, h3, h4, h5, h6, h7, h8⟩ := ih
  obtain ⟨c1, c2, c3, c4, c5, c6, c7, c8, c9, c10⟩ := cur_all ok n
  obtain ⟨f1, f2, f3, f4, f5, f6⟩ := lexFacts ok
  intro lx ctx W wf hf
  simp only [run, Frag2] at hf ⊢
  np2_tac

theorem run_np2_condImplies {n} (ok : ScanOK R.E m len) (ih : NpAt2 R m len n) {a k b} :
    ∀ lx ctx W, WF m len lx → Frag2 (.condImplies a k b) → (run R (n+1) (.condImplies a k b) lx ctx W).1 ≠ .panic := by
  obtain ⟨h1, h2, h3, h4, h5, h6, h7, h8⟩ := ih
  obtain ⟨c1, c2, c3, c4, c5, c6, c7, c8, c9, c10⟩ := cur_all ok n
  obtain ⟨f1, f2, f3, f4, f5, f6⟩ := lexFacts ok
  intro lx ctx W wf hf
  simp only [run, Frag2] at hf ⊢
  np2_tac

theorem run_np2_filterWith {n} (ok : ScanOK R.E m len) (ih : NpAt2 R m len n) {mask a} :
    ∀ lx ctx W, WF m len lx → Frag2 (.filterWith mask a) → (run R (n+1) (.filterWith mask a) lx ctx W).1 ≠ .panic := by
  obtain ⟨h1, h2, h3, h4, h5, h6, h7, h8⟩ := ih
  obtain ⟨c1, c2, c3, c4, c5, c6, c7, c8, c9, c10⟩ := cur_all ok n
  obtain ⟨f1, f2, f3, f4, f5, f6⟩ := lexFacts ok
  intro lx ctx W wf hf
  simp only [run, Frag2] at hf ⊢
  np2_tac

theorem run_np2_unfiltered {n} (ok : ScanOK R.E m len) (ih : NpAt2 R m len n) {a} :
    ∀ lx ctx W, WF m len lx → Frag2 (.unfiltered a) → (run R (n+1) (.unfiltered a) lx ctx W).1 ≠ .panic := by
  obtain ⟨h1, h2, h3, h4, h5, h6, h7, h8⟩ := ih
  obtain ⟨c1, c2, c3, c4, c5, c6, c7, c8, c9, c10⟩ := cur_all ok n
  obtain ⟨f1, f2, f3, f4, f5, f6⟩ := lexFacts ok
  intro lx ctx W wf hf
  simp only [run, Frag2] at hf ⊢
  np2_tac

theorem run_np2_sub {n} (ok : ScanOK R.E m len) (ih : NpAt2 R m len n) {a} :
    ∀ lx ctx W, WF m len lx → Frag2 (.sub a) → (run R (n+1) (.sub a) lx ctx W).1 ≠ .panic := by
  obtain ⟨h1, h2, h3, h4, h5, h6, h7, h8⟩ := ih
  obtain ⟨c1, c2, c3, c4, c5, c6, c7, c8, c9, c10⟩ := cur_all ok n
  obtain ⟨f1, f2, f3, f4, f5, f6⟩ := lexFacts ok
  intro lx ctx W wf hf
  simp only [run, Frag2] at hf ⊢
  np2_tac

theorem run_np2_spanned {n} (ok : ScanOK R.E m len) (ih : NpAt2 R m len n) {a} :
    ∀ lx ctx W, WF m len lx → Frag2 (.spanned a) → (run R (n+1) (.spanned a) lx ctx W).1 ≠ .panic := by
  obtain ⟨h1, h2, h3, h4, h5, h6, h7, h8⟩ := ih
  obtain ⟨c1, c2, c3, c4, c5, c6, c7, c8, c9, c10⟩ := cur_all ok n
  obtain ⟨f1, f2, f3, f4, f5, f6⟩ := lexFacts ok
  intro lx ctx W wf hf
  simp only [run, Frag2] at hf ⊢
  np2_tac

theorem run_np2_text {n} (ok : ScanOK R.E m len) (ih : NpAt2 R m len n) {a} :
    ∀ lx ctx W, WF m len lx → Frag2 (.text a) → (run R (n+1) (.text a) lx ctx W).1 ≠ .panic := by
  obtain ⟨h1, h2, h3, h4, h5, h6, h7, h8⟩ := ih
  obtain ⟨c1, c2, c3, c4, c5, c6, c7, c8, c9, c10⟩ := cur_all ok n
  obtain ⟨f1, f2, f3, f4, f5, f6⟩ := lexFacts ok
  intro lx ctx W wf hf
  simp only [Frag2] at hf

theorem run_np2_repeat_ {n} (ok : ScanOK R.E m len) (ih : NpAt2 R m len n) {v lo hi a} :
    ∀ lx ctx W, WF m len lx → Frag2 (.repeat_ v lo hi a) → (run R (n+1) (.repeat_ v lo hi a) lx ctx W).1 ≠ .panic := by
  obtain ⟨h1, h2, h3, h4, h5, h6, h7, h8⟩ := ih
  obtain ⟨c1, c2, c3, c4, c5, c6, c7, c8, c9, c10⟩ := cur_all ok n
  obtain ⟨f1, f2, f3, f4, f5, f6⟩ := lexFacts ok
  intro lx ctx W wf hf
  simp only [run, Frag2] at hf ⊢
  exact countOf_ne_panic (h7 _ _ _ _ _ _ _ wf hf.1 hf.2 trivial)

theorem run_np2_repeatUntil {n} (ok : ScanOK R.E m len) (ih : NpAt2 R m len n) {v lo hi stop a} :
    ∀ lx ctx W, WF m len lx → Frag2 (.repeatUntil v lo hi stop a) → (run R (n+1) (.repeatUntil v lo hi stop a) lx ctx W).1 ≠ .panic := by
  obtain ⟨h1, h2, h3, h4, h5, h6, h7, h8⟩ := ih
  obtain ⟨c1, c2, c3, c4, c5, c6, c7, c8, c9, c10⟩ := cur_all ok n
  obtain ⟨f1, f2, f3, f4, f5, f6⟩ := lexFacts ok
  intro lx ctx W wf hf
  simp only [run, Frag2] at hf ⊢
  exact countOf_ne_panic (h4 _ _ _ _ _ _ _ _ wf hf.1 hf.2.1 hf.2.2 trivial)

theorem run_np2_intersperse {n} (ok : ScanOK R.E m len) (ih : NpAt2 R m len n) {v lo hi a sep} :
    ∀ lx ctx W, WF m len lx → Frag2 (.intersperse v lo hi a sep) → (run R (n+1) (.intersperse v lo hi a sep) lx ctx W).1 ≠ .panic := by
  obtain ⟨h1, h2, h3, h4, h5, h6, h7, h8⟩ := ih
  obtain ⟨c1, c2, c3, c4, c5, c6, c7, c8, c9, c10⟩ := cur_all ok n
  obtain ⟨f1, f2, f3, f4, f5, f6⟩ := lexFacts ok
  intro lx ctx W wf hf
  simp only [run, Frag2] at hf ⊢
  exact countOf_ne_panic (h7 _ _ _ _ _ _ _ wf hf.1 hf.2.1 hf.2.2)

theorem run_np2_intersperseUntil {n} (ok : ScanOK R.E m len) (ih : NpAt2 R m len n) {v lo hi stop a sep} :
    ∀ lx ctx W, WF m len lx → Frag2 (.intersperseUntil v lo hi stop a sep) → (run R (n+1) (.intersperseUntil v lo hi stop a sep) lx ctx W).1 ≠ .panic := by
  obtain ⟨h1, h2, h3, h4, h5, h6, h7, h8⟩ := ih
  obtain ⟨c1, c2, c3, c4, c5, c6, c7, c8, c9, c10⟩ := cur_all ok n
  obtain ⟨f1, f2, f3, f4, f5, f6⟩ := lexFacts ok
  intro lx ctx W wf hf
  simp only [run, Frag2] at hf ⊢
  exact countOf_ne_panic (h4 _ _ _ _ _ _ _ _ wf hf.1 hf.2.1 hf.2.2.1 hf.2.2.2)

theorem run_np2_intersperseDefault {n} (ok : ScanOK R.E m len) (ih : NpAt2 R m len n) {lo hi a sepk} :
    ∀ lx ctx W, WF m len lx → Frag2 (.intersperseDefault lo hi a sepk) → (run R (n+1) (.intersperseDefault lo hi a sepk) lx ctx W).1 ≠ .panic := by
  obtain ⟨h1, h2, h3, h4, h5, h6, h7, h8⟩ := ih
  obtain ⟨c1, c2, c3, c4, c5, c6, c7, c8, c9, c10⟩ := cur_all ok n
  obtain ⟨f1, f2, f3, f4, f5, f6⟩ := lexFacts ok
  intro lx ctx W wf hf
  simp only [run, Frag2] at hf ⊢
  exact h7 _ _ _ _ _ _ _ wf hf.1 hf.2 (by simp [Frag2])

theorem run_np2_raw {n} (ok : ScanOK R.E m len) (ih : NpAt2 R m len n) {a} :
    ∀ lx ctx W, WF m len lx → Frag2 (.raw a) → (run R (n+1) (.raw a) lx ctx W).1 ≠ .panic := by
  obtain ⟨h1, h2, h3, h4, h5, h6, h7, h8⟩ := ih
  obtain ⟨c1, c2, c3, c4, c5, c6, c7, c8, c9, c10⟩ := cur_all ok n
  obtain ⟨f1, f2, f3, f4, f5, f6⟩ := lexFacts ok
  intro lx ctx W wf hf
  simp only [run, Frag2] at hf ⊢
  np2_tac

theorem run_np2_unrecoverable {n} (ok : ScanOK R.E m len) (ih : NpAt2 R m len n) {a} :
    ∀ lx ctx W, WF m len lx → Frag2 (.unrecoverable a) → (run R (n+1) (.unrecoverable a) lx ctx W).1 ≠ .panic := by
  obtain ⟨h1, h2, h3, h4, h5, h6, h7, h8⟩ := ih
  obtain ⟨c1, c2, c3, c4, c5, c6, c7, c8, c9, c10⟩ := cur_all ok n
  obtain ⟨f1, f2, f3, f4, f5, f6⟩ := lexFacts ok
  intro lx ctx W wf hf
  simp only [run, Frag2] at hf ⊢
  np2_tac

theorem run_np2_recover {n} (ok : ScanOK R.E m len) (ih : NpAt2 R m len n) {v id a r} :
    ∀ lx ctx W, WF m len lx → Frag2 (.recover v id a r) → (run R (n+1) (.recover v id a r) lx ctx W).1 ≠ .panic := by
  obtain ⟨h1, h2, h3, h4, h5, h6, h7, h8⟩ := ih
  obtain ⟨c1, c2, c3, c4, c5, c6, c7, c8, c9, c10⟩ := cur_all ok n
  obtain ⟨f1, f2, f3, f4, f5, f6⟩ := lexFacts ok
  intro lx ctx W wf hf
  simp only [run, Frag2] at hf ⊢
  split
  · exact h2 _ _ _ _ _ _ _ wf (by simpa [Frag2] using hf)
  · exact h2 _ _ _ _ _ _ _ wf hf

theorem run_np2_stabilize {n} (ok : ScanOK R.E m len) (ih : NpAt2 R m len n) {a} :
    ∀ lx ctx W, WF m len lx → Frag2 (.stabilize a) → (run R (n+1) (.stabilize a) lx ctx W).1 ≠ .panic := by
  obtain ⟨h1, h2, h3, h4, h5, h6, h7, h8⟩ := ih
  obtain ⟨c1, c2, c3, c4, c5, c6, c7, c8, c9, c10⟩ := cur_all ok n
  obtain ⟨f1, f2, f3, f4, f5, f6⟩ := lexFacts ok
  intro lx ctx W wf hf
  simp only [run, Frag2] at hf ⊢
  exact h3 _ _ _ _ _ wf hf (h1 _ _ _ _ wf hf)

theorem run_np2_bracket {n} (ok : ScanOK R.E m len) (ih : NpAt2 R m len n) {v opens a closes abort} :
    ∀ lx ctx W, WF m len lx → Frag2 (.bracket v opens a closes abort) → (run R (n+1) (.bracket v opens a closes abort) lx ctx W).1 ≠ .panic := by
  obtain ⟨h1, h2, h3, h4, h5, h6, h7, h8⟩ := ih
  obtain ⟨c1, c2, c3, c4, c5, c6, c7, c8, c9, c10⟩ := cur_all ok n
  obtain ⟨f1, f2, f3, f4, f5, f6⟩ := lexFacts ok
  intro lx ctx W wf hf
  simp only [run, Frag2] at hf ⊢
  obtain ⟨hpre, hfa⟩ := hf
  unfold BrPre at hpre
  rw [if_neg (by rw [hpre]; simp)]
  have hml := matchLoop_no_panic ok opens closes abort (Span.at_ lx.cursor) (lx.len + 2) lx none [] wf
    (fun h => absurd rfl h) (fun l hl => nomatch hl)
  split
  · simp
  · next hp => exact absurd hp hml
  · simp
  · next o c idx hm =>
    have hm' := matchLoop_cur ok opens closes abort _ lx _ lx none [] o c idx wf (Nat.le_refl _)
      (fun l hl => nomatch hl) hm
    have wfi : WF m len ((o.next R.E).2.intoSublexer R.E) := (f4 _ (f1 o hm'.1).1).1
    have hb : (run R n (if (v % 2 == 0) = true then a.someOf else a) ((o.next R.E).2.intoSublexer R.E) ctx W).1 ≠
        .panic := by
      split
      · exact h1 _ _ _ _ wfi (by simpa [Frag2] using hfa)
      · exact h1 _ _ _ _ wfi hfa
    (repeat' split) <;> first | (simp; done) | exact hb | (simp_all; done)

theorem run_np2_list {n} (ok : ScanOK R.E m len) (ih : NpAt2 R m len n) {v id lo hi a sep abort} :
    ∀ lx ctx W, WF m len lx → Frag2 (.list v id lo hi a sep abort) → (run R (n+1) (.list v id lo hi a sep abort) lx ctx W).1 ≠ .panic := by
  obtain ⟨h1, h2, h3, h4, h5, h6, h7, h8⟩ := ih
  obtain ⟨c1, c2, c3, c4, c5, c6, c7, c8, c9, c10⟩ := cur_all ok n
  obtain ⟨f1, f2, f3, f4, f5, f6⟩ := lexFacts ok
  intro lx ctx W wf hf
  simp only [Frag2] at hf

theorem run_np2_upTo {n} (ok : ScanOK R.E m len) (ih : NpAt2 R m len n) {a abort} :
    ∀ lx ctx W, WF m len lx → Frag2 (.upTo a abort) → (run R (n+1) (.upTo a abort) lx ctx W).1 ≠ .panic := by
  obtain ⟨h1, h2, h3, h4, h5, h6, h7, h8⟩ := ih
  obtain ⟨c1, c2, c3, c4, c5, c6, c7, c8, c9, c10⟩ := cur_all ok n
  obtain ⟨f1, f2, f3, f4, f5, f6⟩ := lexFacts ok
  intro lx ctx W wf hf
  simp only [run, Frag2] at hf ⊢
  np2_tac

theorem run_np2_probe {n} (ok : ScanOK R.E m len) (ih : NpAt2 R m len n) {tag} :
    ∀ lx ctx W, WF m len lx → Frag2 (.probe tag) → (run R (n+1) (.probe tag) lx ctx W).1 ≠ .panic := by
  obtain ⟨h1, h2, h3, h4, h5, h6, h7, h8⟩ := ih
  obtain ⟨c1, c2, c3, c4, c5, c6, c7, c8, c9, c10⟩ := cur_all ok n
  obtain ⟨f1, f2, f3, f4, f5, f6⟩ := lexFacts ok
  intro lx ctx W wf hf
  simp only [run, Frag2] at hf ⊢
  np2_tac

theorem run_np2_ctxPushed {n} (ok : ScanOK R.E m len) (ih : NpAt2 R m len n) {tag a} :
    ∀ lx ctx W, WF m len lx → Frag2 (.ctxPushed tag a) → (run R (n+1) (.ctxPushed tag a) lx ctx W).1 ≠ .panic := by
  obtain ⟨h1, h2, h3, h4, h5, h6, h7, h8⟩ := ih
  obtain ⟨c1, c2, c3, c4, c5, c6, c7, c8, c9, c10⟩ := cur_all ok n
  obtain ⟨f1, f2, f3, f4, f5, f6⟩ := lexFacts ok
  intro lx ctx W wf hf
  simp only [run, Frag2] at hf ⊢
  np2_tac

theorem run_np2_ctxPush {n} (ok : ScanOK R.E m len) (ih : NpAt2 R m len n) {tag a} :
    ∀ lx ctx W, WF m len lx → Frag2 (.ctxPush tag a) → (run R (n+1) (.ctxPush tag a) lx ctx W).1 ≠ .panic := by
  obtain ⟨h1, h2, h3, h4, h5, h6, h7, h8⟩ := ih
  obtain ⟨c1, c2, c3, c4, c5, c6, c7, c8, c9, c10⟩ := cur_all ok n
  obtain ⟨f1, f2, f3, f4, f5, f6⟩ := lexFacts ok
  intro lx ctx W wf hf
  simp only [run, Frag2] at hf ⊢
  np2_tac

theorem run_np2_ctxLocked {n} (ok : ScanOK R.E m len) (ih : NpAt2 R m len n) {flag a} :
    ∀ lx ctx W, WF m len lx → Frag2 (.ctxLocked flag a) → (run R (n+1) (.ctxLocked flag a) lx ctx W).1 ≠ .panic := by
  obtain ⟨h1, h2, h3, h4, h5, h6, h7, h8⟩ := ih
  obtain ⟨c1, c2, c3, c4, c5, c6, c7, c8, c9, c10⟩ := cur_all ok n
  obtain ⟨f1, f2, f3, f4, f5, f6⟩ := lexFacts ok
  intro lx ctx W wf hf
  simp only [run, Frag2] at hf ⊢
  np2_tac

theorem run_np2_someOf {n} (ok : ScanOK R.E m len) (ih : NpAt2 R m len n) {a} :
    ∀ lx ctx W, WF m len lx → Frag2 (.someOf a) → (run R (n+1) (.someOf a) lx ctx W).1 ≠ .panic := by
  obtain ⟨h1, h2, h3, h4, h5, h6, h7, h8⟩ := ih
  obtain ⟨c1, c2, c3, c4, c5, c6, c7, c8, c9, c10⟩ := cur_all ok n
  obtain ⟨f1, f2, f3, f4, f5, f6⟩ := lexFacts ok
  intro lx ctx W wf hf
  simp only [run, Frag2] at hf ⊢
  np2_tac

theorem run_np2 {n} (ok : ScanOK R.E m len) (ih : NpAt2 R m len n) : ∀ g lx ctx W, WF m len lx → Frag2 g →
    (run R (n+1) g lx ctx W).1 ≠ .panic := by
  intro g
  cases g
  · exact run_np2_empty ok ih
  · exact run_np2_one ok ih
  · exact run_np2_any ok ih
  · exact run_np2_anyIndex ok ih
  · exact run_np2_seq ok ih
  · exact run_np2_seqCount ok ih
  · exact run_np2_pred ok ih
  · exact run_np2_endOfText ok ih
  · exact run_np2_left ok ih
  · exact run_np2_right ok ih
  · exact run_np2_both ok ih
  · exact run_np2_center ok ih
  · exact run_np2_map ok ih
  · exact run_np2_discard ok ih
  · exact run_np2_either ok ih
  · exact run_np2_maybe ok ih
  · exact run_np2_requireIf ok ih
  · exact run_np2_cond ok ih
  · exact run_np2_implies ok ih
  · exact run_np2_antecedent ok ih
  · exact run_np2_consequent ok ih
  · exact run_np2_condImplies ok ih
  · exact run_np2_filterWith ok ih
  · exact run_np2_unfiltered ok ih
  · exact run_np2_sub ok ih
  · exact run_np2_spanned ok ih
  · exact run_np2_text ok ih
  · exact run_np2_repeat_ ok ih
  · exact run_np2_repeatUntil ok ih
  · exact run_np2_intersperse ok ih
  · exact run_np2_intersperseUntil ok ih
  · exact run_np2_intersperseDefault ok ih
  · exact run_np2_raw ok ih
  · exact run_np2_unrecoverable ok ih
  · exact run_np2_recover ok ih
  · exact run_np2_stabilize ok ih
  · exact run_np2_bracket ok ih
  · exact run_np2_list ok ih
  · exact run_np2_upTo ok ih
  · exact run_np2_probe ok ih
  · exact run_np2_ctxPushed ok ih
  · exact run_np2_ctxPush ok ih
  · exact run_np2_ctxLocked ok ih
  · exact run_np2_someOf ok ih

theorem recoverDefault_np2 {n} (ok : ScanOK R.E m len) (ih : NpAt2 R m len n) : ∀ dv id r body lx ctx W,
    WF m len lx → Frag2 body → (recoverDefault R (n+1) dv id r body lx ctx W).1 ≠ .panic := by
  obtain ⟨h1, h2, h3, h4, h5, h6, h7, h8⟩ := ih
  intro dv id r body lx ctx W wf hf
  simp only [recoverDefault]
  np2_tac

theorem stabLoop_np2 {n} (ok : ScanOK R.E m len) (ih : NpAt2 R m len n) : ∀ a lx ctx res W, WF m len lx → Frag2 a →
    res ≠ .panic → (stabLoop R (n+1) a lx ctx res W).1 ≠ .panic := by
  obtain ⟨h1, h2, h3, h4, h5, h6, h7, h8⟩ := ih
  intro a lx ctx res W wf hf hres
  cases res with
  | ok v l => simp [stabLoop]
  | fuel => simp [stabLoop]
  | panic => exact absurd rfl hres
  | err e =>
    simp only [stabLoop]
    split
    · next lx1 W1 hadv =>
      have ha := advanceToRecover_wf ok wf hadv
      split
      · simp
      · exact h3 _ _ _ _ _ ha.1 hf (h1 (.unrecoverable a) _ _ _ ha.1 (by simpa [Frag2] using hf))
    · simp

theorem sepItem_np2 {n} (ok : ScanOK R.E m len) (ih : NpAt2 R m len n) : ∀ a sep lx ctx W, WF m len lx →
    Frag2 a → Frag2 sep → (sepItem R (n+1) a sep lx ctx W).1 ≠ .panic := by
  obtain ⟨h1, h2, h3, h4, h5, h6, h7, h8⟩ := ih
  obtain ⟨c1, c2, c3, c4, c5, c6, c7, c8, c9, c10⟩ := cur_all ok n
  intro a sep lx ctx W wf hfa hfs
  simp only [sepItem]
  np2_tac

theorem interLoopStart_np2 {n} (ok : ScanOK R.E m len) (ih : NpAt2 R m len n) : ∀ lo hi a sep lx ctx W,
    WF m len lx → hiBelow hi lo = false → Frag2 a → Frag2 sep →
    (interLoopStart R (n+1) lo hi a sep lx ctx W).1 ≠ .panic := by
  obtain ⟨h1, h2, h3, h4, h5, h6, h7, h8⟩ := ih
  obtain ⟨c1, c2, c3, c4, c5, c6, c7, c8, c9, c10⟩ := cur_all ok n
  intro lo hi a sep lx ctx W wf hb hfa hfs
  simp only [interLoopStart, hb]
  np2_tac

theorem interLoop_np2 {n} (ok : ScanOK R.E m len) (ih : NpAt2 R m len n) : ∀ lo hi a sep vals lx ctx W,
    WF m len lx → Frag2 a → Frag2 sep → (interLoop R (n+1) lo hi a sep vals lx ctx W).1 ≠ .panic := by
  obtain ⟨h1, h2, h3, h4, h5, h6, h7, h8⟩ := ih
  obtain ⟨c1, c2, c3, c4, c5, c6, c7, c8, c9, c10⟩ := cur_all ok n
  intro lo hi a sep vals lx ctx W wf hfa hfs
  simp only [interLoop]
  np2_tac

theorem untilStart_np2 {n} (ok : ScanOK R.E m len) (ih : NpAt2 R m len n) : ∀ lo hi stop a sep lx ctx W,
    WF m len lx → hiBelow hi lo = false → Frag2 stop → Frag2 a → Frag2 sep →
    (untilStart R (n+1) lo hi stop a sep lx ctx W).1 ≠ .panic := by
  obtain ⟨h1, h2, h3, h4, h5, h6, h7, h8⟩ := ih
  obtain ⟨c1, c2, c3, c4, c5, c6, c7, c8, c9, c10⟩ := cur_all ok n
  intro lo hi stop a sep lx ctx W wf hb hft hfa hfs
  simp only [untilStart, hb]
  np2_tac

theorem untilLoop_np2 {n} (ok : ScanOK R.E m len) (ih : NpAt2 R m len n) : ∀ lo hi stop a sep vals lx ctx W,
    WF m len lx → Frag2 stop → Frag2 a → Frag2 sep →
    (untilLoop R (n+1) lo hi stop a sep vals lx ctx W).1 ≠ .panic := by
  obtain ⟨h1, h2, h3, h4, h5, h6, h7, h8⟩ := ih
  obtain ⟨c1, c2, c3, c4, c5, c6, c7, c8, c9, c10⟩ := cur_all ok n
  intro lo hi stop a sep vals lx ctx W wf hft hfa hfs
  simp only [untilLoop]
  np2_tac

theorem np2_step {n} (ok : ScanOK R.E m len) (ih : NpAt2 R m len n) : NpAt2 R m len (n+1) :=
  ⟨run_np2 ok ih, recoverDefault_np2 ok ih, stabLoop_np2 ok ih, untilStart_np2 ok ih, untilLoop_np2 ok ih,
   sepItem_np2 ok ih, interLoopStart_np2 ok ih, interLoop_np2 ok ih⟩

theorem np2_zero : NpAt2 R m len 0 := by
  constructor <;> intros <;> simp [run, recoverDefault, stabLoop, untilStart, untilLoop, sepItem, interLoopStart,
    interLoop]

theorem np2_all (ok : ScanOK R.E m len) : ∀ n, NpAt2 R m len n := by
  intro n
  induction n with
  | zero => exact np2_zero
  | succ n ih => exact np2_step ok ih

/-- `run` does not panic on the fragment with brackets, within preconditions. -/
theorem run_no_panic_br (ok : ScanOK R.E m len) (n : Nat) (g : G) (lx : Lx) (ctx : Ctx) (W : World)
    (wf : WF m len lx) (hf : Frag2 g) : (run R n g lx ctx W).1 ≠ .panic :=
  (np2_all ok n).run g lx ctx W wf hf

end Tephra.NoPanic
