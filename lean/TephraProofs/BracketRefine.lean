/-
  TephraProofs.BracketRefine — C10: the run-length-compressed bracket stack of
  `match_nested_brackets` (model: `matchLoop`) refines the plain stack of
  `Spec.refMatch`.

  Part A (pure): `rleLoop` mirrors the stack logic of `matchLoop` over a list of
  token kinds; `rleLoop_refines` shows it classifies exactly as `refMatchLoop`.
  Part B: `matchLoop` on a lexer equals `rleLoop` on the kinds of the lexer's
  remaining filtered stream.
-/
import TephraModel.Run
import TephraModel.Spec.Bracket
import TephraProofs.LexIter

namespace Tephra.BracketRefine
open Tephra Tephra.Spec

/-! ## Part A — the pure RLE loop -/

/-- Result of the pure RLE loop.  Indices are indices into the filtered token
stream, recorded exactly where `matchLoop` records lexers / spans:
`found iOpen iClose kind` (the *first* open bracket, the close bracket),
`mismatch iOpen0 i` (the first open bracket, the offending close bracket).
`panic` = an `unwrap` of `open_lexer` while it is `None`. -/
inductive RleRes where
  | found (iOpen iClose kind : Nat)
  | noneFound (i : Option Nat)
  | unopened (i : Nat)
  | unclosed (iOpen0 : Nat)
  | mismatch (iOpen0 i : Nat)
  | panic
deriving Repr, DecidableEq

/-- `opened.push` logic of the open branch. -/
def rlePush (idx : Nat) : List (Nat × Nat) → List (Nat × Nat)
  | [] => [(idx, 1)]
  | (t, cnt) :: rest => if t != idx then (idx, 1) :: (t, cnt) :: rest else (t, cnt + 1) :: rest

/-- The stack logic of `matchLoop`, over token kinds; `opened` is the RLE stack
(innermost first), `first` the index of the first open bracket. -/
def rleLoop (opens closes abort : List Nat) :
    List Nat → Nat → List (Nat × Nat) → Option Nat → RleRes
  | [], _, _, none => .noneFound none
  | [], _, _, some i0 => .unclosed i0
  | k :: ks, i, opened, first =>
    match position closes k with
    | some idx =>
      match opened with
      | [] => .unopened i
      | (t, cnt) :: rest =>
        if t != idx then
          match first with
          | some a => .mismatch a i
          | none => .panic
        else if cnt > 1 then rleLoop opens closes abort ks (i + 1) ((t, cnt - 1) :: rest) first
        else if rest.isEmpty then
          match first with
          | some o => .found o i idx
          | none => .panic
        else rleLoop opens closes abort ks (i + 1) rest first
    | none =>
      match position opens k with
      | some idx =>
        let first' := match first with
          | none => some i
          | some o => some o
        rleLoop opens closes abort ks (i + 1) (rlePush idx opened) first'
      | none =>
        if abort.contains k && first.isNone then .noneFound (some i)
        else rleLoop opens closes abort ks (i + 1) opened first

/-- Forget the `iOpenTop` component of `mismatch` (which `match_nested_brackets`
does not report). -/
def ofRef : MatchRef → RleRes
  | .matched a b k => .found a b k
  | .noneFound i => .noneFound i
  | .unopened i => .unopened i
  | .unclosed a => .unclosed a
  | .mismatch a _ i => .mismatch a i

/-- Expansion of an RLE stack: `c₁` copies of `k₁`, then `c₂` copies of `k₂`, … -/
def expand : List (Nat × Nat) → List Nat
  | [] => []
  | (k, c) :: rest => List.replicate c k ++ expand rest

/-- adjacent RLE entries have different kinds -/
def adjOK : List (Nat × Nat) → Prop
  | [] => True
  | [_] => True
  | a :: b :: rest => a.1 ≠ b.1 ∧ adjOK (b :: rest)

/-- The refinement invariant between the RLE stack and the plain stack. -/
structure RleInv (opened : List (Nat × Nat)) (stack : List (Nat × Nat)) (first : Option Nat) : Prop where
  /-- expanding the RLE stack gives the kinds of the plain stack -/
  kinds : expand opened = stack.map (·.1)
  /-- all counts are positive -/
  pos : ∀ e ∈ opened, 1 ≤ e.2
  /-- adjacent entries have different kinds -/
  adj : adjOK opened
  /-- the first-open index is known exactly while something is open -/
  first : first.isSome ↔ stack ≠ []

theorem RleInv.init : RleInv [] [] none :=
  ⟨rfl, by simp, trivial, by simp⟩

theorem expand_eq_nil {opened : List (Nat × Nat)} (hpos : ∀ e ∈ opened, 1 ≤ e.2) :
    expand opened = [] ↔ opened = [] := by
  cases opened with
  | nil => simp [expand]
  | cons e rest =>
    obtain ⟨k, c⟩ := e
    have : 1 ≤ c := hpos (k, c) (by simp)
    simp [expand]; omega

theorem adjOK_tail {a : Nat × Nat} {rest : List (Nat × Nat)} (h : adjOK (a :: rest)) : adjOK rest := by
  cases rest with
  | nil => trivial
  | cons b r => exact h.2

theorem adjOK_head_change {t c c' : Nat} {rest : List (Nat × Nat)} (h : adjOK ((t, c) :: rest)) :
    adjOK ((t, c') :: rest) := by
  cases rest with
  | nil => trivial
  | cons b r => exact ⟨h.1, h.2⟩

/-- `if open_lexer.is_none() { open_lexer = Some(lexer.clone()) }`, on indices -/
def firstOpen (first : Option Nat) (i : Nat) : Option Nat :=
  match first with
  | none => some i
  | some o => some o

/-- Pushing an open bracket keeps the invariant. -/
theorem RleInv.push {opened stack : List (Nat × Nat)} {first : Option Nat} (idx i : Nat)
    (h : RleInv opened stack first) :
    RleInv (rlePush idx opened) ((idx, i) :: stack) (firstOpen first i) := by
  obtain ⟨hk, hp, ha, hf⟩ := h
  refine ⟨?_, ?_, ?_, ?_⟩
  · cases opened with
    | nil => simp_all [rlePush, expand]
    | cons e rest =>
      obtain ⟨t, c⟩ := e
      by_cases hti : t = idx
      · subst hti
        simp [rlePush, expand, List.replicate_succ] at hk ⊢
        exact hk
      · simp [rlePush, hti, expand] at hk ⊢
        exact hk
  · cases opened with
    | nil => simp [rlePush]
    | cons e rest =>
      obtain ⟨t, c⟩ := e
      by_cases hti : t = idx
      · subst hti
        intro e he
        simp [rlePush] at he
        rcases he with rfl | he
        · simp
        · exact hp e (by simp [he])
      · intro e he
        simp [rlePush, hti] at he
        rcases he with rfl | rfl | he
        · simp
        · exact hp _ (by simp)
        · exact hp e (by simp [he])
  · cases opened with
    | nil => simp [rlePush, adjOK]
    | cons e rest =>
      obtain ⟨t, c⟩ := e
      by_cases hti : t = idx
      · subst hti
        simp only [rlePush, bne_self_eq_false, Bool.false_eq_true, if_false]
        exact adjOK_head_change ha
      · simp only [rlePush, bne_iff_ne, ne_eq, hti, not_false_eq_true, if_true]
        exact ⟨fun h => hti h.symm, ha⟩
  · cases first <;> simp [firstOpen]

/-- Closing one bracket of a run of length > 1 keeps the invariant. -/
theorem RleInv.dec {t cnt : Nat} {rest stack : List (Nat × Nat)} {top : Nat × Nat} {first : Option Nat}
    (h : RleInv ((t, cnt) :: rest) (top :: stack) first) (hc : 1 < cnt) :
    RleInv ((t, cnt - 1) :: rest) stack first ∧ stack ≠ [] := by
  obtain ⟨hk, hp, ha, hf⟩ := h
  obtain ⟨c, rfl⟩ : ∃ c, cnt = c + 2 := ⟨cnt - 2, by omega⟩
  have hk' : expand ((t, c + 1) :: rest) = stack.map (·.1) := by
    simp [expand, List.replicate_succ] at hk ⊢
    exact hk.2
  have hne : stack ≠ [] := by
    intro h0; subst h0; simp [expand, List.replicate_succ] at hk'
  refine ⟨⟨hk', ?_, adjOK_head_change ha, ?_⟩, hne⟩
  · intro e he
    simp at he
    rcases he with rfl | he
    · simp
    · exact hp e (by simp [he])
  · simp_all

/-- Closing the last bracket of a run pops the RLE entry. -/
theorem RleInv.pop {t : Nat} {rest stack : List (Nat × Nat)} {top : Nat × Nat} {first : Option Nat}
    (h : RleInv ((t, 1) :: rest) (top :: stack) first) :
    expand rest = stack.map (·.1) ∧ (∀ e ∈ rest, 1 ≤ e.2) ∧ adjOK rest ∧ (rest = [] ↔ stack = []) := by
  obtain ⟨hk, hp, ha, hf⟩ := h
  have hk' : expand rest = stack.map (·.1) := by
    simp [expand] at hk
    exact hk.2
  have hp' : ∀ e ∈ rest, 1 ≤ e.2 := fun e he => hp e (by simp [he])
  refine ⟨hk', hp', adjOK_tail ha, ?_⟩
  rw [← expand_eq_nil hp', hk']
  simp

theorem RleInv.top_kind {t cnt : Nat} {rest stack : List (Nat × Nat)} {top : Nat × Nat} {first : Option Nat}
    (h : RleInv ((t, cnt) :: rest) (top :: stack) first) : top.1 = t := by
  obtain ⟨hk, hp, ha, hf⟩ := h
  have : 1 ≤ cnt := hp (t, cnt) (by simp)
  obtain ⟨c, rfl⟩ : ∃ c, cnt = c + 1 := ⟨cnt - 1, by omega⟩
  simp [expand, List.replicate_succ] at hk
  exact hk.1.symm

/-- **Refinement, general form**: from related states the two loops agree. -/
theorem rleLoop_refines (opens closes abort : List Nat) (ks : List Nat) :
    ∀ (i : Nat) (opened stack : List (Nat × Nat)) (first : Option Nat),
      RleInv opened stack first →
      rleLoop opens closes abort ks i opened first
        = ofRef (refMatchLoop opens closes abort ks i stack first) := by
  induction ks with
  | nil =>
    intro i opened stack first _
    cases first <;> simp [rleLoop, refMatchLoop, ofRef]
  | cons k ks ih =>
    intro i opened stack first hinv
    simp only [rleLoop, refMatchLoop, position]
    cases hcl : closes.findIdx? (· == k) with
    | some idx =>
      simp only
      cases stack with
      | nil =>
        have : opened = [] := by
          have := hinv.kinds
          simpa [expand_eq_nil hinv.pos] using this
        subst this
        simp [ofRef]
      | cons top stack =>
        obtain ⟨topKind, topIdx⟩ := top
        cases opened with
        | nil =>
          have := hinv.kinds
          simp [expand] at this
        | cons e rest =>
          obtain ⟨t, cnt⟩ := e
          have htk : topKind = t := hinv.top_kind
          subst htk
          obtain ⟨f, rfl⟩ : ∃ f, first = some f := by
            have := hinv.first
            cases first <;> simp_all
          have hcnt : 1 ≤ cnt := hinv.pos (topKind, cnt) (by simp)
          by_cases hne : topKind = idx
          · subst hne
            simp only [bne_self_eq_false, Bool.false_eq_true, if_false]
            by_cases hc : cnt > 1
            · obtain ⟨hinv', hne'⟩ := hinv.dec hc
              have : stack.isEmpty = false := by
                cases stack <;> simp_all
              simp only [hc, if_true, this, Bool.false_eq_true, if_false]
              exact ih _ _ _ _ hinv'
            · have hc1 : cnt = 1 := by omega
              subst hc1
              obtain ⟨hk', hp', ha', he'⟩ := hinv.pop
              simp only [gt_iff_lt, Nat.lt_irrefl, if_false]
              by_cases hr : rest = []
              · have hs : stack = [] := he'.mp hr
                subst hr; subst hs
                simp [ofRef]
              · have hs : stack ≠ [] := fun h => hr (he'.mpr h)
                have h1 : rest.isEmpty = false := by cases rest <;> simp_all
                have h2 : stack.isEmpty = false := by cases stack <;> simp_all
                simp only [h1, h2, Bool.false_eq_true, if_false]
                exact ih _ _ _ _ ⟨hk', hp', ha', by simpa using hs⟩
          · have : (topKind != idx) = true := by simpa using hne
            simp [this, ofRef]
    | none =>
      simp only
      cases hop : opens.findIdx? (· == k) with
      | some idx =>
        simp only
        have hinv' := hinv.push idx i
        cases first with
        | none => exact ih _ _ _ _ hinv'
        | some f => exact ih _ _ _ _ hinv'
      | none =>
        simp only
        by_cases hab : (abort.contains k && first.isNone) = true
        · rw [if_pos hab, if_pos hab]; rfl
        · rw [if_neg hab, if_neg hab]
          exact ih _ _ _ _ hinv

/-- The invariant is indeed an invariant of the two loops run in lock step (so the
RLE stack is always in canonical form: positive counts, adjacent entries of
different kinds).  Stated for the three state-changing steps above:
`RleInv.push`, `RleInv.dec`, `RleInv.pop`. -/
theorem rle_refines_stack (opens closes abort kinds : List Nat) :
    rleLoop opens closes abort kinds 0 [] none = ofRef (refMatch opens closes abort kinds) :=
  rleLoop_refines opens closes abort kinds 0 [] [] none RleInv.init

/-- The RLE loop never takes the `panic` exits (`open_lexer.unwrap()` on `None`). -/
theorem rle_no_panic (opens closes abort kinds : List Nat) :
    rleLoop opens closes abort kinds 0 [] none ≠ .panic := by
  rw [rle_refines_stack]
  cases refMatch opens closes abort kinds <;> simp [ofRef]

/-- The repaired `unreachable!()`: a close bracket that ends a run while an
enclosing bracket (necessarily of another kind) is still open is a normal
continuation with the run popped — and the plain stack does the same. -/
theorem rle_pop_nonempty (opens closes abort : List Nat) (k idx : Nat) (ks : List Nat) (i : Nat)
    (rest : List (Nat × Nat)) (first : Option Nat)
    (hcl : position closes k = some idx) (hrest : rest ≠ []) :
    rleLoop opens closes abort (k :: ks) i ((idx, 1) :: rest) first
      = rleLoop opens closes abort ks (i + 1) rest first := by
  simp only [rleLoop, hcl]
  have : rest.isEmpty = false := by cases rest <;> simp_all
  simp [this]

theorem ref_pop_nonempty (opens closes abort : List Nat) (k idx : Nat) (ks : List Nat) (i : Nat)
    (rest : List (Nat × Nat)) (stack : List (Nat × Nat)) (first : Option Nat)
    (hcl : position closes k = some idx) (hrest : rest ≠ [])
    (hinv : RleInv ((idx, 1) :: rest) stack first) :
    ∃ top stack', stack = top :: stack' ∧ stack' ≠ [] ∧ RleInv rest stack' first ∧
      (match rest with | [] => True | (t, _) :: _ => t ≠ idx) ∧
      refMatchLoop opens closes abort (k :: ks) i stack first
        = refMatchLoop opens closes abort ks (i + 1) stack' first := by
  cases stack with
  | nil =>
    have := hinv.kinds
    simp [expand] at this
  | cons top stack' =>
    obtain ⟨hk', hp', ha', he'⟩ := hinv.pop
    have hs : stack' ≠ [] := fun h => hrest (he'.mpr h)
    have htk : top.1 = idx := hinv.top_kind
    refine ⟨top, stack', rfl, hs, ⟨hk', hp', ha', ?_⟩, ?_, ?_⟩
    · have := hinv.first
      simp_all
    · cases rest with
      | nil => trivial
      | cons b r =>
        obtain ⟨t, c⟩ := b
        have := hinv.adj
        exact fun h => this.1 h.symm
    · obtain ⟨tk, ti⟩ := top
      simp only at htk
      subst htk
      have h2 : stack'.isEmpty = false := by cases stack' <;> simp_all
      rw [refMatchLoop]
      simp only [position] at hcl
      simp [hcl, h2]

/-! ## Part B — `matchLoop` on a lexer is `rleLoop` on the kinds of its filtered stream -/

open LexIter

section Lexer
variable {E : LexEnv Nat Tok} {m : Metrics} {len : Nat} {f : Option Nat}

/-- The remaining filtered stream of a lexer: the raw tokens from its
scanner/cursor on, without the tokens rejected by its filter. -/
def kept (E : LexEnv Nat Tok) (m : Metrics) (len : Nat) (lx : Lx) : List (RawTok Tok) :=
  (rawAt E m len lx.scanner lx.cursor).filter (fun r => keepOf E lx.filter r.tok)

def spanOf (r : RawTok Tok) : Span := ⟨r.start, r.stop⟩

theorem kept_eq_D (lx : Lx) :
    kept E m len lx = (D E m len lx).filter (fun r => keepOf E lx.filter r.tok) :=
  (filter_dropWhile (fun r : RawTok Tok => keepOf E lx.filter r.tok) _).symm

theorem kept_of_D_nil {lx : Lx} (h : D E m len lx = []) : kept E m len lx = [] := by
  rw [kept_eq_D, h]; rfl

theorem kept_of_D_cons {lx : Lx} {r post} (h : D E m len lx = r :: post) :
    kept E m len lx = r :: post.filter (fun r => keepOf E lx.filter r.tok) := by
  have hk : keepOf E lx.filter r.tok = true := by simpa using dropWhile_cons_inv h
  rw [kept_eq_D, h, List.filter_cons, if_pos hk]

theorem rawFrom_length (ok : ScanOK E m len) :
    ∀ fuel s p, (rawFrom E.scan m fuel s p).length ≤ len - p.byte := by
  intro fuel
  induction fuel with
  | zero => intro s p; simp [rawFrom]
  | succ n ih =>
    intro s p
    simp only [rawFrom]
    split
    · simp
    · next tok adv s' heq =>
      have := ok.progress _ _ _ _ _ heq
      have := ih s' adv
      simp only [List.length_cons]
      omega

theorem kept_length_le (ok : ScanOK E m len) (lx : Lx) : (kept E m len lx).length ≤ len :=
  Nat.le_trans (List.length_filter_le _ _) (Nat.le_trans (rawFrom_length ok _ _ _) (Nat.sub_le _ _))

/-- `buffer_next` leaves the buffer empty only when nothing is left to deliver. -/
theorem bufferLoop_nobuf (ok : ScanOK E m len) (behind : Bool) (lx : Lx) (ps : Nat) (pc : Pos)
    (hm : lx.metrics = m) (hl : lx.len = len)
    (h : (Lexer.bufferLoop E behind lx ps pc).buffer = none) :
    (rawAt E m len ps pc).dropWhile (fun r => !keepOf E lx.filter r.tok) = [] := by
  fun_induction Lexer.bufferLoop E behind lx ps pc with
  | case1 lx ps pc s' heq =>
    subst hm
    simp [rawAt_none heq]
  | case2 lx ps pc tok adv ps' heq hf lx' hg ih =>
    subst hm
    have hk : keepOf E lx.filter tok = false := by
      rw [filtered_eq] at hf; simpa using hf
    have := ih (by cases behind <;> simp [lx']) (by cases behind <;> simp [lx', hl]) h
    have hfl : lx'.filter = lx.filter := by cases behind <;> simp [lx']
    rw [hfl] at this
    simp [rawAt_some ok heq, hk, this]
  | case3 lx ps pc tok adv ps' heq hf lx' hg =>
    subst hm
    have := ok.progress _ _ _ _ _ heq
    omega
  | case4 lx ps pc tok adv ps' heq hf =>
    simp at h

/-- `peek` under the invariant: it reports the head of the remaining stream and
leaves a lexer at the same point whose buffer holds that token. -/
theorem peek_spec (ok : ScanOK E m len) {lx : Lx} (inv : Inv E m len f lx) :
    (D E m len lx = [] → (lx.peek E).1 = none) ∧
    (∀ r post, D E m len lx = r :: post → ∃ lx', lx.peek E = (some r.tok, lx') ∧
      Inv E m len f lx' ∧ D E m len lx' = r :: post ∧ lx'.peekTokenSpan = some (spanOf r)) := by
  unfold Lexer.peek
  split
  · next hend =>
    rw [inv.hlen] at hend
    have : D E m len lx = [] := by simp [D, rawAt_atEnd ok hend]
    rw [this]
    exact ⟨fun _ => rfl, fun _ _ h => nomatch h⟩
  · next hend =>
    obtain ⟨i1, d1, _⟩ := bufferNext_spec ok inv
    cases hb : (lx.bufferNext E).buffer with
    | none =>
      have hD : D E m len lx = [] := by
        cases hlb : lx.buffer with
        | some b =>
          have : lx.bufferNext E = lx := by unfold Lexer.bufferNext; simp [hlb]
          rw [this, hlb] at hb; cases hb
        | none =>
          have e : lx.bufferNext E = Lexer.bufferLoop E (lx.parseStart == lx.cursor) lx lx.scanner lx.cursor := by
            unfold Lexer.bufferNext; simp [hlb]
          rw [e] at hb
          exact bufferLoop_nobuf ok _ lx _ _ inv.hmet inv.hlen hb
      rw [hD]
      exact ⟨fun _ => by simp [hb], fun _ _ h => nomatch h⟩
    | some b =>
      obtain ⟨g1, g2, g3, g4⟩ := i1.buf b hb
      rw [d1] at g1
      rw [g1]
      refine ⟨(fun h => nomatch h), ?_⟩
      intro r post h
      cases h
      refine ⟨_, by simp [hb], i1, d1.trans g1, ?_⟩
      unfold Lexer.peekTokenSpan
      rw [hb]
      have hne : b.peekStart ≠ b.peekCursor := by
        intro e; rw [e] at g3; omega
      simp only [Option.bind_some, if_neg hne, spanOf]
      rw [enclosing_le (by omega)]

/-- `lx` is a well-formed lexer whose remaining filtered stream is `K` from index `j` on. -/
structure AtIdx (E : LexEnv Nat Tok) (m : Metrics) (len : Nat) (f : Option Nat)
    (K : List (RawTok Tok)) (j : Nat) (lx : Lx) : Prop where
  inv : Inv E m len f lx
  kept : kept E m len lx = K.drop j

/-- `lx`'s next token is the `j`-th token of `K`, and it is buffered (peeked). -/
structure Peeked (E : LexEnv Nat Tok) (m : Metrics) (len : Nat) (f : Option Nat)
    (K : List (RawTok Tok)) (j : Nat) (lx : Lx) : Prop where
  at_ : AtIdx E m len f K j lx
  tok : ∃ r, K[j]? = some r ∧ lx.peekTokenSpan = some (spanOf r)

/-- What `matchLoop` returns, read against the pure result: lexers sit at the
reported indices, errors carry the spans of the tokens with the reported indices.
`MatchRes.panic` and `MatchRes.fuel` are related to nothing. -/
inductive MatchRel (E : LexEnv Nat Tok) (m : Metrics) (len : Nat) (f : Option Nat)
    (K : List (RawTok Tok)) (startSpan : Span) : MatchRes → RleRes → Prop
  | found {o c : Lx} {j i idx : Nat} : Peeked E m len f K j o → Peeked E m len f K i c →
      MatchRel E m len f K startSpan (.found o c idx) (.found j i idx)
  | noneEnd : MatchRel E m len f K startSpan (.err (.bracketNone startSpan)) (.noneFound none)
  | noneAbort {i r} : K[i]? = some r →
      MatchRel E m len f K startSpan (.err (.bracketNone (spanOf r))) (.noneFound (some i))
  | unopened {i r} : K[i]? = some r →
      MatchRel E m len f K startSpan (.err (.bracketUnopened (spanOf r))) (.unopened i)
  | unclosed {j r} : K[j]? = some r →
      MatchRel E m len f K startSpan (.err (.bracketUnclosed (spanOf r))) (.unclosed j)
  | mismatch {j i r r'} : K[j]? = some r → K[i]? = some r' →
      MatchRel E m len f K startSpan (.err (.bracketMismatch (spanOf r) (spanOf r'))) (.mismatch j i)

/-- relation between `open_lexer` and the index of the first open bracket -/
inductive OpenRel (E : LexEnv Nat Tok) (m : Metrics) (len : Nat) (f : Option Nat)
    (K : List (RawTok Tok)) : Option Lx → Option Nat → Prop
  | none : OpenRel E m len f K Option.none Option.none
  | some {ol j} : Peeked E m len f K j ol → OpenRel E m len f K (Option.some ol) (Option.some j)

theorem drop_cons_inv {α} {K : List α} {i : Nat} {r : α} {t : List α} (h : K.drop i = r :: t) :
    i < K.length ∧ K[i]? = some r ∧ K.drop (i + 1) = t := by
  have hlt : i < K.length := by
    apply Nat.lt_of_not_le
    intro hle
    rw [List.drop_eq_nil_iff.mpr hle] at h
    cases h
  rw [List.drop_eq_getElem_cons hlt] at h
  cases h
  exact ⟨hlt, List.getElem?_eq_getElem hlt, rfl⟩

/-- One iteration of the `while let Some(tok) = lexer.peek()` loop, on the lexer side. -/
theorem step_facts (ok : ScanOK E m len) {K : List (RawTok Tok)} {i : Nat} {lexer : Lx}
    (h : AtIdx E m len f K i lexer) :
    (K.drop i = [] ∧ (lexer.peek E).1 = none) ∨
    (∃ r lexer', lexer.peek E = (some r.tok, lexer') ∧ i < K.length ∧ K[i]? = some r ∧
      K.drop i = r :: K.drop (i + 1) ∧
      Peeked E m len f K i lexer' ∧ AtIdx E m len f K (i + 1) (lexer'.next E).2) := by
  obtain ⟨p1, p2⟩ := peek_spec ok h.inv
  cases hD : D E m len lexer with
  | nil =>
    left
    exact ⟨by rw [← h.kept]; exact kept_of_D_nil hD, p1 hD⟩
  | cons r post =>
    right
    obtain ⟨lexer', hpk, inv', hD', hsp⟩ := p2 r post hD
    have hk := kept_of_D_cons hD
    rw [h.kept] at hk
    obtain ⟨hlt, hget, hdrop⟩ := drop_cons_inv hk
    have hk' : kept E m len lexer' = K.drop i := by
      rw [kept_of_D_cons hD', inv'.hfil, ← h.inv.hfil]; exact hk.symm
    obtain ⟨_, n2⟩ := next_spec ok inv'
    obtain ⟨lx'', hn, inv'', hraw, _⟩ := n2 r post hD'
    refine ⟨r, lexer', hpk, hlt, hget, by rw [hdrop]; exact hk, ⟨⟨inv', hk'⟩, r, hget, hsp⟩, ?_⟩
    rw [hn]
    refine ⟨inv'', ?_⟩
    show (rawAt E m len lx''.scanner lx''.cursor).filter _ = _
    rw [hraw, inv''.hfil, ← h.inv.hfil]
    exact hdrop.symm

theorem matchLoop_refines (R : RunEnv) (opens closes abort : List Nat) (startSpan : Span)
    (ok : ScanOK R.E m len) (K : List (RawTok Tok)) :
    ∀ (fuel i : Nat) (lexer : Lx) (openLexer : Option Lx) (opened : List (Nat × Nat)) (first : Option Nat),
      AtIdx R.E m len f K i lexer → OpenRel R.E m len f K openLexer first →
      (opened ≠ [] → first ≠ none) →
      K.length - i + 1 ≤ fuel →
      MatchRel R.E m len f K startSpan
        (matchLoop R opens closes abort startSpan fuel lexer openLexer opened)
        (rleLoop opens closes abort ((K.drop i).map (·.tok.kind)) i opened first) := by
  intro fuel
  induction fuel with
  | zero => intro i _ _ _ _ _ _ _ h; omega
  | succ n ih =>
    intro i lexer openLexer opened first hat hop hfo hfuel
    rcases step_facts ok hat with ⟨hnil, hpk⟩ | ⟨r, lexer', hpk, hlt, hget, hdrop, hpeeked, hnext⟩
    · -- end of stream
      generalize hx : lexer.peek R.E = x at hpk
      obtain ⟨o, lx1⟩ := x
      simp only at hpk
      subst hpk
      rw [hnil]
      cases hop with
      | none =>
        simp only [matchLoop, hx, List.map_nil, rleLoop]
        exact .noneEnd
      | some hp =>
        obtain ⟨r, hr, hsp⟩ := hp.tok
        simp only [matchLoop, hx, List.map_nil, rleLoop, hsp]
        exact .unclosed hr
    · -- a token
      have hcont : ∀ (ol : Option Lx) (opened' : List (Nat × Nat)) (first' : Option Nat),
          OpenRel R.E m len f K ol first' → (opened' ≠ [] → first' ≠ none) →
          MatchRel R.E m len f K startSpan
            (matchLoop R opens closes abort startSpan n (lexer'.next R.E).2 ol opened')
            (rleLoop opens closes abort ((K.drop (i + 1)).map (·.tok.kind)) (i + 1) opened' first') :=
        fun ol opened' first' h h' => ih (i + 1) _ ol opened' first' hnext h h' (by omega)
      have hsp : lexer'.peekTokenSpan = some (spanOf r) := by
        obtain ⟨r', hr', hsp⟩ := hpeeked.tok
        rw [hget] at hr'; cases hr'; exact hsp
      rw [hdrop]
      simp only [matchLoop, hpk, List.map_cons, rleLoop]
      cases hcl : position closes r.tok.kind with
      | some idx =>
        simp only
        cases opened with
        | nil =>
          simp only [hsp]
          exact .unopened hget
        | cons e rest =>
          obtain ⟨t, cnt⟩ := e
          simp only
          cases hop with
          | none => exact absurd rfl (hfo (by simp))
          | @some ol j hp =>
            obtain ⟨r0, hr0, hsp0⟩ := hp.tok
            by_cases hne : (t != idx) = true
            · simp only [hne, if_true, Option.bind_some, hsp0, hsp]
              exact .mismatch hr0 hget
            · simp only [hne]
              by_cases hc : cnt > 1
              · simp only [hc, if_true]
                exact hcont _ _ _ (.some hp) (by simp)
              · simp only [hc, if_false]
                by_cases hr : rest.isEmpty = true
                · simp only [hr, if_true]
                  exact .found hp hpeeked
                · simp only [hr]
                  exact hcont _ _ _ (.some hp) (by simp)
      | none =>
        simp only
        cases hop' : position opens r.tok.kind with
        | some idx =>
          simp only
          show MatchRel R.E m len f K startSpan
            (matchLoop R opens closes abort startSpan n _ _ (rlePush idx opened)) _
          have hne : rlePush idx opened ≠ [] := by
            cases opened with
            | nil => simp [rlePush]
            | cons e rest =>
              obtain ⟨t, c⟩ := e
              simp only [rlePush]; split <;> simp
          cases hop with
          | none => exact hcont _ _ _ (.some hpeeked) (by simp)
          | some hp => exact hcont _ _ _ (.some hp) (by simp)
        | none =>
          simp only
          cases hop with
          | none =>
            by_cases hab : abort.contains r.tok.kind = true
            · simp only [hab, Option.isNone_none, Bool.and_self, if_true, hsp]
              exact .noneAbort hget
            · simp only [hab, Bool.false_and, Bool.false_eq_true, if_false]
              exact hcont _ _ _ .none hfo
          | some hp =>
            simp only [Option.isNone_some, Bool.and_false, Bool.false_eq_true, if_false]
            exact hcont _ _ _ (.some hp) (by simp)

/-- **`match_nested_brackets` against the pure RLE loop**, from the initial state. -/
theorem matchLoop_spec (R : RunEnv) (opens closes abort : List Nat)
    (ok : ScanOK R.E m len) {lx : Lx} (inv : Inv R.E m len f lx) (fuel : Nat)
    (hfuel : (kept R.E m len lx).length + 1 ≤ fuel) :
    MatchRel R.E m len f (kept R.E m len lx) (Span.at_ lx.cursor)
      (matchLoop R opens closes abort (Span.at_ lx.cursor) fuel lx none [])
      (rleLoop opens closes abort ((kept R.E m len lx).map (·.tok.kind)) 0 [] none) := by
  have := matchLoop_refines (f := f) R opens closes abort (Span.at_ lx.cursor) ok (kept R.E m len lx)
    fuel 0 lx none [] none ⟨inv, rfl⟩ .none (fun h => absurd rfl h) (by omega)
  simpa using this

/-- The fuel `run` gives to `matchLoop` is enough. -/
theorem run_fuel_enough (ok : ScanOK E m len) {lx : Lx} (inv : Inv E m len f lx) :
    (kept E m len lx).length + 1 ≤ lx.len + 2 := by
  have := kept_length_le ok lx
  rw [inv.hlen]; omega

/-! ### the `bracket` case of `run` -/

/-- `open.next(); open.into_sublexer()` and `close.next()`: the lexers after a
peeked lexer at index `j`. -/
theorem after_peeked_next (ok : ScanOK E m len) {K : List (RawTok Tok)} {j : Nat} {lx : Lx}
    (h : Peeked E m len f K j lx) : AtIdx E m len f K (j + 1) (lx.next E).2 := by
  obtain ⟨r, hr, _⟩ := h.tok
  cases hD : D E m len lx with
  | nil =>
    have := kept_of_D_nil hD
    rw [h.at_.kept] at this
    have hlt : j < K.length := by
      apply Nat.lt_of_not_le; intro hle
      rw [List.getElem?_eq_none hle] at hr; cases hr
    rw [List.drop_eq_nil_iff] at this
    omega
  | cons r' post =>
    have hk := kept_of_D_cons hD
    rw [h.at_.kept] at hk
    obtain ⟨_, _, hdrop⟩ := drop_cons_inv hk
    obtain ⟨_, n2⟩ := next_spec ok h.at_.inv
    obtain ⟨lx'', hn, inv'', hraw, _⟩ := n2 r' post hD
    rw [hn]
    refine ⟨inv'', ?_⟩
    show (rawAt E m len lx''.scanner lx''.cursor).filter _ = _
    rw [hraw, inv''.hfil, ← h.at_.inv.hfil]
    exact hdrop.symm

theorem intoSublexer_at (ok : ScanOK E m len) {K : List (RawTok Tok)} {j : Nat} {lx : Lx}
    (h : AtIdx E m len f K j lx) : AtIdx E m len f K j (lx.intoSublexer E) := by
  let lx1 : Lx := { lx with parseStart := lx.cursor, tokenStart := lx.cursor }
  have inv1 : Inv E m len f lx1 :=
    ⟨h.inv.hmet, h.inv.hlen, h.inv.hfil, Nat.le_refl _, fun _ => rfl, h.inv.buf⟩
  obtain ⟨i2, d2, _⟩ := bufferNext_spec ok inv1
  refine ⟨i2, ?_⟩
  show kept E m len (lx1.bufferNext E) = _
  rw [kept_eq_D, d2, i2.hfil, ← h.inv.hfil, ← h.kept, kept_eq_D]
  rfl

/-- the continuation of `bracket_default_index` after a successful match -/
def bracketFinish (R : RunEnv) (n v : Nat) (a : G) (idx : Nat) (inner close' : Lx) (ctx : Ctx)
    (W : World) : RRes × World :=
  let optional := v % 2 == 0
  let body := if optional then G.someOf a else a
  let pack := fun (x : Val) => if v ≥ 2 then Val.pair x (.idx idx) else x
  match run R n body inner ctx W with
  | (.ok x _, W1) => (.ok (pack x) close', W1)
  | (.err e, W1) =>
    match sendError ctx e W1 with
    | (Option.some e', W2) => (.err e', W2)
    | (Option.none, W2) => (.ok (pack (if optional then .none else .dflt)) close', W2)
  | r => r

/-- What the `bracket` combinators do, read against the pure matcher. -/
inductive BracketOutcome (R : RunEnv) (m : Metrics) (len : Nat) (f : Option Nat)
    (K : List (RawTok Tok)) (startSpan : Span) (n v : Nat) (a : G) (ctx : Ctx) (W : World) :
    RRes × World → RleRes → Prop
  | found {inner close' : Lx} {j i idx : Nat} :
      AtIdx R.E m len f K (j + 1) inner → inner.parseStart = inner.cursor →
      AtIdx R.E m len f K (i + 1) close' →
      BracketOutcome R m len f K startSpan n v a ctx W
        (bracketFinish R n v a idx inner close' ctx W) (.found j i idx)
  | noneEnd : BracketOutcome R m len f K startSpan n v a ctx W
      (.err (mkErr (.bracketNone startSpan)), W) (.noneFound none)
  | noneAbort {i r} : K[i]? = some r → BracketOutcome R m len f K startSpan n v a ctx W
      (.err (mkErr (.bracketNone (spanOf r))), W) (.noneFound (some i))
  | unopened {i r} : K[i]? = some r → BracketOutcome R m len f K startSpan n v a ctx W
      (.err (mkErr (.bracketUnopened (spanOf r))), W) (.unopened i)
  | unclosed {j r} : K[j]? = some r → BracketOutcome R m len f K startSpan n v a ctx W
      (.err (mkErr (.bracketUnclosed (spanOf r))), W) (.unclosed j)
  | mismatch {j i r r'} : K[j]? = some r → K[i]? = some r' →
      BracketOutcome R m len f K startSpan n v a ctx W
        (.err (mkErr (.bracketMismatch (spanOf r) (spanOf r'))), W) (.mismatch j i)

theorem intoSublexer_fresh (ok : ScanOK E m len) {lx : Lx} (inv : Inv E m len f lx) :
    (lx.intoSublexer E).parseStart = (lx.intoSublexer E).cursor := by
  let lx1 : Lx := { lx with parseStart := lx.cursor, tokenStart := lx.cursor }
  show (lx1.bufferNext E).parseStart = (lx1.bufferNext E).cursor
  unfold Lexer.bufferNext
  split
  · rfl
  · next hb =>
    have hbuf : lx1.buffer = none := by simpa using hb
    have hbeh : (lx1.parseStart == lx1.cursor) = true := by simp [lx1]
    rw [hbeh]
    obtain ⟨s, c, ob, h1, _⟩ := bufferLoop_behind ok lx1 lx1.scanner lx1.cursor inv.hmet inv.hlen
      rfl rfl rfl rfl hbuf
    rw [h1]

/-- The `bracket` case of `run`, read against the pure matcher on the kinds of the
lexer's remaining filtered stream. -/
theorem run_bracket (R : RunEnv) (ok : ScanOK R.E m len) {lx : Lx} (inv : Inv R.E m len f lx)
    (n v : Nat) (opens closes abort : List Nat) (a : G) (ctx : Ctx) (W : World)
    (hpre : (opens.isEmpty || closes.isEmpty || opens.length != closes.length
              || opens.any (closes.contains ·)) = false) :
    BracketOutcome R m len f (kept R.E m len lx) (Span.at_ lx.cursor) n v a ctx W
      (run R (n + 1) (.bracket v opens a closes abort) lx ctx W)
      (rleLoop opens closes abort ((kept R.E m len lx).map (·.tok.kind)) 0 [] none) := by
  have hrel := matchLoop_spec R opens closes abort ok inv (lx.len + 2) (run_fuel_enough ok inv)
  rw [run]
  simp only [hpre, Bool.false_eq_true, if_false]
  generalize matchLoop R opens closes abort (Span.at_ lx.cursor) (lx.len + 2) lx none [] = mr at hrel
  generalize rleLoop opens closes abort ((kept R.E m len lx).map (·.tok.kind)) 0 [] none = rr at hrel
  cases hrel with
  | found ho hc =>
    have h1 := after_peeked_next ok ho
    exact .found (intoSublexer_at ok h1) (intoSublexer_fresh ok h1.inv) (after_peeked_next ok hc)
  | noneEnd => exact .noneEnd
  | noneAbort h => exact .noneAbort h
  | unopened h => exact .unopened h
  | unclosed h => exact .unclosed h
  | mismatch h h' => exact .mismatch h h'

/-- A successful `bracket` parse returns the lexer just after the close bracket. -/
theorem bracketFinish_ok {R : RunEnv} {n v : Nat} {a : G} {idx : Nat} {inner close' : Lx} {ctx : Ctx}
    {W : World} {x : Val} {lx' : Lx} {W' : World}
    (h : bracketFinish R n v a idx inner close' ctx W = (.ok x lx', W')) : lx' = close' := by
  unfold bracketFinish at h
  simp only at h
  split at h
  · cases h; rfl
  · split at h
    · cases h
    · cases h; rfl
  · next hne _ =>
    exact absurd h (by
      intro e
      exact hne x lx' W' e)

/-- The repaired `unreachable!()` in `matchLoop` itself: closing the last bracket of
a run while an enclosing bracket is still open continues with the run popped. -/
theorem matchLoop_pop_nonempty (R : RunEnv) (opens closes abort : List Nat) (sp : Span) (n : Nat)
    (lexer lexer' : Lx) (tok : Tok) (ol : Option Lx) (idx : Nat) (rest : List (Nat × Nat))
    (hpk : lexer.peek R.E = (some tok, lexer')) (hcl : position closes tok.kind = some idx)
    (hrest : rest ≠ []) :
    matchLoop R opens closes abort sp (n + 1) lexer ol ((idx, 1) :: rest)
      = matchLoop R opens closes abort sp n (lexer'.next R.E).2 ol rest := by
  have : rest.isEmpty = false := by cases rest <;> simp_all
  simp [matchLoop, hpk, hcl, this]

end Lexer

/-! ### a witness environment (non-vacuity) -/
namespace Witness

/-- a table scanner: the token at byte `i` has kind `tab[i]` and is one byte long -/
def scanTab (tab : List Nat) (s : Nat) (_m : Metrics) (p : Pos) : Option (Tok × Pos) × Nat :=
  match tab[p.byte]? with
  | some k => (some (⟨k, 0⟩, ⟨p.byte + 1, 0, p.byte + 1⟩), s)
  | none => (none, s)

/-- every filter id rejects exactly the kind-12 (`ws`) tokens -/
def tabEnv (tab : List Nat) : LexEnv Nat Tok := ⟨scanTab tab, fun _ t => t.kind != 12, fun _ b => ⟨b, 0, b⟩⟩

theorem tab_ok (tab : List Nat) (m : Metrics) : ScanOK (tabEnv tab) m tab.length := by
  constructor
  · intro s p tok adv s' h
    simp only [tabEnv, scanTab] at h
    split at h
    · next k hk =>
      cases h
      have : p.byte < tab.length := by
        apply Nat.lt_of_not_le; intro hle
        rw [List.getElem?_eq_none hle] at hk; cases hk
      simp; omega
    · cases h
  · intro s p h
    simp only [tabEnv, scanTab]
    rw [List.getElem?_eq_none h]

end Witness

end Tephra.BracketRefine
