/-
  TephraProofs.RecoverProof — C12: `Lexer::advance_to_recover` (model:
  `advanceToRecover` / `recoverLoop`) and `recover_default` (model:
  `recoverDefault`) against the recovery point `recPoint` of the driver oracle.

  The walk of `recoverLoop` is the same peek / ask / next walk as `matchLoop`, so
  the lexer side is `BracketRefine.step_facts`: a lexer `AtIdx … K j` either sees
  the end of the stream or peeks `K[j]` and moves to `j + 1`.
-/
import TephraModel.Run
import TephraModel.Fam.Oracles
import TephraProofs.RunMatchers
import TephraProofs.BracketRefine
import TephraProofs.RecoverFrame

set_option linter.unusedVariables false

namespace Tephra.RecoverProof
open Tephra Tephra.Spec Tephra.BracketRefine Tephra.LexIter
open Tephra.Fam.Oracles (recPoint)
open Tephra.RecoverFrame (specOf)

/-! ### vocabulary (`specOf W id`: the recovery closure registered under `id`, see RecoverFrame) -/

/-- the flag of the closure `id` is clear (`found == false` in recover.rs) -/
def FlagClear (id : Nat) (W : World) : Prop := id ∉ W.found

/-- the token-kind test of a recovery closure -/
def hit : Rec → Nat → Bool
  | .before k, x => x == k
  | .after k, x => x == k
  | .beforeAny ks, x => ks.contains x
  | .afterAny ks, x => ks.contains x
  | .sepOrAbort sep ab, x => x == sep || ab.contains x

/-- `recover_before`, `recover_before_any`, and the internal closure of `list` -/
def isBefore : Rec → Bool
  | .before _ | .beforeAny _ | .sepOrAbort _ _ => true
  | _ => false

/-- `recover_after`, `recover_after_any` -/
def isAfter : Rec → Bool
  | .after _ | .afterAny _ => true
  | _ => false

theorem isAfter_of_not_before {r : Rec} (h : isBefore r = false) : isAfter r = true := by
  cases r <;> simp_all [isBefore, isAfter]

/-- index of the first token of `view` the closure reacts to -/
def firstHit (r : Rec) (view : List (RawTok Tok)) : Option Nat :=
  view.findIdx? (fun x => hit r x.tok.kind)

theorem recPoint_before {r : Rec} (h : isBefore r = true) (view : List (RawTok Tok)) :
    recPoint r view = firstHit r view := by
  cases r <;> simp_all [isBefore, recPoint, firstHit, hit]

theorem recPoint_after {r : Rec} (h : isAfter r = true) (view : List (RawTok Tok)) :
    recPoint r view = (firstHit r view).bind fun i => if i + 1 < view.length then some (i + 1) else none := by
  cases r <;> simp_all [isAfter, recPoint, firstHit, hit]

/-! ### the closures -/

theorem ask_before {W : World} {id : Nat} {r : Rec} (hs : specOf W id = some r) (hb : isBefore r = true)
    (t : Tok) : askRecover W id t = (hit r t.kind, W) := by
  unfold RecoverFrame.specOf at hs
  unfold askRecover
  rw [hs]
  cases r <;> simp_all [isBefore, hit]

/-- flag set: the closure fires on whatever token it is shown, and clears the flag -/
theorem ask_after_armed {W : World} {id : Nat} {r : Rec} (hs : specOf W id = some r) (ha : isAfter r = true)
    (hf : id ∈ W.found) (t : Tok) :
    askRecover W id t = (true, { W with found := W.found.erase id }) := by
  unfold RecoverFrame.specOf at hs
  unfold askRecover
  rw [hs]
  cases r <;> simp_all [isAfter]

/-- flag clear: the closure never fires; it sets the flag on its token -/
theorem ask_after_clear {W : World} {id : Nat} {r : Rec} (hs : specOf W id = some r) (ha : isAfter r = true)
    (hf : id ∉ W.found) (t : Tok) :
    askRecover W id t = (false, if hit r t.kind then { W with found := id :: W.found } else W) := by
  unfold RecoverFrame.specOf at hs
  unfold askRecover
  rw [hs]
  cases r <;> simp_all [isAfter, hit]

/-! ### `recoverLoop` -/

section Loop
variable {m : Metrics} {len : Nat} {f : Option Nat}

theorem firstHit_drop_cons {r : Rec} {K : List (RawTok Tok)} {j : Nat} {r0 : RawTok Tok}
    (hd : K.drop j = r0 :: K.drop (j + 1)) :
    firstHit r (K.drop j) =
      if hit r r0.tok.kind then some 0 else (firstHit r (K.drop (j + 1))).map (· + 1) := by
  unfold firstHit
  rw [hd, List.findIdx?_cons]

/-- `recover_before*`: the walk stops, peeked, at the first token the closure
reacts to; the world is untouched. -/
theorem recoverLoop_before (R : RunEnv) (ok : ScanOK R.E m len) (K : List (RawTok Tok))
    {W : World} {id : Nat} {r : Rec} (hs : specOf W id = some r) (hb : isBefore r = true) :
    ∀ (fuel j : Nat) (lx : Lx), AtIdx R.E m len f K j lx → K.length - j + 1 ≤ fuel →
      match firstHit r (K.drop j) with
      | some d => ∃ lx', recoverLoop R id fuel lx W = (some lx', W) ∧ Peeked R.E m len f K (j + d) lx'
      | none => recoverLoop R id fuel lx W = (none, W) := by
  intro fuel
  induction fuel with
  | zero => intro j lx _ h; omega
  | succ n ih =>
    intro j lx hat hfuel
    rcases step_facts ok hat with ⟨hnil, hpk⟩ | ⟨r0, lx1, hpk, hlt, hget, hdrop, hpeeked, hnext⟩
    · generalize hx : lx.peek R.E = x at hpk
      obtain ⟨o, lx1⟩ := x
      simp only at hpk
      subst hpk
      rw [hnil]
      simp [firstHit, recoverLoop, hx]
    · rw [firstHit_drop_cons hdrop]
      simp only [recoverLoop, hpk, ask_before hs hb]
      by_cases hh : hit r r0.tok.kind = true
      · simp only [hh, if_true]
        exact ⟨lx1, rfl, hpeeked⟩
      · simp only [hh, if_false, Bool.false_eq_true]
        have := ih (j + 1) _ hnext (by omega)
        cases hfh : firstHit r (K.drop (j + 1)) with
        | none => rw [hfh] at this; simpa using this
        | some d =>
          rw [hfh] at this
          obtain ⟨lx', h1, h2⟩ := this
          refine ⟨lx', h1, ?_⟩
          have : j + (d + 1) = j + 1 + d := by omega
          simpa [this] using h2

@[simp] theorem specOf_found (W : World) (l : List Nat) (id : Nat) :
    specOf { W with found := l } id = specOf W id := rfl

/-- `recover_after*` entered with the flag set: it fires on the first token it is
shown (whatever that is) and clears the flag; at the end of the text it fails. -/
theorem recoverLoop_armed (R : RunEnv) (ok : ScanOK R.E m len) (K : List (RawTok Tok))
    {W : World} {id : Nat} {r : Rec} (hs : specOf W id = some r) (ha : isAfter r = true)
    (hf : id ∈ W.found) (fuel j : Nat) (lx : Lx) (hat : AtIdx R.E m len f K j lx) (hfuel : 1 ≤ fuel) :
    if j < K.length then
      ∃ lx', recoverLoop R id fuel lx W = (some lx', { W with found := W.found.erase id }) ∧
        Peeked R.E m len f K j lx'
    else recoverLoop R id fuel lx W = (none, W) := by
  obtain ⟨n, rfl⟩ : ∃ n, fuel = n + 1 := ⟨fuel - 1, by omega⟩
  rcases step_facts ok hat with ⟨hnil, hpk⟩ | ⟨r0, lx1, hpk, hlt, hget, hdrop, hpeeked, hnext⟩
  · generalize hx : lx.peek R.E = x at hpk
    obtain ⟨o, lx1⟩ := x
    simp only at hpk
    subst hpk
    have : ¬ j < K.length := by
      rw [List.drop_eq_nil_iff] at hnil; omega
    simp [this, recoverLoop, hx]
  · simp only [hlt, if_true, recoverLoop, hpk, ask_after_armed hs ha hf]
    exact ⟨lx1, rfl, hpeeked⟩

/-- `recover_after*` entered with the flag clear: the walk passes the first token
the closure reacts to and stops, peeked, at the token after it, with the flag
clear again.  If that token was the last one the walk fails **and the flag stays
set** (finding F07r); if there is no such token it fails with the world untouched. -/
theorem recoverLoop_after (R : RunEnv) (ok : ScanOK R.E m len) (K : List (RawTok Tok))
    {id : Nat} {r : Rec} (ha : isAfter r = true) :
    ∀ (fuel j : Nat) (lx : Lx) (W : World), specOf W id = some r → id ∉ W.found →
      AtIdx R.E m len f K j lx → K.length - j + 1 ≤ fuel →
      match firstHit r (K.drop j) with
      | none => recoverLoop R id fuel lx W = (none, W)
      | some d =>
        if j + d + 1 < K.length then
          ∃ lx', recoverLoop R id fuel lx W = (some lx', W) ∧ Peeked R.E m len f K (j + d + 1) lx'
        else recoverLoop R id fuel lx W = (none, { W with found := id :: W.found }) := by
  intro fuel
  induction fuel with
  | zero => intro j lx W _ _ _ h; omega
  | succ n ih =>
    intro j lx W hs hf hat hfuel
    rcases step_facts ok hat with ⟨hnil, hpk⟩ | ⟨r0, lx1, hpk, hlt, hget, hdrop, hpeeked, hnext⟩
    · generalize hx : lx.peek R.E = x at hpk
      obtain ⟨o, lx1⟩ := x
      simp only at hpk
      subst hpk
      rw [hnil]
      simp [firstHit, recoverLoop, hx]
    · rw [firstHit_drop_cons hdrop]
      simp only [recoverLoop, hpk, ask_after_clear hs ha hf]
      by_cases hh : hit r r0.tok.kind = true
      · simp only [hh, if_true, Bool.false_eq_true, if_false, Nat.add_zero]
        have harm := recoverLoop_armed (f := f) R ok K (W := { W with found := id :: W.found })
          (by simpa using hs) ha (by simp) n (j + 1) _ hnext (by omega)
        by_cases hl : j + 1 < K.length
        · simp only [hl, if_true] at harm ⊢
          obtain ⟨lx', h1, h2⟩ := harm
          refine ⟨lx', ?_, h2⟩
          rw [h1]
          simp
        · simp only [hl, if_false] at harm ⊢
          exact harm
      · simp only [hh, if_false, Bool.false_eq_true]
        have := ih (j + 1) _ W hs hf hnext (by omega)
        cases hfh : firstHit r (K.drop (j + 1)) with
        | none => rw [hfh] at this; simpa using this
        | some d =>
          rw [hfh] at this
          have e : j + (d + 1) + 1 = j + 1 + d + 1 := by omega
          simpa [e] using this

/-! ### `advance_to_recover` -/

/-- The fuel `advanceToRecover` gives to the walk is enough. -/
theorem fuel_enough (R : RunEnv) (ok : ScanOK R.E m len) {K : List (RawTok Tok)} {j : Nat} {lx : Lx}
    (hat : AtIdx R.E m len f K j lx) : K.length - j + 1 ≤ lx.len + 2 := by
  have h1 := kept_length_le ok lx
  rw [hat.kept, List.length_drop] at h1
  rw [hat.inv.hlen]; omega

/-- what `firstHit` on the rest of the stream means in terms of indices of `K` -/
theorem firstHit_some_iff {r : Rec} {K : List (RawTok Tok)} {j d : Nat} :
    firstHit r (K.drop j) = some d ↔
      ∃ x, K[j + d]? = some x ∧ hit r x.tok.kind = true ∧
        ∀ i x', j ≤ i → i < j + d → K[i]? = some x' → hit r x'.tok.kind = false := by
  unfold firstHit
  rw [List.findIdx?_eq_some_iff_getElem]
  constructor
  · rintro ⟨hlt, h1, h2⟩
    rw [List.length_drop] at hlt
    refine ⟨K[j + d]'(by omega), List.getElem?_eq_getElem _, by simpa using h1, ?_⟩
    intro i x' hji hid hx'
    have := h2 (i - j) (by omega)
    have hi : i < K.length := by
      apply Nat.lt_of_not_le; intro hle
      rw [List.getElem?_eq_none hle] at hx'; cases hx'
    rw [List.getElem?_eq_getElem hi] at hx'
    cases hx'
    have e : j + (i - j) = i := by omega
    simpa [e] using this
  · rintro ⟨x, hx, h1, h2⟩
    have hlt : j + d < K.length := by
      apply Nat.lt_of_not_le; intro hle
      rw [List.getElem?_eq_none hle] at hx; cases hx
    rw [List.getElem?_eq_getElem hlt] at hx
    cases hx
    refine ⟨by rw [List.length_drop]; omega, by simpa using h1, ?_⟩
    intro i hi
    have := h2 (j + i) (K[j + i]'(by omega)) (by omega) (by omega) (List.getElem?_eq_getElem _)
    simpa using this

theorem firstHit_none_iff {r : Rec} {K : List (RawTok Tok)} {j : Nat} :
    firstHit r (K.drop j) = none ↔ ∀ i x, j ≤ i → K[i]? = some x → hit r x.tok.kind = false := by
  unfold firstHit
  rw [List.findIdx?_eq_none_iff]
  constructor
  · intro h i x hji hx
    apply h
    have hi : i < K.length := by
      apply Nat.lt_of_not_le; intro hle
      rw [List.getElem?_eq_none hle] at hx; cases hx
    rw [List.getElem?_eq_getElem hi] at hx
    cases hx
    rw [List.mem_iff_getElem]
    exact ⟨i - j, by rw [List.length_drop]; omega, by simp [show j + (i - j) = i by omega]⟩
  · intro h x hx
    rw [List.mem_iff_getElem] at hx
    obtain ⟨i, hi, rfl⟩ := hx
    rw [List.length_drop] at hi
    exact h (j + i) _ (by omega) (by simp [List.getElem?_eq_getElem (show j + i < K.length by omega)])

/-- **Target 1** — `recover_before`, `recover_before_any` (and the closure of
`list`): `advance_to_recover` stops, peeked, exactly at the first token from the
lexer's position on that the closure reacts to; if there is none it fails.  The
world (in particular every closure flag) is untouched.  No hypothesis on `W.found`. -/
theorem advance_before (R : RunEnv) (ok : ScanOK R.E m len) {K : List (RawTok Tok)} {j : Nat} {lx : Lx}
    {W : World} {id : Nat} {r : Rec} (hrec : lx.recover = some id) (hs : specOf W id = some r)
    (hb : isBefore r = true) (hat : AtIdx R.E m len f K j lx) :
    match recPoint r (K.drop j) with
    | some d => ∃ lx', advanceToRecover R lx W = (some lx', W) ∧ Peeked R.E m len f K (j + d) lx'
    | none => advanceToRecover R lx W = (none, W) := by
  rw [recPoint_before hb]
  unfold advanceToRecover
  rw [hrec]
  exact recoverLoop_before R ok K hs hb _ j lx hat (fuel_enough R ok hat)

/-- **Target 2** — `recover_after`, `recover_after_any`, entered with the flag
clear: `advance_to_recover` stops, peeked, exactly at the token after the first
token the closure reacts to, and the world is unchanged (flag clear again).  If
that token is the last one, or there is none, it fails; in the first case the
flag is left set. -/
theorem advance_after (R : RunEnv) (ok : ScanOK R.E m len) {K : List (RawTok Tok)} {j : Nat} {lx : Lx}
    {W : World} {id : Nat} {r : Rec} (hrec : lx.recover = some id) (hs : specOf W id = some r)
    (ha : isAfter r = true) (hf : id ∉ W.found) (hat : AtIdx R.E m len f K j lx) :
    match recPoint r (K.drop j) with
    | some p => ∃ lx', advanceToRecover R lx W = (some lx', W) ∧ Peeked R.E m len f K (j + p) lx'
    | none => advanceToRecover R lx W =
        (none, if (firstHit r (K.drop j)).isSome then { W with found := id :: W.found } else W) := by
  rw [recPoint_after ha]
  unfold advanceToRecover
  rw [hrec]
  have := recoverLoop_after R ok K ha _ j lx W hs hf hat (fuel_enough R ok hat)
  cases hfh : firstHit r (K.drop j) with
  | none => rw [hfh] at this; simpa using this
  | some d =>
    rw [hfh] at this
    simp only [Option.bind_some, List.length_drop, Option.isSome_some, if_true]
    by_cases hl : j + d + 1 < K.length
    · have hl' : d + 1 < K.length - j := by omega
      simp only [hl, if_true] at this
      simp only [hl', if_true]
      simpa [Nat.add_assoc] using this
    · have hl' : ¬ d + 1 < K.length - j := by omega
      simp only [hl, if_false] at this
      simp only [hl', if_false]
      exact this

/-- Both kinds together, in the form used for `recover_default`. -/
theorem advance_spec (R : RunEnv) (ok : ScanOK R.E m len) {K : List (RawTok Tok)} {j : Nat} {lx : Lx}
    {W : World} {id : Nat} {r : Rec} (hrec : lx.recover = some id) (hs : specOf W id = some r)
    (hflag : isBefore r = true ∨ id ∉ W.found) (hat : AtIdx R.E m len f K j lx) :
    match recPoint r (K.drop j) with
    | some p => ∃ lx', advanceToRecover R lx W = (some lx', W) ∧ Peeked R.E m len f K (j + p) lx'
    | none => ∃ W', advanceToRecover R lx W = (none, W') ∧
        (W' = W ∨ (isAfter r = true ∧ W' = { W with found := id :: W.found })) := by
  by_cases hb : isBefore r = true
  · have := advance_before R ok hrec hs hb hat
    split at this
    · exact this
    · exact ⟨W, this, Or.inl rfl⟩
  · have ha := isAfter_of_not_before (by simpa using hb)
    have hf : id ∉ W.found := by
      rcases hflag with h | h
      · exact absurd h hb
      · exact h
    have := advance_after R ok hrec hs ha hf hat
    split at this
    · exact this
    · refine ⟨_, this, ?_⟩
      split
      · exact Or.inr ⟨ha, rfl⟩
      · exact Or.inl rfl

/-! ### `recover_default` -/

/-- `set_recover_state` touches nothing the stream position depends on. -/
theorem setRecoverState_at {E : LexEnv Nat Tok} {K : List (RawTok Tok)} {j : Nat} {lx : Lx} (o : Option Nat)
    (h : AtIdx E m len f K j lx) : AtIdx E m len f K j (lx.setRecoverState o) :=
  ⟨⟨h.inv.hmet, h.inv.hlen, h.inv.hfil, h.inv.ps_le, h.inv.ts, h.inv.buf⟩, h.kept⟩

/-- the world after the sink has taken `e` -/
def logged (W : World) (ctx : Ctx) (e : PErr) : World := { W with log := W.log ++ [ctx.apply e] }

@[simp] theorem logged_found (W : World) (ctx : Ctx) (e : PErr) : (logged W ctx e).found = W.found := rfl
@[simp] theorem logged_specs (W : World) (ctx : Ctx) (e : PErr) : (logged W ctx e).specs = W.specs := rfl
@[simp] theorem logged_log (W : World) (ctx : Ctx) (e : PErr) : (logged W ctx e).log = W.log ++ [ctx.apply e] := rfl
@[simp] theorem logged_probes (W : World) (ctx : Ctx) (e : PErr) : (logged W ctx e).probes = W.probes := rfl
@[simp] theorem specOf_logged (W : World) (ctx : Ctx) (e : PErr) (id : Nat) :
    specOf (logged W ctx e) id = specOf W id := rfl

/-- **Target 3, sink case** — the wrapped parser fails with `e` leaving world `W1`
in which the closure is registered and (for the `after` kinds) its flag is clear:
exactly one entry, `ctx.apply e`, is appended to the sink log, and the combinator
returns the placeholder with a lexer peeked at the recovery point *of the lexer it
was given* (`K`, `j` describe `lx`, not the place where the wrapped parser stopped);
if there is no recovery point it returns the recovery error. -/
theorem recoverDefault_fail_sink (R : RunEnv) (ok : ScanOK R.E m len) {K : List (RawTok Tok)} {j : Nat} {lx : Lx}
    (hat : AtIdx R.E m len f K j lx) (n : Nat) (dv : Val) (id : Nat) (r : Rec) (body : G) (ctx : Ctx)
    (W W1 : World) (e : PErr)
    (hbody : run R n body lx ctx (W.register id r) = (.err e, W1))
    (hs : specOf W1 id = some r) (hflag : isBefore r = true ∨ id ∉ W1.found) (hsink : ctx.sink = true) :
    match recPoint r (K.drop j) with
    | some p => ∃ lx', recoverDefault R (n + 1) dv id r body lx ctx W = (.ok dv lx', logged W1 ctx e) ∧
        Peeked R.E m len f K (j + p) lx'
    | none => ∃ W', recoverDefault R (n + 1) dv id r body lx ctx W = (.err ⟨[], .recover⟩, W') ∧
        (W' = logged W1 ctx e ∨
          (isAfter r = true ∧ W' = { logged W1 ctx e with found := id :: W1.found })) := by
  have hadv := advance_spec (W := logged W1 ctx e) R ok (lx := lx.setRecoverState (some id)) rfl
    (by simpa using hs) (by simpa using hflag) (setRecoverState_at (some id) hat)
  have hsend : sendError ctx e W1 = (none, logged W1 ctx e) := by simp [sendError, hsink, logged]
  simp only [recoverDefault, hbody, hsend]
  split at hadv
  · obtain ⟨lx', h1, h2⟩ := hadv
    exact ⟨lx', by rw [h1], h2⟩
  · obtain ⟨W', h1, h2⟩ := hadv
    exact ⟨W', by rw [h1]; rfl, h2⟩

/-- **Target 3, no sink** — the wrapped parser's error is returned unchanged and
nothing else happens. -/
theorem recoverDefault_fail_nosink (R : RunEnv) (n : Nat) (dv : Val) (id : Nat) (r : Rec) (body : G) (lx : Lx)
    (ctx : Ctx) (W W1 : World) (e : PErr)
    (hbody : run R n body lx ctx (W.register id r) = (.err e, W1)) (hsink : ctx.sink = false) :
    recoverDefault R (n + 1) dv id r body lx ctx W = (.err e, W1) := by
  simp [recoverDefault, hbody, sendError, hsink]

/-- **F07r, characterised** — the same situation but with the flag of an `after`
closure still set on entry (left behind by an earlier recovery that ran off the end
of the text): the combinator "recovers" at the very token the given lexer looks at,
wherever the requested token is, and clears the flag. -/
theorem recoverDefault_fail_sink_armed (R : RunEnv) (ok : ScanOK R.E m len) {K : List (RawTok Tok)} {j : Nat}
    {lx : Lx} (hat : AtIdx R.E m len f K j lx) (n : Nat) (dv : Val) (id : Nat) (r : Rec) (body : G) (ctx : Ctx)
    (W W1 : World) (e : PErr)
    (hbody : run R n body lx ctx (W.register id r) = (.err e, W1))
    (hs : specOf W1 id = some r) (ha : isAfter r = true) (hflag : id ∈ W1.found) (hsink : ctx.sink = true)
    (hj : j < K.length) :
    ∃ lx', recoverDefault R (n + 1) dv id r body lx ctx W =
        (.ok dv lx', { logged W1 ctx e with found := W1.found.erase id }) ∧
      Peeked R.E m len f K j lx' := by
  have hadv := recoverLoop_armed (f := f) (W := logged W1 ctx e) R ok K (by simpa using hs) ha
    (by simpa using hflag) ((lx.setRecoverState (some id)).len + 2) j _ (setRecoverState_at (some id) hat)
    (by omega)
  simp only [hj, if_true] at hadv
  obtain ⟨lx', h1, h2⟩ := hadv
  have hsend : sendError ctx e W1 = (none, logged W1 ctx e) := by simp [sendError, hsink, logged]
  refine ⟨lx', ?_, h2⟩
  simp only [recoverDefault, hbody, hsend, advanceToRecover]
  show (match recoverLoop R id ((lx.setRecoverState (some id)).len + 2) (lx.setRecoverState (some id))
      (logged W1 ctx e) with
    | (Option.some lx', W3) => (RRes.ok dv lx', W3)
    | (Option.none, W3) => (RRes.err (mkErr .recover), W3)) = _
  rw [h1]
  rfl

/-- registering is idempotent on a world that is fresh for `id` or already has `r` -/
theorem specOf_register {W : World} {id : Nat} {r : Rec} (h : specOf W id = none ∨ specOf W id = some r) :
    specOf (W.register id r) id = some r := by
  rcases h with h | h
  · exact RecoverFrame.specOf_register_self h
  · exact RecoverFrame.register_SR W id r id r h

@[simp] theorem register_found (W : World) (id : Nat) (r : Rec) : (W.register id r).found = W.found := by
  unfold World.register; split <;> rfl

/-- **Target 3** with the hypothesis on the world *before* the combinator: the
identity `id` is fresh or already stands for `r` (closure identities are unique per
grammar node).  That the wrapped parser cannot unregister it is `run_specs_stable`. -/
theorem recoverDefault_fail_sink' (R : RunEnv) (ok : ScanOK R.E m len) {K : List (RawTok Tok)} {j : Nat} {lx : Lx}
    (hat : AtIdx R.E m len f K j lx) (n : Nat) (dv : Val) (id : Nat) (r : Rec) (body : G) (ctx : Ctx)
    (W W1 : World) (e : PErr)
    (hW : specOf W id = none ∨ specOf W id = some r)
    (hbody : run R n body lx ctx (W.register id r) = (.err e, W1))
    (hflag : isBefore r = true ∨ id ∉ W1.found) (hsink : ctx.sink = true) :
    match recPoint r (K.drop j) with
    | some p => ∃ lx', recoverDefault R (n + 1) dv id r body lx ctx W = (.ok dv lx', logged W1 ctx e) ∧
        Peeked R.E m len f K (j + p) lx'
    | none => ∃ W', recoverDefault R (n + 1) dv id r body lx ctx W = (.err ⟨[], .recover⟩, W') ∧
        (W' = logged W1 ctx e ∨
          (isAfter r = true ∧ W' = { logged W1 ctx e with found := id :: W1.found })) := by
  have hs : specOf W1 id = some r := by
    have := RecoverFrame.run_specs_stable R n body lx ctx (W.register id r) id r (specOf_register hW)
    rwa [hbody] at this
  exact recoverDefault_fail_sink R ok hat n dv id r body ctx W W1 e hbody hs hflag hsink

end Loop

/-! ### `stabilize` clears the recovering state -/

theorem stabLoop_ok_clears (R : RunEnv) (a : G) (ctx : Ctx) :
    ∀ (n : Nat) (lx : Lx) (res : RRes) (W : World) (v : Val) (lx' : Lx) (W' : World),
      stabLoop R n a lx ctx res W = (.ok v lx', W') → lx'.recover = none := by
  intro n
  induction n with
  | zero => intro lx res W v lx' W' h; simp [stabLoop] at h
  | succ n ih =>
    intro lx res W v lx' W' h
    cases res with
    | ok v0 lx0 =>
      simp only [stabLoop] at h
      cases h; rfl
    | err e =>
      simp only [stabLoop] at h
      split at h
      · split at h
        · cases h
        · exact ih _ _ _ _ _ _ h
      · cases h
    | panic => simp [stabLoop] at h
    | fuel => simp [stabLoop] at h

/-- **Target 6** — a successful stabilising parse returns a lexer whose recover
state is cleared. -/
theorem stabilize_clears (R : RunEnv) (n : Nat) (a : G) (lx : Lx) (ctx : Ctx) (W : World) (v : Val) (lx' : Lx)
    (W' : World) (h : run R n (.stabilize a) lx ctx W = (.ok v lx', W')) : lx'.recover = none := by
  cases n with
  | zero => simp [run] at h
  | succ n =>
    simp only [run] at h
    exact stabLoop_ok_clears R a ctx n lx _ _ v lx' W' h

/-! ### every time: the invariant carried from one invocation to the next -/

/-- The closure `id` is usable for `r` in `W`: its identity is fresh or already
stands for `r`, and — for the `after` kinds only — its flag is clear.  The lexer
carries nothing but the identity (`Lexer.recover : Option Nat`); clones of a lexer
or of the closure therefore share this state by construction. -/
structure Ready (id : Nat) (r : Rec) (W : World) : Prop where
  spec : specOf W id = none ∨ specOf W id = some r
  flag : isBefore r = true ∨ FlagClear id W

/-- for the `before` kinds readiness does not depend on the flags at all -/
theorem Ready.of_before {id : Nat} {r : Rec} {W : World} (hb : isBefore r = true)
    (h : specOf W id = none ∨ specOf W id = some r) : Ready id r W := ⟨h, Or.inl hb⟩

theorem Ready.register {id : Nat} {r : Rec} {W : World} (h : Ready id r W) : Ready id r (W.register id r) :=
  ⟨Or.inr (specOf_register h.spec), by simpa [FlagClear] using h.flag⟩

theorem Ready.logged {id : Nat} {r : Rec} {W : World} (h : Ready id r W) (ctx : Ctx) (e : PErr) :
    Ready id r (logged W ctx e) := ⟨h.spec, h.flag⟩

section Every
variable {m : Metrics} {len : Nat} {f : Option Nat}

/-- **Invariant, general form** — whatever the wrapped parser is: if the closure
is registered and its flag is clear in the world `W1` the wrapped parser leaves
behind, then every *successful* return of `recover_default` (wrapped parser
succeeded, or recovery succeeded) leaves the flag clear.  (A failed recovery need
not: F07r.) -/
theorem recoverDefault_ok_flagClear (R : RunEnv) (ok : ScanOK R.E m len) {K : List (RawTok Tok)} {j : Nat}
    {lx : Lx} (hat : AtIdx R.E m len f K j lx) (n : Nat) (dv : Val) (id : Nat) (r : Rec) (body : G) (ctx : Ctx)
    (W W1 : World) (res : RRes)
    (hbody : run R n body lx ctx (W.register id r) = (res, W1))
    (hs : specOf W1 id = some r) (hf : FlagClear id W1)
    (v : Val) (lx' : Lx) (W' : World)
    (h : recoverDefault R (n + 1) dv id r body lx ctx W = (.ok v lx', W')) : FlagClear id W' := by
  cases res with
  | ok v1 lx1 =>
    simp only [recoverDefault, hbody] at h
    cases h; exact hf
  | err e =>
    cases hsink : ctx.sink with
    | false =>
      rw [recoverDefault_fail_nosink R n dv id r body lx ctx W W1 e hbody hsink] at h
      cases h
    | true =>
      have := recoverDefault_fail_sink R ok hat n dv id r body ctx W W1 e hbody hs (Or.inr hf) hsink
      split at this
      · obtain ⟨lx'', h1, _⟩ := this
        rw [h1] at h
        cases h
        exact hf
      · obtain ⟨W'', h1, _⟩ := this
        rw [h1] at h
        cases h
  | panic => simp [recoverDefault, hbody] at h
  | fuel => simp [recoverDefault, hbody] at h

/-- What one invocation of `recover_default` does, given the result `br` of the
wrapped parser, read against the view `K` of the lexer `lx` it was given
(`W0`: the world with the closure registered). -/
inductive Outcome (R : RunEnv) (m : Metrics) (len : Nat) (f : Option Nat) (ctx : Ctx) (dv : Val) (id : Nat)
    (r : Rec) (K : List (RawTok Tok)) (W0 : World) : RRes → RRes → World → Prop
  /-- the wrapped parser succeeded: its result, nothing reported -/
  | success {v lx1} : Outcome R m len f ctx dv id r K W0 (.ok v lx1) (.ok v lx1) W0
  /-- no sink: the wrapped parser's error comes back, nothing else happens -/
  | nosink {e} : ctx.sink = false → Outcome R m len f ctx dv id r K W0 (.err e) (.err e) W0
  /-- sink, recovery point `p`: one report, the placeholder, the lexer peeked at `K[p]` -/
  | recovered {e p lx'} : ctx.sink = true → recPoint r K = some p → Peeked R.E m len f K p lx' →
      Outcome R m len f ctx dv id r K W0 (.err e) (.ok dv lx') (logged W0 ctx e)
  /-- sink, no recovery point: one report, the recovery error (the flag may stay set: F07r) -/
  | noPoint {e W'} : ctx.sink = true → recPoint r K = none →
      (W' = logged W0 ctx e ∨ (isAfter r = true ∧ W' = { logged W0 ctx e with found := id :: W0.found })) →
      Outcome R m len f ctx dv id r K W0 (.err e) (.err ⟨[], .recover⟩) W'
  | panic : Outcome R m len f ctx dv id r K W0 .panic .panic W0
  | fuel : Outcome R m len f ctx dv id r K W0 .fuel .fuel W0

/-- **One invocation, from a ready world** (wrapped parser of the PEG family, so
that it cannot touch the closure): the outcome is as specified, and after every
successful return the world is ready again. -/
theorem recoverDefault_ready (R : RunEnv) (ok : ScanOK R.E m len) {lx : Lx} (inv : Inv R.E m len f lx)
    (n : Nat) (dv : Val) (id : Nat) (r : Rec) (body : G) (ctx : Ctx) (W : World)
    (hsup : Spec.supported body = true) (hready : Ready id r W) :
    Outcome R m len f ctx dv id r (kept R.E m len lx) (W.register id r)
      (run R n body lx ctx (W.register id r)).1
      (recoverDefault R (n + 1) dv id r body lx ctx W).1 (recoverDefault R (n + 1) dv id r body lx ctx W).2 ∧
    (∀ v lx', (recoverDefault R (n + 1) dv id r body lx ctx W).1 = .ok v lx' →
      Ready id r (recoverDefault R (n + 1) dv id r body lx ctx W).2) := by
  have hat : AtIdx R.E m len f (kept R.E m len lx) 0 lx := ⟨inv, rfl⟩
  have hW := RecoverFrame.run_supported_world R n body lx ctx (W.register id r) hsup
  have hr0 := hready.register
  generalize hb : run R n body lx ctx (W.register id r) = br at hW
  obtain ⟨res, W1⟩ := br
  simp only at hW
  subst hW
  cases res with
  | ok v1 lx1 =>
    have : recoverDefault R (n + 1) dv id r body lx ctx W = (.ok v1 lx1, W.register id r) := by
      simp [recoverDefault, hb]
    rw [this]
    exact ⟨.success, fun _ _ _ => hr0⟩
  | err e =>
    cases hsink : ctx.sink with
    | false =>
      rw [recoverDefault_fail_nosink R n dv id r body lx ctx W _ e hb hsink]
      exact ⟨.nosink hsink, fun _ _ h => nomatch h⟩
    | true =>
      have := recoverDefault_fail_sink R ok hat n dv id r body ctx W _ e hb (specOf_register hready.spec)
        hr0.flag hsink
      rw [List.drop_zero] at this
      split at this
      · next p hp =>
        obtain ⟨lx', h1, h2⟩ := this
        rw [h1]
        refine ⟨.recovered hsink hp (by simpa using h2), fun _ _ _ => hr0.logged ctx e⟩
      · next hp =>
        obtain ⟨W', h1, h2⟩ := this
        rw [h1]
        refine ⟨.noPoint hsink hp (by simpa using h2), fun _ _ h => nomatch h⟩
  | panic =>
    have : recoverDefault R (n + 1) dv id r body lx ctx W = (.panic, W.register id r) := by
      simp [recoverDefault, hb]
    rw [this]
    exact ⟨.panic, fun _ _ h => nomatch h⟩
  | fuel =>
    have : recoverDefault R (n + 1) dv id r body lx ctx W = (.fuel, W.register id r) := by
      simp [recoverDefault, hb]
    rw [this]
    exact ⟨.fuel, fun _ _ h => nomatch h⟩

end Every

/-! ### every time: `k` invocations of the same `recover` node (`Fam.RunF.invoke`) -/

/-- the wrapped parser of `recover` / `recover_option` (`v` even: the `option` form) -/
def bodyOf (v : Nat) (a : G) : G := if v % 2 == 0 then .someOf a else a
/-- its placeholder value -/
def dvOf (v : Nat) : Val := if v % 2 == 0 then .none else .dflt

theorem run_recover (R : RunEnv) (n v id : Nat) (a : G) (r : Rec) (lx : Lx) (ctx : Ctx) (W : World) :
    run R (n + 2) (.recover v id a r) lx ctx W = recoverDefault R (n + 1) (dvOf v) id r (bodyOf v a) lx ctx W := by
  rw [run]
  unfold dvOf bodyOf
  split <;> rfl

theorem supported_bodyOf (v : Nat) (a : G) : Spec.supported (bodyOf v a) = Spec.supported a := by
  unfold bodyOf; split <;> simp [Spec.supported]

section Invoke
variable {m : Metrics} {len : Nat} {f : Option Nat}

/-- Assumption used by the `invoke` theorem only: a successful run of the wrapped
parser returns a well-formed lexer on the same text (this is part of C06 for the
PEG family and is not re-proved here; `bodyKeepsInv_one` shows it for `one k`). -/
def BodyKeepsInv (R : RunEnv) (m : Metrics) (len : Nat) (f : Option Nat) (body : G) : Prop :=
  ∀ n lx ctx W v lx1 W1, Inv R.E m len f lx → run R n body lx ctx W = (.ok v lx1, W1) → Inv R.E m len f lx1

theorem bodyKeepsInv_one (R : RunEnv) (ok : ScanOK R.E m len) (k : Nat) : BodyKeepsInv R m len f (.one k) := by
  intro n lx ctx W v lx1 W1 inv h
  cases n with
  | zero => simp [run] at h
  | succ n =>
    obtain ⟨n1, n2⟩ := next_spec ok inv
    cases hD : D R.E m len lx with
    | nil =>
      have := n1 hD
      generalize hx : lx.next R.E = x at this h
      obtain ⟨o, lx2⟩ := x
      simp only at this
      subst this
      simp [run, hx] at h
    | cons r0 post =>
      obtain ⟨lx2, hn, inv2, _⟩ := n2 r0 post hD
      simp only [run, hn] at h
      split at h
      · cases h; exact inv2
      · cases h

theorem bodyKeepsInv_bodyOf (R : RunEnv) (v : Nat) (a : G) (h : BodyKeepsInv R m len f a) :
    BodyKeepsInv R m len f (bodyOf v a) := by
  unfold bodyOf
  split
  · intro n lx ctx W v' lx1 W1 inv hr
    cases n with
    | zero => simp [run] at hr
    | succ n =>
      simp only [run] at hr
      split at hr
      · next v0 lx0 W0 h0 =>
        cases hr
        exact h n lx ctx W v0 lx1 W1 inv h0
      · next hne =>
        generalize run R n a lx ctx W = x at hr hne
        obtain ⟨res, Wx⟩ := x
        cases res <;> first | (cases hr; exact (hne _ _ _ rfl).elim) | cases hr
  · exact h

/-- the statement of one invocation: it started from a well-formed lexer in a ready
world, and its outcome is the specified one for the view of that lexer -/
def Step (R : RunEnv) (m : Metrics) (len : Nat) (f : Option Nat) (ctx : Ctx) (v id : Nat) (a : G) (r : Rec) (n : Nat)
    (lx : Lx) (W : World) (res : RRes) (W' : World) : Prop :=
  Inv R.E m len f lx ∧ Ready id r W ∧
  Outcome R m len f ctx (dvOf v) id r (kept R.E m len lx) (W.register id r)
    (run R n (bodyOf v a) lx ctx (W.register id r)).1 res W'

/-- `rs` are the results of successive invocations starting from `(lx, W)` (after a
success the next one starts from the returned lexer, after a failure from the same
lexer, as in `Fam.RunF.invoke`), each of which satisfies `S`; after a failure
the promise continues provided the world still satisfies `P`. -/
inductive Explained (P : World → Prop) (S : Lx → World → RRes → World → Prop) : Lx → World → List RRes → Prop
  | nil (lx : Lx) (W : World) : Explained P S lx W []
  | ok {lx W v lx' W' rs} : S lx W (.ok v lx') W' → Explained P S lx' W' rs →
      Explained P S lx W (.ok v lx' :: rs)
  | fail {lx W res W' rs} : S lx W res W' → (∀ v lx', res ≠ .ok v lx') → (P W' → Explained P S lx W' rs) →
      Explained P S lx W (res :: rs)

theorem outcome_ok_inv {R : RunEnv} {ctx : Ctx} {dv : Val} {id : Nat} {r : Rec} {K : List (RawTok Tok)} {W0 : World}
    {br : RRes} {v : Val} {lx' : Lx} {W' : World}
    (h : Outcome R m len f ctx dv id r K W0 br (.ok v lx') W')
    (hb : ∀ v1 lx1, br = .ok v1 lx1 → Inv R.E m len f lx1) : Inv R.E m len f lx' := by
  cases h with
  | success => exact hb _ _ rfl
  | recovered _ _ hp => exact hp.at_.inv

/-- **Target 4(b), over `invoke`** — `k` invocations of the same `recover` node:
every invocation reached through successful ones (and through failed ones that
left the world ready — always the case for the `before` kinds, see
`ready_after_fail_before`) starts in a ready world and does what target 3 says,
for the view of the lexer *it* was given. -/
theorem invoke_explained (R : RunEnv) (ok : ScanOK R.E m len) (ctx : Ctx) (v id : Nat) (a : G) (r : Rec)
    (hsup : Spec.supported a = true) (hkeep : BodyKeepsInv R m len f a) :
    ∀ (k : Nat) (lx : Lx) (W : World), Inv R.E m len f lx → Ready id r W →
      Explained (Ready id r) (Step R m len f ctx v id a r (Fam.RunF.fuel - 2)) lx W
        (Fam.RunF.invoke R (.recover v id a r) ctx k lx W).1 := by
  intro k
  induction k with
  | zero => intro lx W _ _; exact .nil _ _
  | succ k ih =>
    intro lx W inv hready
    have hfuel : Fam.RunF.fuel = (Fam.RunF.fuel - 2) + 2 := rfl
    have hstep := recoverDefault_ready R ok inv (Fam.RunF.fuel - 2) (dvOf v) id r (bodyOf v a) ctx W
      (by rw [supported_bodyOf]; exact hsup) hready
    have hrun := run_recover R (Fam.RunF.fuel - 2) v id a r lx ctx W
    rw [← hfuel] at hrun
    rw [← hrun] at hstep
    obtain ⟨hout, hnext⟩ := hstep
    have hk := bodyKeepsInv_bodyOf R v a hkeep
    simp only [Fam.RunF.invoke]
    generalize hx : run R Fam.RunF.fuel (.recover v id a r) lx ctx W = x at hout hnext
    obtain ⟨res, W'⟩ := x
    simp only at hout hnext
    have hS : Step R m len f ctx v id a r (Fam.RunF.fuel - 2) lx W res W' := ⟨inv, hready, hout⟩
    cases res with
    | ok v' lx' =>
      have inv' : Inv R.E m len f lx' := by
        apply outcome_ok_inv hout
        intro v1 lx1 hb
        generalize hy : run R (Fam.RunF.fuel - 2) (bodyOf v a) lx ctx (W.register id r) = y at hb
        obtain ⟨br, Wb⟩ := y
        simp only at hb
        subst hb
        exact hk _ _ _ _ _ _ _ inv hy
      exact .ok hS (ih lx' W' inv' (hnext _ _ rfl))
    | err e => exact .fail hS (fun _ _ h => nomatch h) (fun hp => ih lx W' inv hp)
    | panic => exact .fail hS (fun _ _ h => nomatch h) (fun hp => ih lx W' inv hp)
    | fuel => exact .fail hS (fun _ _ h => nomatch h) (fun hp => ih lx W' inv hp)

/-- **Target 4(a)** — for the `before` kinds a failed invocation leaves the world
ready as well, so in `invoke_explained` *every* invocation is covered: the
behaviour is independent of the invocation history. -/
theorem ready_after_fail_before {R : RunEnv} {ctx : Ctx} {dv : Val} {id : Nat} {r : Rec} {K : List (RawTok Tok)}
    {W : World} {br res : RRes} {W' : World} (hb : isBefore r = true) (hready : Ready id r W)
    (h : Outcome R m len f ctx dv id r K (W.register id r) br res W') : Ready id r W' := by
  have hr0 := hready.register
  have hna : ¬ isAfter r = true := by cases r <;> simp_all [isBefore, isAfter]
  cases h with
  | success => exact hr0
  | nosink _ => exact hr0
  | recovered _ _ _ => exact hr0.logged _ _
  | noPoint _ _ hw =>
    rcases hw with rfl | ⟨ha, _⟩
    · exact hr0.logged _ _
    · exact absurd ha hna
  | panic => exact hr0
  | fuel => exact hr0

end Invoke

/-! ### finding F07r: the witness

Text `;` (one token, kind 5), `recover_option(one(a), recover_after(';'))` with a
sink, invoked twice.  First invocation: the wrapped parser fails, the walk sees
`;`, sets the flag, runs off the end: recovery error, **flag left set**.  Second
invocation (same lexer, same closure): the flag is still set, so the closure fires
on the first token it is shown: the combinator returns `ok(None)` positioned *at*
the `;`, although no token follows the `;` and a recovery error is due.
(The same values are obtained with the harness scanner `lexEnv (ScanCfg.ofId 1)`
on the text `;` from scanner state `1`; the table scanner keeps the proof short.) -/
namespace F07r
open Tephra.BracketRefine.Witness

def R : RunEnv := ⟨tabEnv [5], []⟩
def m0 : Metrics := ⟨.lf, 4⟩
def lx0 : Lx := Lexer.new 0 m0 1
def ctx0 : Ctx := ⟨true, [], false⟩
def body : G := .someOf (.one 0)
def g : G := .recover 2 7 (.one 0) (.after 5)
def e0 : PErr := ⟨[], .unexp ⟨⟨0,0,0⟩, ⟨0,0,0⟩⟩ ⟨⟨0,0,0⟩, ⟨1,0,1⟩⟩ (.token 0) (.token ⟨5, 0⟩)⟩
/-- the world after the first invocation: flag of closure 7 set -/
def W1 : World := ⟨[(7, .after 5)], [7], [e0], []⟩
def W2 : World := ⟨[(7, .after 5)], [], [e0, e0], []⟩
/-- the lexer returned by the second invocation: peeked at the `;` (byte 0) -/
def lxr : Lx :=
  { metrics := m0, len := 1, scanner := 0, filter := none, recover := some 7,
    buffer := some ⟨0, ⟨0,0,0⟩, ⟨1,0,1⟩, ⟨5, 0⟩⟩, parseStart := ⟨0,0,0⟩, tokenStart := ⟨0,0,0⟩, cursor := ⟨0,0,0⟩ }
def lxe : Lx :=
  { metrics := m0, len := 1, scanner := 0, filter := none, recover := some 7,
    buffer := none, parseStart := ⟨0,0,0⟩, tokenStart := ⟨0,0,0⟩, cursor := ⟨1,0,1⟩ }

theorem next0 : lx0.next R.E = (some ⟨5, 0⟩, { lx0 with tokenStart := ⟨0,0,0⟩, cursor := ⟨1,0,1⟩ }) := by
  simp [lx0, R, Lexer.next, Lexer.new, Lexer.nextLoop, tabEnv, scanTab, Lexer.filtered, Pos.zero]

theorem peek0 : (lx0.setRecoverState (some 7)).peek R.E = (some ⟨5, 0⟩, lxr) := by
  simp [lx0, R, Lexer.peek, Lexer.new, Lexer.bufferNext, Lexer.bufferLoop, tabEnv, scanTab, Lexer.filtered, Pos.zero,
    Lexer.setRecoverState, lxr]

theorem next_r : (lxr.next R.E).2 = lxe := by
  simp [lxr, lxe, Lexer.next]

theorem peek_e : lxe.peek R.E = (none, lxe) := by
  simp [lxe, Lexer.peek]

theorem ask_clear (W : World) (hs : W.specs = [(7, .after 5)]) (hf : W.found = []) :
    askRecover W 7 ⟨5, 0⟩ = (false, { W with found := [7] }) := by
  simp [askRecover, hs, hf]

theorem ask_armed (W : World) (hs : W.specs = [(7, .after 5)]) (hf : W.found = [7]) (t : Tok) :
    askRecover W 7 t = (true, { W with found := [] }) := by
  simp [askRecover, hs, hf]

theorem adv_clear (W : World) (hs : W.specs = [(7, .after 5)]) (hf : W.found = []) :
    advanceToRecover R (lx0.setRecoverState (some 7)) W = (none, { W with found := [7] }) := by
  have hrec : (lx0.setRecoverState (some 7)).recover = some 7 := rfl
  unfold advanceToRecover
  rw [hrec]
  simp only [recoverLoop, peek0, ask_clear W hs hf, next_r, peek_e]
  simp

theorem adv_armed (W : World) (hs : W.specs = [(7, .after 5)]) (hf : W.found = [7]) :
    advanceToRecover R (lx0.setRecoverState (some 7)) W = (some lxr, { W with found := [] }) := by
  have hrec : (lx0.setRecoverState (some 7)).recover = some 7 := rfl
  unfold advanceToRecover
  rw [hrec]
  simp only [recoverLoop, peek0, ask_armed W hs hf]
  simp

/-- the wrapped parser `one(a)` fails on `;` and leaves the world alone -/
theorem body0 (n : Nat) (W : World) : run R (n + 2) body lx0 ctx0 W = (.err e0, W) := by
  simp only [body, run, next0]
  simp [mkErr, e0, lx0, Lexer.new, Lexer.parseSpan, Lexer.tokenSpan, Span.enclosing, Pos.zero]

theorem first_rd (n : Nat) :
    recoverDefault R (n + 3) .none 7 (.after 5) body lx0 ctx0 World.init = (.err ⟨[], .recover⟩, W1) := by
  have hreg : World.init.register 7 (.after 5) = ⟨[(7, .after 5)], [], [], []⟩ := by
    simp [World.register, World.init]
  have hsend : sendError ctx0 e0 ⟨[(7, .after 5)], [], [], []⟩ = (none, ⟨[(7, .after 5)], [], [e0], []⟩) := by
    simp [sendError, ctx0, Ctx.apply, e0]
  rw [recoverDefault]
  simp only [hreg, body0, hsend, adv_clear ⟨[(7, .after 5)], [], [e0], []⟩ rfl rfl]
  rfl

theorem hreg1 : W1.register 7 (.after 5) = W1 := by
  simp [World.register, W1]

theorem second_rd (n : Nat) :
    recoverDefault R (n + 3) .none 7 (.after 5) body lx0 ctx0 W1 = (.ok .none lxr, W2) := by
  have hsend : sendError ctx0 e0 W1 = (none, ⟨[(7, .after 5)], [7], [e0, e0], []⟩) := by
    simp [sendError, ctx0, Ctx.apply, e0, W1]
  rw [recoverDefault]
  simp only [hreg1, body0, hsend, adv_armed ⟨[(7, .after 5)], [7], [e0, e0], []⟩ rfl rfl]
  rfl

theorem run_g (n : Nat) (W : World) :
    run R (n + 4) g lx0 ctx0 W = recoverDefault R (n + 3) .none 7 (.after 5) body lx0 ctx0 W := by
  unfold g
  rw [run]
  simp only [Nat.reduceMod, beq_self_eq_true, if_true]
  rfl

/-- first invocation: recovery error, flag left set -/
theorem first (n : Nat) : run R (n + 4) g lx0 ctx0 World.init = (.err ⟨[], .recover⟩, W1) := by
  rw [run_g, first_rd]

/-- second invocation: "recovers" at the `;` itself -/
theorem second (n : Nat) : run R (n + 4) g lx0 ctx0 W1 = (.ok .none lxr, W2) := by
  rw [run_g, second_rd]

/-- the driver's `invoke` (two invocations, as in the `recover` family) -/
theorem twice : Fam.RunF.invoke R g ctx0 2 lx0 World.init = ([.err ⟨[], .recover⟩, .ok .none lxr], W2) := by
  have h1 := first 3996
  have h2 := second 3996
  simp only [Fam.RunF.invoke, Fam.RunF.fuel]
  simp only [h1, h2]

/-- the view of the given lexer: just the `;` -/
theorem view0 : kept R.E m0 1 lx0 = [⟨⟨5, 0⟩, ⟨0,0,0⟩, ⟨1,0,1⟩⟩] := by
  simp [kept, LexIter.rawAt, Spec.rawFrom, R, tabEnv, scanTab, lx0, Lexer.new, Pos.zero, LexIter.keepOf]

/-- … in which `recover_after(';')` has no recovery point -/
theorem noPoint : recPoint (.after 5) (kept R.E m0 1 lx0) = none := by
  rw [view0]; simp [recPoint]

theorem ok0 : ScanOK R.E m0 1 := tab_ok [5] m0

theorem at0 : AtIdx R.E m0 1 none (kept R.E m0 1 lx0) 0 lx0 :=
  ⟨inv_fresh 0 none, rfl⟩

theorem spec1 : specOf W1 7 = some (.after 5) := by
  simp [RecoverFrame.specOf, W1]

end F07r

/-- The statement of target 3 (sink case) **without** the hypothesis that the flag
of an `after` closure is clear on entry. -/
def recoverDefault_noflag_statement : Prop :=
  ∀ (m : Metrics) (len : Nat) (f : Option Nat) (R : RunEnv) (_ : ScanOK R.E m len)
    (K : List (RawTok Tok)) (j : Nat) (lx : Lx) (_ : AtIdx R.E m len f K j lx)
    (n : Nat) (dv : Val) (id : Nat) (r : Rec) (body : G) (ctx : Ctx) (W W1 : World) (e : PErr),
    run R n body lx ctx (W.register id r) = (.err e, W1) → specOf W1 id = some r → ctx.sink = true →
    match recPoint r (K.drop j) with
    | some p => ∃ lx', recoverDefault R (n + 1) dv id r body lx ctx W = (.ok dv lx', logged W1 ctx e) ∧
        Peeked R.E m len f K (j + p) lx'
    | none => ∃ W', recoverDefault R (n + 1) dv id r body lx ctx W = (.err ⟨[], .recover⟩, W') ∧
        (W' = logged W1 ctx e ∨
          (isAfter r = true ∧ W' = { logged W1 ctx e with found := id :: W1.found }))

/-- **Target 5 / finding F07r** — without the flag hypothesis the statement is false. -/
theorem finding_F07r : ¬ recoverDefault_noflag_statement := by
  intro h
  have := h F07r.m0 1 none F07r.R F07r.ok0 _ 0 F07r.lx0 F07r.at0 2 .none 7 (.after 5) F07r.body F07r.ctx0
    F07r.W1 F07r.W1 F07r.e0 (by rw [F07r.hreg1, F07r.body0]) F07r.spec1 rfl
  rw [List.drop_zero, F07r.noPoint] at this
  obtain ⟨W', h1, _⟩ := this
  rw [F07r.second_rd 0] at h1
  cases h1

end Tephra.RecoverProof
