/-
  Lemmas for C18 (widen / split by lines) and the cut-level navigation facts
  they need (relative form: arbitrary base position, so that C20 can reuse them).
-/
import TephraProofs.Canon
import TephraModel.Fam.Lines

set_option linter.unusedSimpArgs false
set_option linter.unusedSectionVars false
set_option linter.unusedVariables false

namespace Tephra.LinesPf
open Tephra.Spec

/-! ### bytes / WF -/

@[simp] theorem bytes_nil : bytes ([] : Text) = 0 := rfl
@[simp] theorem bytes_cons (c : Ch) (r : Text) : bytes (c :: r) = c.size + bytes r := by
  simp [bytes]
@[simp] theorem bytes_append (a b : Text) : bytes (a ++ b) = bytes a + bytes b := by
  simp [bytes, List.map_append, List.sum_append]

theorem Text.WF_nil : Text.WF ([] : Text) := by intro c hc; simp at hc
theorem Text.WF_cons {c : Ch} {r : Text} : Text.WF (c :: r) ↔ c.WF ∧ Text.WF r := by
  unfold Text.WF; simp
theorem Text.WF_append {a b : Text} : Text.WF (a ++ b) ↔ Text.WF a ∧ Text.WF b := by
  unfold Text.WF; simp only [List.mem_append]
  constructor
  · intro h; exact ⟨fun c hc => h c (Or.inl hc), fun c hc => h c (Or.inr hc)⟩
  · rintro ⟨h1, h2⟩ c (hc | hc); exact h1 c hc; exact h2 c hc

theorem bytes_eq_zero {t : Text} (hwf : Text.WF t) (h : bytes t = 0) : t = [] := by
  cases t with
  | nil => rfl
  | cons c r =>
    have := (Text.WF_cons.mp hwf).1.1
    simp at h; omega

theorem bytes_pos {t : Text} (hwf : Text.WF t) (h : t ≠ []) : 0 < bytes t := by
  rcases Nat.eq_zero_or_pos (bytes t) with h0 | h0
  · exact absurd (bytes_eq_zero hwf h0) h
  · exact h0

theorem splitAtByte_append {pre : Text} (suf : Text) (hwf : Text.WF pre) :
    splitAtByte (pre ++ suf) (bytes pre) = some (pre, suf) := by
  induction pre with
  | nil => cases suf <;> simp [splitAtByte]
  | cons c r ih =>
    have hc := (Text.WF_cons.mp hwf).1.1
    have ih' := ih (Text.WF_cons.mp hwf).2
    obtain ⟨k, hk⟩ : ∃ k, c.size + bytes r = k + 1 := ⟨c.size + bytes r - 1, by omega⟩
    simp only [bytes_cons, List.cons_append, hk, splitAtByte]
    have h1 : c.size ≤ k + 1 := by omega
    have h2 : k + 1 - c.size = bytes r := by omega
    simp [h1, h2, ih']

/-! ### Res monad plumbing -/

@[simp] theorem Res.ok_bind {α β} (a : α) (f : α → Res β) : (Res.ok a >>= f) = f a := rfl
@[simp] theorem Res.panic_bind {α β} (f : α → Res β) : ((Res.panic : Res α) >>= f) = .panic := rfl
@[simp] theorem Res.pure_eq {α} (a : α) : (pure a : Res α) = .ok a := rfl
@[simp] theorem Res.ok_bind' {α β} (a : α) (f : α → Res β) : (Res.ok a).bind f = f a := rfl

@[simp] theorem csub_zero (a : Nat) : csub a 0 = .ok a := by simp [csub]

theorem csub_le {a b : Nat} (h : b ≤ a) : csub a b = .ok (a - b) := by simp [csub, h]

/-! ### line-break matching -/

theorem lbLen_pos (m : Metrics) : 0 < lbLen m := by
  unfold lbLen lbCodes; split <;> simp

theorem stripCodes_append_right {t rest : Text} {ks : List Nat} (x : Text)
    (h : stripCodes t ks = some rest) : stripCodes (t ++ x) ks = some (rest ++ x) := by
  induction ks generalizing t with
  | nil => simp [stripCodes] at h ⊢; simp [h]
  | cons k ks ih =>
    cases t with
    | nil => simp [stripCodes] at h
    | cons c r =>
      simp only [stripCodes, List.cons_append] at h ⊢
      split at h
      · rename_i hc; simp [hc, ih h]
      · simp at h

theorem stripCodes_of_map {B : Text} {ks : List Nat} (x : Text) (h : B.map (·.code) = ks) :
    stripCodes (B ++ x) ks = some x := by
  induction ks generalizing B with
  | nil => simp at h; subst h; simp [stripCodes]
  | cons k ks ih =>
    cases B with
    | nil => simp at h
    | cons c r =>
      simp at h
      simp [stripCodes, h.1, ih h.2]

theorem breakAt_append {m : Metrics} {s r : Text} (x : Text) (h : breakAt m s = some r) :
    breakAt m (s ++ x) = some (r ++ x) := stripCodes_append_right x h

theorem breakAt_none_of_append {m : Metrics} {s x : Text} (h : breakAt m (s ++ x) = none) :
    breakAt m s = none := by
  cases hb : breakAt m s with
  | none => rfl
  | some r => rw [breakAt_append x hb] at h; simp at h

/-- A matched break: the text is `B ++ rest` with `B` spelling the line ending. -/
theorem breakAt_split {m : Metrics} {s r : Text} (h : breakAt m s = some r) :
    ∃ B, s = B ++ r ∧ B.map (·.code) = lbCodes m ∧ B.length = lbLen m := by
  obtain ⟨h1, h2⟩ := stripCodes_append h
  refine ⟨s.take (lbCodes m).length, h1, h2, ?_⟩
  have := congrArg List.length h2
  simpa [lbLen] using this

theorem breakAt_of_map {m : Metrics} {B : Text} (x : Text) (h : B.map (·.code) = lbCodes m) :
    breakAt m (B ++ x) = some x := stripCodes_of_map x h

theorem breakAt_nil (m : Metrics) : breakAt m [] = none := by
  unfold breakAt lbCodes; split <;> simp [stripCodes]

/-! ### aligned cuts -/

theorem getLast?_append_ne {α} (u : List α) {r : List α} (h : r ≠ []) :
    (u ++ r).getLast? = r.getLast? := by
  rw [List.getLast?_append]
  cases hr : r.getLast? with
  | none => simp at hr; exact absurd hr h
  | some a => simp

@[simp] theorem aligned_nil_left (m : Metrics) (y : Text) : aligned m [] y = true := by
  unfold aligned; split <;> simp

@[simp] theorem aligned_nil_right (m : Metrics) (x : Text) : aligned m x [] = true := by
  unfold aligned; split <;> simp

theorem aligned_of_append_left {m : Metrics} {u r y : Text} (h : aligned m (u ++ r) y = true) :
    aligned m r y = true := by
  cases r with
  | nil => simp
  | cons c r' =>
    unfold aligned at h ⊢
    rw [getLast?_append_ne _ (List.cons_ne_nil c r')] at h
    exact h

theorem aligned_append_left_iff {m : Metrics} {u r y : Text} (hr : r ≠ []) :
    aligned m (u ++ r) y = aligned m r y := by
  unfold aligned
  split
  · simp only [getLast?_append_ne _ hr]
  · rfl

theorem aligned_append_right_iff {m : Metrics} {x y z : Text} (hy : y ≠ []) :
    aligned m x (y ++ z) = aligned m x y := by
  unfold aligned
  split
  · cases y with
    | nil => exact absurd rfl hy
    | cons c y' => simp
  · rfl

theorem aligned_of_append_right {m : Metrics} {x y z : Text} (h : aligned m x (y ++ z) = true) :
    aligned m x y = true := by
  cases y with
  | nil => simp
  | cons c y' => rwa [aligned_append_right_iff (List.cons_ne_nil c y')] at h

/-- no break at `c :: r` and the cut after it is aligned: still no break after appending. -/
theorem breakAt_none_append {m : Metrics} {c : Ch} {r y : Text}
    (h : breakAt m (c :: r) = none) (ha : aligned m (c :: r) y = true) :
    breakAt m (c :: (r ++ y)) = none := by
  rw [← List.cons_append]
  unfold breakAt lbCodes at h ⊢
  unfold aligned at ha
  split at h <;> rename_i hle <;> simp only [hle] at ha ⊢
  · simp [stripCodes] at h ⊢; exact h
  · simp [stripCodes] at h ⊢; exact h
  · cases r with
    | nil =>
      cases y with
      | nil => simpa using h
      | cons d y' =>
        simp [stripCodes] at ha ⊢
        intro h13 h10; rcases ha with ha | ha; exact ha h13; exact ha h10
    | cons d r' =>
      simp [stripCodes] at h ⊢; exact h

/-- a text that ends with a line ending is aligned with anything after it -/
theorem aligned_of_ends_break {m : Metrics} {u B y : Text} (hB : B.map (·.code) = lbCodes m) :
    aligned m (u ++ B) y = true := by
  unfold aligned
  split
  · rename_i hle
    simp only [lbCodes, hle] at hB
    match B, hB with
    | [], hB => simp at hB
    | [_], hB => simp at hB
    | _ :: _ :: _ :: _, hB => simp at hB
    | [b1, b2], hB =>
      simp at hB
      have : (u ++ [b1, b2]).getLast? = some b2 := by
        rw [getLast?_append_ne _ (by simp)]; simp
      rw [this]
      split
      · rename_i a b h1 h2; simp at h1; subst h1; simp [hB.2]
      · rfl
  · rfl

/-- a text that starts with a line ending is aligned with anything before it -/
theorem aligned_of_starts_break {m : Metrics} {x y r : Text} (hb : breakAt m y = some r) :
    aligned m x y = true := by
  unfold aligned
  split
  · rename_i hle
    unfold breakAt lbCodes at hb
    simp only [hle] at hb
    cases y with
    | nil => simp [stripCodes] at hb
    | cons c y' =>
      simp only [stripCodes] at hb
      split at hb
      · rename_i h13
        split
        · rename_i a b h1 h2; simp at h2; subst h2; simp [h13]
        · rfl
      · simp at hb
  · rfl

/-! ### induction over the units (line endings / single characters) of a text -/

theorem unit_induction (m : Metrics) {P : Text → Prop}
    (nil : P [])
    (brk : ∀ t rest, breakAt m t = some rest → P rest → P t)
    (chr : ∀ c r, breakAt m (c :: r) = none → P r → P (c :: r)) : ∀ t, P t := by
  intro t
  generalize hn : t.length = n
  induction n using Nat.strongRecOn generalizing t with
  | _ n ih =>
    cases t with
    | nil => exact nil
    | cons c r =>
      cases hb : breakAt m (c :: r) with
      | some rest =>
        have := breakAt_length hb
        exact brk _ rest hb (ih rest.length (by omega) rest rfl)
      | none => exact chr c r hb (ih r.length (by simp at hn; omega) r rfl)

theorem WF_of_breakAt {m : Metrics} {t rest : Text} (hwf : Text.WF t)
    (h : breakAt m t = some rest) : Text.WF rest := by
  obtain ⟨B, h1, _, _⟩ := breakAt_split h
  rw [h1] at hwf; exact (Text.WF_append.mp hwf).2

/-! ### structure of `linesOf` -/

@[simp] theorem linesOf_nil (m : Metrics) : linesOf m [] = [[]] := by simp [linesOf]

/-- first line, then either nothing or a line ending and the remaining lines -/
theorem linesOf_decomp (m : Metrics) : ∀ (t : Text) (l : Text) (ls : List Text),
    linesOf m t = l :: ls →
    ∃ rem, t = l ++ rem ∧
      ((rem = [] ∧ ls = []) ∨ (∃ rest, breakAt m rem = some rest ∧ ls = linesOf m rest)) := by
  intro t
  induction t using unit_induction m with
  | nil => intro l ls h; simp at h; exact ⟨[], by simp [h.1], Or.inl ⟨rfl, h.2⟩⟩
  | brk t rest hb ih =>
    intro l ls h
    rw [linesOf_break hb] at h
    simp at h
    exact ⟨t, by simp [← h.1], Or.inr ⟨rest, hb, h.2.symm⟩⟩
  | chr c r hb ih =>
    intro l ls h
    obtain ⟨l0, ls0, h1, h2⟩ := linesOf_nobreak hb
    rw [h2] at h; simp at h
    obtain ⟨rem, hr, hcase⟩ := ih l0 ls0 h1
    refine ⟨rem, by rw [← h.1, hr]; simp, ?_⟩
    rw [← h.2]; exact hcase

/-- `l` contains no line ending -/
def NoBreak (m : Metrics) (l : Text) : Prop := linesOf m l = [l]

theorem NoBreak_nil (m : Metrics) : NoBreak m [] := by simp [NoBreak]

theorem NoBreak_cons {m : Metrics} {c : Ch} {l : Text} (h : NoBreak m (c :: l)) :
    breakAt m (c :: l) = none ∧ NoBreak m l := by
  unfold NoBreak at h ⊢
  cases hb : breakAt m (c :: l) with
  | some rest => rw [linesOf_break hb] at h; simp at h
  | none =>
    obtain ⟨l0, ls0, h1, h2⟩ := linesOf_nobreak hb
    rw [h2] at h; simp at h
    rw [h1, h.1, h.2]; simp

theorem NoBreak_cons_of {m : Metrics} {c : Ch} {l : Text} (hb : breakAt m (c :: l) = none)
    (h : NoBreak m l) : NoBreak m (c :: l) := by
  unfold NoBreak at h ⊢
  obtain ⟨l0, ls0, h1, h2⟩ := linesOf_nobreak hb
  rw [h] at h1; simp at h1
  rw [h2, ← h1.1, ← h1.2]

/-- every line of a text is free of line endings -/
theorem linesOf_noBreak (m : Metrics) : ∀ (t : Text), ∀ l ∈ linesOf m t, NoBreak m l := by
  intro t
  induction t using unit_induction m with
  | nil => intro l hl; simp at hl; subst hl; exact NoBreak_nil m
  | brk t rest hb ih =>
    intro l hl
    rw [linesOf_break hb] at hl; simp at hl
    rcases hl with rfl | hl
    · exact NoBreak_nil m
    · exact ih l hl
  | chr c r hb ih =>
    intro l hl
    obtain ⟨l0, ls0, h1, h2⟩ := linesOf_nobreak hb
    rw [h2] at hl; simp at hl
    rcases hl with rfl | hl
    · obtain ⟨rem, hr, _⟩ := linesOf_decomp m r l0 ls0 h1
      have hb' : breakAt m (c :: l0) = none := by
        apply breakAt_none_of_append (x := rem)
        rw [hr] at hb; simpa using hb
      exact NoBreak_cons_of hb' (ih l0 (by rw [h1]; simp))
    · exact ih l (by rw [h1]; simp [hl])

/-- lines of an aligned concatenation: the last line of the first part and the first
line of the second part are joined -/
theorem linesOf_append (m : Metrics) : ∀ (x : Text) (y : Text) (I : List Text) (cl h : Text)
    (ts : List Text), aligned m x y = true → linesOf m x = I ++ [cl] → linesOf m y = h :: ts →
    linesOf m (x ++ y) = I ++ (cl ++ h) :: ts := by
  intro x
  induction x using unit_induction m with
  | nil =>
    intro y I cl h ts _ hx hy
    simp at hx
    cases I with
    | nil => simp at hx; subst hx; simpa using hy
    | cons i I' => simp at hx
  | brk t rest hb ih =>
    intro y I cl h ts ha hx hy
    obtain ⟨B, hB, _, _⟩ := breakAt_split hb
    have ha' : aligned m rest y = true := by rw [hB] at ha; exact aligned_of_append_left ha
    rw [linesOf_break hb] at hx
    rw [linesOf_break (breakAt_append y hb)]
    cases I with
    | nil => simp at hx; exact absurd hx.2 (linesOf_ne_nil m rest)
    | cons i I' =>
      simp at hx
      rw [ih y I' cl h ts ha' hx.2 hy, ← hx.1]; simp
  | chr c r hb ih =>
    intro y I cl h ts ha hx hy
    have ha' : aligned m r y = true := aligned_of_append_left (u := [c]) ha
    obtain ⟨l0, ls0, h1, h2⟩ := linesOf_nobreak hb
    have hb' := breakAt_none_append hb ha
    obtain ⟨l1, ls1, h3, h4⟩ := linesOf_nobreak hb'
    rw [List.cons_append, h4]
    rw [h2] at hx
    cases I with
    | nil =>
      simp at hx
      have := ih y [] l0 h ts ha' (by rw [h1, hx.2]; simp) hy
      rw [this] at h3; simp at h3
      simp [← h3.1, ← h3.2, ← hx.1]
    | cons i I' =>
      simp at hx
      have := ih y (l0 :: I') cl h ts ha' (by rw [h1, hx.2]; simp) hy
      rw [this] at h3; simp at h3
      simp [← h3.1, ← h3.2, ← hx.1]

/-! ### canonical positions -/

@[simp] theorem head!_cons' {α} [Inhabited α] (a : α) (l : List α) : (a :: l).head! = a := rfl

@[simp] theorem getLast!_concat' {α} [Inhabited α] (I : List α) (a : α) :
    (I ++ [a]).getLast! = a := by
  cases h : I ++ [a] with
  | nil => simp at h
  | cons b l =>
    simp only [List.getLast!]
    have : (b :: l).getLast (by simp) = (I ++ [a]).getLast (by simp) := by simp [h]
    rw [this]; simp

@[simp] theorem canonFrom_nil (m : Metrics) (p : Pos) : canonFrom m p [] = p := by
  simp [canonFrom, colWidth]

@[simp] theorem canonFrom_byte (m : Metrics) (p : Pos) (t : Text) :
    (canonFrom m p t).byte = p.byte + bytes t := rfl

@[simp] theorem canon_byte (m : Metrics) (t : Text) : (canon m t).byte = bytes t := by
  simp [canon, Pos.zero]

@[simp] theorem canon_nil (m : Metrics) : canon m [] = Pos.zero := by simp [canon]

theorem canonFrom_append (m : Metrics) : ∀ (x y : Text) (p : Pos), Text.WF (x ++ y) →
    aligned m x y = true → canonFrom m p (x ++ y) = canonFrom m (canonFrom m p x) y := by
  intro x
  induction x using unit_induction m with
  | nil => intro y p _ _; simp
  | brk t rest hb ih =>
    intro y p hwf ha
    obtain ⟨B, hB, _, _⟩ := breakAt_split hb
    have ha' : aligned m rest y = true := by rw [hB] at ha; exact aligned_of_append_left ha
    have hwt := (Text.WF_append.mp hwf).1
    rw [canonFrom_break hwf (breakAt_append y hb), canonFrom_break hwt hb]
    exact ih y _ (Text.WF_append.mpr ⟨WF_of_breakAt hwt hb, (Text.WF_append.mp hwf).2⟩) ha'
  | chr c r hb ih =>
    intro y p hwf ha
    have ha' : aligned m r y = true := aligned_of_append_left (u := [c]) ha
    have hwc : c.WF := (Text.WF_cons.mp (Text.WF_append.mp hwf).1).1
    have hwr : Text.WF (r ++ y) := by
      rw [List.cons_append] at hwf; exact (Text.WF_cons.mp hwf).2
    rw [List.cons_append, canonFrom_nobreak hwc (breakAt_none_append hb ha),
      canonFrom_nobreak hwc hb]
    exact ih y _ hwr ha'

theorem canon_append {m : Metrics} {x y : Text} (hwf : Text.WF (x ++ y))
    (ha : aligned m x y = true) : canon m (x ++ y) = canonFrom m (canon m x) y :=
  canonFrom_append m x y Pos.zero hwf ha

/-- walking over a run of characters without looking for line endings -/
def walk (m : Metrics) (p : Pos) (l : Text) : Pos := l.foldl (stepCh m) p

theorem walk_eq (m : Metrics) (l : Text) (p : Pos) (hwf : Text.WF l) :
    walk m p l = ⟨p.byte + bytes l, p.line, colWidth m.tab p.col l⟩ := by
  induction l generalizing p with
  | nil => simp [walk, colWidth]
  | cons c r ih =>
    have hc := (Text.WF_cons.mp hwf).1
    have := ih (stepCh m p c) (Text.WF_cons.mp hwf).2
    simp only [walk, List.foldl_cons, colWidth] at this ⊢
    rw [this]
    unfold stepCh
    split
    · rename_i h9; have := hc.2 (Or.inl h9); simp [h9]; omega
    · rename_i h9; simp [h9]; omega

theorem canonFrom_noBreak {m : Metrics} {l : Text} (p : Pos) (h : NoBreak m l) :
    canonFrom m p l = ⟨p.byte + bytes l, p.line, colWidth m.tab p.col l⟩ := by
  simp [canonFrom, show linesOf m l = [l] from h]

theorem canonFrom_noBreak_walk {m : Metrics} {l : Text} (p : Pos) (h : NoBreak m l)
    (hwf : Text.WF l) : canonFrom m p l = walk m p l := by
  rw [canonFrom_noBreak p h, walk_eq m l p hwf]

/-! ### current line of a suffix -/

theorem curLineSuf_break {m : Metrics} {t rest : Text} (h : breakAt m t = some rest) :
    curLineSuf m t = [] := by simp [curLineSuf, linesOf_break h]

theorem curLineSuf_nobreak {m : Metrics} {c : Ch} {r : Text} (h : breakAt m (c :: r) = none) :
    curLineSuf m (c :: r) = c :: curLineSuf m r := by
  obtain ⟨l0, ls0, h1, h2⟩ := linesOf_nobreak h
  simp [curLineSuf, h1, h2]

@[simp] theorem curLineSuf_nil (m : Metrics) : curLineSuf m [] = [] := by simp [curLineSuf]

theorem curLineSuf_eq {m : Metrics} {t l : Text} {ls : List Text} (h : linesOf m t = l :: ls) :
    curLineSuf m t = l := by simp [curLineSuf, h]

theorem curLineSuf_noBreak (m : Metrics) (t : Text) : NoBreak m (curLineSuf m t) := by
  cases h : linesOf m t with
  | nil => exact absurd h (linesOf_ne_nil m t)
  | cons l ls => rw [curLineSuf_eq h]; exact linesOf_noBreak m t l (by rw [h]; simp)

theorem lineEndSuf_walk (m : Metrics) (suf : Text) (p : Pos) :
    lineEndSuf m p suf = walk m p (curLineSuf m suf) := by
  induction suf generalizing p with
  | nil => simp [lineEndSuf, walk]
  | cons c r ih =>
    rw [lineEndSuf]
    split
    · rename_i rest hb; simp [curLineSuf_break hb, walk]
    · rename_i hb; rw [ih, curLineSuf_nobreak hb]; simp [walk]

/-- the current line of a suffix is a prefix of it -/
theorem curLineSuf_prefix (m : Metrics) (t : Text) :
    ∃ rem, t = curLineSuf m t ++ rem ∧
      ((rem = [] ∧ (linesOf m t).length = 1) ∨
       (∃ rest, breakAt m rem = some rest ∧ linesOf m t = curLineSuf m t :: linesOf m rest)) := by
  cases h : linesOf m t with
  | nil => exact absurd h (linesOf_ne_nil m t)
  | cons l ls =>
    obtain ⟨rem, h1, h2⟩ := linesOf_decomp m t l ls h
    rw [curLineSuf_eq h]
    refine ⟨rem, h1, ?_⟩
    rcases h2 with ⟨h2, h3⟩ | ⟨rest, h2, h3⟩
    · left; simp [h2, h3]
    · right; exact ⟨rest, h2, by rw [h3]⟩

theorem lineEndSuf_canon {m : Metrics} (suf : Text) (p : Pos) (hwf : Text.WF suf) :
    lineEndSuf m p suf = canonFrom m p (curLineSuf m suf) := by
  obtain ⟨rem, h1, _⟩ := curLineSuf_prefix m suf
  have hw : Text.WF (curLineSuf m suf) := by rw [h1] at hwf; exact (Text.WF_append.mp hwf).1
  rw [lineEndSuf_walk, canonFrom_noBreak_walk p (curLineSuf_noBreak m suf) hw]

/-! ### current line of a prefix -/

theorem linesOf_concat (m : Metrics) (t : Text) : ∃ I cl, linesOf m t = I ++ [cl] := by
  rcases List.eq_nil_or_concat (linesOf m t) with h | ⟨I, cl, h⟩
  · exact absurd h (linesOf_ne_nil m t)
  · exact ⟨I, cl, by simpa using h⟩

theorem curLinePre_eq {m : Metrics} {t cl : Text} {I : List Text} (h : linesOf m t = I ++ [cl]) :
    curLinePre m t = cl := by simp [curLinePre, h]

/-- `t` ends with a line ending -/
def EndsBreak (m : Metrics) (t : Text) : Prop := ∃ u B, t = u ++ B ∧ B.map (·.code) = lbCodes m

/-- everything before the last line: empty or ending with a line ending; same number of lines -/
theorem linesOf_last_decomp (m : Metrics) : ∀ (t : Text) (I : List Text) (cl : Text),
    linesOf m t = I ++ [cl] →
    ∃ pre0, t = pre0 ++ cl ∧ linesOf m pre0 = I ++ [[]] ∧ (pre0 = [] ∨ EndsBreak m pre0) := by
  intro t
  induction t using unit_induction m with
  | nil =>
    intro I cl h
    cases I with
    | nil => simp at h; exact ⟨[], by simp [h], by simp, Or.inl rfl⟩
    | cons i I' => simp at h
  | brk t rest hb ih =>
    intro I cl h
    obtain ⟨B, hB, hBc, _⟩ := breakAt_split hb
    rw [linesOf_break hb] at h
    cases I with
    | nil => simp at h; exact absurd h.2 (linesOf_ne_nil m rest)
    | cons i I' =>
      simp at h
      obtain ⟨r0, h1, h2, h3⟩ := ih I' cl h.2
      refine ⟨B ++ r0, by rw [hB, h1]; simp, ?_, Or.inr ?_⟩
      · rw [linesOf_break (breakAt_of_map r0 hBc), h2, ← h.1]; simp
      · rcases h3 with rfl | ⟨u, B', hu, hB'⟩
        · exact ⟨[], B, by simp, hBc⟩
        · exact ⟨B ++ u, B', by rw [hu]; simp, hB'⟩
  | chr c r hb ih =>
    intro I cl h
    obtain ⟨l0, ls0, h1, h2⟩ := linesOf_nobreak hb
    rw [h2] at h
    cases I with
    | nil =>
      simp at h
      obtain ⟨rem, hr, hcase⟩ := linesOf_decomp m r l0 ls0 h1
      rcases hcase with ⟨hrem, _⟩ | ⟨rest, _, hls⟩
      · refine ⟨[], ?_, by simp, Or.inl rfl⟩
        rw [← h.1, hr, hrem]; simp
      · rw [h.2] at hls; exact absurd hls.symm (linesOf_ne_nil m rest)
    | cons i I' =>
      simp at h
      obtain ⟨r0, h3, h4, h5⟩ := ih (l0 :: I') cl (by rw [h1, h.2]; simp)
      have hb0 : breakAt m (c :: r0) = none := by
        apply breakAt_none_of_append (x := cl); rw [h3] at hb; simpa using hb
      obtain ⟨l1, ls1, h6, h7⟩ := linesOf_nobreak hb0
      rw [h4] at h6; simp at h6
      refine ⟨c :: r0, by rw [h3]; simp, ?_, Or.inr ?_⟩
      · rw [h7, ← h6.1, ← h6.2, ← h.1]; simp
      · rcases h5 with rfl | ⟨u, B', hu, hB'⟩
        · simp at h4
        · exact ⟨c :: u, B', by rw [hu]; simp, hB'⟩

theorem rev_induction {α} {P : List α → Prop} (nil : P [])
    (append_singleton : ∀ l a, P l → P (l ++ [a])) : ∀ l, P l := by
  intro l
  generalize hn : l.length = n
  induction n generalizing l with
  | zero => simp at hn; subst hn; exact nil
  | succ n ih =>
    rcases List.eq_nil_or_concat l with rfl | ⟨l', a, rfl⟩
    · exact nil
    · rw [List.concat_eq_append]
      exact append_singleton l' a (ih l' (by simp at hn; omega))

theorem NoBreak_of_append_left {m : Metrics} {x y : Text} (h : NoBreak m (x ++ y)) :
    NoBreak m x := by
  induction x with
  | nil => exact NoBreak_nil m
  | cons c r ih =>
    obtain ⟨h1, h2⟩ := NoBreak_cons (by simpa using h)
    exact NoBreak_cons_of (breakAt_none_of_append (x := y) (by simpa using h1)) (ih h2)

theorem NoBreak_of_append_right {m : Metrics} {x y : Text} (h : NoBreak m (x ++ y)) :
    NoBreak m y := by
  induction x with
  | nil => simpa using h
  | cons c r ih => exact ih (NoBreak_cons (by simpa using h)).2

theorem NoBreak_breakAt {m : Metrics} {x y : Text} (h : NoBreak m (x ++ y)) :
    breakAt m y = none := by
  have := NoBreak_of_append_right h
  cases y with
  | nil => exact breakAt_nil m
  | cons c r => exact (NoBreak_cons this).1

theorem breakBefore_none_of {m : Metrics} {pre0 cl' : Text} {d : Ch}
    (h : NoBreak m (cl' ++ [d])) (hp : pre0 = [] ∨ EndsBreak m pre0) :
    breakBefore m (d :: (pre0 ++ cl').reverse) = none := by
  have h1 : breakAt m [d] = none := NoBreak_breakAt h
  rcases hle : m.le with _ | _ | _
  · simp [breakAt, breakBefore, lbCodes, hle, stripCodes] at h1 ⊢; exact h1
  · simp [breakAt, breakBefore, lbCodes, hle, stripCodes] at h1 ⊢; exact h1
  · rcases List.eq_nil_or_concat cl' with rfl | ⟨cl'', e, rfl⟩
    · rcases hp with rfl | ⟨u, B, rfl, hB⟩
      · simp [breakBefore, lbCodes, hle, stripCodes]
      · simp only [lbCodes, hle] at hB
        match B, hB with
        | [], hB => simp at hB
        | [_], hB => simp at hB
        | _ :: _ :: _ :: _, hB => simp at hB
        | [b1, b2], hB =>
          simp at hB
          simp [breakBefore, lbCodes, hle, stripCodes, hB.2]
    · have h2 : breakAt m [e, d] = none := by
        apply NoBreak_breakAt (x := cl''); simpa using h
      simp [breakAt, breakBefore, lbCodes, hle, stripCodes] at h2 ⊢
      exact fun a b => h2 b a

theorem breakBefore_of_endsBreak {m : Metrics} {pre0 : Text} (h : EndsBreak m pre0) :
    ∃ c r, pre0.reverse = c :: r ∧ (breakBefore m (c :: r)).isSome := by
  obtain ⟨u, B, rfl, hB⟩ := h
  have hs : breakBefore m (u ++ B).reverse = some u.reverse := by
    unfold breakBefore
    rw [List.reverse_append]
    apply stripCodes_of_map
    rw [List.map_reverse, hB]
  cases hr : (u ++ B).reverse with
  | nil =>
    simp at hr
    rw [hr.1] at hB
    unfold lbCodes at hB; split at hB <;> simp at hB
  | cons c r => exact ⟨c, r, rfl, by rw [← hr, hs]; rfl⟩

/-- `line_start_position`'s backward walk stops exactly before the current line -/
theorem lineStartRev_eq {m : Metrics} (pre0 : Text) (hp : pre0 = [] ∨ EndsBreak m pre0) :
    ∀ (cl : Text) (b : Nat), NoBreak m cl →
      lineStartRev m (pre0 ++ cl).reverse b = (b - bytes cl, pre0.reverse) := by
  intro cl
  induction cl using rev_induction with
  | nil =>
    intro b _
    rcases hp with rfl | hp
    · simp [lineStartRev]
    · obtain ⟨c, r, h1, h2⟩ := breakBefore_of_endsBreak hp
      simp only [List.append_nil, h1, bytes_nil, Nat.sub_zero]
      rw [lineStartRev]
      split
      · rfl
      · rename_i hn; rw [hn] at h2; simp at h2
  | append_singleton cl' d ih =>
    intro b hnb
    have hn := breakBefore_none_of hnb hp
    have : (pre0 ++ (cl' ++ [d])).reverse = d :: (pre0 ++ cl').reverse := by simp
    rw [this, lineStartRev]
    split
    · rename_i hs; rw [hn] at hs; simp at hs
    · rw [ih _ (NoBreak_of_append_left hnb)]
      simp; omega

/-- bundle: the text before the current line, and the current line -/
theorem last_split (m : Metrics) (t : Text) :
    ∃ pre0 cl I, t = pre0 ++ cl ∧ linesOf m t = I ++ [cl] ∧ linesOf m pre0 = I ++ [[]] ∧
      (pre0 = [] ∨ EndsBreak m pre0) ∧ NoBreak m cl ∧ curLinePre m t = cl ∧
      t.take (t.length - cl.length) = pre0 ∧ (I = [] ↔ pre0 = []) := by
  obtain ⟨I, cl, h⟩ := linesOf_concat m t
  obtain ⟨pre0, h1, h2, h3⟩ := linesOf_last_decomp m t I cl h
  refine ⟨pre0, cl, I, h1, h, h2, h3, linesOf_noBreak m t cl (by rw [h]; simp),
    curLinePre_eq h, by rw [h1]; simp, ?_⟩
  constructor
  · rintro rfl
    obtain ⟨rem, hr, hcase⟩ := linesOf_decomp m pre0 [] [] (by simpa using h2)
    rcases hcase with ⟨hrem, _⟩ | ⟨rest, _, hls⟩
    · rw [hr, hrem]; rfl
    · exact absurd hls.symm (linesOf_ne_nil m rest)
  · rintro rfl
    simp at h2
    cases I with
    | nil => rfl
    | cons i I' => simp at h2

/-! ### position-level facts -/

theorem canon_line (m : Metrics) (t : Text) : (canon m t).line = (linesOf m t).length - 1 := by
  simp [canon, canonFrom, Pos.zero]

theorem linesOf_length_pos (m : Metrics) (t : Text) : 0 < (linesOf m t).length :=
  List.length_pos_iff.mpr (linesOf_ne_nil m t)

theorem linesOf_append_length {m : Metrics} {x y : Text} (ha : aligned m x y = true) :
    (linesOf m (x ++ y)).length = (linesOf m x).length + (linesOf m y).length - 1 := by
  obtain ⟨I, cl, hx⟩ := linesOf_concat m x
  cases hy : linesOf m y with
  | nil => exact absurd hy (linesOf_ne_nil m y)
  | cons h ts =>
    rw [linesOf_append m x y I cl h ts ha hx hy, hx]; simp; omega

theorem canon_col_endsBreak {m : Metrics} {x : Text} (hwf : Text.WF x) (h : EndsBreak m x) :
    (canon m x).col = 0 := by
  obtain ⟨u, B, rfl, hB⟩ := h
  have hb : breakAt m B = some [] := by simpa using breakAt_of_map (m := m) [] hB
  rw [canon_append hwf (aligned_of_starts_break hb),
    canonFrom_break (Text.WF_append.mp hwf).2 hb]
  simp

theorem withByteOffset1_eq {p : Pos} {off : Nat} {f : Pos → Res Pos} {q : Pos}
    (h : off ≤ p.byte) (hf : f ⟨p.byte - off, p.line, p.col⟩ = .ok q) :
    Source.withByteOffset1 p off f = .ok ⟨q.byte + off, q.line, q.col⟩ := by
  simp [Source.withByteOffset1, csub_le h, hf]

theorem withByteOffset_eq {p : Pos} {off : Nat} {f : Pos → Res (Option Pos)} {r : Option Pos}
    (h : off ≤ p.byte) (hf : f ⟨p.byte - off, p.line, p.col⟩ = .ok r) :
    Source.withByteOffset p off f = .ok (r.map fun q => ⟨q.byte + off, q.line, q.col⟩) := by
  simp [Source.withByteOffset, csub_le h, hf]

/-- relative `next_position` at a cut -/
theorem nextPosition_cut {m : Metrics} {pre suf : Text} {p : Pos} (hwf : Text.WF pre)
    (hp : p.byte = bytes pre) :
    nextPosition m (pre ++ suf) p = .ok ((stepSuf m p suf).map (·.1)) := by
  simp [nextPosition, hp, splitAtByte_append suf hwf]

/-- relative `line_end_position` at a cut -/
theorem lineEndPosition_cut {m : Metrics} {pre suf : Text} {p : Pos} (hwf : Text.WF (pre ++ suf))
    (hp : p.byte = bytes pre) :
    lineEndPosition m (pre ++ suf) p = .ok (canonFrom m p (curLineSuf m suf)) := by
  obtain ⟨hw1, hw2⟩ := Text.WF_append.mp hwf
  unfold lineEndPosition
  split
  · rename_i h
    have : suf = [] := bytes_eq_zero hw2 (by simp [hp] at h; omega)
    subst this; simp
  · simp [hp, splitAtByte_append suf hw1, lineEndSuf_canon suf p hw2]

/-- relative `line_start_position` at a cut -/
theorem lineStartPosition_cut {m : Metrics} {pre suf : Text} {p : Pos} (hwf : Text.WF pre)
    (hp : p.byte = bytes pre) :
    lineStartPosition m (pre ++ suf) p = .ok ⟨bytes pre - bytes (curLinePre m pre), p.line, 0⟩ := by
  obtain ⟨pre0, cl, I, h1, _, _, h4, h5, h6, _, _⟩ := last_split m pre
  unfold lineStartPosition
  split
  · rename_i h
    have : pre = [] := bytes_eq_zero hwf (by omega)
    subst this; simp
  · simp only [hp, splitAtByte_append suf hwf]
    rw [h6]
    conv => lhs; rw [h1, lineStartRev_eq pre0 h4 cl _ h5]
    rw [← h1]

/-! ### a source with a start offset (window `pre' ++ suf'` after `wa`), raw answers -/

theorem canonFrom_rebase (m : Metrics) (b l c k : Nat) (x : Text) :
    (⟨(canonFrom m ⟨b, l, c⟩ x).byte + k, (canonFrom m ⟨b, l, c⟩ x).line,
      (canonFrom m ⟨b, l, c⟩ x).col⟩ : Pos) = canonFrom m ⟨b + k, l, c⟩ x := by
  simp [canonFrom]; omega

theorem rebase_pos (p : Pos) (k : Nat) (h : k ≤ p.byte) :
    (⟨p.byte - k + k, p.line, p.col⟩ : Pos) = p := by
  cases p; simp at h ⊢; omega

theorem pos_eta (p : Pos) : (⟨p.byte, p.line, p.col⟩ : Pos) = p := rfl

theorem firstUnit_prefix {m : Metrics} {suf u : Text} (h : firstUnit m suf = some u) :
    ∃ rest, suf = u ++ rest ∧ u ≠ [] := by
  unfold firstUnit at h
  split at h
  · rename_i rest hb
    obtain ⟨B, hB, hBc, hBl⟩ := breakAt_split hb
    simp at h
    have : u = B := by rw [← h, hB]; simp
    subst this
    refine ⟨rest, hB, ?_⟩
    intro hn; subst hn; have := lbLen_pos m; simp at hBl; omega
  · cases suf with
    | nil => simp at h
    | cons c r => simp at h; subst h; exact ⟨r, by simp, by simp⟩

theorem stepSuf_firstUnit {m : Metrics} {suf : Text} (p : Pos) (hwf : Text.WF suf) :
    (stepSuf m p suf).map (·.1) = (firstUnit m suf).map (fun u => canonFrom m p u) := by
  cases hb : breakAt m suf with
  | some rest =>
    obtain ⟨B, hB, hBc, hBl⟩ := breakAt_split hb
    have hb' : breakAt m B = some [] := by simpa using breakAt_of_map (m := m) [] hBc
    have : suf.take (suf.length - rest.length) = B := by rw [hB]; simp
    have hwB : Text.WF B := by rw [hB] at hwf; exact (Text.WF_append.mp hwf).1
    simp [stepSuf, firstUnit, hb, this, canonFrom_break hwB hb']
  | none =>
    cases suf with
    | nil => simp [stepSuf, firstUnit, hb]
    | cons c r =>
      have hb' : breakAt m [c] = none := breakAt_none_of_append (x := r) (by simpa using hb)
      simp [stepSuf, firstUnit, hb, canonFrom_nobreak (Text.WF_cons.mp hwf).1 hb']

section window
variable {m : Metrics} {wa pre' suf' : Text}

theorem win_lineEnd (hwf : Text.WF (wa ++ pre' ++ suf'))
    (ha2 : aligned m (wa ++ pre') suf' = true) :
    Source.lineEndPosition ⟨pre' ++ suf', m, canon m wa⟩ (canon m (wa ++ pre')) =
      .ok (canon m (wa ++ pre' ++ curLineSuf m suf')) := by
  obtain ⟨hw12, hw3⟩ := Text.WF_append.mp hwf
  obtain ⟨hw1, hw2⟩ := Text.WF_append.mp hw12
  obtain ⟨rem, hr, _⟩ := curLineSuf_prefix m suf'
  have hal : aligned m (wa ++ pre') (curLineSuf m suf') = true := by
    rw [hr] at ha2; exact aligned_of_append_right ha2
  have hwl : Text.WF (wa ++ pre' ++ curLineSuf m suf') := by
    rw [hr] at hw3; exact Text.WF_append.mpr ⟨hw12, (Text.WF_append.mp hw3).1⟩
  unfold Source.lineEndPosition
  simp only
  rw [withByteOffset1_eq (by simp) (lineEndPosition_cut (Text.WF_append.mpr ⟨hw2, hw3⟩)
    (by simp))]
  rw [canonFrom_rebase, canon_append hwl hal]
  congr 2
  simp only [canon_byte, bytes_append]
  conv => rhs; rw [← pos_eta (canon m (wa ++ pre'))]
  simp only [canon_byte, bytes_append]
  congr 1; omega

theorem win_next (hwf : Text.WF (wa ++ pre' ++ suf'))
    (ha2 : aligned m (wa ++ pre') suf' = true) :
    Source.nextPosition ⟨pre' ++ suf', m, canon m wa⟩ (canon m (wa ++ pre')) =
      .ok ((firstUnit m suf').map fun u => canon m (wa ++ pre' ++ u)) := by
  obtain ⟨hw12, hw3⟩ := Text.WF_append.mp hwf
  obtain ⟨hw1, hw2⟩ := Text.WF_append.mp hw12
  unfold Source.nextPosition
  simp only
  rw [withByteOffset_eq (by simp) (nextPosition_cut hw2 (by simp)), stepSuf_firstUnit _ hw3]
  cases hu : firstUnit m suf' with
  | none => simp
  | some u =>
    obtain ⟨rest, hr, hne⟩ := firstUnit_prefix hu
    have hal : aligned m (wa ++ pre') u = true := by
      rw [hr] at ha2; exact aligned_of_append_right ha2
    have hwl : Text.WF (wa ++ pre' ++ u) := by
      rw [hr] at hw3; exact Text.WF_append.mpr ⟨hw12, (Text.WF_append.mp hw3).1⟩
    simp only [Option.map_some]
    rw [canonFrom_rebase, canon_append hwl hal, rebase_pos _ _ (by simp)]

theorem win_end (hwf : Text.WF (wa ++ pre'))
    (ha1 : aligned m wa pre' = true) :
    Source.endPosition ⟨pre', m, canon m wa⟩ = .ok (canon m (wa ++ pre')) := by
  obtain ⟨hw1, hw2⟩ := Text.WF_append.mp hwf
  have he : Tephra.endPosition m pre' ⟨0, (canon m wa).line, (canon m wa).col⟩ =
      .ok (canonFrom m ⟨0, (canon m wa).line, (canon m wa).col⟩ pre') := by
    unfold Tephra.endPosition
    split
    · rename_i h
      have : pre' = [] := bytes_eq_zero hw2 (by simp at h; omega)
      subst this; simp
    · have : splitAtByte pre' 0 = some ([], pre') := by cases pre' <;> simp [splitAtByte]
      simp [this, endSuf_eq_canonFrom m _ pre' hw2]
  unfold Source.endPosition
  simp only [he, Res.ok_bind]
  rw [canonFrom_rebase, canon_append hwf ha1]
  congr 2
  conv => rhs; rw [← pos_eta (canon m wa)]
  simp

theorem Pos.ext' {a b : Pos} (h1 : a.byte = b.byte) (h2 : a.line = b.line) (h3 : a.col = b.col) :
    a = b := by cases a; cases b; simp at *; exact ⟨h1, h2, h3⟩

theorem EndsBreak_append {m : Metrics} (x : Text) {y : Text} (h : EndsBreak m y) :
    EndsBreak m (x ++ y) := by
  obtain ⟨u, B, rfl, hB⟩ := h
  exact ⟨x ++ u, B, by simp, hB⟩

theorem win_lineStart (hwf : Text.WF (wa ++ pre'))
    (ha1 : aligned m wa pre' = true) (suf' : Text) :
    Source.lineStartPosition ⟨pre' ++ suf', m, canon m wa⟩ (canon m (wa ++ pre')) =
      .ok (if (linesOf m pre').length = 1 then canon m wa
           else canon m (wa ++ pre'.take (pre'.length - (curLinePre m pre').length))) := by
  obtain ⟨hw1, hw2⟩ := Text.WF_append.mp hwf
  obtain ⟨pre0, cl, I, h1, h2, h3, h4, h5, h6, h7, h8⟩ := last_split m pre'
  have hb : bytes pre' - bytes cl = bytes pre0 := by rw [h1]; simp
  unfold Source.lineStartPosition
  simp only
  rw [withByteOffset1_eq (by simp) (lineStartPosition_cut hw2 (by simp)), h6, h7, hb]
  simp only [Res.ok_bind, Res.pure_eq, canon_byte]
  by_cases hI : I = []
  · have hp := h8.mp hI
    subst hI; subst hp
    simp [h2]
  · have hp : pre0 ≠ [] := fun e => hI (h8.mpr e)
    have hw0 : Text.WF pre0 := by rw [h1] at hw2; exact (Text.WF_append.mp hw2).1
    have hpos := bytes_pos hw0 hp
    have hlen : ¬ (linesOf m pre').length = 1 := by
      rw [h2]; cases I with
      | nil => exact absurd rfl hI
      | cons i I' => simp
    have ha0 : aligned m wa pre0 = true := by rw [h1] at ha1; exact aligned_of_append_right ha1
    have hwf0 : Text.WF (wa ++ pre0) := Text.WF_append.mpr ⟨hw1, hw0⟩
    have heb : EndsBreak m pre0 := by rcases h4 with h4 | h4; exact absurd h4 hp; exact h4
    rw [if_neg (by omega), if_neg hlen]
    congr 1
    apply Pos.ext'
    · simp; omega
    · simp only [canon_line, linesOf_append_length ha1, linesOf_append_length ha0, h2, h3]
      simp
    · simp only [canon_col_endsBreak hwf0 (EndsBreak_append wa heb)]

end window

/-! ### C18: widen -/

theorem take_curLinePre_of_single {m : Metrics} {a : Text} (h : (linesOf m a).length = 1) :
    a.take (a.length - (curLinePre m a).length) = [] := by
  obtain ⟨pre0, cl, I, h1, h2, h3, h4, h5, h6, h7, h8⟩ := last_split m a
  rw [h6, h7]
  apply h8.mp
  rw [h2] at h
  cases I with
  | nil => rfl
  | cons i I' => simp at h

theorem bytes_take_le (n : Nat) (a : Text) : bytes (a.take n) ≤ bytes a := by
  have := congrArg bytes (List.take_append_drop n a)
  rw [bytes_append] at this; omega

theorem enclosing_of_le {a b : Pos} (h : a.byte ≤ b.byte) : Span.enclosing a b = ⟨a, b⟩ := by
  simp [Span.enclosing]; omega

/-- zero-offset source: `line_start_position` at an aligned cut -/
theorem src_lineStart {m : Metrics} {pre : Text} (suf : Text) (hwf : Text.WF pre) :
    Source.lineStartPosition ⟨pre ++ suf, m, Pos.zero⟩ (canon m pre) =
      .ok (canon m (pre.take (pre.length - (curLinePre m pre).length))) := by
  have := win_lineStart (m := m) (wa := []) (pre' := pre) (by simpa using hwf) (by simp) suf
  simp only [List.nil_append, canon_nil] at this
  rw [this]
  split
  · rename_i h; rw [take_curLinePre_of_single h]; simp
  · rfl

theorem src_lineEnd {m : Metrics} {pre suf : Text} (hwf : Text.WF (pre ++ suf))
    (ha : aligned m pre suf = true) :
    Source.lineEndPosition ⟨pre ++ suf, m, Pos.zero⟩ (canon m pre) =
      .ok (canon m (pre ++ curLineSuf m suf)) := by
  have := win_lineEnd (m := m) (wa := []) (pre' := pre) (suf' := suf) (by simpa using hwf)
    (by simpa using ha)
  simpa only [List.nil_append, canon_nil] using this

theorem src_next {m : Metrics} {pre suf : Text} (hwf : Text.WF (pre ++ suf))
    (ha : aligned m pre suf = true) :
    Source.nextPosition ⟨pre ++ suf, m, Pos.zero⟩ (canon m pre) =
      .ok ((firstUnit m suf).map fun u => canon m (pre ++ u)) := by
  have := win_next (m := m) (wa := []) (pre' := pre) (suf' := suf) (by simpa using hwf)
    (by simpa using ha)
  simpa only [List.nil_append, canon_nil] using this

theorem widen_correct (m : Metrics) (a mid z : Text) (hwf : Text.WF (a ++ mid ++ z))
    (ha1 : aligned m a (mid ++ z) = true) (ha2 : aligned m (a ++ mid) z = true) :
    (⟨canon m a, canon m (a ++ mid)⟩ : Span).widenToLine ⟨a ++ mid ++ z, m, Pos.zero⟩ =
      .ok (widenSpec m a mid z) := by
  obtain ⟨hw12, hw3⟩ := Text.WF_append.mp hwf
  obtain ⟨hw1, hw2⟩ := Text.WF_append.mp hw12
  unfold Span.widenToLine
  split
  · rename_i hfull
    simp [Span.isFull, Source.len] at hfull
    have e1 : a = [] := bytes_eq_zero hw1 (by omega)
    have e2 : z = [] := bytes_eq_zero hw3 (by omega)
    subst e1; subst e2
    simp [widenSpec]
  · have h1 := src_lineStart (m := m) (pre := a) (mid ++ z) hw1
    have h2 := src_lineEnd (m := m) (pre := a ++ mid) (suf := z) hwf ha2
    rw [← List.append_assoc] at h1
    simp only [h1, h2, Res.ok_bind, Res.pure_eq, widenSpec]
    rw [enclosing_of_le]
    simp only [canon_byte, bytes_append]
    have := bytes_take_le (a.length - (curLinePre m a).length) a
    omega

/-! ### C18: split -/

theorem canon_line_append {m : Metrics} {x y : Text} (ha : aligned m x y = true) :
    (canon m (x ++ y)).line = (canon m x).line + ((linesOf m y).length - 1) := by
  have h1 := linesOf_length_pos m x
  have h2 := linesOf_length_pos m y
  simp only [canon_line, linesOf_append_length ha]; omega

theorem next_done {it : SplitLines} (h : it.start.line > it.stop.line) :
    it.next = .ok (none, it) := by simp [SplitLines.next, h]

theorem next_last {it : SplitLines} (h : it.start.line = it.stop.line) :
    it.next = .ok (some (Span.enclosing it.start it.stop),
      { it with start := { it.start with line := it.start.line + 1 } }) := by
  simp [SplitLines.next, h]

theorem next_more {it : SplitLines} {e q : Pos} (h : it.start.line < it.stop.line)
    (h1 : it.src.lineEndPosition it.start = .ok e) (h2 : it.src.nextPosition e = .ok (some q)) :
    it.next = .ok (some (Span.enclosing it.start e), { it with start := q }) := by
  have h3 : ¬ it.start.line > it.stop.line := by omega
  have h4 : ¬ it.start.line = it.stop.line := by omega
  simp [SplitLines.next, h3, h4, h1, h2]

theorem take_prefix {α} {x T : List α} (rest : List α) (h : T = x ++ rest) :
    T.take x.length = x := by subst h; simp

theorem take_prefix' {α} {x T : List α} {n : Nat} (rest : List α) (h : T = x ++ rest)
    (hn : n = x.length) : T.take n = x := by subst h; subst hn; simp

theorem collect_split (m : Metrics) (wa z' R : Text) : ∀ (L : List Text) (a' mid W T : Text)
    (fuel : Nat), linesOf m mid = L → W = a' ++ mid ++ z' → T = wa ++ a' ++ mid ++ R →
    Text.WF (wa ++ W) → aligned m (wa ++ a') (mid ++ z') = true →
    aligned m (wa ++ a' ++ mid) z' = true → L.length + 1 ≤ fuel →
    SplitLines.collect fuel ⟨⟨W, m, canon m wa⟩, canon m (wa ++ a'), canon m (wa ++ a' ++ mid)⟩ =
      .ok (piecesFrom m T (wa ++ a').length L, 0) := by
  intro L
  induction L with
  | nil => intro a' mid W T fuel hL; exact absurd hL (linesOf_ne_nil m mid)
  | cons l ls ih =>
    intro a' mid W T fuel hL hW hT hwf ha1 ha2 hfuel
    obtain ⟨rem, hmid, hcase⟩ := linesOf_decomp m mid l ls hL
    have hal : aligned m (wa ++ a') mid = true := aligned_of_append_right ha1
    have hline := canon_line_append hal
    rw [hL] at hline
    have hbyte : (canon m (wa ++ a')).byte ≤ (canon m (wa ++ a' ++ mid)).byte := by simp
    rcases hcase with ⟨hrem, hls⟩ | ⟨rest, hb, hls⟩
    · -- single line
      subst hls; subst hrem
      simp at hmid; subst hmid
      obtain ⟨f1, rfl⟩ : ∃ f1, fuel = f1 + 1 := ⟨fuel - 1, by simp at hfuel; omega⟩
      obtain ⟨f2, rfl⟩ : ∃ f2, f1 = f2 + 1 := ⟨f1 - 1, by simp at hfuel; omega⟩
      have hline' : (canon m (wa ++ a' ++ mid)).line = (canon m (wa ++ a')).line := by
        rw [hline]; simp
      rw [SplitLines.collect, next_last hline'.symm]
      simp only
      rw [SplitLines.collect, next_done (by
        show (canon m (wa ++ a')).line + 1 > (canon m (wa ++ a' ++ mid)).line; omega)]
      simp only [SplitLines.len, piecesFrom, enclosing_of_le hbyte, hline']
      have e1 : T.take (wa ++ a').length = wa ++ a' :=
        take_prefix (mid ++ R) (by rw [hT]; simp)
      have e2 : T.take ((wa ++ a').length + mid.length) = wa ++ a' ++ mid :=
        take_prefix' R hT (by simp; omega)
      rw [e1, e2]
      simp
    · -- a line ending inside `mid`
      obtain ⟨B, hB, hBc, hBl⟩ := breakAt_split hb
      have hnb : NoBreak m l := linesOf_noBreak m mid l (by rw [hL]; simp)
      obtain ⟨hwa, hwW⟩ := Text.WF_append.mp hwf
      have hbz : breakAt m (rem ++ z') = some (rest ++ z') := breakAt_append z' hb
      -- the first line of the remaining window text is `l`
      have hcur : curLineSuf m (mid ++ z') = l := by
        have hy : linesOf m (rem ++ z') = [] :: linesOf m (rest ++ z') := linesOf_break hbz
        have := linesOf_append m l (rem ++ z') [] l [] _ (aligned_of_starts_break hbz)
          (by rw [List.nil_append]; exact hnb) hy
        rw [hmid, List.append_assoc]
        exact curLineSuf_eq (by simpa using this)
      have hWf : Text.WF (wa ++ a' ++ (mid ++ z')) := by
        rw [hW] at hwf; simpa [List.append_assoc] using hwf
      have hend := win_lineEnd (m := m) (wa := wa) (pre' := a') (suf' := mid ++ z') hWf ha1
      rw [hcur, ← List.append_assoc a' mid z', ← hW] at hend
      -- next position: after the line ending
      have hW2 : W = (a' ++ l) ++ (rem ++ z') := by rw [hW, hmid]; simp
      have hWf2 : Text.WF (wa ++ (a' ++ l) ++ (rem ++ z')) := by
        rw [hW2] at hwf; simpa [List.append_assoc] using hwf
      have hfu : firstUnit m (rem ++ z') = some B := by
        simp only [firstUnit, hbz]; rw [hB]; simp
      have hnext := win_next (m := m) (wa := wa) (pre' := a' ++ l) (suf' := rem ++ z') hWf2
        (aligned_of_starts_break hbz)
      rw [hfu, ← hW2] at hnext
      simp only [Option.map_some] at hnext
      have he : wa ++ (a' ++ l) = wa ++ a' ++ l := by simp
      rw [he] at hnext
      obtain ⟨f1, rfl⟩ : ∃ f1, fuel = f1 + 1 := ⟨fuel - 1, by simp at hfuel; omega⟩
      have hlt : (canon m (wa ++ a')).line < (canon m (wa ++ a' ++ mid)).line := by
        rw [hline, hls]; have := linesOf_length_pos m rest; simp; omega
      rw [SplitLines.collect, next_more (by simpa using hlt) hend hnext]
      simp only
      -- the rest
      have e3 : wa ++ a' ++ l ++ B = wa ++ (a' ++ l ++ B) := by simp
      have e4 : wa ++ a' ++ mid = wa ++ (a' ++ l ++ B) ++ rest := by rw [hmid, hB]; simp
      have hih := ih (a' ++ l ++ B) rest W T f1 hls.symm (by rw [hW, hmid, hB]; simp)
        (by rw [hT, hmid, hB]; simp) hwf
        (aligned_of_ends_break (u := wa ++ (a' ++ l)) (by rw [← hBc]) |> fun h => by
          simpa [List.append_assoc] using h)
        (by rw [← e4]; exact ha2) (by simp at hfuel ⊢; omega)
      rw [e3, e4, hih]
      simp only [SplitLines.len, piecesFrom]
      have e1 : T.take (wa ++ a').length = wa ++ a' :=
        take_prefix (mid ++ R) (by rw [hT]; simp)
      have e2 : T.take ((wa ++ a').length + l.length) = wa ++ a' ++ l :=
        take_prefix' (rem ++ R) (by rw [hT, hmid]; simp) (by simp; omega)
      have e5 : (wa ++ (a' ++ l ++ B)).length = (wa ++ a').length + l.length + lbLen m := by
        simp [hBl]; omega
      have hbyte2 : (canon m (wa ++ a')).byte ≤ (canon m (wa ++ a' ++ l)).byte := by simp
      rw [e1, e2, e5, enclosing_of_le hbyte2, ← e4, hline, hls]
      congr 3
      have := linesOf_length_pos m rest
      simp; omega

theorem split_correct (m : Metrics) (a mid z : Text) (hwf : Text.WF (a ++ mid ++ z))
    (ha1 : aligned m a (mid ++ z) = true) (ha2 : aligned m (a ++ mid) z = true) (fuel : Nat)
    (hfuel : (linesOf m mid).length + 1 ≤ fuel) :
    (SplitLines.ofSpan ⟨canon m a, canon m (a ++ mid)⟩ ⟨a ++ mid ++ z, m, Pos.zero⟩).collect fuel =
      .ok (splitSpec m a mid z, 0) := by
  have := collect_split m [] z z (linesOf m mid) a mid (a ++ mid ++ z) (a ++ mid ++ z) fuel rfl rfl
    (by simp) (by simpa using hwf) (by simpa using ha1) (by simpa using ha2) hfuel
  simp only [List.nil_append, canon_nil] at this
  exact this

/-! ### C18: the pieces are the lines (spec only) -/

/-- number of characters before line `i` of `L` (line endings of `k` characters) -/
def lineOffset (k : Nat) (L : List Text) (i : Nat) : Nat :=
  ((L.take i).map (fun l => l.length + k)).sum

theorem lineOffset_zero (k : Nat) (L : List Text) : lineOffset k L 0 = 0 := by simp [lineOffset]

theorem lineOffset_succ (k : Nat) (l : Text) (ls : List Text) (i : Nat) :
    lineOffset k (l :: ls) (i + 1) = l.length + k + lineOffset k ls i := by
  simp [lineOffset]

theorem piecesFrom_length (m : Metrics) (t : Text) (L : List Text) (i0 : Nat) :
    (piecesFrom m t i0 L).length = L.length := by
  induction L generalizing i0 with
  | nil => simp [piecesFrom]
  | cons l ls ih => simp [piecesFrom, ih]

theorem piecesFrom_getElem? (m : Metrics) (t : Text) : ∀ (L : List Text) (i0 i : Nat) (l : Text),
    L[i]? = some l →
    (piecesFrom m t i0 L)[i]? = some (L.length - i,
      ⟨canon m (t.take (i0 + lineOffset (lbLen m) L i)),
       canon m (t.take (i0 + lineOffset (lbLen m) L i + l.length))⟩) := by
  intro L
  induction L with
  | nil => intro i0 i l h; simp at h
  | cons l0 ls ih =>
    intro i0 i l h
    cases i with
    | zero =>
      simp at h; subst h
      simp [piecesFrom, lineOffset_zero]
    | succ j =>
      simp only [List.getElem?_cons_succ] at h
      simp only [piecesFrom, List.getElem?_cons_succ, ih _ j l h, lineOffset_succ]
      have e1 : i0 + l0.length + lbLen m + lineOffset (lbLen m) ls j =
          i0 + (l0.length + lbLen m + lineOffset (lbLen m) ls j) := by omega
      have e2 : (l0 :: ls).length - (j + 1) = ls.length - j := by simp
      rw [e1, e2]

/-- line `i` sits in the text at its offset -/
theorem lines_at_offset (m : Metrics) : ∀ (L : List Text) (mid : Text) (i : Nat) (l : Text),
    linesOf m mid = L → L[i]? = some l →
    (mid.drop (lineOffset (lbLen m) L i)).take l.length = l := by
  intro L
  induction L with
  | nil => intro mid i l _ h; simp at h
  | cons l0 ls ih =>
    intro mid i l hL h
    obtain ⟨rem, hmid, hcase⟩ := linesOf_decomp m mid l0 ls hL
    cases i with
    | zero =>
      simp at h; subst h
      rw [lineOffset_zero, hmid]; simp
    | succ j =>
      simp only [List.getElem?_cons_succ] at h
      rcases hcase with ⟨_, hls⟩ | ⟨rest, hb, hls⟩
      · subst hls; simp at h
      · obtain ⟨B, hB, _, hBl⟩ := breakAt_split hb
        have := ih rest j l hls.symm h
        rw [lineOffset_succ, hmid, hB]
        have e : (l0 ++ (B ++ rest)).drop (l0.length + lbLen m + lineOffset (lbLen m) ls j) =
            rest.drop (lineOffset (lbLen m) ls j) := by
          have e0 : l0.length + lbLen m + lineOffset (lbLen m) ls j =
              (l0 ++ B).length + lineOffset (lbLen m) ls j := by simp [hBl]
          rw [e0, ← List.append_assoc, ← List.drop_drop]
          simp
        rw [e, this]

theorem take_drop_append_of_eq {α} {x z l : List α} {o : Nat}
    (h : (x.drop o).take l.length = l) : ((x ++ z).drop o).take l.length = l := by
  have hlen : l.length ≤ (x.drop o).length := by
    have := congrArg List.length h
    simp only [List.length_take] at this
    omega
  rw [List.drop_append, List.take_append_of_le_length hlen, h]

/-- joining the lines with the line ending gives back the text (on code points) -/
theorem lines_join_codes (m : Metrics) : ∀ (mid : Text),
    List.intercalate (lbCodes m) ((linesOf m mid).map (·.map (·.code))) = mid.map (·.code) := by
  intro mid
  induction mid using unit_induction m with
  | nil => simp [List.intercalate]
  | brk t rest hb ih =>
    obtain ⟨B, hB, hBc, _⟩ := breakAt_split hb
    rw [linesOf_break hb]
    cases hl : linesOf m rest with
    | nil => exact absurd hl (linesOf_ne_nil m rest)
    | cons l ls =>
      rw [hl] at ih
      simp only [List.map_cons, List.map_nil] at ih ⊢
      have : List.intercalate (lbCodes m) ([] :: l.map (·.code) :: ls.map (·.map (·.code))) =
          lbCodes m ++ List.intercalate (lbCodes m) (l.map (·.code) :: ls.map (·.map (·.code))) := by
        simp [List.intercalate]
      rw [this, ih, hB, List.map_append, hBc]
  | chr c r hb ih =>
    obtain ⟨l0, ls0, h1, h2⟩ := linesOf_nobreak hb
    rw [h1] at ih
    rw [h2]
    simp only [List.map_cons] at ih ⊢
    rw [← ih]
    cases ls0 with
    | nil => simp [List.intercalate]
    | cons l1 ls1 => simp [List.intercalate]

theorem noBreak_drop {m : Metrics} {l : Text} (h : NoBreak m l) (k : Nat) :
    breakAt m (l.drop k) = none := by
  apply NoBreak_breakAt (x := l.take k)
  rw [List.take_append_drop]; exact h

/-- every line but the last costs at least one byte (its line ending) -/
theorem linesOf_length_le_bytes (m : Metrics) : ∀ (t : Text), Text.WF t →
    (linesOf m t).length ≤ bytes t + 1 := by
  intro t
  induction t using unit_induction m with
  | nil => intro _; simp
  | brk t rest hb ih =>
    intro hwf
    have := ih (WF_of_breakAt hwf hb)
    have h2 := breakAt_bytes hwf hb
    have h3 := lbLen_pos m
    rw [linesOf_break hb]; simp; omega
  | chr c r hb ih =>
    intro hwf
    obtain ⟨l0, ls0, h1, h2⟩ := linesOf_nobreak hb
    have := ih (Text.WF_cons.mp hwf).2
    rw [h1] at this
    rw [h2]; simp at this ⊢; omega

end Tephra.LinesPf
