/-
  TephraProofs.CtxRefine — C15: `run` on a context-operation tree (`probe`,
  `ctxPushed`, `ctxPush`, `ctxLocked`, `raw`, `unrecoverable`, `both`, `center`)
  observes exactly what `Spec.expectedProbes` computes from the tree.
-/
import TephraModel.Run
import TephraProofs.RunMatchers
import TephraModel.Spec.Ctx

namespace Tephra
namespace CtxRefine
open Spec

/-- The probe record `run` writes for an expected probe: the same string
expression as in the `.probe` case of `run`, with `sent` / `applied` computed
from the expectation instead of from the context. -/
def probeLine (R : RunEnv) (lx : Lx) (p : ProbeExp) : String :=
  let tag := p.tag
  let sent := if p.sent then "sent" else "back:" ++ GWire.showErr (mkErr (.probe p.tag))
  let applied := GWire.showErr ⟨p.trail, .probe p.tag⟩
  s!"P{tag}:{sent}:{applied}:{showLexer R lx}"

/-- The errors that reach the sink: one per `sent` probe, in order. -/
def sentErrors (exp : List ProbeExp) : List PErr :=
  (exp.filter (·.sent)).map fun p => ⟨p.trail, .probe p.tag⟩

@[simp] theorem sentErrors_nil : sentErrors [] = [] := rfl
@[simp] theorem sentErrors_append (a b : List ProbeExp) :
    sentErrors (a ++ b) = sentErrors a ++ sentErrors b := by
  simp [sentErrors]

/-- Size of a context-operation tree (`run` needs `ctxDepth g + 1` fuel). -/
def ctxDepth : G → Nat
  | .probe _ => 0
  | .ctxPushed _ a => ctxDepth a + 1
  | .ctxPush _ a => ctxDepth a + 1
  | .ctxLocked _ a => ctxDepth a + 1
  | .raw a => ctxDepth a + 1
  | .unrecoverable a => ctxDepth a + 1
  | .both a b => max (ctxDepth a) (ctxDepth b) + 1
  | .center a b c => max (ctxDepth a) (max (ctxDepth b) (ctxDepth c)) + 1
  | _ => 0

/-- What C15 says about one run. -/
structure TreeObs (R : RunEnv) (lx : Lx) (W : World) (exp : List ProbeExp) (r : RRes × World) : Prop where
  res : ∃ v, r.1 = .ok v lx
  log : r.2.log = W.log ++ sentErrors exp
  probes : r.2.probes = W.probes ++ exp.map (probeLine R lx)
  found : r.2.found = W.found
  specs : r.2.specs = W.specs

theorem TreeObs.trans {R : RunEnv} {lx : Lx} {W W1 : World} {x y : List ProbeExp} {v : Val} {r : RRes × World}
    (h1 : TreeObs R lx W x (.ok v lx, W1)) (h2 : TreeObs R lx W1 y r) : TreeObs R lx W (x ++ y) r := by
  refine ⟨h2.res, ?_, ?_, ?_, ?_⟩
  · rw [h2.log, h1.log]; simp
  · rw [h2.probes, h1.probes]; simp
  · rw [h2.found, h1.found]
  · rw [h2.specs, h1.specs]

theorem run_probe (R : RunEnv) (n : Nat) (tag : Nat) (lx : Lx) (ctx : Ctx) (W : World) :
    TreeObs R lx W [⟨tag, ctx.sink, ctx.chain⟩] (run R (n + 1) (.probe tag) lx ctx W) := by
  cases hs : ctx.sink <;>
    refine ⟨⟨.unit, by simp [run]⟩, ?_, ?_, ?_, ?_⟩ <;>
    simp [run, sendError, hs, sentErrors, probeLine, Ctx.apply, mkErr]

/-- Main lemma: out of fuel, or exactly the expected observations. -/
theorem run_tree (R : RunEnv) (g : G) (active : List Nat) (locked sink : Bool) :
    ∀ (exp : List ProbeExp), expectedProbes g active locked sink = some exp →
    ∀ (n : Nat) (lx : Lx) (ctx : Ctx) (W : World),
      ctx.chain = active → ctx.locked = locked → ctx.sink = sink →
      ((run R n g lx ctx W).1 = .fuel ∧ n ≤ ctxDepth g) ∨ TreeObs R lx W exp (run R n g lx ctx W) := by
  fun_induction expectedProbes g active locked sink with
  | case1 locked t active sink =>
    intro exp h n lx ctx W hc hl hs
    cases h
    cases n with
    | zero => left; simp [run]
    | succ n => right; subst hc hs; exact run_probe R n t lx ctx W
  | case2 t a active sink ih =>
    intro exp h n lx ctx W hc hl hs
    cases n with
    | zero => left; simp [run]
    | succ n =>
      have : ctx.pushed t = ctx := by simp [Ctx.pushed, hl]
      simpa [run, this, ctxDepth] using ih exp h n lx ctx W hc hl hs
  | case3 t a active locked sink hlk ih =>
    intro exp h n lx ctx W hc hl hs
    cases n with
    | zero => left; simp [run]
    | succ n =>
      have hl' : ctx.locked = false := by rw [hl]; simpa using hlk
      have : ctx.pushed t = ⟨ctx.sink, t :: ctx.chain, false⟩ := by simp [Ctx.pushed, hl']
      simpa [run, this, ctxDepth] using ih exp h n lx ⟨ctx.sink, t :: ctx.chain, false⟩ W (by simp [hc]) rfl hs
  | case4 t a active sink ih =>
    intro exp h n lx ctx W hc hl hs
    cases n with
    | zero => left; simp [run]
    | succ n =>
      have : ctx.pushed t = ctx := by simp [Ctx.pushed, hl]
      simpa [run, this, ctxDepth] using ih exp h n lx ctx W hc hl hs
  | case5 t a active locked sink hlk ih =>
    intro exp h n lx ctx W hc hl hs
    cases n with
    | zero => left; simp [run]
    | succ n =>
      have hl' : ctx.locked = false := by rw [hl]; simpa using hlk
      have : ctx.pushed t = ⟨ctx.sink, t :: ctx.chain, false⟩ := by simp [Ctx.pushed, hl']
      simpa [run, this, ctxDepth] using ih exp h n lx ⟨ctx.sink, t :: ctx.chain, false⟩ W (by simp [hc]) rfl hs
  | case6 locked flag a active sink ih =>
    intro exp h n lx ctx W hc hl hs
    cases n with
    | zero => left; simp [run]
    | succ n => simpa [run, ctxDepth] using ih exp h n lx { ctx with locked := flag } W hc rfl hs
  | case7 active locked a sink ih =>
    intro exp h n lx ctx W hc hl hs
    cases n with
    | zero => left; simp [run]
    | succ n => simpa [run, ctxDepth] using ih exp h n lx ctx.rawCtx W rfl rfl hs
  | case8 sink a active locked ih =>
    intro exp h n lx ctx W hc hl hs
    cases n with
    | zero => left; simp [run]
    | succ n => simpa [run, ctxDepth] using ih exp h n lx ctx.withoutSink W hc hl rfl
  | case9 a b active locked sink iha ihb =>
    intro exp h n lx ctx W hc hl hs
    simp only [Option.bind_eq_bind, Option.pure_def, Option.bind_eq_some_iff,
      Option.some.injEq] at h
    obtain ⟨x, hx, y, hy, rfl⟩ := h
    cases n with
    | zero => left; simp [run]
    | succ n =>
      rcases iha x hx n lx ctx W hc hl hs with ha | ha
      · left; refine ⟨?_, by simp only [ctxDepth]; omega⟩
        simp only [run]; split <;> simp_all
      · obtain ⟨v1, hv1⟩ := ha.res
        generalize hr1 : run R n a lx ctx W = r1 at ha hv1
        obtain ⟨q1, W1⟩ := r1
        simp only at hv1; subst hv1
        rcases ihb y hy n lx ctx W1 hc hl hs with hb | hb
        · left; refine ⟨?_, by simp only [ctxDepth]; omega⟩
          simp only [run, hr1]; split <;> simp_all
        · right
          obtain ⟨v2, hv2⟩ := hb.res
          have hb' := ha.trans hb
          generalize hr2 : run R n b lx ctx W1 = r2 at hb' hv2
          obtain ⟨q2, W2⟩ := r2
          simp only at hv2; subst hv2
          simp only [run, hr1, hr2]
          exact ⟨⟨_, rfl⟩, hb'.log, hb'.probes, hb'.found, hb'.specs⟩
  | case10 a b c active locked sink iha ihb ihc =>
    intro exp h n lx ctx W hc hl hs
    simp only [Option.bind_eq_bind, Option.pure_def, Option.bind_eq_some_iff,
      Option.some.injEq] at h
    obtain ⟨x, hx, y, hy, z, hz, rfl⟩ := h
    cases n with
    | zero => left; simp [run]
    | succ n =>
      rcases iha x hx n lx ctx W hc hl hs with ha | ha
      · left; refine ⟨?_, by simp only [ctxDepth]; omega⟩
        simp only [run]; split <;> simp_all
      · obtain ⟨v1, hv1⟩ := ha.res
        generalize hr1 : run R n a lx ctx W = r1 at ha hv1
        obtain ⟨q1, W1⟩ := r1
        simp only at hv1; subst hv1
        rcases ihb y hy n lx ctx W1 hc hl hs with hb | hb
        · left; refine ⟨?_, by simp only [ctxDepth]; omega⟩
          simp only [run, hr1]; split <;> simp_all
        · obtain ⟨v2, hv2⟩ := hb.res
          have hb' := ha.trans hb
          generalize hr2 : run R n b lx ctx W1 = r2 at hb hb' hv2
          obtain ⟨q2, W2⟩ := r2
          simp only at hv2; subst hv2
          rcases ihc z hz n lx ctx W2 hc hl hs with hc' | hc'
          · left; refine ⟨?_, by simp only [ctxDepth]; omega⟩
            simp only [run, hr1, hr2]; split <;> simp_all
          · right
            obtain ⟨v3, hv3⟩ := hc'.res
            have hc'' := hb'.trans hc'
            generalize hr3 : run R n c lx ctx W2 = r3 at hc'' hv3
            obtain ⟨q3, W3⟩ := r3
            simp only at hv3; subst hv3
            simp only [run, hr1, hr2, hr3]
            exact ⟨⟨_, rfl⟩, hc''.log, hc''.probes, hc''.found, hc''.specs⟩
  | case11 => intro exp h; simp_all

end CtxRefine
end Tephra
