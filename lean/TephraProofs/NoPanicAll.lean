/-
  TephraProofs.NoPanicAll — C01, interpreter part, complete: under the scanner
  contract `ScanOK`, for a scanner returning character boundaries of the text,
  from a well-formed lexer whose positions are character boundaries and a world
  whose registered recover closures are the grammar's, `run` never reaches a panic
  site on a grammar within the documented preconditions (`Pre`), every constructor
  of `G` included.

  W.r.t. `NoPanicBr`, the two remaining panic sites:
  * `text`: `Source.sliceBytes` between two positions stored in lexers
    (`NoPanicInv.text_slice`);
  * `list`: the `debug_assert!` on the recover state in `finish` is reached only with a
    non-empty value list and a lexer carrying a recover state; the loop invariant
    "`vals ≠ [] → lexer.recover = none`" holds because `stabilize` clears the state after
    every value and the separator step never recovers (`NoPanicList`).
  One induction on the fuel (`NpAt3`), one lemma per constructor, as in `NoPanicBr`.
-/
import TephraProofs.RunMatchers
import TephraProofs.NoPanicInv
import TephraProofs.NoPanicList

set_option linter.unusedVariables false

namespace Tephra.NoPanic
open Tephra Tephra.Term Tephra.RunSpans

variable {R : RunEnv} {m : Metrics} {len : Nat} {T : Nat → Rec}

/-- no panic at fuel `n`, for every function of the mutual block. -/
structure NpAt3 (R : RunEnv) (m : Metrics) (len : Nat) (T : Nat → Rec) (n : Nat) : Prop where
  run : ∀ g lx ctx W, SL R m len lx → SW R T W → Consistent T g → Pre g → (run R n g lx ctx W).1 ≠ .panic
  listLoop : ∀ v id lo hi a sep abort lexer ctx W vals, SL R m len lexer → SW R T W →
    T id = .sepOrAbort sep abort → Consistent T a → Pre a → (vals ≠ [] → lexer.recover = none) →
    (listLoop R n v id lo hi a sep abort lexer ctx W vals).1 ≠ .panic
  stabValue : ∀ dv id pat body lx ctx res W, SL R m len lx → T id = pat → Consistent T body → Pre body →
    Res R m len T lx (res, W) → res ≠ .panic → (stabValue R n dv id pat body lx ctx res W).1 ≠ .panic
  recoverDefault : ∀ dv id r body lx ctx W, SL R m len lx → SW R T W → T id = r → Consistent T body → Pre body →
    (recoverDefault R n dv id r body lx ctx W).1 ≠ .panic
  stabLoop : ∀ a lx ctx res W, SL R m len lx → Consistent T a → Pre a → Res R m len T lx (res, W) →
    res ≠ .panic → (stabLoop R n a lx ctx res W).1 ≠ .panic
  untilStart : ∀ lo hi stop a sep lx ctx W, SL R m len lx → SW R T W → Consistent T stop → Consistent T a →
    Consistent T sep → hiBelow hi lo = false → Pre stop → Pre a → Pre sep →
    (untilStart R n lo hi stop a sep lx ctx W).1 ≠ .panic
  untilLoop : ∀ lo hi stop a sep vals lx ctx W, SL R m len lx → SW R T W → Consistent T stop → Consistent T a →
    Consistent T sep → Pre stop → Pre a → Pre sep → (untilLoop R n lo hi stop a sep vals lx ctx W).1 ≠ .panic
  sepItem : ∀ a sep lx ctx W, SL R m len lx → SW R T W → Consistent T a → Consistent T sep → Pre a → Pre sep →
    (sepItem R n a sep lx ctx W).1 ≠ .panic
  interLoopStart : ∀ lo hi a sep lx ctx W, SL R m len lx → SW R T W → Consistent T a → Consistent T sep →
    hiBelow hi lo = false → Pre a → Pre sep → (interLoopStart R n lo hi a sep lx ctx W).1 ≠ .panic
  interLoop : ∀ lo hi a sep vals lx ctx W, SL R m len lx → SW R T W → Consistent T a → Consistent T sep →
    Pre a → Pre sep → (interLoop R n lo hi a sep vals lx ctx W).1 ≠ .panic

macro "np3_tac" : tactic => `(tactic|
  (first | done | ((repeat' split) <;> first | (simp; done) |
    grind [Res_ok, Res_err, Res_panic, Res_fuel, Pre, Consistent])))

theorem run_np3_empty {n} (E : Env3 R m len) (ih : NpAt3 R m len T n) :
    ∀ lx ctx W, SL R m len lx → SW R T W → Consistent T (.empty ) → Pre (.empty ) →
      (run R (n+1) (.empty ) lx ctx W).1 ≠ .panic := by
  obtain ⟨h1, h2, h3, h4, h5, h6, h7, h8, h9, h10⟩ := ih
  obtain ⟨k1, k2, k3, k4, k5, k6, k7, k8, k9, k10⟩ := keep_all (T := T) E n
  obtain ⟨f1, f2, f3, f4, f5, f6⟩ := lexFacts3 E
  intro lx ctx W sl sw hc hf
  simp only [run, Pre, Consistent] at hc hf ⊢
  np3_tac

theorem run_np3_one {n} (E : Env3 R m len) (ih : NpAt3 R m len T n) {k} :
    ∀ lx ctx W, SL R m len lx → SW R T W → Consistent T (.one k) → Pre (.one k) →
      (run R (n+1) (.one k) lx ctx W).1 ≠ .panic := by
  obtain ⟨h1, h2, h3, h4, h5, h6, h7, h8, h9, h10⟩ := ih
  obtain ⟨k1, k2, k3, k4, k5, k6, k7, k8, k9, k10⟩ := keep_all (T := T) E n
  obtain ⟨f1, f2, f3, f4, f5, f6⟩ := lexFacts3 E
  intro lx ctx W sl sw hc hf
  simp only [run, Pre, Consistent] at hc hf ⊢
  np3_tac

theorem run_np3_any {n} (E : Env3 R m len) (ih : NpAt3 R m len T n) {ks} :
    ∀ lx ctx W, SL R m len lx → SW R T W → Consistent T (.any ks) → Pre (.any ks) →
      (run R (n+1) (.any ks) lx ctx W).1 ≠ .panic := by
  obtain ⟨h1, h2, h3, h4, h5, h6, h7, h8, h9, h10⟩ := ih
  obtain ⟨k1, k2, k3, k4, k5, k6, k7, k8, k9, k10⟩ := keep_all (T := T) E n
  obtain ⟨f1, f2, f3, f4, f5, f6⟩ := lexFacts3 E
  intro lx ctx W sl sw hc hf
  simp only [run, Pre, Consistent] at hc hf ⊢
  np3_tac

theorem run_np3_anyIndex {n} (E : Env3 R m len) (ih : NpAt3 R m len T n) {ks} :
    ∀ lx ctx W, SL R m len lx → SW R T W → Consistent T (.anyIndex ks) → Pre (.anyIndex ks) →
      (run R (n+1) (.anyIndex ks) lx ctx W).1 ≠ .panic := by
  obtain ⟨h1, h2, h3, h4, h5, h6, h7, h8, h9, h10⟩ := ih
  obtain ⟨k1, k2, k3, k4, k5, k6, k7, k8, k9, k10⟩ := keep_all (T := T) E n
  obtain ⟨f1, f2, f3, f4, f5, f6⟩ := lexFacts3 E
  intro lx ctx W sl sw hc hf
  simp only [run, Pre, Consistent] at hc hf ⊢
  np3_tac

theorem run_np3_seq {n} (E : Env3 R m len) (ih : NpAt3 R m len T n) {ks} :
    ∀ lx ctx W, SL R m len lx → SW R T W → Consistent T (.seq ks) → Pre (.seq ks) →
      (run R (n+1) (.seq ks) lx ctx W).1 ≠ .panic := by
  obtain ⟨h1, h2, h3, h4, h5, h6, h7, h8, h9, h10⟩ := ih
  obtain ⟨k1, k2, k3, k4, k5, k6, k7, k8, k9, k10⟩ := keep_all (T := T) E n
  obtain ⟨f1, f2, f3, f4, f5, f6⟩ := lexFacts3 E
  intro lx ctx W sl sw hc hf
  simp only [run]
  exact seqLoop_ne_panic _ _ _ _

theorem run_np3_seqCount {n} (E : Env3 R m len) (ih : NpAt3 R m len T n) {ks} :
    ∀ lx ctx W, SL R m len lx → SW R T W → Consistent T (.seqCount ks) → Pre (.seqCount ks) →
      (run R (n+1) (.seqCount ks) lx ctx W).1 ≠ .panic := by
  obtain ⟨h1, h2, h3, h4, h5, h6, h7, h8, h9, h10⟩ := ih
  obtain ⟨k1, k2, k3, k4, k5, k6, k7, k8, k9, k10⟩ := keep_all (T := T) E n
  obtain ⟨f1, f2, f3, f4, f5, f6⟩ := lexFacts3 E
  intro lx ctx W sl sw hc hf
  simp only [run]
  exact seqCountLoop_ne_panic _ _ _ _

theorem run_np3_pred {n} (E : Env3 R m len) (ih : NpAt3 R m len T n) {p} :
    ∀ lx ctx W, SL R m len lx → SW R T W → Consistent T (.pred p) → Pre (.pred p) →
      (run R (n+1) (.pred p) lx ctx W).1 ≠ .panic := by
  obtain ⟨h1, h2, h3, h4, h5, h6, h7, h8, h9, h10⟩ := ih
  obtain ⟨k1, k2, k3, k4, k5, k6, k7, k8, k9, k10⟩ := keep_all (T := T) E n
  obtain ⟨f1, f2, f3, f4, f5, f6⟩ := lexFacts3 E
  intro lx ctx W sl sw hc hf
  simp only [run, Pre, Consistent] at hc hf ⊢
  np3_tac

theorem run_np3_endOfText {n} (E : Env3 R m len) (ih : NpAt3 R m len T n) :
    ∀ lx ctx W, SL R m len lx → SW R T W → Consistent T (.endOfText ) → Pre (.endOfText ) →
      (run R (n+1) (.endOfText ) lx ctx W).1 ≠ .panic := by
  obtain ⟨h1, h2, h3, h4, h5, h6, h7, h8, h9, h10⟩ := ih
  obtain ⟨k1, k2, k3, k4, k5, k6, k7, k8, k9, k10⟩ := keep_all (T := T) E n
  obtain ⟨f1, f2, f3, f4, f5, f6⟩ := lexFacts3 E
  intro lx ctx W sl sw hc hf
  simp only [run, Pre, Consistent] at hc hf ⊢
  np3_tac

theorem run_np3_left {n} (E : Env3 R m len) (ih : NpAt3 R m len T n) {a b} :
    ∀ lx ctx W, SL R m len lx → SW R T W → Consistent T (.left a b) → Pre (.left a b) →
      (run R (n+1) (.left a b) lx ctx W).1 ≠ .panic := by
  obtain ⟨h1, h2, h3, h4, h5, h6, h7, h8, h9, h10⟩ := ih
  obtain ⟨k1, k2, k3, k4, k5, k6, k7, k8, k9, k10⟩ := keep_all (T := T) E n
  obtain ⟨f1, f2, f3, f4, f5, f6⟩ := lexFacts3 E
  intro lx ctx W sl sw hc hf
  simp only [run, Pre, Consistent] at hc hf ⊢
  np3_tac

theorem run_np3_right {n} (E : Env3 R m len) (ih : NpAt3 R m len T n) {a b} :
    ∀ lx ctx W, SL R m len lx → SW R T W → Consistent T (.right a b) → Pre (.right a b) →
      (run R (n+1) (.right a b) lx ctx W).1 ≠ .panic := by
  obtain ⟨h1, h2, h3, h4, h5, h6, h7, h8, h9, h10⟩ := ih
  obtain ⟨k1, k2, k3, k4, k5, k6, k7, k8, k9, k10⟩ := keep_all (T := T) E n
  obtain ⟨f1, f2, f3, f4, f5, f6⟩ := lexFacts3 E
  intro lx ctx W sl sw hc hf
  simp only [run, Pre, Consistent] at hc hf ⊢
  np3_tac

theorem run_np3_both {n} (E : Env3 R m len) (ih : NpAt3 R m len T n) {a b} :
    ∀ lx ctx W, SL R m len lx → SW R T W → Consistent T (.both a b) → Pre (.both a b) →
      (run R (n+1) (.both a b) lx ctx W).1 ≠ .panic := by
  obtain ⟨h1, h2, h3, h4, h5, h6, h7, h8, h9, h10⟩ := ih
  obtain ⟨k1, k2, k3, k4, k5, k6, k7, k8, k9, k10⟩ := keep_all (T := T) E n
  obtain ⟨f1, f2, f3, f4, f5, f6⟩ := lexFacts3 E
  intro lx ctx W sl sw hc hf
  simp only [run, Pre, Consistent] at hc hf ⊢
  np3_tac

theorem run_np3_center {n} (E : Env3 R m len) (ih : NpAt3 R m len T n) {a b c} :
    ∀ lx ctx W, SL R m len lx → SW R T W → Consistent T (.center a b c) → Pre (.center a b c) →
      (run R (n+1) (.center a b c) lx ctx W).1 ≠ .panic := by
  obtain ⟨h1, h2, h3, h4, h5, h6, h7, h8, h9, h10⟩ := ih
  obtain ⟨k1, k2, k3, k4, k5, k6, k7, k8, k9, k10⟩ := keep_all (T := T) E n
  obtain ⟨f1, f2, f3, f4, f5, f6⟩ := lexFacts3 E
  intro lx ctx W sl sw hc hf
  simp only [run, Pre, Consistent] at hc hf ⊢
  np3_tac

theorem run_np3_map {n} (E : Env3 R m len) (ih : NpAt3 R m len T n) {a} :
    ∀ lx ctx W, SL R m len lx → SW R T W → Consistent T (.map a) → Pre (.map a) →
      (run R (n+1) (.map a) lx ctx W).1 ≠ .panic := by
  obtain ⟨h1, h2, h3, h4, h5, h6, h7, h8, h9, h10⟩ := ih
  obtain ⟨k1, k2, k3, k4, k5, k6, k7, k8, k9, k10⟩ := keep_all (T := T) E n
  obtain ⟨f1, f2, f3, f4, f5, f6⟩ := lexFacts3 E
  intro lx ctx W sl sw hc hf
  simp only [run, Pre, Consistent] at hc hf ⊢
  np3_tac

theorem run_np3_discard {n} (E : Env3 R m len) (ih : NpAt3 R m len T n) {a} :
    ∀ lx ctx W, SL R m len lx → SW R T W → Consistent T (.discard a) → Pre (.discard a) →
      (run R (n+1) (.discard a) lx ctx W).1 ≠ .panic := by
  obtain ⟨h1, h2, h3, h4, h5, h6, h7, h8, h9, h10⟩ := ih
  obtain ⟨k1, k2, k3, k4, k5, k6, k7, k8, k9, k10⟩ := keep_all (T := T) E n
  obtain ⟨f1, f2, f3, f4, f5, f6⟩ := lexFacts3 E
  intro lx ctx W sl sw hc hf
  simp only [run, Pre, Consistent] at hc hf ⊢
  np3_tac

theorem run_np3_either {n} (E : Env3 R m len) (ih : NpAt3 R m len T n) {a b} :
    ∀ lx ctx W, SL R m len lx → SW R T W → Consistent T (.either a b) → Pre (.either a b) →
      (run R (n+1) (.either a b) lx ctx W).1 ≠ .panic := by
  obtain ⟨h1, h2, h3, h4, h5, h6, h7, h8, h9, h10⟩ := ih
  obtain ⟨k1, k2, k3, k4, k5, k6, k7, k8, k9, k10⟩ := keep_all (T := T) E n
  obtain ⟨f1, f2, f3, f4, f5, f6⟩ := lexFacts3 E
  intro lx ctx W sl sw hc hf
  simp only [run, Pre, Consistent] at hc hf ⊢
  np3_tac

theorem run_np3_maybe {n} (E : Env3 R m len) (ih : NpAt3 R m len T n) {a} :
    ∀ lx ctx W, SL R m len lx → SW R T W → Consistent T (.maybe a) → Pre (.maybe a) →
      (run R (n+1) (.maybe a) lx ctx W).1 ≠ .panic := by
  obtain ⟨h1, h2, h3, h4, h5, h6, h7, h8, h9, h10⟩ := ih
  obtain ⟨k1, k2, k3, k4, k5, k6, k7, k8, k9, k10⟩ := keep_all (T := T) E n
  obtain ⟨f1, f2, f3, f4, f5, f6⟩ := lexFacts3 E
  intro lx ctx W sl sw hc hf
  simp only [run, Pre, Consistent] at hc hf ⊢
  np3_tac

theorem run_np3_requireIf {n} (E : Env3 R m len) (ih : NpAt3 R m len T n) {flag a} :
    ∀ lx ctx W, SL R m len lx → SW R T W → Consistent T (.requireIf flag a) → Pre (.requireIf flag a) →
      (run R (n+1) (.requireIf flag a) lx ctx W).1 ≠ .panic := by
  obtain ⟨h1, h2, h3, h4, h5, h6, h7, h8, h9, h10⟩ := ih
  obtain ⟨k1, k2, k3, k4, k5, k6, k7, k8, k9, k10⟩ := keep_all (T := T) E n
  obtain ⟨f1, f2, f3, f4, f5, f6⟩ := lexFacts3 E
  intro lx ctx W sl sw hc hf
  simp only [run, Pre, Consistent] at hc hf ⊢
  np3_tac

theorem run_np3_cond {n} (E : Env3 R m len) (ih : NpAt3 R m len T n) {flag a} :
    ∀ lx ctx W, SL R m len lx → SW R T W → Consistent T (.cond flag a) → Pre (.cond flag a) →
      (run R (n+1) (.cond flag a) lx ctx W).1 ≠ .panic := by
  obtain ⟨h1, h2, h3, h4, h5, h6, h7, h8, h9, h10⟩ := ih
  obtain ⟨k1, k2, k3, k4, k5, k6, k7, k8, k9, k10⟩ := keep_all (T := T) E n
  obtain ⟨f1, f2, f3, f4, f5, f6⟩ := lexFacts3 E
  intro lx ctx W sl sw hc hf
  simp only [run, Pre, Consistent] at hc hf ⊢
  np3_tac

theorem run_np3_implies {n} (E : Env3 R m len) (ih : NpAt3 R m len T n) {a b} :
    ∀ lx ctx W, SL R m len lx → SW R T W → Consistent T (.implies a b) → Pre (.implies a b) →
      (run R (n+1) (.implies a b) lx ctx W).1 ≠ .panic := by
  obtain ⟨h1, h2, h3, h4, h5, h6, h7, h8, h9, h10⟩ := ih
  obtain ⟨k1, k2, k3, k4, k5, k6, k7, k8, k9, k10⟩ := keep_all (T := T) E n
  obtain ⟨f1, f2, f3, f4, f5, f6⟩ := lexFacts3 E
  intro lx ctx W sl sw hc hf
  simp only [run, Pre, Consistent] at hc hf ⊢
  np3_tac

theorem run_np3_antecedent {n} (E : Env3 R m len) (ih : NpAt3 R m len T n) {a b} :
    ∀ lx ctx W, SL R m len lx → SW R T W → Consistent T (.antecedent a b) → Pre (.antecedent a b) →
      (run R (n+1) (.antecedent a b) lx ctx W).1 ≠ .panic := by
  obtain ⟨h1, h2, h3, h4, h5, h6, h7, h8, h9, h10⟩ := ih
  obtain ⟨k1, k2, k3, k4, k5, k6, k7, k8, k9, k10⟩ := keep_all (T := T) E n
  obtain ⟨f1, f2, f3, f4, f5, f6⟩ := lexFacts3 E
  intro lx ctx W sl sw hc hf
  simp only [run, Pre, Consistent] at hc hf ⊢
  np3_tac

theorem run_np3_consequent {n} (E : Env3 R m len) (ih : NpAt3 R m len T n) {a b} :
    ∀ lx ctx W, SL R m len lx → SW R T W → Consistent T (.consequent a b) → Pre (.consequent a b) →
      (run R (n+1) (.consequent a b) lx ctx W).1 ≠ .panic := by
  obtain ⟨h1, h2, h3, h4, h5, h6, h7, h8, h9, h10⟩ := ih
  obtain ⟨k1, k2, k3, k4, k5, k6, k7, k8, k9, k10⟩ := keep_all (T := T) E n
  obtain ⟨f1, f2, f3, f4, f5, f6⟩ := lexFacts3 E
  intro lx ctx W sl sw hc hf
  simp only [run, Pre, Consistent] at hc hf ⊢
  np3_tac

theorem run_np3_condImplies {n} (E : Env3 R m len) (ih : NpAt3 R m len T n) {a k b} :
    ∀ lx ctx W, SL R m len lx → SW R T W → Consistent T (.condImplies a k b) → Pre (.condImplies a k b) →
      (run R (n+1) (.condImplies a k b) lx ctx W).1 ≠ .panic := by
  obtain ⟨h1, h2, h3, h4, h5, h6, h7, h8, h9, h10⟩ := ih
  obtain ⟨k1, k2, k3, k4, k5, k6, k7, k8, k9, k10⟩ := keep_all (T := T) E n
  obtain ⟨f1, f2, f3, f4, f5, f6⟩ := lexFacts3 E
  intro lx ctx W sl sw hc hf
  simp only [run, Pre, Consistent] at hc hf ⊢
  np3_tac

theorem run_np3_filterWith {n} (E : Env3 R m len) (ih : NpAt3 R m len T n) {mask a} :
    ∀ lx ctx W, SL R m len lx → SW R T W → Consistent T (.filterWith mask a) → Pre (.filterWith mask a) →
      (run R (n+1) (.filterWith mask a) lx ctx W).1 ≠ .panic := by
  obtain ⟨h1, h2, h3, h4, h5, h6, h7, h8, h9, h10⟩ := ih
  obtain ⟨k1, k2, k3, k4, k5, k6, k7, k8, k9, k10⟩ := keep_all (T := T) E n
  obtain ⟨f1, f2, f3, f4, f5, f6⟩ := lexFacts3 E
  intro lx ctx W sl sw hc hf
  simp only [run, Pre, Consistent] at hc hf ⊢
  np3_tac

theorem run_np3_unfiltered {n} (E : Env3 R m len) (ih : NpAt3 R m len T n) {a} :
    ∀ lx ctx W, SL R m len lx → SW R T W → Consistent T (.unfiltered a) → Pre (.unfiltered a) →
      (run R (n+1) (.unfiltered a) lx ctx W).1 ≠ .panic := by
  obtain ⟨h1, h2, h3, h4, h5, h6, h7, h8, h9, h10⟩ := ih
  obtain ⟨k1, k2, k3, k4, k5, k6, k7, k8, k9, k10⟩ := keep_all (T := T) E n
  obtain ⟨f1, f2, f3, f4, f5, f6⟩ := lexFacts3 E
  intro lx ctx W sl sw hc hf
  simp only [run, Pre, Consistent] at hc hf ⊢
  np3_tac

theorem run_np3_sub {n} (E : Env3 R m len) (ih : NpAt3 R m len T n) {a} :
    ∀ lx ctx W, SL R m len lx → SW R T W → Consistent T (.sub a) → Pre (.sub a) →
      (run R (n+1) (.sub a) lx ctx W).1 ≠ .panic := by
  obtain ⟨h1, h2, h3, h4, h5, h6, h7, h8, h9, h10⟩ := ih
  obtain ⟨k1, k2, k3, k4, k5, k6, k7, k8, k9, k10⟩ := keep_all (T := T) E n
  obtain ⟨f1, f2, f3, f4, f5, f6⟩ := lexFacts3 E
  intro lx ctx W sl sw hc hf
  simp only [run, Pre, Consistent] at hc hf ⊢
  np3_tac

theorem run_np3_spanned {n} (E : Env3 R m len) (ih : NpAt3 R m len T n) {a} :
    ∀ lx ctx W, SL R m len lx → SW R T W → Consistent T (.spanned a) → Pre (.spanned a) →
      (run R (n+1) (.spanned a) lx ctx W).1 ≠ .panic := by
  obtain ⟨h1, h2, h3, h4, h5, h6, h7, h8, h9, h10⟩ := ih
  obtain ⟨k1, k2, k3, k4, k5, k6, k7, k8, k9, k10⟩ := keep_all (T := T) E n
  obtain ⟨f1, f2, f3, f4, f5, f6⟩ := lexFacts3 E
  intro lx ctx W sl sw hc hf
  simp only [run, Pre, Consistent] at hc hf ⊢
  np3_tac

theorem run_np3_text {n} (E : Env3 R m len) (ih : NpAt3 R m len T n) {a} :
    ∀ lx ctx W, SL R m len lx → SW R T W → Consistent T (.text a) → Pre (.text a) →
      (run R (n+1) (.text a) lx ctx W).1 ≠ .panic := by
  obtain ⟨h1, h2, h3, h4, h5, h6, h7, h8, h9, h10⟩ := ih
  obtain ⟨k1, k2, k3, k4, k5, k6, k7, k8, k9, k10⟩ := keep_all (T := T) E n
  obtain ⟨f1, f2, f3, f4, f5, f6⟩ := lexFacts3 E
  intro lx ctx W sl sw hc hf
  simp only [run, Pre, Consistent] at hc hf ⊢
  have s1 := f2 lx sl
  have hr := h1 a _ ctx W s1 sw hc hf
  have hk := k1 a _ ctx W s1 sw hc
  split
  · next v lx2 W2 heq =>
    have s2 : SL R m len lx2 := hk.sl (by rw [heq])
    obtain ⟨mid, hm⟩ := text_slice s1 s2
    rw [hm]
    simp
  · exact hr

theorem run_np3_repeat_ {n} (E : Env3 R m len) (ih : NpAt3 R m len T n) {v lo hi a} :
    ∀ lx ctx W, SL R m len lx → SW R T W → Consistent T (.repeat_ v lo hi a) → Pre (.repeat_ v lo hi a) →
      (run R (n+1) (.repeat_ v lo hi a) lx ctx W).1 ≠ .panic := by
  obtain ⟨h1, h2, h3, h4, h5, h6, h7, h8, h9, h10⟩ := ih
  obtain ⟨k1, k2, k3, k4, k5, k6, k7, k8, k9, k10⟩ := keep_all (T := T) E n
  obtain ⟨f1, f2, f3, f4, f5, f6⟩ := lexFacts3 E
  intro lx ctx W sl sw hc hf
  simp only [run, Pre, Consistent] at hc hf ⊢
  exact countOf_ne_panic (h9 _ _ _ _ _ _ _ sl sw hc (by simp [Consistent]) hf.1 hf.2 (by simp [Pre]))

theorem run_np3_repeatUntil {n} (E : Env3 R m len) (ih : NpAt3 R m len T n) {v lo hi stop a} :
    ∀ lx ctx W, SL R m len lx → SW R T W → Consistent T (.repeatUntil v lo hi stop a) → Pre (.repeatUntil v lo hi stop a) →
      (run R (n+1) (.repeatUntil v lo hi stop a) lx ctx W).1 ≠ .panic := by
  obtain ⟨h1, h2, h3, h4, h5, h6, h7, h8, h9, h10⟩ := ih
  obtain ⟨k1, k2, k3, k4, k5, k6, k7, k8, k9, k10⟩ := keep_all (T := T) E n
  obtain ⟨f1, f2, f3, f4, f5, f6⟩ := lexFacts3 E
  intro lx ctx W sl sw hc hf
  simp only [run, Pre, Consistent] at hc hf ⊢
  exact countOf_ne_panic (h6 _ _ _ _ _ _ _ _ sl sw hc.1 hc.2 (by simp [Consistent]) hf.1 hf.2.1 hf.2.2 (by simp [Pre]))

theorem run_np3_intersperse {n} (E : Env3 R m len) (ih : NpAt3 R m len T n) {v lo hi a sep} :
    ∀ lx ctx W, SL R m len lx → SW R T W → Consistent T (.intersperse v lo hi a sep) → Pre (.intersperse v lo hi a sep) →
      (run R (n+1) (.intersperse v lo hi a sep) lx ctx W).1 ≠ .panic := by
  obtain ⟨h1, h2, h3, h4, h5, h6, h7, h8, h9, h10⟩ := ih
  obtain ⟨k1, k2, k3, k4, k5, k6, k7, k8, k9, k10⟩ := keep_all (T := T) E n
  obtain ⟨f1, f2, f3, f4, f5, f6⟩ := lexFacts3 E
  intro lx ctx W sl sw hc hf
  simp only [run, Pre, Consistent] at hc hf ⊢
  exact countOf_ne_panic (h9 _ _ _ _ _ _ _ sl sw hc.1 hc.2 hf.1 hf.2.1 hf.2.2)

theorem run_np3_intersperseUntil {n} (E : Env3 R m len) (ih : NpAt3 R m len T n) {v lo hi stop a sep} :
    ∀ lx ctx W, SL R m len lx → SW R T W → Consistent T (.intersperseUntil v lo hi stop a sep) → Pre (.intersperseUntil v lo hi stop a sep) →
      (run R (n+1) (.intersperseUntil v lo hi stop a sep) lx ctx W).1 ≠ .panic := by
  obtain ⟨h1, h2, h3, h4, h5, h6, h7, h8, h9, h10⟩ := ih
  obtain ⟨k1, k2, k3, k4, k5, k6, k7, k8, k9, k10⟩ := keep_all (T := T) E n
  obtain ⟨f1, f2, f3, f4, f5, f6⟩ := lexFacts3 E
  intro lx ctx W sl sw hc hf
  simp only [run, Pre, Consistent] at hc hf ⊢
  exact countOf_ne_panic (h6 _ _ _ _ _ _ _ _ sl sw hc.1 hc.2.1 hc.2.2 hf.1 hf.2.1 hf.2.2.1 hf.2.2.2)

theorem run_np3_intersperseDefault {n} (E : Env3 R m len) (ih : NpAt3 R m len T n) {lo hi a sepk} :
    ∀ lx ctx W, SL R m len lx → SW R T W → Consistent T (.intersperseDefault lo hi a sepk) → Pre (.intersperseDefault lo hi a sepk) →
      (run R (n+1) (.intersperseDefault lo hi a sepk) lx ctx W).1 ≠ .panic := by
  obtain ⟨h1, h2, h3, h4, h5, h6, h7, h8, h9, h10⟩ := ih
  obtain ⟨k1, k2, k3, k4, k5, k6, k7, k8, k9, k10⟩ := keep_all (T := T) E n
  obtain ⟨f1, f2, f3, f4, f5, f6⟩ := lexFacts3 E
  intro lx ctx W sl sw hc hf
  simp only [run, Pre, Consistent] at hc hf ⊢
  exact h9 _ _ _ _ _ _ _ sl sw hc (by simp [Consistent]) hf.1 hf.2 (by simp [Pre])

theorem run_np3_raw {n} (E : Env3 R m len) (ih : NpAt3 R m len T n) {a} :
    ∀ lx ctx W, SL R m len lx → SW R T W → Consistent T (.raw a) → Pre (.raw a) →
      (run R (n+1) (.raw a) lx ctx W).1 ≠ .panic := by
  obtain ⟨h1, h2, h3, h4, h5, h6, h7, h8, h9, h10⟩ := ih
  obtain ⟨k1, k2, k3, k4, k5, k6, k7, k8, k9, k10⟩ := keep_all (T := T) E n
  obtain ⟨f1, f2, f3, f4, f5, f6⟩ := lexFacts3 E
  intro lx ctx W sl sw hc hf
  simp only [run, Pre, Consistent] at hc hf ⊢
  np3_tac

theorem run_np3_unrecoverable {n} (E : Env3 R m len) (ih : NpAt3 R m len T n) {a} :
    ∀ lx ctx W, SL R m len lx → SW R T W → Consistent T (.unrecoverable a) → Pre (.unrecoverable a) →
      (run R (n+1) (.unrecoverable a) lx ctx W).1 ≠ .panic := by
  obtain ⟨h1, h2, h3, h4, h5, h6, h7, h8, h9, h10⟩ := ih
  obtain ⟨k1, k2, k3, k4, k5, k6, k7, k8, k9, k10⟩ := keep_all (T := T) E n
  obtain ⟨f1, f2, f3, f4, f5, f6⟩ := lexFacts3 E
  intro lx ctx W sl sw hc hf
  simp only [run, Pre, Consistent] at hc hf ⊢
  np3_tac

theorem run_np3_recover {n} (E : Env3 R m len) (ih : NpAt3 R m len T n) {v id a r} :
    ∀ lx ctx W, SL R m len lx → SW R T W → Consistent T (.recover v id a r) → Pre (.recover v id a r) →
      (run R (n+1) (.recover v id a r) lx ctx W).1 ≠ .panic := by
  obtain ⟨h1, h2, h3, h4, h5, h6, h7, h8, h9, h10⟩ := ih
  obtain ⟨k1, k2, k3, k4, k5, k6, k7, k8, k9, k10⟩ := keep_all (T := T) E n
  obtain ⟨f1, f2, f3, f4, f5, f6⟩ := lexFacts3 E
  intro lx ctx W sl sw hc hf
  simp only [run, Pre, Consistent] at hc hf ⊢
  split
  · exact h4 _ _ _ _ _ _ _ sl sw hc.1 (by simpa [Consistent] using hc.2) (by simpa [Pre] using hf)
  · exact h4 _ _ _ _ _ _ _ sl sw hc.1 hc.2 hf

theorem run_np3_stabilize {n} (E : Env3 R m len) (ih : NpAt3 R m len T n) {a} :
    ∀ lx ctx W, SL R m len lx → SW R T W → Consistent T (.stabilize a) → Pre (.stabilize a) →
      (run R (n+1) (.stabilize a) lx ctx W).1 ≠ .panic := by
  obtain ⟨h1, h2, h3, h4, h5, h6, h7, h8, h9, h10⟩ := ih
  obtain ⟨k1, k2, k3, k4, k5, k6, k7, k8, k9, k10⟩ := keep_all (T := T) E n
  obtain ⟨f1, f2, f3, f4, f5, f6⟩ := lexFacts3 E
  intro lx ctx W sl sw hc hf
  simp only [run, Pre, Consistent] at hc hf ⊢
  exact h5 _ _ _ _ _ sl hc hf (k1 _ _ _ _ sl sw hc) (h1 _ _ _ _ sl sw hc hf)

theorem run_np3_bracket {n} (E : Env3 R m len) (ih : NpAt3 R m len T n) {v opens a closes abort} :
    ∀ lx ctx W, SL R m len lx → SW R T W → Consistent T (.bracket v opens a closes abort) → Pre (.bracket v opens a closes abort) →
      (run R (n+1) (.bracket v opens a closes abort) lx ctx W).1 ≠ .panic := by
  obtain ⟨h1, h2, h3, h4, h5, h6, h7, h8, h9, h10⟩ := ih
  obtain ⟨k1, k2, k3, k4, k5, k6, k7, k8, k9, k10⟩ := keep_all (T := T) E n
  obtain ⟨f1, f2, f3, f4, f5, f6⟩ := lexFacts3 E
  intro lx ctx W sl sw hc hf
  simp only [run, Pre, Consistent] at hc hf ⊢
  obtain ⟨hpre, hfa⟩ := hf
  unfold BrPre at hpre
  rw [if_neg (by rw [hpre]; simp)]
  have hml := matchLoop_no_panic E.ok opens closes abort (Span.at_ lx.cursor) (lx.len + 2) lx none [] sl.wf
    (fun h => absurd rfl h) (fun l hl => nomatch hl)
  split
  · simp
  · next hp => exact absurd hp hml
  · simp
  · next o c idx hm =>
    have hm' := matchLoop_cur E.ok opens closes abort _ lx _ lx none [] o c idx sl.wf (Nat.le_refl _)
      (fun l hl => nomatch hl) hm
    have hms := matchLoop_spec (Q := QT) E.cl (qencl_QT _) opens closes abort (Span.at_ lx.cursor) trivial
      (lx.len + 2) lx none [] sl.li (fun ol h => nomatch h)
    rw [hm] at hms
    have slo : SL R m len o := ⟨hm'.1, hms.1⟩
    have sli := f4 _ (f1 o slo)
    have hb : (run R n (if (v % 2 == 0) = true then a.someOf else a) ((o.next R.E).2.intoSublexer R.E) ctx W).1 ≠
        .panic := by
      split
      · exact h1 _ _ _ _ sli sw (by simpa [Consistent] using hc) (by simpa [Pre] using hfa)
      · exact h1 _ _ _ _ sli sw hc hfa
    (repeat' split) <;> first | (simp; done) | exact hb | (simp_all; done)

theorem run_np3_list {n} (E : Env3 R m len) (ih : NpAt3 R m len T n) {v id lo hi a sep abort} :
    ∀ lx ctx W, SL R m len lx → SW R T W → Consistent T (.list v id lo hi a sep abort) → Pre (.list v id lo hi a sep abort) →
      (run R (n+1) (.list v id lo hi a sep abort) lx ctx W).1 ≠ .panic := by
  obtain ⟨h1, h2, h3, h4, h5, h6, h7, h8, h9, h10⟩ := ih
  obtain ⟨k1, k2, k3, k4, k5, k6, k7, k8, k9, k10⟩ := keep_all (T := T) E n
  obtain ⟨f1, f2, f3, f4, f5, f6⟩ := lexFacts3 E
  intro lx ctx W sl sw hc hf
  simp only [run, Pre, Consistent] at hc hf ⊢
  have hnil : ([] : List Val) ≠ [] → lx.recover = none := fun h => absurd rfl h
  by_cases hv : (v % 2 == 0) = true
  · simp only [hv, if_true, hiBelow, Bool.false_eq_true, if_false]
    exact h2 _ _ _ _ _ _ _ _ _ _ _ sl sw hc.1 hc.2 hf.2 hnil
  · have hh : hiBelow hi lo = false := by
      rcases hf.1 with h | h
      · exact absurd (by simpa using h) hv
      · exact h
    simp only [hv, if_false, hh, Bool.false_eq_true]
    split
    · simp
    · exact h2 _ _ _ _ _ _ _ _ _ _ _ sl sw hc.1 hc.2 hf.2 hnil

theorem run_np3_upTo {n} (E : Env3 R m len) (ih : NpAt3 R m len T n) {a abort} :
    ∀ lx ctx W, SL R m len lx → SW R T W → Consistent T (.upTo a abort) → Pre (.upTo a abort) →
      (run R (n+1) (.upTo a abort) lx ctx W).1 ≠ .panic := by
  obtain ⟨h1, h2, h3, h4, h5, h6, h7, h8, h9, h10⟩ := ih
  obtain ⟨k1, k2, k3, k4, k5, k6, k7, k8, k9, k10⟩ := keep_all (T := T) E n
  obtain ⟨f1, f2, f3, f4, f5, f6⟩ := lexFacts3 E
  intro lx ctx W sl sw hc hf
  simp only [run, Pre, Consistent] at hc hf ⊢
  np3_tac

theorem run_np3_probe {n} (E : Env3 R m len) (ih : NpAt3 R m len T n) {tag} :
    ∀ lx ctx W, SL R m len lx → SW R T W → Consistent T (.probe tag) → Pre (.probe tag) →
      (run R (n+1) (.probe tag) lx ctx W).1 ≠ .panic := by
  obtain ⟨h1, h2, h3, h4, h5, h6, h7, h8, h9, h10⟩ := ih
  obtain ⟨k1, k2, k3, k4, k5, k6, k7, k8, k9, k10⟩ := keep_all (T := T) E n
  obtain ⟨f1, f2, f3, f4, f5, f6⟩ := lexFacts3 E
  intro lx ctx W sl sw hc hf
  simp only [run, Pre, Consistent] at hc hf ⊢
  np3_tac

theorem run_np3_ctxPushed {n} (E : Env3 R m len) (ih : NpAt3 R m len T n) {tag a} :
    ∀ lx ctx W, SL R m len lx → SW R T W → Consistent T (.ctxPushed tag a) → Pre (.ctxPushed tag a) →
      (run R (n+1) (.ctxPushed tag a) lx ctx W).1 ≠ .panic := by
  obtain ⟨h1, h2, h3, h4, h5, h6, h7, h8, h9, h10⟩ := ih
  obtain ⟨k1, k2, k3, k4, k5, k6, k7, k8, k9, k10⟩ := keep_all (T := T) E n
  obtain ⟨f1, f2, f3, f4, f5, f6⟩ := lexFacts3 E
  intro lx ctx W sl sw hc hf
  simp only [run, Pre, Consistent] at hc hf ⊢
  np3_tac

theorem run_np3_ctxPush {n} (E : Env3 R m len) (ih : NpAt3 R m len T n) {tag a} :
    ∀ lx ctx W, SL R m len lx → SW R T W → Consistent T (.ctxPush tag a) → Pre (.ctxPush tag a) →
      (run R (n+1) (.ctxPush tag a) lx ctx W).1 ≠ .panic := by
  obtain ⟨h1, h2, h3, h4, h5, h6, h7, h8, h9, h10⟩ := ih
  obtain ⟨k1, k2, k3, k4, k5, k6, k7, k8, k9, k10⟩ := keep_all (T := T) E n
  obtain ⟨f1, f2, f3, f4, f5, f6⟩ := lexFacts3 E
  intro lx ctx W sl sw hc hf
  simp only [run, Pre, Consistent] at hc hf ⊢
  np3_tac

theorem run_np3_ctxLocked {n} (E : Env3 R m len) (ih : NpAt3 R m len T n) {flag a} :
    ∀ lx ctx W, SL R m len lx → SW R T W → Consistent T (.ctxLocked flag a) → Pre (.ctxLocked flag a) →
      (run R (n+1) (.ctxLocked flag a) lx ctx W).1 ≠ .panic := by
  obtain ⟨h1, h2, h3, h4, h5, h6, h7, h8, h9, h10⟩ := ih
  obtain ⟨k1, k2, k3, k4, k5, k6, k7, k8, k9, k10⟩ := keep_all (T := T) E n
  obtain ⟨f1, f2, f3, f4, f5, f6⟩ := lexFacts3 E
  intro lx ctx W sl sw hc hf
  simp only [run, Pre, Consistent] at hc hf ⊢
  np3_tac

theorem run_np3_someOf {n} (E : Env3 R m len) (ih : NpAt3 R m len T n) {a} :
    ∀ lx ctx W, SL R m len lx → SW R T W → Consistent T (.someOf a) → Pre (.someOf a) →
      (run R (n+1) (.someOf a) lx ctx W).1 ≠ .panic := by
  obtain ⟨h1, h2, h3, h4, h5, h6, h7, h8, h9, h10⟩ := ih
  obtain ⟨k1, k2, k3, k4, k5, k6, k7, k8, k9, k10⟩ := keep_all (T := T) E n
  obtain ⟨f1, f2, f3, f4, f5, f6⟩ := lexFacts3 E
  intro lx ctx W sl sw hc hf
  simp only [run, Pre, Consistent] at hc hf ⊢
  np3_tac

theorem run_np3 {n} (E : Env3 R m len) (ih : NpAt3 R m len T n) : ∀ g lx ctx W, SL R m len lx → SW R T W →
    Consistent T g → Pre g → (run R (n+1) g lx ctx W).1 ≠ .panic := by
  intro g
  cases g
  · exact run_np3_empty E ih
  · exact run_np3_one E ih
  · exact run_np3_any E ih
  · exact run_np3_anyIndex E ih
  · exact run_np3_seq E ih
  · exact run_np3_seqCount E ih
  · exact run_np3_pred E ih
  · exact run_np3_endOfText E ih
  · exact run_np3_left E ih
  · exact run_np3_right E ih
  · exact run_np3_both E ih
  · exact run_np3_center E ih
  · exact run_np3_map E ih
  · exact run_np3_discard E ih
  · exact run_np3_either E ih
  · exact run_np3_maybe E ih
  · exact run_np3_requireIf E ih
  · exact run_np3_cond E ih
  · exact run_np3_implies E ih
  · exact run_np3_antecedent E ih
  · exact run_np3_consequent E ih
  · exact run_np3_condImplies E ih
  · exact run_np3_filterWith E ih
  · exact run_np3_unfiltered E ih
  · exact run_np3_sub E ih
  · exact run_np3_spanned E ih
  · exact run_np3_text E ih
  · exact run_np3_repeat_ E ih
  · exact run_np3_repeatUntil E ih
  · exact run_np3_intersperse E ih
  · exact run_np3_intersperseUntil E ih
  · exact run_np3_intersperseDefault E ih
  · exact run_np3_raw E ih
  · exact run_np3_unrecoverable E ih
  · exact run_np3_recover E ih
  · exact run_np3_stabilize E ih
  · exact run_np3_bracket E ih
  · exact run_np3_list E ih
  · exact run_np3_upTo E ih
  · exact run_np3_probe E ih
  · exact run_np3_ctxPushed E ih
  · exact run_np3_ctxPush E ih
  · exact run_np3_ctxLocked E ih
  · exact run_np3_someOf E ih
/-! ### the loop functions -/

theorem recoverDefault_np3 {n} (E : Env3 R m len) (ih : NpAt3 R m len T n) : ∀ dv id r body lx ctx W,
    SL R m len lx → SW R T W → T id = r → Consistent T body → Pre body →
    (recoverDefault R (n+1) dv id r body lx ctx W).1 ≠ .panic := by
  obtain ⟨h1, h2, h3, h4, h5, h6, h7, h8, h9, h10⟩ := ih
  intro dv id r body lx ctx W sl sw hT hc hf
  have hreg := SW_register sw hT
  simp only [recoverDefault]
  np3_tac

theorem stabLoop_np3 {n} (E : Env3 R m len) (ih : NpAt3 R m len T n) : ∀ a lx ctx res W, SL R m len lx →
    Consistent T a → Pre a → Res R m len T lx (res, W) → res ≠ .panic →
    (stabLoop R (n+1) a lx ctx res W).1 ≠ .panic := by
  obtain ⟨h1, h2, h3, h4, h5, h6, h7, h8, h9, h10⟩ := ih
  obtain ⟨k1, k2, k3, k4, k5, k6, k7, k8, k9, k10⟩ := keep_all (T := T) E n
  intro a lx ctx res W sl hc hf hres hne
  cases res with
  | ok v l => simp [stabLoop]
  | fuel => simp [stabLoop]
  | panic => exact absurd rfl hne
  | err e =>
    simp only [stabLoop]
    have sw : SW R T W := hres.sw
    split
    · next lx1 W1 hadv =>
      have ha := adv3 E sl sw hadv
      split
      · simp
      · have hcu : Consistent T (.unrecoverable a) := by simpa [Consistent] using hc
        have hfu : Pre (.unrecoverable a) := by simpa [Pre] using hf
        exact h5 _ _ _ _ _ ha.1 hc hf (k1 (.unrecoverable a) _ _ _ ha.1 ha.2.1 hcu)
          (h1 (.unrecoverable a) _ _ _ ha.1 ha.2.1 hcu hfu)
    · simp

theorem stabValue_np3 {n} (E : Env3 R m len) (ih : NpAt3 R m len T n) : ∀ dv id pat body lx ctx res W,
    SL R m len lx → T id = pat → Consistent T body → Pre body → Res R m len T lx (res, W) → res ≠ .panic →
    (stabValue R (n+1) dv id pat body lx ctx res W).1 ≠ .panic := by
  obtain ⟨h1, h2, h3, h4, h5, h6, h7, h8, h9, h10⟩ := ih
  obtain ⟨k1, k2, k3, k4, k5, k6, k7, k8, k9, k10⟩ := keep_all (T := T) E n
  intro dv id pat body lx ctx res W sl hT hc hf hres hne
  cases res with
  | ok v l => simp [stabValue]
  | fuel => simp [stabValue]
  | panic => exact absurd rfl hne
  | err e =>
    simp only [stabValue]
    have sw : SW R T W := hres.sw
    split
    · next lx1 W1 hadv =>
      have ha := adv3 E sl sw hadv
      split
      · simp
      · exact h3 _ _ _ _ _ _ _ _ ha.1 hT hc hf (k4 dv id pat body lx1 ctx.withoutSink W1 ha.1 ha.2.1 hT hc)
          (h4 dv id pat body lx1 ctx.withoutSink W1 ha.1 ha.2.1 hT hc hf)
    · simp

theorem sepItem_np3 {n} (E : Env3 R m len) (ih : NpAt3 R m len T n) : ∀ a sep lx ctx W, SL R m len lx →
    SW R T W → Consistent T a → Consistent T sep → Pre a → Pre sep →
    (sepItem R (n+1) a sep lx ctx W).1 ≠ .panic := by
  obtain ⟨h1, h2, h3, h4, h5, h6, h7, h8, h9, h10⟩ := ih
  obtain ⟨k1, k2, k3, k4, k5, k6, k7, k8, k9, k10⟩ := keep_all (T := T) E n
  intro a sep lx ctx W sl sw hca hcs hfa hfs
  simp only [sepItem]
  np3_tac

theorem interLoopStart_np3 {n} (E : Env3 R m len) (ih : NpAt3 R m len T n) : ∀ lo hi a sep lx ctx W,
    SL R m len lx → SW R T W → Consistent T a → Consistent T sep → hiBelow hi lo = false → Pre a → Pre sep →
    (interLoopStart R (n+1) lo hi a sep lx ctx W).1 ≠ .panic := by
  obtain ⟨h1, h2, h3, h4, h5, h6, h7, h8, h9, h10⟩ := ih
  obtain ⟨k1, k2, k3, k4, k5, k6, k7, k8, k9, k10⟩ := keep_all (T := T) E n
  intro lo hi a sep lx ctx W sl sw hca hcs hb hfa hfs
  simp only [interLoopStart, hb]
  np3_tac

theorem interLoop_np3 {n} (E : Env3 R m len) (ih : NpAt3 R m len T n) : ∀ lo hi a sep vals lx ctx W,
    SL R m len lx → SW R T W → Consistent T a → Consistent T sep → Pre a → Pre sep →
    (interLoop R (n+1) lo hi a sep vals lx ctx W).1 ≠ .panic := by
  obtain ⟨h1, h2, h3, h4, h5, h6, h7, h8, h9, h10⟩ := ih
  obtain ⟨k1, k2, k3, k4, k5, k6, k7, k8, k9, k10⟩ := keep_all (T := T) E n
  intro lo hi a sep vals lx ctx W sl sw hca hcs hfa hfs
  simp only [interLoop]
  np3_tac

theorem untilStart_np3 {n} (E : Env3 R m len) (ih : NpAt3 R m len T n) : ∀ lo hi stop a sep lx ctx W,
    SL R m len lx → SW R T W → Consistent T stop → Consistent T a → Consistent T sep → hiBelow hi lo = false →
    Pre stop → Pre a → Pre sep → (untilStart R (n+1) lo hi stop a sep lx ctx W).1 ≠ .panic := by
  obtain ⟨h1, h2, h3, h4, h5, h6, h7, h8, h9, h10⟩ := ih
  obtain ⟨k1, k2, k3, k4, k5, k6, k7, k8, k9, k10⟩ := keep_all (T := T) E n
  intro lo hi stop a sep lx ctx W sl sw hct hca hcs hb hft hfa hfs
  simp only [untilStart, hb]
  np3_tac

theorem untilLoop_np3 {n} (E : Env3 R m len) (ih : NpAt3 R m len T n) : ∀ lo hi stop a sep vals lx ctx W,
    SL R m len lx → SW R T W → Consistent T stop → Consistent T a → Consistent T sep → Pre stop → Pre a → Pre sep →
    (untilLoop R (n+1) lo hi stop a sep vals lx ctx W).1 ≠ .panic := by
  obtain ⟨h1, h2, h3, h4, h5, h6, h7, h8, h9, h10⟩ := ih
  obtain ⟨k1, k2, k3, k4, k5, k6, k7, k8, k9, k10⟩ := keep_all (T := T) E n
  intro lo hi stop a sep vals lx ctx W sl sw hct hca hcs hft hfa hfs
  simp only [untilLoop]
  np3_tac

theorem listItem_pre {v : Nat} {a : G} {sep : Nat} {abort : List Nat} (hf : Pre a) : Pre (listItem v a sep abort) := by
  unfold listItem
  split <;> simpa [Pre] using hf

/-- the `list` loop: once a value has been collected the lexer carries no recover state -/
theorem listLoop_np3 {n} (E : Env3 R m len) (ih : NpAt3 R m len T n) :
    ∀ v id lo hi a sep abort lexer ctx W vals, SL R m len lexer → SW R T W → T id = .sepOrAbort sep abort →
      Consistent T a → Pre a → (vals ≠ [] → lexer.recover = none) →
      (listLoop R (n+1) v id lo hi a sep abort lexer ctx W vals).1 ≠ .panic := by
  obtain ⟨h1, h2, h3, h4, h5, h6, h7, h8, h9, h10⟩ := ih
  obtain ⟨k1, k2, k3, k4, k5, k6, k7, k8, k9, k10⟩ := keep_all (T := T) E n
  obtain ⟨f1, f2, f3, f4, f5, f6⟩ := lexFacts3 E
  intro v id lo hi a sep abort lexer ctx W vals sl sw hT hc hf hrec
  have hci : Consistent T (listItem v a sep abort) := listItem_consistent hc
  have hfi : Pre (listItem v a sep abort) := listItem_pre hf
  have hcs : Consistent T (.stabilize (.maybe (listItem v a sep abort))) := by simpa [Consistent] using hci
  have hfs : Pre (.stabilize (.maybe (listItem v a sep abort))) := by simpa [Pre] using hfi
  have hcd : Consistent T (.discard (.one sep)) := by simp [Consistent]
  have hfd : Pre (.discard (.one sep)) := by simp [Pre]
  have hcit : Consistent T (if v < 2 then G.someOf a else a) := by split <;> simpa [Consistent] using hc
  have hpr := (peek_wf E.ok sl.wf).2.2.2
  have sl' := f2 lexer sl
  rw [listLoop_succ]
  split
  · next lexer' heq =>
    simp only [heq] at hpr sl'
    exact listFinish_np (fun h => by rw [hpr]; exact hrec h)
  · next tok lexer' heq =>
    simp only [heq] at hpr sl'
    split
    · split
      · next hv =>
        refine listFinish_np (fun h => ?_)
        cases vals with
        | nil => exact absurd rfl h
        | cons _ _ => simp at hv
      · next hv =>
        have hne : vals ≠ [] := by intro h; subst h; simp at hv
        have hr := h1 _ lexer' ctx W sl' sw hcs hfs
        split
        · exact listFinish_np (fun _ => by rw [hpr]; exact hrec hne)
        · exact listFinish_np (fun _ => by rw [hpr]; exact hrec hne)
        · exact hr
    · have krd := k4 (listDv v) id (.sepOrAbort sep abort) (listItem v a sep abort) lexer' ctx W sl' sw hT hci
      have hrd := h4 (listDv v) id (.sepOrAbort sep abort) (listItem v a sep abort) lexer' ctx W sl' sw hT hci hfi
      have ksv := k3 (listDv v) id (.sepOrAbort sep abort) (listItem v a sep abort) lexer' ctx _ _ sl' hT hci krd
      have hsv := h3 (listDv v) id (.sepOrAbort sep abort) (listItem v a sep abort) lexer' ctx _ _ sl' hT hci hfi
        krd hrd
      split
      · next x lexer1 W1 hs =>
        rw [hs, Res_ok] at ksv
        obtain ⟨sl1, sw1, _⟩ := ksv
        have hst := stabValue_sett E.ok hT hcit n lexer'
          (recoverDefault R n (listDv v) id (.sepOrAbort sep abort) (listItem v a sep abort) lexer' ctx W).1
          (recoverDefault R n (listDv v) id (.sepOrAbort sep abort) (listItem v a sep abort) lexer' ctx W).2
          x lexer1 W1 sl'.wf krd.sw.wok
          (fun v0 l hv => recoverDefault_sett (item := if v < 2 then G.someOf a else a) E.ok sl'.wf sw.wok hT
            (Prod.ext hv rfl)) hs
        split
        · exact listFinish_np (fun _ => hst.1)
        · have hpr1 := (peek_wf E.ok sl1.wf).2.2.2
          have sl2 := f2 lexer1 sl1
          split
          · next lexer2 heq2 =>
            simp only [heq2] at hpr1
            exact listFinish_np (fun _ => by rw [hpr1]; exact hst.1)
          · next t2 lexer2 heq2 =>
            simp only [heq2] at hpr1 sl2
            have hr2 : lexer2.recover = none := by rw [hpr1]; exact hst.1
            split
            · exact listFinish_np (fun _ => hr2)
            · next hab =>
              split
              · exact listFinish_np (fun _ => hr2)
              · next hne =>
                have kr2 := k4 .dflt id (.sepOrAbort sep abort) (.discard (.one sep)) lexer2 ctx W1 sl2 sw1 hT hcd
                have hr2' := h4 .dflt id (.sepOrAbort sep abort) (.discard (.one sep)) lexer2 ctx W1 sl2 sw1 hT hcd hfd
                split
                · next v3 lexer3 W2 heq3 =>
                  rw [heq3, Res_ok] at kr2
                  have h3r := sepStep_recover E.ok sl1.wf hst.2 heq2 (by simpa using hab) (by simpa using hne)
                    hst.1 heq3
                  exact h2 v id lo hi a sep abort _ ctx W2 (x :: vals) (f4 _ kr2.1) kr2.2.1 hT hc hf
                    (fun _ => by rw [(intoSublexer_wf E.ok kr2.1.wf).2.2]; exact h3r)
                · exact hr2'
      · exact hsv

theorem np3_step {n} (E : Env3 R m len) (ih : NpAt3 R m len T n) : NpAt3 R m len T (n+1) :=
  ⟨run_np3 E ih, listLoop_np3 E ih, stabValue_np3 E ih, recoverDefault_np3 E ih, stabLoop_np3 E ih,
   untilStart_np3 E ih, untilLoop_np3 E ih, sepItem_np3 E ih, interLoopStart_np3 E ih, interLoop_np3 E ih⟩

theorem np3_zero : NpAt3 R m len T 0 := by
  constructor <;> intros <;> simp [run, listLoop, stabValue, recoverDefault, stabLoop, untilStart, untilLoop,
    sepItem, interLoopStart, interLoop]

theorem np3_all (E : Env3 R m len) : ∀ n, NpAt3 R m len T n := by
  intro n
  induction n with
  | zero => exact np3_zero
  | succ n ih => exact np3_step E ih

/-- `run` does not panic, within the documented preconditions: all of `G`. -/
theorem run_no_panic_all (E : Env3 R m len) (n : Nat) (g : G) (lx : Lx) (ctx : Ctx) (W : World)
    (sl : SL R m len lx) (sw : SW R T W) (hc : Consistent T g) (hf : Pre g) : (run R n g lx ctx W).1 ≠ .panic :=
  (np3_all E n).run g lx ctx W sl sw hc hf

theorem SL_new (s0 : Nat) : SL R m len (Lexer.new s0 m len) :=
  ⟨wf_new s0, ⟨LexInv.new_pos (P := Bd R) (by simp [Bd, Pos.zero, splitAtByte_zero]) s0 m len, rfl⟩⟩

theorem SW_init : SW R T World.init := ⟨WOK_init, fun _ h => nomatch h⟩

end Tephra.NoPanic
