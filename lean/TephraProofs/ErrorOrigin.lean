/-
  TephraProofs.ErrorOrigin — C13 for composite parsers, all of `G`.

  Every `UnexpectedToken { es, ts, exp, found }` that `run` returns or sends to
  the sink was created by a primitive at a lexer that sits on the raw token
  stream `raw` of the original lexer:

  * `found = Token t`: `t` is a raw token `r ∈ raw` with `ts` exactly its span;
    there is a byte offset `c` with `es.e ≤ c ≤ r.start` (the cursor of the lexer
    at which the primitive looked for its token) and a filter `f` (the filter in
    force there: the original lexer's, or one installed by a `filter_with` /
    `unfiltered` node of the grammar) such that `f` keeps `r` and rejects every
    raw token that starts in `[c, r.start)` — `r` is the first kept token from
    `c` on;
  * `found = EndOfText`: with such `f` and `c ≥ es.e`, `f` rejects every raw
    token that starts at or after `c` — no kept token remains.

  Route: the invariant `J raw F lx` (`LexIter.Inv`, the filter of `lx` is in `F`,
  `raw = pre ++ rawAt lx.scanner lx.cursor` with every token of `pre` starting
  before the cursor) is preserved by every lexer method `run` uses on a lexer it
  keeps; the primitives create errors that satisfy `UnexpAt`; every other
  constructor passes errors on, sends them to the sink (only the trail
  changes), or creates errors of another kind.  One induction on the fuel over
  the whole mutual block (`SpAt`, as `RunSpans.SpAt`).
-/
import TephraProofs.RunMatchers
import TephraProofs.LeafUnexpected
import TephraProofs.BracketRefine
import TephraProofs.PegRefine
import TephraProofs.RunSpans

set_option linter.unusedVariables false

namespace Tephra
open Tephra.Spec

namespace ErrOrigin
open LexIter PegRefine

/-! ### order facts about a tiled stream -/

section Lists
variable {τ : Type}

theorem tiles_mem : ∀ (l : List (RawTok τ)) (p : Pos), tiles p l = true →
    ∀ x ∈ l, p.byte ≤ x.start.byte ∧ x.start.byte < x.stop.byte := by
  intro l
  induction l with
  | nil => intro p _ x hx; cases hx
  | cons a t ih =>
    intro p h x hx
    simp only [tiles, Bool.and_eq_true, beq_iff_eq, decide_eq_true_eq] at h
    obtain ⟨⟨h1, h2⟩, h3⟩ := h
    rcases List.mem_cons.mp hx with rfl | hx
    · rw [← h1]; exact ⟨Nat.le_refl _, h2⟩
    · have := ih a.stop h3 x hx
      rw [← h1]
      exact ⟨by omega, this.2⟩

theorem tiles_append : ∀ (a : List (RawTok τ)) (p : Pos) (r : RawTok τ) (b : List (RawTok τ)),
    tiles p (a ++ r :: b) = true →
    (∀ x ∈ a, x.start.byte < r.start.byte) ∧ p.byte ≤ r.start.byte ∧ r.start.byte < r.stop.byte ∧
      (∀ x ∈ b, r.stop.byte ≤ x.start.byte) := by
  intro a
  induction a with
  | nil =>
    intro p r b h
    simp only [List.nil_append, tiles, Bool.and_eq_true, beq_iff_eq, decide_eq_true_eq] at h
    obtain ⟨⟨h1, h2⟩, h3⟩ := h
    refine ⟨(by intro x hx; cases hx), (by rw [h1]; exact Nat.le_refl _), h2, ?_⟩
    intro x hx
    exact (tiles_mem b r.stop h3 x hx).1
  | cons a0 a ih =>
    intro p r b h
    simp only [List.cons_append, tiles, Bool.and_eq_true, beq_iff_eq, decide_eq_true_eq] at h
    obtain ⟨⟨h1, h2⟩, h3⟩ := h
    obtain ⟨i1, i2, i3, i4⟩ := ih a0.stop r b h3
    refine ⟨?_, by rw [← h1]; omega, i3, i4⟩
    intro x hx
    rcases List.mem_cons.mp hx with rfl | hx
    · omega
    · exact i1 x hx

theorem dropWhile_nil_all {α} {p : α → Bool} : ∀ {l : List α}, l.dropWhile p = [] → ∀ x ∈ l, p x = true := by
  intro l
  induction l with
  | nil => intro _ x hx; cases hx
  | cons a t ih =>
    intro h x hx
    rw [List.dropWhile_cons] at h
    split at h
    · next ha =>
      rcases List.mem_cons.mp hx with rfl | hx
      · exact ha
      · exact ih h x hx
    · cases h

end Lists

/-! ### "first kept token from `c` on" / "no kept token from `c` on" -/

/-- `r` is a token of `raw`, it starts at or after byte `c`, the filter `f`
keeps it and rejects every token of `raw` that starts in `[c, r.start)`. -/
def Fst (E : LexEnv Nat Tok) (raw : List (RawTok Tok)) (f : Option Nat) (c : Nat) (r : RawTok Tok) : Prop :=
  r ∈ raw ∧ c ≤ r.start.byte ∧ keepOf E f r.tok = true ∧
  ∀ x ∈ raw, c ≤ x.start.byte → x.start.byte < r.start.byte → keepOf E f x.tok = false

/-- the filter `f` rejects every token of `raw` that starts at or after byte `c` -/
def NoneLeft (E : LexEnv Nat Tok) (raw : List (RawTok Tok)) (f : Option Nat) (c : Nat) : Prop :=
  ∀ x ∈ raw, c ≤ x.start.byte → keepOf E f x.tok = false

variable {E : LexEnv Nat Tok} {m : Metrics} {len : Nat} {raw : List (RawTok Tok)} {F : Option Nat → Prop}

/-- the lexer sits on `raw`: what the scanner still has to produce from the
lexer's scanner state / cursor is a suffix of `raw`, and everything before it
starts before the cursor -/
def On (E : LexEnv Nat Tok) (m : Metrics) (len : Nat) (raw : List (RawTok Tok)) (lx : Lx) : Prop :=
  ∃ pre, raw = pre ++ rawAt E m len lx.scanner lx.cursor ∧ ∀ x ∈ pre, x.start.byte < lx.cursor.byte

theorem On.congr {lx lx' : Lx} (h : On E m len raw lx) (hs : lx'.scanner = lx.scanner) (hc : lx'.cursor = lx.cursor) :
    On E m len raw lx' := by
  unfold On; rw [hs, hc]; exact h

theorem on_cons (ok : ScanOK E m len) {lx : Lx} (h : On E m len raw lx) {r post}
    (hD : D E m len lx = r :: post) :
    Fst E raw lx.filter lx.cursor.byte r ∧
      ∃ pre', raw = pre' ++ post ∧ ∀ x ∈ pre', x.start.byte < r.stop.byte := by
  obtain ⟨pre, hraw, hpre⟩ := h
  have ht : tiles lx.cursor (rawAt E m len lx.scanner lx.cursor) = true := tiles_rawFrom ok _ _ _
  have hsplit := (List.takeWhile_append_dropWhile (p := fun r : RawTok Tok => !keepOf E lx.filter r.tok)
    (l := rawAt E m len lx.scanner lx.cursor)).symm
  have hD' : (rawAt E m len lx.scanner lx.cursor).dropWhile (fun r => !keepOf E lx.filter r.tok) = r :: post := hD
  rw [hD'] at hsplit
  generalize hq : (rawAt E m len lx.scanner lx.cursor).takeWhile (fun r => !keepOf E lx.filter r.tok) = tw at hsplit
  have htw : ∀ x ∈ tw, keepOf E lx.filter x.tok = false := by
    intro x hx
    rw [← hq] at hx
    have := List.all_eq_true.mp (List.all_takeWhile (p := fun r : RawTok Tok => !keepOf E lx.filter r.tok)
      (l := rawAt E m len lx.scanner lx.cursor)) x hx
    simpa using this
  have hk : keepOf E lx.filter r.tok = true := by simpa using dropWhile_cons_inv hD'
  rw [hsplit] at ht hraw
  obtain ⟨t1, t2, t3, t4⟩ := tiles_append _ _ _ _ ht
  refine ⟨⟨by rw [hraw]; simp, t2, hk, ?_⟩, pre ++ tw ++ [r], by rw [hraw]; simp, ?_⟩
  · intro x hx hc hlt
    rw [hraw] at hx
    simp only [List.mem_append, List.mem_cons] at hx
    rcases hx with hx | hx | rfl | hx
    · have := hpre x hx; omega
    · exact htw x hx
    · omega
    · have := t4 x hx; omega
  · intro x hx
    simp only [List.mem_append, List.mem_cons, List.not_mem_nil, or_false] at hx
    rcases hx with (hx | hx) | rfl
    · have := hpre x hx; omega
    · have := t1 x hx; omega
    · exact t3

theorem on_nil {lx : Lx} (h : On E m len raw lx) (hD : D E m len lx = []) :
    NoneLeft E raw lx.filter lx.cursor.byte := by
  obtain ⟨pre, hraw, hpre⟩ := h
  have hD' : (rawAt E m len lx.scanner lx.cursor).dropWhile (fun r => !keepOf E lx.filter r.tok) = [] := hD
  intro x hx hc
  rw [hraw] at hx
  rcases List.mem_append.mp hx with hx | hx
  · have := hpre x hx; omega
  · simpa using dropWhile_nil_all hD' x hx

/-! ### `buffer_next` stays on the stream -/

theorem bufferLoop_on (ok : ScanOK E m len) (lx : Lx) (ps : Nat) (pc : Pos)
    (hm : lx.metrics = m) (hl : lx.len = len) (hps : ps = lx.scanner) (hpc : pc = lx.cursor)
    (h : On E m len raw lx) : On E m len raw (Lexer.bufferLoop E true lx ps pc) := by
  fun_induction Lexer.bufferLoop E true lx ps pc with
  | case1 lx ps pc s' heq => exact h
  | case2 lx ps pc tok adv ps' heq hf lx' hg ih =>
    subst hm hps hpc
    apply ih (by simp [lx']) (by simp [lx', hl]) (by simp [lx']) (by simp [lx'])
    obtain ⟨pre, hraw, hpre⟩ := h
    have hp := ok.progress _ _ _ _ _ heq
    refine ⟨pre ++ [⟨tok, lx.cursor, adv⟩], ?_, ?_⟩
    · rw [hraw, rawAt_some ok heq]; simp [lx']
    · intro x hx
      simp only [List.mem_append, List.mem_cons, List.not_mem_nil, or_false] at hx
      rcases hx with hx | rfl
      · have := hpre x hx; simp [lx']; omega
      · simp [lx']; omega
  | case3 lx ps pc tok adv ps' heq hf lx' hg =>
    subst hm
    have := ok.progress _ _ _ _ _ heq
    omega
  | case4 lx ps pc tok adv ps' heq hf => exact h.congr rfl rfl

theorem bufferNext_on (ok : ScanOK E m len) {f} {lx : Lx} (inv : Inv E m len f lx)
    (h : On E m len raw lx) : On E m len raw (lx.bufferNext E) := by
  unfold Lexer.bufferNext
  split
  · exact h
  · cases hbeh : (lx.parseStart == lx.cursor)
    · rcases bufferLoop_ahead ok lx lx.scanner lx.cursor inv.hmet inv.hlen with e | ⟨b, e, _⟩
      · rw [e]; exact h
      · rw [e]; exact h.congr rfl rfl
    · exact bufferLoop_on ok lx lx.scanner lx.cursor inv.hmet inv.hlen rfl rfl h

/-! ### the lexer invariant -/

/-- The invariant of every lexer `run` keeps: well-formed (`LexIter.Inv`), its
filter is one of `F`, and it sits on `raw`. -/
structure J (E : LexEnv Nat Tok) (m : Metrics) (len : Nat) (raw : List (RawTok Tok)) (F : Option Nat → Prop)
    (lx : Lx) : Prop where
  inv : Inv E m len lx.filter lx
  fil : F lx.filter
  on : On E m len raw lx

theorem J.of_inv {f} {lx : Lx} (i : Inv E m len f lx) (hf : F f) (on : On E m len raw lx) : J E m len raw F lx :=
  ⟨by rw [i.hfil]; exact i, by rw [i.hfil]; exact hf, on⟩

theorem J_bufferNext (ok : ScanOK E m len) {lx : Lx} (h : J E m len raw F lx) : J E m len raw F (lx.bufferNext E) :=
  J.of_inv (bufferNext_spec ok h.inv).1 h.fil (bufferNext_on ok h.inv h.on)

theorem J_peek (ok : ScanOK E m len) {lx : Lx} (h : J E m len raw F lx) : J E m len raw F (lx.peek E).2 := by
  unfold Lexer.peek
  split
  · exact h
  · exact J_bufferNext ok h

theorem J_peek' (ok : ScanOK E m len) {lx lx' : Lx} {o : Option Tok} (h : J E m len raw F lx)
    (e : lx.peek E = (o, lx')) : J E m len raw F lx' := by
  have := J_peek ok h; rwa [e] at this

theorem J_setRecoverState {lx : Lx} (r : Option Nat) (h : J E m len raw F lx) :
    J E m len raw F (lx.setRecoverState r) :=
  ⟨⟨h.inv.hmet, h.inv.hlen, rfl, h.inv.ps_le, h.inv.ts, h.inv.buf⟩, h.fil, h.on⟩

theorem J_setFilter (ok : ScanOK E m len) {lx : Lx} (f : Option Nat) (hf : F f) (h : J E m len raw F lx) :
    J E m len raw F (lx.setFilter E f).2 := by
  have i0 : Inv E m len f ({ lx with filter := f, buffer := none } : Lx) :=
    ⟨h.inv.hmet, h.inv.hlen, rfl, h.inv.ps_le, h.inv.ts, fun _ hb => nomatch hb⟩
  have o0 : On E m len raw ({ lx with filter := f, buffer := none } : Lx) := h.on.congr rfl rfl
  exact J.of_inv (bufferNext_spec ok i0).1 hf (bufferNext_on ok i0 o0)

theorem J_intoSublexer (ok : ScanOK E m len) {lx : Lx} (h : J E m len raw F lx) :
    J E m len raw F (lx.intoSublexer E) := by
  have i0 : Inv E m len lx.filter ({ lx with parseStart := lx.cursor, tokenStart := lx.cursor } : Lx) :=
    ⟨h.inv.hmet, h.inv.hlen, rfl, Nat.le_refl _, fun _ => rfl, h.inv.buf⟩
  have o0 : On E m len raw ({ lx with parseStart := lx.cursor, tokenStart := lx.cursor } : Lx) := h.on.congr rfl rfl
  exact J.of_inv (bufferNext_spec ok i0).1 h.fil (bufferNext_on ok i0 o0)

/-- parse-so-far span of a well-formed lexer ends at the cursor -/
theorem es_le {lx : Lx} (h : J E m len raw F lx) : lx.parseSpan.e.byte ≤ lx.cursor.byte := by
  have e : lx.parseSpan = ⟨lx.parseStart, lx.cursor⟩ := LexIter.enclosing_le h.inv.ps_le
  rw [e]; exact Nat.le_refl _

/-- an advance from a lexer whose remaining stream starts with `r` -/
theorem next_of_D (ok : ScanOK E m len) {lx : Lx} (h : J E m len raw F lx) {r post}
    (hD : D E m len lx = r :: post) :
    ∃ lx', lx.next E = (some r.tok, lx') ∧ J E m len raw F lx' ∧ lx'.tokenSpan = ⟨r.start, r.stop⟩ ∧
      lx.cursor.byte ≤ lx'.cursor.byte ∧ Fst E raw lx.filter lx.cursor.byte r := by
  obtain ⟨lx', e, i', h2, h3, h4, h5, h6, h7, h8⟩ := (next_spec ok h.inv).2 r post hD
  obtain ⟨hf, pre', hraw, hpre⟩ := on_cons ok h.on hD
  refine ⟨lx', e, J.of_inv i' h.fil ⟨pre', by rw [h2]; exact hraw, by rw [h3]; exact hpre⟩, ?_, by rw [h3]; omega, hf⟩
  unfold Lexer.tokenSpan; rw [h3, h4]; exact LexIter.enclosing_le (by omega)

theorem next_some_J (ok : ScanOK E m len) {lx lx' : Lx} {t : Tok} (h : J E m len raw F lx)
    (e : lx.next E = (some t, lx')) :
    J E m len raw F lx' ∧ lx.cursor.byte ≤ lx'.cursor.byte ∧
      ∃ r, r.tok = t ∧ Fst E raw lx.filter lx.cursor.byte r ∧ lx'.tokenSpan = ⟨r.start, r.stop⟩ := by
  cases hD : D E m len lx with
  | nil => have := (next_spec ok h.inv).1 hD; rw [e] at this; cases this
  | cons r post =>
    obtain ⟨lx'', e', j', hts, hmono, hf⟩ := next_of_D ok h hD
    rw [e] at e'; cases e'
    exact ⟨j', hmono, r, rfl, hf, hts⟩

theorem next_none_J (ok : ScanOK E m len) {lx lx' : Lx} (h : J E m len raw F lx)
    (e : lx.next E = (none, lx')) : NoneLeft E raw lx.filter lx.cursor.byte := by
  cases hD : D E m len lx with
  | nil => exact on_nil h.on hD
  | cons r post =>
    obtain ⟨lx'', e', _⟩ := next_of_D ok h hD
    rw [e] at e'; cases e'

theorem peek_some_J (ok : ScanOK E m len) {lx lx' : Lx} {t : Tok} (h : J E m len raw F lx)
    (e : lx.peek E = (some t, lx')) :
    J E m len raw F lx' ∧ J E m len raw F (lx'.next E).2 ∧
      ∃ r, r.tok = t ∧ Fst E raw lx.filter lx.cursor.byte r ∧ lx'.peekTokenSpan = some ⟨r.start, r.stop⟩ := by
  have j' := J_peek' ok h e
  obtain ⟨p1, p2⟩ := BracketRefine.peek_spec ok h.inv
  cases hD : D E m len lx with
  | nil => have := p1 hD; rw [e] at this; cases this
  | cons r post =>
    obtain ⟨lx'', e', i', hD', hsp⟩ := p2 r post hD
    rw [e] at e'; cases e'
    obtain ⟨lx3, e3, j3, _⟩ := next_of_D ok j' (show D E m len lx' = r :: post from hD')
    refine ⟨j', by rw [e3]; exact j3, r, rfl, (on_cons ok h.on hD).1, hsp⟩

theorem peek_none_J (ok : ScanOK E m len) {lx lx' : Lx} (h : J E m len raw F lx)
    (e : lx.peek E = (none, lx')) : NoneLeft E raw lx.filter lx.cursor.byte := by
  obtain ⟨p1, p2⟩ := BracketRefine.peek_spec ok h.inv
  cases hD : D E m len lx with
  | nil => exact on_nil h.on hD
  | cons r post =>
    obtain ⟨lx'', e', _⟩ := p2 r post hD
    rw [e] at e'; cases e'


/-! ### the error predicate -/

/-- What an `UnexpectedToken { es, ts, .., found }` says: there are a filter `f ∈ F`
and a byte offset `c ≥ es.e` (the cursor at which the primitive looked for its
token) such that `found = Token t` is the first raw token from `c` on that `f`
keeps, with `ts` exactly its span; `found = EndOfText` means `f` keeps no raw
token from `c` on. -/
def UnexpAt (E : LexEnv Nat Tok) (raw : List (RawTok Tok)) (F : Option Nat → Prop) (es ts : Span)
    (found : Found) : Prop :=
  ∃ f c, F f ∧ es.e.byte ≤ c ∧
    (∀ t, found = .token t → ∃ r, r.tok = t ∧ ts = ⟨r.start, r.stop⟩ ∧ Fst E raw f c r) ∧
    (found = .eot → NoneLeft E raw f c)

/-- `s` is exactly the span of a raw token that a filter of `F` keeps -/
def TokSpan (E : LexEnv Nat Tok) (raw : List (RawTok Tok)) (F : Option Nat → Prop) (s : Span) : Prop :=
  ∃ f r, F f ∧ r ∈ raw ∧ keepOf E f r.tok = true ∧ s = ⟨r.start, r.stop⟩

/-- `UnexpAt` for the `UnexpectedToken` errors; the spans of the bracket errors
are spans of kept raw tokens (`NoneFound` at the end of the stream: an empty
span).  Nothing is claimed here of the other kinds (their spans: `RunSpans`). -/
def UnexpOK (E : LexEnv Nat Tok) (raw : List (RawTok Tok)) (F : Option Nat → Prop) : ErrBody → Prop
  | .unexp es ts _ found => UnexpAt E raw F es ts found
  | .bracketNone s => TokSpan E raw F s ∨ s.s = s.e
  | .bracketUnclosed s => TokSpan E raw F s
  | .bracketUnopened s => TokSpan E raw F s
  | .bracketMismatch s e => TokSpan E raw F s ∧ TokSpan E raw F e
  | _ => True

theorem unexp_tok {f : Option Nat} {c : Nat} {es : Span} {r : RawTok Tok} (hF : F f) (hle : es.e.byte ≤ c)
    (hr : Fst E raw f c r) : UnexpAt E raw F es ⟨r.start, r.stop⟩ (.token r.tok) :=
  ⟨f, c, hF, hle, fun t ht => by cases ht; exact ⟨r, rfl, rfl, hr⟩, fun h => nomatch h⟩

theorem unexp_eot {f : Option Nat} {c : Nat} {es ts : Span} (hF : F f) (hle : es.e.byte ≤ c)
    (h : NoneLeft E raw f c) : UnexpAt E raw F es ts .eot :=
  ⟨f, c, hF, hle, (by intro t ht; cases ht), fun _ => h⟩

/-- a peeked lexer: it can advance and stays on the stream, and its peeked span is a kept raw token's -/
def PkOK (E : LexEnv Nat Tok) (m : Metrics) (len : Nat) (raw : List (RawTok Tok)) (F : Option Nat → Prop)
    (lx : Lx) : Prop :=
  J E m len raw F (lx.next E).2 ∧ ∀ s, lx.peekTokenSpan = some s → TokSpan E raw F s

theorem peek_some_Pk (ok : ScanOK E m len) {lx lx' : Lx} {t : Tok} (h : J E m len raw F lx)
    (e : lx.peek E = (some t, lx')) : J E m len raw F lx' ∧ PkOK E m len raw F lx' := by
  obtain ⟨h1, h2, r, _, hf, hts⟩ := peek_some_J ok h e
  refine ⟨h1, h2, ?_⟩
  intro s hs
  rw [hts] at hs; cases hs
  exact ⟨lx.filter, r, h.fil, hf.1, hf.2.2.1, rfl⟩

/-- the plain reading of the token clause: the found token is a token of `raw`
with exactly its span, and the parse-so-far span ends at or before it -/
theorem UnexpAt.token {es ts : Span} {t : Tok} (h : UnexpAt E raw F es ts (.token t)) :
    ∃ r ∈ raw, r.tok = t ∧ ts = ⟨r.start, r.stop⟩ ∧ es.e.byte ≤ ts.s.byte := by
  obtain ⟨f, c, _, hle, h1, _⟩ := h
  obtain ⟨r, hr, hts, hm, hc, _⟩ := h1 t rfl
  exact ⟨r, hm, hr, hts, by rw [hts]; exact Nat.le_trans hle hc⟩

/-- Every filter a `filter_with` / `unfiltered` node of the grammar installs is in `F`. -/
def GF (F : Option Nat → Prop) : G → Prop
  | .filterWith mask a => F (some mask) ∧ GF F a
  | .unfiltered a => F none ∧ GF F a
  | .left a b | .right a b | .both a b | .either a b | .implies a b | .antecedent a b | .consequent a b =>
    GF F a ∧ GF F b
  | .center a b c => GF F a ∧ GF F b ∧ GF F c
  | .condImplies a _ b => GF F a ∧ GF F b
  | .map a | .discard a | .maybe a | .requireIf _ a | .cond _ a | .sub a | .spanned a | .text a | .someOf a
  | .raw a | .unrecoverable a | .recover _ _ a _ | .stabilize a | .bracket _ _ a _ _ | .list _ _ _ _ a _ _
  | .upTo a _ | .ctxPushed _ a | .ctxPush _ a | .ctxLocked _ a => GF F a
  | .repeat_ _ _ _ a => GF F a
  | .repeatUntil _ _ _ st a => GF F st ∧ GF F a
  | .intersperse _ _ _ a sp => GF F a ∧ GF F sp
  | .intersperseUntil _ _ _ st a sp => GF F st ∧ GF F a ∧ GF F sp
  | .intersperseDefault _ _ a _ => GF F a
  | .empty | .one _ | .any _ | .anyIndex _ | .seq _ | .seqCount _ | .pred _ | .endOfText | .probe _ => True

theorem GF_ite {F : Option Nat → Prop} {a : G} (h : GF F a) (c : Prop) [Decidable c] :
    GF F (if c then G.someOf a else a) := by
  split <;> exact h

/-! ### results and worlds -/

section Run
variable {R : RunEnv} {L0 : List PErr}

/-- the sink log is `L0` followed by good errors -/
def LogOK (E : LexEnv Nat Tok) (raw : List (RawTok Tok)) (F : Option Nat → Prop) (L0 : List PErr) (W : World) : Prop :=
  ∃ new, W.log = L0 ++ new ∧ ∀ e ∈ new, UnexpOK E raw F e.body

def ResOK (E : LexEnv Nat Tok) (m : Metrics) (len : Nat) (raw : List (RawTok Tok)) (F : Option Nat → Prop) :
    RRes → Prop
  | .ok _ lx' => J E m len raw F lx'
  | .err e => UnexpOK E raw F e.body
  | .panic => True
  | .fuel => True

def Good (E : LexEnv Nat Tok) (m : Metrics) (len : Nat) (raw : List (RawTok Tok)) (F : Option Nat → Prop)
    (L0 : List PErr) (r : RRes × World) : Prop :=
  ResOK E m len raw F r.1 ∧ LogOK E raw F L0 r.2

theorem LogOK_of_log_eq {W W' : World} (h : W'.log = W.log) (hW : LogOK E raw F L0 W) : LogOK E raw F L0 W' := by
  unfold LogOK; rw [h]; exact hW

theorem sendError_spec {c : Ctx} {e : PErr} {W W' : World} {o : Option PErr}
    (h : sendError c e W = (o, W')) (he : UnexpOK E raw F e.body) (hW : LogOK E raw F L0 W) :
    LogOK E raw F L0 W' ∧ ∀ e', o = some e' → UnexpOK E raw F e'.body := by
  unfold sendError at h
  split at h
  · cases h
    refine ⟨?_, by simp⟩
    obtain ⟨new, h1, h2⟩ := hW
    refine ⟨new ++ [c.apply e], by simp [h1], ?_⟩
    intro x hx
    simp only [List.mem_append, List.mem_singleton] at hx
    rcases hx with hx | hx
    · exact h2 x hx
    · subst hx; exact he
  · cases h
    exact ⟨hW, by intro e' h; cases h; exact he⟩

theorem register_LogOK {W : World} (id : Nat) (r : Rec) (hW : LogOK E raw F L0 W) :
    LogOK E raw F L0 (W.register id r) := by
  refine LogOK_of_log_eq ?_ hW
  unfold World.register; split <;> rfl

/-! ### `advance_to_recover`, bracket matching -/

theorem recoverLoop_spec (ok : ScanOK R.E m len) (id : Nat) (n : Nat) (lx : Lx) (W : World)
    (h : J R.E m len raw F lx) (hW : LogOK R.E raw F L0 W) :
    (∀ lx', (recoverLoop R id n lx W).1 = some lx' → J R.E m len raw F lx') ∧
      LogOK R.E raw F L0 (recoverLoop R id n lx W).2 := by
  induction n generalizing lx W with
  | zero => simp [recoverLoop, hW]
  | succ n ih =>
    simp only [recoverLoop]
    split
    · simp [hW]
    · next t lx1 hp =>
      obtain ⟨h1, h2, _⟩ := peek_some_J ok h hp
      have hW1 : LogOK R.E raw F L0 (askRecover W id t).2 := LogOK_of_log_eq (RunSpans.askRecover_log _ _ _) hW
      split
      · refine ⟨?_, hW1⟩
        intro lx' he; cases he; exact h1
      · exact ih _ _ h2 hW1

theorem advanceToRecover_spec (ok : ScanOK R.E m len) {lx : Lx} {W W' : World} {o : Option Lx}
    (he : advanceToRecover R lx W = (o, W')) (h : J R.E m len raw F lx) (hW : LogOK R.E raw F L0 W) :
    (∀ lx', o = some lx' → J R.E m len raw F lx') ∧ LogOK R.E raw F L0 W' := by
  unfold advanceToRecover at he
  split at he
  · cases he; exact ⟨by intro lx' h'; cases h'; exact h, hW⟩
  · have := recoverLoop_spec (L0 := L0) ok ‹Nat› (lx.len + 2) lx W h hW
    rw [he] at this; exact this

/-- the lexers the bracket matcher hands back are peeked lexers on the stream -/
def MatchOK (E : LexEnv Nat Tok) (m : Metrics) (len : Nat) (raw : List (RawTok Tok)) (F : Option Nat → Prop) :
    MatchRes → Prop
  | .found o c _ => J E m len raw F (o.next E).2 ∧ J E m len raw F (c.next E).2
  | .err e => UnexpOK E raw F e
  | .panic => True
  | .fuel => True

theorem matchLoop_spec (ok : ScanOK R.E m len) (opens closes abort : List Nat) (sp : Span) (hsp : sp.s = sp.e)
    (n : Nat) (lexer : Lx) (openLexer : Option Lx) (opened : List (Nat × Nat))
    (hl : J R.E m len raw F lexer) (ho : ∀ ol, openLexer = some ol → PkOK R.E m len raw F ol) :
    MatchOK R.E m len raw F (matchLoop R opens closes abort sp n lexer openLexer opened) := by
  induction n generalizing lexer openLexer opened with
  | zero => simp [matchLoop, MatchOK]
  | succ n ih =>
    simp only [matchLoop]
    split
    · split
      · exact Or.inr hsp
      · next ol =>
        split
        · next s hs => exact (ho ol rfl).2 s hs
        · trivial
    · next tok lexer1 hp =>
      obtain ⟨h1, hk⟩ := peek_some_Pk ok hl hp
      have h2 := hk.1
      split
      · split
        · split
          · next s hs => exact hk.2 s hs
          · trivial
        · split
          · split
            · next a b ha hb =>
              cases openLexer with
              | none => simp at ha
              | some ol =>
                simp only [Option.bind_some] at ha
                exact ⟨(ho ol rfl).2 a ha, hk.2 b hb⟩
            · trivial
          · split
            · exact ih _ _ _ h2 ho
            · split
              · split
                · next ol => exact ⟨(ho ol rfl).1, h2⟩
                · trivial
              · exact ih _ _ _ h2 ho
      · split
        · refine ih _ _ _ h2 ?_
          intro ol hol
          split at hol
          · cases hol; exact hk
          · cases hol; exact ho _ rfl
        · split
          · split
            · next s hs => exact Or.inl (hk.2 s hs)
            · trivial
          · exact ih _ _ _ h2 ho

/-! ### the fuel-independent members of the mutual block -/

theorem seqLoop_spec (ok : ScanOK R.E m len) (es : Span) (ks : List Nat) (lx : Lx)
    (acc : List Tok) (h : J R.E m len raw F lx) (hes : es.e.byte ≤ lx.cursor.byte) :
    ResOK R.E m len raw F (seqLoop R es ks lx acc) := by
  induction ks generalizing lx acc with
  | nil => simpa [seqLoop, ResOK] using h
  | cons k ks ih =>
    simp only [seqLoop]
    split
    · next t lx1 hn =>
      obtain ⟨h1, hmono, r, rfl, hf, hts⟩ := next_some_J ok h hn
      split
      · exact ih _ _ h1 (by omega)
      · show UnexpAt _ _ _ _ _ _
        rw [hts]; exact unexp_tok h.fil hes hf
    · next lx1 hn => exact unexp_eot h.fil hes (next_none_J ok h hn)

theorem seqCountLoop_spec (ok : ScanOK R.E m len) (es : Span) (ks : List Nat) (lx : Lx)
    (c : Nat) (h : J R.E m len raw F lx) : ResOK R.E m len raw F (seqCountLoop R es ks lx c) := by
  induction ks generalizing lx c with
  | nil => simpa [seqCountLoop, ResOK] using h
  | cons k ks ih =>
    simp only [seqCountLoop]
    split
    · exact h
    · split
      · next t lx1 hp =>
        obtain ⟨h1, h2, _⟩ := peek_some_J ok h hp
        split
        · exact ih _ _ h2
        · exact h1
      · next lx1 hp =>
        have h1 := J_peek' ok h hp
        split
        · exact h1
        · trivial

theorem countOf_spec (v : Nat) (r : RRes × World) (h : Good R.E m len raw F L0 r) :
    Good R.E m len raw F L0 (countOf v r) := by
  unfold countOf
  split
  · exact h
  · split
    · exact ⟨h.1, h.2⟩
    · exact h

/-! ### the interpreter -/

structure SpAt (R : RunEnv) (m : Metrics) (len : Nat) (raw : List (RawTok Tok)) (F : Option Nat → Prop)
    (L0 : List PErr) (n : Nat) : Prop where
  run : ∀ g lx ctx W, GF F g → J R.E m len raw F lx → LogOK R.E raw F L0 W →
    Good R.E m len raw F L0 (run R n g lx ctx W)
  sepItem : ∀ a sep lx ctx W, GF F a → GF F sep → J R.E m len raw F lx → LogOK R.E raw F L0 W →
    Good R.E m len raw F L0 (sepItem R n a sep lx ctx W)
  interLoopStart : ∀ lo hi a sep lx ctx W, GF F a → GF F sep → J R.E m len raw F lx → LogOK R.E raw F L0 W →
    Good R.E m len raw F L0 (interLoopStart R n lo hi a sep lx ctx W)
  interLoop : ∀ lo hi a sep vals lx ctx W, GF F a → GF F sep → J R.E m len raw F lx → LogOK R.E raw F L0 W →
    Good R.E m len raw F L0 (interLoop R n lo hi a sep vals lx ctx W)
  untilStart : ∀ lo hi stop a sep lx ctx W, GF F stop → GF F a → GF F sep → J R.E m len raw F lx →
    LogOK R.E raw F L0 W → Good R.E m len raw F L0 (untilStart R n lo hi stop a sep lx ctx W)
  untilLoop : ∀ lo hi stop a sep vals lx ctx W, GF F stop → GF F a → GF F sep → J R.E m len raw F lx →
    LogOK R.E raw F L0 W → Good R.E m len raw F L0 (untilLoop R n lo hi stop a sep vals lx ctx W)
  recoverDefault : ∀ dv id r body lx ctx W, GF F body → J R.E m len raw F lx → LogOK R.E raw F L0 W →
    Good R.E m len raw F L0 (recoverDefault R n dv id r body lx ctx W)
  stabLoop : ∀ a lx ctx res W, GF F a → J R.E m len raw F lx → LogOK R.E raw F L0 W → ResOK R.E m len raw F res →
    Good R.E m len raw F L0 (stabLoop R n a lx ctx res W)
  listLoop : ∀ v id lo hi a sep abort lx ctx W vals, GF F a → J R.E m len raw F lx → LogOK R.E raw F L0 W →
    Good R.E m len raw F L0 (listLoop R n v id lo hi a sep abort lx ctx W vals)
  stabValue : ∀ dv id pat body lx ctx res W, GF F body → J R.E m len raw F lx → LogOK R.E raw F L0 W →
    ResOK R.E m len raw F res → Good R.E m len raw F L0 (stabValue R n dv id pat body lx ctx res W)

theorem spAt_zero : SpAt R m len raw F L0 0 := by
  constructor <;> intros <;>
    simp_all [run, sepItem, interLoopStart, interLoop, untilStart, untilLoop, recoverDefault, stabLoop, listLoop,
      stabValue, Good, ResOK]

theorem Good_of_eq {x r : RRes × World} (h : Good R.E m len raw F L0 x) (he : x = r) :
    Good R.E m len raw F L0 r := he ▸ h

theorem Good_ok {x : RRes × World} {v v' : Val} {lx : Lx} {W : World} (h : Good R.E m len raw F L0 x)
    (he : x = (.ok v lx, W)) : Good R.E m len raw F L0 (.ok v' lx, W) := by
  subst he; exact h

theorem run_step (ok : ScanOK R.E m len) (n : Nat) (ih : SpAt R m len raw F L0 n) (g : G) (lx : Lx)
    (ctx : Ctx) (W : World) (hg : GF F g) (hl : J R.E m len raw F lx) (hW : LogOK R.E raw F L0 W) :
    Good R.E m len raw F L0 (run R (n + 1) g lx ctx W) := by
  obtain ⟨ihr, ihsep, ihis, ihil, ihus, ihul, ihrd, ihsl, ihll, ihsv⟩ := ih
  have hes := es_le hl
  cases g <;> simp only [run]
  case empty => exact ⟨hl, hW⟩
  case one k =>
    split
    · next t lx' hn =>
      obtain ⟨h1, _, r, rfl, hf, hts⟩ := next_some_J ok hl hn
      split
      · exact ⟨h1, hW⟩
      · refine ⟨?_, hW⟩
        show UnexpAt _ _ _ _ _ _
        rw [hts]; exact unexp_tok hl.fil hes hf
    · next lx' hn => exact ⟨unexp_eot hl.fil hes (next_none_J ok hl hn), hW⟩
  case any ks =>
    split
    · exact ⟨trivial, hW⟩
    · split
      · next t lx' hp =>
        obtain ⟨h1, h2, r, rfl, hf, hts⟩ := peek_some_J ok hl hp
        split
        · exact ⟨h2, hW⟩
        · refine ⟨?_, hW⟩
          show UnexpAt _ _ _ _ _ _
          rw [hts]; exact unexp_tok hl.fil hes hf
      · next lx' hp => exact ⟨unexp_eot hl.fil hes (peek_none_J ok hl hp), hW⟩
  case anyIndex ks =>
    split
    · exact ⟨trivial, hW⟩
    · split
      · next t lx' hp =>
        obtain ⟨h1, h2, r, rfl, hf, hts⟩ := peek_some_J ok hl hp
        split
        · exact ⟨h2, hW⟩
        · refine ⟨?_, hW⟩
          show UnexpAt _ _ _ _ _ _
          rw [hts]; exact unexp_tok hl.fil hes hf
      · next lx' hp => exact ⟨unexp_eot hl.fil hes (peek_none_J ok hl hp), hW⟩
  case seq ks => exact ⟨seqLoop_spec ok _ _ _ _ hl hes, hW⟩
  case seqCount ks => exact ⟨seqCountLoop_spec ok _ _ _ _ hl, hW⟩
  case pred p =>
    split
    · next lx' hn => exact ⟨unexp_eot hl.fil hes (next_none_J ok hl hn), hW⟩
    · next t lx' hn =>
      obtain ⟨h1, _, r, rfl, hf, hts⟩ := next_some_J ok hl hn
      split
      · exact ⟨h1, hW⟩
      · refine ⟨?_, hW⟩
        show UnexpAt _ _ _ _ _ _
        rw [hts]; exact unexp_tok hl.fil hes hf
  case endOfText =>
    split
    · next t lx' hp =>
      obtain ⟨h1, h2, r, rfl, hf, hts⟩ := peek_some_J ok hl hp
      refine ⟨?_, hW⟩
      show UnexpAt _ _ _ _ _ _
      rw [hts]; exact unexp_tok hl.fil hes hf
    · next lx' hp =>
      split
      · exact ⟨J_peek' ok hl hp, hW⟩
      · exact ⟨trivial, hW⟩
  case both a b =>
    split
    · next v1 lx1 W1 h1 =>
      have g1 := Good_of_eq (ihr a lx ctx W hg.1 hl hW) h1
      split
      · next v2 lx2 W2 h2 =>
        exact Good_ok (ihr b lx1 ctx W1 hg.2 g1.1 g1.2) h2
      · exact ihr _ _ _ _ hg.2 g1.1 g1.2
    · exact ihr _ _ _ _ hg.1 hl hW
  case left a b =>
    split
    · next v1 v2 lx2 W2 h => exact Good_ok (ihr (.both a b) lx ctx W hg hl hW) h
    · exact ihr (.both a b) _ _ _ hg hl hW
  case right a b =>
    split
    · next v1 v2 lx2 W2 h => exact Good_ok (ihr (.both a b) lx ctx W hg hl hW) h
    · exact ihr (.both a b) _ _ _ hg hl hW
  case center a b c =>
    split
    · next v1 lx1 W1 h1 =>
      have g1 := Good_of_eq (ihr a lx ctx W hg.1 hl hW) h1
      split
      · next v2 lx2 W2 h2 =>
        have g2 := Good_of_eq (ihr b lx1 ctx W1 hg.2.1 g1.1 g1.2) h2
        split
        · next v3 lx3 W3 h3 => exact Good_ok (ihr c lx2 ctx W2 hg.2.2 g2.1 g2.2) h3
        · exact ihr _ _ _ _ hg.2.2 g2.1 g2.2
      · exact ihr _ _ _ _ hg.2.1 g1.1 g1.2
    · exact ihr _ _ _ _ hg.1 hl hW
  case map a =>
    split
    · next v lx1 W1 h => exact Good_ok (ihr a lx ctx W hg hl hW) h
    · exact ihr _ _ _ _ hg hl hW
  case someOf a =>
    split
    · next v lx1 W1 h => exact Good_ok (ihr a lx ctx W hg hl hW) h
    · exact ihr _ _ _ _ hg hl hW
  case discard a =>
    split
    · next v lx1 W1 h => exact Good_ok (ihr a lx ctx W hg hl hW) h
    · exact ihr _ _ _ _ hg hl hW
  case either a b =>
    split
    · next e W1 h =>
      have g := Good_of_eq (ihr a lx ctx W hg.1 hl hW) h
      exact ihr _ _ _ _ hg.2 hl g.2
    · exact ihr _ _ _ _ hg.1 hl hW
  case maybe a =>
    split
    · next v lx1 W1 h => exact Good_ok (ihr a lx _ W hg hl hW) h
    · next e W1 h =>
      have g := Good_of_eq (ihr a lx _ W hg hl hW) h
      exact ⟨hl, g.2⟩
    · exact ihr _ _ _ _ hg hl hW
  case unrecoverable a => exact ihr _ _ _ _ hg hl hW
  case raw a => exact ihr _ _ _ _ hg hl hW
  case requireIf flag a =>
    split
    · split
      · next v lx1 W1 h => exact Good_ok (ihr a lx ctx W hg hl hW) h
      · exact ihr _ _ _ _ hg hl hW
    · exact ihr (.maybe a) _ _ _ hg hl hW
  case cond flag a =>
    split
    · split
      · next v lx1 W1 h => exact Good_ok (ihr a lx ctx W hg hl hW) h
      · exact ihr _ _ _ _ hg hl hW
    · exact ⟨hl, hW⟩
  case implies a b =>
    split
    · next lx1 W1 h => exact Good_ok (ihr (.maybe a) lx ctx W hg.1 hl hW) h
    · next l lx1 W1 h =>
      have g1 := Good_of_eq (ihr (.maybe a) lx ctx W hg.1 hl hW) h
      split
      · next r lx2 W2 h2 => exact Good_ok (ihr b lx1 ctx W1 hg.2 g1.1 g1.2) h2
      · exact ihr _ _ _ _ hg.2 g1.1 g1.2
    · exact ihr (.maybe a) _ _ _ hg.1 hl hW
  case antecedent a b =>
    split
    · next l r lx2 W2 h => exact Good_ok (ihr (.implies a b) lx ctx W hg hl hW) h
    · exact ihr (.implies a b) _ _ _ hg hl hW
  case consequent a b =>
    split
    · next l r lx2 W2 h => exact Good_ok (ihr (.implies a b) lx ctx W hg hl hW) h
    · exact ihr (.implies a b) _ _ _ hg hl hW
  case condImplies a k b =>
    split
    · next lx1 W1 h => exact Good_ok (ihr (.maybe a) lx ctx W hg.1 hl hW) h
    · next l lx1 W1 h =>
      have g1 := Good_of_eq (ihr (.maybe a) lx ctx W hg.1 hl hW) h
      split <;> split
      all_goals first
        | exact ⟨g1.1, g1.2⟩
        | (split
           · next r lx2 W2 h2 => exact Good_ok (ihr b lx1 ctx W1 hg.2 g1.1 g1.2) h2
           · exact ihr _ _ _ _ hg.2 g1.1 g1.2)
    · exact ihr (.maybe a) _ _ _ hg.1 hl hW
  case filterWith mask a =>
    have h1 := J_setFilter ok (Option.some mask) hg.1 hl
    split
    · next v lx2 W2 h =>
      have g := Good_of_eq (ihr a _ ctx W hg.2 h1 hW) h
      exact ⟨J_setFilter ok _ hl.fil g.1, g.2⟩
    · exact ihr _ _ _ _ hg.2 h1 hW
  case unfiltered a =>
    have h1 := J_setFilter ok Option.none hg.1 hl
    split
    · next v lx2 W2 h =>
      have g := Good_of_eq (ihr a _ ctx W hg.2 h1 hW) h
      exact ⟨J_setFilter ok _ hl.fil g.1, g.2⟩
    · exact ihr _ _ _ _ hg.2 h1 hW
  case sub a => exact ihr _ _ _ _ hg (J_intoSublexer ok hl) hW
  case spanned a =>
    have h1 := J_peek ok hl
    split
    · next v lx2 W2 h => exact Good_ok (ihr a _ ctx W hg h1 hW) h
    · exact ihr _ _ _ _ hg h1 hW
  case text a =>
    have h1 := J_peek ok hl
    split
    · next v lx2 W2 h =>
      have g := Good_of_eq (ihr a _ ctx W hg h1 hW) h
      split
      · exact ⟨g.1, g.2⟩
      · exact ⟨trivial, g.2⟩
    · exact ihr _ _ _ _ hg h1 hW
  case repeat_ v lo hi a => exact countOf_spec _ _ (ihis _ _ _ .empty _ _ _ hg trivial hl hW)
  case intersperse v lo hi a sep => exact countOf_spec _ _ (ihis _ _ _ _ _ _ _ hg.1 hg.2 hl hW)
  case intersperseDefault lo hi a sepk => exact ihis _ _ _ (.discard (.one sepk)) _ _ _ hg trivial hl hW
  case repeatUntil v lo hi stop a => exact countOf_spec _ _ (ihus _ _ _ _ .empty _ _ _ hg.1 hg.2 trivial hl hW)
  case intersperseUntil v lo hi stop a sep =>
    exact countOf_spec _ _ (ihus _ _ _ _ _ _ _ _ hg.1 hg.2.1 hg.2.2 hl hW)
  case recover v id a r =>
    split
    · exact ihrd _ _ _ (.someOf a) _ _ _ hg hl hW
    · exact ihrd _ _ _ _ _ _ _ hg hl hW
  case stabilize a =>
    have g := ihr a lx ctx W hg hl hW
    exact ihsl _ _ _ _ _ hg hl g.2 g.1
  case bracket v opens a closes abort =>
    split
    · exact ⟨trivial, hW⟩
    · have hm := matchLoop_spec (F := F) (raw := raw) ok opens closes abort (Span.at_ lx.cursor) rfl (lx.len + 2)
        lx Option.none [] hl (by simp)
      split
      · exact ⟨trivial, hW⟩
      · exact ⟨trivial, hW⟩
      · next e he => rw [he] at hm; exact ⟨hm, hW⟩
      · next o c idx he =>
        rw [he] at hm
        have hin := J_intoSublexer ok hm.1
        have hcl := hm.2
        have hbody := GF_ite (F := F) (a := a) hg
        split
        · next x lx' W1 h =>
          have g := Good_of_eq (ihr _ _ ctx W (hbody _) hin hW) h
          exact ⟨hcl, g.2⟩
        · next e W1 h =>
          have g := Good_of_eq (ihr _ _ ctx W (hbody _) hin hW) h
          split
          · next e' W2 hs =>
            have := sendError_spec hs g.1 g.2
            exact ⟨this.2 _ rfl, this.1⟩
          · next W2 hs =>
            have := sendError_spec hs g.1 g.2
            exact ⟨hcl, this.1⟩
        · exact ihr _ _ _ _ (hbody _) hin hW
  case upTo a abort =>
    split
    · next v lx1 W1 h =>
      have g := Good_of_eq (ihr a lx ctx W hg hl hW) h
      split
      · next lx2 hp => exact ⟨J_peek' ok g.1 hp, g.2⟩
      · next t lx2 hp =>
        have h2 := J_peek' ok g.1 hp
        split
        · exact ⟨h2, g.2⟩
        · exact ⟨trivial, g.2⟩
    · exact ihr _ _ _ _ hg hl hW
  case list v id lo hi a sep abort =>
    generalize (if (v % 2 == 0) = true then Option.none else hi) = hi'
    generalize (if (v % 2 == 0) = true then 0 else lo) = lo'
    split
    · exact ⟨hl, hW⟩
    · split
      · exact ⟨trivial, hW⟩
      · exact ihll _ _ _ _ _ _ _ _ _ _ _ hg hl hW
  case probe tag =>
    exact ⟨hl, LogOK_of_log_eq rfl
      (sendError_spec (E := R.E) (raw := raw) (F := F) (L0 := L0)
        (rfl : sendError ctx (mkErr (.probe tag)) W = (_, _)) trivial hW).1⟩
  case ctxPushed tag a => exact ihr _ _ _ _ hg hl hW
  case ctxPush tag a => exact ihr _ _ _ _ hg hl hW
  case ctxLocked flag a => exact ihr _ _ _ _ hg hl hW

theorem spAt_succ (ok : ScanOK R.E m len) (n : Nat) (ih : SpAt R m len raw F L0 n) :
    SpAt R m len raw F L0 (n + 1) := by
  have hrun := run_step ok n ih
  obtain ⟨ihr, ihsep, ihis, ihil, ihus, ihul, ihrd, ihsl, ihll, ihsv⟩ := ih
  refine ⟨hrun, ?_, ?_, ?_, ?_, ?_, ?_, ?_, ?_, ?_⟩
  · intro a sep lx ctx W ha hs hl hW; simp only [sepItem]
    split
    · next v lx1 W1 h =>
      have g := Good_of_eq (ihr sep lx ctx W hs hl hW) h
      exact ihr _ _ _ _ ha g.1 g.2
    · exact ihr _ _ _ _ hs hl hW
  · intro lo hi a sep lx ctx W ha hs hl hW; simp only [interLoopStart]
    split
    · exact ⟨trivial, hW⟩
    split
    · exact ⟨hl, hW⟩
    split
    · next v lx1 W1 h =>
      have g := Good_of_eq (ihr a lx ctx W ha hl hW) h
      exact ihil _ _ _ _ _ _ _ _ ha hs g.1 g.2
    · next e W1 h =>
      have g := Good_of_eq (ihr a lx ctx W ha hl hW) h
      split
      · exact ⟨hl, g.2⟩
      · exact g
    · exact ihr _ _ _ _ ha hl hW
  · intro lo hi a sep vals lx ctx W ha hs hl hW; simp only [interLoop]
    split
    · split
      · next v lx1 W1 h =>
        have g := Good_of_eq (ihsep a sep lx ctx W ha hs hl hW) h
        exact ihil _ _ _ _ _ _ _ _ ha hs g.1 g.2
      · exact ihsep _ _ _ _ _ ha hs hl hW
    · split
      · split
        · next v lx1 W1 h =>
          have g := Good_of_eq (ihsep a sep lx ctx W ha hs hl hW) h
          split
          · exact ⟨g.1, g.2⟩
          · exact ihil _ _ _ _ _ _ _ _ ha hs g.1 g.2
        · next e W1 h =>
          have g := Good_of_eq (ihsep a sep lx ctx W ha hs hl hW) h
          exact ⟨hl, g.2⟩
        · exact ihsep _ _ _ _ _ ha hs hl hW
      · exact ⟨hl, hW⟩
  · intro lo hi stop a sep lx ctx W hst ha hs hl hW; simp only [untilStart]
    split
    · exact ⟨trivial, hW⟩
    split
    · exact ⟨hl, hW⟩
    split
    · next v lxs W0 h =>
      have g0 := Good_of_eq (ihr stop lx ctx W hst hl hW) h
      exact ⟨hl, g0.2⟩
    · next e W0 h =>
      have g0 := Good_of_eq (ihr stop lx ctx W hst hl hW) h
      split
      · next v lx1 W1 h1 =>
        have g1 := Good_of_eq (ihr a lx ctx W0 ha hl g0.2) h1
        exact ihul _ _ _ _ _ _ _ _ _ hst ha hs g1.1 g1.2
      · next e1 W1 h1 =>
        have g1 := Good_of_eq (ihr a lx ctx W0 ha hl g0.2) h1
        split
        · exact ⟨hl, g1.2⟩
        · exact g1
      · exact ihr _ _ _ _ ha hl g0.2
    · exact ihr _ _ _ _ hst hl hW
  · intro lo hi stop a sep vals lx ctx W hst ha hs hl hW; simp only [untilLoop]
    split
    · split
      · next v lxs W0 h =>
        have g0 := Good_of_eq (ihr stop lx ctx W hst hl hW) h
        exact ⟨hl, g0.2⟩
      · next e W0 h =>
        have g0 := Good_of_eq (ihr stop lx ctx W hst hl hW) h
        split
        · next v lx1 W1 h1 =>
          have g := Good_of_eq (ihsep a sep lx ctx W0 ha hs hl g0.2) h1
          exact ihul _ _ _ _ _ _ _ _ _ hst ha hs g.1 g.2
        · exact ihsep _ _ _ _ _ ha hs hl g0.2
      · exact ihr _ _ _ _ hst hl hW
    · split
      · split
        · next v lxs W0 h =>
          have g0 := Good_of_eq (ihr stop lx ctx W hst hl hW) h
          exact ⟨hl, g0.2⟩
        · next e W0 h =>
          have g0 := Good_of_eq (ihr stop lx ctx W hst hl hW) h
          split
          · next v lx1 W1 h1 =>
            have g := Good_of_eq (ihsep a sep lx ctx W0 ha hs hl g0.2) h1
            split
            · exact ⟨g.1, g.2⟩
            · exact ihul _ _ _ _ _ _ _ _ _ hst ha hs g.1 g.2
          · next e1 W1 h1 =>
            have g := Good_of_eq (ihsep a sep lx ctx W0 ha hs hl g0.2) h1
            exact ⟨hl, g.2⟩
          · exact ihsep _ _ _ _ _ ha hs hl g0.2
        · exact ihr _ _ _ _ hst hl hW
      · exact ⟨hl, hW⟩
  · intro dv id r body lx ctx W hb hl hW; simp only [recoverDefault]
    have hW' := register_LogOK id r hW
    split
    · next e W1 h =>
      have g := Good_of_eq (ihr body lx ctx _ hb hl hW') h
      split
      · next e' W2 hs =>
        have := sendError_spec hs g.1 g.2
        exact ⟨this.2 _ rfl, this.1⟩
      · next W2 hs =>
        have s := sendError_spec hs g.1 g.2
        split
        · next lx' W3 ha =>
          have := advanceToRecover_spec ok ha (J_setRecoverState _ hl) s.1
          exact ⟨this.1 _ rfl, this.2⟩
        · next W3 ha =>
          have := advanceToRecover_spec ok ha (J_setRecoverState _ hl) s.1
          exact ⟨trivial, this.2⟩
    · exact ihr _ _ _ _ hb hl hW'
  · intro a lx ctx res W ha hl hW hres
    cases res <;> simp only [stabLoop]
    · exact ⟨J_setRecoverState _ hres, hW⟩
    · split
      · next lx1 W1 hadv =>
        have s := advanceToRecover_spec ok hadv hl hW
        split
        · exact ⟨hres, s.2⟩
        · have g := ihr (.unrecoverable a) lx1 ctx W1 ha (s.1 _ rfl) s.2
          exact ihsl _ _ _ _ _ ha (s.1 _ rfl) g.2 g.1
      · next W1 hadv => exact ⟨trivial, (advanceToRecover_spec ok hadv hl hW).2⟩
    · exact ⟨trivial, hW⟩
    · exact ⟨trivial, hW⟩
  · intro v id lo hi a sep abort lx ctx W vals ha hl hW
    simp only [listLoop]
    have hfin : ∀ (lexer : Lx) (vals : List Val) (W : World), J R.E m len raw F lexer → LogOK R.E raw F L0 W →
        Good R.E m len raw F L0 (if (!(vals.isEmpty || lexer.recover.isNone)) = true then (RRes.panic, W)
          else
            if vals.length < lo then
              match sendError ctx (mkErr (ErrBody.count lexer.parseSpan vals.length lo hi)) W with
              | (Option.some e', W1) => (RRes.err e', W1)
              | (Option.none, W1) => (RRes.ok (Val.list vals.reverse) lexer, W1)
            else (RRes.ok (Val.list vals.reverse) lexer, W)) := by
      intro lexer vals W hl hW
      split
      · exact ⟨trivial, hW⟩
      · split
        · split
          · next e' W1 hs =>
            have := sendError_spec (E := R.E) (raw := raw) (F := F) (L0 := L0) hs trivial hW
            exact ⟨this.2 _ rfl, this.1⟩
          · next W1 hs =>
            have := sendError_spec (E := R.E) (raw := raw) (F := F) (L0 := L0) hs trivial hW
            exact ⟨hl, this.1⟩
        · exact ⟨hl, hW⟩
    have hitem := GF_ite (F := F) (a := a) ha
    have hst : GF F (((if v < 2 then a.someOf else a).upTo (sep :: abort)).maybe.stabilize) := hitem _
    split
    · next lexer hp => exact hfin _ _ _ (J_peek' ok hl hp) hW
    · next tok lexer hp =>
      have h0 := J_peek' ok hl hp
      split
      · split
        · exact hfin _ _ _ h0 hW
        · split
          · next x lx' W1 h =>
            have g := Good_of_eq (ihr _ lexer ctx W hst h0 hW) h
            exact hfin _ _ _ h0 g.2
          · next v' lx' W1 h =>
            have g := Good_of_eq (ihr _ lexer ctx W hst h0 hW) h
            exact hfin _ _ _ h0 g.2
          · exact ihr _ _ _ _ (hitem _) h0 hW
      · have g1 := ihrd (if v < 2 then Val.none else Val.dflt) id (Rec.sepOrAbort sep abort)
          ((if v < 2 then a.someOf else a).upTo (sep :: abort)) lexer ctx W (hitem _) h0 hW
        have g2 := ihsv (if v < 2 then Val.none else Val.dflt) id (Rec.sepOrAbort sep abort)
          ((if v < 2 then a.someOf else a).upTo (sep :: abort)) lexer ctx _ _ (hitem _) h0 g1.2 g1.1
        split
        · next x lexer1 W1 hs =>
          have g := Good_of_eq g2 hs
          split
          · exact hfin _ _ _ g.1 g.2
          · split
            · next lexer2 hp2 => exact hfin _ _ _ (J_peek' ok g.1 hp2) g.2
            · next t2 lexer2 hp2 =>
              have h2 := J_peek' ok g.1 hp2
              split
              · exact hfin _ _ _ h2 g.2
              · split
                · exact hfin _ _ _ h2 g.2
                · have g3 := ihrd Val.dflt id (Rec.sepOrAbort sep abort) (G.one sep).discard lexer2 ctx W1
                    trivial h2 g.2
                  split
                  · next v1 lexer3 W2 hr =>
                    have g4 := Good_of_eq g3 hr
                    exact ihll _ _ _ _ _ _ _ _ _ _ _ ha (J_intoSublexer ok g4.1) g4.2
                  · exact g3
        · exact g2
  · intro dv id pat body lx ctx res W hb hl hW hres
    cases res <;> simp only [stabValue]
    · exact ⟨J_setRecoverState _ hres, hW⟩
    · split
      · next lx1 W1 hadv =>
        have s := advanceToRecover_spec ok hadv hl hW
        split
        · exact ⟨hres, s.2⟩
        · have g := ihrd dv id pat body lx1 ctx.withoutSink W1 hb (s.1 _ rfl) s.2
          exact ihsv _ _ _ _ _ _ _ _ hb (s.1 _ rfl) g.2 g.1
      · next W1 hadv => exact ⟨trivial, (advanceToRecover_spec ok hadv hl hW).2⟩
    · exact ⟨trivial, hW⟩
    · exact ⟨trivial, hW⟩

theorem spAt (ok : ScanOK R.E m len) : ∀ n, SpAt R m len raw F L0 n
  | 0 => spAt_zero
  | n + 1 => spAt_succ ok n (spAt ok n)

end Run

/-! ### the filters a grammar installs -/

/-- the filters installed by the `filter_with` / `unfiltered` nodes of a grammar -/
def filtersOf : G → List (Option Nat)
  | .filterWith mask a => some mask :: filtersOf a
  | .unfiltered a => none :: filtersOf a
  | .left a b | .right a b | .both a b | .either a b | .implies a b | .antecedent a b | .consequent a b =>
    filtersOf a ++ filtersOf b
  | .center a b c => filtersOf a ++ filtersOf b ++ filtersOf c
  | .condImplies a _ b => filtersOf a ++ filtersOf b
  | .map a | .discard a | .maybe a | .requireIf _ a | .cond _ a | .sub a | .spanned a | .text a | .someOf a
  | .raw a | .unrecoverable a | .recover _ _ a _ | .stabilize a | .bracket _ _ a _ _ | .list _ _ _ _ a _ _
  | .upTo a _ | .ctxPushed _ a | .ctxPush _ a | .ctxLocked _ a => filtersOf a
  | .repeat_ _ _ _ a => filtersOf a
  | .repeatUntil _ _ _ st a => filtersOf st ++ filtersOf a
  | .intersperse _ _ _ a sp => filtersOf a ++ filtersOf sp
  | .intersperseUntil _ _ _ st a sp => filtersOf st ++ filtersOf a ++ filtersOf sp
  | .intersperseDefault _ _ a _ => filtersOf a
  | .empty | .one _ | .any _ | .anyIndex _ | .seq _ | .seqCount _ | .pred _ | .endOfText | .probe _ => []

theorem GF_of_filtersOf {F : Option Nat → Prop} : ∀ (g : G), (∀ f ∈ filtersOf g, F f) → GF F g := by
  intro g
  induction g <;> intro h <;> simp only [filtersOf, List.mem_append, List.mem_cons] at h <;> simp only [GF] <;>
    grind

theorem filtersOf_pegWithRep : ∀ (g : G), pegWithRep g = true → filtersOf g = [] := by
  intro g
  induction g <;> intro h <;> simp only [pegWithRep, Bool.and_eq_true] at h <;> simp only [filtersOf] <;>
    grind

/-! ### the theorems -/

theorem J_start {lx : Lx} (i : Inv E m len lx.filter lx) (hF : F lx.filter) :
    J E m len (rawAt E m len lx.scanner lx.cursor) F lx :=
  ⟨i, hF, [], rfl, fun _ h => nomatch h⟩

/-- All of `G`: every `UnexpectedToken` that `run` returns or appends to the sink
log satisfies `UnexpAt` for the raw stream `raw` the lexer sits on, and the
lexer handed back still sits on it. -/
theorem run_unexp {R : RunEnv} (ok : ScanOK R.E m len) (n : Nat) (g : G) (lx : Lx) (ctx : Ctx) (W : World)
    (hg : GF F g) (hj : J R.E m len raw F lx) :
    (∀ v lx', (run R n g lx ctx W).1 = .ok v lx' → J R.E m len raw F lx') ∧
    (∀ e, (run R n g lx ctx W).1 = .err e → UnexpOK R.E raw F e.body) ∧
    (∃ new, (run R n g lx ctx W).2.log = W.log ++ new ∧ ∀ e ∈ new, UnexpOK R.E raw F e.body) := by
  have h := (spAt (F := F) (raw := raw) (L0 := W.log) ok n).run g lx ctx W hg hj ⟨[], by simp, fun _ h => nomatch h⟩
  refine ⟨?_, ?_, h.2⟩
  · intro v lx' he
    have h1 := h.1; rw [he] at h1; exact h1
  · intro e he
    have h1 := h.1; rw [he] at h1; exact h1

/-- The filter in force at the failing primitive: the lexer's own, or one the grammar installs. -/
def FiltersFor (lx : Lx) (g : G) (f : Option Nat) : Prop := f = lx.filter ∨ f ∈ filtersOf g

/-- From a well-formed lexer, with `raw` the raw stream from its position on. -/
theorem run_unexp_inv {R : RunEnv} (ok : ScanOK R.E m len) {lx : Lx} (i : Inv R.E m len lx.filter lx)
    (n : Nat) (g : G) (ctx : Ctx) (W : World) :
    (∀ e, (run R n g lx ctx W).1 = .err e →
      UnexpOK R.E (rawAt R.E m len lx.scanner lx.cursor) (FiltersFor lx g) e.body) ∧
    (∃ new, (run R n g lx ctx W).2.log = W.log ++ new ∧
      ∀ e ∈ new, UnexpOK R.E (rawAt R.E m len lx.scanner lx.cursor) (FiltersFor lx g) e.body) :=
  (run_unexp (F := FiltersFor lx g) ok n g lx ctx W (GF_of_filtersOf g fun f hf => Or.inr hf)
    (J_start i (Or.inl rfl))).2

/-! ### grammars that install no filter: the kept stream -/

/-- The `UnexpectedToken` clauses against the kept stream `K` of the original
lexer: for some byte offset `c ≥ es.e`, `found = Token t` is the first token of
`K` that starts at or after `c`, with `ts` exactly its span; `found = EndOfText`
means no token of `K` starts at or after `c`. -/
def UnexpKept (K : List (RawTok Tok)) (es ts : Span) (found : Found) : Prop :=
  ∃ c, es.e.byte ≤ c ∧
    (∀ t, found = .token t → ∃ r ∈ K, r.tok = t ∧ ts = ⟨r.start, r.stop⟩ ∧ c ≤ r.start.byte ∧
      ∀ x ∈ K, c ≤ x.start.byte → r.start.byte ≤ x.start.byte) ∧
    (found = .eot → ∀ x ∈ K, x.start.byte < c)

/-- `s` is exactly the span of a token of `K` -/
def TokSpanK (K : List (RawTok Tok)) (s : Span) : Prop := ∃ r ∈ K, s = ⟨r.start, r.stop⟩

def UnexpKeptOK (K : List (RawTok Tok)) : ErrBody → Prop
  | .unexp es ts _ found => UnexpKept K es ts found
  | .bracketNone s => TokSpanK K s ∨ s.s = s.e
  | .bracketUnclosed s => TokSpanK K s
  | .bracketUnopened s => TokSpanK K s
  | .bracketMismatch s e => TokSpanK K s ∧ TokSpanK K e
  | _ => True

theorem tokSpan_kept {f0 : Option Nat} {s : Span} (h : TokSpan E raw (fun f => f = f0) s) :
    TokSpanK (raw.filter fun r => keepOf E f0 r.tok) s := by
  obtain ⟨f, r, rfl, hm, hk, hs⟩ := h
  exact ⟨r, List.mem_filter.mpr ⟨hm, hk⟩, hs⟩

theorem unexpAt_kept {f0 : Option Nat} {es ts : Span} {found : Found}
    (h : UnexpAt E raw (fun f => f = f0) es ts found) :
    UnexpKept (raw.filter fun r => keepOf E f0 r.tok) es ts found := by
  obtain ⟨f, c, rfl, hle, h1, h2⟩ := h
  refine ⟨c, hle, ?_, ?_⟩
  · intro t ht
    obtain ⟨r, hr, hts, hmem, hc, hk, hfirst⟩ := h1 t ht
    refine ⟨r, List.mem_filter.mpr ⟨hmem, hk⟩, hr, hts, hc, ?_⟩
    intro x hx hcx
    obtain ⟨hxm, hxk⟩ := List.mem_filter.mp hx
    apply Nat.le_of_not_lt
    intro hlt
    have := hfirst x hxm hcx hlt
    rw [this] at hxk; cases hxk
  · intro he x hx
    obtain ⟨hxm, hxk⟩ := List.mem_filter.mp hx
    apply Nat.lt_of_not_le
    intro hcx
    have := h2 he x hxm hcx
    rw [this] at hxk; cases hxk

theorem unexpOK_kept {f0 : Option Nat} {e : ErrBody} (h : UnexpOK E raw (fun f => f = f0) e) :
    UnexpKeptOK (raw.filter fun r => keepOf E f0 r.tok) e := by
  cases e
  case unexp => exact unexpAt_kept h
  case bracketNone => exact h.imp tokSpan_kept id
  case bracketUnclosed => exact tokSpan_kept h
  case bracketUnopened => exact tokSpan_kept h
  case bracketMismatch => exact ⟨tokSpan_kept h.1, tokSpan_kept h.2⟩
  all_goals trivial

/-- A grammar that installs no filter (`filtersOf g = []`; every grammar of
`pegWithRep`, but also `recover`, `stabilize`, `bracket`, `list`, `sub`, …):
every `UnexpectedToken` returned or newly sent to the sink names the first token
of the kept stream of the original lexer from some offset `c ≥ es.e` on, with
exactly its span, or end-of-text when no kept token starts at or after `c`. -/
theorem run_unexp_kept {R : RunEnv} (ok : ScanOK R.E m len) {lx : Lx} (i : Inv R.E m len lx.filter lx)
    (n : Nat) (g : G) (hg : filtersOf g = []) (ctx : Ctx) (W : World) :
    (∀ e, (run R n g lx ctx W).1 = .err e → UnexpKeptOK (BracketRefine.kept R.E m len lx) e.body) ∧
    (∃ new, (run R n g lx ctx W).2.log = W.log ++ new ∧
      ∀ e ∈ new, UnexpKeptOK (BracketRefine.kept R.E m len lx) e.body) := by
  have hgf : GF (fun f => f = lx.filter) g := GF_of_filtersOf g (by rw [hg]; intro f hf; cases hf)
  obtain ⟨_, h1, new, h2, h3⟩ := run_unexp ok n g lx ctx W hgf (J_start i rfl)
  exact ⟨fun e he => unexpOK_kept (h1 e he), new, h2, fun e he => unexpOK_kept (h3 e he)⟩

/-- The kept stream of a lexer related to a state of the reference evaluator is the state's view. -/
theorem kept_eq_view (hp : PassOK E) {lx : Lx} {s : PState} (a : Abs E m len lx s) :
    BracketRefine.kept E m len lx = s.view := by
  rw [a.view hp, keeps_fun hp, a.filter]; rfl

end ErrOrigin
end Tephra
