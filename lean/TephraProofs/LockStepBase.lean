/-
  TephraProofs.LockStepBase — C08 (parts 1-3; part 4 is in LockStep.lean): the run without a sink and the run with a sink
  are in lock step until the first `send_error`.

  * Part 1: the lexer methods never touch `Lexer.recover` (unconditional frame
    lemmas; only `setRecoverState` writes the field).
  * Part 2 (`SIAt`, target 1): a `Spec.recoveryFree` grammar never consults the
    sink flag: results and worlds are equal.
  * Part 3 (`NRAt`, target 2): without a sink, a run started on a lexer with
    `recover = none` only ever returns lexers with `recover = none`; on such a
    lexer `advanceToRecover` is the identity.
  * Part 4 (`LSAt`): the lock-step relation for committed grammars.
-/
import TephraModel.Run
import TephraModel.Spec.Committed
import TephraProofs.RunMatchers
import TephraProofs.WorldFrame

set_option linter.unusedVariables false

namespace Tephra
namespace LockStep
open WorldFrame

/-! ### Part 1 — `recover` is written by `setRecoverState` only -/

section LexRecover
variable {σ τ : Type} {E : LexEnv σ τ}

@[simp] theorem bufferLoop_recover (behind : Bool) (lx : Lexer σ τ) (ps : σ) (pc : Pos) :
    (Lexer.bufferLoop E behind lx ps pc).recover = lx.recover := by
  fun_induction Lexer.bufferLoop E behind lx ps pc with
  | case1 => rfl
  | case2 lx ps pc tok adv ps' heq hf lx' hg ih => rw [ih]; cases behind <;> simp [lx']
  | case3 lx ps pc tok adv ps' heq hf lx' hg => cases behind <;> simp [lx']
  | case4 => rfl

@[simp] theorem bufferNext_recover (lx : Lexer σ τ) : (lx.bufferNext E).recover = lx.recover := by
  unfold Lexer.bufferNext; split <;> simp

@[simp] theorem peek_recover (lx : Lexer σ τ) : (lx.peek E).2.recover = lx.recover := by
  unfold Lexer.peek; split <;> simp

@[simp] theorem nextLoop_recover (behind : Bool) (lx : Lexer σ τ) :
    (Lexer.nextLoop E behind lx).2.recover = lx.recover := by
  fun_induction Lexer.nextLoop E behind lx with
  | case1 => rfl
  | case2 lx tok adv s' heq hf lx' hg ih => rw [ih]; cases behind <;> simp [lx']
  | case3 lx tok adv s' heq hf lx' hg => cases behind <;> simp [lx']
  | case4 => rfl

@[simp] theorem next_recover (lx : Lexer σ τ) : (lx.next E).2.recover = lx.recover := by
  unfold Lexer.next
  split
  · rfl
  · split <;> simp

@[simp] theorem setFilter_recover (f : Option Nat) (lx : Lexer σ τ) :
    (lx.setFilter E f).2.recover = lx.recover := by
  simp [Lexer.setFilter]

@[simp] theorem intoSublexer_recover (lx : Lexer σ τ) : (lx.intoSublexer E).recover = lx.recover := by
  simp [Lexer.intoSublexer, Lexer.startSublex]

@[simp] theorem setRecoverState_recover (r : Option Nat) (lx : Lexer σ τ) :
    (lx.setRecoverState r).recover = r := rfl

theorem peek_recover' {lx lx' : Lexer σ τ} {o : Option τ} (h : lx.peek E = (o, lx')) :
    lx'.recover = lx.recover := by
  have := peek_recover (E := E) lx; rwa [h] at this

theorem next_recover' {lx lx' : Lexer σ τ} {o : Option τ} (h : lx.next E = (o, lx')) :
    lx'.recover = lx.recover := by
  have := next_recover (E := E) lx; rwa [h] at this

end LexRecover

theorem matchLoop_recover (R : RunEnv) (opens closes abort : List Nat) (sp : Span) (r : Option Nat) (n : Nat)
    (lexer : Lx) (openLexer : Option Lx) (opened : List (Nat × Nat)) (o c : Lx) (idx : Nat)
    (hl : lexer.recover = r) (ho : ∀ ol, openLexer = some ol → ol.recover = r)
    (h : matchLoop R opens closes abort sp n lexer openLexer opened = .found o c idx) :
    o.recover = r ∧ c.recover = r := by
  induction n generalizing lexer openLexer opened with
  | zero => simp [matchLoop] at h
  | succ n ih =>
    simp only [matchLoop] at h
    split at h
    · split at h
      · simp at h
      · split at h <;> simp at h
    · next tok lexer1 hp =>
      have f1 : lexer1.recover = r := (peek_recover' hp).trans hl
      have f2 : (lexer1.next R.E).2.recover = r := by rw [next_recover]; exact f1
      grind

/-- on a lexer without recover state `advance_to_recover` does nothing -/
theorem advanceToRecover_none (R : RunEnv) (lx : Lx) (W : World) (h : lx.recover = none) :
    advanceToRecover R lx W = (some lx, W) := by
  simp [advanceToRecover, h]

/-! ### the two contexts -/

/-- the same context with a sink installed -/
def on (c : Ctx) : Ctx := { c with sink := true }
/-- the same context without a sink (= `Ctx.withoutSink`) -/
def off (c : Ctx) : Ctx := { c with sink := false }

@[simp, grind =] theorem on_on (c : Ctx) : on (on c) = on c := rfl
@[simp, grind =] theorem on_sink (c : Ctx) : (on c).sink = true := rfl
@[simp, grind =] theorem on_pushed (c : Ctx) (t : Nat) : (on c).pushed t = on (c.pushed t) := by
  unfold Ctx.pushed on; split <;> simp_all
@[simp, grind =] theorem on_raw (c : Ctx) : (on c).rawCtx = on c.rawCtx := rfl
@[simp, grind =] theorem on_locked (c : Ctx) (f : Bool) : ({ on c with locked := f } : Ctx) = on { c with locked := f } := rfl
@[simp, grind =] theorem on_withoutSink (c : Ctx) : (on c).withoutSink = c.withoutSink := rfl
@[simp, grind =] theorem on_apply (c : Ctx) (e : PErr) : (on c).apply e = c.apply e := rfl
@[simp, grind =] theorem on_chain (c : Ctx) : (on c).chain = c.chain := rfl
theorem withoutSink_of_sink_false {c : Ctx} (h : c.sink = false) : c.withoutSink = c := by
  cases c; simp_all [Ctx.withoutSink]
@[simp, grind =] theorem raw_sink (c : Ctx) : c.rawCtx.sink = c.sink := rfl
@[simp] theorem locked_sink (c : Ctx) (f : Bool) : ({ c with locked := f } : Ctx).sink = c.sink := rfl
@[grind =] theorem pushed_sink' (c : Ctx) (t : Nat) : (c.pushed t).sink = c.sink := pushed_sink c t

/-! ### Part 2 — recovery-free grammars never consult the sink flag (target 1) -/

open Spec in
structure SIAt (R : RunEnv) (n : Nat) : Prop where
  run : ∀ g lx c W, recoveryFree g = true → run R n g lx (on c) W = run R n g lx c W
  sepItem : ∀ a sep lx c W, recoveryFree a = true → recoveryFree sep = true →
    sepItem R n a sep lx (on c) W = sepItem R n a sep lx c W
  interLoopStart : ∀ lo hi a sep lx c W, recoveryFree a = true → recoveryFree sep = true →
    interLoopStart R n lo hi a sep lx (on c) W = interLoopStart R n lo hi a sep lx c W
  interLoop : ∀ lo hi a sep vals lx c W, recoveryFree a = true → recoveryFree sep = true →
    interLoop R n lo hi a sep vals lx (on c) W = interLoop R n lo hi a sep vals lx c W
  untilStart : ∀ lo hi stop a sep lx c W, recoveryFree stop = true → recoveryFree a = true →
    recoveryFree sep = true →
    untilStart R n lo hi stop a sep lx (on c) W = untilStart R n lo hi stop a sep lx c W
  untilLoop : ∀ lo hi stop a sep vals lx c W, recoveryFree stop = true → recoveryFree a = true →
    recoveryFree sep = true →
    untilLoop R n lo hi stop a sep vals lx (on c) W = untilLoop R n lo hi stop a sep vals lx c W

theorem rf_empty : Spec.recoveryFree .empty = true := rfl
theorem rf_discard_one (k : Nat) : Spec.recoveryFree (.discard (.one k)) = true := rfl

theorem si_run_step (R : RunEnv) (n : Nat) (ih : SIAt R n) (g : G) (lx : Lx) (c : Ctx) (W : World)
    (hg : Spec.recoveryFree g = true) : run R (n + 1) g lx (on c) W = run R (n + 1) g lx c W := by
  obtain ⟨ihr, ihsep, ihis, ihil, ihus, ihul⟩ := ih
  cases g <;> simp only [Spec.recoveryFree, Bool.and_eq_true] at hg <;> simp only [run]
  all_goals try (grind [rf_empty, rf_discard_one, Spec.recoveryFree])

theorem siAt_zero (R : RunEnv) : SIAt R 0 := by
  constructor <;> intros <;>
    simp [run, sepItem, interLoopStart, interLoop, untilStart, untilLoop]

theorem siAt_succ (R : RunEnv) (n : Nat) (ih : SIAt R n) : SIAt R (n + 1) := by
  have hrun := si_run_step R n ih
  obtain ⟨ihr, ihsep, ihis, ihil, ihus, ihul⟩ := ih
  refine ⟨hrun, ?_, ?_, ?_, ?_, ?_⟩
  · intro a sep lx c W ha hs; simp only [sepItem]; grind
  · intro lo hi a sep lx c W ha hs; simp only [interLoopStart]; grind
  · intro lo hi a sep vals lx c W ha hs; simp only [interLoop]; grind
  · intro lo hi stop a sep lx c W hst ha hs; simp only [untilStart]; grind
  · intro lo hi stop a sep vals lx c W hst ha hs; simp only [untilLoop]; grind

theorem siAt (R : RunEnv) : ∀ n, SIAt R n
  | 0 => siAt_zero R
  | n + 1 => siAt_succ R n (siAt R n)


/-! ### the `finish` closure of `listLoop`, named -/

def listFinish (ctx : Ctx) (lo : Nat) (hi : Option Nat) (lexer : Lx) (vals : List Val) (W : World) : RRes × World :=
  if !(vals.isEmpty || lexer.recover.isNone) then (RRes.panic, W) else
  if vals.length < lo then
    let e := mkErr (.count lexer.parseSpan vals.length lo hi)
    match sendError ctx e W with
    | (Option.some e', W1) => (RRes.err e', W1)
    | (Option.none, W1) => (RRes.ok (.list vals.reverse) lexer, W1)
  else (RRes.ok (.list vals.reverse) lexer, W)

theorem listLoop_succ (R : RunEnv) (n : Nat) (v id lo : Nat) (hi : Option Nat) (a : G) (sep : Nat) (abort : List Nat)
    (lexer : Lx) (ctx : Ctx) (W : World) (vals : List Val) :
    listLoop R (n + 1) v id lo hi a sep abort lexer ctx W vals =
    (let optional := v < 2
    let item := if optional then G.someOf a else a
    let dv := if optional then Val.none else Val.dflt
    let pat := Rec.sepOrAbort sep abort
    match lexer.peek R.E with
    | (Option.none, lexer) => listFinish ctx lo hi lexer vals W
    | (Option.some tok, lexer) =>
      if abort.contains tok.kind then
        if vals.isEmpty then listFinish ctx lo hi lexer vals W
        else
          match run R n (.stabilize (.maybe (.upTo item (sep :: abort)))) lexer ctx W with
          | (.ok (.some x) _, W1) => listFinish ctx lo hi lexer (x :: vals) W1
          | (.ok _ _, W1) => listFinish ctx lo hi lexer vals W1
          | r => r
      else
        let first := recoverDefault R n dv id pat (.upTo item (sep :: abort)) lexer ctx W
        match stabValue R n dv id pat (.upTo item (sep :: abort)) lexer ctx first.1 first.2 with
        | (.ok x lexer1, W1) =>
          let vals := x :: vals
          if hiReached hi vals.length then listFinish ctx lo hi lexer1 vals W1 else
          match lexer1.peek R.E with
          | (Option.none, lexer2) => listFinish ctx lo hi lexer2 vals W1
          | (Option.some t2, lexer2) =>
            if abort.contains t2.kind then listFinish ctx lo hi lexer2 vals W1
            else if lexer2.isEmpty then listFinish ctx lo hi lexer2 vals W1
            else
              match recoverDefault R n .dflt id pat (.discard (.one sep)) lexer2 ctx W1 with
              | (.ok _ lexer3, W2) =>
                listLoop R n v id lo hi a sep abort (lexer3.intoSublexer R.E) ctx W2 vals
              | r => r
        | r => r) := by
  rw [listLoop]; rfl

/-! ### Part 3 — without a sink no lexer ever carries a recover state (target 2) -/

/-- a successful result hands back a lexer without recover state -/
def OkNR (r : RRes) : Prop := ∀ v lx', r = .ok v lx' → lx'.recover = none

@[simp] theorem OkNR_ok (v : Val) (lx' : Lx) : OkNR (.ok v lx') ↔ lx'.recover = none := by
  simp [OkNR]
@[simp] theorem OkNR_err (e : PErr) : OkNR (.err e) := by simp [OkNR]
@[simp] theorem OkNR_panic : OkNR .panic := by simp [OkNR]
@[simp] theorem OkNR_fuel : OkNR .fuel := by simp [OkNR]

theorem seqLoop_nr (R : RunEnv) (es : Span) (ks : List Nat) (lx : Lx) (acc : List Tok)
    (h : lx.recover = none) : OkNR (seqLoop R es ks lx acc) := by
  induction ks generalizing lx acc with
  | nil => simpa [seqLoop] using h
  | cons k ks ih =>
    simp only [seqLoop]
    split
    · next t lx1 hn =>
      split
      · exact ih _ _ ((next_recover' hn).trans h)
      · simp
    · simp

theorem seqCountLoop_nr (R : RunEnv) (es : Span) (ks : List Nat) (lx : Lx) (c : Nat)
    (h : lx.recover = none) : OkNR (seqCountLoop R es ks lx c) := by
  induction ks generalizing lx c with
  | nil => simpa [seqCountLoop] using h
  | cons k ks ih =>
    simp only [seqCountLoop]
    split
    · simpa using h
    · split
      · next t lx1 hp =>
        have h1 : lx1.recover = none := (peek_recover' hp).trans h
        split
        · exact ih _ _ (by rw [next_recover]; exact h1)
        · simpa using h1
      · next lx1 hp =>
        have h1 : lx1.recover = none := (peek_recover' hp).trans h
        split
        · simpa using h1
        · simp

theorem countOf_nr (v : Nat) (r : RRes × World) (h : OkNR r.1) : OkNR (countOf v r).1 := by
  unfold countOf
  split
  · exact h
  · split
    · simpa using h
    · exact h

structure NRAt (R : RunEnv) (n : Nat) : Prop where
  run : ∀ g lx ctx W, ctx.sink = false → lx.recover = none → OkNR (run R n g lx ctx W).1
  sepItem : ∀ a sep lx ctx W, ctx.sink = false → lx.recover = none → OkNR (sepItem R n a sep lx ctx W).1
  interLoopStart : ∀ lo hi a sep lx ctx W, ctx.sink = false → lx.recover = none →
    OkNR (interLoopStart R n lo hi a sep lx ctx W).1
  interLoop : ∀ lo hi a sep vals lx ctx W, ctx.sink = false → lx.recover = none →
    OkNR (interLoop R n lo hi a sep vals lx ctx W).1
  untilStart : ∀ lo hi stop a sep lx ctx W, ctx.sink = false → lx.recover = none →
    OkNR (untilStart R n lo hi stop a sep lx ctx W).1
  untilLoop : ∀ lo hi stop a sep vals lx ctx W, ctx.sink = false → lx.recover = none →
    OkNR (untilLoop R n lo hi stop a sep vals lx ctx W).1
  recoverDefault : ∀ dv id r body lx ctx W, ctx.sink = false → lx.recover = none →
    OkNR (recoverDefault R n dv id r body lx ctx W).1
  stabLoop : ∀ a lx ctx res W, OkNR (stabLoop R n a lx ctx res W).1
  listLoop : ∀ v id lo hi a sep abort lx ctx W vals, ctx.sink = false → lx.recover = none →
    OkNR (listLoop R n v id lo hi a sep abort lx ctx W vals).1
  stabValue : ∀ dv id pat body lx ctx res W, OkNR (stabValue R n dv id pat body lx ctx res W).1

attribute [local grind =] bufferNext_recover peek_recover next_recover setFilter_recover intoSublexer_recover
  setRecoverState_recover withoutSink_sink

theorem sendError_nosink {c : Ctx} (e : PErr) (W : World) (h : c.sink = false) :
    sendError c e W = (some e, W) := by simp [sendError, h]

theorem finish_nr (ctx : Ctx) (lo : Nat) (hi : Option Nat) (lexer : Lx) (vals : List Val) (W : World)
    (hs : ctx.sink = false) (h : lexer.recover = none) : OkNR (listFinish ctx lo hi lexer vals W).1 := by
  unfold listFinish
  split
  · simp
  · split
    · simp only [sendError_nosink _ _ hs]; simp
    · simpa using h

theorem nr_run_step (R : RunEnv) (n : Nat) (ih : NRAt R n) (g : G) (lx : Lx) (ctx : Ctx) (W : World)
    (hs : ctx.sink = false) (hr : lx.recover = none) : OkNR (run R (n + 1) g lx ctx W).1 := by
  obtain ⟨ihr, ihsep, ihis, ihil, ihus, ihul, ihrd, ihsl, ihll, ihsv⟩ := ih
  cases g <;> simp only [run]
  all_goals try (grind [OkNR, sendError_nosink])
  case seq ks => exact seqLoop_nr _ _ _ _ _ hr
  case seqCount ks => exact seqCountLoop_nr _ _ _ _ _ hr
  case repeat_ v lo hi a => exact countOf_nr _ _ (ihis _ _ _ _ _ _ _ hs hr)
  case intersperse v lo hi a sep => exact countOf_nr _ _ (ihis _ _ _ _ _ _ _ hs hr)
  case repeatUntil v lo hi stop a => exact countOf_nr _ _ (ihus _ _ _ _ _ _ _ _ hs hr)
  case intersperseUntil v lo hi stop a sep => exact countOf_nr _ _ (ihus _ _ _ _ _ _ _ _ hs hr)

  case bracket v opens a closes abort =>
    split
    · simp
    · split
      · simp
      · simp
      · simp
      · next o c idx hm =>
        have hm' := matchLoop_recover R opens closes abort _ none _ lx none [] o c idx hr (by simp) hm
        have f2 : (c.next R.E).2.recover = none := by rw [next_recover]; exact hm'.2
        split
        · simpa using f2
        · rw [sendError_nosink _ _ hs]; simp
        · next r h1 h2 =>
          intro v l heq
          exact (h1 v l _ (Prod.ext heq rfl)).elim

theorem nrAt_zero (R : RunEnv) : NRAt R 0 := by
  constructor <;> intros <;>
    simp [run, sepItem, interLoopStart, interLoop, untilStart, untilLoop, recoverDefault, stabLoop, listLoop, stabValue]

theorem nrAt_succ (R : RunEnv) (n : Nat) (ih : NRAt R n) : NRAt R (n + 1) := by
  have hrun := nr_run_step R n ih
  obtain ⟨ihr, ihsep, ihis, ihil, ihus, ihul, ihrd, ihsl, ihll, ihsv⟩ := ih
  refine ⟨hrun, ?_, ?_, ?_, ?_, ?_, ?_, ?_, ?_, ?_⟩
  · intro a sep lx ctx W hs hr; simp only [sepItem]; grind [OkNR]
  · intro lo hi a sep lx ctx W hs hr; simp only [interLoopStart]; grind [OkNR]
  · intro lo hi a sep vals lx ctx W hs hr; simp only [interLoop]; grind [OkNR]
  · intro lo hi stop a sep lx ctx W hs hr; simp only [untilStart]; grind [OkNR]
  · intro lo hi stop a sep vals lx ctx W hs hr; simp only [untilLoop]; grind [OkNR]
  · intro dv id r body lx ctx W hs hr; simp only [recoverDefault]
    have h0 := ihr body lx ctx (W.register id r) hs hr
    split
    · rw [sendError_nosink _ _ hs]; simp
    · exact h0
  · intro a lx ctx res W
    cases res <;> simp only [stabLoop]
    · simp
    · split
      · split
        · simp
        · exact ihsl _ _ _ _ _
      · simp
    · simp
    · simp
  · intro v id lo hi a sep abort lx ctx W vals hs hr
    simp only [listLoop_succ]
    split
    · next lexer hp => exact finish_nr _ _ _ _ _ _ hs ((peek_recover' hp).trans hr)
    · next tok lexer hp =>
      have f0 : lexer.recover = none := (peek_recover' hp).trans hr
      split
      · split
        · exact finish_nr _ _ _ _ _ _ hs f0
        · split
          · exact finish_nr _ _ _ _ _ _ hs f0
          · exact finish_nr _ _ _ _ _ _ hs f0
          · next r hne1 hne2 =>
            intro v' l' heq
            exact (hne2 v' l' _ (Prod.ext heq rfl)).elim
      · have h2 := ihsv (if v < 2 then Val.none else Val.dflt) id (Rec.sepOrAbort sep abort)
          ((if v < 2 then a.someOf else a).upTo (sep :: abort)) lexer ctx
          (recoverDefault R n (if v < 2 then Val.none else Val.dflt) id
            (Rec.sepOrAbort sep abort) ((if v < 2 then a.someOf else a).upTo (sep :: abort)) lexer ctx W).fst
          (recoverDefault R n (if v < 2 then Val.none else Val.dflt) id
            (Rec.sepOrAbort sep abort) ((if v < 2 then a.someOf else a).upTo (sep :: abort)) lexer ctx W).snd
        split
        · next x lexer1 W1 hsv =>
          rw [hsv] at h2
          have f1 : lexer1.recover = none := by simpa using h2
          split
          · exact finish_nr _ _ _ _ _ _ hs f1
          · split
            · next lexer2 hp2 => exact finish_nr _ _ _ _ _ _ hs ((peek_recover' hp2).trans f1)
            · next t2 lexer2 hp2 =>
              have f2 : lexer2.recover = none := (peek_recover' hp2).trans f1
              split
              · exact finish_nr _ _ _ _ _ _ hs f2
              · split
                · exact finish_nr _ _ _ _ _ _ hs f2
                · have h3 := ihrd Val.dflt id (Rec.sepOrAbort sep abort) (G.one sep).discard lexer2 ctx W1 hs f2
                  split
                  · next v1 lexer3 W2 hrd =>
                    rw [hrd] at h3
                    exact ihll _ _ _ _ _ _ _ _ _ _ _ hs (by rw [intoSublexer_recover]; simpa using h3)
                  · next r hne =>
                    intro v' l' heq
                    exact (hne v' l' _ (Prod.ext heq rfl)).elim
        · next r hne =>
          intro v' l' heq
          exact (hne v' l' _ (Prod.ext heq rfl)).elim
  · intro dv id pat body lx ctx res W
    cases res <;> simp only [stabValue]
    · simp
    · split
      · split
        · simp
        · exact ihsv _ _ _ _ _ _ _ _
      · simp
    · simp
    · simp

theorem nrAt (R : RunEnv) : ∀ n, NRAt R n
  | 0 => nrAt_zero R
  | n + 1 => nrAt_succ R n (nrAt R n)

/-- Target 2: without a sink, a run that starts without recover state ends without. -/
theorem run_nr (R : RunEnv) (n : Nat) (g : G) (lx : Lx) (ctx : Ctx) (W : World) (hs : ctx.sink = false)
    (hr : lx.recover = none) (v : Val) (lx' : Lx) (h : (run R n g lx ctx W).1 = .ok v lx') :
    lx'.recover = none :=
  (nrAt R n).run g lx ctx W hs hr v lx' h


end LockStep
end Tephra
