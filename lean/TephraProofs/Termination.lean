/-
  TephraProofs.Termination — C02: every parse terminates, including under error
  recovery.

  * part 1 (`TermFuel`): the fuel of the model is not a bound on behaviour
    (`run_fuel_mono`);
  * part 2 (`TermCursor`, `TermRun`): no combinator returns a lexer behind the one
    it was given (`run_cursor_mono`);
  * part 3 (`TermLoops`): the recovery loops terminate by the measure
    `len - cursor` (`recoverLoop_fuel`, `matchLoop_terminates`,
    `stabLoop_terminates`, `stabValue_terminates`, `sep_progress`);
  * part 4 (`TermBound` and here): an explicit fuel bound `B len g`, structural in
    the grammar and linear in the length of the text, with which `run` never
    runs out of fuel (`terminates`).  Repetition combinators are covered under
    the hypothesis of the property — the repeated parser consumes input whenever
    it succeeds (`RepOK`); `list`, `stabilize`, `recover*`, `bracket*` need no
    hypothesis on their bodies.
-/
import TephraProofs.TermBound

set_option linter.unusedVariables false

namespace Tephra.Term
open Tephra

variable {R : RunEnv} {m : Metrics} {len : Nat} {T : Nat → Rec}

/-- The fuel bound: structural in `g`, linear in `len`. -/
def B (len : Nat) : G → Nat
  | .empty  => 1
  | .one _ => 1
  | .any _ => 1
  | .anyIndex _ => 1
  | .seq _ => 1
  | .seqCount _ => 1
  | .pred _ => 1
  | .endOfText  => 1
  | .left a b => B len a + B len b + 2
  | .right a b => B len a + B len b + 2
  | .both a b => B len a + B len b + 1
  | .center a b c => B len a + B len b + B len c + 1
  | .map a => B len a + 1
  | .discard a => B len a + 1
  | .either a b => B len a + B len b + 1
  | .maybe a => B len a + 1
  | .requireIf _ a => B len a + 2
  | .cond _ a => B len a + 1
  | .implies a b => B len a + B len b + 2
  | .antecedent a b => B len a + B len b + 3
  | .consequent a b => B len a + B len b + 3
  | .condImplies a _ b => B len a + B len b + 2
  | .filterWith _ a => B len a + 1
  | .unfiltered a => B len a + 1
  | .sub a => B len a + 1
  | .spanned a => B len a + 1
  | .text a => B len a + 1
  | .repeat_ _ _ _ a => B len a + len + 6
  | .repeatUntil _ _ _ stop a => B len stop + B len a + len + 6
  | .intersperse _ _ _ a sep => B len a + B len sep + len + 5
  | .intersperseUntil _ _ _ stop a sep => B len stop + B len a + B len sep + len + 5
  | .intersperseDefault _ _ a _ => B len a + len + 7
  | .raw a => B len a + 1
  | .unrecoverable a => B len a + 1
  | .recover _ _ a _ => B len a + 3
  | .stabilize a => B len a + len + 3
  | .bracket _ _ a _ _ => B len a + 2
  | .list _ _ _ _ a _ _ => B len a + 2 * len + 8
  | .upTo a _ => B len a + 1
  | .probe _ => 1
  | .ctxPushed _ a => B len a + 1
  | .ctxPush _ a => B len a + 1
  | .ctxLocked _ a => B len a + 1
  | .someOf a => B len a + 1

/-- no user repetition (`repeat*`, `intersperse*`), whose termination depends on the
repeated parser consuming input. -/
def loopFree : G → Bool
  | .empty  => true
  | .one _ => true
  | .any _ => true
  | .anyIndex _ => true
  | .seq _ => true
  | .seqCount _ => true
  | .pred _ => true
  | .endOfText  => true
  | .left a b => loopFree a && loopFree b
  | .right a b => loopFree a && loopFree b
  | .both a b => loopFree a && loopFree b
  | .center a b c => loopFree a && loopFree b && loopFree c
  | .map a => loopFree a
  | .discard a => loopFree a
  | .either a b => loopFree a && loopFree b
  | .maybe a => loopFree a
  | .requireIf _ a => loopFree a
  | .cond _ a => loopFree a
  | .implies a b => loopFree a && loopFree b
  | .antecedent a b => loopFree a && loopFree b
  | .consequent a b => loopFree a && loopFree b
  | .condImplies a _ b => loopFree a && loopFree b
  | .filterWith _ a => loopFree a
  | .unfiltered a => loopFree a
  | .sub a => loopFree a
  | .spanned a => loopFree a
  | .text a => loopFree a
  | .repeat_ _ _ _ _ => false
  | .repeatUntil _ _ _ _ _ => false
  | .intersperse _ _ _ _ _ => false
  | .intersperseUntil _ _ _ _ _ _ => false
  | .intersperseDefault _ _ _ _ => false
  | .raw a => loopFree a
  | .unrecoverable a => loopFree a
  | .recover _ _ a _ => loopFree a
  | .stabilize a => loopFree a
  | .bracket _ _ a _ _ => loopFree a
  | .list _ _ _ _ a _ _ => loopFree a
  | .upTo a _ => loopFree a
  | .probe _ => true
  | .ctxPushed _ a => loopFree a
  | .ctxPush _ a => loopFree a
  | .ctxLocked _ a => loopFree a
  | .someOf a => loopFree a

/-- the hypothesis of the property, at every repetition node of the grammar: the
repeated parser consumes at least one token whenever it succeeds. -/
def RepOK (R : RunEnv) (m : Metrics) (len : Nat) : G → Prop
  | .empty  => True
  | .one _ => True
  | .any _ => True
  | .anyIndex _ => True
  | .seq _ => True
  | .seqCount _ => True
  | .pred _ => True
  | .endOfText  => True
  | .left a b => RepOK R m len a ∧ RepOK R m len b
  | .right a b => RepOK R m len a ∧ RepOK R m len b
  | .both a b => RepOK R m len a ∧ RepOK R m len b
  | .center a b c => RepOK R m len a ∧ RepOK R m len b ∧ RepOK R m len c
  | .map a => RepOK R m len a
  | .discard a => RepOK R m len a
  | .either a b => RepOK R m len a ∧ RepOK R m len b
  | .maybe a => RepOK R m len a
  | .requireIf _ a => RepOK R m len a
  | .cond _ a => RepOK R m len a
  | .implies a b => RepOK R m len a ∧ RepOK R m len b
  | .antecedent a b => RepOK R m len a ∧ RepOK R m len b
  | .consequent a b => RepOK R m len a ∧ RepOK R m len b
  | .condImplies a _ b => RepOK R m len a ∧ RepOK R m len b
  | .filterWith _ a => RepOK R m len a
  | .unfiltered a => RepOK R m len a
  | .sub a => RepOK R m len a
  | .spanned a => RepOK R m len a
  | .text a => RepOK R m len a
  | .repeat_ _ _ _ a => Prog R m len a ∧ RepOK R m len a
  | .repeatUntil _ _ _ stop a => Prog R m len a ∧ RepOK R m len stop ∧ RepOK R m len a
  | .intersperse _ _ _ a sep => Prog R m len a ∧ RepOK R m len a ∧ RepOK R m len sep
  | .intersperseUntil _ _ _ stop a sep => Prog R m len a ∧ RepOK R m len stop ∧ RepOK R m len a ∧ RepOK R m len sep
  | .intersperseDefault _ _ a _ => Prog R m len a ∧ RepOK R m len a
  | .raw a => RepOK R m len a
  | .unrecoverable a => RepOK R m len a
  | .recover _ _ a _ => RepOK R m len a
  | .stabilize a => RepOK R m len a
  | .bracket _ _ a _ _ => RepOK R m len a
  | .list _ _ _ _ a _ _ => RepOK R m len a
  | .upTo a _ => RepOK R m len a
  | .probe _ => True
  | .ctxPushed _ a => RepOK R m len a
  | .ctxPush _ a => RepOK R m len a
  | .ctxLocked _ a => RepOK R m len a
  | .someOf a => RepOK R m len a

theorem repOK_of_loopFree : ∀ g, loopFree g = true → RepOK R m len g := by
  intro g
  induction g <;> simp_all [loopFree, RepOK]

theorem term_requireIf' (ok : ScanOK R.E m len) {flag a k} (hc : Consistent T a) (ht : Term R m len T a k) :
    Term R m len T (.requireIf flag a) (k + 2) := by
  intro n hn lx ctx W wf hw
  obtain ⟨n', rfl⟩ : ∃ n', n = n' + 1 := ⟨n - 1, by omega⟩
  have h1 := ht n' (by omega) lx ctx W wf hw
  have h2 := term_maybe ok hc ht n' (by omega) lx ctx W wf hw
  simp only [run]
  (repeat' split) <;> first | (simp; done) | exact h1 | exact h2

/-- **Fuel bound.**  On the text of a scanner satisfying `ScanOK`, for a grammar whose
recovery ids are consistent and whose repetitions are productive, `run` does not run
out of fuel with `B len g` (or more). -/
theorem term_all (ok : ScanOK R.E m len) : ∀ g, Consistent T g → RepOK R m len g → Term R m len T g (B len g) := by
  intro g
  induction g with
  | empty   =>
    intro hc hr
    exact term_empty ok
  | one k  =>
    intro hc hr
    exact term_one ok
  | any ks  =>
    intro hc hr
    exact term_any ok
  | anyIndex ks  =>
    intro hc hr
    exact term_anyIndex ok
  | seq ks  =>
    intro hc hr
    exact term_seq
  | seqCount ks  =>
    intro hc hr
    exact term_seqCount
  | pred p  =>
    intro hc hr
    exact term_pred ok
  | endOfText   =>
    intro hc hr
    exact term_endOfText ok
  | left a b a_ih b_ih =>
    intro hc hr
    simp only [Consistent, RepOK] at hc hr
    have hca := hc.1
    have hra := hr.1
    have hcb := hc.2
    have hrb := hr.2
    exact (term_left ok (by simpa [Consistent] using hc) (term_both ok hca (a_ih hca hra) hcb (b_ih hcb hrb))).mono (by simp only [B]; omega)
  | right a b a_ih b_ih =>
    intro hc hr
    simp only [Consistent, RepOK] at hc hr
    have hca := hc.1
    have hra := hr.1
    have hcb := hc.2
    have hrb := hr.2
    exact (term_right ok (by simpa [Consistent] using hc) (term_both ok hca (a_ih hca hra) hcb (b_ih hcb hrb))).mono (by simp only [B]; omega)
  | both a b a_ih b_ih =>
    intro hc hr
    simp only [Consistent, RepOK] at hc hr
    have hca := hc.1
    have hra := hr.1
    have hcb := hc.2
    have hrb := hr.2
    exact (term_both ok hca (a_ih hca hra) hcb (b_ih hcb hrb)).mono (by simp only [B]; omega)
  | center a b c a_ih b_ih c_ih =>
    intro hc hr
    simp only [Consistent, RepOK] at hc hr
    have hca := hc.1
    have hra := hr.1
    have hcb := hc.2.1
    have hrb := hr.2.1
    have hcc := hc.2.2
    have hrc := hr.2.2
    exact (term_center ok hca (a_ih hca hra) hcb (b_ih hcb hrb) hcc (c_ih hcc hrc)).mono (by simp only [B]; omega)
  | map a a_ih =>
    intro hc hr
    simp only [Consistent, RepOK] at hc hr
    have hca := hc
    have hra := hr
    exact (term_map ok hca (a_ih hca hra)).mono (by simp only [B]; omega)
  | discard a a_ih =>
    intro hc hr
    simp only [Consistent, RepOK] at hc hr
    have hca := hc
    have hra := hr
    exact (term_discard ok hca (a_ih hca hra)).mono (by simp only [B]; omega)
  | either a b a_ih b_ih =>
    intro hc hr
    simp only [Consistent, RepOK] at hc hr
    have hca := hc.1
    have hra := hr.1
    have hcb := hc.2
    have hrb := hr.2
    exact (term_either ok hca (a_ih hca hra) hcb (b_ih hcb hrb)).mono (by simp only [B]; omega)
  | maybe a a_ih =>
    intro hc hr
    simp only [Consistent, RepOK] at hc hr
    have hca := hc
    have hra := hr
    exact (term_maybe ok hca (a_ih hca hra)).mono (by simp only [B]; omega)
  | requireIf flag a a_ih =>
    intro hc hr
    simp only [Consistent, RepOK] at hc hr
    have hca := hc
    have hra := hr
    exact (term_requireIf' ok hca (a_ih hca hra)).mono (by simp only [B]; omega)
  | cond flag a a_ih =>
    intro hc hr
    simp only [Consistent, RepOK] at hc hr
    have hca := hc
    have hra := hr
    exact (term_cond ok hca (a_ih hca hra)).mono (by simp only [B]; omega)
  | implies a b a_ih b_ih =>
    intro hc hr
    simp only [Consistent, RepOK] at hc hr
    have hca := hc.1
    have hra := hr.1
    have hcb := hc.2
    have hrb := hr.2
    exact (term_implies ok (by simpa [Consistent] using hca) (term_maybe ok hca (a_ih hca hra)) hcb (b_ih hcb hrb)).mono (by simp only [B]; omega)
  | antecedent a b a_ih b_ih =>
    intro hc hr
    simp only [Consistent, RepOK] at hc hr
    have hca := hc.1
    have hra := hr.1
    have hcb := hc.2
    have hrb := hr.2
    exact (term_antecedent ok (by simpa [Consistent] using hc) (term_implies ok (by simpa [Consistent] using hca) (term_maybe ok hca (a_ih hca hra)) hcb (b_ih hcb hrb))).mono (by simp only [B]; omega)
  | consequent a b a_ih b_ih =>
    intro hc hr
    simp only [Consistent, RepOK] at hc hr
    have hca := hc.1
    have hra := hr.1
    have hcb := hc.2
    have hrb := hr.2
    exact (term_consequent ok (by simpa [Consistent] using hc) (term_implies ok (by simpa [Consistent] using hca) (term_maybe ok hca (a_ih hca hra)) hcb (b_ih hcb hrb))).mono (by simp only [B]; omega)
  | condImplies a k b a_ih b_ih =>
    intro hc hr
    simp only [Consistent, RepOK] at hc hr
    have hca := hc.1
    have hra := hr.1
    have hcb := hc.2
    have hrb := hr.2
    exact (term_condImplies ok (by simpa [Consistent] using hca) (term_maybe ok hca (a_ih hca hra)) hcb (b_ih hcb hrb)).mono (by simp only [B]; omega)
  | filterWith mask a a_ih =>
    intro hc hr
    simp only [Consistent, RepOK] at hc hr
    have hca := hc
    have hra := hr
    exact (term_filterWith ok hca (a_ih hca hra)).mono (by simp only [B]; omega)
  | unfiltered a a_ih =>
    intro hc hr
    simp only [Consistent, RepOK] at hc hr
    have hca := hc
    have hra := hr
    exact (term_unfiltered ok hca (a_ih hca hra)).mono (by simp only [B]; omega)
  | sub a a_ih =>
    intro hc hr
    simp only [Consistent, RepOK] at hc hr
    have hca := hc
    have hra := hr
    exact (term_sub ok hca (a_ih hca hra)).mono (by simp only [B]; omega)
  | spanned a a_ih =>
    intro hc hr
    simp only [Consistent, RepOK] at hc hr
    have hca := hc
    have hra := hr
    exact (term_spanned ok hca (a_ih hca hra)).mono (by simp only [B]; omega)
  | text a a_ih =>
    intro hc hr
    simp only [Consistent, RepOK] at hc hr
    have hca := hc
    have hra := hr
    exact (term_text ok hca (a_ih hca hra)).mono (by simp only [B]; omega)
  | repeat_ v lo hi a a_ih =>
    intro hc hr
    simp only [Consistent, RepOK] at hc hr
    have hca := hc
    have hra := hr.2
    have hp := hr.1
    exact (term_repeat ok hca (a_ih hca hra) hp).mono (by simp only [B]; omega)
  | repeatUntil v lo hi stop a stop_ih a_ih =>
    intro hc hr
    simp only [Consistent, RepOK] at hc hr
    have hcstop := hc.1
    have hrstop := hr.2.1
    have hca := hc.2
    have hra := hr.2.2
    have hp := hr.1
    exact (term_repeatUntil ok hcstop hca (stop_ih hcstop hrstop) (a_ih hca hra) hp).mono (by simp only [B]; omega)
  | intersperse v lo hi a sep a_ih sep_ih =>
    intro hc hr
    simp only [Consistent, RepOK] at hc hr
    have hca := hc.1
    have hra := hr.2.1
    have hcsep := hc.2
    have hrsep := hr.2.2
    have hp := hr.1
    exact (term_intersperse ok hca hcsep (a_ih hca hra) (sep_ih hcsep hrsep) hp).mono (by simp only [B]; omega)
  | intersperseUntil v lo hi stop a sep stop_ih a_ih sep_ih =>
    intro hc hr
    simp only [Consistent, RepOK] at hc hr
    have hcstop := hc.1
    have hrstop := hr.2.1
    have hca := hc.2.1
    have hra := hr.2.2.1
    have hcsep := hc.2.2
    have hrsep := hr.2.2.2
    have hp := hr.1
    exact (term_intersperseUntil ok hcstop hca hcsep (stop_ih hcstop hrstop) (a_ih hca hra) (sep_ih hcsep hrsep) hp).mono (by simp only [B]; omega)
  | intersperseDefault lo hi a sepk a_ih =>
    intro hc hr
    simp only [Consistent, RepOK] at hc hr
    have hca := hc
    have hra := hr.2
    have hp := hr.1
    exact (term_intersperseDefault ok hca (a_ih hca hra) hp).mono (by simp only [B]; omega)
  | raw a a_ih =>
    intro hc hr
    simp only [Consistent, RepOK] at hc hr
    have hca := hc
    have hra := hr
    exact (term_raw ok hca (a_ih hca hra)).mono (by simp only [B]; omega)
  | unrecoverable a a_ih =>
    intro hc hr
    simp only [Consistent, RepOK] at hc hr
    have hca := hc
    have hra := hr
    exact (term_unrecoverable ok hca (a_ih hca hra)).mono (by simp only [B]; omega)
  | recover v id a r a_ih =>
    intro hc hr
    simp only [Consistent, RepOK] at hc hr
    have hca := hc.2
    have hra := hr
    have hT := hc.1
    exact (term_recover ok hca hT (a_ih hca hra)).mono (by simp only [B]; omega)
  | stabilize a a_ih =>
    intro hc hr
    simp only [Consistent, RepOK] at hc hr
    have hca := hc
    have hra := hr
    exact (term_stabilize ok hca (a_ih hca hra)).mono (by simp only [B]; omega)
  | bracket v opens a closes abort a_ih =>
    intro hc hr
    simp only [Consistent, RepOK] at hc hr
    have hca := hc
    have hra := hr
    exact (term_bracket ok hca (a_ih hca hra)).mono (by simp only [B]; omega)
  | list v id lo hi a sep abort a_ih =>
    intro hc hr
    simp only [Consistent, RepOK] at hc hr
    have hca := hc.2
    have hra := hr
    have hT := hc.1
    exact (term_list ok hca hT (a_ih hca hra)).mono (by simp only [B]; omega)
  | upTo a abort a_ih =>
    intro hc hr
    simp only [Consistent, RepOK] at hc hr
    have hca := hc
    have hra := hr
    exact (term_upTo ok hca (a_ih hca hra)).mono (by simp only [B]; omega)
  | probe tag  =>
    intro hc hr
    exact term_probe ok
  | ctxPushed tag a a_ih =>
    intro hc hr
    simp only [Consistent, RepOK] at hc hr
    have hca := hc
    have hra := hr
    exact (term_ctxPushed ok hca (a_ih hca hra)).mono (by simp only [B]; omega)
  | ctxPush tag a a_ih =>
    intro hc hr
    simp only [Consistent, RepOK] at hc hr
    have hca := hc
    have hra := hr
    exact (term_ctxPush ok hca (a_ih hca hra)).mono (by simp only [B]; omega)
  | ctxLocked flag a a_ih =>
    intro hc hr
    simp only [Consistent, RepOK] at hc hr
    have hca := hc
    have hra := hr
    exact (term_ctxLocked ok hca (a_ih hca hra)).mono (by simp only [B]; omega)
  | someOf a a_ih =>
    intro hc hr
    simp only [Consistent, RepOK] at hc hr
    have hca := hc
    have hra := hr
    exact (term_someOf ok hca (a_ih hca hra)).mono (by simp only [B]; omega)

/-- **C02, fuel bound**: `run` does not run out of fuel with `B len g` or more. -/
theorem terminates (ok : ScanOK R.E m len) (g : G) (hc : Consistent T g) (hr : RepOK R m len g) {n : Nat}
    (hn : B len g ≤ n) (lx : Lx) (ctx : Ctx) (W : World) (wf : WF m len lx) (hw : WOK T W) :
    (run R n g lx ctx W).1 ≠ .fuel :=
  term_all ok g hc hr n hn lx ctx W wf hw

/-- ... and the result no longer depends on the fuel. -/
theorem terminates_stable (ok : ScanOK R.E m len) (g : G) (hc : Consistent T g) (hr : RepOK R m len g) {n : Nat}
    (hn : B len g ≤ n) (lx : Lx) (ctx : Ctx) (W : World) (wf : WF m len lx) (hw : WOK T W) :
    run R n g lx ctx W = run R (B len g) g lx ctx W :=
  run_fuel_mono R hn g lx ctx W (terminates ok g hc hr (Nat.le_refl _) lx ctx W wf hw)

/-! ### a consistent table exists when ids determine their predicate -/

/-- the `(id, predicate)` pairs of the recover/list nodes of a grammar. -/
def recIds : G → List (Nat × Rec)
  | .empty  => []
  | .one _ => []
  | .any _ => []
  | .anyIndex _ => []
  | .seq _ => []
  | .seqCount _ => []
  | .pred _ => []
  | .endOfText  => []
  | .left a b => recIds a ++ recIds b
  | .right a b => recIds a ++ recIds b
  | .both a b => recIds a ++ recIds b
  | .center a b c => recIds a ++ recIds b ++ recIds c
  | .map a => recIds a
  | .discard a => recIds a
  | .either a b => recIds a ++ recIds b
  | .maybe a => recIds a
  | .requireIf _ a => recIds a
  | .cond _ a => recIds a
  | .implies a b => recIds a ++ recIds b
  | .antecedent a b => recIds a ++ recIds b
  | .consequent a b => recIds a ++ recIds b
  | .condImplies a _ b => recIds a ++ recIds b
  | .filterWith _ a => recIds a
  | .unfiltered a => recIds a
  | .sub a => recIds a
  | .spanned a => recIds a
  | .text a => recIds a
  | .repeat_ _ _ _ a => recIds a
  | .repeatUntil _ _ _ stop a => recIds stop ++ recIds a
  | .intersperse _ _ _ a sep => recIds a ++ recIds sep
  | .intersperseUntil _ _ _ stop a sep => recIds stop ++ recIds a ++ recIds sep
  | .intersperseDefault _ _ a _ => recIds a
  | .raw a => recIds a
  | .unrecoverable a => recIds a
  | .recover _ id a r => (id, r) :: recIds a
  | .stabilize a => recIds a
  | .bracket _ _ a _ _ => recIds a
  | .list _ id _ _ a sep abort => (id, .sepOrAbort sep abort) :: recIds a
  | .upTo a _ => recIds a
  | .probe _ => []
  | .ctxPushed _ a => recIds a
  | .ctxPush _ a => recIds a
  | .ctxLocked _ a => recIds a
  | .someOf a => recIds a

theorem consistent_of_mem : ∀ g, (∀ p ∈ recIds g, T p.1 = p.2) → Consistent T g := by
  intro g
  induction g <;> simp_all [recIds, Consistent, forall_and, or_imp] <;> grind

/-- the table read off a list of pairs (first occurrence wins). -/
def tableOf (l : List (Nat × Rec)) (id : Nat) : Rec := ((l.find? (·.1 == id)).map (·.2)).getD (.before 0)

/-- ids determine their predicate (in particular: ids are pairwise distinct, as the
reader `GWire.parseG` guarantees, and as is the case in the Rust, where every
closure is its own object). -/
def IdsFunctional (l : List (Nat × Rec)) : Prop := ∀ p ∈ l, ∀ q ∈ l, p.1 = q.1 → p.2 = q.2

theorem tableOf_spec {l : List (Nat × Rec)} (h : IdsFunctional l) : ∀ p ∈ l, tableOf l p.1 = p.2 := by
  intro p hp
  unfold tableOf
  cases hf : l.find? (·.1 == p.1) with
  | none =>
    rw [List.find?_eq_none] at hf
    exact absurd (by simp) (hf p hp)
  | some q =>
    have hq := List.mem_of_find?_eq_some hf
    have he := List.find?_some hf
    simp only [beq_iff_eq] at he
    simp only [Option.map_some, Option.getD_some]
    exact h q hq p hp he

theorem consistent_tableOf (g : G) (h : IdsFunctional (recIds g)) : Consistent (tableOf (recIds g)) g :=
  consistent_of_mem g (tableOf_spec h)

end Tephra.Term
