/-
  TephraProofs.TermCursor — C02, part 2: cursor monotonicity.

  `WF E m len lx`: the lexer works on the text of `ScanOK E m len`, its cursor is
  inside the text and its lookahead buffer (if any) lies ahead of the cursor,
  is non-empty and ends inside the text.  Every lexer method preserves `WF` and
  never moves the cursor backwards; a delivered token moves it strictly forward.
-/
import TephraProofs.LexIter
import TephraProofs.TermFuel

namespace Tephra.Term
open Tephra

variable {σ τ : Type} {E : LexEnv σ τ} {m : Metrics} {len : Nat}

/-- Well-formed lexer for the text of `ScanOK E m len`. -/
structure WF (m : Metrics) (len : Nat) (lx : Lexer σ τ) : Prop where
  hmet : lx.metrics = m
  hlen : lx.len = len
  cur : lx.cursor.byte ≤ len
  buf : ∀ b, lx.buffer = some b →
    lx.cursor.byte ≤ b.peekStart.byte ∧ b.peekStart.byte < b.peekCursor.byte ∧ b.peekCursor.byte ≤ len

/-- `lx'` is not behind `lx`: same cursor, or strictly further in bytes. -/
def Adv (lx lx' : Lexer σ τ) : Prop := lx'.cursor = lx.cursor ∨ lx.cursor.byte < lx'.cursor.byte

theorem Adv.le {lx lx' : Lexer σ τ} (h : Adv lx lx') : lx.cursor.byte ≤ lx'.cursor.byte := by
  rcases h with h | h
  · rw [h]; exact Nat.le_refl _
  · omega

theorem Adv.refl (lx : Lexer σ τ) : Adv lx lx := Or.inl rfl

theorem Adv.trans {a b c : Lexer σ τ} (h1 : Adv a b) (h2 : Adv b c) : Adv a c := by
  rcases h1 with h1 | h1 <;> rcases h2 with h2 | h2
  · exact Or.inl (h2.trans h1)
  · right; rw [← h1]; exact h2
  · right; rw [h2]; exact h1
  · right; omega

theorem wf_new (s0 : σ) : WF m len (Lexer.new s0 m len : Lexer σ τ) :=
  ⟨rfl, rfl, Nat.zero_le _, fun _ h => nomatch h⟩

theorem WF.lt_of_buf {lx : Lexer σ τ} (wf : WF m len lx) {b} (hb : lx.buffer = some b) : lx.cursor.byte < len := by
  have := wf.buf b hb; omega

/-! ### `buffer_next` -/

theorem bufferLoop_wf (ok : ScanOK E m len) (behind : Bool) (lx : Lexer σ τ) (ps : σ) (pc : Pos)
    (hm : lx.metrics = m) (hl : lx.len = len) (hc : lx.cursor.byte ≤ pc.byte) (hpc : pc.byte ≤ len)
    (hb : lx.buffer = none) :
    WF m len (Lexer.bufferLoop E behind lx ps pc) ∧ Adv lx (Lexer.bufferLoop E behind lx ps pc) ∧
    (Lexer.bufferLoop E behind lx ps pc).filter = lx.filter ∧
    (Lexer.bufferLoop E behind lx ps pc).recover = lx.recover := by
  fun_induction Lexer.bufferLoop E behind lx ps pc with
  | case1 lx ps pc s' heq =>
    exact ⟨⟨hm, hl, by omega, fun b h => by rw [hb] at h; cases h⟩, Adv.refl _, rfl, rfl⟩
  | case2 lx ps pc tok adv ps' heq hf lx' hg ih =>
    subst hm
    have hp := ok.progress _ _ _ _ _ heq
    have := ih (by cases behind <;> simp [lx']) (by cases behind <;> simp [lx', hl])
      (by cases behind <;> simp [lx'] <;> omega) hp.2 (by cases behind <;> simp [lx', hb])
    refine ⟨this.1, ?_, ?_, ?_⟩
    · refine Adv.trans ?_ this.2.1
      cases behind
      · exact Or.inl rfl
      · right; simp [lx']; omega
    · rw [this.2.2.1]; cases behind <;> simp [lx']
    · rw [this.2.2.2]; cases behind <;> simp [lx']
  | case3 lx ps pc tok adv ps' heq hf lx' hg =>
    subst hm
    have := ok.progress _ _ _ _ _ heq
    omega
  | case4 lx ps pc tok adv ps' heq hf =>
    subst hm
    have hp := ok.progress _ _ _ _ _ heq
    refine ⟨⟨rfl, hl, by simp; omega, ?_⟩, Adv.refl _, rfl, rfl⟩
    intro b h
    simp at h
    subst h
    exact ⟨hc, hp.1, hp.2⟩

theorem bufferNext_wf (ok : ScanOK E m len) {lx : Lexer σ τ} (wf : WF m len lx) :
    WF m len (lx.bufferNext E) ∧ Adv lx (lx.bufferNext E) ∧ (lx.bufferNext E).filter = lx.filter ∧
    (lx.bufferNext E).recover = lx.recover := by
  unfold Lexer.bufferNext
  split
  · exact ⟨wf, Adv.refl _, rfl, rfl⟩
  · next h =>
    exact bufferLoop_wf ok _ lx _ _ wf.hmet wf.hlen (Nat.le_refl _) wf.cur (by simpa using h)

theorem peek_wf (ok : ScanOK E m len) {lx : Lexer σ τ} (wf : WF m len lx) :
    WF m len (lx.peek E).2 ∧ Adv lx (lx.peek E).2 ∧ (lx.peek E).2.filter = lx.filter ∧
    (lx.peek E).2.recover = lx.recover := by
  unfold Lexer.peek
  split
  · exact ⟨wf, Adv.refl _, rfl, rfl⟩
  · exact bufferNext_wf ok wf

theorem peek_some_buf {lx lx' : Lexer σ τ} {t : τ} (h : lx.peek E = (some t, lx')) :
    ∃ b, lx'.buffer = some b := by
  unfold Lexer.peek at h
  split at h
  · cases h
  · simp only [Prod.mk.injEq] at h
    obtain ⟨h1, h2⟩ := h
    subst h2
    cases hb : (lx.bufferNext E).buffer with
    | none => rw [hb] at h1; cases h1
    | some b => exact ⟨b, rfl⟩

/-! ### `next` -/

theorem nextLoop_wf (ok : ScanOK E m len) (behind : Bool) (lx : Lexer σ τ)
    (wf : WF m len lx) (hb : lx.buffer = none) :
    WF m len (Lexer.nextLoop E behind lx).2 ∧ lx.cursor.byte ≤ (Lexer.nextLoop E behind lx).2.cursor.byte ∧
    ((Lexer.nextLoop E behind lx).1.isSome → lx.cursor.byte < (Lexer.nextLoop E behind lx).2.cursor.byte) ∧
    (Lexer.nextLoop E behind lx).2.filter = lx.filter ∧ (Lexer.nextLoop E behind lx).2.recover = lx.recover := by
  fun_induction Lexer.nextLoop E behind lx with
  | case1 lx s' heq =>
    exact ⟨⟨wf.hmet, wf.hlen, wf.cur, fun b h => by simp [hb] at h⟩, Nat.le_refl _, by simp, rfl, rfl⟩
  | case2 lx tok adv s' heq hf lx' hg ih =>
    have hm := wf.hmet
    subst hm
    have hp := ok.progress _ _ _ _ _ heq
    have wf' : WF lx.metrics len lx' := by
      cases behind <;> exact ⟨rfl, wf.hlen, hp.2, fun b h => by simp [lx', hb] at h⟩
    have := ih wf' (by cases behind <;> simp [lx', hb])
    have hc : lx'.cursor = adv := by cases behind <;> simp [lx']
    rw [hc] at this
    refine ⟨this.1, by omega, fun _ => by omega, ?_, ?_⟩
    · rw [this.2.2.2.1]; cases behind <;> simp [lx']
    · rw [this.2.2.2.2]; cases behind <;> simp [lx']
  | case3 lx tok adv s' heq hf lx' hg =>
    have hm := wf.hmet
    subst hm
    have := ok.progress _ _ _ _ _ heq
    have := wf.hlen
    omega
  | case4 lx tok adv s' heq hf ps =>
    have hm := wf.hmet
    subst hm
    have hp := ok.progress _ _ _ _ _ heq
    exact ⟨⟨rfl, wf.hlen, hp.2, fun b h => by simp [hb] at h⟩, by simp; omega, fun _ => hp.1, rfl, rfl⟩

theorem next_wf (ok : ScanOK E m len) {lx : Lexer σ τ} (wf : WF m len lx) :
    WF m len (lx.next E).2 ∧ lx.cursor.byte ≤ (lx.next E).2.cursor.byte ∧
    ((lx.next E).1.isSome → lx.cursor.byte < (lx.next E).2.cursor.byte) ∧
    (lx.next E).2.filter = lx.filter ∧ (lx.next E).2.recover = lx.recover := by
  unfold Lexer.next
  split
  · exact ⟨wf, Nat.le_refl _, by simp, rfl, rfl⟩
  · split
    · next buf hb =>
      have := wf.buf buf hb
      exact ⟨⟨wf.hmet, wf.hlen, this.2.2, fun b h => by simp at h⟩, by simp; omega, fun _ => by simp; omega,
        rfl, rfl⟩
    · next hb => exact nextLoop_wf ok _ lx wf hb

/-- after a successful `peek`, `next` delivers and moves strictly forward. -/
theorem next_after_peek (ok : ScanOK E m len) {lx lx' : Lexer σ τ} {t : τ} (wf : WF m len lx)
    (h : lx.peek E = (some t, lx')) :
    WF m len (lx'.next E).2 ∧ lx.cursor.byte < (lx'.next E).2.cursor.byte := by
  have hp := peek_wf ok wf
  simp only [h] at hp
  obtain ⟨b, hb⟩ := peek_some_buf h
  have hlt := hp.1.lt_of_buf hb
  have hn := next_wf ok hp.1
  refine ⟨hn.1, ?_⟩
  have : ((lx'.next E).1).isSome := by
    unfold Lexer.next
    rw [if_neg (by have := hp.1.hlen; omega), hb]
    rfl
  have := hn.2.2.1 this
  have := hp.2.1.le
  omega

/-! ### the other methods used by the combinators -/

theorem setFilter_wf (ok : ScanOK E m len) (f : Option Nat) {lx : Lexer σ τ} (wf : WF m len lx) :
    WF m len (lx.setFilter E f).2 ∧ Adv lx (lx.setFilter E f).2 ∧ (lx.setFilter E f).2.recover = lx.recover := by
  unfold Lexer.setFilter
  have wf' : WF m len ({ lx with filter := f, buffer := none } : Lexer σ τ) :=
    ⟨wf.hmet, wf.hlen, wf.cur, fun b h => by simp at h⟩
  have := bufferNext_wf ok wf'
  exact ⟨this.1, this.2.1, this.2.2.2⟩

theorem intoSublexer_wf (ok : ScanOK E m len) {lx : Lexer σ τ} (wf : WF m len lx) :
    WF m len (lx.intoSublexer E) ∧ Adv lx (lx.intoSublexer E) ∧ (lx.intoSublexer E).recover = lx.recover := by
  unfold Lexer.intoSublexer Lexer.startSublex
  have wf' : WF m len ({ lx with parseStart := lx.cursor, tokenStart := lx.cursor } : Lexer σ τ) :=
    ⟨wf.hmet, wf.hlen, wf.cur, wf.buf⟩
  have := bufferNext_wf ok wf'
  exact ⟨this.1, this.2.1, this.2.2.2⟩

theorem setRecoverState_wf (r : Option Nat) {lx : Lexer σ τ} (wf : WF m len lx) :
    WF m len (lx.setRecoverState r) := ⟨wf.hmet, wf.hlen, wf.cur, wf.buf⟩

@[simp] theorem setRecoverState_cursor (r : Option Nat) (lx : Lexer σ τ) :
    (lx.setRecoverState r).cursor = lx.cursor := rfl

theorem advanceTo_wf (ok : ScanOK E m len) (p : τ → Bool) (lx : Lexer σ τ) (wf : WF m len lx) :
    WF m len (lx.advanceTo E p).2 ∧ lx.cursor.byte ≤ (lx.advanceTo E p).2.cursor.byte := by
  fun_induction Lexer.advanceTo E p lx with
  | case1 lx lx' h0 =>
    have := next_wf ok wf; rw [h0] at this; exact ⟨this.1, this.2.1⟩
  | case2 lx t lx' h0 hp =>
    have := next_wf ok wf; rw [h0] at this; exact ⟨this.1, this.2.1⟩
  | case3 lx t lx' h0 hp hg ih =>
    have := next_wf ok wf; rw [h0] at this
    have := ih this.1
    exact ⟨this.1, by omega⟩
  | case4 lx t lx' h0 hp hg =>
    have := next_wf ok wf; rw [h0] at this; exact ⟨this.1, this.2.1⟩

theorem nextIf_wf (ok : ScanOK E m len) (p : τ → Bool) {lx : Lexer σ τ} (wf : WF m len lx) :
    WF m len (lx.nextIf E p).2 ∧ lx.cursor.byte ≤ (lx.nextIf E p).2.cursor.byte := by
  have hp := peek_wf ok wf
  unfold Lexer.nextIf
  split
  · next t lx' heq =>
    simp only [heq] at hp
    have hn := next_wf ok hp.1
    have := hp.2.1.le
    split
    · exact ⟨hn.1, by omega⟩
    · exact ⟨hp.1, this⟩
  · next lx' heq =>
    simp only [heq] at hp
    exact ⟨hp.1, hp.2.1.le⟩

theorem withFilter_wf (ok : ScanOK E m len) (f : Option Nat) {lx : Lexer σ τ} (wf : WF m len lx) :
    WF m len (lx.withFilter E f) ∧ lx.cursor.byte ≤ (lx.withFilter E f).cursor.byte := by
  unfold Lexer.withFilter
  have h1 := setFilter_wf ok f wf
  have h2 := bufferNext_wf ok h1.1
  have := h1.2.1.le
  have := h2.2.1.le
  exact ⟨h2.1, by omega⟩

theorem advanceUpTo_wf (ok : ScanOK E m len) (p : τ → Bool) (lx : Lexer σ τ) (wf : WF m len lx) :
    WF m len (lx.advanceUpTo E p).2 ∧ lx.cursor.byte ≤ (lx.advanceUpTo E p).2.cursor.byte := by
  fun_induction Lexer.advanceUpTo E p lx with
  | case1 lx lx' h0 =>
    have := peek_wf ok wf; simp only [h0] at this; exact ⟨this.1, this.2.1.le⟩
  | case2 lx t lx' h0 hp =>
    have := peek_wf ok wf; simp only [h0] at this; exact ⟨this.1, this.2.1.le⟩
  | case3 lx t lx' h0 hp x lx'' h1 hg ih =>
    have hpk := peek_wf ok wf; simp only [h0] at hpk
    have hn := next_wf ok hpk.1; simp only [h1] at hn
    have hi := ih hn.1
    have := hpk.2.1.le
    exact ⟨hi.1, by omega⟩
  | case4 lx t lx' h0 hp x lx'' h1 hg =>
    have hpk := peek_wf ok wf; simp only [h0] at hpk
    have hn := next_wf ok hpk.1; simp only [h1] at hn
    have := hpk.2.1.le
    exact ⟨hn.1, by show lx.cursor.byte ≤ lx''.cursor.byte; omega⟩

/-! ### results of the interpreter -/

variable {R : RunEnv} {m : Metrics} {len : Nat}

def OkC (m : Metrics) (len : Nat) (lx : Lx) (r : RRes × World) : Prop :=
  ∀ v lx', r.1 = .ok v lx' → WF m len lx' ∧ lx.cursor.byte ≤ lx'.cursor.byte

@[simp] theorem OkC_ok {lx : Lx} {v l W} : OkC m len lx (.ok v l, W) ↔ WF m len l ∧ lx.cursor.byte ≤ l.cursor.byte := by
  simp [OkC]
@[simp] theorem OkC_err {lx : Lx} {e W} : OkC m len lx (.err e, W) := by simp [OkC]
@[simp] theorem OkC_panic {lx : Lx} {W} : OkC m len lx (.panic, W) := by simp [OkC]
@[simp] theorem OkC_fuel {lx : Lx} {W} : OkC m len lx (.fuel, W) := by simp [OkC]

theorem OkC.mono {lx lx1 : Lx} {r} (h : OkC m len lx1 r) (hle : lx.cursor.byte ≤ lx1.cursor.byte) : OkC m len lx r := by
  intro v l e
  have := h v l e
  exact ⟨this.1, by omega⟩

theorem OkC_world {lx : Lx} {r : RRes} {W W' : World} (h : OkC m len lx (r, W)) : OkC m len lx (r, W') := h

theorem OkC_countOf {lx : Lx} {v r} (h : OkC m len lx r) : OkC m len lx (countOf v r) := by
  unfold countOf
  split
  · exact h
  · split
    · simp_all
    · exact h

/-- plain (non-`Adv`) forms of the lexer lemmas, as used by the automation. -/
structure LexFacts (R : RunEnv) (m : Metrics) (len : Nat) : Prop where
  next : ∀ lx : Lx, WF m len lx → WF m len (lx.next R.E).2 ∧ lx.cursor.byte ≤ (lx.next R.E).2.cursor.byte
  peek : ∀ lx : Lx, WF m len lx → WF m len (lx.peek R.E).2 ∧ lx.cursor.byte ≤ (lx.peek R.E).2.cursor.byte
  setFilter : ∀ f (lx : Lx), WF m len lx →
    WF m len (lx.setFilter R.E f).2 ∧ lx.cursor.byte ≤ (lx.setFilter R.E f).2.cursor.byte
  sub : ∀ lx : Lx, WF m len lx → WF m len (lx.intoSublexer R.E) ∧ lx.cursor.byte ≤ (lx.intoSublexer R.E).cursor.byte
  setRec : ∀ r (lx : Lx), WF m len lx → WF m len (lx.setRecoverState r) ∧ (lx.setRecoverState r).cursor = lx.cursor
  advTo : ∀ p (lx : Lx), WF m len lx →
    WF m len (lx.advanceTo R.E p).2 ∧ lx.cursor.byte ≤ (lx.advanceTo R.E p).2.cursor.byte

theorem lexFacts (ok : ScanOK R.E m len) : LexFacts R m len where
  next := fun _ wf => ⟨(next_wf ok wf).1, (next_wf ok wf).2.1⟩
  peek := fun _ wf => ⟨(peek_wf ok wf).1, (peek_wf ok wf).2.1.le⟩
  setFilter := fun f _ wf => ⟨(setFilter_wf ok f wf).1, (setFilter_wf ok f wf).2.1.le⟩
  sub := fun _ wf => ⟨(intoSublexer_wf ok wf).1, (intoSublexer_wf ok wf).2.1.le⟩
  setRec := fun r _ wf => ⟨setRecoverState_wf r wf, rfl⟩
  advTo := fun p lx wf => advanceTo_wf ok p lx wf

/-! ### the non-fuelled loops -/

theorem recoverLoop_wf (ok : ScanOK R.E m len) (id : Nat) : ∀ n (lx : Lx) W lx1 W1, WF m len lx →
    recoverLoop R id n lx W = (some lx1, W1) → WF m len lx1 ∧ Adv lx lx1 := by
  intro n
  induction n with
  | zero => intro lx W lx1 W1 _ h; simp [recoverLoop] at h
  | succ n ih =>
    intro lx W lx1 W1 wf h
    simp only [recoverLoop] at h
    split at h
    · cases h
    · next t lx' hp =>
      have hpk := peek_wf ok wf
      simp only [hp] at hpk
      split at h
      · cases h; exact ⟨hpk.1, hpk.2.1⟩
      · have hn := next_after_peek ok wf hp
        have := ih _ _ _ _ hn.1 h
        refine ⟨this.1, Or.inr ?_⟩
        have := this.2.le
        omega

theorem advanceToRecover_wf (ok : ScanOK R.E m len) {lx : Lx} {W lx1 W1} (wf : WF m len lx)
    (h : advanceToRecover R lx W = (some lx1, W1)) : WF m len lx1 ∧ Adv lx lx1 := by
  unfold advanceToRecover at h
  split at h
  · cases h; exact ⟨wf, Adv.refl _⟩
  · exact recoverLoop_wf ok _ _ _ _ _ _ wf h

theorem seqLoop_cur (ok : ScanOK R.E m len) (es : Span) : ∀ ks (lx : Lx) acc W, WF m len lx →
    OkC m len lx (seqLoop R es ks lx acc, W) := by
  intro ks
  induction ks with
  | nil => intro lx acc W wf; simp [seqLoop, wf]
  | cons k ks ih =>
    intro lx acc W wf
    have hn := next_wf ok wf
    simp only [seqLoop]
    split
    · next t lx' heq =>
      simp only [heq] at hn
      split
      · exact (ih lx' _ W hn.1).mono hn.2.1
      · simp
    · simp

theorem seqCountLoop_cur (ok : ScanOK R.E m len) (es : Span) : ∀ ks (lx : Lx) c W, WF m len lx →
    OkC m len lx (seqCountLoop R es ks lx c, W) := by
  intro ks
  induction ks with
  | nil => intro lx c W wf; simp [seqCountLoop, wf]
  | cons k ks ih =>
    intro lx c W wf
    have hp := peek_wf ok wf
    simp only [seqCountLoop]
    split
    · simp [wf]
    · split
      · next t lx' heq =>
        simp only [heq] at hp
        have hn := next_wf ok hp.1
        split
        · exact (ih _ _ W hn.1).mono (by have := hp.2.1.le; omega)
        · simp [hp.1, hp.2.1.le]
      · next lx' heq =>
        simp only [heq] at hp
        split
        · simp [hp.1, hp.2.1.le]
        · simp

theorem matchLoop_cur (ok : ScanOK R.E m len) (opens closes abort : List Nat) (sp : Span) (lx0 : Lx) :
    ∀ n (lexer : Lx) ol opened o c idx, WF m len lexer → lx0.cursor.byte ≤ lexer.cursor.byte →
      (∀ l, ol = some l → WF m len l ∧ lx0.cursor.byte ≤ l.cursor.byte) →
      matchLoop R opens closes abort sp n lexer ol opened = .found o c idx →
      WF m len o ∧ WF m len c ∧ lx0.cursor.byte ≤ o.cursor.byte ∧ lx0.cursor.byte ≤ c.cursor.byte := by
  intro n
  induction n with
  | zero => intro lexer ol opened o c idx _ _ _ h; simp [matchLoop] at h
  | succ n ih =>
    intro lexer ol opened o c idx wf hle hol h
    have hp := peek_wf ok wf
    simp only [matchLoop] at h
    split at h
    · split at h
      · cases h
      · split at h <;> cases h
    · next tok lexer' heq =>
      simp only [heq] at hp
      have hple := hp.2.1.le
      have hn := next_wf ok hp.1
      have ih' := fun ol' opened' (hol' : ∀ l, ol' = some l → WF m len l ∧ lx0.cursor.byte ≤ l.cursor.byte) =>
        ih (lexer'.next R.E).2 ol' opened' o c idx hn.1 (by omega) hol'
      have hol2 : ∀ l, (match ol with | none => some lexer' | some ol => some ol) = some l →
          WF m len l ∧ lx0.cursor.byte ≤ l.cursor.byte := by
        intro l hl
        split at hl
        · cases hl; exact ⟨hp.1, by omega⟩
        · exact hol l hl
      repeat' split at h
      all_goals first
        | (cases h; done)
        | exact ih' _ _ hol h
        | exact ih' _ _ hol2 h
        | (cases h; have := hol _ rfl; exact ⟨this.1, hp.1, this.2, by omega⟩)

end Tephra.Term
