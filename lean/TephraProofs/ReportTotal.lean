/-
  TephraProofs.ReportTotal — converting an error into a source report
  (`TephraModel.Report.reportOf`) and rendering it never panics, for errors whose
  span / position fields are canonical positions of the text with start ≤ end
  (what `run` produces: `RunSpans.run_spans`, `RunSpans.run_wf`).

  The route: a canonical span with start ≤ end is a pair of aligned cuts
  `t = a ++ mid ++ z` (`span_cut`); `SpanDisplay::new` on such a span succeeds and
  the display renders (`RenderPf.spanDisplay_new_ok`, `writeSpanDisplay_ok`, i.e.
  C18_widen / C18_split / C16_render_total); every report `reportOf` builds has at
  most one display, built from such a span, with at most two highlights each
  carrying one message.
-/
import TephraModel.Report
import TephraProofs.RenderProof
import TephraProofs.RunSpans
import TephraProofs.MeasureCanon

set_option linter.unusedVariables false

namespace Tephra.ReportPf
open Tephra Tephra.Render Tephra.Spec Tephra.LinesPf Tephra.RenderPf Tephra.Report

/-- canonical position of the text `t` under `m` -/
def Canon (m : Metrics) (t : Text) (p : Pos) : Prop := isCanon m t p = true

/-! ### a canonical span is a pair of aligned cuts -/

theorem bytes_pos_of_wf {l : Text} (hwf : Text.WF l) (hne : l ≠ []) : 0 < bytes l := by
  cases l with
  | nil => exact absurd rfl hne
  | cons c r =>
    have := (hwf c (by simp)).1
    simp only [bytes, List.map_cons, List.sum_cons]
    omega

/-- two prefixes of a well-formed text, the first not longer in bytes: the first is a prefix of
the second -/
theorem prefix_of_bytes_le {p1 s1 p2 s2 : Text} (h : p1 ++ s1 = p2 ++ s2) (hwf : Text.WF (p1 ++ s1))
    (hb : bytes p1 ≤ bytes p2) : ∃ mid, p2 = p1 ++ mid := by
  rcases List.append_eq_append_iff.mp h with ⟨a', h1, h2⟩ | ⟨c', h1, h2⟩
  · exact ⟨a', h1⟩
  · -- p1 = p2 ++ c': then c' has no bytes, so it is empty
    by_cases hc : c' = []
    · subst hc; exact ⟨[], by simpa using h1.symm⟩
    · exfalso
      have hwfc : Text.WF c' := by
        intro c hc'
        exact hwf c (by rw [h1]; simp [hc'])
      have := bytes_pos_of_wf hwfc hc
      rw [h1, bytes_append] at hb
      omega

/-- A span whose ends are canonical positions of `t`, start ≤ end: the text is cut twice, both
cuts aligned, and the ends are the canonical positions of the cuts. -/
theorem span_cut (m : Metrics) (t : Text) (hwf : Text.WF t) (x : Span)
    (hs : Canon m t x.s) (he : Canon m t x.e) (hle : x.s.byte ≤ x.e.byte) :
    ∃ a mid z, t = a ++ mid ++ z ∧ aligned m a (mid ++ z) = true ∧ aligned m (a ++ mid) z = true ∧
      x = ⟨canon m a, canon m (a ++ mid)⟩ := by
  obtain ⟨p1, s1, h1, ha1, hp1⟩ := (MeasureCanon.isCanon_iff m t hwf x.s).mp hs
  obtain ⟨p2, s2, h2, ha2, hp2⟩ := (MeasureCanon.isCanon_iff m t hwf x.e).mp he
  have hb : bytes p1 ≤ bytes p2 := by
    have e1 : x.s.byte = bytes p1 := by rw [hp1]; simp
    have e2 : x.e.byte = bytes p2 := by rw [hp2]; simp
    omega
  obtain ⟨mid, hmid⟩ := prefix_of_bytes_le (h1.symm.trans h2) (h1 ▸ hwf) hb
  subst hmid
  have hs1 : s1 = mid ++ s2 := by
    have : p1 ++ s1 = p1 ++ (mid ++ s2) := by rw [← h1, h2]; simp
    exact List.append_cancel_left this
  subst hs1
  refine ⟨p1, mid, s2, by rw [h2], ha1, ha2, ?_⟩
  cases x
  simp only at hp1 hp2
  rw [hp1, hp2]

/-! ### one display built from a canonical span -/

theorem multi_lt (hls : List Highlight) (h : hls.length ≤ 2) :
    (hls.filter (·.isMultiline)).length < 256 := by
  have := List.length_filter_le (fun h : Highlight => h.isMultiline) hls
  omega

/-- `oneDisplay` on a canonical span succeeds and the report renders. -/
theorem oneDisplay_ok (paint : Style → String → String) (color : Bool) (m : Metrics) (t : Text)
    (hwf : Text.WF t) (E : Env) (msg : String) (x : Span) (hls : List Highlight)
    (hs : Canon m t x.s) (he : Canon m t x.e) (hle : x.s.byte ≤ x.e.byte)
    (hm : ∀ h ∈ hls, MsgOK h) (hlen : hls.length ≤ 2) :
    ∃ cd, oneDisplay ⟨t, m, Pos.zero⟩ E msg x hls = .ok cd ∧
      ∃ s, writeCodeDisplay paint ⟨t, m, Pos.zero⟩ { cd with colorEnabled := color } = .ok s := by
  obtain ⟨a, mid, z, rfl, ha1, ha2, rfl⟩ := span_cut m t hwf x hs he hle
  let sd : SpanDisplay :=
    ⟨E.name, widenSpec m a mid z, hls, [], gutterWidth (canon m (a ++ mid)).line⟩
  have hnew : oneDisplay ⟨a ++ mid ++ z, m, Pos.zero⟩ E msg ⟨canon m a, canon m (a ++ mid)⟩ hls =
      .ok (sourceError msg (sd :: [])) := by
    simp only [oneDisplay, spanDisplay_new_ok m a mid z hwf ha1 ha2 E.name, sd]
  refine ⟨_, hnew, ?_⟩
  apply writeCodeDisplay_ok
  intro sd hsd
  simp only [sourceError, List.mem_singleton] at hsd
  subst hsd
  exact writeSpanDisplay_ok paint color m a mid z hwf _ rfl hm (multi_lt _ hlen)

theorem errorHighlight_msgOK (sp : Span) (msg : String) : MsgOK (errorHighlight sp msg) := Or.inl rfl

/-! ### `Display` is total on the errors `run` builds -/

theorem countDescription_ok {found min : Nat} (max : Option Nat) (h : found < min) :
    ∃ d, countDescription found min max = .ok d := by
  simp only [countDescription, h, if_true]
  exact ⟨_, rfl⟩

theorem displayBody_ok (E : Env) (b : ErrBody) (hq : ErrQ (fun _ => True) (fun _ => True) b) :
    ∃ s, displayBody E b = .ok s := by
  cases b with
  | count es found min max =>
    obtain ⟨d, hd⟩ := countDescription_ok max hq.2
    simp only [displayBody, hd]
    exact ⟨_, rfl⟩
  | _ => exact ⟨_, rfl⟩

theorem defaultReport_ok (paint : Style → String → String) (color : Bool) (src : Source) (E : Env) (e : PErr)
    (hq : ErrQ (fun _ => True) (fun _ => True) e.body) :
    ∃ cd, defaultReport E e = .ok cd ∧
      ∃ s, writeCodeDisplay paint src { cd with colorEnabled := color } = .ok s := by
  obtain ⟨s, hs⟩ := displayBody_ok E e.body hq
  have hdef : defaultReport E e = .ok (sourceError (tagPrefix e.trail ++ s) []) := by
    simp only [defaultReport, displayErr, hs]
  refine ⟨_, hdef, ?_⟩
  apply writeCodeDisplay_ok
  intro sd hsd
  simp [sourceError] at hsd

/-- weakening of `ErrQ` -/
theorem ErrQ_mono {Q Q' : Span → Prop} {P P' : Pos → Prop} (hQ : ∀ x, Q x → Q' x) (hP : ∀ p, P p → P' p)
    {b : ErrBody} (h : ErrQ Q P b) : ErrQ Q' P' b := by
  cases b <;> simp only [ErrQ] at h ⊢
  all_goals first
    | exact ⟨hQ _ h.1, hQ _ h.2⟩
    | exact ⟨hQ _ h.1, hP _ h.2⟩
    | exact ⟨hQ _ h.1, h.2⟩
    | exact hQ _ h
    | trivial

/-! ### the report of every error -/

/-- `reportOf` succeeds and the report renders (any painter, colour on or off). -/
theorem reportOf_ok (paint : Style → String → String) (color : Bool) (m : Metrics) (t : Text)
    (hwf : Text.WF t) (E : Env) (e : PErr)
    (hcanon : ErrP (Canon m t) e.body) (hle : ErrWF e.body) :
    ∃ cd, reportOf ⟨t, m, Pos.zero⟩ E e = .ok cd ∧
      ∃ s, writeCodeDisplay paint ⟨t, m, Pos.zero⟩ { cd with colorEnabled := color } = .ok s := by
  have htriv : ErrQ (fun _ => True) (fun _ => True) e.body :=
    ErrQ_mono (fun _ _ => trivial) (fun _ _ => trivial) hcanon
  unfold reportOf
  split
  · obtain ⟨trail, body⟩ := e
    simp only at hcanon hle htriv ⊢
    cases body with
    | unexp es ts exp found =>
      exact oneDisplay_ok paint color m t hwf E _ ts _ hcanon.2.1 hcanon.2.2 hle.2
        (by intro h hh; simp only [List.mem_singleton] at hh; subst hh; exact errorHighlight_msgOK _ _)
        (by simp)
    | unrec es =>
      exact oneDisplay_ok paint color m t hwf E _ (Span.at_ es.e) _ hcanon.2 hcanon.2 (Nat.le_refl _)
        (by simp) (by simp)
    | recover => exact defaultReport_ok paint color _ E _ htriv
    | boundary es endp =>
      have hp := LexInv.enclosing_pos (P := Canon m t) hcanon.1.1 hcanon.2
      exact oneDisplay_ok paint color m t hwf E _ (boundaryFull es endp) _ hp.1 hp.2
        (RunSpans.enclosing_le _ _)
        (by intro h hh; simp only [List.mem_singleton] at hh; subst hh; exact errorHighlight_msgOK _ _)
        (by simp)
    | bracketNone s =>
      exact oneDisplay_ok paint color m t hwf E _ s _ hcanon.1 hcanon.2 hle
        (by intro h hh; simp only [List.mem_singleton] at hh; subst hh; exact errorHighlight_msgOK _ _)
        (by simp)
    | bracketUnclosed s =>
      exact oneDisplay_ok paint color m t hwf E _ s _ hcanon.1 hcanon.2 hle
        (by intro h hh; simp only [List.mem_singleton] at hh; subst hh; exact errorHighlight_msgOK _ _)
        (by simp)
    | bracketUnopened s =>
      exact oneDisplay_ok paint color m t hwf E _ s _ hcanon.1 hcanon.2 hle
        (by intro h hh; simp only [List.mem_singleton] at hh; subst hh; exact errorHighlight_msgOK _ _)
        (by simp)
    | bracketMismatch s e' =>
      exact oneDisplay_ok paint color m t hwf E _ s _ hcanon.1.1 hcanon.1.2 hle.1
        (by
          intro h hh
          simp only [List.mem_cons, List.mem_nil_iff, or_false] at hh
          rcases hh with rfl | rfl <;> exact errorHighlight_msgOK _ _)
        (by simp)
    | count es found min max =>
      obtain ⟨d, hd⟩ := countDescription_ok max hcanon.2
      simp only [ownReport, hd]
      exact oneDisplay_ok paint color m t hwf E _ es _ hcanon.1.1 hcanon.1.2 hle.1
        (by intro h hh; simp only [List.mem_singleton] at hh; subst hh; exact errorHighlight_msgOK _ _)
        (by simp)
    | probe id => exact defaultReport_ok paint color _ E _ htriv
  · exact defaultReport_ok paint color _ E e htriv

/-- `renderError` (the plain rendering of the report) never panics. -/
theorem renderError_ok (m : Metrics) (t : Text) (hwf : Text.WF t) (E : Env) (e : PErr)
    (hcanon : ErrP (Canon m t) e.body) (hle : ErrWF e.body) :
    ∃ s, renderError ⟨t, m, Pos.zero⟩ E e = .ok s := by
  obtain ⟨cd, hcd, s, hs⟩ := reportOf_ok plainPaint false m t hwf E e hcanon hle
  exact ⟨s, by simp only [renderError, hcd, hs]⟩

end Tephra.ReportPf
