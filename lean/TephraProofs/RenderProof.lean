/-
  Lemmas for C16 (rendered reports): the colour code path is the plain code
  path up to painting; rendering never panics on canonical displays; every line
  of the widened span is printed exactly once, in order; gutters are aligned;
  the (repaired) riser state machine of highlight.rs agrees with the index-based
  layout specification for highlights of every shape.
-/
import TephraProofs.Window
import TephraModel.Spec.RenderSpec
import TephraModel.Fam.Render

set_option linter.unusedSimpArgs false
set_option linter.unusedSectionVars false
set_option linter.unusedVariables false

namespace Tephra.RenderPf
open Tephra Tephra.Render Tephra.Spec Tephra.LinesPf

/-! ### 1. colour path = plain path under the identity painter -/

theorem writeRiser_colour (h : Highlight) (line : Nat) (st : Riser) (active : Bool) :
    writeRiser plainPaint true h line st active = writeRiser plainPaint false h line st active := by
  cases st <;> simp [writeRiser, plainPaint]

theorem writeRisers_colour (line : Nat) (act : Option Nat) (i : Nat) (hls : List Highlight)
    (sts : List Riser) :
    writeRisers plainPaint true line act i hls sts = writeRisers plainPaint false line act i hls sts := by
  induction hls generalizing i sts with
  | nil => simp [writeRisers]
  | cons h hs ih =>
    cases sts with
    | nil => simp [writeRisers]
    | cons st sts => simp only [writeRisers, writeRiser_colour, ih]

theorem writeMessage_colour (h : Highlight) (line : Nat) (sp : Bool) (hs : h.startMsg = none) :
    writeMessage plainPaint true h line sp = writeMessage plainPaint false h line sp := by
  simp [writeMessage, plainPaint, hs]

theorem writeGutter_colour (v : String) (w : Nat) :
    writeGutter plainPaint true v w = writeGutter plainPaint false v w := by
  simp [writeGutter, plainPaint, String.append_assoc]

theorem messageRows_colour (w line : Nat) (hls : List Highlight) (multi : Bool) (i : Nat)
    (rest : List Highlight) (sts : List Riser) (hr : ∀ h ∈ rest, h.startMsg = none) :
    messageRows plainPaint true w line hls multi i rest sts =
      messageRows plainPaint false w line hls multi i rest sts := by
  induction rest generalizing i sts with
  | nil => simp [messageRows]
  | cons mh rest ih =>
    have hmh : mh.startMsg = none := hr mh (by simp)
    have hrest : ∀ h ∈ rest, h.startMsg = none := fun h hh => hr h (by simp [hh])
    simp only [messageRows, writeRisers_colour, writeMessage_colour _ _ _ hmh, writeGutter_colour,
      ih _ _ hrest]

theorem lineRows_colour (src : Source) (w : Nat) (hls : List Highlight) (pieces : List Span)
    (sts : List Riser) (hr : ∀ h ∈ hls, h.startMsg = none) :
    lineRows plainPaint true src w hls pieces sts = lineRows plainPaint false src w hls pieces sts := by
  induction pieces generalizing sts with
  | nil => simp [lineRows]
  | cons sp more ih =>
    simp only [lineRows, writeRisers_colour, messageRows_colour _ _ _ _ _ _ _ hr, writeGutter_colour, ih]

theorem writeMType_colour (m : MType) : writeMType plainPaint true m = writeMType plainPaint false m := by
  cases m <;> simp [writeMType, plainPaint, MType.label]

theorem writeNote_colour (n : Note) : writeNote plainPaint true n = writeNote plainPaint false n := by
  simp [writeNote, writeMType_colour]

theorem writeNote_colour' : writeNote plainPaint true = writeNote plainPaint false :=
  funext writeNote_colour

theorem writeSpanDisplay_colour (src : Source) (sd : SpanDisplay)
    (hr : ∀ h ∈ sd.highlights, h.startMsg = none) :
    writeSpanDisplay plainPaint true src sd = writeSpanDisplay plainPaint false src sd := by
  simp only [writeSpanDisplay, lineRows_colour _ _ _ _ _ hr, writeGutter_colour, writeNote_colour]
  simp [plainPaint]

theorem writeSpanDisplays_colour (src : Source) (sds : List SpanDisplay)
    (hr : ∀ sd ∈ sds, ∀ h ∈ sd.highlights, h.startMsg = none) :
    writeSpanDisplays plainPaint true src sds = writeSpanDisplays plainPaint false src sds := by
  induction sds with
  | nil => simp [writeSpanDisplays]
  | cons sd more ih =>
    have h1 := writeSpanDisplay_colour src sd (hr sd (by simp))
    have h2 := ih (fun sd' hsd => hr sd' (by simp [hsd]))
    simp only [writeSpanDisplays, h1, h2]

theorem writeCodeDisplay_colour (src : Source) (cd : CodeDisplay)
    (hr : ∀ sd ∈ cd.spans, ∀ h ∈ sd.highlights, h.startMsg = none) (hc : cd.codeId = none) :
    writeCodeDisplay plainPaint src { cd with colorEnabled := true } =
      writeCodeDisplay plainPaint src { cd with colorEnabled := false } := by
  simp only [writeCodeDisplay, writeSpanDisplays_colour _ _ hr, writeNote_colour', hc, writeMType_colour]
  simp [plainPaint, String.append_assoc]

/-! ### 4. gutters -/

theorem rep_length_one (c : String) (hc : c.length = 1) (n : Nat) : (rep c n).length = n := by
  induction n with
  | zero => simp [rep]
  | succ n ih =>
    simp only [rep, List.replicate_succ, String.join_cons, String.length_append] at ih ⊢
    omega

theorem padLeft_length (w : Nat) (s : String) : (padLeft w s).length = max w s.length := by
  simp only [padLeft, String.length_append, rep_length_one " " (by decide)]
  omega

theorem toString_length_mono {a b : Nat} (h : a ≤ b) : (toString a).length ≤ (toString b).length := by
  simp only [Nat.toString_eq_repr]
  have hpos : 0 < b.repr.length := Nat.length_repr_pos
  have hb : b < 10 ^ b.repr.length := (Nat.length_repr_le_iff hpos).mp (Nat.le_refl _)
  exact (Nat.length_repr_le_iff hpos).mpr (by omega)

theorem gutterWidth_mono {line last : Nat} (h : line ≤ last) :
    (toString line).length ≤ gutterWidth last := toString_length_mono h

theorem padLeft_gutter_length {line last : Nat} (h : line ≤ last) :
    (padLeft (gutterWidth last) (toString line)).length = gutterWidth last := by
  rw [padLeft_length]
  have := gutterWidth_mono h
  omega

theorem padLeft_empty_length (w : Nat) : (padLeft w "").length = w := by
  rw [padLeft_length]; simp

/-! ### 2. the pieces of a canonical span clip to the lines of the text under it -/

/-- piece `i` clips (no panic) to line `i`, and carries line number `n + i` -/
def PiecesOK (src : Source) : Nat → List Text → List Span → Prop
  | _, [], [] => True
  | n, l :: ls, sp :: sps =>
    src.clipped sp = .ok ⟨l, src.metrics, sp.s⟩ ∧
      Source.sliceBytes src.text sp.s.byte sp.e.byte = .ok l ∧ sp.s.line = n ∧
      PiecesOK src (n + 1) ls sps
  | _, _, _ => False

theorem pieces_ok (m : Metrics) (R : Text) : ∀ (L : List Text) (a mid : Text),
    linesOf m mid = L → Text.WF (a ++ mid ++ R) → aligned m a (mid ++ R) = true →
    aligned m (a ++ mid) R = true →
    PiecesOK ⟨a ++ mid ++ R, m, Pos.zero⟩ (canon m a).line L
      ((piecesFrom m (a ++ mid ++ R) a.length L).map (·.2)) := by
  intro L
  induction L with
  | nil => intro a mid hL; exact absurd hL (linesOf_ne_nil m mid)
  | cons l ls ih =>
    intro a mid hL hwf ha1 ha2
    obtain ⟨rem, hmid, hcase⟩ := linesOf_decomp m mid l ls hL
    have hT : a ++ mid ++ R = a ++ l ++ (rem ++ R) := by rw [hmid]; simp
    have e1 : (a ++ mid ++ R).take a.length = a := take_prefix (mid ++ R) (by simp)
    have e2 : (a ++ mid ++ R).take (a.length + l.length) = a ++ l :=
      take_prefix' (rem ++ R) hT (by simp)
    have hal2 : aligned m (a ++ l) (rem ++ R) = true := by
      rcases hcase with ⟨hrem, _⟩ | ⟨rest, hb, _⟩
      · subst hrem; simp at hmid; subst hmid; simpa using ha2
      · exact aligned_of_starts_break (breakAt_append R hb)
    have hclip := clipped_correct m a l (rem ++ R) (by rw [← hT]; exact hwf)
      (by rw [hmid] at ha1; simpa [List.append_assoc] using ha1) hal2
    rw [← hT] at hclip
    have hslice : Source.sliceBytes (a ++ mid ++ R) (canon m a).byte (canon m (a ++ l)).byte =
        .ok l := by
      rw [hT]; simp only [canon_byte]
      exact sliceBytes_mid (Text.WF_append.mp (by rw [← hT]; exact hwf)).1
    simp only [piecesFrom, List.map_cons, PiecesOK, e1, e2]
    refine ⟨hclip, hslice, trivial, ?_⟩
    rcases hcase with ⟨hrem, hls⟩ | ⟨rest, hb, hls⟩
    · subst hls; simp [piecesFrom, PiecesOK]
    · obtain ⟨B, hB, hBc, hBl⟩ := breakAt_split hb
      have hT2 : a ++ mid ++ R = (a ++ l ++ B) ++ rest ++ R := by rw [hmid, hB]; simp
      have hlen : a.length + l.length + lbLen m = (a ++ l ++ B).length := by simp [hBl]; omega
      have hal3 : aligned m (a ++ l ++ B) (rest ++ R) = true := aligned_of_ends_break hBc
      have hih := ih (a ++ l ++ B) rest hls.symm (by rw [← hT2]; exact hwf) hal3
        (by have : a ++ l ++ B ++ rest = a ++ mid := by rw [hmid, hB]; simp
            rw [this]; exact ha2)
      have hline : (canon m (a ++ l ++ B)).line = (canon m a).line + 1 := by
        have h1 := canon_line_append (aligned_of_append_right ha1)
        have h2 := canon_line_append (aligned_of_append_right hal3)
        have : a ++ l ++ B ++ rest = a ++ mid := by rw [hmid, hB]; simp
        rw [this] at h2
        rw [hL] at h1; rw [← hls] at h2
        have := linesOf_length_pos m rest
        rw [← hls] at this
        simp at h1; omega
      rw [hT2, hlen, ← hline]
      exact hih

/-- the widened span is itself a canonical span (two aligned cuts) of the text -/
theorem widen_canon (m : Metrics) (a mid z : Text) :
    ∃ a0 mid' rem, a ++ mid ++ z = a0 ++ mid' ++ rem ∧
      widenSpec m a mid z = ⟨canon m a0, canon m (a0 ++ mid')⟩ ∧
      aligned m a0 (mid' ++ rem) = true ∧ aligned m (a0 ++ mid') rem = true := by
  obtain ⟨a0, cl, I, h1, _, _, h4, h5, h6, h7, _⟩ := last_split m a
  obtain ⟨rem, hr, hcase⟩ := curLineSuf_prefix m z
  refine ⟨a0, cl ++ mid ++ curLineSuf m z, rem, ?_, ?_, ?_, ?_⟩
  · conv => lhs; rw [h1, hr]
    simp
  · simp only [widenSpec, h6, h7]
    have : a0 ++ (cl ++ mid ++ curLineSuf m z) = a ++ mid ++ curLineSuf m z := by
      conv => rhs; rw [h1]
      simp
    rw [this]
  · rcases h4 with h | ⟨u, B, hu, hB⟩
    · subst h; simp
    · rw [hu]; exact aligned_of_ends_break hB
  · rcases hcase with ⟨h, _⟩ | ⟨rest, hb, _⟩
    · subst h; simp
    · exact aligned_of_starts_break hb

/-! ### 2b. no panic -/

/-- at most one message per highlight (what the public constructors build) -/
def MsgOK (h : Highlight) : Prop := h.startMsg = none ∨ h.endMsg = none

theorem writeMessage_isSome (paint : Style → String → String) (color : Bool) (h : Highlight)
    (line : Nat) (sp : Bool) (hm : MsgOK h) : ∃ s, writeMessage paint color h line sp = some s := by
  unfold writeMessage
  rcases hm with hm | hm <;> simp only [hm] <;> split <;> (try split) <;> (try split) <;> simp_all

theorem messageRows_ok (paint : Style → String → String) (color : Bool) (w line : Nat)
    (hls : List Highlight) (multi : Bool) (i : Nat) (rest : List Highlight) (sts : List Riser)
    (hr : ∀ h ∈ rest, MsgOK h) :
    ∃ r, messageRows paint color w line hls multi i rest sts = .ok r := by
  induction rest generalizing i sts with
  | nil => exact ⟨_, rfl⟩
  | cons mh rest ih =>
    have hrest : ∀ h ∈ rest, MsgOK h := fun h hh => hr h (by simp [hh])
    unfold messageRows
    split
    · exact ih _ _ hrest
    · obtain ⟨msg, hmsg⟩ := writeMessage_isSome paint color mh line multi (hr mh (by simp))
      simp only [hmsg]
      obtain ⟨⟨more, sts''⟩, hmore⟩ := ih (i + 1)
        (writeRisers paint color line (some i) 0 hls sts).2 hrest
      simp only [hmore]
      exact ⟨_, rfl⟩

theorem lineRows_ok (paint : Style → String → String) (color : Bool) (src : Source) (w : Nat)
    (hls : List Highlight) (hr : ∀ h ∈ hls, MsgOK h) :
    ∀ (n : Nat) (L : List Text) (pieces : List Span) (sts : List Riser), PiecesOK src n L pieces →
      ∃ s, lineRows paint color src w hls pieces sts = .ok s := by
  intro n L pieces
  induction pieces generalizing n L with
  | nil => intro sts _; exact ⟨_, rfl⟩
  | cons sp more ih =>
    intro sts hp
    cases L with
    | nil => simp [PiecesOK] at hp
    | cons l ls =>
      obtain ⟨hclip, _, _, hmore⟩ := hp
      unfold lineRows
      simp only [hclip]
      obtain ⟨⟨msgs, sts2⟩, hmsgs⟩ := messageRows_ok paint color w sp.s.line hls
        (hls.any (·.isMultiline)) 0 hls (writeRisers paint color sp.s.line none 0 hls sts).2 hr
      simp only [hmsgs]
      obtain ⟨rest, hrest⟩ := ih (n + 1) ls sts2 hmore
      simp only [hrest]
      exact ⟨_, rfl⟩

theorem collect_wide (m : Metrics) (a mid z : Text) (hwf : Text.WF (a ++ mid ++ z))
    (ha1 : aligned m a (mid ++ z) = true) (ha2 : aligned m (a ++ mid) z = true) :
    (SplitLines.ofSpan ⟨canon m a, canon m (a ++ mid)⟩ ⟨a ++ mid ++ z, m, Pos.zero⟩).collect
        ((canon m (a ++ mid)).line - (canon m a).line + 2) = .ok (splitSpec m a mid z, 0) := by
  apply split_correct m a mid z hwf ha1 ha2
  have h1 := canon_line_append (aligned_of_append_right ha1)
  have := linesOf_length_pos m mid
  omega

theorem spanDisplay_new_ok (m : Metrics) (a mid z : Text) (hwf : Text.WF (a ++ mid ++ z))
    (ha1 : aligned m a (mid ++ z) = true) (ha2 : aligned m (a ++ mid) z = true)
    (name : Option String) :
    SpanDisplay.new ⟨a ++ mid ++ z, m, Pos.zero⟩ name ⟨canon m a, canon m (a ++ mid)⟩ =
      .ok { name := name, span := widenSpec m a mid z, highlights := [], notes := [],
            gutter := gutterWidth (canon m (a ++ mid)).line } := by
  simp only [SpanDisplay.new, widen_correct m a mid z hwf ha1 ha2]

/-- a display whose span is the widening of a canonical span renders without panic -/
theorem writeSpanDisplay_ok (paint : Style → String → String) (color : Bool)
    (m : Metrics) (a mid z : Text) (hwf : Text.WF (a ++ mid ++ z))
    (sd : SpanDisplay) (hspan : sd.span = widenSpec m a mid z)
    (hm : ∀ h ∈ sd.highlights, MsgOK h)
    (hlen : (sd.highlights.filter (·.isMultiline)).length < 256) :
    ∃ s, writeSpanDisplay paint color ⟨a ++ mid ++ z, m, Pos.zero⟩ sd = .ok s := by
  obtain ⟨a0, mid', rem, hT, hw, hb1, hb2⟩ := widen_canon m a mid z
  have hwf' : Text.WF (a0 ++ mid' ++ rem) := by rw [← hT]; exact hwf
  unfold writeSpanDisplay
  have hlen' : ¬ (sd.highlights.filter (·.isMultiline)).length ≥ 256 := by omega
  simp only [hlen', if_false, hspan, hw, hT, collect_wide m a0 mid' rem hwf' hb1 hb2]
  have hp := pieces_ok m rem (linesOf m mid') a0 mid' rfl hwf' hb1 hb2
  obtain ⟨rows, hrows⟩ := lineRows_ok paint color ⟨a0 ++ mid' ++ rem, m, Pos.zero⟩ sd.gutter
    sd.highlights hm _ _ _
    (sd.highlights.map fun h => if h.isMultiline then Riser.waiting else Riser.unused) hp
  simp only [splitSpec, hrows]
  exact ⟨_, rfl⟩

theorem writeSpanDisplays_ok (paint : Style → String → String) (color : Bool) (src : Source)
    (sds : List SpanDisplay) (h : ∀ sd ∈ sds, ∃ s, writeSpanDisplay paint color src sd = .ok s) :
    ∃ s, writeSpanDisplays paint color src sds = .ok s := by
  induction sds with
  | nil => exact ⟨_, rfl⟩
  | cons sd more ih =>
    obtain ⟨a, ha⟩ := h sd (by simp)
    obtain ⟨b, hb⟩ := ih (fun sd' hsd => h sd' (by simp [hsd]))
    exact ⟨a ++ b, by simp only [writeSpanDisplays, ha, hb]⟩

theorem writeCodeDisplay_ok (paint : Style → String → String) (src : Source) (cd : CodeDisplay)
    (h : ∀ sd ∈ cd.spans, ∃ s, writeSpanDisplay paint cd.colorEnabled src sd = .ok s) :
    ∃ s, writeCodeDisplay paint src cd = .ok s := by
  obtain ⟨b, hb⟩ := writeSpanDisplays_ok paint cd.colorEnabled src cd.spans h
  simp only [writeCodeDisplay, hb]
  exact ⟨_, rfl⟩

/-! ### 3. every line once, in order -/

/-- a block of mark rows below source line `line`: each is the blank gutter, riser columns and
the mark text of a highlight that has a mark on that line -/
inductive MsgRows (w : Nat) (hls : List Highlight) (line : Nat) : String → Prop
  | nil : MsgRows w hls line ""
  | cons {h : Highlight} {ris msg more : String} : h ∈ hls → h.hasMessageForLine line = true →
      writeMessage plainPaint false h line (hls.any (·.isMultiline)) = some msg →
      MsgRows w hls line more →
      MsgRows w hls line (padLeft w "" ++ " | " ++ ris ++ msg ++ more)

theorem messageRows_shape (w line : Nat) (hls : List Highlight) (i : Nat) (rest : List Highlight)
    (sts : List Riser) (hsub : ∀ h ∈ rest, h ∈ hls) (s : String) (sts' : List Riser)
    (h : messageRows plainPaint false w line hls (hls.any (·.isMultiline)) i rest sts = .ok (s, sts')) :
    MsgRows w hls line s := by
  induction rest generalizing i sts s sts' with
  | nil => simp [messageRows] at h; rw [h.1]; exact .nil
  | cons mh rest ih =>
    have hrest : ∀ h ∈ rest, h ∈ hls := fun h hh => hsub h (by simp [hh])
    unfold messageRows at h
    split at h
    · exact ih _ _ hrest _ _ h
    · rename_i hmsg
      split at h
      rename_i ris stsA _
      split at h
      · exact absurd h (by simp)
      · rename_i msg hwm
        split at h
        · exact absurd h (by simp)
        · rename_i more sts'' hmore
          simp only [Res.ok.injEq, Prod.mk.injEq] at h
          rw [← h.1]
          have := ih _ _ hrest _ _ hmore
          simp only [writeGutter, Bool.false_eq_true, if_false]
          simpa only [String.append_assoc] using
            MsgRows.cons (w := w) (ris := ris)
              (hsub mh (by simp)) (by simpa using hmsg) hwm this

/-- the source rows: one per piece, in order, each `<line no> | <risers>[ ]<text>⏎` followed by
its mark rows -/
theorem lineRows_shape (src : Source) (w : Nat) (hls : List Highlight) :
    ∀ (n : Nat) (L : List Text) (pieces : List Span) (sts : List Riser) (s : String),
      PiecesOK src n L pieces → lineRows plainPaint false src w hls pieces sts = .ok s →
      ∃ rows : List String, s = String.join rows ∧ rows.length = L.length ∧
        ∀ i l, L[i]? = some l → ∃ ris msgs,
          rows[i]? = some (padLeft w (toString (n + i)) ++ " | " ++ ris ++
            (if hls.any (·.isMultiline) then " " else "") ++ textString l ++ "\n" ++ msgs) ∧
          MsgRows w hls (n + i) msgs := by
  intro n L pieces
  induction pieces generalizing n L with
  | nil =>
    intro sts s hp h
    cases L with
    | nil => simp [lineRows] at h; exact ⟨[], by simp [← h], rfl, by simp⟩
    | cons l ls => simp [PiecesOK] at hp
  | cons sp more ih =>
    intro sts s hp h
    cases L with
    | nil => simp [PiecesOK] at hp
    | cons l ls =>
      obtain ⟨hclip, _, hline, hmore⟩ := hp
      unfold lineRows at h
      simp only [hclip] at h
      split at h
      · exact absurd h (by simp)
      · rename_i msgs sts2 hmsgs
        split at h
        · exact absurd h (by simp)
        · rename_i rest hrest
          obtain ⟨rows, hr1, hr2, hr3⟩ := ih (n + 1) ls sts2 rest hmore hrest
          simp only [Res.ok.injEq] at h
          have hm := messageRows_shape w sp.s.line hls 0 hls _ (fun _ hh => hh) msgs sts2 hmsgs
          refine ⟨(writeGutter plainPaint false (toString sp.s.line) w ++
              (writeRisers plainPaint false sp.s.line none 0 hls sts).1 ++
              (if hls.any (·.isMultiline) then " " else "") ++ textString l ++ "\n" ++ msgs) :: rows,
            ?_, by simp [hr2], ?_⟩
          · rw [← h, String.join_cons, ← hr1]
          · intro i l' hl'
            cases i with
            | zero =>
              simp at hl'; subst hl'
              refine ⟨(writeRisers plainPaint false sp.s.line none 0 hls sts).1, msgs, ?_, ?_⟩
              · simp only [List.getElem?_cons_zero, writeGutter, Bool.false_eq_true, if_false, hline,
                  Nat.add_zero]
              · rw [← hline]; exact hm
            | succ j =>
              simp only [List.getElem?_cons_succ] at hl' ⊢
              have e : n + (j + 1) = n + 1 + j := by omega
              rw [e]
              exact hr3 j l' hl'

/-- widening does not change the last line number -/
theorem widen_e_line (m : Metrics) (a mid z : Text) (ha2 : aligned m (a ++ mid) z = true) :
    (widenSpec m a mid z).e.line = (canon m (a ++ mid)).line := by
  obtain ⟨rem, hr, _⟩ := curLineSuf_prefix m z
  have hal : aligned m (a ++ mid) (curLineSuf m z) = true := by
    rw [hr] at ha2; exact aligned_of_append_right ha2
  have hnb : linesOf m (curLineSuf m z) = [curLineSuf m z] := curLineSuf_noBreak m z
  simp only [widenSpec]
  rw [canon_line_append hal, hnb]; simp

/-- the shape of a rendered display (plain): header, blank gutter row, then one block per line
of the text under the widened span, in order, each starting with the source row of that line -/
theorem writeSpanDisplay_shape (m : Metrics) (a mid z : Text) (hwf : Text.WF (a ++ mid ++ z))
    (sd : SpanDisplay) (hspan : sd.span = widenSpec m a mid z) (out : String)
    (h : writeSpanDisplay plainPaint false ⟨a ++ mid ++ z, m, Pos.zero⟩ sd = .ok out) :
    ∃ a0 mid' rem rows, a ++ mid ++ z = a0 ++ mid' ++ rem ∧
      sd.span = ⟨canon m a0, canon m (a0 ++ mid')⟩ ∧
      aligned m a0 (mid' ++ rem) = true ∧ aligned m (a0 ++ mid') rem = true ∧
      sd.span.e.line = sd.span.s.line + ((linesOf m mid').length - 1) ∧
      out = rep " " sd.gutter ++ "-->" ++ " " ++ (match sd.name with | some n => n ++ ":" | none => "")
              ++ "(" ++ showSpan sd.span ++ ")\n" ++ (padLeft sd.gutter "" ++ " | ") ++ "\n" ++
            String.join rows ++
            String.join (sd.notes.map fun n =>
              rep " " sd.gutter ++ " = " ++ writeNote plainPaint false n ++ "\n") ∧
      rows.length = (linesOf m mid').length ∧
      ∀ i l, (linesOf m mid')[i]? = some l → ∃ ris msgs,
        rows[i]? = some (padLeft sd.gutter (toString (sd.span.s.line + i)) ++ " | " ++ ris ++
          (if sd.highlights.any (·.isMultiline) then " " else "") ++ textString l ++ "\n" ++ msgs) ∧
        MsgRows sd.gutter sd.highlights (sd.span.s.line + i) msgs := by
  obtain ⟨a0, mid', rem, hT, hw, hb1, hb2⟩ := widen_canon m a mid z
  have hwf' : Text.WF (a0 ++ mid' ++ rem) := by rw [← hT]; exact hwf
  have hsp : sd.span = ⟨canon m a0, canon m (a0 ++ mid')⟩ := by rw [hspan, hw]
  have hp := pieces_ok m rem (linesOf m mid') a0 mid' rfl hwf' hb1 hb2
  by_cases hlen : (sd.highlights.filter (·.isMultiline)).length ≥ 256
  · simp [writeSpanDisplay, hlen] at h
  · simp only [writeSpanDisplay, hlen, if_false, hT, hsp,
      collect_wide m a0 mid' rem hwf' hb1 hb2] at h
    split at h
    · exact absurd h (by simp)
    · rename_i rows0 hrows
      obtain ⟨rows, hr1, hr2, hr3⟩ := lineRows_shape _ sd.gutter sd.highlights _ _ _ _ _ hp hrows
      simp only [Res.ok.injEq] at h
      refine ⟨a0, mid', rem, rows, hT, hsp, hb1, hb2, ?_, ?_, hr2, ?_⟩
      · rw [hsp]; exact canon_line_append (aligned_of_append_right hb1)
      · rw [← h, hr1, hsp]; rfl
      · rw [hsp]; exact hr3

/-! ### 5. layout: the riser state machine against the index-based specification -/

/-- the highlights on which the layout theorem is proved: no start message, an end message
(what `Highlight::new` builds) -/
def HlOK (h : Highlight) : Prop := h.startMsg = none ∧ ∃ msg, h.endMsg = some msg

def rowAct : RowId → Option Nat
  | .src _ => none
  | .mark _ k => some k

/-- position of a row within the block of its line: the source row, then the mark rows in
highlight order -/
def rpos : RowId → Nat
  | .src _ => 0
  | .mark _ k => k + 1

/-- the order in which rows are printed -/
def rlt (a b : RowId) : Prop := a.line < b.line ∨ (a.line = b.line ∧ rpos a < rpos b)

instance (a b : RowId) : Decidable (rlt a b) := by unfold rlt; infer_instance

theorem row_eq_iff (a b : RowId) : a = b ↔ a.line = b.line ∧ rpos a = rpos b := by
  cases a <;> cases b <;> simp [RowId.line, rpos]

def startRow (h : Highlight) (k : Nat) : RowId :=
  if h.span.s.col == 0 then RowId.src h.span.s.line else RowId.mark h.span.s.line k

def endRow (h : Highlight) (k : Nat) : RowId := RowId.mark h.span.e.line k

/-- the two normalisation steps at the top of `writeRiser` -/
def normSt (h : Highlight) (line : Nat) (st : Riser) : Riser :=
  let st := if st == .waiting && line > h.span.s.line then Riser.started else st
  if st == .started && line > h.span.e.line then Riser.ended else st

/-- the rest of `writeRiser` (plain) -/
def riserCore (h : Highlight) (line : Nat) (st : Riser) (active : Bool) : String × Riser :=
  match st with
  | .unused => ("", .unused)
  | .ended => (" ", .ended)
  | .waiting =>
    if line == h.span.s.line && !active && h.span.s.col == 0 && !h.hasMessageForLine line then ("/", .started)
    else if line == h.span.s.line && active then (" ", .started)
    else (" ", .waiting)
  | .started =>
    if line == h.span.e.line && !active && h.span.e.col == 0 && !h.hasMessageForLine line then ("\\", .ended)
    else if line == h.span.e.line && active then ("|", .ended)
    else ("|", .started)

theorem writeRiser_eq (h : Highlight) (line : Nat) (st : Riser) (active : Bool) :
    writeRiser plainPaint false h line st active = riserCore h line (normSt h line st) active := by
  unfold writeRiser normSt riserCore
  simp only [Bool.false_eq_true, if_false]
  rfl

/-- the normalised state of the riser of highlight `(h, k)` at row `r`, in closed form -/
def expSt (h : Highlight) (k : Nat) (r : RowId) : Riser :=
  if rlt (startRow h k) r then (if rlt (endRow h k) r then .ended else .started) else .waiting

/-- the specified riser character at row `r`, in closed form -/
def charK (h : Highlight) (k : Nat) (r : RowId) : String :=
  if r = startRow h k then (if h.span.s.col == 0 then "/" else " ")
  else if rlt (startRow h k) r ∧ ¬ rlt (endRow h k) r then "|" else " "

theorem hasMsg_eq {h : Highlight} (hok : HlOK h) (l : Nat) :
    h.hasMessageForLine l = ((h.span.s.line == l && h.span.s.col != 0) || h.span.e.line == l) := by
  obtain ⟨hs, msg, he⟩ := hok
  simp [Highlight.hasMessageForLine, hs, he]

theorem startRow_line (h : Highlight) (k : Nat) : (startRow h k).line = h.span.s.line := by
  unfold startRow; split <;> rfl

theorem startRow_pos (h : Highlight) (k : Nat) :
    rpos (startRow h k) = if h.span.s.col = 0 then 0 else k + 1 := by
  unfold startRow; split <;> simp_all [rpos]

theorem endRow_line (h : Highlight) (k : Nat) : (endRow h k).line = h.span.e.line := rfl

theorem endRow_pos (h : Highlight) (k : Nat) : rpos (endRow h k) = k + 1 := rfl

theorem rowAct_eq (r : RowId) (k : Nat) : (rowAct r == some k) = (rpos r == k + 1) := by
  cases r <;> simp [rowAct, rpos]

theorem rlt_start (h : Highlight) (k : Nat) (r : RowId) :
    rlt (startRow h k) r ↔ h.span.s.line < r.line ∨
      (h.span.s.line = r.line ∧ (if h.span.s.col = 0 then 0 else k + 1) < rpos r) := by
  simp only [rlt, startRow_line, startRow_pos]

theorem rlt_end (h : Highlight) (k : Nat) (r : RowId) :
    rlt (endRow h k) r ↔ h.span.e.line < r.line ∨ (h.span.e.line = r.line ∧ k + 1 < rpos r) := by
  simp only [rlt, endRow_line, endRow_pos]

theorem eq_start (h : Highlight) (k : Nat) (r : RowId) :
    r = startRow h k ↔ r.line = h.span.s.line ∧ rpos r = (if h.span.s.col = 0 then 0 else k + 1) := by
  simp only [row_eq_iff, startRow_line, startRow_pos]

theorem core_out {h : Highlight} (hok : HlOK h) (hm : h.span.s.line ≠ h.span.e.line) (k : Nat) (r : RowId) :
    (riserCore h r.line (expSt h k r) (rowAct r == some k)).1 = charK h k r := by
  simp only [expSt, charK, rlt_start, rlt_end, eq_start, rowAct_eq, riserCore, hasMsg_eq hok]
  generalize r.line = L
  generalize rpos r = P
  generalize h.span.s.line = sl at *
  generalize h.span.e.line = el at *
  generalize h.span.s.col = sc
  generalize h.span.e.col = ec
  by_cases hc : sc = 0 <;> simp only [hc, if_true, if_false]
  all_goals grind

theorem core_step {h : Highlight} (hok : HlOK h) (hm : h.span.s.line ≠ h.span.e.line) (k : Nat)
    (r r' : RowId) (hlt : rlt r r')
    (hS : ¬ (rlt r (startRow h k) ∧ rlt (startRow h k) r') ∨
      (r.line ≠ h.span.s.line ∧ r'.line ≠ h.span.s.line))
    (hE : ¬ (rlt r (endRow h k) ∧ rlt (endRow h k) r') ∨
      (r.line ≠ h.span.e.line ∧ r'.line ≠ h.span.e.line)) :
    normSt h r'.line (riserCore h r.line (expSt h k r) (rowAct r == some k)).2 = expSt h k r' := by
  generalize hst : expSt h k r = st
  simp only [rlt, startRow_line, startRow_pos, endRow_line, endRow_pos] at hlt hS hE
  simp only [expSt, rlt_start, rlt_end] at hst ⊢
  cases st <;> simp only [riserCore, rowAct_eq, hasMsg_eq hok, normSt]
  all_goals
    generalize r.line = L at *
    generalize rpos r = P at *
    generalize r'.line = L' at *
    generalize rpos r' = P' at *
    generalize h.span.s.line = sl at *
    generalize h.span.e.line = el at *
    generalize h.span.s.col = sc at *
    generalize h.span.e.col = ec at *
    by_cases hc : sc = 0 <;> simp only [hc, if_true, if_false] at hS hst ⊢ <;> grind

theorem core_base {h : Highlight} (hm : h.span.s.line ≠ h.span.e.line) (k : Nat) (r : RowId)
    (hS : ¬ rlt (startRow h k) r ∨ r.line ≠ h.span.s.line)
    (hE : ¬ rlt (endRow h k) r ∨ r.line ≠ h.span.e.line) :
    normSt h r.line .waiting = expSt h k r := by
  simp only [expSt, rlt_start, rlt_end, normSt] at hS hE ⊢
  generalize r.line = L at *
  generalize rpos r = P at *
  generalize h.span.s.line = sl at *
  generalize h.span.e.line = el at *
  generalize h.span.s.col = sc at *
  by_cases hc : sc = 0 <;> simp only [hc, if_true, if_false] at hS ⊢
  all_goals grind

/-! #### sorted lists of row ids -/

theorem rlt_irrefl (a : RowId) : ¬ rlt a a := by simp only [rlt]; omega

theorem rlt_asymm {a b : RowId} : rlt a b → ¬ rlt b a := by simp only [rlt]; omega

theorem rlt_trans {a b c : RowId} : rlt a b → rlt b c → rlt a c := by simp only [rlt]; omega

theorem sorted_lt {ids : List RowId} (hp : ids.Pairwise rlt) {i j : Nat} {r r' : RowId}
    (hi : ids[i]? = some r) (hj : ids[j]? = some r') (hij : i < j) : rlt r r' := by
  obtain ⟨h1, rfl⟩ := List.getElem?_eq_some_iff.mp hi
  obtain ⟨h2, rfl⟩ := List.getElem?_eq_some_iff.mp hj
  exact List.pairwise_iff_getElem.mp hp i j h1 h2 hij

/-- nothing lies strictly between two consecutive rows -/
theorem sorted_between {ids : List RowId} (hp : ids.Pairwise rlt) {i : Nat} {r r' x : RowId}
    (hi : ids[i]? = some r) (hj : ids[i + 1]? = some r') (hx : x ∈ ids) : ¬ (rlt r x ∧ rlt x r') := by
  obtain ⟨j, hj', rfl⟩ := List.mem_iff_getElem.mp hx
  have hxj : ids[j]? = some ids[j] := List.getElem?_eq_getElem hj'
  intro ⟨h1, h2⟩
  by_cases hc : j ≤ i
  · by_cases he : j = i
    · subst he; rw [hxj] at hi; injection hi with hi; rw [hi] at h1; exact rlt_irrefl _ h1
    · exact rlt_asymm h1 (sorted_lt hp hxj hi (by omega))
  · by_cases he : j = i + 1
    · subst he; rw [hxj] at hj; injection hj with hj; rw [hj] at h2; exact rlt_irrefl _ h2
    · exact rlt_asymm h2 (sorted_lt hp hj hxj (by omega))

theorem sorted_first {ids : List RowId} (hp : ids.Pairwise rlt) {r x : RowId}
    (hi : ids[0]? = some r) (hx : x ∈ ids) : ¬ rlt x r := by
  obtain ⟨j, hj', rfl⟩ := List.mem_iff_getElem.mp hx
  have hxj : ids[j]? = some ids[j] := List.getElem?_eq_getElem hj'
  intro h1
  by_cases he : j = 0
  · subst he; rw [hxj] at hi; injection hi with hi; rw [hi] at h1; exact rlt_irrefl _ h1
  · exact rlt_asymm h1 (sorted_lt hp hi hxj (by omega))

/-- position of `X` in a sorted list, against the position of row `i` -/
theorem findIdx_sorted {ids : List RowId} (hp : ids.Pairwise rlt) (X : RowId) {i : Nat} {r : RowId}
    (hr : ids[i]? = some r) :
    match ids.findIdx? (· == X) with
    | some s => (s < i ↔ rlt X r) ∧ (s = i ↔ r = X)
    | none => X ∉ ids := by
  split
  · rename_i s hs
    obtain ⟨hlen, hX, _⟩ := List.findIdx?_eq_some_iff_getElem.mp hs
    have hX' : ids[s] = X := by simpa using hX
    have hxs : ids[s]? = some X := by rw [← hX']; exact List.getElem?_eq_getElem hlen
    refine ⟨⟨fun h => sorted_lt hp hxs hr h, fun h => ?_⟩, ⟨fun h => ?_, fun h => ?_⟩⟩
    · by_cases hc : s < i
      · exact hc
      · by_cases he : s = i
        · subst he; rw [hxs] at hr; injection hr with hr; rw [hr] at h; exact absurd h (rlt_irrefl _)
        · exact absurd (sorted_lt hp hr hxs (by omega)) (rlt_asymm h)
    · subst h; rw [hxs] at hr; injection hr with hr; exact hr.symm
    · subst h
      by_cases hc : s < i
      · exact absurd (sorted_lt hp hxs hr hc) (rlt_irrefl _)
      · by_cases he : s = i
        · exact he
        · exact absurd (sorted_lt hp hr hxs (by omega)) (rlt_irrefl _)
  · rename_i hn
    intro hmem
    have := List.findIdx?_eq_none_iff.mp hn X hmem
    simp at this

/-- what the riser proof needs of the list of row ids, for highlight `(h, k)` -/
structure IdsOK (ids : List RowId) (h : Highlight) (k : Nat) : Prop where
  sorted : ids.Pairwise rlt
  hasS : startRow h k ∈ ids ∨ ∀ x ∈ ids, x.line ≠ h.span.s.line
  hasE : endRow h k ∈ ids ∨ ∀ x ∈ ids, x.line ≠ h.span.e.line

/-- the riser state of highlight `(h, k)` before row `i`: the state machine run over the rows -/
def stateAt (ids : List RowId) (h : Highlight) (k : Nat) : Nat → Riser
  | 0 => if h.isMultiline then .waiting else .unused
  | i + 1 =>
    match ids[i]? with
    | some r => (writeRiser plainPaint false h r.line (stateAt ids h k i) (rowAct r == some k)).2
    | none => stateAt ids h k i

theorem norm_stateAt {ids : List RowId} {h : Highlight} {k : Nat} (hok : HlOK h)
    (hm : h.isMultiline = true) (ok : IdsOK ids h k) : ∀ (i : Nat) (r : RowId), ids[i]? = some r →
    normSt h r.line (stateAt ids h k i) = expSt h k r := by
  have hne : h.span.s.line ≠ h.span.e.line := by simpa [Highlight.isMultiline] using hm
  intro i
  induction i with
  | zero =>
    intro r hr
    have hmem : r ∈ ids := List.mem_of_getElem? hr
    simp only [stateAt, hm, if_true]
    apply core_base hne
    · rcases ok.hasS with h1 | h1
      · exact Or.inl (sorted_first ok.sorted hr h1)
      · exact Or.inr (h1 r hmem)
    · rcases ok.hasE with h1 | h1
      · exact Or.inl (sorted_first ok.sorted hr h1)
      · exact Or.inr (h1 r hmem)
  | succ i ih =>
    intro r' hr'
    have hlt : i < ids.length := by
      have := (List.getElem?_eq_some_iff.mp hr').1; omega
    have hr : ids[i]? = some ids[i] := List.getElem?_eq_getElem hlt
    generalize ids[i] = r at hr
    have hmem : r ∈ ids := List.mem_of_getElem? hr
    have hmem' : r' ∈ ids := List.mem_of_getElem? hr'
    simp only [stateAt, hr, writeRiser_eq, ih r hr]
    apply core_step hok hne k r r' (sorted_lt ok.sorted hr hr' (by omega))
    · rcases ok.hasS with h1 | h1
      · exact Or.inl (sorted_between ok.sorted hr hr' h1)
      · exact Or.inr ⟨h1 r hmem, h1 r' hmem'⟩
    · rcases ok.hasE with h1 | h1
      · exact Or.inl (sorted_between ok.sorted hr hr' h1)
      · exact Or.inr ⟨h1 r hmem, h1 r' hmem'⟩

/-- the specification's riser character at row `i`, in terms of the printing order -/
theorem riserChar_key {ids : List RowId} {h : Highlight} {k : Nat} (ok : IdsOK ids h k)
    {i : Nat} {r : RowId} (hr : ids[i]? = some r) : riserChar ids h k i = charK h k r := by
  have hmem : r ∈ ids := List.mem_of_getElem? hr
  have h1 := findIdx_sorted ok.sorted (startRow h k) hr
  have h2 := findIdx_sorted ok.sorted (endRow h k) hr
  have hS := ok.hasS
  have hE := ok.hasE
  have e1 : (if h.span.s.col == 0 then RowId.src h.span.s.line else RowId.mark h.span.s.line k) =
      startRow h k := rfl
  have e2 : RowId.mark h.span.e.line k = endRow h k := rfl
  simp only [riserChar, hr, Option.map_some, Option.getD_some, e1, e2, charK]
  generalize List.findIdx? (fun x => x == startRow h k) ids = si at h1 ⊢
  generalize List.findIdx? (fun x => x == endRow h k) ids = ei at h2 ⊢
  have FSs : ∀ s, ((s < i ↔ rlt (startRow h k) r) ∧ (s = i ↔ r = startRow h k)) →
      (some s == some i) = decide (r = startRow h k) ∧
        decide (s < i) = decide (rlt (startRow h k) r) := by
    intro s h1
    refine ⟨?_, by simp only [h1.1]⟩
    by_cases hsi : s = i
    · have := h1.2.mp hsi; simp [hsi, this]
    · have := mt h1.2.mpr hsi; simp [hsi, this]
  have FSn : startRow h k ∉ ids → ((none : Option Nat) == some i) = decide (r = startRow h k) ∧
        decide (h.span.s.line < r.line) = decide (rlt (startRow h k) r) := by
    intro h1
    have hl : r.line ≠ h.span.s.line := by
      rcases hS with hS | hS
      · exact absurd hS h1
      · exact hS r hmem
    have hne : r ≠ startRow h k := fun he => h1 (he ▸ hmem)
    refine ⟨by simp [hne], ?_⟩
    simp only [rlt_start]
    congr 1
    apply propext
    constructor
    · exact fun hh => Or.inl hh
    · rintro (hh | ⟨hh, _⟩)
      · exact hh
      · exact absurd hh.symm hl
  have FEs : ∀ e, (e < i ↔ rlt (endRow h k) r) → decide (i ≤ e) = decide (¬ rlt (endRow h k) r) := by
    intro e h2
    simp only [← h2]
    congr 1; apply propext; omega
  have FEn : endRow h k ∉ ids → decide (r.line < h.span.e.line) = decide (¬ rlt (endRow h k) r) := by
    intro h2
    have hl : r.line ≠ h.span.e.line := by
      rcases hE with hE | hE
      · exact absurd hE h2
      · exact hE r hmem
    simp only [rlt_end]
    congr 1; apply propext; omega
  have fin : ∀ (a b c : Bool), a = decide (r = startRow h k) → b = decide (rlt (startRow h k) r) →
      c = decide (¬ rlt (endRow h k) r) →
      (if a = true then if (h.span.s.col == 0) = true then "/" else " "
        else if (b && c) = true then "|" else " ") =
      if r = startRow h k then if (h.span.s.col == 0) = true then "/" else " "
      else if rlt (startRow h k) r ∧ ¬rlt (endRow h k) r then "|" else " " := by
    intro a b c ha hb hc
    subst ha hb hc
    by_cases c1 : r = startRow h k <;> by_cases c2 : rlt (startRow h k) r <;>
      by_cases c3 : rlt (endRow h k) r <;> simp [c1, c2, c3]
  cases si with
  | some s =>
    cases ei with
    | some e => exact fin _ _ _ (FSs s h1).1 (FSs s h1).2 (FEs e h2.1)
    | none => exact fin _ _ _ (FSs s h1).1 (FSs s h1).2 (FEn h2)
  | none =>
    cases ei with
    | some e => exact fin _ _ _ (FSn h1).1 (FSn h1).2 (FEs e h2.1)
    | none => exact fin _ _ _ (FSn h1).1 (FSn h1).2 (FEn h2)

theorem stateAt_unused (ids : List RowId) {h : Highlight} (k : Nat) (hm : h.isMultiline = false) :
    ∀ i, stateAt ids h k i = .unused := by
  intro i
  induction i with
  | zero => simp [stateAt, hm]
  | succ i ih =>
    simp only [stateAt, ih]
    split <;> simp [writeRiser]

/-- one step of the riser state machine = the specification's riser character at that row -/
theorem riser_step {ids : List RowId} {h : Highlight} {k : Nat} (hok : HlOK h)
    (ok : h.isMultiline = true → IdsOK ids h k) {i : Nat} {r : RowId} (hr : ids[i]? = some r) :
    writeRiser plainPaint false h r.line (stateAt ids h k i) (rowAct r == some k) =
      (if h.isMultiline then riserChar ids h k i else "", stateAt ids h k (i + 1)) := by
  cases hm : h.isMultiline with
  | false => simp [stateAt_unused ids k hm, writeRiser]
  | true =>
    have hne : h.span.s.line ≠ h.span.e.line := by simpa [Highlight.isMultiline] using hm
    have h2 : stateAt ids h k (i + 1) =
        (writeRiser plainPaint false h r.line (stateAt ids h k i) (rowAct r == some k)).2 := by
      simp only [stateAt, hr]
    rw [h2, if_pos rfl, riserChar_key (ok hm) hr, ← core_out hok hne k r,
      ← norm_stateAt hok hm (ok hm) i r hr, ← writeRiser_eq]

theorem range_map_getElem? {α β} (l : List α) (F : Nat → Option α → β) :
    (List.range l.length).map (fun k => F k l[k]?) = l.mapIdx (fun k a => F k (some a)) := by
  apply List.ext_getElem?
  intro i
  by_cases hi : i < l.length
  · simp [hi, List.getElem?_eq_getElem hi]
  · have h1 : l.length ≤ i := by omega
    simp [List.getElem?_eq_none, h1]

theorem risers_eq (ids : List RowId) (hls : List Highlight) (i : Nat) :
    Spec.risers ids hls i =
      String.join (hls.mapIdx fun k h => if h.isMultiline then riserChar ids h k i else "") := by
  exact congrArg String.join (range_map_getElem? hls (fun k o => match o with
    | some h => if h.isMultiline then riserChar ids h k i else ""
    | none => ""))

/-- the riser states of all highlights before row `i` -/
def statesAt (ids : List RowId) (hls : List Highlight) (i : Nat) : List Riser :=
  hls.mapIdx fun k h => stateAt ids h k i

theorem writeRisers_step_aux (ids : List RowId) (i : Nat) (r : RowId) (hr : ids[i]? = some r) :
    ∀ (hs : List Highlight) (k0 : Nat),
    (∀ t h, hs[t]? = some h → HlOK h ∧ (h.isMultiline = true → IdsOK ids h (k0 + t))) →
    writeRisers plainPaint false r.line (rowAct r) k0 hs
        (hs.mapIdx fun t h => stateAt ids h (k0 + t) i) =
      (String.join (hs.mapIdx fun t h =>
          if h.isMultiline then riserChar ids h (k0 + t) i else ""),
       hs.mapIdx fun t h => stateAt ids h (k0 + t) (i + 1)) := by
  intro hs
  induction hs with
  | nil => intro k0 _; simp [writeRisers]
  | cons h hs ih =>
    intro k0 hok
    have e : ∀ {β} (F : Nat → Highlight → β),
        (fun t h => F (k0 + (t + 1)) h) = (fun t h => F (k0 + 1 + t) h) := by
      intro β F; funext t h; congr 1; omega
    have hih := ih (k0 + 1) (fun t h' hh => by
      have := hok (t + 1) h' (by simpa using hh)
      have e' : k0 + 1 + t = k0 + (t + 1) := by omega
      rw [e']; exact this)
    obtain ⟨h0, h0'⟩ := hok 0 h (by simp)
    rw [Nat.add_zero] at h0'
    simp only [List.mapIdx_cons, writeRisers, Nat.add_zero,
      riser_step h0 h0' hr, String.join_cons]
    rw [e (fun k h => stateAt ids h k i),
      e (fun k h => stateAt ids h k (i + 1)),
      e (fun k h => if h.isMultiline then riserChar ids h k i else ""), hih]

theorem writeRisers_step (ids : List RowId) (hls : List Highlight)
    (hok : ∀ k h, hls[k]? = some h → HlOK h ∧ (h.isMultiline = true → IdsOK ids h k))
    (i : Nat) (r : RowId) (hr : ids[i]? = some r) :
    writeRisers plainPaint false r.line (rowAct r) 0 hls (statesAt ids hls i) =
      (Spec.risers ids hls i, statesAt ids hls (i + 1)) := by
  have := writeRisers_step_aux ids i r hr hls 0 (fun t h hh => by
    rw [Nat.zero_add]; exact hok t h hh)
  simpa only [Nat.zero_add, statesAt, risers_eq] using this

theorem rep_eq (c : String) (n : Nat) : String.join (List.replicate n c) = rep c n := rfl

/-- the mark row text of the model is the specification's mark text -/
theorem writeMessage_markText {h : Highlight} (hok : HlOK h)
    (line : Nat) (multi : Bool) (hmsg : h.hasMessageForLine line = true) :
    writeMessage plainPaint false h line multi = some (markText h line multi ++ "\n") := by
  rw [hasMsg_eq hok] at hmsg
  obtain ⟨hs, msg, he⟩ := hok
  cases hm : h.isMultiline with
  | false =>
    have hse : h.span.e.line = h.span.s.line := by
      simp only [Highlight.isMultiline, bne_eq_false_iff_eq] at hm; exact hm.symm
    have hsl : (h.span.s.line == line) = true := by
      rw [hse] at hmsg
      cases hc : h.span.s.line == line <;> simp [hc] at hmsg ⊢
    simp only [writeMessage, markText, hm, hs, he, hse, hsl, Bool.and_self, if_true,
      Bool.false_eq_true, if_false, rep_eq, Bool.not_false]
    split <;> simp [String.append_assoc]
  | true =>
    have hne : h.span.s.line ≠ h.span.e.line := by simpa [Highlight.isMultiline] using hm
    cases hsl : h.span.s.line == line with
    | true =>
      have hel : (h.span.e.line == line) = false := by
        simp only [beq_iff_eq] at hsl
        simp; omega
      have hcol : h.span.s.col ≠ 0 := by simpa [hsl, hel] using hmsg
      have hpos : h.span.s.col > 0 := by omega
      simp only [writeMessage, markText, hm, hs, he, hsl, hel, Bool.true_and, Bool.and_false,
        Bool.false_eq_true, if_false, if_true, rep_eq, Bool.not_true, hpos]
    | false =>
      have hel : (h.span.e.line == line) = true := by simpa [hsl] using hmsg
      simp only [writeMessage, markText, hm, hs, he, hsl, hel, Bool.false_and,
        Bool.false_eq_true, if_false, if_true, rep_eq, Bool.not_true]
      by_cases hpos : h.span.e.col > 0
      · simp [hpos, String.append_assoc]
      · have h0 : h.span.e.col = 0 := by omega
        simp [h0, rep, String.append_assoc]

/-- mark rows of line `line` for the highlights `rest`, numbered from `k` -/
def marksOf (line : Nat) : Nat → List Highlight → List RowId
  | _, [] => []
  | k, h :: rest =>
    if h.hasMessageForLine line then RowId.mark line k :: marksOf line (k + 1) rest
    else marksOf line (k + 1) rest

/-- the model's row ids -/
def mIds (hls : List Highlight) (lines : List Nat) : List RowId :=
  lines.flatMap fun l => RowId.src l :: marksOf l 0 hls

/-- the specification's text of row `i` given the riser text `ρ i` and the line text `text` -/
def rowOf (w : Nat) (multi : Bool) (hls : List Highlight) (text : Nat → String) (ρ : Nat → String)
    (i : Nat) : RowId → String
  | .src l => padLeft w (toString l) ++ " | " ++ ρ i ++ (if multi then " " else "") ++ text l
  | .mark l k => padLeft w "" ++ " | " ++ ρ i ++ (hls[k]?.map (markText · l multi)).getD ""

theorem shift_fun {α β} (j : Nat) (F : Nat → α → β) :
    (fun t a => F (j + (t + 1)) a) = (fun t a => F (j + 1 + t) a) := by
  funext t a; congr 1; omega

section Layout
variable (w : Nat) (hls : List Highlight) (text : Nat → String) (ρ : Nat → String)
  (σ : Nat → List Riser) (ids : List RowId)

/-- the mark rows below one source line are the specification's rows at those indices -/
theorem messageRows_spec
    (STEP : ∀ i r, ids[i]? = some r →
      writeRisers plainPaint false r.line (rowAct r) 0 hls (σ i) = (ρ i, σ (i + 1)))
    (line : Nat) (multi : Bool) : ∀ (rest preH : List Highlight) (j : Nat),
    hls = preH ++ rest → (∀ h ∈ rest, HlOK h) →
    (∀ t r, (marksOf line preH.length rest)[t]? = some r → ids[j + t]? = some r) →
    messageRows plainPaint false w line hls multi preH.length rest (σ j) =
      .ok (String.join ((marksOf line preH.length rest).mapIdx fun t r =>
              rowOf w multi hls text ρ (j + t) r ++ "\n"),
           σ (j + (marksOf line preH.length rest).length)) := by
  intro rest
  induction rest with
  | nil => intro preH j _ _ _; simp [messageRows, marksOf]
  | cons mh rest ih =>
    intro preH j hh hok hpos
    have hh' : hls = (preH ++ [mh]) ++ rest := by rw [hh]; simp
    have hlen : (preH ++ [mh]).length = preH.length + 1 := by simp
    have hok' : ∀ h ∈ rest, HlOK h := fun h hm => hok h (by simp [hm])
    by_cases hmsg : mh.hasMessageForLine line = true
    · have hm0 : (marksOf line preH.length (mh :: rest)) =
          RowId.mark line preH.length :: marksOf line (preH.length + 1) rest := by
        simp [marksOf, hmsg]
      rw [hm0] at hpos ⊢
      have hstep := STEP j (RowId.mark line preH.length) (by simpa using hpos 0 _ rfl)
      simp only [RowId.line, rowAct] at hstep
      have hih := ih (preH ++ [mh]) (j + 1) hh' hok' (by
        intro t r ht
        rw [hlen] at ht
        have := hpos (t + 1) r (by simpa using ht)
        have e : j + 1 + t = j + (t + 1) := by omega
        rw [e]; exact this)
      rw [hlen] at hih
      have hk : hls[preH.length]? = some mh := by rw [hh]; simp
      have hrow : rowOf w multi hls text ρ j (RowId.mark line preH.length) =
          padLeft w "" ++ " | " ++ ρ j ++ markText mh line multi := by simp [rowOf, hk]
      unfold messageRows
      simp only [hmsg, Bool.not_true, Bool.false_eq_true, if_false, hstep,
        writeMessage_markText (hok mh (by simp)) line multi hmsg, hih, List.mapIdx_cons,
        String.join_cons, Nat.add_zero, hrow, writeGutter,
        shift_fun j (fun t r => rowOf w multi hls text ρ t r ++ "\n"), List.length_cons]
      simp only [String.append_assoc, Res.ok.injEq, Prod.mk.injEq, true_and]
      congr 1; omega
    · have hm0 : (marksOf line preH.length (mh :: rest)) = marksOf line (preH.length + 1) rest := by
        simp [marksOf, hmsg]
      rw [hm0] at hpos ⊢
      have hih := ih (preH ++ [mh]) j hh' hok' (by rw [hlen]; exact hpos)
      rw [hlen] at hih
      unfold messageRows
      simp at hmsg
      simp [hmsg, hih]

/-- the loop over the source lines produces the specification's rows, in order -/
theorem lineRows_spec (src : Source)
    (STEP : ∀ i r, ids[i]? = some r →
      writeRisers plainPaint false r.line (rowAct r) 0 hls (σ i) = (ρ i, σ (i + 1)))
    (hok : ∀ h ∈ hls, HlOK h) : ∀ (pieces : List Span) (j : Nat),
    (∀ sp ∈ pieces, ∃ piece, src.clipped sp = .ok piece ∧ textString piece.text = text sp.s.line) →
    (∀ t r, (mIds hls (pieces.map (·.s.line)))[t]? = some r → ids[j + t]? = some r) →
    lineRows plainPaint false src w hls pieces (σ j) =
      .ok (String.join ((mIds hls (pieces.map (·.s.line))).mapIdx fun t r =>
              rowOf w (hls.any (·.isMultiline)) hls text ρ (j + t) r ++ "\n")) := by
  intro pieces
  induction pieces with
  | nil => intro j _ _; simp [lineRows, mIds]
  | cons sp more ih =>
    intro j hclip hpos
    obtain ⟨piece, hc, htext⟩ := hclip sp (by simp)
    have hids : mIds hls ((sp :: more).map (·.s.line)) =
        RowId.src sp.s.line :: (marksOf sp.s.line 0 hls ++ mIds hls (more.map (·.s.line))) := by
      simp [mIds]
    rw [hids] at hpos ⊢
    have hstep := STEP j (RowId.src sp.s.line) (by simpa using hpos 0 _ rfl)
    simp only [RowId.line, rowAct] at hstep
    have hmsgs := messageRows_spec w hls text ρ σ ids STEP sp.s.line
      (hls.any (·.isMultiline)) hls [] (j + 1) rfl hok (by
        intro t r ht
        simp only [List.length_nil] at ht
        have hlt : t < (marksOf sp.s.line 0 hls).length := (List.getElem?_eq_some_iff.mp ht).1
        have := hpos (t + 1) r (by
          simp only [List.getElem?_cons_succ]
          rw [List.getElem?_append_left hlt]; exact ht)
        have e : j + 1 + t = j + (t + 1) := by omega
        rw [e]; exact this)
    simp only [List.length_nil] at hmsgs
    have hih := ih (j + 1 + (marksOf sp.s.line 0 hls).length)
      (fun sp' hs => hclip sp' (by simp [hs])) (by
        intro t r ht
        have := hpos (1 + (marksOf sp.s.line 0 hls).length + t) r (by
          have e : 1 + (marksOf sp.s.line 0 hls).length + t =
              ((marksOf sp.s.line 0 hls).length + t) + 1 := by omega
          rw [e, List.getElem?_cons_succ, List.getElem?_append_right (by omega)]
          simpa using ht)
        have e : j + 1 + (marksOf sp.s.line 0 hls).length + t =
            j + (1 + (marksOf sp.s.line 0 hls).length + t) := by omega
        rw [e]; exact this)
    have hrow : rowOf w (hls.any (·.isMultiline)) hls text ρ j (RowId.src sp.s.line) =
        padLeft w (toString sp.s.line) ++ " | " ++ ρ j ++
          (if hls.any (·.isMultiline) then " " else "") ++ text sp.s.line := rfl
    have e2 : (fun t r => rowOf w (hls.any (·.isMultiline)) hls text ρ
          (j + 1 + (t + (marksOf sp.s.line 0 hls).length)) r ++ "\n") =
        (fun t r => rowOf w (hls.any (·.isMultiline)) hls text ρ
          (j + 1 + (marksOf sp.s.line 0 hls).length + t) r ++ "\n") := by
      funext t r; congr 2; omega
    unfold lineRows
    simp only [hstep, hc, hmsgs, hih, List.mapIdx_cons, String.join_cons, Nat.add_zero, hrow,
      writeGutter, Bool.false_eq_true, if_false, htext,
      shift_fun j (fun t r => rowOf w (hls.any (·.isMultiline)) hls text ρ t r ++ "\n"),
      List.mapIdx_append, String.join_append, e2]
    simp only [String.append_assoc]

end Layout

/-! ### 5b. the specification's row ids and rows, structurally -/

theorem hasMark_eq {h : Highlight} (hok : HlOK h) (l : Nat) :
    hasMark h l = h.hasMessageForLine l := by
  rw [hasMsg_eq hok]
  cases hm : h.isMultiline with
  | false =>
    have hse : h.span.e.line = h.span.s.line := by
      simp only [Highlight.isMultiline, bne_eq_false_iff_eq] at hm; exact hm.symm
    simp only [hasMark, hm, Bool.false_eq_true, if_false, hse]
    cases h.span.s.line == l <;> simp
  | true => simp [hasMark, hm]

theorem marks_eq_aux (l : Nat) (hls : List Highlight) : ∀ (rest preH : List Highlight),
    hls = preH ++ rest → (∀ h ∈ rest, HlOK h) →
    ((List.range' preH.length rest.length).filter
        (fun k => (hls[k]?.map (hasMark · l)).getD false)).map (RowId.mark l) =
      marksOf l preH.length rest := by
  intro rest
  induction rest with
  | nil => intro preH _ _; simp [marksOf]
  | cons mh rest ih =>
    intro preH hh hok
    have hh' : hls = (preH ++ [mh]) ++ rest := by rw [hh]; simp
    have hk : hls[preH.length]? = some mh := by rw [hh]; simp
    have hih := ih (preH ++ [mh]) hh' (fun h hm => hok h (by simp [hm]))
    simp only [List.length_append, List.length_cons, List.length_nil, Nat.zero_add] at hih
    simp only [List.length_cons, List.range'_succ, List.filter_cons, hk, Option.map_some,
      Option.getD_some, hasMark_eq (hok mh (by simp)) l, marksOf]
    split <;> simp [hih]

theorem rowIds_eq (hls : List Highlight) (hok : ∀ h ∈ hls, HlOK h)
    (lines : List Nat) : rowIds lines hls = mIds hls lines := by
  unfold rowIds mIds
  congr 1
  funext l
  have := marks_eq_aux l hls hls [] rfl hok
  simp only [List.length_nil, ← List.range_eq_range'] at this
  rw [this]

/-! ### 5b'. the row ids are printed in order; start and end rows of displayed lines exist -/

theorem marksOf_mem (line : Nat) : ∀ (rest : List Highlight) (k0 : Nat) (x : RowId),
    x ∈ marksOf line k0 rest → ∃ k, x = RowId.mark line k ∧ k0 ≤ k := by
  intro rest
  induction rest with
  | nil => intro k0 x hx; simp [marksOf] at hx
  | cons mh rest ih =>
    intro k0 x hx
    unfold marksOf at hx
    split at hx
    · rcases List.mem_cons.mp hx with rfl | hx
      · exact ⟨k0, rfl, Nat.le_refl _⟩
      · obtain ⟨k, h1, h2⟩ := ih (k0 + 1) x hx
        exact ⟨k, h1, by omega⟩
    · obtain ⟨k, h1, h2⟩ := ih (k0 + 1) x hx
      exact ⟨k, h1, by omega⟩

theorem mem_marksOf (line : Nat) : ∀ (rest : List Highlight) (k0 t : Nat) (h : Highlight),
    rest[t]? = some h → h.hasMessageForLine line = true →
    RowId.mark line (k0 + t) ∈ marksOf line k0 rest := by
  intro rest
  induction rest with
  | nil => intro k0 t h ht; simp at ht
  | cons mh rest ih =>
    intro k0 t h ht hmsg
    cases t with
    | zero =>
      simp only [List.getElem?_cons_zero, Option.some.injEq] at ht
      subst ht
      simp [marksOf, hmsg]
    | succ t =>
      simp only [List.getElem?_cons_succ] at ht
      have := ih (k0 + 1) t h ht hmsg
      have e : k0 + (t + 1) = k0 + 1 + t := by omega
      rw [e]
      unfold marksOf
      split
      · exact List.mem_cons_of_mem _ this
      · exact this

theorem marksOf_sorted (line : Nat) : ∀ (rest : List Highlight) (k0 : Nat),
    (marksOf line k0 rest).Pairwise rlt := by
  intro rest
  induction rest with
  | nil => intro k0; simp [marksOf]
  | cons mh rest ih =>
    intro k0
    unfold marksOf
    split
    · refine List.pairwise_cons.mpr ⟨?_, ih (k0 + 1)⟩
      intro x hx
      obtain ⟨k, rfl, hk⟩ := marksOf_mem line rest (k0 + 1) x hx
      exact Or.inr ⟨rfl, by simp only [rpos]; omega⟩
    · exact ih (k0 + 1)

theorem mIds_line {hls : List Highlight} {lines : List Nat} {x : RowId}
    (hx : x ∈ mIds hls lines) : x.line ∈ lines := by
  obtain ⟨l, hl, hx⟩ := List.mem_flatMap.mp hx
  rcases List.mem_cons.mp hx with rfl | hx
  · exact hl
  · obtain ⟨k, rfl, _⟩ := marksOf_mem l hls 0 x hx
    exact hl

theorem mIds_sorted (hls : List Highlight) {lines : List Nat} (hs : lines.Pairwise (· < ·)) :
    (mIds hls lines).Pairwise rlt := by
  unfold mIds
  rw [List.pairwise_flatMap]
  constructor
  · intro l _
    refine List.pairwise_cons.mpr ⟨?_, marksOf_sorted l hls 0⟩
    intro x hx
    obtain ⟨k, rfl, _⟩ := marksOf_mem l hls 0 x hx
    exact Or.inr ⟨rfl, by simp only [rpos]; omega⟩
  · refine hs.imp ?_
    intro l1 l2 hlt x hx y hy
    have h1 : x.line = l1 := by
      rcases List.mem_cons.mp hx with rfl | hx
      · rfl
      · obtain ⟨k, rfl, _⟩ := marksOf_mem l1 hls 0 x hx; rfl
    have h2 : y.line = l2 := by
      rcases List.mem_cons.mp hy with rfl | hy
      · rfl
      · obtain ⟨k, rfl, _⟩ := marksOf_mem l2 hls 0 y hy; rfl
    simp only [rlt, h1, h2]; omega

/-- the list of row ids the model prints is what the riser proof needs -/
theorem mIds_ok {hls : List Highlight} {lines : List Nat} (hs : lines.Pairwise (· < ·))
    {h : Highlight} {k : Nat} (hk : hls[k]? = some h) (hok : HlOK h)
    (hm : h.isMultiline = true) : IdsOK (mIds hls lines) h k := by
  have hne : h.span.s.line ≠ h.span.e.line := by simpa [Highlight.isMultiline] using hm
  refine ⟨mIds_sorted hls hs, ?_, ?_⟩
  · by_cases hl : h.span.s.line ∈ lines
    · left
      refine List.mem_flatMap.mpr ⟨_, hl, ?_⟩
      unfold startRow
      split
      · exact List.mem_cons_self
      · rename_i hc
        have hmsg : h.hasMessageForLine h.span.s.line = true := by
          rw [hasMsg_eq hok]; simpa using Or.inl hc
        have := mem_marksOf h.span.s.line hls 0 k h hk hmsg
        rw [Nat.zero_add] at this
        exact List.mem_cons_of_mem _ this
    · right
      intro x hx he
      exact hl (he ▸ mIds_line hx)
  · by_cases hl : h.span.e.line ∈ lines
    · left
      refine List.mem_flatMap.mpr ⟨_, hl, ?_⟩
      have hmsg : h.hasMessageForLine h.span.e.line = true := by
        rw [hasMsg_eq hok]; simp
      have := mem_marksOf h.span.e.line hls 0 k h hk hmsg
      rw [Nat.zero_add] at this
      exact List.mem_cons_of_mem _ this
    · right
      intro x hx he
      exact hl (he ▸ mIds_line hx)

theorem statesAt_zero (ids : List RowId) (hls : List Highlight) :
    statesAt ids hls 0 = hls.map fun h => if h.isMultiline then Riser.waiting else Riser.unused := by
  unfold statesAt
  apply List.ext_getElem?
  intro i
  simp only [List.getElem?_mapIdx, List.getElem?_map]
  cases hls[i]? with
  | none => rfl
  | some h => cases hm : h.isMultiline <;> simp [stateAt, hm]

theorem intercalate_newline : ∀ (L : List String), L ≠ [] →
    "\n".intercalate L ++ "\n" = String.join (L.map (· ++ "\n")) := by
  intro L
  induction L with
  | nil => intro h; exact absurd rfl h
  | cons x xs ih =>
    intro _
    cases xs with
    | nil => simp
    | cons y ys =>
      have := ih (by simp)
      simp only [String.intercalate_cons_cons, List.map_cons, String.join_cons,
        String.append_assoc] at this ⊢
      rw [this]

theorem displayRows_eq (name : Option String) (wide : Span) (w : Nat) (lines : List (Nat × String))
    (hls : List Highlight) :
    displayRows name wide w lines hls =
      [rep " " w ++ "--> " ++ (match name with | some n => n ++ ":" | none => "") ++ "(" ++
          showSpan wide ++ ")", padLeft w "" ++ " | "] ++
      (rowIds (lines.map (·.1)) hls).mapIdx (rowOf w (hls.any (·.isMultiline)) hls
        (fun l => ((lines.find? (·.1 == l)).map (·.2)).getD "")
        (risers (rowIds (lines.map (·.1)) hls) hls)) := by
  unfold displayRows
  simp only
  congr 1
  generalize rowIds (lines.map (·.1)) hls = ids
  apply List.ext_getElem?
  intro i
  by_cases hi : i < ids.length
  · simp only [List.getElem?_map, List.getElem?_range hi, Option.map_some, List.getElem?_mapIdx,
      List.getElem?_eq_getElem hi]
    cases ids[i] <;> rfl
  · have h1 : ids.length ≤ i := by omega
    simp [List.getElem?_eq_none, h1]

/-! ### 5c. the layout theorem -/

theorem map_mapIdx' {α β γ} (f : β → γ) (g : Nat → α → β) (l : List α) :
    (l.mapIdx g).map f = l.mapIdx (fun i a => f (g i a)) := by
  apply List.ext_getElem?
  intro i
  simp only [List.getElem?_map, List.getElem?_mapIdx]
  cases l[i]? <;> rfl

/-- Layout, abstractly in the pieces: whenever `SplitLines` yields `pieces` with strictly
increasing line numbers, each piece clips to the text that `lines` records for its line number,
and every highlight carries exactly an end message, the rendered display is the specification's
rows, each followed by a newline — for highlights of every shape. -/
theorem writeSpanDisplay_layout (src : Source) (sd : SpanDisplay) (pieces : List (Nat × Span))
    (n : Nat)
    (hcollect : (SplitLines.ofSpan sd.span src).collect (sd.span.e.line - sd.span.s.line + 2) =
      .ok (pieces, n))
    (hnotes : sd.notes = [])
    (hlen : (sd.highlights.filter (·.isMultiline)).length < 256)
    (hok : ∀ h ∈ sd.highlights, HlOK h)
    (lines : List (Nat × String))
    (hlines : lines.map (·.1) = pieces.map (·.2.s.line))
    (hsorted : (pieces.map (·.2.s.line)).Pairwise (· < ·))
    (hclip : ∀ p ∈ pieces, ∃ piece, src.clipped p.2 = .ok piece ∧
      textString piece.text = ((lines.find? (·.1 == p.2.s.line)).map (·.2)).getD "") :
    writeSpanDisplay plainPaint false src sd =
      .ok ("\n".intercalate (displayRows sd.name sd.span sd.gutter lines sd.highlights) ++ "\n") := by
  have hmm : (pieces.map (·.2)).map (·.s.line) = pieces.map (·.2.s.line) := by simp
  have hL := lineRows_spec sd.gutter sd.highlights
    (fun l => ((lines.find? (·.1 == l)).map (·.2)).getD "")
    (risers (mIds sd.highlights (pieces.map (·.2.s.line))) sd.highlights)
    (statesAt (mIds sd.highlights (pieces.map (·.2.s.line))) sd.highlights)
    (mIds sd.highlights (pieces.map (·.2.s.line))) src
    (fun i r hr => writeRisers_step _ sd.highlights
      (fun k h hk => ⟨hok h (List.mem_of_getElem? hk),
        fun hm => mIds_ok hsorted hk (hok h (List.mem_of_getElem? hk)) hm⟩) i r hr)
    hok (pieces.map (·.2)) 0
    (by intro sp hsp
        obtain ⟨p, hp, rfl⟩ := List.mem_map.mp hsp
        exact hclip p hp)
    (by intro t r ht; rw [hmm] at ht; simpa using ht)
  rw [statesAt_zero, hmm] at hL
  simp only [Nat.zero_add] at hL
  have hlen' : ¬ (sd.highlights.filter (·.isMultiline)).length ≥ 256 := by omega
  unfold writeSpanDisplay
  simp only [hlen', if_false, hcollect, hL, hnotes, List.map_nil, String.join_nil,
    String.append_empty]
  simp only [displayRows_eq, hlines, rowIds_eq sd.highlights hok]
  rw [intercalate_newline _ (by simp)]
  simp only [List.append_eq, List.cons_append, List.nil_append, List.map_cons, String.join_cons,
    map_mapIdx', writeGutter, Bool.false_eq_true, if_false, String.append_assoc]
  rfl

/-! ### 5d. the lines of a canonical display -/

/-- (line number, line text) of each piece, as the driver's oracle computes them -/
def pieceLines (t : Text) (pieces : List Span) : List (Nat × String) :=
  pieces.filterMap fun sp =>
    match Source.sliceBytes t sp.s.byte sp.e.byte with
    | .ok mid => some (sp.s.line, textString mid)
    | .panic => none

/-- lines numbered consecutively from `n` -/
def numbered : Nat → List Text → List (Nat × String)
  | _, [] => []
  | n, l :: ls => (n, textString l) :: numbered (n + 1) ls

theorem pieceLines_eq (src : Source) : ∀ (pieces : List Span) (n : Nat) (L : List Text),
    PiecesOK src n L pieces →
    pieceLines src.text pieces = numbered n L ∧
      pieces.map (·.s.line) = (numbered n L).map (·.1) := by
  intro pieces
  induction pieces with
  | nil =>
    intro n L hp
    cases L with
    | nil => simp [pieceLines, numbered]
    | cons l ls => simp [PiecesOK] at hp
  | cons sp more ih =>
    intro n L hp
    cases L with
    | nil => simp [PiecesOK] at hp
    | cons l ls =>
      obtain ⟨_, hs, hline, hmore⟩ := hp
      obtain ⟨h1, h2⟩ := ih (n + 1) ls hmore
      constructor
      · simp only [pieceLines, List.filterMap_cons, hs, numbered, hline] at h1 ⊢
        rw [h1]
      · simp only [List.map_cons, numbered, hline, h2]

theorem numbered_ge : ∀ (L : List Text) (n : Nat), ∀ x ∈ (numbered n L).map (·.1), n ≤ x := by
  intro L
  induction L with
  | nil => intro n x hx; simp [numbered] at hx
  | cons l ls ih =>
    intro n x hx
    simp only [numbered, List.map_cons, List.mem_cons] at hx
    rcases hx with rfl | hx
    · exact Nat.le_refl _
    · have := ih (n + 1) x hx; omega

theorem numbered_sorted : ∀ (L : List Text) (n : Nat),
    ((numbered n L).map (·.1)).Pairwise (· < ·) := by
  intro L
  induction L with
  | nil => intro n; simp [numbered]
  | cons l ls ih =>
    intro n
    simp only [numbered, List.map_cons]
    refine List.pairwise_cons.mpr ⟨?_, ih (n + 1)⟩
    intro x hx
    have := numbered_ge ls (n + 1) x hx
    omega

theorem numbered_find : ∀ (L : List Text) (n i : Nat) (l : Text), L[i]? = some l →
    (numbered n L).find? (·.1 == n + i) = some (n + i, textString l) := by
  intro L
  induction L with
  | nil => intro n i l h; simp at h
  | cons l0 ls ih =>
    intro n i l h
    cases i with
    | zero => simp at h; subst h; simp [numbered]
    | succ j =>
      simp only [List.getElem?_cons_succ] at h
      have hne : (n == n + (j + 1)) = false := by simp
      have e : n + (j + 1) = n + 1 + j := by omega
      simp only [numbered, List.find?_cons, hne]
      rw [e]; exact ih (n + 1) j l h

theorem pieces_mem (src : Source) : ∀ (pieces : List Span) (n : Nat) (L : List Text),
    PiecesOK src n L pieces → ∀ sp ∈ pieces, ∃ i l, L[i]? = some l ∧ sp.s.line = n + i ∧
      src.clipped sp = .ok ⟨l, src.metrics, sp.s⟩ := by
  intro pieces
  induction pieces with
  | nil => intro n L _ sp hsp; simp at hsp
  | cons sp0 more ih =>
    intro n L hp sp hsp
    cases L with
    | nil => simp [PiecesOK] at hp
    | cons l ls =>
      obtain ⟨hc, _, hline, hmore⟩ := hp
      rcases List.mem_cons.mp hsp with rfl | hm
      · exact ⟨0, l, by simp, by simp [hline], hc⟩
      · obtain ⟨i, l', h1, h2, h3⟩ := ih (n + 1) ls hmore sp hm
        exact ⟨i + 1, l', by simpa using h1, by omega, h3⟩

/-- Layout for a display built from a canonical span: the rendered display is the
specification's rows over the lines that `SplitLines` yields. -/
theorem writeSpanDisplay_layout_canon (m : Metrics) (a mid z : Text)
    (hwf : Text.WF (a ++ mid ++ z)) (sd : SpanDisplay) (hspan : sd.span = widenSpec m a mid z)
    (hnotes : sd.notes = [])
    (hlen : (sd.highlights.filter (·.isMultiline)).length < 256)
    (hok : ∀ h ∈ sd.highlights, HlOK h) :
    ∃ pieces n,
      (SplitLines.ofSpan sd.span ⟨a ++ mid ++ z, m, Pos.zero⟩).collect
        (sd.span.e.line - sd.span.s.line + 2) = .ok (pieces, n) ∧
      writeSpanDisplay plainPaint false ⟨a ++ mid ++ z, m, Pos.zero⟩ sd =
        .ok ("\n".intercalate (displayRows sd.name sd.span sd.gutter
              (pieceLines (a ++ mid ++ z) (pieces.map (·.2))) sd.highlights) ++ "\n") := by
  obtain ⟨a0, mid', rem, hT, hw, hb1, hb2⟩ := widen_canon m a mid z
  have hwf' : Text.WF (a0 ++ mid' ++ rem) := by rw [← hT]; exact hwf
  have hcol := collect_wide m a0 mid' rem hwf' hb1 hb2
  have hp := pieces_ok m rem (linesOf m mid') a0 mid' rfl hwf' hb1 hb2
  have hsp : sd.span = ⟨canon m a0, canon m (a0 ++ mid')⟩ := by rw [hspan, hw]
  rw [hT]
  refine ⟨splitSpec m a0 mid' rem, 0, by rw [hsp]; exact hcol, ?_⟩
  obtain ⟨hl1, hl2⟩ := pieceLines_eq _ _ _ _ hp
  simp only [] at hl1
  have hmap : (splitSpec m a0 mid' rem).map (·.2.s.line) =
      ((splitSpec m a0 mid' rem).map (·.2)).map (·.s.line) := by simp
  apply writeSpanDisplay_layout _ sd (splitSpec m a0 mid' rem) 0
    (by rw [hsp]; exact hcol) hnotes hlen hok
  · rw [hmap]
    simp only [splitSpec] at hl1 hl2 ⊢
    rw [hl1, hl2]
  · rw [hmap]
    simp only [splitSpec] at hl2 ⊢
    rw [hl2]
    exact numbered_sorted _ _
  · intro p hpm
    have hpm' : p.2 ∈ (splitSpec m a0 mid' rem).map (·.2) := List.mem_map.mpr ⟨p, hpm, rfl⟩
    obtain ⟨i, l, h1, h2, h3⟩ := pieces_mem _ _ _ _ hp p.2 hpm'
    refine ⟨_, h3, ?_⟩
    simp only [splitSpec] at hl1 ⊢
    rw [hl1, h2, numbered_find _ _ _ _ h1]
    rfl

/-! ### 5e. the whole report -/

theorem writeSpanDisplays_join (src : Source) (rowsOf : SpanDisplay → List String) :
    ∀ (sds : List SpanDisplay),
    (∀ sd ∈ sds, rowsOf sd ≠ [] ∧
      writeSpanDisplay plainPaint false src sd = .ok ("\n".intercalate (rowsOf sd) ++ "\n")) →
    writeSpanDisplays plainPaint false src sds =
      .ok (String.join ((sds.flatMap rowsOf).map (· ++ "\n"))) := by
  intro sds
  induction sds with
  | nil => intro _; simp [writeSpanDisplays]
  | cons sd more ih =>
    intro h
    obtain ⟨hne, hsd⟩ := h sd (by simp)
    have hmore := ih (fun sd' hm => h sd' (by simp [hm]))
    simp only [writeSpanDisplays, hsd, hmore, intercalate_newline _ hne, List.flatMap_cons,
      List.map_append, String.join_append]

/-- the whole plain report is the specification's report rows, once every display is -/
theorem writeCodeDisplay_layout (src : Source) (cd : CodeDisplay) (hcolor : cd.colorEnabled = false)
    (hnotes : cd.notes = []) (linesFor : SpanDisplay → List (Nat × String))
    (h : ∀ sd ∈ cd.spans, writeSpanDisplay plainPaint false src sd =
      .ok ("\n".intercalate (displayRows sd.name sd.span sd.gutter (linesFor sd) sd.highlights) ++ "\n")) :
    writeCodeDisplay plainPaint src cd =
      .ok ("\n".intercalate (reportRows cd.mtype cd.message
        (cd.spans.map fun sd => (sd.name, sd.span, sd.gutter, linesFor sd, sd.highlights))) ++ "\n") := by
  have hj := writeSpanDisplays_join src
    (fun sd => displayRows sd.name sd.span sd.gutter (linesFor sd) sd.highlights) cd.spans
    (fun sd hsd => ⟨by simp [displayRows], h sd hsd⟩)
  unfold writeCodeDisplay
  simp only [hcolor, hj, hnotes, List.map_nil, String.join_nil, String.append_empty,
    Bool.false_eq_true, if_false, writeMType]
  rw [reportRows, intercalate_newline _ (by simp), List.flatMap_map]
  simp only [List.map_cons, String.join_cons, String.append_assoc]

/-! ### 6. stripping the escape codes of one painted string -/

open Tephra.Fam.RenderF in
/-- `stripAnsi.go` without the fuel -/
def strip' : List Nat → Bool → List Nat
  | [], _ => []
  | c :: rest, true => if c == 109 then strip' rest false else strip' rest true
  | c :: rest, false => if c == 27 then strip' rest true else c :: strip' rest false

open Tephra.Fam.RenderF in
theorem go_eq_strip' : ∀ (cs : List Nat) (f : Nat) (b : Bool), cs.length < f →
    stripAnsi.go f cs b = strip' cs b := by
  intro cs
  induction cs with
  | nil => intro f b h; cases f <;> simp [stripAnsi.go, strip']
  | cons c rest ih =>
    intro f b h
    cases f with
    | zero => simp at h
    | succ n =>
      have hn : rest.length < n := by simp at h; omega
      cases b <;> simp [stripAnsi.go, strip', ih n _ hn]

theorem strip'_plain (cs rest : List Nat) (h : ∀ c ∈ cs, c ≠ 27) :
    strip' (cs ++ rest) false = cs ++ strip' rest false := by
  induction cs with
  | nil => rfl
  | cons c cs ih =>
    have hc : (c == 27) = false := by simpa using h c (by simp)
    simp only [List.cons_append, strip', hc, Bool.false_eq_true, if_false,
      ih (fun c' hc' => h c' (by simp [hc']))]

open Tephra.Fam.RenderF in
/-- removing the escape sequences from one painted string gives the string back -/
theorem stripAnsi_ansi (st : Style) (s : String) (h : ∀ c ∈ s.toList, c.toNat ≠ 27) :
    stripAnsi ((ansi st s).toList.map (·.toNat)) = s.toList.map (·.toNat) := by
  unfold stripAnsi
  rw [go_eq_strip' _ _ _ (Nat.lt_succ_self _)]
  have hs : ∀ c ∈ s.toList.map (·.toNat), c ≠ 27 := by
    intro c hc
    obtain ⟨ch, hch, rfl⟩ := List.mem_map.mp hc
    exact h ch hch
  have key : ∀ rest, strip' (s.toList.map (·.toNat) ++ rest) false =
      s.toList.map (·.toNat) ++ strip' rest false := fun rest => strip'_plain _ rest hs
  obtain ⟨color, bold⟩ := st
  cases color <;> cases bold <;>
    simp [ansi, String.toList_append, List.map_append, strip', key]

end Tephra.RenderPf
